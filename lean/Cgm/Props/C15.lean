import Cgm.Props.C11
import Cgm.Props.C04
/-!
# C15 — between_vectors and from_arc return the shortest rotation taking a onto b

The `approx` relation is a parameter (`[Approx ℝ]`, any relation at all): the theorems are stated
per branch, so nothing is claimed about which nearly-parallel inputs the relation treats as
parallel — that latitude is what the property grants.
-/
set_option linter.unusedSectionVars false
namespace Cg.C15
open Cg Real

attribute [simp] Quat.fromAxisAngle

section algebraic
variable {K : Type} [CommRing K]
/-- core identity of the half-way quaternion: `v × (v × a + s a) = (1 + a·b)(b - a)` for unit `a`, `b`,
`s = 1 + a·b`, `v = a × b` -/
theorem halfway_identity (a b : V3 K) (ha : V3.dot a a = 1) (hb : V3.dot b b = 1) :
    V3.cross (V3.cross a b) (V3.cross (V3.cross a b) a + a * (1 + V3.dot a b)) = (b - a) * (1 + V3.dot a b) ∧
    (1 + V3.dot a b) * (1 + V3.dot a b) + (V3.cross a b).magnitude2 = 2 * (1 + V3.dot a b) := by
  have ha' : a.x * a.x + (a.y * a.y + a.z * a.z) = 1 := by simpa using ha
  have hb' : b.x * b.x + (b.y * b.y + b.z * b.z) = 1 := by simpa using hb
  obtain ⟨ax, ay, az⟩ := a
  obtain ⟨bx, by', bz⟩ := b
  simp only at ha' hb'
  constructor
  · ext <;> simp
    · linear_combination (-ax*by'^2 - ax*bz^2 + ay*bx*by' + az*bx*bz + bx) * ha' + (-ax) * hb'
    · linear_combination (ax*bx*by' - ay*bx^2 - ay*bz^2 + az*by'*bz + by') * ha' + (-ay) * hb'
    · linear_combination (ax*bx*bz + ay*by'*bz - az*bx^2 - az*by'^2 + bz) * ha' + (-az) * hb'
  · simp
    linear_combination (bx^2 + by'^2 + bz^2) * ha' + (1) * hb'
/-- a half turn about a unit axis `n ⟂ a` sends `a` to `-a` -/
theorem half_turn (a n : V3 K) (hn : V3.dot n n = 1) (hna : V3.dot n a = 0) :
    Quat.fromSv 0 n * a = -a ∧ (Quat.fromSv (0 : K) n).magnitude2 = 1 := by
  have hn' : n.x * n.x + (n.y * n.y + n.z * n.z) = 1 := by simpa using hn
  have hna' : n.x * a.x + (n.y * a.y + n.z * a.z) = 0 := by simpa using hna
  constructor
  · ext <;> simp
    · linear_combination (-2 * a.x) * hn' + (2 * n.x) * hna'
    · linear_combination (-2 * a.y) * hn' + (2 * n.y) * hna'
    · linear_combination (-2 * a.z) * hn' + (2 * n.z) * hna'
  · simpa using hn'
/-- 2-D: the rotation with cosine `a·b` and sine `a⊥·b` sends unit `a` to `b` -/
theorem rot2_maps (a b : V2 K) (ha : V2.dot a a = 1) :
    M2.new (V2.dot a b) (V2.perpDot a b) (-V2.perpDot a b) (V2.dot a b) * a = b := by
  have ha' : a.x * a.x + a.y * a.y = 1 := by simpa using ha
  ext <;> simp
  · linear_combination (b.x) * ha'
  · linear_combination (b.y) * ha'
end algebraic

variable [Lits ℝ] [Approx ℝ]

/-! ## Rotation::between_vectors for Quaternion / Basis3 -/
/-- general branch: a unit quaternion with `r a = b`, scalar part `cos(θ/2) = sqrt((1 + a·b)/2)`,
axis along `a × b` -/
theorem betweenVectors_general (a b : V3 ℝ) (ha : V3.dot a a = 1) (hb : V3.dot b b = 1)
    (hc : 0 < 1 + V3.dot a b) (hbr : Quat.betweenVectorsBranch a b = .general) :
    let r := Quat.betweenVectors a b
    r.magnitude2 = 1 ∧ r * a = b ∧ r.s = Real.sqrt ((1 + V3.dot a b) / 2) ∧
    (∃ k : ℝ, 0 < k ∧ r.v = V3.cross a b * k) ∧ (Basis3.betweenVectors a b).mat = r.toM3 := by
  intro r
  obtain ⟨id1, id2⟩ := halfway_identity a b ha hb
  have hk : Real.sqrt (a.magnitude2 * b.magnitude2) = 1 := by
    have e1 : a.magnitude2 = 1 := ha
    have e2 : b.magnitude2 = 1 := hb
    rw [e1, e2]; simp
  -- the unnormalised quaternion
  set q : Quat ℝ := Quat.fromSv (1 + V3.dot a b) (V3.cross a b) with hq
  have hr : r = q.normalize := by
    show Quat.betweenVectors a b = _
    unfold Quat.betweenVectorsBranch at hbr
    unfold Quat.betweenVectors
    simp only [transc_sqrt, hk] at hbr ⊢
    split_ifs at hbr with h1 h2
    simp only [h1, h2, if_false, Bool.false_eq_true]
    rfl
  set c := V3.dot a b with hcd
  set N := Real.sqrt (2 * (1 + c)) with hN
  have hNpos : 0 < N := Real.sqrt_pos.mpr (by linarith)
  have hNN : N * N = 2 * (1 + c) := Real.mul_self_sqrt (by linarith)
  have hqm : q.magnitude2 = N * N := by
    rw [hNN, ← id2]; simp [hq]
  have hmag : q.magnitude = N := by
    simp only [Quat.magnitude, transc_sqrt, hqm]; exact Real.sqrt_mul_self hNpos.le
  have hnorm : q.normalize = q * (1 / N) := by simp only [Quat.normalize, Quat.normalizeTo, hmag]
  have hne : N ≠ 0 := hNpos.ne'
  have hii : (1 / N) * (1 / N) * (2 * (1 + c)) = 1 := by rw [← hNN]; field_simp
  refine ⟨?_, ?_, ?_, ⟨1 / N, by positivity, ?_⟩, rfl⟩
  · rw [hr, hnorm]
    have : (q * (1 / N)).magnitude2 = q.magnitude2 * ((1 / N) * (1 / N)) := by simp; ring
    rw [this, hqm]; field_simp
  · -- rotation: a + 2 i² v × (v × a + s a) = a + 2 i² (1 + c)(b - a) = b
    rw [hr, hnorm]
    have e : (q * (1 / N)) * a
        = a + V3.cross (V3.cross a b) (V3.cross (V3.cross a b) a + a * (1 + c)) * (2 * ((1 / N) * (1 / N))) := by
      rw [hq]; ext <;> simp <;> ring
    rw [e, id1]
    ext <;> simp
    · linear_combination (b.x - a.x) * hii
    · linear_combination (b.y - a.y) * hii
    · linear_combination (b.z - a.z) * hii
  · rw [hr, hnorm]
    show (1 + c) * (1 / N) = _
    have h2 : (1 + c) / 2 = ((1 + c) * (1 / N)) ^ 2 := by
      rw [mul_pow]; field_simp; rw [sq, hNN]; ring
    rw [h2, Real.sqrt_sq (by positivity)]
  · rw [hr, hnorm]; simp [hq]
/-- parallel branch: the identity rotation (and it maps `a` to `a`) -/
theorem betweenVectors_same (a b : V3 ℝ) (hbr : Quat.betweenVectorsBranch a b = .same) :
    Quat.betweenVectors a b = Quat.one ∧ (Quat.one : Quat ℝ) * a = a := by
  constructor
  · unfold Quat.betweenVectorsBranch at hbr
    unfold Quat.betweenVectors
    simp only at hbr ⊢
    split_ifs at hbr with h1
    simp only [h1, if_true]
  · ext <;> simp
/-- antiparallel branch: a half turn about a unit axis perpendicular to `a` -/
theorem betweenVectors_opposite (a b : V3 ℝ) (hbr : Quat.betweenVectorsBranch a b = .opposite) :
    ∃ o : V3 ℝ, V3.dot o a = 0 ∧ Quat.betweenVectors a b = Quat.fromSv 0 o.normalize ∧
      (0 < o.magnitude2 → Quat.fromSv 0 o.normalize * a = -a ∧ (Quat.fromSv (0:ℝ) o.normalize).magnitude2 = 1) := by
  unfold Quat.betweenVectorsBranch at hbr
  simp only at hbr
  split_ifs at hbr with h1 h2
  have key : ∀ o : V3 ℝ, V3.dot o a = 0 → 0 < o.magnitude2 →
      Quat.fromSv 0 o.normalize * a = -a ∧ (Quat.fromSv (0:ℝ) o.normalize).magnitude2 = 1 := by
    intro o ho hpos
    have hm : 0 < o.magnitude := by simp only [V3.magnitude, transc_sqrt]; exact Real.sqrt_pos.mpr hpos
    have hsq : o.magnitude * o.magnitude = o.magnitude2 := by
      have := (Cg.C11.V3.magnitude_sq o).1; rw [← this]; ring
    have hne : o.magnitude ≠ 0 := hm.ne'
    have hn : V3.dot o.normalize o.normalize = 1 := by
      have e : V3.dot o.normalize o.normalize = (1 / o.magnitude) * (1 / o.magnitude) * o.magnitude2 := by
        simp only [V3.normalize, V3.normalizeTo]; simp; ring
      rw [e, ← hsq]; field_simp
    have hna : V3.dot o.normalize a = 0 := by
      have e : V3.dot o.normalize a = (1 / o.magnitude) * V3.dot o a := by
        simp only [V3.normalize, V3.normalizeTo]; simp; ring
      rw [e, ho, mul_zero]
    exact half_turn a o.normalize hn hna
  by_cases h3 : ulpsEqD (V3.cross a V3.unitX).magnitude2 (0:ℝ) = true
  · refine ⟨V3.cross a V3.unitY, by simp; ring, ?_, key _ (by simp; ring)⟩
    unfold Quat.betweenVectors; simp only [h1, h2, h3, if_true, if_false, Bool.false_eq_true]
  · refine ⟨V3.cross a V3.unitX, by simp; ring, ?_, key _ (by simp; ring)⟩
    unfold Quat.betweenVectors; simp only [h1, h2, h3, if_true, if_false, Bool.false_eq_true]

/-! ## Basis2 (2-D) -/
/-- the 2-D rotation turns `a` onto `b`, is `from_angle` of the signed angle `V2.angle a b = atan2(a⊥·b, a·b)`, and has
determinant 1 (the orientation reading -- clockwise when `b` is clockwise of `a` -- is not a conjunct: it is what the sign
convention of `V2.angle` means, see `V2.angle_spec` in `Props/C11.lean`) -/
theorem basis2_betweenVectors (a b : V2 ℝ) (ha : V2.dot a a = 1) (hb : V2.dot b b = 1) :
    (Basis2.betweenVectors a b).rotateVector a = b ∧
    (Basis2.betweenVectors a b).mat = M2.fromAngle (V2.angle a b) ∧
    (Basis2.betweenVectors a b).mat.det = 1 := by
  have lag : V2.dot a b * V2.dot a b + V2.perpDot a b * V2.perpDot a b = 1 := by
    have ha' : a.x * a.x + a.y * a.y = 1 := by simpa using ha
    have hb' : b.x * b.x + b.y * b.y = 1 := by simpa using hb
    simp; linear_combination (b.x * b.x + b.y * b.y) * ha' + hb'
  have hne : V2.dot a b ≠ 0 ∨ V2.perpDot a b ≠ 0 := by
    by_contra hcon; rw [not_or, not_not, not_not] at hcon
    rw [hcon.1, hcon.2] at lag; linarith
  obtain ⟨c1, s1, _, _⟩ := atan2_spec (V2.perpDot a b) (V2.dot a b) hne
  rw [lag, Real.sqrt_one, one_mul] at c1 s1
  have hm : (Basis2.betweenVectors a b).mat
      = M2.new (V2.dot a b) (V2.perpDot a b) (-V2.perpDot a b) (V2.dot a b) := by
    show M2.fromAngle _ = _
    simp only [M2.fromAngle, transc_sin, transc_cos, transc_atan2, c1, s1]
  refine ⟨?_, rfl, ?_⟩
  · show (Basis2.betweenVectors a b).mat * a = b
    rw [hm]; exact rot2_maps a b ha
  · rw [hm]; simp only [M2.det, M2.new]; linarith

/-! ## Quaternion::from_arc -/
theorem fromArc_branches (src dst : V3 ℝ) (fb : Option (V3 ℝ)) :
    (Quat.fromArcBranch src dst = .same → Quat.fromArc src dst fb = Quat.one) ∧
    (Quat.fromArcBranch src dst = .general → Quat.fromArc src dst fb =
      (Quat.fromSv (Real.sqrt (src.magnitude2 * dst.magnitude2) + V3.dot src dst) (V3.cross src dst)).normalize) ∧
    (Quat.fromArcBranch src dst = .opposite → ∀ f, fb = some f →
      Quat.fromArc src dst fb = Quat.fromAxisAngle f ((Lits.radFull : ℝ) / 2)) := by
  unfold Quat.fromArcBranch Quat.fromArc
  simp only [transc_sqrt]
  refine ⟨?_, ?_, ?_⟩
  · intro h; split_ifs at h with h1; simp only [h1, if_true]
  · intro h; split_ifs at h with h1 h2; simp only [h1, h2, if_false, Bool.false_eq_true]
  · intro h f hf; split_ifs at h with h1 h2; subst hf
    simp only [h1, h2, if_true, if_false, Bool.false_eq_true, Angle.turnDiv, Nat.cast_ofNat]
/-- the general branch of `from_arc` for arbitrary lengths is the unit case applied to the
normalised directions: it rotates `src/|src|` onto `dst/|dst|` -/
theorem fromArc_general (src dst : V3 ℝ) (hs : 0 < src.magnitude2) (hd : 0 < dst.magnitude2)
    (hc : 0 < Real.sqrt (src.magnitude2 * dst.magnitude2) + V3.dot src dst) :
    let r := (Quat.fromSv (Real.sqrt (src.magnitude2 * dst.magnitude2) + V3.dot src dst) (V3.cross src dst)).normalize
    r.magnitude2 = 1 ∧ r * (src * (1 / src.magnitude)) = dst * (1 / dst.magnitude) := by
  intro r
  -- unit directions
  set ls := src.magnitude with hls
  set ld := dst.magnitude with hld
  have hls0 : 0 < ls := by simp only [hls, V3.magnitude, transc_sqrt]; exact Real.sqrt_pos.mpr hs
  have hld0 : 0 < ld := by simp only [hld, V3.magnitude, transc_sqrt]; exact Real.sqrt_pos.mpr hd
  have hls2 : ls * ls = src.magnitude2 := by
    have := (Cg.C11.V3.magnitude_sq src).1; rw [← this, hls]; ring
  have hld2 : ld * ld = dst.magnitude2 := by
    have := (Cg.C11.V3.magnitude_sq dst).1; rw [← this, hld]; ring
  have hm : Real.sqrt (src.magnitude2 * dst.magnitude2) = ls * ld := by
    rw [← hls2, ← hld2, show ls * ls * (ld * ld) = (ls * ld) * (ls * ld) by ring]
    exact Real.sqrt_mul_self (by positivity)
  set a := src * (1 / ls) with ha
  set b := dst * (1 / ld) with hb
  have hsne : ls ≠ 0 := hls0.ne'
  have hdne : ld ≠ 0 := hld0.ne'
  have ua : V3.dot a a = 1 := by
    have e : V3.dot a a = (1 / ls) * (1 / ls) * src.magnitude2 := by rw [ha]; simp; ring
    rw [e, ← hls2]; field_simp
  have ub : V3.dot b b = 1 := by
    have e : V3.dot b b = (1 / ld) * (1 / ld) * dst.magnitude2 := by rw [hb]; simp; ring
    rw [e, ← hld2]; field_simp
  -- the quaternion is (ls ld) times the unit-case quaternion
  have hdot : V3.dot src dst = ls * ld * V3.dot a b := by rw [ha, hb]; simp; field_simp
  have hcross : V3.cross src dst = V3.cross a b * (ls * ld) := by
    rw [ha, hb]; ext <;> simp <;> field_simp
  have hc' : 0 < 1 + V3.dot a b := by
    rw [hm, hdot] at hc
    have : 0 < ls * ld * (1 + V3.dot a b) := by linarith
    exact (mul_pos_iff_of_pos_left (by positivity)).mp this
  obtain ⟨id1, id2⟩ := halfway_identity a b ua ub
  set c := V3.dot a b with hcd
  set q0 : Quat ℝ := Quat.fromSv (1 + c) (V3.cross a b) with hq0
  have hq : Quat.fromSv (Real.sqrt (src.magnitude2 * dst.magnitude2) + V3.dot src dst) (V3.cross src dst)
      = q0 * (ls * ld) := by
    rw [hm, hdot, hcross, hq0]; ext <;> simp <;> ring
  set N := Real.sqrt (2 * (1 + c)) with hN
  have hNpos : 0 < N := Real.sqrt_pos.mpr (by linarith)
  have hNN : N * N = 2 * (1 + c) := Real.mul_self_sqrt (by linarith)
  have hq0m : q0.magnitude2 = N * N := by rw [hNN, ← id2]; simp [hq0]
  have hqm : (q0 * (ls * ld)).magnitude2 = (N * (ls * ld)) * (N * (ls * ld)) := by
    have : (q0 * (ls * ld)).magnitude2 = q0.magnitude2 * ((ls * ld) * (ls * ld)) := by simp; ring
    rw [this, hq0m]; ring
  have hmag : (q0 * (ls * ld)).magnitude = N * (ls * ld) := by
    simp only [Quat.magnitude, transc_sqrt, hqm]; exact Real.sqrt_mul_self (by positivity)
  have hr : r = q0 * (1 / N) := by
    show (Quat.fromSv _ _).normalize = _
    rw [hq]; simp only [Quat.normalize, Quat.normalizeTo, hmag]
    have hne : N ≠ 0 := hNpos.ne'
    ext <;> simp <;> field_simp
  have hne : N ≠ 0 := hNpos.ne'
  have hii : (1 / N) * (1 / N) * (2 * (1 + c)) = 1 := by rw [← hNN]; field_simp
  constructor
  · rw [hr]
    have : (q0 * (1 / N)).magnitude2 = q0.magnitude2 * ((1 / N) * (1 / N)) := by simp; ring
    rw [this, hq0m]; field_simp
  · rw [hr]
    have e : (q0 * (1 / N)) * a
        = a + V3.cross (V3.cross a b) (V3.cross (V3.cross a b) a + a * (1 + c)) * (2 * ((1 / N) * (1 / N))) := by
      rw [hq0]; ext <;> simp <;> ring
    rw [e, id1]
    ext <;> simp
    · linear_combination (b.x - a.x) * hii
    · linear_combination (b.y - a.y) * hii
    · linear_combination (b.z - a.z) * hii

end Cg.C15
