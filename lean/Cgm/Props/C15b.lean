import Cgm.Props.C15
import Cgm.Props.C05
import Mathlib.Analysis.SpecialFunctions.Trigonometric.Bounds
/-!
# C15 (continued) — between_vectors / from_arc: glue to the model functions, rotation angle,
opposite branches, tolerance clause
-/
set_option linter.unusedSectionVars false
namespace Cg.C15
open Cg Real

section main
variable [Lits ℝ] [Approx ℝ]

/-! ## 1. from_arc, general branch, stated about `Quat.fromArc` itself -/

/-- the scalar part of a normalised quaternion has the sign of the original scalar part -/
theorem normalize_s_pos (q : Quat ℝ) (h : 0 < q.s) : 0 < q.normalize.s := by
  have hm2 : 0 < q.magnitude2 := by
    simp; nlinarith [mul_self_nonneg q.v.x, mul_self_nonneg q.v.y, mul_self_nonneg q.v.z, mul_pos h h]
  have hm : 0 < q.magnitude := by
    simp only [Quat.magnitude, transc_sqrt]; exact Real.sqrt_pos.mpr hm2
  show 0 < q.s * (1 / q.magnitude)
  positivity

/-- `from_arc`, general branch: a unit quaternion rotating `src/|src|` onto `dst/|dst|` with positive
scalar part (`cos(θ/2) > 0`, i.e. rotation angle `θ < π`: the smaller angle) -/
theorem fromArc_general_glued (src dst : V3 ℝ) (fb : Option (V3 ℝ))
    (hbr : Quat.fromArcBranch src dst = .general)
    (hs : 0 < src.magnitude2) (hd : 0 < dst.magnitude2)
    (hc : 0 < Real.sqrt (src.magnitude2 * dst.magnitude2) + V3.dot src dst) :
    let r := Quat.fromArc src dst fb
    r.magnitude2 = 1 ∧ r * (src * (1 / src.magnitude)) = dst * (1 / dst.magnitude) ∧ 0 < r.s := by
  intro r
  have hr : r = (Quat.fromSv (Real.sqrt (src.magnitude2 * dst.magnitude2) + V3.dot src dst)
      (V3.cross src dst)).normalize := (fromArc_branches src dst fb).2.1 hbr
  obtain ⟨h1, h2⟩ := fromArc_general src dst hs hd hc
  rw [hr]
  exact ⟨h1, h2, normalize_s_pos _ hc⟩

/-- `from_arc`, general branch: the rotation angle `2 acos(r.s)` is `src.angle(dst)`
(so `r.s = cos(θ/2)`) -/
theorem fromArc_angle (src dst : V3 ℝ) (fb : Option (V3 ℝ))
    (hbr : Quat.fromArcBranch src dst = .general)
    (hs : 0 < src.magnitude2) (hd : 0 < dst.magnitude2)
    (hc : 0 < Real.sqrt (src.magnitude2 * dst.magnitude2) + V3.dot src dst) :
    2 * Real.arccos (Quat.fromArc src dst fb).s = V3.angle src dst := by
  have hr := (fromArc_branches src dst fb).2.1 hbr
  set m := Real.sqrt (src.magnitude2 * dst.magnitude2) with hm
  set d := V3.dot src dst with hdd
  have hm0 : 0 < m := Real.sqrt_pos.mpr (mul_pos hs hd)
  have hmm : m * m = src.magnitude2 * dst.magnitude2 := Real.mul_self_sqrt (mul_pos hs hd).le
  have lag : d * d + (V3.cross src dst).magnitude2 = m * m := by rw [hmm, hdd]; simp; ring
  obtain ⟨h1, h2, h3, _⟩ := Cg.C11.V3.angle_spec src dst hs hd
  have hmag : src.magnitude * dst.magnitude = m := by
    simp only [V3.magnitude, transc_sqrt, hm]; exact (Real.sqrt_mul hs.le _).symm
  rw [hmag] at h1
  set θ := V3.angle src dst with hθ
  set c2 := Real.cos (θ / 2) with hc2
  have hpi := Real.pi_pos
  have hcos : Real.cos θ = 2 * c2 ^ 2 - 1 := by
    have e : θ = 2 * (θ / 2) := by ring
    conv_lhs => rw [e]
    rw [Real.cos_two_mul]
  have hc20 : 0 ≤ c2 := Real.cos_nonneg_of_neg_pi_div_two_le_of_le (by linarith) (by linarith)
  have hmd : m + d = 2 * m * c2 ^ 2 := by rw [hdd, ← h1, hcos]; ring
  have hc2pos : 0 < c2 := by
    rcases hc20.lt_or_eq with h | h
    · exact h
    · exfalso; rw [← h] at hmd; linarith
  set q : Quat ℝ := Quat.fromSv (m + d) (V3.cross src dst) with hq
  have hqm2 : q.magnitude2 = (2 * m * c2) * (2 * m * c2) := by
    have : q.magnitude2 = (m + d) * (m + d) + (V3.cross src dst).magnitude2 := by simp [hq]
    rw [this]
    have : (V3.cross src dst).magnitude2 = m * m - d * d := by linarith
    rw [this]
    have : d = 2 * m * c2 ^ 2 - m := by linarith
    rw [this]; ring
  have hqmag : q.magnitude = 2 * m * c2 := by
    simp only [Quat.magnitude, transc_sqrt, hqm2]; exact Real.sqrt_mul_self (by positivity)
  have hs' : (Quat.fromArc src dst fb).s = c2 := by
    rw [hr]
    show (m + d) * (1 / q.magnitude) = c2
    rw [hqmag, hmd]
    field_simp
  rw [hs', hc2, Real.arccos_cos (by linarith) (by linarith)]
  ring

/-- Cauchy–Schwarz in the form `0 ≤ sqrt(|s|²|d|²) + s·d`, with equality only for antiparallel
vectors (`s·d = -sqrt(|s|²|d|²)`) -/
theorem magAvg_add_dot_nonneg (src dst : V3 ℝ) :
    0 ≤ Real.sqrt (src.magnitude2 * dst.magnitude2) + V3.dot src dst := by
  have cs : (V3.dot src dst) ^ 2 ≤ src.magnitude2 * dst.magnitude2 := by
    simp
    nlinarith [sq_nonneg (src.x * dst.y - src.y * dst.x), sq_nonneg (src.x * dst.z - src.z * dst.x),
      sq_nonneg (src.y * dst.z - src.z * dst.y)]
  have := Real.abs_le_sqrt cs
  have := (abs_le.mp this).1
  linarith

/-- if the approximate comparison is reflexive (as `ulps_eq!` is on non-NaN floats), the positivity
hypothesis of the general branch is automatic: exactly antiparallel inputs take the `.opposite`
branch -/
theorem fromArc_general_of_refl (src dst : V3 ℝ) (fb : Option (V3 ℝ))
    (hrefl : ∀ x : ℝ, ulpsEqD x x = true)
    (hbr : Quat.fromArcBranch src dst = .general)
    (hs : 0 < src.magnitude2) (hd : 0 < dst.magnitude2) :
    let r := Quat.fromArc src dst fb
    r.magnitude2 = 1 ∧ r * (src * (1 / src.magnitude)) = dst * (1 / dst.magnitude) ∧ 0 < r.s ∧
    2 * Real.arccos r.s = V3.angle src dst := by
  have h0 := magAvg_add_dot_nonneg src dst
  have hc : 0 < Real.sqrt (src.magnitude2 * dst.magnitude2) + V3.dot src dst := by
    rcases h0.lt_or_eq with h | h
    · exact h
    · exfalso
      have e : V3.dot src dst = -Real.sqrt (src.magnitude2 * dst.magnitude2) := by linarith
      unfold Quat.fromArcBranch at hbr
      simp only [transc_sqrt] at hbr
      rw [e] at hbr
      simp only [hrefl, if_true] at hbr
      split_ifs at hbr
  obtain ⟨k1, k2, k3⟩ := fromArc_general_glued src dst fb hbr hs hd hc
  exact ⟨k1, k2, k3, fromArc_angle src dst fb hbr hs hd hc⟩

/-! ## 2. between_vectors: the rotation angle is the angle between the vectors -/

/-- for unit `a`, `b` in the general branch the rotation angle `2 acos(r.s)` of
`between_vectors(a, b)` is `a.angle(b)` -/
theorem betweenVectors_angle (a b : V3 ℝ) (ha : V3.dot a a = 1) (hb : V3.dot b b = 1)
    (hc : 0 < 1 + V3.dot a b) (hbr : Quat.betweenVectorsBranch a b = .general) :
    2 * Real.arccos (Quat.betweenVectors a b).s = V3.angle a b := by
  obtain ⟨_, _, hs, _, _⟩ := betweenVectors_general a b ha hb hc hbr
  have ha2 : a.magnitude2 = 1 := ha
  have hb2 : b.magnitude2 = 1 := hb
  obtain ⟨h1, h2, h3, _⟩ := Cg.C11.V3.angle_spec a b (by rw [ha2]; norm_num) (by rw [hb2]; norm_num)
  have hma : a.magnitude = 1 := by simp only [V3.magnitude, transc_sqrt, ha2, Real.sqrt_one]
  have hmb : b.magnitude = 1 := by simp only [V3.magnitude, transc_sqrt, hb2, Real.sqrt_one]
  rw [hma, hmb, one_mul, one_mul] at h1
  set θ := V3.angle a b with hθ
  have hpi := Real.pi_pos
  have hhalf : Real.cos (θ / 2) = Real.sqrt ((1 + V3.dot a b) / 2) := by
    rw [Real.cos_half (by linarith) h3, h1]
  show 2 * Real.arccos (Quat.betweenVectors a b).s = θ
  rw [hs, ← hhalf, Real.arccos_cos (by linarith) (by linarith)]
  ring

/-- `Basis3::between_vectors(a, b)` rotates `a` onto `b` (general branch) -/
theorem basis3_betweenVectors (a b : V3 ℝ) (ha : V3.dot a a = 1) (hb : V3.dot b b = 1)
    (hc : 0 < 1 + V3.dot a b) (hbr : Quat.betweenVectorsBranch a b = .general) :
    (Basis3.betweenVectors a b).rotateVector a = b := by
  obtain ⟨_, hr, _, _, _⟩ := betweenVectors_general a b ha hb hc hbr
  show (Quat.betweenVectors a b).toM3 * a = b
  rw [Cg.C05.toM3_mulVec]
  exact hr

/-- with a reflexive approximate comparison the hypothesis `0 < 1 + a·b` of the general branch is
automatic for unit vectors -/
theorem one_add_dot_pos_of_refl (a b : V3 ℝ) (ha : V3.dot a a = 1) (hb : V3.dot b b = 1)
    (hrefl : ∀ x : ℝ, ulpsEqD x x = true)
    (hbr : Quat.betweenVectorsBranch a b = .general) : 0 < 1 + V3.dot a b := by
  have ha2 : a.magnitude2 = 1 := ha
  have hb2 : b.magnitude2 = 1 := hb
  have h0 := magAvg_add_dot_nonneg a b
  rw [ha2, hb2, one_mul, Real.sqrt_one] at h0
  rcases h0.lt_or_eq with h | h
  · exact h
  · exfalso
    have e : V3.dot a b = -1 := by linarith
    unfold Quat.betweenVectorsBranch at hbr
    simp only [transc_sqrt, ha2, hb2, one_mul, Real.sqrt_one, div_one] at hbr
    rw [e] at hbr
    simp only [hrefl, if_true] at hbr
    split_ifs at hbr

/-- all clauses of the general branch of `between_vectors` for unit vectors, assuming only that the
approximate comparison is reflexive -/
theorem betweenVectors_general_of_refl (a b : V3 ℝ) (ha : V3.dot a a = 1) (hb : V3.dot b b = 1)
    (hrefl : ∀ x : ℝ, ulpsEqD x x = true)
    (hbr : Quat.betweenVectorsBranch a b = .general) :
    let r := Quat.betweenVectors a b
    r.magnitude2 = 1 ∧ r * a = b ∧ (Basis3.betweenVectors a b).rotateVector a = b ∧
    2 * Real.arccos r.s = V3.angle a b ∧ 0 < r.s ∧
    V3.dot r.v a = 0 ∧ V3.dot r.v b = 0 := by
  intro r
  have hc := one_add_dot_pos_of_refl a b ha hb hrefl hbr
  obtain ⟨h1, h2, h3, ⟨k, hk, hv⟩, _⟩ := betweenVectors_general a b ha hb hc hbr
  refine ⟨h1, h2, basis3_betweenVectors a b ha hb hc hbr, betweenVectors_angle a b ha hb hc hbr, ?_, ?_, ?_⟩
  · show 0 < (Quat.betweenVectors a b).s
    rw [h3]; exact Real.sqrt_pos.mpr (by linarith)
  · show V3.dot (Quat.betweenVectors a b).v a = 0
    rw [hv]; simp; ring
  · show V3.dot (Quat.betweenVectors a b).v b = 0
    rw [hv]; simp; ring

/-! ## 3. from_arc, opposite branch -/

/-- `from_axis_angle(f, half turn)` for a unit `f ⟂ src` is a unit quaternion sending `src` to `-src`
(`Rad::full_turn() = 2π`) -/
theorem fromAxisAngle_half_turn (hpi : (Lits.radFull : ℝ) = 2 * π) (f src : V3 ℝ)
    (hf : V3.dot f f = 1) (hfs : V3.dot f src = 0) :
    let r := Quat.fromAxisAngle f (Angle.turnDiv (Lits.radFull : ℝ) 2)
    r = Quat.fromSv 0 f ∧ r.magnitude2 = 1 ∧ r * src = -src ∧ r.s = 0 := by
  intro r
  have hang : Angle.turnDiv (Lits.radFull : ℝ) 2 * half = π / 2 := by
    simp only [Angle.turnDiv, hpi, half_eq]; push_cast; ring
  have hr : r = Quat.fromSv 0 f := by
    show Quat.fromAxisAngle f _ = _
    simp only [Quat.fromAxisAngle, hang, transc_sin, transc_cos, Real.sin_pi_div_two, Real.cos_pi_div_two]
    ext <;> simp
  obtain ⟨h1, h2⟩ := half_turn src f hf hfs
  rw [hr]
  exact ⟨rfl, h2, h1, rfl⟩

/-- `from_arc`, opposite branch with a fallback axis `f` (unit, `⟂ src`): a half turn about `f`;
it sends `src/|src|` to `-src/|src|` -/
theorem fromArc_opposite_fallback (hpi : (Lits.radFull : ℝ) = 2 * π) (src dst f : V3 ℝ)
    (hbr : Quat.fromArcBranch src dst = .opposite)
    (hf : V3.dot f f = 1) (hfs : V3.dot f src = 0) :
    let r := Quat.fromArc src dst (some f)
    r = Quat.fromSv 0 f ∧ r.magnitude2 = 1 ∧ r * src = -src ∧
    r * (src * (1 / src.magnitude)) = -(src * (1 / src.magnitude)) := by
  intro r
  have hr : r = Quat.fromAxisAngle f (Angle.turnDiv (Lits.radFull : ℝ) 2) := by
    have := (fromArc_branches src dst (some f)).2.2 hbr f rfl
    show Quat.fromArc src dst (some f) = _
    rw [this]; simp only [Angle.turnDiv]; push_cast; rfl
  obtain ⟨h0, h1, h2, _⟩ := fromAxisAngle_half_turn hpi f src hf hfs
  have hfs' : V3.dot f (src * (1 / src.magnitude)) = 0 := by
    have e : V3.dot f (src * (1 / src.magnitude)) = V3.dot f src * (1 / src.magnitude) := by simp; ring
    rw [e, hfs, zero_mul]
  obtain ⟨_, _, h3, _⟩ := fromAxisAngle_half_turn hpi f (src * (1 / src.magnitude)) hf hfs'
  rw [hr]
  exact ⟨h0, h1, h2, h3⟩

/-- the axis `from_arc` picks when no fallback is given: `x̂ × src`, or `ŷ × src` when that is
approximately zero -/
noncomputable def arcAxis (src : V3 ℝ) : V3 ℝ :=
  if V3.ulpsEqZero (V3.cross V3.unitX src) then V3.cross V3.unitY src else V3.cross V3.unitX src

/-- a non-zero vector `⟂ src`, normalised, is unit and `⟂ src` -/
theorem normalize_perp (o src : V3 ℝ) (ho : V3.dot o src = 0) (hpos : 0 < o.magnitude2) :
    V3.dot o.normalize o.normalize = 1 ∧ V3.dot o.normalize src = 0 := by
  have hm : 0 < o.magnitude := by simp only [V3.magnitude, transc_sqrt]; exact Real.sqrt_pos.mpr hpos
  have hsq : o.magnitude * o.magnitude = o.magnitude2 := by
    have := (Cg.C11.V3.magnitude_sq o).1; rw [← this]; ring
  have hne : o.magnitude ≠ 0 := hm.ne'
  constructor
  · have e : V3.dot o.normalize o.normalize = (1 / o.magnitude) * (1 / o.magnitude) * o.magnitude2 := by
      simp only [V3.normalize, V3.normalizeTo]; simp; ring
    rw [e, ← hsq]; field_simp
  · have e : V3.dot o.normalize src = (1 / o.magnitude) * V3.dot o src := by
      simp only [V3.normalize, V3.normalizeTo]; simp; ring
    rw [e, ho, mul_zero]

theorem arcAxis_perp (src : V3 ℝ) : V3.dot (arcAxis src) src = 0 := by
  unfold arcAxis; split_ifs <;> (simp; ring)

/-- the axis picked by the code, normalised, is unit and `⟂ src` whenever it is non-zero -/
theorem arcAxis_spec (src : V3 ℝ) (hpos : 0 < (arcAxis src).magnitude2) :
    V3.dot (arcAxis src).normalize (arcAxis src).normalize = 1 ∧
    V3.dot (arcAxis src).normalize src = 0 :=
  normalize_perp _ src (arcAxis_perp src) hpos

/-- `from_arc`, opposite branch without fallback: a half turn about the normalised `arcAxis src`
(a unit quaternion sending `src` to `-src`), whenever that axis is non-zero -/
theorem fromArc_opposite_none (hpi : (Lits.radFull : ℝ) = 2 * π) (src dst : V3 ℝ)
    (hbr : Quat.fromArcBranch src dst = .opposite) (hpos : 0 < (arcAxis src).magnitude2) :
    let r := Quat.fromArc src dst none
    r = Quat.fromSv 0 (arcAxis src).normalize ∧ r.magnitude2 = 1 ∧ r * src = -src ∧
    r * (src * (1 / src.magnitude)) = -(src * (1 / src.magnitude)) := by
  intro r
  obtain ⟨hu, hp⟩ := arcAxis_spec src hpos
  have hr : r = Quat.fromArc src dst (some (arcAxis src).normalize) := by
    show Quat.fromArc src dst none = _
    unfold Quat.fromArc arcAxis
    rfl
  rw [hr]
  exact fromArc_opposite_fallback hpi src dst _ hbr hu hp

/-- `|x̂ × src|² + |ŷ × src|² ≥ |src|²`: the two candidate axes cannot both be short -/
theorem arc_candidates (src : V3 ℝ) :
    src.magnitude2 ≤ (V3.cross V3.unitX src).magnitude2 + (V3.cross V3.unitY src).magnitude2 := by
  simp; nlinarith [mul_self_nonneg src.z]

/-- the axis picked by `from_arc` is non-zero for `src ≠ 0`, provided the approximate zero test
accepts the exact zero vector and only accepts vectors shorter than `|src| / √2` -/
theorem arcAxis_pos (src : V3 ℝ) (hs : 0 < src.magnitude2)
    (h00 : ulpsEqD (0 : ℝ) 0 = true)
    (hz : ∀ v : V3 ℝ, V3.ulpsEqZero v = true → v.magnitude2 < src.magnitude2 / 2) :
    0 < (arcAxis src).magnitude2 := by
  have hc := arc_candidates src
  unfold arcAxis
  by_cases h : V3.ulpsEqZero (V3.cross V3.unitX src) = true
  · rw [if_pos h]
    have := hz _ h
    linarith
  · rw [if_neg h]
    rcases (Cg.C11.V3.magnitude2_nonneg (V3.cross V3.unitX src)).lt_or_eq with h1 | h1
    · exact h1
    · exfalso; apply h
      have hy : src.y = 0 := by
        have : src.y * src.y + src.z * src.z = 0 := by
          have := h1.symm; simp at this; linarith
        nlinarith [mul_self_nonneg src.y, mul_self_nonneg src.z]
      have hz' : src.z = 0 := by
        have : src.y * src.y + src.z * src.z = 0 := by
          have := h1.symm; simp at this; linarith
        nlinarith [mul_self_nonneg src.y, mul_self_nonneg src.z]
      simp [V3.ulpsEqZero, hy, hz', h00]

/-- `from_arc`, opposite branch, no fallback, with the axis condition of `fromArc_opposite_none` discharged; NOT unconditional: it
still assumes `h00` (`ulps_eq!(0, 0)`), `hz` (a vector that is `ulps_eq` to zero is shorter than `|src|/√2`) and `hpi`
(`radFull = 2π`).  These are discharged at the real instance, under the side condition `ε² < |src|²`, in `Props/C15c.lean`
(`fromArc_opposite_none_real`) -/
theorem fromArc_opposite_none' (hpi : (Lits.radFull : ℝ) = 2 * π) (src dst : V3 ℝ)
    (hbr : Quat.fromArcBranch src dst = .opposite) (hs : 0 < src.magnitude2)
    (h00 : ulpsEqD (0 : ℝ) 0 = true)
    (hz : ∀ v : V3 ℝ, V3.ulpsEqZero v = true → v.magnitude2 < src.magnitude2 / 2) :
    let r := Quat.fromArc src dst none
    r.magnitude2 = 1 ∧ r.s = 0 ∧ V3.dot r.v src = 0 ∧
    r * (src * (1 / src.magnitude)) = -(src * (1 / src.magnitude)) := by
  intro r
  have hpos := arcAxis_pos src hs h00 hz
  obtain ⟨h0, h1, _, h3⟩ := fromArc_opposite_none hpi src dst hbr hpos
  refine ⟨h1, ?_, ?_, h3⟩
  · show (Quat.fromArc src dst none).s = 0
    rw [h0]; rfl
  · show V3.dot (Quat.fromArc src dst none).v src = 0
    rw [h0]; exact (arcAxis_spec src hpos).2

/-! ## 4. between_vectors, opposite branch, without the axis hypothesis (still under `h00 : ulps_eq!(0, 0)` and
`hz : ulps_eq!(x, 0) → x < 1/2`; both discharged at the real instance in `Props/C15c.lean`, `betweenVectors_opposite_unit_real`) -/

/-- for a unit `a`: `|a × x̂|² + |a × ŷ|² ≥ 1` (it is `1 + a.z²`), so one of the two candidate axes has
squared length `≥ 1/2` -/
theorem bv_candidates (a : V3 ℝ) (ha : V3.dot a a = 1) :
    1 ≤ (V3.cross a V3.unitX).magnitude2 + (V3.cross a V3.unitY).magnitude2 ∧
    (1 / 2 ≤ (V3.cross a V3.unitX).magnitude2 ∨ 1 / 2 ≤ (V3.cross a V3.unitY).magnitude2) := by
  have ha' : a.x * a.x + (a.y * a.y + a.z * a.z) = 1 := by simpa using ha
  have h1 : 1 ≤ (V3.cross a V3.unitX).magnitude2 + (V3.cross a V3.unitY).magnitude2 := by
    simp; nlinarith [mul_self_nonneg a.z]
  refine ⟨h1, ?_⟩
  by_contra hcon
  rw [not_or, not_le, not_le] at hcon
  linarith [hcon.1, hcon.2]

/-- the axis `between_vectors` picks in the opposite branch (before normalisation) -/
noncomputable def bvAxis (a : V3 ℝ) : V3 ℝ :=
  if ulpsEqD (V3.cross a V3.unitX).magnitude2 (0 : ℝ) then V3.cross a V3.unitY else V3.cross a V3.unitX

theorem bvAxis_perp (a : V3 ℝ) : V3.dot (bvAxis a) a = 0 := by
  unfold bvAxis; split_ifs <;> (simp; ring)

/-- the picked axis is non-zero for unit `a`, provided the approximate zero test accepts `0` and
only accepts numbers `< 1/2` -/
theorem bvAxis_pos (a : V3 ℝ) (ha : V3.dot a a = 1)
    (h00 : ulpsEqD (0 : ℝ) 0 = true) (hz : ∀ x : ℝ, ulpsEqD x 0 = true → x < 1 / 2) :
    0 < (bvAxis a).magnitude2 := by
  have hc := (bv_candidates a ha).1
  unfold bvAxis
  by_cases h : ulpsEqD (V3.cross a V3.unitX).magnitude2 (0 : ℝ) = true
  · rw [if_pos h]
    have := hz _ h
    linarith
  · rw [if_neg h]
    rcases (Cg.C11.V3.magnitude2_nonneg (V3.cross a V3.unitX)).lt_or_eq with h1 | h1
    · exact h1
    · exfalso; apply h; rw [← h1]; exact h00

/-- `between_vectors`, opposite branch, for a unit `a`: a unit quaternion with zero scalar part (a half
turn) whose axis is the normalised `bvAxis a`, unit and `⟂ a`, and which sends `a` to `-a`; the same
for `Basis3`.  The only assumptions on the approximate comparison are `ulps_eq!(0, 0)` and
`ulps_eq!(x, 0) → x < 1/2`. -/
theorem betweenVectors_opposite_unit (a b : V3 ℝ) (ha : V3.dot a a = 1)
    (hbr : Quat.betweenVectorsBranch a b = .opposite)
    (h00 : ulpsEqD (0 : ℝ) 0 = true) (hz : ∀ x : ℝ, ulpsEqD x 0 = true → x < 1 / 2) :
    let r := Quat.betweenVectors a b
    let n := (bvAxis a).normalize
    r = Quat.fromSv 0 n ∧ V3.dot n n = 1 ∧ V3.dot n a = 0 ∧
    r.magnitude2 = 1 ∧ r.s = 0 ∧ V3.dot r.v a = 0 ∧ r * a = -a ∧
    (Basis3.betweenVectors a b).rotateVector a = -a := by
  intro r n
  have hpos := bvAxis_pos a ha h00 hz
  obtain ⟨hu, hp⟩ := normalize_perp (bvAxis a) a (bvAxis_perp a) hpos
  have hr : r = Quat.fromSv 0 n := by
    show Quat.betweenVectors a b = Quat.fromSv 0 (bvAxis a).normalize
    unfold Quat.betweenVectorsBranch at hbr
    simp only at hbr
    split_ifs at hbr with h1 h2
    unfold Quat.betweenVectors bvAxis
    simp only [h1, h2, if_true, if_false, Bool.false_eq_true]
  obtain ⟨k1, k2⟩ := half_turn a n hu hp
  have hra : r * a = -a := by rw [hr]; exact k1
  refine ⟨hr, hu, hp, by rw [hr]; exact k2, by rw [hr]; rfl, by rw [hr]; exact hp, hra, ?_⟩
  show (Quat.betweenVectors a b).toM3 * a = -a
  rw [Cg.C05.toM3_mulVec]; exact hra

/-- for exactly opposite unit vectors this is `r a = b` -/
theorem betweenVectors_opposite_exact (a : V3 ℝ) (ha : V3.dot a a = 1)
    (hbr : Quat.betweenVectorsBranch a (-a) = .opposite)
    (h00 : ulpsEqD (0 : ℝ) 0 = true) (hz : ∀ x : ℝ, ulpsEqD x 0 = true → x < 1 / 2) :
    Quat.betweenVectors a (-a) * a = -a ∧ (Quat.betweenVectors a (-a)).magnitude2 = 1 := by
  obtain ⟨_, _, _, h1, _, _, h2, _⟩ := betweenVectors_opposite_unit a (-a) ha hbr h00 hz
  exact ⟨h2, h1⟩

/-! ## 5. tolerance clause: which unit vectors the approximate tests may treat as (anti)parallel -/

/-- `f64::EPSILON = 2⁻⁵²` -/
noncomputable def eps64 : ℝ := (1 / 2) ^ 52

/-- `1 - cos θ ≤ δ` with `θ ∈ [0, π]` forces `θ < B` as soon as `8 δ < B²` (Jordan's inequality
`sin t ≥ 2t/π` gives `θ² ≤ δ π² / 2 ≤ 8 δ`) -/
theorem angle_small_gen (θ δ B : ℝ) (h0 : 0 ≤ θ) (hπ : θ ≤ π) (h : 1 - Real.cos θ ≤ δ)
    (hB : 0 ≤ B) (hδ : 8 * δ < B ^ 2) : θ < B := by
  have hpi := Real.pi_pos
  have hj : 2 / π * (θ / 2) ≤ Real.sin (θ / 2) := Real.mul_le_sin (by linarith) (by linarith)
  have hcos : Real.cos θ = 1 - 2 * Real.sin (θ / 2) ^ 2 := by
    have e : θ = 2 * (θ / 2) := by ring
    conv_lhs => rw [e]
    rw [Real.cos_two_mul]
    have := Real.sin_sq_add_cos_sq (θ / 2)
    linarith
  have hs2 : Real.sin (θ / 2) ^ 2 ≤ δ / 2 := by rw [hcos] at h; linarith
  have hq : 2 / π * (θ / 2) = θ / π := by field_simp
  rw [hq] at hj
  have hq0 : 0 ≤ θ / π := by positivity
  have h3 : (θ / π) ^ 2 ≤ δ / 2 := le_trans (pow_le_pow_left₀ hq0 hj 2) hs2
  have hδ0 : 0 ≤ δ / 2 := le_trans (by positivity) h3
  have h4 : θ ^ 2 ≤ δ / 2 * π ^ 2 := by
    have : θ ^ 2 = (θ / π) ^ 2 * π ^ 2 := by field_simp
    rw [this]; exact mul_le_mul_of_nonneg_right h3 (by positivity)
  have hpi2 : π ^ 2 ≤ 4 ^ 2 := pow_le_pow_left₀ hpi.le Real.pi_le_four 2
  have h5 : δ / 2 * π ^ 2 ≤ δ / 2 * 4 ^ 2 := mul_le_mul_of_nonneg_left hpi2 hδ0
  by_contra hcon
  rw [not_lt] at hcon
  have h6 : B ^ 2 ≤ θ ^ 2 := pow_le_pow_left₀ hB hcon 2
  linarith

/-- `1 - cos θ ≤ 4 ε` with `θ ∈ [0, π]` forces `θ < 1e-7` (in fact `θ ≤ π √(2ε) ≈ 6.6e-8`) -/
theorem angle_small (θ : ℝ) (h0 : 0 ≤ θ) (hπ : θ ≤ π) (h : 1 - Real.cos θ ≤ 4 * eps64) :
    θ < 1e-7 :=
  angle_small_gen θ (4 * eps64) 1e-7 h0 hπ h (by norm_num) (by unfold eps64; norm_num)

/-- `|a·b| ≤ 1` for unit vectors -/
theorem abs_dot_le_one (a b : V3 ℝ) (ha : V3.dot a a = 1) (hb : V3.dot b b = 1) :
    |V3.dot a b| ≤ 1 := by
  have ha2 : a.magnitude2 = 1 := ha
  have hb2 : b.magnitude2 = 1 := hb
  have h1 := magAvg_add_dot_nonneg a b
  have h2 := magAvg_add_dot_nonneg a (-b)
  have e : V3.dot a (-b) = -V3.dot a b := by simp; ring
  have e2 : (-b).magnitude2 = 1 := by rw [← hb2]; simp
  rw [ha2, hb2, one_mul, Real.sqrt_one] at h1
  rw [ha2, e2, one_mul, Real.sqrt_one, e] at h2
  rw [abs_le]; constructor <;> linarith

/-- the quantitative law of `ulps_eq!` with the default tolerances (`epsilon = f64::EPSILON`,
`max_ulps = 4`): the arguments differ by at most `ε` absolutely or by at most 4 units in the last
place (`ulp(x) ≤ ε |x|`) -/
def UlpsLaw : Prop :=
  ∀ x y : ℝ, ulpsEqD x y = true → |x - y| ≤ eps64 ∨ |x - y| ≤ 4 * eps64 * max |x| |y|

/-- the law in the form given in the task statement implies `UlpsLaw` -/
theorem ulpsLaw_of_rel (h : ∀ x y : ℝ, ulpsEqD x y = true → |x - y| ≤ 4 * eps64 * max |x| |y|) :
    UlpsLaw := fun x y hxy => Or.inr (h x y hxy)

/-- tolerance clause, parallel side: under `UlpsLaw`, `between_vectors` treats unit vectors `a`, `b` as
parallel (branch `.same`, result the identity) only if the angle between them is `< 1e-7` rad -/
theorem betweenVectors_same_angle (hlaw : UlpsLaw) (a b : V3 ℝ) (ha : V3.dot a a = 1)
    (hb : V3.dot b b = 1) (hbr : Quat.betweenVectorsBranch a b = .same) :
    V3.angle a b < 1e-7 := by
  have ht : ulpsEqD (V3.dot a b) (1 : ℝ) = true := by
    by_contra hcon
    unfold Quat.betweenVectorsBranch at hbr
    simp only [hcon, if_false] at hbr
    split_ifs at hbr
  have habs := abs_dot_le_one a b ha hb
  have hmax : max |V3.dot a b| |(1 : ℝ)| = 1 := by rw [abs_one]; exact max_eq_right habs
  have he : (0 : ℝ) < eps64 := by unfold eps64; positivity
  have hd : |V3.dot a b - 1| ≤ 4 * eps64 := by
    rcases hlaw _ _ ht with h | h
    · linarith
    · rw [hmax] at h; linarith
  have ha2 : a.magnitude2 = 1 := ha
  have hb2 : b.magnitude2 = 1 := hb
  obtain ⟨h1, h2, h3, _⟩ := Cg.C11.V3.angle_spec a b (by rw [ha2]; norm_num) (by rw [hb2]; norm_num)
  have hma : a.magnitude = 1 := by simp only [V3.magnitude, transc_sqrt, ha2, Real.sqrt_one]
  have hmb : b.magnitude = 1 := by simp only [V3.magnitude, transc_sqrt, hb2, Real.sqrt_one]
  rw [hma, hmb, one_mul, one_mul] at h1
  refine angle_small _ h2 h3 ?_
  rw [h1]
  have := (abs_le.mp hd).1
  linarith

/-- tolerance clause, antiparallel side: under `UlpsLaw`, `between_vectors` treats unit vectors as
antiparallel (branch `.opposite`) only if their angle is within `1e-7` rad of a half turn -/
theorem betweenVectors_opposite_angle (hlaw : UlpsLaw) (a b : V3 ℝ) (ha : V3.dot a a = 1)
    (hb : V3.dot b b = 1) (hbr : Quat.betweenVectorsBranch a b = .opposite) :
    π - 1e-7 < V3.angle a b := by
  have ha2 : a.magnitude2 = 1 := ha
  have hb2 : b.magnitude2 = 1 := hb
  have ht : ulpsEqD (V3.dot a b) (-1 : ℝ) = true := by
    by_contra hcon
    unfold Quat.betweenVectorsBranch at hbr
    simp only [transc_sqrt, ha2, hb2, one_mul, Real.sqrt_one, div_one, hcon, if_false] at hbr
    split_ifs at hbr
  have habs := abs_dot_le_one a b ha hb
  have hmax : max |V3.dot a b| |(-1 : ℝ)| = 1 := by rw [abs_neg, abs_one]; exact max_eq_right habs
  have he : (0 : ℝ) < eps64 := by unfold eps64; positivity
  have hd : |V3.dot a b - -1| ≤ 4 * eps64 := by
    rcases hlaw _ _ ht with h | h
    · linarith
    · rw [hmax] at h; linarith
  obtain ⟨h1, h2, h3, _⟩ := Cg.C11.V3.angle_spec a b (by rw [ha2]; norm_num) (by rw [hb2]; norm_num)
  have hma : a.magnitude = 1 := by simp only [V3.magnitude, transc_sqrt, ha2, Real.sqrt_one]
  have hmb : b.magnitude = 1 := by simp only [V3.magnitude, transc_sqrt, hb2, Real.sqrt_one]
  rw [hma, hmb, one_mul, one_mul] at h1
  have := angle_small (π - V3.angle a b) (by linarith) (by linarith) (by
    rw [Real.cos_pi_sub, h1]
    have := (abs_le.mp hd).2
    linarith)
  linarith

/-- `|src·dst| ≤ sqrt(|src|²|dst|²)` -/
theorem abs_dot_le_magAvg (src dst : V3 ℝ) :
    |V3.dot src dst| ≤ Real.sqrt (src.magnitude2 * dst.magnitude2) := by
  have h1 := magAvg_add_dot_nonneg src dst
  have h2 := magAvg_add_dot_nonneg src (-dst)
  have e : V3.dot src (-dst) = -V3.dot src dst := by simp; ring
  have e2 : (-dst).magnitude2 = dst.magnitude2 := by simp
  rw [e2, e] at h2
  rw [abs_le]; constructor <;> linarith

/-- tolerance clause for `from_arc`: under `UlpsLaw`, for `src`, `dst` of length at least `1e-3`
(squared length `≥ 1e-6`; no upper bound is needed), `from_arc` treats them as parallel (branch
`.same`) only if their angle is `< 1e-4` rad, and as antiparallel (branch `.opposite`) only if it is
within `1e-4` rad of a half turn -/
theorem fromArc_tolerance (hlaw : UlpsLaw) (src dst : V3 ℝ)
    (hs : 1e-6 ≤ src.magnitude2) (hd : 1e-6 ≤ dst.magnitude2) :
    (Quat.fromArcBranch src dst = .same → V3.angle src dst < 1e-4) ∧
    (Quat.fromArcBranch src dst = .opposite → π - 1e-4 < V3.angle src dst) := by
  set m := Real.sqrt (src.magnitude2 * dst.magnitude2) with hm
  have hs0 : 0 < src.magnitude2 := lt_of_lt_of_le (by norm_num) hs
  have hd0 : 0 < dst.magnitude2 := lt_of_lt_of_le (by norm_num) hd
  have hm6 : 1e-6 ≤ m := by
    rw [hm]; apply Real.le_sqrt_of_sq_le
    have : (1e-6 : ℝ) * 1e-6 ≤ src.magnitude2 * dst.magnitude2 :=
      mul_le_mul hs hd (by norm_num) hs0.le
    linarith
  have hm0 : 0 < m := lt_of_lt_of_le (by norm_num) hm6
  have habs : |V3.dot src dst| ≤ m := abs_dot_le_magAvg src dst
  obtain ⟨h1, h2, h3, _⟩ := Cg.C11.V3.angle_spec src dst hs0 hd0
  have hmm : src.magnitude * dst.magnitude = m := by
    simp only [V3.magnitude, transc_sqrt, hm]; exact (Real.sqrt_mul hs0.le _).symm
  rw [hmm] at h1
  set θ := V3.angle src dst with hθ
  have he : (0 : ℝ) < eps64 := by unfold eps64; positivity
  -- from `m * t ≤ ε ∨ m * t ≤ 4 ε m` with `t ≥ 0` to `t ≤ 1e6 ε`
  have key : ∀ t : ℝ, 0 ≤ t → (m * t ≤ eps64 ∨ m * t ≤ 4 * eps64 * m) → t ≤ 1e6 * eps64 := by
    intro t ht h
    rcases h with h | h
    · have : 1e-6 * t ≤ m * t := mul_le_mul_of_nonneg_right hm6 ht
      linarith
    · have : t ≤ 4 * eps64 := by
        have : m * t ≤ m * (4 * eps64) := by linarith
        exact le_of_mul_le_mul_left this hm0
      linarith
  have hnum : 8 * (1e6 * eps64) < (1e-4 : ℝ) ^ 2 := by unfold eps64; norm_num
  constructor
  · intro hbr
    have ht : ulpsEqD (V3.dot src dst) m = true := by
      by_contra hcon
      unfold Quat.fromArcBranch at hbr
      simp only [transc_sqrt, ← hm, hcon, if_false] at hbr
      split_ifs at hbr
    have hmax : max |V3.dot src dst| |m| = m := by rw [abs_of_pos hm0]; exact max_eq_right habs
    have hd' := hlaw _ _ ht
    rw [hmax, ← h1] at hd'
    have hc1 : Real.cos θ ≤ 1 := Real.cos_le_one θ
    have e : |m * Real.cos θ - m| = m * (1 - Real.cos θ) := by
      rw [show m * Real.cos θ - m = -(m * (1 - Real.cos θ)) by ring, abs_neg,
        abs_of_nonneg (mul_nonneg hm0.le (by linarith))]
    rw [e] at hd'
    exact angle_small_gen θ _ 1e-4 h2 h3 (key _ (by linarith) hd') (by norm_num) hnum
  · intro hbr
    have ht : ulpsEqD (V3.dot src dst) (-m) = true := by
      by_contra hcon
      unfold Quat.fromArcBranch at hbr
      simp only [transc_sqrt, ← hm, hcon, if_false] at hbr
      split_ifs at hbr
    have hmax : max |V3.dot src dst| |(-m)| = m := by
      rw [abs_neg, abs_of_pos hm0]; exact max_eq_right habs
    have hd' := hlaw _ _ ht
    rw [hmax, ← h1] at hd'
    have hc1 : -1 ≤ Real.cos θ := Real.neg_one_le_cos θ
    have e : |m * Real.cos θ - -m| = m * (1 + Real.cos θ) := by
      rw [show m * Real.cos θ - -m = m * (1 + Real.cos θ) by ring,
        abs_of_nonneg (mul_nonneg hm0.le (by linarith))]
    rw [e] at hd'
    have := angle_small_gen (π - θ) _ 1e-4 (by linarith) (by linarith [Real.pi_pos])
      (by rw [Real.cos_pi_sub]; have := key _ (by linarith) hd'; linarith) (by norm_num) hnum
    linarith

end main

/-! ## non-vacuity: the exact comparison satisfies every law assumed above, and each branch is
inhabited -/
section nonvacuous
open Classical in
/-- the exact comparison `a == b` as an instance of the `approx` interface -/
@[reducible] noncomputable def exactApprox : Approx ℝ where
  absDiffEq a b _ := decide (a = b)
  relEq a b _ _ := decide (a = b)
  ulpsEq a b _ _ := decide (a = b)
  eps := 0
  maxRel := 0
  maxUlps := 0

attribute [local instance] exactApprox
variable [Lits ℝ]

theorem exact_iff (x y : ℝ) : ulpsEqD x y = true ↔ x = y := by
  show decide (x = y) = true ↔ x = y
  simp

example : ∀ x : ℝ, ulpsEqD x x = true := fun x => (exact_iff x x).2 rfl
example : ulpsEqD (0 : ℝ) 0 = true := (exact_iff 0 0).2 rfl
example : ∀ x : ℝ, ulpsEqD x 0 = true → x < 1 / 2 := by
  intro x h; rw [(exact_iff x 0).1 h]; norm_num
example (src : V3 ℝ) (hs : 0 < src.magnitude2) :
    ∀ v : V3 ℝ, V3.ulpsEqZero v = true → v.magnitude2 < src.magnitude2 / 2 := by
  intro v h
  simp only [V3.ulpsEqZero, Bool.and_eq_true, exact_iff] at h
  obtain ⟨⟨h1, h2⟩, h3⟩ := h
  have : v.magnitude2 = 0 := by simp [h1, h2, h3]
  rw [this]; linarith
-- zero-tolerance witness only (the exact comparison): it shows that `UlpsLaw` is satisfiable, not that the real `ulps_eq!`
-- satisfies it; for the real instance (ε = 2^-52, 4 ulps) see `ulpsLaw_real`, `Props/C15c.lean`
example : UlpsLaw := by
  intro x y h
  rw [(exact_iff x y).1 h]
  left; simp [eps64]
example : ∃ L : Lits ℝ, (L.radFull : ℝ) = 2 * π := ⟨⟨0, 0, 2 * π, 0, 0, 0⟩, rfl⟩

theorem exact_bvBranch (a b : V3 ℝ) : Quat.betweenVectorsBranch a b =
    if V3.dot a b = 1 then .same
    else if V3.dot a b / Real.sqrt (a.magnitude2 * b.magnitude2) = -1 then .opposite else .general := by
  unfold Quat.betweenVectorsBranch
  simp only [exact_iff, transc_sqrt]
theorem exact_arcBranch (a b : V3 ℝ) : Quat.fromArcBranch a b =
    if V3.dot a b = Real.sqrt (a.magnitude2 * b.magnitude2) then .same
    else if V3.dot a b = -Real.sqrt (a.magnitude2 * b.magnitude2) then .opposite else .general := by
  unfold Quat.fromArcBranch
  simp only [exact_iff, transc_sqrt]

/-- unit vectors in the general, opposite and same branch of `between_vectors` -/
example : Quat.betweenVectorsBranch (⟨1, 0, 0⟩ : V3 ℝ) ⟨0, 1, 0⟩ = .general ∧
    V3.dot (⟨1, 0, 0⟩ : V3 ℝ) ⟨1, 0, 0⟩ = 1 ∧ V3.dot (⟨0, 1, 0⟩ : V3 ℝ) ⟨0, 1, 0⟩ = 1 ∧
    0 < 1 + V3.dot (⟨1, 0, 0⟩ : V3 ℝ) ⟨0, 1, 0⟩ := by
  rw [exact_bvBranch]; norm_num [V3.dot, V3.magnitude2]
example : Quat.betweenVectorsBranch (⟨1, 0, 0⟩ : V3 ℝ) ⟨-1, 0, 0⟩ = .opposite := by
  rw [exact_bvBranch]; norm_num [V3.dot, V3.magnitude2]
example : Quat.betweenVectorsBranch (⟨1, 0, 0⟩ : V3 ℝ) ⟨1, 0, 0⟩ = .same := by
  rw [exact_bvBranch]; norm_num [V3.dot, V3.magnitude2]
/-- non-unit vectors in the general and opposite branch of `from_arc` -/
example : Quat.fromArcBranch (⟨2, 0, 0⟩ : V3 ℝ) ⟨0, 3, 0⟩ = .general ∧
    0 < Real.sqrt ((⟨2, 0, 0⟩ : V3 ℝ).magnitude2 * (⟨0, 3, 0⟩ : V3 ℝ).magnitude2)
      + V3.dot (⟨2, 0, 0⟩ : V3 ℝ) ⟨0, 3, 0⟩ := by
  have h36 : Real.sqrt 36 = 6 := by
    rw [show (36 : ℝ) = 6 * 6 by norm_num]; exact Real.sqrt_mul_self (by norm_num)
  rw [exact_arcBranch]; norm_num [V3.dot, V3.magnitude2, h36]
example : Quat.fromArcBranch (⟨2, 0, 0⟩ : V3 ℝ) ⟨-3, 0, 0⟩ = .opposite ∧
    V3.dot (⟨0, 0, 1⟩ : V3 ℝ) ⟨0, 0, 1⟩ = 1 ∧ V3.dot (⟨0, 0, 1⟩ : V3 ℝ) ⟨2, 0, 0⟩ = 0 := by
  have h36 : Real.sqrt 36 = 6 := by
    rw [show (36 : ℝ) = 6 * 6 by norm_num]; exact Real.sqrt_mul_self (by norm_num)
  rw [exact_arcBranch]; norm_num [V3.dot, V3.magnitude2, h36]
end nonvacuous

end Cg.C15
