import Cgm.Lemmas.Tac
import Mathlib.Algebra.BigOperators.Group.List.Basic
/-!
# C12 — points form an affine space over vectors; exact homogeneous coordinates
-/
set_option linter.unusedSectionVars false
namespace Cg.C12
open Cg
variable {R : Type} [CommRing R] {F : Type} [Field F]

/-! ## affine-space laws (dimension 1, 2, 3) -/
theorem P1.affine (p q : P1 R) (v w : V1 R) :
    (p + v) - p = v ∧ p + (q - p) = q ∧ (p + v) + w = p + (v + w) ∧ p - v = p + (-v) := by
  refine ⟨?_, ?_, ?_, ?_⟩ <;> cg_ring
theorem P2.affine (p q : P2 R) (v w : V2 R) :
    (p + v) - p = v ∧ p + (q - p) = q ∧ (p + v) + w = p + (v + w) ∧ p - v = p + (-v) := by
  refine ⟨?_, ?_, ?_, ?_⟩ <;> cg_ring
theorem P3.affine (p q : P3 R) (v w : V3 R) :
    (p + v) - p = v ∧ p + (q - p) = q ∧ (p + v) + w = p + (v + w) ∧ p - v = p + (-v) := by
  refine ⟨?_, ?_, ?_, ?_⟩ <;> cg_ring
theorem P1.vec_iso (p : P1 R) (v : V1 R) :
    P1.fromVec p.toVec = p ∧ (P1.fromVec v).toVec = v ∧ (P1.origin : P1 R).toVec = V1.zero ∧
    (P1.origin : P1 R) + v = P1.fromVec v := ⟨rfl, rfl, rfl, by cg_ring⟩
theorem P2.vec_iso (p : P2 R) (v : V2 R) :
    P2.fromVec p.toVec = p ∧ (P2.fromVec v).toVec = v ∧ (P2.origin : P2 R).toVec = V2.zero ∧
    (P2.origin : P2 R) + v = P2.fromVec v := ⟨rfl, rfl, rfl, by cg_ring⟩
theorem P3.vec_iso (p : P3 R) (v : V3 R) :
    P3.fromVec p.toVec = p ∧ (P3.fromVec v).toVec = v ∧ (P3.origin : P3 R).toVec = V3.zero ∧
    (P3.origin : P3 R) + v = P3.fromVec v := ⟨rfl, rfl, rfl, by cg_ring⟩

/-! ## component-wise scaling, element-wise operations, point-vector dot -/
theorem P3.componentwise (p q : P3 F) (s : F) (v : V3 F) :
    p * s = P3.map (· * s) p ∧ p / s = P3.map (· / s) p ∧
    P3.addEw p q = P3.zip (· + ·) p q ∧ P3.subEw p q = P3.zip (· - ·) p q ∧
    P3.mulEw p q = P3.zip (· * ·) p q ∧ P3.divEw p q = P3.zip (· / ·) p q ∧
    P3.addS p s = P3.map (· + s) p ∧ P3.subS p s = P3.map (· - s) p ∧
    P3.dot p v = p.x * v.x + p.y * v.y + p.z * v.z := by
  refine ⟨rfl, rfl, rfl, rfl, rfl, rfl, rfl, rfl, ?_⟩; cg_ring
theorem P2.componentwise (p q : P2 F) (s : F) (v : V2 F) :
    p * s = P2.map (· * s) p ∧ p / s = P2.map (· / s) p ∧
    P2.addEw p q = P2.zip (· + ·) p q ∧ P2.subEw p q = P2.zip (· - ·) p q ∧
    P2.mulEw p q = P2.zip (· * ·) p q ∧ P2.divEw p q = P2.zip (· / ·) p q ∧
    P2.addS p s = P2.map (· + s) p ∧ P2.subS p s = P2.map (· - s) p ∧
    P2.dot p v = p.x * v.x + p.y * v.y := ⟨rfl, rfl, rfl, rfl, rfl, rfl, rfl, rfl, rfl⟩
theorem P1.componentwise (p q : P1 F) (s : F) (v : V1 F) :
    p * s = P1.map (· * s) p ∧ p / s = P1.map (· / s) p ∧
    P1.addEw p q = P1.zip (· + ·) p q ∧ P1.subEw p q = P1.zip (· - ·) p q ∧
    P1.mulEw p q = P1.zip (· * ·) p q ∧ P1.divEw p q = P1.zip (· / ·) p q ∧
    P1.addS p s = P1.map (· + s) p ∧ P1.subS p s = P1.map (· - s) p ∧
    P1.dot p v = p.x * v.x := ⟨rfl, rfl, rfl, rfl, rfl, rfl, rfl, rfl, rfl⟩

/-! ## midpoint -/
theorem P1.midpoint_eq (p q : P1 F) : P1.midpoint p q = p + (q - p : V1 F) / (2 : F) := by
  simp [one_add_one_eq_two]
theorem P2.midpoint_eq (p q : P2 F) : P2.midpoint p q = p + (q - p : V2 F) / (2 : F) := by
  simp [one_add_one_eq_two]
theorem P3.midpoint_eq (p q : P3 F) : P3.midpoint p q = p + (q - p : V3 F) / (2 : F) := by
  simp [one_add_one_eq_two]
/-- when `2 ≠ 0` the midpoint is equidistant: `m - p = q - m` -/
theorem P3.midpoint_sym (p q : P3 F) (h : (2 : F) ≠ 0) :
    (P3.midpoint p q - p : V3 F) = q - P3.midpoint p q := by
  ext <;> simp [one_add_one_eq_two] <;> field_simp <;> ring

/-! ## centroid: sum of the position vectors divided by `n`, for every list length -/
theorem V1.foldl_x (ps : List (P1 F)) (a : V1 F) :
    (ps.foldl (fun acc p => acc + p.toVec) a).x = a.x + (ps.map (·.x)).sum := by
  induction ps generalizing a with
  | nil => simp
  | cons p ps ih =>
    have := ih (a + p.toVec)
    simp only [List.foldl_cons, List.map_cons, List.sum_cons]
    rw [this]; simp [add_assoc]
theorem V2.foldl_xy (ps : List (P2 F)) (a : V2 F) :
    (ps.foldl (fun acc p => acc + p.toVec) a).x = a.x + (ps.map (·.x)).sum ∧
    (ps.foldl (fun acc p => acc + p.toVec) a).y = a.y + (ps.map (·.y)).sum := by
  induction ps generalizing a with
  | nil => simp
  | cons p ps ih =>
    have := ih (a + p.toVec)
    simp only [List.foldl_cons, List.map_cons, List.sum_cons]
    refine ⟨by rw [this.1]; simp [add_assoc], by rw [this.2]; simp [add_assoc]⟩
theorem V3.foldl_xyz (ps : List (P3 F)) (a : V3 F) :
    (ps.foldl (fun acc p => acc + p.toVec) a).x = a.x + (ps.map (·.x)).sum ∧
    (ps.foldl (fun acc p => acc + p.toVec) a).y = a.y + (ps.map (·.y)).sum ∧
    (ps.foldl (fun acc p => acc + p.toVec) a).z = a.z + (ps.map (·.z)).sum := by
  induction ps generalizing a with
  | nil => simp
  | cons p ps ih =>
    have := ih (a + p.toVec)
    simp only [List.foldl_cons, List.map_cons, List.sum_cons]
    refine ⟨by rw [this.1]; simp [add_assoc], by rw [this.2.1]; simp [add_assoc],
      by rw [this.2.2]; simp [add_assoc]⟩
theorem P1.centroid_eq (ps : List (P1 F)) :
    (P1.centroid ps).x = (ps.map (·.x)).sum / (ps.length : F) := by
  have h := V1.foldl_x ps V1.zero
  show (ps.foldl (fun acc p => acc + p.toVec) V1.zero).x / _ = _
  rw [h]; simp
theorem P2.centroid_eq (ps : List (P2 F)) :
    (P2.centroid ps).x = (ps.map (·.x)).sum / (ps.length : F) ∧
    (P2.centroid ps).y = (ps.map (·.y)).sum / (ps.length : F) := by
  have h := V2.foldl_xy ps V2.zero
  refine ⟨?_, ?_⟩
  · show (ps.foldl (fun acc p => acc + p.toVec) V2.zero).x / _ = _
    rw [h.1]; simp
  · show (ps.foldl (fun acc p => acc + p.toVec) V2.zero).y / _ = _
    rw [h.2]; simp
theorem P3.centroid_eq (ps : List (P3 F)) :
    (P3.centroid ps).x = (ps.map (·.x)).sum / (ps.length : F) ∧
    (P3.centroid ps).y = (ps.map (·.y)).sum / (ps.length : F) ∧
    (P3.centroid ps).z = (ps.map (·.z)).sum / (ps.length : F) := by
  have h := V3.foldl_xyz ps V3.zero
  refine ⟨?_, ?_, ?_⟩
  · show (ps.foldl (fun acc p => acc + p.toVec) V3.zero).x / _ = _
    rw [h.1]; simp
  · show (ps.foldl (fun acc p => acc + p.toVec) V3.zero).y / _ = _
    rw [h.2.1]; simp
  · show (ps.foldl (fun acc p => acc + p.toVec) V3.zero).z / _ = _
    rw [h.2.2]; simp
/-- the centroid of `n` copies of one point is that point (non-empty list, `n ≠ 0` in `F`) -/
theorem P3.centroid_replicate (p : P3 F) (n : Nat) (h : (n : F) ≠ 0) :
    P3.centroid (List.replicate n p) = p := by
  obtain ⟨hx, hy, hz⟩ := P3.centroid_eq (List.replicate n p)
  ext
  · rw [hx]; simp; field_simp
  · rw [hy]; simp; field_simp
  · rw [hz]; simp; field_simp

/-! ## homogeneous coordinates -/
theorem P3.homogeneous_roundtrip (p : P3 F) (k : F) (hk : k ≠ 0) :
    P3.fromHomogeneous (p.toHomogeneous * k) = p := by
  ext <;> simp <;> field_simp
theorem P3.toHomogeneous_w (p : P3 F) : p.toHomogeneous.w = 1 ∧ p.toHomogeneous.truncate = p.toVec :=
  ⟨rfl, rfl⟩

example : P2.centroid ([⟨1, 1⟩, ⟨2, 3⟩, ⟨3, 1⟩] : List (P2 ℚ)) = ⟨2, 5 / 3⟩ := by
  simp [P2.centroid]; norm_num

end Cg.C12
