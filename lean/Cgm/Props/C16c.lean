import Cgm.Props.C16b
import Cgm.Model.Book3
/-!
# C16 (third part) — the quaternion index view, swizzle accessor semantics, tuples, mint,
flat / nested matrix arrays, range indices

1. `Quaternion`: the `[S; 4]` view is `x, y, z, s` (`Quaternion::new` takes the scalar first); index `i`
   reads entry `i` of that view, panics exactly when `4 ≤ i`; a store is read back there and only there.
2. Swizzles: for every accessor `(name, impl, dim)` emitted by the generator (`genSwizzleFns`, the
   model of build.rs with the emitted *text* `"self.x, self.w, "`), parsing and evaluating the text on a
   value yields exactly the components named by the letters of `name`, in order, `dim = name.length`,
   and the constructor call `VectorDIM::new(..)` / `PointDIM::new(..)` is well-formed.
3. Tuples, mint, nested / flat arrays: the conversions are mutually inverse and keep the order
   `x, y, z, w`.
4. Range indices; `truncate_n` on `isize`.
-/
set_option linter.unusedSectionVars false
set_option linter.unnecessarySeqFocus false
set_option linter.unusedVariables false
namespace Cg.C16
open Cg
variable {α β γ : Type}

/-! ## 1. `Quaternion`: array / tuple / index views, order `x, y, z, s` -/
/-- the model's array view lists the fields `v.x, v.y, v.z`, then `s` (true by construction of the model: `rfl` on the
definition of `toArray`, which was written in the `repr(C)` field order of the Rust struct; no memory layout is modelled) -/
theorem Quat.toArray_order (q : Quat α) : q.toArray = q.v.toList ++ [q.s] := rfl
/-- the model's array view is the one the first part of C16 used -/
theorem Quat.toArray_eq_props (q : Quat α) (l : List α) :
    Cg.C16.Quat.toArray q = q.toArray ∧ Cg.C16.Quat.ofArray? l = _root_.Cg.Quat.ofArray? l := by
  refine ⟨rfl, ?_⟩
  rcases l with _ | ⟨a, _ | ⟨b, _ | ⟨c, _ | ⟨d, _ | ⟨e, l⟩⟩⟩⟩⟩ <;> rfl
/-- the line-protocol flattening `Quat.toList` is `s, x, y, z`: the array view rotated by one -/
theorem Quat.toList_eq (q : Quat α) : q.toList = q.s :: q.v.toList ∧ q.toList = q.toArray.rotateRight 1 :=
  ⟨rfl, rfl⟩
/-- by-index access reads the array view: `q[0..3] = x, y, z, s`; an index `≥ 4` panics -/
theorem Quat.index_spec (q : Quat α) (i : Nat) :
    q.get? i = q.toArray[i]? ∧ (4 ≤ i → q.get? i = none) ∧
    q.get? 0 = some q.v.x ∧ q.get? 1 = some q.v.y ∧ q.get? 2 = some q.v.z ∧ q.get? 3 = some q.s := by
  refine ⟨rfl, ?_, rfl, rfl, rfl, rfl⟩
  intro h; simp [Quat.get?, _root_.Cg.Quat.toArray]; omega
/-- the first three slots are the slots of the vector part -/
theorem Quat.get?_vec (q : Quat α) (i : Nat) (h : i < 3) : q.get? i = q.v.get? i := by
  match i, h with
  | 0, _ => rfl
  | 1, _ => rfl
  | 2, _ => rfl
/-- an index panics exactly when it is `≥ 4` -/
theorem Quat.get?_eq_none_iff (q : Quat α) (i : Nat) : q.get? i = none ↔ 4 ≤ i := by
  simp [Quat.get?, _root_.Cg.Quat.toArray]
theorem Quat.get?_isSome_iff (q : Quat α) (i : Nat) : (q.get? i).isSome = true ↔ i < 4 := by
  simp [Quat.get?, _root_.Cg.Quat.toArray]
theorem Quat.set?_eq_none_iff (q : Quat α) (i : Nat) (a : α) : q.set? i a = none ↔ 4 ≤ i := by
  rcases i with _ | _ | _ | _ | i <;> simp [Quat.set?]
/-- a write through the index view is visible through the index view at that slot, and only there -/
theorem Quat.set_get (q : Quat α) (i j : Fin 4) (a : α) :
    (q.set? i a).bind (·.get? j) = if i = j then some a else q.get? j := by
  fin_cases i <;> fin_cases j <;> rfl
/-- a write through the index view is the same write on the array view -/
theorem Quat.set_toArray (q : Quat α) (i : Fin 4) (a : α) :
    (q.set? i a).map (·.toArray) = some (q.toArray.set i a) := by
  fin_cases i <;> rfl
/-- .. and it is visible through the fields: slots `0..2` write the vector part, slot `3` the scalar -/
theorem Quat.set_fields (q : Quat α) (a : α) :
    q.set? 0 a = some ⟨⟨a, q.v.y, q.v.z⟩, q.s⟩ ∧ q.set? 1 a = some ⟨⟨q.v.x, a, q.v.z⟩, q.s⟩ ∧
    q.set? 2 a = some ⟨⟨q.v.x, q.v.y, a⟩, q.s⟩ ∧ q.set? 3 a = some ⟨q.v, a⟩ := ⟨rfl, rfl, rfl, rfl⟩
/-- a write through the index view is visible through the tuple view and the line-protocol view -/
theorem Quat.set_views (q : Quat α) (i : Fin 4) (a : α) :
    (q.set? i a).map (fun q' => tuple4List q'.toTuple) = some (q.toArray.set i a) ∧
    (q.set? i a).map (·.toList) = some ((q.toArray.set i a).rotateRight 1) := by
  constructor <;> (fin_cases i <;> rfl)
/-- a store on the vector part through the `Vector3` index view is the store on the quaternion -/
theorem Quat.set_vec (q : Quat α) (i : Fin 3) (a : α) :
    q.set? i a = (q.v.set? i a).map fun v' => ⟨v', q.s⟩ := by
  fin_cases i <;> rfl
/-- `Quaternion::new(w, xi, yj, zk)` takes the scalar first; its array view is `[xi, yj, zk, w]` -/
theorem Quat.new_toArray (w x y z : α) :
    (Quat.new w x y z).toArray = [x, y, z, w] ∧ (Quat.new w x y z).s = w ∧
    (Quat.new w x y z).v = ⟨x, y, z⟩ ∧
    (Quat.new w x y z).get? 0 = some x ∧ (Quat.new w x y z).get? 1 = some y ∧
    (Quat.new w x y z).get? 2 = some z ∧ (Quat.new w x y z).get? 3 = some w ∧
    (Quat.new w x y z).toTuple = (x, y, z, w) ∧ (Quat.new w x y z).toList = [w, x, y, z] :=
  ⟨rfl, rfl, rfl, rfl, rfl, rfl, rfl, rfl, rfl⟩
/-- `Quaternion::from_sv(s, v)` -/
theorem Quat.fromSv_toArray (s : α) (v : V3 α) : (Quat.fromSv s v).toArray = v.toList ++ [s] := rfl
/-- round trips with the array: `From<[S; 4]>` after `Into<[S; 4]>` and conversely -/
theorem Quat.array_roundtrip (q : Quat α) : _root_.Cg.Quat.ofArray? q.toArray = some q := rfl
theorem Quat.ofArray?_toArray (a b c d : α) :
    (_root_.Cg.Quat.ofArray? [a, b, c, d]).map (·.toArray) = some [a, b, c, d] ∧
    _root_.Cg.Quat.ofArray? [a, b, c, d] = some (Quat.new d a b c) := ⟨rfl, rfl⟩
/-- exactly the lists of length 4 are arrays `[S; 4]`; converting one and viewing it again gives it back -/
theorem Quat.ofArray?_spec (l : List α) :
    (l.length = 4 → (_root_.Cg.Quat.ofArray? l).map (·.toArray) = some l) ∧
    (_root_.Cg.Quat.ofArray? l = none ↔ l.length ≠ 4) := by
  rcases l with _ | ⟨a, _ | ⟨b, _ | ⟨c, _ | ⟨d, _ | ⟨e, l⟩⟩⟩⟩⟩ <;> simp [_root_.Cg.Quat.ofArray?] <;> rfl
/-- entry `i` of the array is slot `i` of the quaternion built from it -/
theorem Quat.ofArray?_get (l : List α) (q : Quat α) (h : _root_.Cg.Quat.ofArray? l = some q) (i : Nat) :
    q.get? i = l[i]? := by
  rcases l with _ | ⟨a, _ | ⟨b, _ | ⟨c, _ | ⟨d, _ | ⟨e, l⟩⟩⟩⟩⟩ <;> simp [_root_.Cg.Quat.ofArray?] at h
  subst h; rfl
/-- tuples: `(x, y, z, s)`, both directions, and the tuple view agrees with the array view -/
theorem Quat.tuple_roundtrip (q : Quat α) (t : α × α × α × α) (x y z w : α) :
    Quat.ofTuple q.toTuple = q ∧ (Quat.ofTuple t).toTuple = t ∧
    tuple4List q.toTuple = q.toArray ∧ Quat.ofTuple (x, y, z, w) = Quat.new w x y z ∧
    q.toTuple = (q.v.x, q.v.y, q.v.z, q.s) := ⟨rfl, rfl, rfl, rfl, rfl⟩
/-- with pairwise distinct components no other order satisfies the index specification:
e.g. `q[3]` is not the `x` component and `q[0]` is not the scalar part -/
example : (Quat.new (10 : Nat) 1 2 3).get? 3 = some 10 ∧ (Quat.new (10 : Nat) 1 2 3).get? 0 = some 1 ∧
    (Quat.new (10 : Nat) 1 2 3).get? 4 = none ∧
    ((Quat.new (10 : Nat) 1 2 3).set? 3 7).map (·.toArray) = some [1, 2, 3, 7] := by decide

/-! ## 2. swizzle accessors: the emitted implementation text reads exactly the named components -/
/-! ### evaluation of a field list -/
/-- evaluating a word: the result has the word's length and its `k`-th entry is the component named by
the `k`-th letter -/
theorem swzEvalWith_spec (comp : Char → Option α) (w : List Char) (r : List α)
    (h : swzEvalWith comp w = some r) :
    r.length = w.length ∧ ∀ k : Nat, r[k]? = (w[k]?).bind comp := by
  induction w generalizing r with
  | nil =>
    simp [swzEvalWith] at h; subst h; simp
  | cons c cs ih =>
    unfold swzEvalWith at h
    cases hc : comp c with
    | none => simp [hc] at h
    | some a =>
      cases hcs : swzEvalWith comp cs with
      | none => simp [hc, hcs] at h
      | some as =>
        simp [hc, hcs] at h; subst h
        obtain ⟨hl, hk⟩ := ih as hcs
        refine ⟨by simp [hl], ?_⟩
        intro k
        cases k with
        | zero => simp [hc]
        | succ k => simpa using hk k
/-- a word all of whose letters are fields evaluates (the accessor body compiles) -/
theorem swzEvalWith_isSome (comp : Char → Option α) (w : List Char)
    (h : ∀ c ∈ w, (comp c).isSome = true) : ∃ r, swzEvalWith comp w = some r := by
  induction w with
  | nil => exact ⟨[], rfl⟩
  | cons c cs ih =>
    obtain ⟨as, has⟩ := ih (fun c hc => h c (List.mem_cons_of_mem _ hc))
    have hc := h c List.mem_cons_self
    cases hcc : comp c with
    | none => simp [hcc] at hc
    | some a => exact ⟨a :: as, by simp [swzEvalWith, hcc, has]⟩
/-- a letter that is not a field makes the body ill-formed -/
theorem swzEvalWith_none (comp : Char → Option α) (w : List Char) (c : Char) (hc : c ∈ w)
    (h : comp c = none) : swzEvalWith comp w = none := by
  induction w with
  | nil => simp at hc
  | cons d ds ih =>
    rcases List.mem_cons.mp hc with rfl | hd
    · simp [swzEvalWith, h]
    · unfold swzEvalWith; rw [ih hd]; cases comp d <;> rfl

/-! ### letters and fields -/
/-- `x, y, z, w ↦` the field of that name, which is the slot `0, 1, 2, 3` of the index view;
any other letter is not a field -/
theorem V4.comp?_spec (v : V4 α) :
    v.comp? 'x' = some v.x ∧ v.comp? 'y' = some v.y ∧ v.comp? 'z' = some v.z ∧ v.comp? 'w' = some v.w ∧
    (∀ c, c ≠ 'x' → c ≠ 'y' → c ≠ 'z' → c ≠ 'w' → v.comp? c = none) ∧
    (∀ k, (['x', 'y', 'z', 'w'][k]?).bind v.comp? = v.get? k) := by
  refine ⟨rfl, rfl, rfl, rfl, ?_, ?_⟩
  · intro c h1 h2 h3 h4; simp [V4.comp?, h1, h2, h3, h4]
  · intro k; rcases k with _ | _ | _ | _ | k <;> simp [V4.get?, V4.toList] <;> rfl
theorem V3.comp?_spec (v : V3 α) :
    v.comp? 'x' = some v.x ∧ v.comp? 'y' = some v.y ∧ v.comp? 'z' = some v.z ∧
    (∀ c, c ≠ 'x' → c ≠ 'y' → c ≠ 'z' → v.comp? c = none) ∧
    (∀ k, (['x', 'y', 'z'][k]?).bind v.comp? = v.get? k) := by
  refine ⟨rfl, rfl, rfl, ?_, ?_⟩
  · intro c h1 h2 h3; simp [V3.comp?, h1, h2, h3]
  · intro k; rcases k with _ | _ | _ | k <;> simp [V3.get?, V3.toList] <;> rfl
theorem V2.comp?_spec (v : V2 α) :
    v.comp? 'x' = some v.x ∧ v.comp? 'y' = some v.y ∧
    (∀ c, c ≠ 'x' → c ≠ 'y' → v.comp? c = none) ∧
    (∀ k, (['x', 'y'][k]?).bind v.comp? = v.get? k) := by
  refine ⟨rfl, rfl, ?_, ?_⟩
  · intro c h1 h2; simp [V2.comp?, h1, h2]
  · intro k; rcases k with _ | _ | k <;> simp [V2.get?, V2.toList] <;> rfl
theorem V1.comp?_spec (v : V1 α) :
    v.comp? 'x' = some v.x ∧ (∀ c, c ≠ 'x' → v.comp? c = none) ∧
    (∀ k, (['x'][k]?).bind v.comp? = v.get? k) := by
  refine ⟨rfl, ?_, ?_⟩
  · intro c h1; simp [V1.comp?, h1]
  · intro k; rcases k with _ | k <;> simp [V1.get?, V1.toList] <;> rfl
theorem P3.comp?_spec (v : P3 α) :
    v.comp? 'x' = some v.x ∧ v.comp? 'y' = some v.y ∧ v.comp? 'z' = some v.z ∧
    (∀ c, c ≠ 'x' → c ≠ 'y' → c ≠ 'z' → v.comp? c = none) ∧
    (∀ k, (['x', 'y', 'z'][k]?).bind v.comp? = v.get? k) := by
  refine ⟨rfl, rfl, rfl, ?_, ?_⟩
  · intro c h1 h2 h3; simp [P3.comp?, h1, h2, h3]
  · intro k; rcases k with _ | _ | _ | k <;> simp [P3.get?, P3.toList] <;> rfl
theorem P2.comp?_spec (v : P2 α) :
    v.comp? 'x' = some v.x ∧ v.comp? 'y' = some v.y ∧
    (∀ c, c ≠ 'x' → c ≠ 'y' → v.comp? c = none) ∧
    (∀ k, (['x', 'y'][k]?).bind v.comp? = v.get? k) := by
  refine ⟨rfl, rfl, ?_, ?_⟩
  · intro c h1 h2; simp [P2.comp?, h1, h2]
  · intro k; rcases k with _ | _ | k <;> simp [P2.get?, P2.toList] <;> rfl
theorem P1.comp?_spec (v : P1 α) :
    v.comp? 'x' = some v.x ∧ (∀ c, c ≠ 'x' → v.comp? c = none) ∧
    (∀ k, (['x'][k]?).bind v.comp? = v.get? k) := by
  refine ⟨rfl, ?_, ?_⟩
  · intro c h1; simp [P1.comp?, h1]
  · intro k; rcases k with _ | k <;> simp [P1.get?, P1.toList] <;> rfl
/-- the `swzEval` of the task statement: `x, y, z, w ↦` component, anything else `none` -/
theorem swzEval_examples (v : V4 α) :
    swzEval ['w', 'x'] v = some [v.w, v.x] ∧ swzEval ['z', 'z', 'y', 'x'] v = some [v.z, v.z, v.y, v.x] ∧
    swzEval ['x', 'a'] v = none ∧ swzEval3 ['x', 'w'] (v.truncate) = none := ⟨rfl, rfl, rfl, rfl⟩

/-! ### the constructor call -/
theorem AnyVec.new?_spec (args : List α) (h1 : 1 ≤ args.length) (h4 : args.length ≤ 4) :
    ∃ r, AnyVec.new? args.length args = some r ∧ r.dim = args.length ∧ r.toList = args := by
  rcases args with _ | ⟨a, _ | ⟨b, _ | ⟨c, _ | ⟨d, _ | ⟨e, l⟩⟩⟩⟩⟩
  · simp at h1
  · exact ⟨_, rfl, rfl, rfl⟩
  · exact ⟨_, rfl, rfl, rfl⟩
  · exact ⟨_, rfl, rfl, rfl⟩
  · exact ⟨_, rfl, rfl, rfl⟩
  · simp at h4; omega
theorem AnyPoint.new?_spec (args : List α) (h1 : 1 ≤ args.length) (h3 : args.length ≤ 3) :
    ∃ r, AnyPoint.new? args.length args = some r ∧ r.dim = args.length ∧ r.toList = args := by
  rcases args with _ | ⟨a, _ | ⟨b, _ | ⟨c, _ | ⟨d, l⟩⟩⟩⟩
  · simp at h1
  · exact ⟨_, rfl, rfl, rfl⟩
  · exact ⟨_, rfl, rfl, rfl⟩
  · exact ⟨_, rfl, rfl, rfl⟩
  · simp at h3; omega
/-- a constructor call with the wrong number of arguments does not compile -/
theorem AnyVec.new?_arity (dim : Nat) (args : List α) (r : AnyVec α) (h : AnyVec.new? dim args = some r) :
    args.length = dim ∧ r.dim = dim ∧ r.toList = args := by
  unfold AnyVec.new? at h
  split at h <;> simp at h <;> subst h <;> exact ⟨rfl, rfl, rfl⟩

/-! ### the element-type-free check of one emitted accessor, decided over the seven tables -/
/-- `(name, impl, dim)`: the emitted text parses to exactly the letters of the name, `dim` is the
name's length, `1 ≤ dim ≤ upto`, and every letter is one of the type's component letters -/
def fnOk (vars : List Char) (upto : Nat) (f : List Char × List Char × Nat) : Bool :=
  decide (parseSwzFields f.2.1 = some f.1) && decide (f.2.2 = f.1.length) &&
  decide (1 ≤ f.1.length) && decide (f.1.length ≤ upto) && f.1.all (fun c => decide (c ∈ vars))
theorem swizzle_text_ok :
    (genSwizzleFns ['x'] 3).all (fnOk ['x'] 3) = true ∧
    (genSwizzleFns ['x', 'y'] 3).all (fnOk ['x', 'y'] 3) = true ∧
    (genSwizzleFns ['x', 'y', 'z'] 3).all (fnOk ['x', 'y', 'z'] 3) = true ∧
    (genSwizzleFns ['x'] 4).all (fnOk ['x'] 4) = true ∧
    (genSwizzleFns ['x', 'y'] 4).all (fnOk ['x', 'y'] 4) = true ∧
    (genSwizzleFns ['x', 'y', 'z'] 4).all (fnOk ['x', 'y', 'z'] 4) = true ∧
    (genSwizzleFns ['x', 'y', 'z', 'w'] 4).all (fnOk ['x', 'y', 'z', 'w'] 4) = true := by
  refine ⟨?_, ?_, ?_, ?_, ?_, ?_, ?_⟩ <;> decide +kernel
/-- the letter lists are the strings build.rs is called with -/
theorem letters_eq : letters "x" = ['x'] ∧ letters "xy" = ['x', 'y'] ∧ letters "xyz" = ['x', 'y', 'z'] ∧
    letters "xyzw" = ['x', 'y', 'z', 'w'] := by
  refine ⟨?_, ?_, ?_, ?_⟩ <;> decide +kernel
/-- the text generator emits the same names, in the same order, as the generator model of the first
part (so `swizzle_complete` — every word of length `1..upto` exactly once — and `swizzle_counts`
— 3/14/39/4/30/120/340 — are statements about the names of `genSwizzleFns`) -/
theorem swizzle_names_eq :
    (genSwizzleFns ['x'] 3).map (·.1) = (genSwizzleAll (letters "x") 3).map (·.1) ∧
    (genSwizzleFns ['x', 'y'] 3).map (·.1) = (genSwizzleAll (letters "xy") 3).map (·.1) ∧
    (genSwizzleFns ['x', 'y', 'z'] 3).map (·.1) = (genSwizzleAll (letters "xyz") 3).map (·.1) ∧
    (genSwizzleFns ['x'] 4).map (·.1) = (genSwizzleAll (letters "x") 4).map (·.1) ∧
    (genSwizzleFns ['x', 'y'] 4).map (·.1) = (genSwizzleAll (letters "xy") 4).map (·.1) ∧
    (genSwizzleFns ['x', 'y', 'z'] 4).map (·.1) = (genSwizzleAll (letters "xyz") 4).map (·.1) ∧
    (genSwizzleFns ['x', 'y', 'z', 'w'] 4).map (·.1) = (genSwizzleAll (letters "xyzw") 4).map (·.1) := by
  refine ⟨?_, ?_, ?_, ?_, ?_, ?_, ?_⟩ <;> decide +kernel

/-! ### from the check to the semantic statement, for any element type and any value -/
/-- one accepted accessor, run on a value whose field reader knows all the letters `vars`:
the emitted text evaluates to the components named by the NAME, in order; the constructor call
`VectorDIM::new(..)` is well-formed and returns a vector of dimension `dim = name.length` holding
exactly those components -/
theorem runSwizzleVec_of_ok (comp : Char → Option α) (vars : List Char) (upto : Nat) (hupto : upto ≤ 4)
    (hcomp : ∀ c ∈ vars, (comp c).isSome = true) (f : List Char × List Char × Nat)
    (hf : fnOk vars upto f = true) :
    swzEvalText comp f.2.1 = swzEvalWith comp f.1 ∧
    ∃ r : AnyVec α, runSwizzleVec comp f = some r ∧ r.dim = f.1.length ∧ r.dim = f.2.2 ∧
      swzEvalText comp f.2.1 = some r.toList ∧ ∀ k : Nat, r.toList[k]? = (f.1[k]?).bind comp := by
  obtain ⟨name, impl, dim⟩ := f
  simp only [fnOk, Bool.and_eq_true, decide_eq_true_eq, List.all_eq_true] at hf
  obtain ⟨⟨⟨⟨hparse, hdim⟩, h1⟩, hu⟩, hall⟩ := hf
  dsimp only at hparse hdim h1 hu hall ⊢
  have htext : swzEvalText comp impl = swzEvalWith comp name := by
    simp only [swzEvalText, hparse]
  obtain ⟨args, hargs⟩ := swzEvalWith_isSome comp name (fun c hc => hcomp c (hall c hc))
  obtain ⟨hlen, hk⟩ := swzEvalWith_spec comp name args hargs
  obtain ⟨r, hr, hrd, hrl⟩ := AnyVec.new?_spec args (by omega) (by omega)
  refine ⟨htext, r, ?_, by omega, by omega, ?_, ?_⟩
  · simp only [runSwizzleVec, htext, hargs, hdim, ← hlen, hr]
  · simp only [htext, hargs, hrl]
  · intro k; rw [hrl]; exact hk k
theorem runSwizzlePoint_of_ok (comp : Char → Option α) (vars : List Char) (upto : Nat) (hupto : upto ≤ 3)
    (hcomp : ∀ c ∈ vars, (comp c).isSome = true) (f : List Char × List Char × Nat)
    (hf : fnOk vars upto f = true) :
    swzEvalText comp f.2.1 = swzEvalWith comp f.1 ∧
    ∃ r : AnyPoint α, runSwizzlePoint comp f = some r ∧ r.dim = f.1.length ∧ r.dim = f.2.2 ∧
      swzEvalText comp f.2.1 = some r.toList ∧ ∀ k : Nat, r.toList[k]? = (f.1[k]?).bind comp := by
  obtain ⟨name, impl, dim⟩ := f
  simp only [fnOk, Bool.and_eq_true, decide_eq_true_eq, List.all_eq_true] at hf
  obtain ⟨⟨⟨⟨hparse, hdim⟩, h1⟩, hu⟩, hall⟩ := hf
  dsimp only at hparse hdim h1 hu hall ⊢
  have htext : swzEvalText comp impl = swzEvalWith comp name := by
    simp only [swzEvalText, hparse]
  obtain ⟨args, hargs⟩ := swzEvalWith_isSome comp name (fun c hc => hcomp c (hall c hc))
  obtain ⟨hlen, hk⟩ := swzEvalWith_spec comp name args hargs
  obtain ⟨r, hr, hrd, hrl⟩ := AnyPoint.new?_spec args (by omega) (by omega)
  refine ⟨htext, r, ?_, by omega, by omega, ?_, ?_⟩
  · simp only [runSwizzlePoint, htext, hargs, hdim, ← hlen, hr]
  · simp only [htext, hargs, hrl]
  · intro k; rw [hrl]; exact hk k

/-! ### the seven instantiations (`src/vector.rs:395-515`, `src/point.rs:347-355`) -/
/-- (about the model's generator `genSwizzleFns`, a Lean transcription of `build.rs`; the text `build.rs` really emits is not
seen by Lean) every one of the 340 accessors it generates for `Vector4` (`impl_swizzle_functions!(.., xyzw)`,
`upto = 4`): evaluating the emitted text on `v` gives the components named by the accessor's name,
in order; the result is the `Vector<dim>` with `dim = name.length` holding exactly those components -/
theorem V4.swizzle_sound_text (v : V4 α) (f : List Char × List Char × Nat)
    (hf : f ∈ genSwizzleFns ['x', 'y', 'z', 'w'] 4) :
    swzEvalText v.comp? f.2.1 = swzEval f.1 v ∧
    ∃ r : AnyVec α, runSwizzleVec v.comp? f = some r ∧ r.dim = f.1.length ∧ r.dim = f.2.2 ∧
      swzEvalText v.comp? f.2.1 = some r.toList ∧ ∀ k : Nat, r.toList[k]? = (f.1[k]?).bind v.comp? :=
  runSwizzleVec_of_ok v.comp? ['x', 'y', 'z', 'w'] 4 (by omega) (by intro c hc; simp at hc; rcases hc with rfl | rfl | rfl | rfl <;> rfl) f
    (List.all_eq_true.mp swizzle_text_ok.2.2.2.2.2.2 f hf)
/-- (about the model's generator `genSwizzleFns`, a Lean transcription of `build.rs`; the text `build.rs` really emits is not
seen by Lean) every one of the 120 accessors it generates for `Vector3` (`impl_swizzle_functions!(.., xyz)`,
`upto = 4`): evaluating the emitted text on `v` gives the components named by the accessor's name,
in order; the result is the `Vector<dim>` with `dim = name.length` holding exactly those components -/
theorem V3.swizzle_sound_text (v : V3 α) (f : List Char × List Char × Nat)
    (hf : f ∈ genSwizzleFns ['x', 'y', 'z'] 4) :
    swzEvalText v.comp? f.2.1 = swzEval3 f.1 v ∧
    ∃ r : AnyVec α, runSwizzleVec v.comp? f = some r ∧ r.dim = f.1.length ∧ r.dim = f.2.2 ∧
      swzEvalText v.comp? f.2.1 = some r.toList ∧ ∀ k : Nat, r.toList[k]? = (f.1[k]?).bind v.comp? :=
  runSwizzleVec_of_ok v.comp? ['x', 'y', 'z'] 4 (by omega) (by intro c hc; simp at hc; rcases hc with rfl | rfl | rfl <;> rfl) f
    (List.all_eq_true.mp swizzle_text_ok.2.2.2.2.2.1 f hf)
/-- (about the model's generator `genSwizzleFns`, a Lean transcription of `build.rs`; the text `build.rs` really emits is not
seen by Lean) every one of the 30 accessors it generates for `Vector2` (`impl_swizzle_functions!(.., xy)`,
`upto = 4`): evaluating the emitted text on `v` gives the components named by the accessor's name,
in order; the result is the `Vector<dim>` with `dim = name.length` holding exactly those components -/
theorem V2.swizzle_sound_text (v : V2 α) (f : List Char × List Char × Nat)
    (hf : f ∈ genSwizzleFns ['x', 'y'] 4) :
    swzEvalText v.comp? f.2.1 = swzEval2 f.1 v ∧
    ∃ r : AnyVec α, runSwizzleVec v.comp? f = some r ∧ r.dim = f.1.length ∧ r.dim = f.2.2 ∧
      swzEvalText v.comp? f.2.1 = some r.toList ∧ ∀ k : Nat, r.toList[k]? = (f.1[k]?).bind v.comp? :=
  runSwizzleVec_of_ok v.comp? ['x', 'y'] 4 (by omega) (by intro c hc; simp at hc; rcases hc with rfl | rfl <;> rfl) f
    (List.all_eq_true.mp swizzle_text_ok.2.2.2.2.1 f hf)
/-- (about the model's generator `genSwizzleFns`, a Lean transcription of `build.rs`; the text `build.rs` really emits is not
seen by Lean) every one of the 4 accessors it generates for `Vector1` (`impl_swizzle_functions!(.., x)`,
`upto = 4`): evaluating the emitted text on `v` gives the components named by the accessor's name,
in order; the result is the `Vector<dim>` with `dim = name.length` holding exactly those components -/
theorem V1.swizzle_sound_text (v : V1 α) (f : List Char × List Char × Nat)
    (hf : f ∈ genSwizzleFns ['x'] 4) :
    swzEvalText v.comp? f.2.1 = swzEval1 f.1 v ∧
    ∃ r : AnyVec α, runSwizzleVec v.comp? f = some r ∧ r.dim = f.1.length ∧ r.dim = f.2.2 ∧
      swzEvalText v.comp? f.2.1 = some r.toList ∧ ∀ k : Nat, r.toList[k]? = (f.1[k]?).bind v.comp? :=
  runSwizzleVec_of_ok v.comp? ['x'] 4 (by omega) (by intro c hc; simp at hc; subst hc; rfl) f
    (List.all_eq_true.mp swizzle_text_ok.2.2.2.1 f hf)
/-- (about the model's generator `genSwizzleFns`, a Lean transcription of `build.rs`; the text `build.rs` really emits is not
seen by Lean) every one of the 39 accessors it generates for `Point3` (`impl_swizzle_functions!(.., xyz)`,
`upto = 3`): evaluating the emitted text on `v` gives the components named by the accessor's name,
in order; the result is the `Point<dim>` with `dim = name.length` holding exactly those components -/
theorem P3.swizzle_sound_text (v : P3 α) (f : List Char × List Char × Nat)
    (hf : f ∈ genSwizzleFns ['x', 'y', 'z'] 3) :
    swzEvalText v.comp? f.2.1 = swzEvalP3 f.1 v ∧
    ∃ r : AnyPoint α, runSwizzlePoint v.comp? f = some r ∧ r.dim = f.1.length ∧ r.dim = f.2.2 ∧
      swzEvalText v.comp? f.2.1 = some r.toList ∧ ∀ k : Nat, r.toList[k]? = (f.1[k]?).bind v.comp? :=
  runSwizzlePoint_of_ok v.comp? ['x', 'y', 'z'] 3 (by omega) (by intro c hc; simp at hc; rcases hc with rfl | rfl | rfl <;> rfl) f
    (List.all_eq_true.mp swizzle_text_ok.2.2.1 f hf)
/-- (about the model's generator `genSwizzleFns`, a Lean transcription of `build.rs`; the text `build.rs` really emits is not
seen by Lean) every one of the 14 accessors it generates for `Point2` (`impl_swizzle_functions!(.., xy)`,
`upto = 3`): evaluating the emitted text on `v` gives the components named by the accessor's name,
in order; the result is the `Point<dim>` with `dim = name.length` holding exactly those components -/
theorem P2.swizzle_sound_text (v : P2 α) (f : List Char × List Char × Nat)
    (hf : f ∈ genSwizzleFns ['x', 'y'] 3) :
    swzEvalText v.comp? f.2.1 = swzEvalP2 f.1 v ∧
    ∃ r : AnyPoint α, runSwizzlePoint v.comp? f = some r ∧ r.dim = f.1.length ∧ r.dim = f.2.2 ∧
      swzEvalText v.comp? f.2.1 = some r.toList ∧ ∀ k : Nat, r.toList[k]? = (f.1[k]?).bind v.comp? :=
  runSwizzlePoint_of_ok v.comp? ['x', 'y'] 3 (by omega) (by intro c hc; simp at hc; rcases hc with rfl | rfl <;> rfl) f
    (List.all_eq_true.mp swizzle_text_ok.2.1 f hf)
/-- (about the model's generator `genSwizzleFns`, a Lean transcription of `build.rs`; the text `build.rs` really emits is not
seen by Lean) every one of the 3 accessors it generates for `Point1` (`impl_swizzle_functions!(.., x)`,
`upto = 3`): evaluating the emitted text on `v` gives the components named by the accessor's name,
in order; the result is the `Point<dim>` with `dim = name.length` holding exactly those components -/
theorem P1.swizzle_sound_text (v : P1 α) (f : List Char × List Char × Nat)
    (hf : f ∈ genSwizzleFns ['x'] 3) :
    swzEvalText v.comp? f.2.1 = swzEvalP1 f.1 v ∧
    ∃ r : AnyPoint α, runSwizzlePoint v.comp? f = some r ∧ r.dim = f.1.length ∧ r.dim = f.2.2 ∧
      swzEvalText v.comp? f.2.1 = some r.toList ∧ ∀ k : Nat, r.toList[k]? = (f.1[k]?).bind v.comp? :=
  runSwizzlePoint_of_ok v.comp? ['x'] 3 (by omega) (by intro c hc; simp at hc; subst hc; rfl) f
    (List.all_eq_true.mp swizzle_text_ok.1 f hf)

/-- the numbers of generated accessors: 3 / 14 / 39 on `Point1/2/3`, 4 / 30 / 120 / 340 on
`Vector1/2/3/4`, 550 in all -/
theorem swizzle_fns_counts :
    (genSwizzleFns ['x'] 3).length = 3 ∧ (genSwizzleFns ['x', 'y'] 3).length = 14 ∧
    (genSwizzleFns ['x', 'y', 'z'] 3).length = 39 ∧ (genSwizzleFns ['x'] 4).length = 4 ∧
    (genSwizzleFns ['x', 'y'] 4).length = 30 ∧ (genSwizzleFns ['x', 'y', 'z'] 4).length = 120 ∧
    (genSwizzleFns ['x', 'y', 'z', 'w'] 4).length = 340 ∧ 3 + 14 + 39 + 4 + 30 + 120 + 340 = 550 := by
  refine ⟨?_, ?_, ?_, ?_, ?_, ?_, ?_, rfl⟩ <;> decide +kernel
/-- every word of length `1..upto` over the type's letters is the name of exactly one emitted accessor,
and nothing else is emitted -/
def completeFns (vars : List Char) (upto : Nat) : Bool :=
  let names := (genSwizzleFns vars upto).map (·.1)
  let words := wordsUpTo vars upto
  names.length == words.length && words.all (fun w => names.count w == 1) &&
  names.all (fun n => words.contains n)
theorem swizzle_fns_complete :
    completeFns ['x'] 3 = true ∧ completeFns ['x', 'y'] 3 = true ∧ completeFns ['x', 'y', 'z'] 3 = true ∧
    completeFns ['x'] 4 = true ∧ completeFns ['x', 'y'] 4 = true ∧ completeFns ['x', 'y', 'z'] 4 = true ∧
    completeFns ['x', 'y', 'z', 'w'] 4 = true := by
  obtain ⟨n1, n2, n3, n4, n5, n6, n7⟩ := swizzle_names_eq
  obtain ⟨l1, l2, l3, l4⟩ := letters_eq
  obtain ⟨c1, c2, c3, c4, c5, c6, c7⟩ := swizzle_complete
  simp only [complete, l1, l2, l3, l4] at c1 c2 c3 c4 c5 c6 c7
  simp only [l1, l2, l3, l4] at n1 n2 n3 n4 n5 n6 n7
  simp only [completeFns, n1, n2, n3, n4, n5, n6, n7]
  exact ⟨c1, c2, c3, c4, c5, c6, c7⟩
/-- concrete accessors: `wx()` on a `Vector4` is emitted as `Vector2::new(self.w, self.x, )` and
returns `(w, x)`; `zzyx()` returns `(z, z, y, x)`; `yx()` on a `Point3` returns the `Point2` `(y, x)` -/
example : (['w', 'x'], "self.w, self.x, ".toList, 2) ∈ genSwizzleFns ['x', 'y', 'z', 'w'] 4 ∧
    (['z', 'z', 'y', 'x'], "self.z, self.z, self.y, self.x, ".toList, 4) ∈ genSwizzleFns ['x', 'y', 'z', 'w'] 4 ∧
    (['y', 'x'], "self.y, self.x, ".toList, 2) ∈ genSwizzleFns ['x', 'y', 'z'] 3 := by
  refine ⟨?_, ?_, ?_⟩ <;> decide +kernel
example (v : V4 α) (p : P3 α) :
    runSwizzleVec v.comp? (['w', 'x'], "self.w, self.x, ".toList, 2) = some (.v2 ⟨v.w, v.x⟩) ∧
    runSwizzleVec v.comp? (['z', 'z', 'y', 'x'], "self.z, self.z, self.y, self.x, ".toList, 4)
      = some (.v4 ⟨v.z, v.z, v.y, v.x⟩) ∧
    runSwizzlePoint p.comp? (['y', 'x'], "self.y, self.x, ".toList, 2) = some (.p2 ⟨p.y, p.x⟩) :=
  ⟨rfl, rfl, rfl⟩
/-- the check `fnOk` is not vacuous (for the accessors that the model's generator produces it does hold by construction of that
generator, for any letters and any `upto`: `genSwizzleFns_parse` below): an accessor whose text reads other fields than its name
says, reads them in another order, has the wrong arity / dimension, or is not of the emitted shape,
is rejected; and the semantic statement fails for it on a value with distinct components -/
example : fnOk ['x', 'y', 'z', 'w'] 4 (['x', 'y'], "self.y, self.x, ".toList, 2) = false ∧
    fnOk ['x', 'y', 'z', 'w'] 4 (['x', 'y'], "self.x, self.x, ".toList, 2) = false ∧
    fnOk ['x', 'y', 'z', 'w'] 4 (['x', 'y'], "self.x, self.y, self.z, ".toList, 2) = false ∧
    fnOk ['x', 'y', 'z', 'w'] 4 (['x', 'y'], "self.x, self.y, ".toList, 3) = false ∧
    fnOk ['x', 'y', 'z', 'w'] 4 (['x', 'y'], "self.x,self.y".toList, 2) = false ∧
    fnOk ['x', 'y', 'z'] 4 (['x', 'w'], "self.x, self.w, ".toList, 2) = false ∧
    swzEvalText (V4.mk 1 2 3 4).comp? "self.y, self.x, ".toList ≠ swzEval ['x', 'y'] (V4.mk 1 2 3 4) := by
  refine ⟨?_, ?_, ?_, ?_, ?_, ?_, ?_⟩ <;> decide +kernel

/-! ### the generator in general (any letters, any `upto`): the text generator is the generator of the
first part with every field letter `c` rendered as `self.c, `; the rendering parses back -/
/-- the text emitted for a list of field letters -/
def renderFields (w : List Char) : List Char := w.flatMap fun c => swzSelfDot ++ [c] ++ swzSep
theorem renderFields_append (w : List Char) (c : Char) :
    renderFields (w ++ [c]) = renderFields w ++ swzSelfDot ++ [c] ++ swzSep := by
  simp [renderFields, List.flatMap_append]
theorem parse_renderFields (w : List Char) : parseSwzFields (renderFields w) = some w := by
  induction w with
  | nil => rfl
  | cons c cs ih =>
    have : renderFields (c :: cs) = 's' :: 'e' :: 'l' :: 'f' :: '.' :: c :: ',' :: ' ' :: renderFields cs := by
      simp [renderFields, swzSelfDot, swzSep]
    rw [this, parseSwzFields, ih]
theorem genSwizzleTextGo_eq (vars : List Char) (n fuel i : Nat) (name impl : List Char) :
    genSwizzleTextGo vars n fuel i name (renderFields impl) =
      (genSwizzleNth.go vars n fuel i name impl).map fun p => (p.1, renderFields p.2) := by
  induction fuel generalizing i name impl with
  | zero => simp [genSwizzleTextGo, genSwizzleNth.go]
  | succ fuel ih =>
    unfold genSwizzleTextGo genSwizzleNth.go
    by_cases h0 : i = 0
    · simp [h0]
    · by_cases hn : i % n = 0
      · simp [h0, hn]
      · simp only [h0, hn, if_false]
        cases hc : vars[i % n - 1]? with
        | none => simp
        | some c =>
          simp only []
          rw [← renderFields_append, ih]
theorem genSwizzleNthText_eq (vars : List Char) (i upto : Nat) :
    genSwizzleNthText vars i upto = (genSwizzleNth vars i upto).map fun p => (p.1, renderFields p.2) := by
  have := genSwizzleTextGo_eq vars (vars.length + 1) upto i [] []
  simpa [genSwizzleNthText, genSwizzleNth, renderFields] using this
theorem genSwizzleNth_go_same (vars : List Char) (n fuel i : Nat) (name impl : List Char) (h : name = impl)
    (p : List Char × List Char) (hp : genSwizzleNth.go vars n fuel i name impl = some p) : p.1 = p.2 := by
  induction fuel generalizing i name impl with
  | zero => simp [genSwizzleNth.go] at hp; subst hp; exact h
  | succ fuel ih =>
    unfold genSwizzleNth.go at hp
    by_cases h0 : i = 0
    · simp [h0] at hp; subst hp; exact h
    · by_cases hn : i % n = 0
      · simp [h0, hn] at hp
      · simp only [h0, hn, if_false] at hp
        cases hc : vars[i % n - 1]? with
        | none => simp [hc] at hp
        | some c =>
          simp only [hc] at hp
          exact ih _ _ _ (by rw [h]) hp
/-- for ANY letter string and ANY `upto` (not only the seven instantiations): the text emitted for an
accessor parses back to exactly the letters of its name, and `dim` is the name's length -/
theorem genSwizzleFns_parse (vars : List Char) (upto : Nat) (f : List Char × List Char × Nat)
    (hf : f ∈ genSwizzleFns vars upto) : parseSwzFields f.2.1 = some f.1 ∧ f.2.2 = f.1.length := by
  simp only [genSwizzleFns, List.mem_filterMap] at hf
  obtain ⟨i, _, hi⟩ := hf
  split at hi
  · simp at hi
  · rw [genSwizzleNthText_eq] at hi
    cases hp : genSwizzleNth vars i upto with
    | none => simp [hp] at hi
    | some p =>
      simp [hp] at hi; subst hi
      have hsame : p.1 = p.2 := genSwizzleNth_go_same vars _ upto i [] [] rfl p (by simpa [genSwizzleNth] using hp)
      exact ⟨by simp only [hsame, parse_renderFields], rfl⟩

/-! ## 3. tuples, arrays, mint, nested / flat matrix arrays: every conversion keeps every component in
the order `x, y, z, w`, and the conversions are mutually inverse -/
/-! ### tuples (`impl_tuple_conversions!`; vectors and points; matrices have none) -/
/-- value -> tuple -> value -/
theorem tuple_roundtrip (v1 : V1 α) (v2 : V2 α) (v3 : V3 α) (v4 : V4 α) (p1 : P1 α) (p2 : P2 α) (p3 : P3 α) :
    V1.ofTuple v1.toTuple = v1 ∧ V2.ofTuple v2.toTuple = v2 ∧ V3.ofTuple v3.toTuple = v3 ∧
    V4.ofTuple v4.toTuple = v4 ∧ P1.ofTuple p1.toTuple = p1 ∧ P2.ofTuple p2.toTuple = p2 ∧
    P3.ofTuple p3.toTuple = p3 := ⟨rfl, rfl, rfl, rfl, rfl, rfl, rfl⟩
/-- tuple -> value -> tuple -/
theorem tuple_roundtrip' (t1 : α) (t2 : α × α) (t3 : α × α × α) (t4 : α × α × α × α) :
    (V1.ofTuple t1).toTuple = t1 ∧ (V2.ofTuple t2).toTuple = t2 ∧ (V3.ofTuple t3).toTuple = t3 ∧
    (V4.ofTuple t4).toTuple = t4 ∧ (P1.ofTuple t1).toTuple = t1 ∧ (P2.ofTuple t2).toTuple = t2 ∧
    (P3.ofTuple t3).toTuple = t3 := ⟨rfl, rfl, rfl, rfl, rfl, rfl, rfl⟩
/-- the tuple lists the fields in the order `x, y, z, w`; position `k` of the tuple is entry `k` of the
array view (hence index `k`) -/
theorem tuple_order (v1 : V1 α) (v2 : V2 α) (v3 : V3 α) (v4 : V4 α) (p1 : P1 α) (p2 : P2 α) (p3 : P3 α) :
    v1.toTuple = v1.x ∧ v2.toTuple = (v2.x, v2.y) ∧ v3.toTuple = (v3.x, v3.y, v3.z) ∧
    v4.toTuple = (v4.x, v4.y, v4.z, v4.w) ∧ p1.toTuple = p1.x ∧ p2.toTuple = (p2.x, p2.y) ∧
    p3.toTuple = (p3.x, p3.y, p3.z) ∧
    [v1.toTuple] = v1.toList ∧ tuple2List v2.toTuple = v2.toList ∧ tuple3List v3.toTuple = v3.toList ∧
    tuple4List v4.toTuple = v4.toList ∧ [p1.toTuple] = p1.toList ∧ tuple2List p2.toTuple = p2.toList ∧
    tuple3List p3.toTuple = p3.toList := ⟨rfl, rfl, rfl, rfl, rfl, rfl, rfl, rfl, rfl, rfl, rfl, rfl, rfl, rfl⟩
/-- building from a tuple puts position `k` into field / index `k` -/
theorem ofTuple_get (a b c d : α) :
    (V4.ofTuple (a, b, c, d)).toList = [a, b, c, d] ∧ (V3.ofTuple (a, b, c)).toList = [a, b, c] ∧
    (V2.ofTuple (a, b)).toList = [a, b] ∧ (V1.ofTuple a).toList = [a] ∧
    (P3.ofTuple (a, b, c)).toList = [a, b, c] ∧ (P2.ofTuple (a, b)).toList = [a, b] ∧
    (P1.ofTuple a).toList = [a] ∧
    (V4.ofTuple (a, b, c, d)).get? 3 = some d ∧ (V3.ofTuple (a, b, c)).get? 2 = some c := by
  exact ⟨rfl, rfl, rfl, rfl, rfl, rfl, rfl, rfl, rfl⟩
/-- in the model, the tuple view of the functional update `set? i a` is the old tuple with position `i` replaced.  (This is how
the model renders "`AsMut<(S, .., S)>` and `IndexMut` look at the same storage"; the model has no storage or aliasing, so the
statement is about pure values only) -/
theorem V4.set_toTuple (v : V4 α) (i : Fin 4) (a : α) :
    (v.set? i a).map (fun v' => tuple4List v'.toTuple) = some ((tuple4List v.toTuple).set i a) := by
  fin_cases i <;> rfl
theorem V3.set_toTuple (v : V3 α) (i : Fin 3) (a : α) :
    (v.set? i a).map (fun v' => tuple3List v'.toTuple) = some ((tuple3List v.toTuple).set i a) := by
  fin_cases i <;> rfl
theorem V2.set_toTuple (v : V2 α) (i : Fin 2) (a : α) :
    (v.set? i a).map (fun v' => tuple2List v'.toTuple) = some ((tuple2List v.toTuple).set i a) := by
  fin_cases i <;> rfl
theorem P3.set_toTuple (v : P3 α) (i : Fin 3) (a : α) :
    (v.set? i a).map (fun v' => tuple3List v'.toTuple) = some ((tuple3List v.toTuple).set i a) := by
  fin_cases i <;> rfl
theorem P2.set_toTuple (v : P2 α) (i : Fin 2) (a : α) :
    (v.set? i a).map (fun v' => tuple2List v'.toTuple) = some ((tuple2List v.toTuple).set i a) := by
  fin_cases i <;> rfl
/-- a write through the tuple view (`as_mut().k = a`) is visible through the index view:
replacing position `k` of the tuple and converting back is the index store -/
theorem V4.tuple_write (v : V4 α) (a : α) :
    some (V4.ofTuple (a, v.toTuple.2)) = v.set? 0 a ∧
    some (V4.ofTuple (v.toTuple.1, a, v.toTuple.2.2)) = v.set? 1 a ∧
    some (V4.ofTuple (v.toTuple.1, v.toTuple.2.1, a, v.toTuple.2.2.2)) = v.set? 2 a ∧
    some (V4.ofTuple (v.toTuple.1, v.toTuple.2.1, v.toTuple.2.2.1, a)) = v.set? 3 a := ⟨rfl, rfl, rfl, rfl⟩
theorem V3.tuple_write (v : V3 α) (a : α) :
    some (V3.ofTuple (a, v.toTuple.2)) = v.set? 0 a ∧
    some (V3.ofTuple (v.toTuple.1, a, v.toTuple.2.2)) = v.set? 1 a ∧
    some (V3.ofTuple (v.toTuple.1, v.toTuple.2.1, a)) = v.set? 2 a := ⟨rfl, rfl, rfl⟩
theorem V2.tuple_write (v : V2 α) (a : α) :
    some (V2.ofTuple (a, v.toTuple.2)) = v.set? 0 a ∧ some (V2.ofTuple (v.toTuple.1, a)) = v.set? 1 a :=
  ⟨rfl, rfl⟩
theorem Quat.tuple_write (q : Quat α) (a : α) :
    some (Quat.ofTuple (a, q.toTuple.2)) = q.set? 0 a ∧
    some (Quat.ofTuple (q.toTuple.1, a, q.toTuple.2.2)) = q.set? 1 a ∧
    some (Quat.ofTuple (q.toTuple.1, q.toTuple.2.1, a, q.toTuple.2.2.2)) = q.set? 2 a ∧
    some (Quat.ofTuple (q.toTuple.1, q.toTuple.2.1, q.toTuple.2.2.1, a)) = q.set? 3 a := ⟨rfl, rfl, rfl, rfl⟩

/-! ### fixed-size arrays, with the inverse in the model (`From<[S; n]>`) -/
theorem ofArray_roundtrip (v1 : V1 α) (v2 : V2 α) (v3 : V3 α) (v4 : V4 α) (p1 : P1 α) (p2 : P2 α) (p3 : P3 α) :
    _root_.Cg.V1.ofArray? v1.toList = some v1 ∧ _root_.Cg.V2.ofArray? v2.toList = some v2 ∧
    _root_.Cg.V3.ofArray? v3.toList = some v3 ∧ _root_.Cg.V4.ofArray? v4.toList = some v4 ∧
    _root_.Cg.P1.ofArray? p1.toList = some p1 ∧ _root_.Cg.P2.ofArray? p2.toList = some p2 ∧
    _root_.Cg.P3.ofArray? p3.toList = some p3 := ⟨rfl, rfl, rfl, rfl, rfl, rfl, rfl⟩
/-- array -> value -> array, and entry `k` of the array becomes index `k` -/
theorem ofArray_toList (a b c d : α) :
    (_root_.Cg.V1.ofArray? [a]).map V1.toList = some [a] ∧
    (_root_.Cg.V2.ofArray? [a, b]).map V2.toList = some [a, b] ∧
    (_root_.Cg.V3.ofArray? [a, b, c]).map V3.toList = some [a, b, c] ∧
    (_root_.Cg.V4.ofArray? [a, b, c, d]).map V4.toList = some [a, b, c, d] ∧
    (_root_.Cg.P1.ofArray? [a]).map P1.toList = some [a] ∧
    (_root_.Cg.P2.ofArray? [a, b]).map P2.toList = some [a, b] ∧
    (_root_.Cg.P3.ofArray? [a, b, c]).map P3.toList = some [a, b, c] := ⟨rfl, rfl, rfl, rfl, rfl, rfl, rfl⟩
theorem V4.ofArray?_spec (l : List α) :
    (l.length = 4 → (_root_.Cg.V4.ofArray? l).map V4.toList = some l) ∧
    (_root_.Cg.V4.ofArray? l = none ↔ l.length ≠ 4) := by
  rcases l with _ | ⟨a, _ | ⟨b, _ | ⟨c, _ | ⟨d, _ | ⟨e, l⟩⟩⟩⟩⟩ <;> simp [_root_.Cg.V4.ofArray?] <;> rfl
theorem V3.ofArray?_spec (l : List α) :
    (l.length = 3 → (_root_.Cg.V3.ofArray? l).map V3.toList = some l) ∧
    (_root_.Cg.V3.ofArray? l = none ↔ l.length ≠ 3) := by
  rcases l with _ | ⟨a, _ | ⟨b, _ | ⟨c, _ | ⟨d, l⟩⟩⟩⟩ <;> simp [_root_.Cg.V3.ofArray?] <;> rfl
theorem V2.ofArray?_spec (l : List α) :
    (l.length = 2 → (_root_.Cg.V2.ofArray? l).map V2.toList = some l) ∧
    (_root_.Cg.V2.ofArray? l = none ↔ l.length ≠ 2) := by
  rcases l with _ | ⟨a, _ | ⟨b, _ | ⟨c, l⟩⟩⟩ <;> simp [_root_.Cg.V2.ofArray?] <;> rfl
/-- a write to entry `i` of the array view, seen back as a value, is the index store (the converse
direction of `set_toList`) -/
theorem V4.array_write (v : V4 α) (i : Fin 4) (a : α) :
    _root_.Cg.V4.ofArray? (v.toList.set i a) = v.set? i a := by fin_cases i <;> rfl
theorem V3.array_write (v : V3 α) (i : Fin 3) (a : α) :
    _root_.Cg.V3.ofArray? (v.toList.set i a) = v.set? i a := by fin_cases i <;> rfl
theorem V2.array_write (v : V2 α) (i : Fin 2) (a : α) :
    _root_.Cg.V2.ofArray? (v.toList.set i a) = v.set? i a := by fin_cases i <;> rfl
theorem V1.array_write (v : V1 α) (i : Fin 1) (a : α) :
    _root_.Cg.V1.ofArray? (v.toList.set i a) = v.set? i a := by fin_cases i <;> rfl
theorem P3.array_write (v : P3 α) (i : Fin 3) (a : α) :
    _root_.Cg.P3.ofArray? (v.toList.set i a) = v.set? i a := by fin_cases i <;> rfl
theorem P2.array_write (v : P2 α) (i : Fin 2) (a : α) :
    _root_.Cg.P2.ofArray? (v.toList.set i a) = v.set? i a := by fin_cases i <;> rfl
theorem P1.array_write (v : P1 α) (i : Fin 1) (a : α) :
    _root_.Cg.P1.ofArray? (v.toList.set i a) = v.set? i a := by fin_cases i <;> rfl
theorem Quat.array_write (q : Quat α) (i : Fin 4) (a : α) :
    _root_.Cg.Quat.ofArray? (q.toArray.set i a) = q.set? i a := by fin_cases i <;> rfl

/-! ### matrices: nested `[[S; n]; n]` and flat `[S; n*n]`, column-major -/
/-- the nested array is the list of the columns' arrays; the flat array is its concatenation;
entry `[c][r]` of the nested array is `m[c][r]` -/
theorem M2.nested_views (m : M2 α) (c r : Nat) :
    m.toNested = m.cols.map V2.toList ∧ m.toNested.flatten = m.toList ∧
    (m.toNested[c]?).bind (·[r]?) = m.get? c r := by
  refine ⟨rfl, rfl, ?_⟩
  rcases c with _ | _ | c <;> simp [M2.toNested, M2.get?, M2.col?, M2.cols, V2.get?]
theorem M3.nested_views (m : M3 α) (c r : Nat) :
    m.toNested = m.cols.map V3.toList ∧ m.toNested.flatten = m.toList ∧
    (m.toNested[c]?).bind (·[r]?) = m.get? c r := by
  refine ⟨rfl, rfl, ?_⟩
  rcases c with _ | _ | _ | c <;> simp [M3.toNested, M3.get?, M3.col?, M3.cols, V3.get?]
theorem M4.nested_views (m : M4 α) (c r : Nat) :
    m.toNested = m.cols.map V4.toList ∧ m.toNested.flatten = m.toList ∧
    (m.toNested[c]?).bind (·[r]?) = m.get? c r := by
  refine ⟨rfl, rfl, ?_⟩
  rcases c with _ | _ | _ | _ | c <;> simp [M4.toNested, M4.get?, M4.col?, M4.cols, V4.get?]
/-- matrix -> nested / flat array -> matrix is the identity -/
theorem matrix_array_roundtrip (m2 : M2 α) (m3 : M3 α) (m4 : M4 α) :
    M2.ofNested? m2.toNested = some m2 ∧ M3.ofNested? m3.toNested = some m3 ∧
    M4.ofNested? m4.toNested = some m4 ∧
    M2.ofFlat? m2.toList = some m2 ∧ M3.ofFlat? m3.toList = some m3 ∧ M4.ofFlat? m4.toList = some m4 :=
  ⟨rfl, rfl, rfl, rfl, rfl, rfl⟩
/-- flat array -> matrix -> flat array is the identity: entry `n*c + r` goes to column `c`, row `r` -/
theorem M2.ofFlat?_spec (l : List α) :
    (l.length = 4 → (M2.ofFlat? l).map M2.toList = some l) ∧ (M2.ofFlat? l = none ↔ l.length ≠ 4) := by
  rcases l with _ | ⟨a0, _ | ⟨a1, _ | ⟨a2, _ | ⟨a3, _ | ⟨a4, l⟩⟩⟩⟩⟩ <;> simp [M2.ofFlat?] <;> rfl
theorem M2.ofFlat?_get (l : List α) (m : M2 α) (h : M2.ofFlat? l = some m) (c r : Fin 2) :
    m.get? c r = l[2 * c.val + r.val]? := by
  rcases l with _ | ⟨a0, _ | ⟨a1, _ | ⟨a2, _ | ⟨a3, _ | ⟨a4, l⟩⟩⟩⟩⟩ <;> simp [M2.ofFlat?] at h
  subst h; fin_cases c <;> fin_cases r <;> rfl
theorem M3.ofFlat?_toList (a0 a1 a2 a3 a4 a5 a6 a7 a8 : α) :
    (M3.ofFlat? [a0, a1, a2, a3, a4, a5, a6, a7, a8]).map M3.toList = some [a0, a1, a2, a3, a4, a5, a6, a7, a8] ∧
    M3.ofFlat? [a0, a1, a2, a3, a4, a5, a6, a7, a8] = some (M3.new a0 a1 a2 a3 a4 a5 a6 a7 a8) := ⟨rfl, rfl⟩
theorem M3.ofFlat?_get (a0 a1 a2 a3 a4 a5 a6 a7 a8 : α) (c r : Fin 3) :
    (M3.ofFlat? [a0, a1, a2, a3, a4, a5, a6, a7, a8]).bind (·.get? c r)
      = [a0, a1, a2, a3, a4, a5, a6, a7, a8][3 * c.val + r.val]? := by
  fin_cases c <;> fin_cases r <;> rfl
theorem M4.ofFlat?_toList (a0 a1 a2 a3 a4 a5 a6 a7 a8 a9 a10 a11 a12 a13 a14 a15 : α) :
    (M4.ofFlat? [a0, a1, a2, a3, a4, a5, a6, a7, a8, a9, a10, a11, a12, a13, a14, a15]).map M4.toList
      = some [a0, a1, a2, a3, a4, a5, a6, a7, a8, a9, a10, a11, a12, a13, a14, a15] ∧
    M4.ofFlat? [a0, a1, a2, a3, a4, a5, a6, a7, a8, a9, a10, a11, a12, a13, a14, a15]
      = some (M4.new a0 a1 a2 a3 a4 a5 a6 a7 a8 a9 a10 a11 a12 a13 a14 a15) := ⟨rfl, rfl⟩
theorem M4.ofFlat?_get (a0 a1 a2 a3 a4 a5 a6 a7 a8 a9 a10 a11 a12 a13 a14 a15 : α) (c r : Fin 4) :
    (M4.ofFlat? [a0, a1, a2, a3, a4, a5, a6, a7, a8, a9, a10, a11, a12, a13, a14, a15]).bind (·.get? c r)
      = [a0, a1, a2, a3, a4, a5, a6, a7, a8, a9, a10, a11, a12, a13, a14, a15][4 * c.val + r.val]? := by
  fin_cases c <;> fin_cases r <;> rfl
/-- nested array -> matrix: column `c` of the matrix is the vector made of inner array `c` -/
theorem ofNested?_cols (x2 y2 : V2 α) (x3 y3 z3 : V3 α) (x4 y4 z4 w4 : V4 α) :
    M2.ofNested? [x2.toList, y2.toList] = some ⟨x2, y2⟩ ∧
    M3.ofNested? [x3.toList, y3.toList, z3.toList] = some ⟨x3, y3, z3⟩ ∧
    M4.ofNested? [x4.toList, y4.toList, z4.toList, w4.toList] = some ⟨x4, y4, z4, w4⟩ := ⟨rfl, rfl, rfl⟩
/-- a write to entry `n*c + r` of the flat view, seen back as a matrix, is the store `m[c][r] = a`
(the converse direction of `matrix_set_flat`) -/
theorem M2.flat_write (m : M2 α) (c r : Fin 2) (a : α) :
    M2.ofFlat? (m.toList.set (2 * c.val + r.val) a) = m.set? c r a := by
  fin_cases c <;> fin_cases r <;> rfl
theorem M3.flat_write (m : M3 α) (c r : Fin 3) (a : α) :
    M3.ofFlat? (m.toList.set (3 * c.val + r.val) a) = m.set? c r a := by
  fin_cases c <;> fin_cases r <;> rfl
theorem M4.flat_write (m : M4 α) (c r : Fin 4) (a : α) :
    M4.ofFlat? (m.toList.set (4 * c.val + r.val) a) = m.set? c r a := by
  fin_cases c <;> fin_cases r <;> rfl

/-! ### mint -/
/-- cgmath -> mint -> cgmath -/
theorem mint_roundtrip (v2 : V2 α) (v3 : V3 α) (v4 : V4 α) (p2 : P2 α) (p3 : P3 α)
    (m2 : M2 α) (m3 : M3 α) (m4 : M4 α) (q : Quat α) :
    V2.ofMint v2.toMint = v2 ∧ V3.ofMint v3.toMint = v3 ∧ V4.ofMint v4.toMint = v4 ∧
    P2.ofMint p2.toMint = p2 ∧ P3.ofMint p3.toMint = p3 ∧
    M2.ofMint m2.toMint = m2 ∧ M3.ofMint m3.toMint = m3 ∧ M4.ofMint m4.toMint = m4 ∧
    Quat.ofMint q.toMint = q := ⟨rfl, rfl, rfl, rfl, rfl, rfl, rfl, rfl, rfl⟩
/-- mint -> cgmath -> mint -/
theorem mint_roundtrip' (v2 : Mint.Vector2 α) (v3 : Mint.Vector3 α) (v4 : Mint.Vector4 α)
    (p2 : Mint.Point2 α) (p3 : Mint.Point3 α) (m2 : Mint.ColumnMatrix2 α) (m3 : Mint.ColumnMatrix3 α)
    (m4 : Mint.ColumnMatrix4 α) (q : Mint.Quaternion α) :
    (V2.ofMint v2).toMint = v2 ∧ (V3.ofMint v3).toMint = v3 ∧ (V4.ofMint v4).toMint = v4 ∧
    (P2.ofMint p2).toMint = p2 ∧ (P3.ofMint p3).toMint = p3 ∧
    (M2.ofMint m2).toMint = m2 ∧ (M3.ofMint m3).toMint = m3 ∧ (M4.ofMint m4).toMint = m4 ∧
    (Quat.ofMint q).toMint = q := ⟨rfl, rfl, rfl, rfl, rfl, rfl, rfl, rfl, rfl⟩
/-- field by field: `x ↦ x`, .., `w ↦ w`; for the quaternion `s ↦ s`, `v ↦ v` (the scalar part stays
the scalar part) -/
theorem mint_fields (v4 : V4 α) (v3 : V3 α) (v2 : V2 α) (p3 : P3 α) (p2 : P2 α) (q : Quat α) :
    v4.toMint = ⟨v4.x, v4.y, v4.z, v4.w⟩ ∧ v3.toMint = ⟨v3.x, v3.y, v3.z⟩ ∧ v2.toMint = ⟨v2.x, v2.y⟩ ∧
    p3.toMint = ⟨p3.x, p3.y, p3.z⟩ ∧ p2.toMint = ⟨p2.x, p2.y⟩ ∧
    q.toMint.s = q.s ∧ q.toMint.v = ⟨q.v.x, q.v.y, q.v.z⟩ := ⟨rfl, rfl, rfl, rfl, rfl, rfl, rfl⟩
theorem mint_fields' (v4 : Mint.Vector4 α) (q : Mint.Quaternion α) (m3 : Mint.ColumnMatrix3 α) :
    V4.ofMint v4 = ⟨v4.x, v4.y, v4.z, v4.w⟩ ∧ (Quat.ofMint q).s = q.s ∧
    (Quat.ofMint q).v = ⟨q.v.x, q.v.y, q.v.z⟩ ∧
    (M3.ofMint m3).x = V3.ofMint m3.x ∧ (M3.ofMint m3).y = V3.ofMint m3.y ∧
    (M3.ofMint m3).z = V3.ofMint m3.z := ⟨rfl, rfl, rfl, rfl, rfl, rfl⟩
/-- mint's own array views of the converted values are cgmath's array views: same components, same
order (`x, y, z, w`; quaternion `x, y, z, s`; matrices column-major) -/
theorem mint_arrays (v2 : V2 α) (v3 : V3 α) (v4 : V4 α) (p2 : P2 α) (p3 : P3 α)
    (m2 : M2 α) (m3 : M3 α) (m4 : M4 α) (q : Quat α) :
    v2.toMint.toArray = v2.toList ∧ v3.toMint.toArray = v3.toList ∧ v4.toMint.toArray = v4.toList ∧
    p2.toMint.toArray = p2.toList ∧ p3.toMint.toArray = p3.toList ∧
    m2.toMint.toArray = m2.toList ∧ m3.toMint.toArray = m3.toList ∧ m4.toMint.toArray = m4.toList ∧
    q.toMint.toArray = q.toArray := ⟨rfl, rfl, rfl, rfl, rfl, rfl, rfl, rfl, rfl⟩
/-- the columns stay the columns: `m[c][r]` of the matrix is field `c`, component `r` on the mint side -/
theorem mint_matrix_cols (m2 : M2 α) (m3 : M3 α) (m4 : M4 α) :
    m2.toMint.x = m2.x.toMint ∧ m2.toMint.y = m2.y.toMint ∧
    m3.toMint.x = m3.x.toMint ∧ m3.toMint.y = m3.y.toMint ∧ m3.toMint.z = m3.z.toMint ∧
    m4.toMint.x = m4.x.toMint ∧ m4.toMint.y = m4.y.toMint ∧ m4.toMint.z = m4.z.toMint ∧
    m4.toMint.w = m4.w.toMint := ⟨rfl, rfl, rfl, rfl, rfl, rfl, rfl, rfl, rfl⟩
/-- `Quaternion::new(w, x, y, z)` (scalar first) becomes `mint::Quaternion { v: (x, y, z), s: w }` -/
theorem Quat.new_toMint (w x y z : α) :
    (Quat.new w x y z).toMint = ⟨⟨x, y, z⟩, w⟩ ∧ (Quat.new w x y z).toMint.toArray = [x, y, z, w] :=
  ⟨rfl, rfl⟩

/-! ## 4. range indices and `truncate_n(isize)` -/
/-- `arr[a..b]` panics exactly when `a > b` or `b > len` -/
theorem sliceRange?_eq_none_iff (l : List α) (a b : Nat) :
    sliceRange? l a b = none ↔ b < a ∨ l.length < b := by
  unfold sliceRange?; split <;> simp <;> omega
/-- the slice `arr[a..b]` has `b - a` entries and its entry `k` is entry `a + k` of the array -/
theorem sliceRange?_spec (l r : List α) (a b : Nat) (h : sliceRange? l a b = some r) :
    a ≤ b ∧ b ≤ l.length ∧ r.length = b - a ∧ ∀ k : Nat, k < b - a → r[k]? = l[a + k]? := by
  unfold sliceRange? at h
  split at h
  · rename_i hab
    simp at h; subst h
    refine ⟨hab.1, hab.2, by simp; omega, ?_⟩
    intro k hk
    simp [hk]
  · simp at h
/-- `..b`, `a..`, `..` are `0..b`, `a..len`, `0..len`; the full range is the whole array view -/
theorem slice_forms (l : List α) (a b : Nat) :
    sliceTo? l b = sliceRange? l 0 b ∧ sliceFrom? l a = sliceRange? l a l.length ∧
    sliceRange? l 0 l.length = some (sliceFull l) ∧ sliceFull l = l := by
  refine ⟨rfl, rfl, ?_, rfl⟩
  simp [sliceRange?, sliceFull]
/-- vectors, points and the quaternion: a range index reads the entries `a .. b-1` of the index view;
it panics exactly when `a > b` or `b > n` -/
theorem V4.range?_spec (v : V4 α) (a b : Nat) :
    (v.range? a b = none ↔ b < a ∨ 4 < b) ∧
    ∀ r, v.range? a b = some r → r.length = b - a ∧ ∀ k : Nat, k < b - a → r[k]? = v.get? (a + k) := by
  refine ⟨by simpa [V4.range?, V4.toList] using sliceRange?_eq_none_iff v.toList a b, ?_⟩
  intro r h
  obtain ⟨_, _, h3, h4⟩ := sliceRange?_spec v.toList r a b h
  exact ⟨h3, h4⟩
theorem V3.range?_spec (v : V3 α) (a b : Nat) :
    (v.range? a b = none ↔ b < a ∨ 3 < b) ∧
    ∀ r, v.range? a b = some r → r.length = b - a ∧ ∀ k : Nat, k < b - a → r[k]? = v.get? (a + k) := by
  refine ⟨by simpa [V3.range?, V3.toList] using sliceRange?_eq_none_iff v.toList a b, ?_⟩
  intro r h
  obtain ⟨_, _, h3, h4⟩ := sliceRange?_spec v.toList r a b h
  exact ⟨h3, h4⟩
theorem V2.range?_spec (v : V2 α) (a b : Nat) :
    (v.range? a b = none ↔ b < a ∨ 2 < b) ∧
    ∀ r, v.range? a b = some r → r.length = b - a ∧ ∀ k : Nat, k < b - a → r[k]? = v.get? (a + k) := by
  refine ⟨by simpa [V2.range?, V2.toList] using sliceRange?_eq_none_iff v.toList a b, ?_⟩
  intro r h
  obtain ⟨_, _, h3, h4⟩ := sliceRange?_spec v.toList r a b h
  exact ⟨h3, h4⟩
theorem V1.range?_spec (v : V1 α) (a b : Nat) :
    (v.range? a b = none ↔ b < a ∨ 1 < b) ∧
    ∀ r, v.range? a b = some r → r.length = b - a ∧ ∀ k : Nat, k < b - a → r[k]? = v.get? (a + k) := by
  refine ⟨by simpa [V1.range?, V1.toList] using sliceRange?_eq_none_iff v.toList a b, ?_⟩
  intro r h
  obtain ⟨_, _, h3, h4⟩ := sliceRange?_spec v.toList r a b h
  exact ⟨h3, h4⟩
theorem P3.range?_spec (v : P3 α) (a b : Nat) :
    (v.range? a b = none ↔ b < a ∨ 3 < b) ∧
    ∀ r, v.range? a b = some r → r.length = b - a ∧ ∀ k : Nat, k < b - a → r[k]? = v.get? (a + k) := by
  refine ⟨by simpa [P3.range?, P3.toList] using sliceRange?_eq_none_iff v.toList a b, ?_⟩
  intro r h
  obtain ⟨_, _, h3, h4⟩ := sliceRange?_spec v.toList r a b h
  exact ⟨h3, h4⟩
theorem P2.range?_spec (v : P2 α) (a b : Nat) :
    (v.range? a b = none ↔ b < a ∨ 2 < b) ∧
    ∀ r, v.range? a b = some r → r.length = b - a ∧ ∀ k : Nat, k < b - a → r[k]? = v.get? (a + k) := by
  refine ⟨by simpa [P2.range?, P2.toList] using sliceRange?_eq_none_iff v.toList a b, ?_⟩
  intro r h
  obtain ⟨_, _, h3, h4⟩ := sliceRange?_spec v.toList r a b h
  exact ⟨h3, h4⟩
theorem P1.range?_spec (v : P1 α) (a b : Nat) :
    (v.range? a b = none ↔ b < a ∨ 1 < b) ∧
    ∀ r, v.range? a b = some r → r.length = b - a ∧ ∀ k : Nat, k < b - a → r[k]? = v.get? (a + k) := by
  refine ⟨by simpa [P1.range?, P1.toList] using sliceRange?_eq_none_iff v.toList a b, ?_⟩
  intro r h
  obtain ⟨_, _, h3, h4⟩ := sliceRange?_spec v.toList r a b h
  exact ⟨h3, h4⟩
theorem Quat.range?_spec (q : Quat α) (a b : Nat) :
    (q.range? a b = none ↔ b < a ∨ 4 < b) ∧
    ∀ r, q.range? a b = some r → r.length = b - a ∧ ∀ k : Nat, k < b - a → r[k]? = q.get? (a + k) := by
  refine ⟨by simpa [Quat.range?, _root_.Cg.Quat.toArray] using sliceRange?_eq_none_iff q.toArray a b, ?_⟩
  intro r h
  obtain ⟨_, _, h3, h4⟩ := sliceRange?_spec q.toArray r a b h
  exact ⟨h3, h4⟩
/-- a store through a mutable range view, `arr[a..b][k] = x`, is the store at index `a + k`; it panics
exactly when the range is bad or `k` is outside the slice -/
theorem sliceSet?_spec (l : List α) (a b k : Nat) (x : α) :
    (sliceSet? l a b k x = none ↔ b < a ∨ l.length < b ∨ b - a ≤ k) ∧
    ∀ l', sliceSet? l a b k x = some l' → l' = l.set (a + k) x ∧ a + k < l.length := by
  unfold sliceSet?
  split
  · rename_i h; refine ⟨by simp; omega, ?_⟩
    intro l' hl; simp at hl; exact ⟨hl.symm, by omega⟩
  · rename_i h; refine ⟨by simp; omega, ?_⟩
    intro l' hl; simp at hl
theorem V4.range_write (v : V4 α) (a b k : Nat) (x : α) (l' : List α)
    (h : sliceSet? v.toList a b k x = some l') : _root_.Cg.V4.ofArray? l' = v.set? (a + k) x := by
  obtain ⟨rfl, hlt⟩ := (sliceSet?_spec v.toList a b k x).2 l' h
  have h4 : a + k < 4 := by simpa [V4.toList] using hlt
  exact V4.array_write v ⟨a + k, h4⟩ x
theorem Quat.range_write (q : Quat α) (a b k : Nat) (x : α) (l' : List α)
    (h : sliceSet? q.toArray a b k x = some l') : _root_.Cg.Quat.ofArray? l' = q.set? (a + k) x := by
  obtain ⟨rfl, hlt⟩ := (sliceSet?_spec q.toArray a b k x).2 l' h
  have h4 : a + k < 4 := by simpa [_root_.Cg.Quat.toArray] using hlt
  exact Quat.array_write q ⟨a + k, h4⟩ x
example : (V4.mk 1 2 3 4).range? 1 3 = some [2, 3] ∧ (V4.mk 1 2 3 4).range? 2 5 = none ∧
    (V4.mk 1 2 3 4).range? 3 2 = none ∧ (Quat.new (10 : Nat) 1 2 3).range? 2 4 = some [3, 10] ∧
    (V4.mk 1 2 3 4).range? 4 4 = some [] := by decide

/-- `truncate_n(n: isize)`: `n ∈ {0, 1, 2, 3}` drops exactly component `n`; every other `n`, the
negative ones included, panics; on `0 ≤ n` it is the `Nat` model of the first part -/
theorem truncateNI_spec (v : V4 α) (n : Int) :
    (0 ≤ n → n < 4 → (v.truncateNI? n).map V3.toList = some (v.toList.eraseIdx n.toNat)) ∧
    (v.truncateNI? n = none ↔ n < 0 ∨ 4 ≤ n) ∧ (0 ≤ n → v.truncateNI? n = v.truncateN? n.toNat) := by
  rcases n with n | n
  · rcases n with _ | _ | _ | _ | n
    · exact ⟨fun _ _ => rfl, by simp [V4.truncateNI?], fun _ => rfl⟩
    · exact ⟨fun _ _ => rfl, by simp [V4.truncateNI?], fun _ => rfl⟩
    · exact ⟨fun _ _ => rfl, by simp [V4.truncateNI?], fun _ => rfl⟩
    · exact ⟨fun _ _ => rfl, by simp [V4.truncateNI?], fun _ => rfl⟩
    · refine ⟨fun _ h => by simp only [Int.ofNat_eq_natCast] at h; omega, ?_, fun _ => rfl⟩
      constructor
      · intro _; right; simp only [Int.ofNat_eq_natCast]; omega
      · intro _; rfl
  · refine ⟨fun h => by omega, ?_, fun h => by omega⟩
    constructor
    · intro _; left; omega
    · intro _; rfl

end Cg.C16
