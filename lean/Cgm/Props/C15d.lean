import Cgm.Props.C15c
/-!
# C15 (fourth part) — the 2-D direction clause, and `from_arc` with an arbitrary fallback axis

1. `Basis2::between_vectors(a, b) = from_angle(atan2(a.perp_dot(b), a.dot(b)))`: "it turns the short
   way, clockwise when `b` is clockwise of `a`".  Over `ℝ` (`atan2 y x = arg (x + i y)`) the angle `θ`
   lies in `(-π, π]`; its sign is the sign of `perp_dot a b` (`b` is clockwise of `a` iff
   `perp_dot a b < 0`, `perpDot_rotate`), with the two boundary cases `θ = 0` (parallel) and `θ = π`
   (antiparallel) spelt out; and among ALL angles `φ` whose rotation takes `a` to `b`, `θ` has the least
   absolute value (`φ = θ + 2πk`).
2. `Quaternion::from_arc(src, dst, Some(f))` on the antiparallel branch uses `f` as it is (no
   normalisation, no perpendicularity check): the result is `from_axis_angle(f, π) = (0, f)` whatever
   `f` is.  It is unit iff `|f| = 1`, and (for `src ≠ 0`) it sends `src` to `-src` iff `|f| = 1` and
   `f ⟂ src`.  Concrete counterexamples for a non-unit and a non-perpendicular fallback.
-/
set_option linter.unusedSectionVars false
namespace Cg.C15
open Cg Real
open scoped Cg.RealApprox

/-! ## 1. `Basis2::between_vectors`: direction and "short way" -/

/-- what "clockwise of" means: rotating `a` through `φ` gives a vector whose `perp_dot` with `a` is
`|a|² sin φ` and whose `dot` is `|a|² cos φ`; so (for `a ≠ 0`, `φ ∈ (-π, 0)`, a clockwise turn in the
usual orientation where `x̂ → ŷ` is counter-clockwise) `perp_dot a b < 0` -/
theorem perpDot_rotate (a : V2 ℝ) (φ : ℝ) :
    V2.perpDot a (M2.fromAngle φ * a) = a.magnitude2 * Real.sin φ ∧
    V2.dot a (M2.fromAngle φ * a) = a.magnitude2 * Real.cos φ := by
  constructor <;> (simp [M2.fromAngle, M2.new]; ring)

/-- the angle of the model's `Basis2::between_vectors`, at the real instance -/
theorem basis2_angle_def (a b : V2 ℝ) :
    (Basis2.betweenVectors a b).mat = M2.fromAngle (V2.angle a b) ∧
    V2.angle a b = Complex.arg ⟨V2.dot a b, V2.perpDot a b⟩ := ⟨rfl, rfl⟩

/-- **direction clause** (no hypothesis on `a`, `b`): the rotation is `from_angle θ` with
`θ = atan2(a⊥·b, a·b) ∈ (-π, π]`, `|θ| ≤ π`;
* `θ < 0` (clockwise) iff `a⊥·b < 0`, i.e. iff `b` is clockwise of `a`;
* `θ > 0` (counter-clockwise) iff `a⊥·b > 0`, or `a⊥·b = 0` and `a·b < 0` (antiparallel: `θ = π`);
* `θ = 0` iff `a⊥·b = 0` and `a·b ≥ 0` (parallel, or a zero argument);
* `θ = π` iff `a⊥·b = 0` and `a·b < 0`;
* `|θ| ≤ π/2` iff `a·b ≥ 0` -/
theorem basis2_betweenVectors_direction (a b : V2 ℝ) :
    let θ := V2.angle a b
    (Basis2.betweenVectors a b).mat = M2.fromAngle θ ∧
    -π < θ ∧ θ ≤ π ∧ |θ| ≤ π ∧
    (θ < 0 ↔ V2.perpDot a b < 0) ∧
    (0 < θ ↔ 0 < V2.perpDot a b ∨ (V2.perpDot a b = 0 ∧ V2.dot a b < 0)) ∧
    (θ = 0 ↔ V2.perpDot a b = 0 ∧ 0 ≤ V2.dot a b) ∧
    (θ = π ↔ V2.perpDot a b = 0 ∧ V2.dot a b < 0) ∧
    (|θ| ≤ π / 2 ↔ 0 ≤ V2.dot a b) := by
  intro θ
  set z : ℂ := ⟨V2.dot a b, V2.perpDot a b⟩ with hz
  have hθ : θ = Complex.arg z := rfl
  have hneg : θ < 0 ↔ V2.perpDot a b < 0 := by rw [hθ, Complex.arg_neg_iff]
  have hzero : θ = 0 ↔ V2.perpDot a b = 0 ∧ 0 ≤ V2.dot a b := by
    rw [hθ, Complex.arg_eq_zero_iff]; exact and_comm
  have hpi : θ = π ↔ V2.perpDot a b = 0 ∧ V2.dot a b < 0 := by
    rw [hθ, Complex.arg_eq_pi_iff]; exact and_comm
  refine ⟨rfl, Complex.neg_pi_lt_arg z, Complex.arg_le_pi z, Complex.abs_arg_le_pi z, hneg, ?_,
    hzero, hpi, ?_⟩
  · constructor
    · intro hpos
      rcases lt_trichotomy (V2.perpDot a b) 0 with h | h | h
      · have := hneg.2 h; linarith
      · right
        refine ⟨h, ?_⟩
        by_contra hd
        have := hzero.2 ⟨h, not_lt.mp hd⟩
        linarith
      · exact Or.inl h
    · rintro (h | ⟨h1, h2⟩)
      · have h0 : 0 ≤ θ := by rw [hθ, Complex.arg_nonneg_iff]; exact h.le
        rcases h0.lt_or_eq with h' | h'
        · exact h'
        · have := (hzero.1 h'.symm).1; linarith
      · rw [hpi.2 ⟨h1, h2⟩]; exact Real.pi_pos
  · rw [hθ, Complex.abs_arg_le_pi_div_two_iff]

/-- for non-zero `a`, `b` the cases are exhaustive in terms of `a⊥·b` alone except on the line through
`a`: `a⊥·b = 0` and `a·b = 0` cannot both hold -/
theorem perpDot_dot_ne_zero (a b : V2 ℝ) (ha : 0 < a.magnitude2) (hb : 0 < b.magnitude2) :
    V2.perpDot a b ≠ 0 ∨ V2.dot a b ≠ 0 := by
  have lag : V2.dot a b * V2.dot a b + V2.perpDot a b * V2.perpDot a b
      = a.magnitude2 * b.magnitude2 := by simp; ring
  by_contra hcon
  rw [not_or, not_not, not_not] at hcon
  rw [hcon.1, hcon.2] at lag
  have : 0 < a.magnitude2 * b.magnitude2 := mul_pos ha hb
  linarith

/-- the cosine and sine of the angle, for unit arguments -/
theorem basis2_angle_cos_sin (a b : V2 ℝ) (ha : V2.dot a a = 1) (hb : V2.dot b b = 1) :
    Real.cos (V2.angle a b) = V2.dot a b ∧ Real.sin (V2.angle a b) = V2.perpDot a b := by
  have ha2 : a.magnitude2 = 1 := ha
  have hb2 : b.magnitude2 = 1 := hb
  obtain ⟨h1, h2, _, _⟩ := Cg.C11.V2.angle_spec a b (by rw [ha2]; exact one_pos) (by rw [hb2]; exact one_pos)
  have ma : a.magnitude = 1 := by simp only [V2.magnitude, transc_sqrt, ha2, Real.sqrt_one]
  have mb : b.magnitude = 1 := by simp only [V2.magnitude, transc_sqrt, hb2, Real.sqrt_one]
  rw [ma, mb, one_mul, one_mul] at h1 h2
  exact ⟨h1, h2⟩

/-- **"the short way"**: for unit `a`, `b`, every angle `φ` whose rotation takes `a` to `b` differs from
`θ = atan2(a⊥·b, a·b)` by a whole number of turns, and `|θ| ≤ |φ|`: no rotation taking `a` to `b` turns
through less than the one `between_vectors` returns (and that one does take `a` to `b`) -/
theorem basis2_betweenVectors_shortest (a b : V2 ℝ) (ha : V2.dot a a = 1) (hb : V2.dot b b = 1) :
    (Basis2.betweenVectors a b).rotateVector a = b ∧
    ∀ φ : ℝ, M2.fromAngle φ * a = b →
      (∃ k : ℤ, φ = V2.angle a b + 2 * π * k) ∧ |V2.angle a b| ≤ |φ| := by
  refine ⟨(basis2_betweenVectors a b ha hb).1, ?_⟩
  intro φ hφ
  obtain ⟨hc, hs⟩ := basis2_angle_cos_sin a b ha hb
  obtain ⟨p1, p2⟩ := perpDot_rotate a φ
  have ha2 : a.magnitude2 = 1 := ha
  rw [hφ, ha2, one_mul] at p1 p2
  have hang : ((V2.angle a b : ℝ) : Real.Angle) = (φ : Real.Angle) :=
    Real.Angle.cos_sin_inj (by rw [hc, p2]) (by rw [hs, p1])
  obtain ⟨k, hk⟩ := Real.Angle.angle_eq_iff_two_pi_dvd_sub.1 hang.symm
  obtain ⟨_, l1, l2, l3, _⟩ := basis2_betweenVectors_direction a b
  set θ := V2.angle a b with hθ
  have hφk : φ = θ + 2 * π * k := by linarith
  refine ⟨⟨k, hφk⟩, ?_⟩
  have hpi := Real.pi_pos
  rcases lt_trichotomy k 0 with hk0 | hk0 | hk0
  · have hk1 : (k : ℝ) ≤ -1 := by exact_mod_cast Int.le_sub_one_of_lt hk0
    have : φ ≤ -π := by rw [hφk]; nlinarith
    rw [abs_of_nonpos (by linarith : φ ≤ 0)]
    linarith
  · rw [hφk, hk0]; simp
  · have hk1 : (1 : ℝ) ≤ k := by exact_mod_cast Int.add_one_le_of_lt hk0
    have : π ≤ φ := by rw [hφk]; nlinarith
    rw [abs_of_nonneg (by linarith : 0 ≤ φ)]
    linarith

/-- non-vacuity: `b = -ŷ` is clockwise of `a = x̂` (`a⊥·b = -1 < 0`), the rotation is the quarter
turn clockwise, `θ = -π/2` -/
example : let a : V2 ℝ := ⟨1, 0⟩; let b : V2 ℝ := ⟨0, -1⟩
    V2.dot a a = 1 ∧ V2.dot b b = 1 ∧ V2.perpDot a b < 0 ∧ V2.angle a b < 0 ∧
    V2.angle a b = -(π / 2) := by
  intro a b
  have hp : V2.perpDot a b = -1 := by simp [a, b]
  have hd : V2.dot a b = 0 := by simp [a, b]
  refine ⟨by simp [a], by simp [b], by rw [hp]; norm_num, ?_, ?_⟩
  · exact (basis2_betweenVectors_direction a b).2.2.2.2.1.2 (by rw [hp]; norm_num)
  · show Complex.arg ⟨V2.dot a b, V2.perpDot a b⟩ = _
    rw [hp, hd, Complex.arg_eq_neg_pi_div_two_iff]
    simp
/-- non-vacuity: antiparallel unit vectors give the half turn `θ = π` (positive) -/
example : V2.angle (⟨1, 0⟩ : V2 ℝ) ⟨-1, 0⟩ = π :=
  (basis2_betweenVectors_direction _ _).2.2.2.2.2.2.2.1.2 (by simp)

/-! ## 2. `from_arc` with an arbitrary fallback axis -/

/-- `from_axis_angle(f, half turn) = (0, f)` for EVERY `f` (`sin(π/2) = 1`, `cos(π/2) = 0`): the axis is
neither normalised nor checked -/
theorem fromAxisAngle_half_turn_any (f : V3 ℝ) :
    Quat.fromAxisAngle f (Angle.turnDiv (Lits.radFull : ℝ) 2) = Quat.fromSv 0 f := by
  have hang : Angle.turnDiv (Lits.radFull : ℝ) 2 * half = π / 2 := by
    simp only [Angle.turnDiv, lits_radFull, half_eq]; push_cast; ring
  simp only [Quat.fromAxisAngle, hang, transc_sin, transc_cos, Real.sin_pi_div_two, Real.cos_pi_div_two]
  ext <;> simp

/-- the action of the pure quaternion `(0, f)` through the code's formula `v + 2 f × (f × v)`:
`(1 - 2|f|²) v + 2 (f·v) f` -/
theorem pure_mulVec {K : Type} [CommRing K] (f v : V3 K) :
    Quat.fromSv 0 f * v = v * (1 - 2 * V3.dot f f) + f * (2 * V3.dot f v) ∧
    (Quat.fromSv (0 : K) f).magnitude2 = V3.dot f f := by
  constructor
  · ext <;> simp <;> ring
  · simp

/-- for `v ≠ 0`: `(0, f)` sends `v` to `-v` exactly when `f` is unit and perpendicular to `v` -/
theorem pure_mulVec_eq_neg_iff (f v : V3 ℝ) (hv : 0 < v.magnitude2) :
    Quat.fromSv 0 f * v = -v ↔ V3.dot f f = 1 ∧ V3.dot f v = 0 := by
  constructor
  · intro h
    rw [(pure_mulVec f v).1] at h
    set F := V3.dot f f with hF
    set D := V3.dot f v with hD
    -- dot the vector equation with `f` and with `v`
    have e1 : V3.dot f (v * (1 - 2 * F) + f * (2 * D)) = D * (1 - 2 * F) + 2 * D * F := by
      rw [hF, hD]; simp; ring
    have e2 : V3.dot v (v * (1 - 2 * F) + f * (2 * D)) = v.magnitude2 * (1 - 2 * F) + 2 * D * D := by
      rw [hF, hD]; simp; ring
    have e3 : V3.dot f (-v) = -D := by rw [hD]; simp; ring
    have e4 : V3.dot v (-v) = -v.magnitude2 := by simp; ring
    rw [h] at e1 e2
    rw [e3] at e1
    rw [e4] at e2
    have hD0 : D = 0 := by linarith
    rw [hD0] at e2
    have : v.magnitude2 * (2 - 2 * F) = 0 := by linarith
    rcases mul_eq_zero.1 this with h0 | h0
    · linarith
    · exact ⟨by linarith, hD0⟩
  · rintro ⟨h1, h2⟩
    exact (half_turn v f h1 h2).1

/-- **`from_arc(src, dst, Some(f))` on the antiparallel branch, for an ARBITRARY fallback `f`**:
the result is the pure quaternion `(0, f)` (independent of `dst`); its squared norm is `|f|²`, so it is a
unit quaternion iff `f` is a unit vector; it acts on `src` as `(1 - 2|f|²) src + 2 (f·src) f`; and for
`src ≠ 0` it sends `src` to `-src` (equivalently the direction `ŝ = src/|src|` to `-ŝ`) iff `f` is unit
and perpendicular to `src`.  So a non-unit or non-perpendicular fallback silently yields a quaternion that
is not the promised rotation of `src` onto the direction of `dst`. -/
theorem fromArc_opposite_fallback_any (src dst f : V3 ℝ)
    (hbr : Quat.fromArcBranch src dst = .opposite) :
    let r := Quat.fromArc src dst (some f)
    r = Quat.fromSv 0 f ∧ r.magnitude2 = V3.dot f f ∧ (r.magnitude2 = 1 ↔ V3.dot f f = 1) ∧
    r * src = src * (1 - 2 * V3.dot f f) + f * (2 * V3.dot f src) ∧
    (0 < src.magnitude2 →
      (r * src = -src ↔ V3.dot f f = 1 ∧ V3.dot f src = 0) ∧
      (r * (src * (1 / src.magnitude)) = -(src * (1 / src.magnitude)) ↔
        V3.dot f f = 1 ∧ V3.dot f src = 0)) := by
  intro r
  have hr : r = Quat.fromSv 0 f := by
    show Quat.fromArc src dst (some f) = _
    have := (fromArc_branches src dst (some f)).2.2 hbr f rfl
    rw [this, ← fromAxisAngle_half_turn_any f]
    simp only [Angle.turnDiv]; push_cast; rfl
  obtain ⟨p1, p2⟩ := pure_mulVec f src
  refine ⟨hr, by rw [hr, p2], by rw [hr, p2], by rw [hr, p1], ?_⟩
  intro hs
  refine ⟨by rw [hr]; exact pure_mulVec_eq_neg_iff f src hs, ?_⟩
  have hm0 : 0 < src.magnitude := by
    simp only [V3.magnitude, transc_sqrt]; exact Real.sqrt_pos.mpr hs
  have hdir : 0 < (src * (1 / src.magnitude)).magnitude2 := by
    have e : (src * (1 / src.magnitude)).magnitude2
        = src.magnitude2 * ((1 / src.magnitude) * (1 / src.magnitude)) := by simp; ring
    rw [e]; positivity
  rw [hr, pure_mulVec_eq_neg_iff f _ hdir]
  have e : V3.dot f (src * (1 / src.magnitude)) = V3.dot f src * (1 / src.magnitude) := by simp; ring
  rw [e]
  constructor
  · rintro ⟨h1, h2⟩
    rcases mul_eq_zero.1 h2 with h | h
    · exact ⟨h1, h⟩
    · exact absurd h (by positivity)
  · rintro ⟨h1, h2⟩
    exact ⟨h1, by rw [h2, zero_mul]⟩

/-- the positive case as a corollary (this is `fromArc_opposite_fallback_real`) -/
theorem fromArc_opposite_fallback_ok (src dst f : V3 ℝ) (hs : 0 < src.magnitude2)
    (hbr : Quat.fromArcBranch src dst = .opposite) (hf : V3.dot f f = 1) (hfs : V3.dot f src = 0) :
    (Quat.fromArc src dst (some f)).magnitude2 = 1 ∧ Quat.fromArc src dst (some f) * src = -src := by
  obtain ⟨_, h2, _, _, h5⟩ := fromArc_opposite_fallback_any src dst f hbr
  exact ⟨by rw [h2, hf], ((h5 hs).1).2 ⟨hf, hfs⟩⟩

/-- the inputs of the counterexamples: `src = ŷ`, `dst = -ŷ` take the antiparallel branch -/
theorem arc_y_neg_y_opposite :
    Quat.fromArcBranch (⟨0, 1, 0⟩ : V3 ℝ) ((⟨0, 1, 0⟩ : V3 ℝ) * (-1 : ℝ)) = .opposite := by
  refine fromArc_branch_neg_real _ 1 one_pos ?_
  have hm : (⟨0, 1, 0⟩ : V3 ℝ).magnitude2 = 1 := by simp
  rw [hm]; unfold eps52R; norm_num

/-- **counterexample, unit but NON-PERPENDICULAR fallback** (`f = ŷ = ŝ`): the result `(0, ŷ)` is a unit
quaternion but it FIXES `src` instead of reversing it -/
example : let src : V3 ℝ := ⟨0, 1, 0⟩; let dst : V3 ℝ := src * (-1 : ℝ); let f : V3 ℝ := ⟨0, 1, 0⟩
    dst = ⟨0, -1, 0⟩ ∧ V3.dot f f = 1 ∧ V3.dot f src ≠ 0 ∧
    Quat.fromArc src dst (some f) = Quat.fromSv 0 f ∧
    (Quat.fromArc src dst (some f)).magnitude2 = 1 ∧
    Quat.fromArc src dst (some f) * src = src ∧ Quat.fromArc src dst (some f) * src ≠ dst := by
  intro src dst f
  obtain ⟨h1, h2, _, h4, _⟩ := fromArc_opposite_fallback_any src dst f arc_y_neg_y_opposite
  have hff : V3.dot f f = 1 := by simp [f]
  have hfs : V3.dot f src = 1 := by simp [f, src]
  have hact : Quat.fromArc src dst (some f) * src = src := by
    rw [h4]; ext <;> simp [src, f]
  refine ⟨by ext <;> simp [dst, src], hff, by rw [hfs]; norm_num, h1, by rw [h2, hff], hact, ?_⟩
  rw [hact]
  intro h
  have := congrArg V3.y h
  simp [src, dst] at this
  norm_num at this

/-- **counterexample, perpendicular but NON-UNIT fallback** (`f = 2 x̂`): the result `(0, 2x̂)` has squared
norm `4` (not a unit quaternion), and sends `src = ŷ` to `-7 ŷ`, not to `-ŷ` -/
example : let src : V3 ℝ := ⟨0, 1, 0⟩; let dst : V3 ℝ := src * (-1 : ℝ); let f : V3 ℝ := ⟨2, 0, 0⟩
    V3.dot f src = 0 ∧ V3.dot f f = 4 ∧
    Quat.fromArc src dst (some f) = Quat.fromSv 0 f ∧
    (Quat.fromArc src dst (some f)).magnitude2 = 4 ∧
    Quat.fromArc src dst (some f) * src = ⟨0, -7, 0⟩ ∧ Quat.fromArc src dst (some f) * src ≠ -src := by
  intro src dst f
  obtain ⟨h1, h2, _, h4, _⟩ := fromArc_opposite_fallback_any src dst f arc_y_neg_y_opposite
  have hff : V3.dot f f = 4 := by simp [f]; norm_num
  have hfs : V3.dot f src = 0 := by simp [f, src]
  have hact : Quat.fromArc src dst (some f) * src = ⟨0, -7, 0⟩ := by
    rw [h4]; ext <;> simp [src, f] <;> norm_num
  refine ⟨hfs, hff, h1, by rw [h2, hff], hact, ?_⟩
  rw [hact]
  intro h
  have := congrArg V3.y h
  simp [src] at this

end Cg.C15
