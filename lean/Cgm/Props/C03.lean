import Cgm.Lemmas.Tac
/-!
# C03 — vectors form an inner-product space; cross and perp-dot are exact

All statements are about the model `Cgm/Model/Vec.lean` (which mirrors
`impl_vector!`), over an arbitrary commutative ring `R` (covers the integer
scalar types where no overflow occurs) or field `K` (division).
-/
namespace Cg.C03
open Cg
variable {R : Type} [CommRing R] {K : Type} [Field K]

/-! ## component-wise action of every operator (all dimensions) -/
theorem V1.add_get (u v : V1 R) : (u + v).x = u.x + v.x := rfl
theorem V2.add_get (u v : V2 R) : (u + v).x = u.x + v.x ∧ (u + v).y = u.y + v.y := ⟨rfl, rfl⟩
theorem V3.add_get (u v : V3 R) :
    (u + v).x = u.x + v.x ∧ (u + v).y = u.y + v.y ∧ (u + v).z = u.z + v.z := ⟨rfl, rfl, rfl⟩
theorem V4.add_get (u v : V4 R) :
    (u + v).x = u.x + v.x ∧ (u + v).y = u.y + v.y ∧ (u + v).z = u.z + v.z ∧ (u + v).w = u.w + v.w :=
  ⟨rfl, rfl, rfl, rfl⟩
theorem V1.sub_get (u v : V1 R) : (u - v).x = u.x - v.x := rfl
theorem V2.sub_get (u v : V2 R) : (u - v).x = u.x - v.x ∧ (u - v).y = u.y - v.y := ⟨rfl, rfl⟩
theorem V3.sub_get (u v : V3 R) :
    (u - v).x = u.x - v.x ∧ (u - v).y = u.y - v.y ∧ (u - v).z = u.z - v.z := ⟨rfl, rfl, rfl⟩
theorem V4.sub_get (u v : V4 R) :
    (u - v).x = u.x - v.x ∧ (u - v).y = u.y - v.y ∧ (u - v).z = u.z - v.z ∧ (u - v).w = u.w - v.w :=
  ⟨rfl, rfl, rfl, rfl⟩
theorem V1.neg_get (u : V1 R) : (-u).x = -u.x := rfl
theorem V2.neg_get (u : V2 R) : (-u).x = -u.x ∧ (-u).y = -u.y := ⟨rfl, rfl⟩
theorem V3.neg_get (u : V3 R) : (-u).x = -u.x ∧ (-u).y = -u.y ∧ (-u).z = -u.z := ⟨rfl, rfl, rfl⟩
theorem V4.neg_get (u : V4 R) :
    (-u).x = -u.x ∧ (-u).y = -u.y ∧ (-u).z = -u.z ∧ (-u).w = -u.w := ⟨rfl, rfl, rfl, rfl⟩
theorem V1.mul_get (u : V1 R) (a : R) : (u * a).x = u.x * a := rfl
theorem V2.mul_get (u : V2 R) (a : R) : (u * a).x = u.x * a ∧ (u * a).y = u.y * a := ⟨rfl, rfl⟩
theorem V3.mul_get (u : V3 R) (a : R) :
    (u * a).x = u.x * a ∧ (u * a).y = u.y * a ∧ (u * a).z = u.z * a := ⟨rfl, rfl, rfl⟩
theorem V4.mul_get (u : V4 R) (a : R) :
    (u * a).x = u.x * a ∧ (u * a).y = u.y * a ∧ (u * a).z = u.z * a ∧ (u * a).w = u.w * a :=
  ⟨rfl, rfl, rfl, rfl⟩
theorem V1.div_get (u : V1 K) (a : K) : (u / a).x = u.x / a := rfl
theorem V2.div_get (u : V2 K) (a : K) : (u / a).x = u.x / a ∧ (u / a).y = u.y / a := ⟨rfl, rfl⟩
theorem V3.div_get (u : V3 K) (a : K) :
    (u / a).x = u.x / a ∧ (u / a).y = u.y / a ∧ (u / a).z = u.z / a := ⟨rfl, rfl, rfl⟩
theorem V4.div_get (u : V4 K) (a : K) :
    (u / a).x = u.x / a ∧ (u / a).y = u.y / a ∧ (u / a).z = u.z / a ∧ (u / a).w = u.w / a :=
  ⟨rfl, rfl, rfl, rfl⟩
/-- the element-wise family is `zip` with the scalar operation -/
theorem V4.elementwise (u v : V4 K) (s : K) :
    u + v = V4.zip (· + ·) u v ∧ u - v = V4.zip (· - ·) u v ∧
    V4.mulEw u v = V4.zip (· * ·) u v ∧ V4.divEw u v = V4.zip (· / ·) u v ∧
    V4.addS u s = V4.map (· + s) u ∧ V4.subS u s = V4.map (· - s) u ∧
    u * s = V4.map (· * s) u ∧ u / s = V4.map (· / s) u := by
  refine ⟨rfl, rfl, rfl, rfl, rfl, rfl, rfl, rfl⟩
theorem V3.elementwise (u v : V3 K) (s : K) :
    u + v = V3.zip (· + ·) u v ∧ u - v = V3.zip (· - ·) u v ∧
    V3.mulEw u v = V3.zip (· * ·) u v ∧ V3.divEw u v = V3.zip (· / ·) u v ∧
    V3.addS u s = V3.map (· + s) u ∧ V3.subS u s = V3.map (· - s) u ∧
    u * s = V3.map (· * s) u ∧ u / s = V3.map (· / s) u := by
  refine ⟨rfl, rfl, rfl, rfl, rfl, rfl, rfl, rfl⟩
theorem V2.elementwise (u v : V2 K) (s : K) :
    u + v = V2.zip (· + ·) u v ∧ u - v = V2.zip (· - ·) u v ∧
    V2.mulEw u v = V2.zip (· * ·) u v ∧ V2.divEw u v = V2.zip (· / ·) u v ∧
    V2.addS u s = V2.map (· + s) u ∧ V2.subS u s = V2.map (· - s) u ∧
    u * s = V2.map (· * s) u ∧ u / s = V2.map (· / s) u := by
  refine ⟨rfl, rfl, rfl, rfl, rfl, rfl, rfl, rfl⟩
theorem V1.elementwise (u v : V1 K) (s : K) :
    u + v = V1.zip (· + ·) u v ∧ u - v = V1.zip (· - ·) u v ∧
    V1.mulEw u v = V1.zip (· * ·) u v ∧ V1.divEw u v = V1.zip (· / ·) u v ∧
    V1.addS u s = V1.map (· + s) u ∧ V1.subS u s = V1.map (· - s) u ∧
    u * s = V1.map (· * s) u ∧ u / s = V1.map (· / s) u := by
  refine ⟨rfl, rfl, rfl, rfl, rfl, rfl, rfl, rfl⟩

/-! ## vector-space axioms -/
theorem V1.add_comm (u v : V1 R) : u + v = v + u := by cg_ring
theorem V2.add_comm (u v : V2 R) : u + v = v + u := by cg_ring
theorem V3.add_comm (u v : V3 R) : u + v = v + u := by cg_ring
theorem V4.add_comm (u v : V4 R) : u + v = v + u := by cg_ring
theorem V1.add_assoc (u v w : V1 R) : (u + v) + w = u + (v + w) := by cg_ring
theorem V2.add_assoc (u v w : V2 R) : (u + v) + w = u + (v + w) := by cg_ring
theorem V3.add_assoc (u v w : V3 R) : (u + v) + w = u + (v + w) := by cg_ring
theorem V4.add_assoc (u v w : V4 R) : (u + v) + w = u + (v + w) := by cg_ring
theorem V1.add_zero (u : V1 R) : u + V1.zero = u ∧ V1.zero + u = u := by constructor <;> cg_ring
theorem V2.add_zero (u : V2 R) : u + V2.zero = u ∧ V2.zero + u = u := by constructor <;> cg_ring
theorem V3.add_zero (u : V3 R) : u + V3.zero = u ∧ V3.zero + u = u := by constructor <;> cg_ring
theorem V4.add_zero (u : V4 R) : u + V4.zero = u ∧ V4.zero + u = u := by constructor <;> cg_ring
theorem V1.add_neg (u : V1 R) : u + -u = V1.zero := by cg_ring
theorem V2.add_neg (u : V2 R) : u + -u = V2.zero := by cg_ring
theorem V3.add_neg (u : V3 R) : u + -u = V3.zero := by cg_ring
theorem V4.add_neg (u : V4 R) : u + -u = V4.zero := by cg_ring
theorem V1.sub_eq (u v : V1 R) : u - v = u + -v := by cg_ring
theorem V2.sub_eq (u v : V2 R) : u - v = u + -v := by cg_ring
theorem V3.sub_eq (u v : V3 R) : u - v = u + -v := by cg_ring
theorem V4.sub_eq (u v : V4 R) : u - v = u + -v := by cg_ring
theorem V1.mul_add (u v : V1 R) (a b : R) :
    (u + v) * a = u * a + v * a ∧ u * (a + b) = u * a + u * b ∧ (u * a) * b = u * (a * b) ∧ u * (1 : R) = u := by
  refine ⟨?_, ?_, ?_, ?_⟩ <;> cg_ring
theorem V2.mul_add (u v : V2 R) (a b : R) :
    (u + v) * a = u * a + v * a ∧ u * (a + b) = u * a + u * b ∧ (u * a) * b = u * (a * b) ∧ u * (1 : R) = u := by
  refine ⟨?_, ?_, ?_, ?_⟩ <;> cg_ring
theorem V3.mul_add (u v : V3 R) (a b : R) :
    (u + v) * a = u * a + v * a ∧ u * (a + b) = u * a + u * b ∧ (u * a) * b = u * (a * b) ∧ u * (1 : R) = u := by
  refine ⟨?_, ?_, ?_, ?_⟩ <;> cg_ring
theorem V4.mul_add (u v : V4 R) (a b : R) :
    (u + v) * a = u * a + v * a ∧ u * (a + b) = u * a + u * b ∧ (u * a) * b = u * (a * b) ∧ u * (1 : R) = u := by
  refine ⟨?_, ?_, ?_, ?_⟩ <;> cg_ring
/-- scalar division is multiplication by the inverse -/
theorem V4.div_eq (u : V4 K) (a : K) : u / a = u * a⁻¹ := by cg_ring
theorem V3.div_eq (u : V3 K) (a : K) : u / a = u * a⁻¹ := by cg_ring
theorem V2.div_eq (u : V2 K) (a : K) : u / a = u * a⁻¹ := by cg_ring
theorem V1.div_eq (u : V1 K) (a : K) : u / a = u * a⁻¹ := by cg_ring

/-! ## sum / product fold all components -/
theorem V1.sum_eq (u : V1 R) : u.sum = u.x ∧ u.product = u.x + 0 := ⟨rfl, by simp⟩
theorem V2.sum_eq (u : V2 R) : u.sum = u.x + u.y ∧ u.product = u.x * u.y := ⟨rfl, rfl⟩
theorem V3.sum_eq (u : V3 R) : u.sum = u.x + u.y + u.z ∧ u.product = u.x * u.y * u.z := by
  constructor <;> cg_ring
theorem V4.sum_eq (u : V4 R) :
    u.sum = u.x + u.y + u.z + u.w ∧ u.product = u.x * u.y * u.z * u.w := by
  constructor <;> cg_ring

/-! ## dot: symmetric, bilinear, `magnitude2 v = dot v v` -/
theorem V1.dot_eq (u v : V1 R) : V1.dot u v = u.x * v.x := rfl
theorem V2.dot_eq (u v : V2 R) : V2.dot u v = u.x * v.x + u.y * v.y := rfl
theorem V3.dot_eq (u v : V3 R) : V3.dot u v = u.x * v.x + u.y * v.y + u.z * v.z := by cg_ring
theorem V4.dot_eq (u v : V4 R) :
    V4.dot u v = u.x * v.x + u.y * v.y + u.z * v.z + u.w * v.w := by cg_ring
theorem V1.dot_comm (u v : V1 R) : V1.dot u v = V1.dot v u := by cg_ring
theorem V2.dot_comm (u v : V2 R) : V2.dot u v = V2.dot v u := by cg_ring
theorem V3.dot_comm (u v : V3 R) : V3.dot u v = V3.dot v u := by cg_ring
theorem V4.dot_comm (u v : V4 R) : V4.dot u v = V4.dot v u := by cg_ring
theorem V1.dot_bilinear (u v w : V1 R) (a : R) :
    V1.dot (u + v) w = V1.dot u w + V1.dot v w ∧ V1.dot (u * a) w = a * V1.dot u w ∧
    V1.dot w (u + v) = V1.dot w u + V1.dot w v ∧ V1.dot w (u * a) = a * V1.dot w u := by
  refine ⟨?_, ?_, ?_, ?_⟩ <;> cg_ring
theorem V2.dot_bilinear (u v w : V2 R) (a : R) :
    V2.dot (u + v) w = V2.dot u w + V2.dot v w ∧ V2.dot (u * a) w = a * V2.dot u w ∧
    V2.dot w (u + v) = V2.dot w u + V2.dot w v ∧ V2.dot w (u * a) = a * V2.dot w u := by
  refine ⟨?_, ?_, ?_, ?_⟩ <;> cg_ring
theorem V3.dot_bilinear (u v w : V3 R) (a : R) :
    V3.dot (u + v) w = V3.dot u w + V3.dot v w ∧ V3.dot (u * a) w = a * V3.dot u w ∧
    V3.dot w (u + v) = V3.dot w u + V3.dot w v ∧ V3.dot w (u * a) = a * V3.dot w u := by
  refine ⟨?_, ?_, ?_, ?_⟩ <;> cg_ring
theorem V4.dot_bilinear (u v w : V4 R) (a : R) :
    V4.dot (u + v) w = V4.dot u w + V4.dot v w ∧ V4.dot (u * a) w = a * V4.dot u w ∧
    V4.dot w (u + v) = V4.dot w u + V4.dot w v ∧ V4.dot w (u * a) = a * V4.dot w u := by
  refine ⟨?_, ?_, ?_, ?_⟩ <;> cg_ring
theorem V1.magnitude2_eq (u : V1 R) : u.magnitude2 = V1.dot u u := rfl
theorem V2.magnitude2_eq (u : V2 R) : u.magnitude2 = V2.dot u u := rfl
theorem V3.magnitude2_eq (u : V3 R) : u.magnitude2 = V3.dot u u := rfl
theorem V4.magnitude2_eq (u : V4 R) : u.magnitude2 = V4.dot u u := rfl

/-! ## 3-D cross product, 2-D perp-dot -/
theorem V3.cross_anticomm (u v : V3 R) : V3.cross u v = -V3.cross v u := by cg_ring
theorem V3.dot_cross_self (u v : V3 R) :
    V3.dot u (V3.cross u v) = 0 ∧ V3.dot v (V3.cross u v) = 0 := by
  constructor <;> cg_ring
/-- Lagrange: `|u × v|² = |u|²|v|² − (u·v)²` -/
theorem V3.lagrange (u v : V3 R) :
    (V3.cross u v).magnitude2 = u.magnitude2 * v.magnitude2 - (V3.dot u v) ^ 2 := by cg_ring
/-- BAC–CAB: `u × (v × w) = v (u·w) − w (u·v)` -/
theorem V3.cross_cross (u v w : V3 R) :
    V3.cross u (V3.cross v w) = v * V3.dot u w - w * V3.dot u v := by cg_ring
theorem V2.perpDot_eq (u v : V2 R) : V2.perpDot u v = u.x * v.y - u.y * v.x := rfl

/-- non-vacuity / sanity: a concrete instance over ℤ -/
example : V3.cross (⟨1, 2, 3⟩ : V3 ℤ) ⟨4, 5, 6⟩ = ⟨-3, 6, -3⟩ := by decide

end Cg.C03
