import Cgm.Props.C08
import Cgm.Lemmas.ApproxSpec
import Cgm.Lemmas.RealApprox
/-!
# C08, inversion clause in the property's own vocabulary

`Cg.C08.inverse_none_iff3/2`, `inverse_undoes3/2`, `toM4_inverse`, `toM3_inverse` are stated
with the raw outcome of the model's `ulps_eq!(scale, 0)` test.  Under `ApproxSpec F δ`
(Cgm/Lemmas/ApproxSpec.lean: what the `approx` crate guarantees) with `δ ≤ 1e-6` they become
the clauses of the property text:

* "`inverse_transform()` is `None` for a zero scale factor";
* "whenever the scale factor is not negligibly small (`|scale| > 1e-6`) [it] is the transform
  that undoes it on points and vectors (`inverse_transform_vector` agrees with it)";
* "converting a `Decomposed` transform to a matrix commutes with ... inverting it".

The last section instantiates them over `ℝ` (unit quaternions, `Basis3`, `Basis2`) with the
`Approx ℝ` instance of Cgm/Lemmas/RealApprox.lean, so that no hypothesis about `approx` is left.
-/
set_option linter.unusedSectionVars false
namespace Cg.C08
open Cg
variable {F : Type} [Field F] [LinearOrder F] [IsStrictOrderedRing F] [Approx F]

/-- the literal of the property text -/
theorem lit_1em6 : (1e-6 : F) = 1 / 1000000 := by norm_num

/-- a scale above the bound is neither treated as zero nor zero -/
theorem scale_guards {δ : F} (S : ApproxSpec F δ) (hδ : δ ≤ 1e-6) {s : F} (hs : 1e-6 < |s|) :
    ulpsEqD s 0 = false ∧ s ≠ 0 := by
  refine ⟨S.ulpsEqD_zero_false (lt_of_le_of_lt hδ hs), ?_⟩
  rintro rfl
  rw [abs_zero] at hs
  exact absurd hs (not_lt.mpr (by norm_num))

/-! ## 3-D -/
section three
variable {R : Type} (ρ : RotOps R (V3 F) (M3 F)) (ok : R → Prop)

/-- `inverse_transform()` and `inverse_transform_vector` are `None` for a zero scale factor
(whatever the rotation) -/
theorem inverse_none_of_scale_zero3 {δ : F} (S : ApproxSpec F δ) (t : Decomposed R (V3 F) F)
    (h0 : t.scale = 0) :
    t.inverseTransform ρ = .none ∧ ∀ v, t.inverseTransformVector ρ v = .none := by
  have hz : ulpsEqD t.scale 0 = true := by rw [h0]; exact S.ulpsEqD_zero_zero
  constructor
  · simp [Decomposed.inverseTransform, hz]
  · intro v; simp [Decomposed.inverseTransformVector, hz]
/-- more generally for every scale within the default tolerance of `0` -/
theorem inverse_none_of_scale_small3 {δ : F} (S : ApproxSpec F δ) (t : Decomposed R (V3 F) F)
    (h0 : |t.scale| ≤ Approx.eps) :
    t.inverseTransform ρ = .none ∧ ∀ v, t.inverseTransformVector ρ v = .none := by
  have hz : ulpsEqD t.scale 0 = true := S.ulpsEqD_zero_of_le _ h0
  constructor
  · simp [Decomposed.inverseTransform, hz]
  · intro v; simp [Decomposed.inverseTransformVector, hz]
/-- conversely (lawful rotation): `None` only for a scale below the bound -/
theorem scale_small_of_inverse_none3 (L : RotLaws3 ρ ok) {δ : F} (S : ApproxSpec F δ)
    (t : Decomposed R (V3 F) F) (ht : ok t.rot) (h : t.inverseTransform ρ = .none) :
    |t.scale| ≤ δ :=
  S.ulpsEqD_zero_le _ ((inverse_none_iff3 ρ ok L t ht).mp h)

/-- whenever `|scale| > 1e-6`, the inverse exists and undoes the transform on points and
vectors, and `inverse_transform_vector` agrees with it -/
theorem inverse_undoes_of_scale3 (L : RotLaws3 ρ ok) {δ : F} (S : ApproxSpec F δ) (hδ : δ ≤ 1e-6)
    (t : Decomposed R (V3 F) F) (ht : ok t.rot) (hs : 1e-6 < |t.scale|) :
    ∃ i, t.inverseTransform ρ = .ok i ∧ ok i.rot ∧
      (∀ p, i.transformPointV ρ (t.transformPointV ρ p) = p) ∧
      (∀ v, i.transformVector ρ (t.transformVector ρ v) = v) ∧
      (∀ v, t.inverseTransformVector ρ (t.transformVector ρ v) = .ok v) ∧
      (∀ v, t.inverseTransformVector ρ v = .ok (i.transformVector ρ v)) :=
  let ⟨hz, hne⟩ := scale_guards S hδ hs
  inverse_undoes3 ρ ok L t ht hz hne
/-- ... and converting to a `Matrix4` commutes with inverting -/
theorem toM4_inverse_of_scale (L : RotLaws3 ρ ok) {δ : F} (S : ApproxSpec F δ) (hδ : δ ≤ 1e-6)
    (t : Decomposed R (V3 F) F) (ht : ok t.rot) (hs : 1e-6 < |t.scale|) :
    ∃ i, t.inverseTransform ρ = .ok i ∧ (t.toM4 ρ).invert = some (i.toM4 ρ) :=
  let ⟨hz, hne⟩ := scale_guards S hδ hs
  toM4_inverse ρ ok L t ht hz hne
end three

/-! ## 2-D -/
section two
variable {R : Type} (ρ : RotOps R (V2 F) (M2 F)) (ok : R → Prop)

theorem inverse_none_of_scale_zero2 {δ : F} (S : ApproxSpec F δ) (t : Decomposed R (V2 F) F)
    (h0 : t.scale = 0) :
    t.inverseTransform ρ = .none ∧ ∀ v, t.inverseTransformVector ρ v = .none := by
  have hz : ulpsEqD t.scale 0 = true := by rw [h0]; exact S.ulpsEqD_zero_zero
  constructor
  · simp [Decomposed.inverseTransform, hz]
  · intro v; simp [Decomposed.inverseTransformVector, hz]
theorem inverse_none_of_scale_small2 {δ : F} (S : ApproxSpec F δ) (t : Decomposed R (V2 F) F)
    (h0 : |t.scale| ≤ Approx.eps) :
    t.inverseTransform ρ = .none ∧ ∀ v, t.inverseTransformVector ρ v = .none := by
  have hz : ulpsEqD t.scale 0 = true := S.ulpsEqD_zero_of_le _ h0
  constructor
  · simp [Decomposed.inverseTransform, hz]
  · intro v; simp [Decomposed.inverseTransformVector, hz]
theorem scale_small_of_inverse_none2 (L : RotLaws2 ρ ok) {δ : F} (S : ApproxSpec F δ)
    (t : Decomposed R (V2 F) F) (ht : ok t.rot) (h : t.inverseTransform ρ = .none) :
    |t.scale| ≤ δ :=
  S.ulpsEqD_zero_le _ ((inverse_none_iff2 ρ ok L t ht).mp h)

theorem inverse_undoes_of_scale2 (L : RotLaws2 ρ ok) {δ : F} (S : ApproxSpec F δ) (hδ : δ ≤ 1e-6)
    (t : Decomposed R (V2 F) F) (ht : ok t.rot) (hs : 1e-6 < |t.scale|) :
    ∃ i, t.inverseTransform ρ = .ok i ∧ ok i.rot ∧
      (∀ p, i.transformPointV ρ (t.transformPointV ρ p) = p) ∧
      (∀ v, i.transformVector ρ (t.transformVector ρ v) = v) ∧
      (∀ v, t.inverseTransformVector ρ (t.transformVector ρ v) = .ok v) ∧
      (∀ v, t.inverseTransformVector ρ v = .ok (i.transformVector ρ v)) :=
  let ⟨hz, hne⟩ := scale_guards S hδ hs
  inverse_undoes2 ρ ok L t ht hz hne
theorem toM3_inverse_of_scale (L : RotLaws2 ρ ok) {δ : F} (S : ApproxSpec F δ) (hδ : δ ≤ 1e-6)
    (t : Decomposed R (V2 F) F) (ht : ok t.rot) (hs : 1e-6 < |t.scale|) :
    ∃ i, t.inverseTransform ρ = .ok i ∧ (t.toM3 ρ).invert = some (i.toM3 ρ) :=
  let ⟨hz, hne⟩ := scale_guards S hδ hs
  toM3_inverse ρ ok L t ht hz hne
end two

/-! ## over `ℝ`, with the concrete rotation types and the concrete `Approx ℝ` -/
section concrete
open scoped Cg.RealApprox

/-- `Decomposed<Vector3, Quaternion>`, unit quaternion -/
theorem quat_inverse (t : Decomposed (Quat ℝ) (V3 ℝ) ℝ) (hq : t.rot.magnitude2 = 1) :
    (t.scale = 0 → t.inverseTransform quatOps = .none) ∧
    (1e-6 < |t.scale| → ∃ i, t.inverseTransform quatOps = .ok i ∧ i.rot.magnitude2 = 1 ∧
      (∀ p, i.transformPointV quatOps (t.transformPointV quatOps p) = p) ∧
      (∀ v, i.transformVector quatOps (t.transformVector quatOps v) = v) ∧
      (∀ v, t.inverseTransformVector quatOps (t.transformVector quatOps v) = .ok v) ∧
      (∀ v, t.inverseTransformVector quatOps v = .ok (i.transformVector quatOps v)) ∧
      (t.toM4 quatOps).invert = some (i.toM4 quatOps)) := by
  refine ⟨fun h0 => (inverse_none_of_scale_zero3 quatOps realApproxSpec_1em6 t h0).1, fun hs => ?_⟩
  obtain ⟨i, hi, h1, h2, h3, h4, h5⟩ :=
    inverse_undoes_of_scale3 quatOps _ quatLaws realApproxSpec_1em6 le_rfl t hq hs
  obtain ⟨j, hj, h6⟩ := toM4_inverse_of_scale quatOps _ quatLaws realApproxSpec_1em6 le_rfl t hq hs
  rw [hi] at hj
  cases hj
  exact ⟨i, hi, h1, h2, h3, h4, h5, h6⟩

/-- `Decomposed<Vector3, Basis3>`, invertible basis -/
theorem basis3_inverse (t : Decomposed (Basis3 ℝ) (V3 ℝ) ℝ) (hb : t.rot.mat.det ≠ 0) :
    (t.scale = 0 → t.inverseTransform basis3Ops = .none) ∧
    (1e-6 < |t.scale| → ∃ i, t.inverseTransform basis3Ops = .ok i ∧ i.rot.mat.det ≠ 0 ∧
      (∀ p, i.transformPointV basis3Ops (t.transformPointV basis3Ops p) = p) ∧
      (∀ v, i.transformVector basis3Ops (t.transformVector basis3Ops v) = v) ∧
      (∀ v, t.inverseTransformVector basis3Ops (t.transformVector basis3Ops v) = .ok v) ∧
      (∀ v, t.inverseTransformVector basis3Ops v = .ok (i.transformVector basis3Ops v)) ∧
      (t.toM4 basis3Ops).invert = some (i.toM4 basis3Ops)) := by
  refine ⟨fun h0 => (inverse_none_of_scale_zero3 basis3Ops realApproxSpec_1em6 t h0).1, fun hs => ?_⟩
  obtain ⟨i, hi, h1, h2, h3, h4, h5⟩ :=
    inverse_undoes_of_scale3 basis3Ops _ basis3Laws realApproxSpec_1em6 le_rfl t hb hs
  obtain ⟨j, hj, h6⟩ := toM4_inverse_of_scale basis3Ops _ basis3Laws realApproxSpec_1em6 le_rfl t hb hs
  rw [hi] at hj
  cases hj
  exact ⟨i, hi, h1, h2, h3, h4, h5, h6⟩

/-- `Decomposed<Vector2, Basis2>`, invertible basis -/
theorem basis2_inverse (t : Decomposed (Basis2 ℝ) (V2 ℝ) ℝ) (hb : t.rot.mat.det ≠ 0) :
    (t.scale = 0 → t.inverseTransform basis2Ops = .none) ∧
    (1e-6 < |t.scale| → ∃ i, t.inverseTransform basis2Ops = .ok i ∧ i.rot.mat.det ≠ 0 ∧
      (∀ p, i.transformPointV basis2Ops (t.transformPointV basis2Ops p) = p) ∧
      (∀ v, i.transformVector basis2Ops (t.transformVector basis2Ops v) = v) ∧
      (∀ v, t.inverseTransformVector basis2Ops (t.transformVector basis2Ops v) = .ok v) ∧
      (∀ v, t.inverseTransformVector basis2Ops v = .ok (i.transformVector basis2Ops v)) ∧
      (t.toM3 basis2Ops).invert = some (i.toM3 basis2Ops)) := by
  refine ⟨fun h0 => (inverse_none_of_scale_zero2 basis2Ops realApproxSpec_1em6 t h0).1, fun hs => ?_⟩
  obtain ⟨i, hi, h1, h2, h3, h4, h5⟩ :=
    inverse_undoes_of_scale2 basis2Ops _ basis2Laws realApproxSpec_1em6 le_rfl t hb hs
  obtain ⟨j, hj, h6⟩ := toM3_inverse_of_scale basis2Ops _ basis2Laws realApproxSpec_1em6 le_rfl t hb hs
  rw [hi] at hj
  cases hj
  exact ⟨i, hi, h1, h2, h3, h4, h5, h6⟩

/-- the hypotheses are satisfiable: a unit quaternion with a negative scale above the bound -/
example : ∃ t : Decomposed (Quat ℝ) (V3 ℝ) ℝ, t.rot.magnitude2 = 1 ∧ 1e-6 < |t.scale| :=
  ⟨⟨-2, Quat.one, ⟨1, 2, 3⟩⟩, by simp [Quat.one], by norm_num⟩
end concrete

end Cg.C08
