import Cgm.Lemmas.MatBridge
import Cgm.Model.Book
import Cgm.Props.C01
import Cgm.Props.C02
/-!
# C16 — layout, indexing, conversions and swizzles preserve every component in order
Value-level model (memory layout, aliasing and `transmute` soundness live in the Rust
abstract machine and are exercised, not proved).
-/
set_option linter.unusedSectionVars false
namespace Cg.C16
open Cg
variable {α β γ : Type}

/-! ## arrays / index: field order x, y, z, w  (no tuple statement in this section: the tuple views
`ofTuple` / `toTuple` are in `Props/C16c.lean`) -/
def V4.ofList? : List α → Option (V4 α)
  | [a, b, c, d] => some ⟨a, b, c, d⟩
  | _ => none
def V3.ofList? : List α → Option (V3 α)
  | [a, b, c] => some ⟨a, b, c⟩
  | _ => none
def V2.ofList? : List α → Option (V2 α)
  | [a, b] => some ⟨a, b⟩
  | _ => none
theorem array_roundtrip (v2 : V2 α) (v3 : V3 α) (v4 : V4 α) :
    V2.ofList? v2.toList = some v2 ∧ V3.ofList? v3.toList = some v3 ∧ V4.ofList? v4.toList = some v4 :=
  ⟨rfl, rfl, rfl⟩
theorem toList_order (v4 : V4 α) (v3 : V3 α) (p3 : P3 α) :
    v4.toList = [v4.x, v4.y, v4.z, v4.w] ∧ v3.toList = [v3.x, v3.y, v3.z] ∧ p3.toList = [p3.x, p3.y, p3.z] :=
  ⟨rfl, rfl, rfl⟩
/-- by-index access reads the list view; an index `≥ n` panics (`none`) -/
theorem index_spec (v : V4 α) (i : Nat) :
    v.get? i = v.toList[i]? ∧ (4 ≤ i → v.get? i = none) ∧
    v.get? 0 = some v.x ∧ v.get? 1 = some v.y ∧ v.get? 2 = some v.z ∧ v.get? 3 = some v.w := by
  refine ⟨rfl, ?_, rfl, rfl, rfl, rfl⟩
  intro h; simp [V4.get?, V4.toList]; omega
/-- a write through the index view is visible through the field / list view, and only there -/
theorem set_get (v : V4 α) (i j : Fin 4) (a : α) :
    (v.set? i a).bind (·.get? j) = if i = j then some a else v.get? j := by
  fin_cases i <;> fin_cases j <;> rfl
theorem set_toList (v : V4 α) (i : Fin 4) (a : α) :
    (v.set? i a).map V4.toList = some (v.toList.set i a) := by
  fin_cases i <;> rfl
/-- matrices: nested `[[S; n]; n]`, flat `[S; n*n]` (column-major) and `m[c][r]` agree -/
theorem matrix_views (m : M4 α) (c r : Fin 4) :
    m.toList = m.x.toList ++ m.y.toList ++ m.z.toList ++ m.w.toList ∧
    m.get? c r = m.toList[4 * c.val + r.val]? ∧ m.col? c = m.cols[c.val]? := by
  refine ⟨rfl, ?_, rfl⟩
  fin_cases c <;> fin_cases r <;> rfl
theorem matrix_set_flat (m : M4 α) (c r : Fin 4) (a : α) :
    (m.set? c r a).map M4.toList = some (m.toList.set (4 * c.val + r.val) a) := by
  fin_cases c <;> fin_cases r <;> rfl
/-- quaternion: array order is `x, y, z, s` (the tuple view has the same order; it is not stated here, see `Props/C16c.lean`);
`Quaternion::new` takes the scalar first -/
def Quat.toArray (q : Quat α) : List α := [q.v.x, q.v.y, q.v.z, q.s]
def Quat.ofArray? : List α → Option (Quat α)
  | [x, y, z, s] => some (Quat.new s x y z)
  | _ => none
theorem quat_layout (q : Quat α) (w x y z : α) :
    Quat.ofArray? (Quat.toArray q) = some q ∧ (Quat.new w x y z).s = w ∧
    Quat.toArray (Quat.new w x y z) = [x, y, z, w] := ⟨rfl, rfl, rfl⟩

/-! ## map / zip / from_value / extend / truncate / truncate_n / swap_elements -/
theorem map_zip (f : α → β) (g : α → β → γ) (u : V4 α) (w : V4 β) (a : α) :
    (V4.map f u).toList = u.toList.map f ∧ (V4.zip g u w).toList = List.zipWith g u.toList w.toList ∧
    (V4.fromValue a).toList = List.replicate 4 a := ⟨rfl, rfl, rfl⟩
theorem extend_truncate (v2 : V2 α) (v3 : V3 α) (v4 : V4 α) (a : α) :
    (v2.extend a).toList = v2.toList ++ [a] ∧ (v3.extend a).toList = v3.toList ++ [a] ∧
    v3.truncate.toList = v3.toList.take 2 ∧ v4.truncate.toList = v4.toList.take 3 ∧
    (v3.extend a).truncate = v3 ∧ (v2.extend a).truncate = v2 := ⟨rfl, rfl, rfl, rfl, rfl, rfl⟩
/-- `truncate_n(n)` drops exactly component `n`; other `n` panic -/
theorem truncateN_spec (v : V4 α) (n : Nat) :
    (n < 4 → (v.truncateN? n).map V3.toList = some (v.toList.eraseIdx n)) ∧
    (4 ≤ n → v.truncateN? n = none) := by
  constructor
  · intro h
    match n, h with
    | 0, _ => rfl
    | 1, _ => rfl
    | 2, _ => rfl
    | 3, _ => rfl
  · intro h
    match n, h with
    | n + 4, _ => rfl
theorem swapElements_spec (v : V4 α) (i j : Fin 4) :
    (v.swapElements? i j).map V4.toList = some (Cg.C02.swapList v.toList i j) := by
  fin_cases i <;> fin_cases j <;> rfl

/-! ## swizzles: the generator of build.rs produces every word exactly once, each reading exactly
the named components in order -/
def letters (s : String) : List Char := s.toList
/-- body fields = name, for every accessor of every configuration produced by the model's generator `genSwizzleAll` (which
appends the same letter to the name and to the body at every step, so this holds by construction of that generator; the check of the emitted TEXT against the name
is `swizzle_text_ok` / `*.swizzle_sound_text`, `Props/C16c.lean`) -/
theorem swizzle_sound :
    (genSwizzleAll (letters "x") 3).all (fun p => p.1 == p.2) = true ∧
    (genSwizzleAll (letters "xy") 3).all (fun p => p.1 == p.2) = true ∧
    (genSwizzleAll (letters "xyz") 3).all (fun p => p.1 == p.2) = true ∧
    (genSwizzleAll (letters "x") 4).all (fun p => p.1 == p.2) = true ∧
    (genSwizzleAll (letters "xy") 4).all (fun p => p.1 == p.2) = true ∧
    (genSwizzleAll (letters "xyz") 4).all (fun p => p.1 == p.2) = true ∧
    (genSwizzleAll (letters "xyzw") 4).all (fun p => p.1 == p.2) = true := by
  refine ⟨?_, ?_, ?_, ?_, ?_, ?_, ?_⟩ <;> decide +kernel
/-- generated names = all words of length `1..upto` over the letters, each exactly once -/
def complete (vars : String) (upto : Nat) : Bool :=
  let names := (genSwizzleAll (letters vars) upto).map (·.1)
  let words := wordsUpTo (letters vars) upto
  names.length == words.length && words.all (fun w => names.count w == 1) &&
  names.all (fun n => words.contains n)
theorem swizzle_complete :
    complete "x" 3 = true ∧ complete "xy" 3 = true ∧ complete "xyz" 3 = true ∧ complete "x" 4 = true ∧
    complete "xy" 4 = true ∧ complete "xyz" 4 = true ∧ complete "xyzw" 4 = true := by
  refine ⟨?_, ?_, ?_, ?_, ?_, ?_, ?_⟩ <;> decide +kernel
/-- 3 / 14 / 39 on Point1/2/3, 4 / 30 / 120 / 340 on Vector1/2/3/4: 550 accessors -/
theorem swizzle_counts :
    (genSwizzleAll (letters "x") 3).length = 3 ∧ (genSwizzleAll (letters "xy") 3).length = 14 ∧
    (genSwizzleAll (letters "xyz") 3).length = 39 ∧ (genSwizzleAll (letters "x") 4).length = 4 ∧
    (genSwizzleAll (letters "xy") 4).length = 30 ∧ (genSwizzleAll (letters "xyz") 4).length = 120 ∧
    (genSwizzleAll (letters "xyzw") 4).length = 340 ∧ 3 + 14 + 39 + 4 + 30 + 120 + 340 = 550 := by
  refine ⟨?_, ?_, ?_, ?_, ?_, ?_, ?_, rfl⟩ <;> decide +kernel

end Cg.C16
