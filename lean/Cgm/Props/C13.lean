import Cgm.Lemmas.RealInst
import Mathlib.Algebra.Order.Floor.Ring
import Mathlib.Tactic.Linarith
import Mathlib.Tactic.Positivity
/-!
# C13 — Rad and Deg convert, normalise and evaluate trigonometry consistently

* exact part: over any linearly ordered field `𝕜` whose `%` satisfies `FRemSpec`
  (`a % T = a - k T` for an integer `k`, `|a % T| < T`);
* floating-point part: under an explicit rounding model (hypotheses on `rnd`);
* trigonometry: the wrappers are the `Transc` function of the radian measure
  (by definition of the model; D ties the model to the code).
-/
set_option linter.unusedSectionVars false
namespace Cg.C13
open Cg

section exact
variable {𝕜 : Type} [Field 𝕜] [LinearOrder 𝕜] [IsStrictOrderedRing 𝕜] [FRem 𝕜]

/-- what `%` on the scalar type guarantees (C `fmod`, Rust `%` on floats) -/
def FRemSpec (𝕜 : Type) [Field 𝕜] [LinearOrder 𝕜] [IsStrictOrderedRing 𝕜] [FRem 𝕜] : Prop :=
  ∀ a T : 𝕜, 0 < T → ∃ k : ℤ, FRem.frem a T = a - k * T ∧ |FRem.frem a T| < T

/-- two numbers of a half-open window of length `T` that differ by a whole number of turns
are equal -/
theorem window_unique (T x y lo : 𝕜) (hT : 0 < T) (m : ℤ) (h : x = y + m * T)
    (hx : lo ≤ x ∧ x < lo + T) (hy : lo ≤ y ∧ y < lo + T) : x = y := by
  have h1 : (m : 𝕜) * T < T := by linarith
  have h2 : -T < (m : 𝕜) * T := by linarith
  have hm1 : (m : 𝕜) < 1 := by
    by_contra hc; rw [not_lt] at hc
    have : T ≤ (m : 𝕜) * T := by nlinarith
    linarith
  have hm2 : (-1 : 𝕜) < m := by
    by_contra hc; rw [not_lt] at hc
    have : (m : 𝕜) * T ≤ -T := by nlinarith
    linarith
  have : m = 0 := by
    have a1 : m < 1 := by exact_mod_cast hm1
    have a2 : -1 < m := by exact_mod_cast hm2
    omega
  subst this; simp at h; exact h
theorem window_unique' (T x y lo : 𝕜) (hT : 0 < T) (m : ℤ) (h : x = y + m * T)
    (hx : lo < x ∧ x ≤ lo + T) (hy : lo < y ∧ y ≤ lo + T) : x = y := by
  have := window_unique T (-x) (-y) (-(lo + T)) hT (-m) (by rw [h]; push_cast; ring)
    ⟨by linarith, by linarith⟩ ⟨by linarith, by linarith⟩
  linarith

variable (hF : FRemSpec 𝕜)
include hF

/-- `normalize(a)` lies in `[0, T)` and differs from `a` by a whole number of turns -/
theorem normalize_spec (T a : 𝕜) (hT : 0 < T) :
    0 ≤ Angle.normalize T a ∧ Angle.normalize T a < T ∧ ∃ k : ℤ, Angle.normalize T a = a + k * T := by
  obtain ⟨k, hk, hab⟩ := hF a T hT
  have hlt := (abs_lt.mp hab)
  have e1 : FRem.frem a T < 0 → Angle.normalize T a = FRem.frem a T + T := by
    intro h; simp [Angle.normalize, h]
  have e2 : ¬ FRem.frem a T < 0 → Angle.normalize T a = FRem.frem a T := by
    intro h; simp [Angle.normalize, h]
  by_cases h : FRem.frem a T < 0
  · rw [e1 h]
    refine ⟨by linarith [hlt.1], by linarith, -k + 1, ?_⟩
    rw [hk]; push_cast; ring
  · rw [e2 h]
    rw [not_lt] at h
    refine ⟨h, hlt.2, -k, ?_⟩
    rw [hk]; push_cast; ring
/-- `normalize_signed(a)` lies in `(-T/2, T/2]` and differs from `a` by whole turns -/
theorem normalizeSigned_spec (T a : 𝕜) (hT : 0 < T) :
    -(T / 2) < Angle.normalizeSigned T a ∧ Angle.normalizeSigned T a ≤ T / 2 ∧
    ∃ k : ℤ, Angle.normalizeSigned T a = a + k * T := by
  obtain ⟨h0, h1, k, hk⟩ := normalize_spec hF T a hT
  have e1 : T / 2 < Angle.normalize T a → Angle.normalizeSigned T a = Angle.normalize T a - T := by
    intro h; simp [Angle.normalizeSigned, Angle.turnDiv, h]
  have e2 : ¬ T / 2 < Angle.normalize T a → Angle.normalizeSigned T a = Angle.normalize T a := by
    intro h; simp [Angle.normalizeSigned, Angle.turnDiv, h]
  by_cases h : T / 2 < Angle.normalize T a
  · rw [e1 h]
    refine ⟨by linarith, by linarith, k - 1, ?_⟩
    rw [hk]; push_cast; ring
  · rw [e2 h]
    rw [not_lt] at h
    exact ⟨by linarith, h, k, hk⟩
/-- `normalize_signed` returns *the* representative in `(-T/2, T/2]` -/
theorem normalizeSigned_unique (T a y : 𝕜) (hT : 0 < T) (m : ℤ) (h : a = y + m * T)
    (hy : -(T / 2) < y ∧ y ≤ T / 2) : Angle.normalizeSigned T a = y := by
  obtain ⟨h0, h1, k, hk⟩ := normalizeSigned_spec hF T a hT
  apply window_unique' T _ _ (-(T / 2)) hT (k + m)
  · rw [hk, h]; push_cast; ring
  · exact ⟨h0, by linarith⟩
  · exact ⟨hy.1, by linarith [hy.2]⟩
theorem normalize_unique (T a y : 𝕜) (hT : 0 < T) (m : ℤ) (h : a = y + m * T)
    (hy : 0 ≤ y ∧ y < T) : Angle.normalize T a = y := by
  obtain ⟨h0, h1, k, hk⟩ := normalize_spec hF T a hT
  apply window_unique T _ _ 0 hT (k + m)
  · rw [hk, h]; push_cast; ring
  · exact ⟨h0, by linarith⟩
  · exact ⟨hy.1, by linarith [hy.2]⟩
/-- `opposite(a) = normalize(a + half turn)` -/
theorem opposite_eq (T a : 𝕜) : Angle.opposite T a = Angle.normalize T (a + T / 2) := by
  simp [Angle.opposite, Angle.turnDiv]

/-- `bisect(a, b)` is midway between `a` and `b`: the signed distances `a → r` and `r → b`
are equal, and at most a quarter turn -/
theorem bisect_midway (T a b : 𝕜) (hT : 0 < T) :
    let r := Angle.bisect T a b
    Angle.normalizeSigned T (r - a) = Angle.normalizeSigned T (b - r) ∧
    |Angle.normalizeSigned T (r - a)| ≤ T / 4 ∧ 0 ≤ r ∧ r < T := by
  intro r
  obtain ⟨d0, d1, kd, hd⟩ := normalizeSigned_spec hF T (b - a) hT
  set d := Angle.normalizeSigned T (b - a) with hdd
  obtain ⟨r0, r1, kr, hr⟩ := normalize_spec hF T (a + d * half) hT
  have hr' : r = a + d * (1 / 2) + kr * T := by
    show Angle.bisect T a b = _
    unfold Angle.bisect
    rw [← hdd, hr]; simp
  have hq : -(T / 2) < d * (1 / 2) ∧ d * (1 / 2) ≤ T / 2 := by constructor <;> linarith
  have e1 : Angle.normalizeSigned T (r - a) = d * (1 / 2) :=
    normalizeSigned_unique hF T _ _ hT kr (by rw [hr']; ring) hq
  have e2 : Angle.normalizeSigned T (b - r) = d * (1 / 2) :=
    normalizeSigned_unique hF T _ _ hT (-kd - kr) (by rw [hr']; push_cast; linear_combination -hd) hq
  refine ⟨by rw [e1, e2], ?_, ?_, ?_⟩
  · rw [e1, abs_le]; constructor <;> linarith
  · show 0 ≤ Angle.bisect T a b
    unfold Angle.bisect; rw [← hdd]; exact r0
  · show Angle.bisect T a b < T
    unfold Angle.bisect; rw [← hdd]; exact r1
end exact

section turns
variable {𝕜 : Type} [Field 𝕜] [CharZero 𝕜]
/-- `turn_div_k() * k = full_turn()` -/
theorem turnDiv_mul (T : 𝕜) :
    Angle.turnDiv T 2 * 2 = T ∧ Angle.turnDiv T 3 * 3 = T ∧ Angle.turnDiv T 4 * 4 = T ∧
    Angle.turnDiv T 6 * 6 = T := by
  simp only [Angle.turnDiv, Nat.cast_ofNat]
  refine ⟨?_, ?_, ?_, ?_⟩ <;> field_simp
/-- `Deg::full_turn() = 360` -/
theorem degFull_eq : (degFull : 𝕜) = 360 := by simp [degFull]
end turns

/-! ## conversions -/
section conv
/-- with exact conversion constants (`deg2rad * rad2deg = 1`, `radFull = 2π`,
`rad2deg = 180/π`) the round trips are exact and one full turn is `2π rad = 360°` -/
theorem roundtrip_exact [Lits ℝ] (h : (Lits.deg2rad : ℝ) * Lits.rad2deg = 1) (a : ℝ) :
    degToRad (radToDeg a) = a ∧ radToDeg (degToRad a) = a := by
  unfold degToRad radToDeg
  constructor
  · calc a * Lits.rad2deg * Lits.deg2rad = a * (Lits.deg2rad * Lits.rad2deg) := by ring
      _ = a := by rw [h, mul_one]
  · calc a * Lits.deg2rad * Lits.rad2deg = a * (Lits.deg2rad * Lits.rad2deg) := by ring
      _ = a := by rw [h, mul_one]
theorem full_turn_exact [Lits ℝ] (h1 : (Lits.radFull : ℝ) = 2 * Real.pi)
    (h2 : (Lits.rad2deg : ℝ) = 180 / Real.pi) : radToDeg (Lits.radFull : ℝ) = (degFull : ℝ) := by
  unfold radToDeg degFull
  rw [h1, h2]; have := Real.pi_ne_zero; field_simp; norm_num

/-- floating-point round trip: every multiplication and both constants carry a relative
rounding error of at most the unit roundoff `u` (`= ε/2` for round-to-nearest); the result
then differs from `a` by at most `8u = 4ε` relatively (no overflow/underflow) -/
theorem roundtrip_rel_err (a k1 k2 δ1 δ2 δ3 δ4 u : ℝ) (hk : k1 * k2 = 1) (hu : 0 ≤ u) (hu' : u ≤ 1 / 4)
    (h1 : |δ1| ≤ u) (h2 : |δ2| ≤ u) (h3 : |δ3| ≤ u) (h4 : |δ4| ≤ u) :
    |(a * (k1 * (1 + δ3))) * (1 + δ1) * (k2 * (1 + δ4)) * (1 + δ2) - a| ≤ 8 * u * |a| := by
  have e : (a * (k1 * (1 + δ3))) * (1 + δ1) * (k2 * (1 + δ4)) * (1 + δ2) - a
      = a * ((1 + δ1) * (1 + δ2) * (1 + δ3) * (1 + δ4) - 1) := by
    have : (a * (k1 * (1 + δ3))) * (1 + δ1) * (k2 * (1 + δ4)) * (1 + δ2)
        = a * (k1 * k2) * ((1 + δ1) * (1 + δ2) * (1 + δ3) * (1 + δ4)) := by ring
    rw [this, hk]; ring
  rw [e, abs_mul, mul_comm (8 * u)]
  apply mul_le_mul_of_nonneg_left _ (abs_nonneg a)
  obtain ⟨a1, b1⟩ := abs_le.mp h1; obtain ⟨a2, b2⟩ := abs_le.mp h2
  obtain ⟨a3, b3⟩ := abs_le.mp h3; obtain ⟨a4, b4⟩ := abs_le.mp h4
  -- P = (1+δ1)(1+δ2)(1+δ3)(1+δ4) ∈ [(1-u)^4, (1+u)^4]
  have p12lo : (1 - u) * (1 - u) ≤ (1 + δ1) * (1 + δ2) :=
    mul_le_mul (by linarith) (by linarith) (by linarith) (by linarith)
  have p12hi : (1 + δ1) * (1 + δ2) ≤ (1 + u) * (1 + u) :=
    mul_le_mul (by linarith) (by linarith) (by linarith) (by linarith)
  have p34lo : (1 - u) * (1 - u) ≤ (1 + δ3) * (1 + δ4) :=
    mul_le_mul (by linarith) (by linarith) (by linarith) (by linarith)
  have p34hi : (1 + δ3) * (1 + δ4) ≤ (1 + u) * (1 + u) :=
    mul_le_mul (by linarith) (by linarith) (by linarith) (by linarith)
  have q0 : 0 ≤ (1 - u) * (1 - u) := by nlinarith
  have plo : (1 - u) * (1 - u) * ((1 - u) * (1 - u)) ≤ (1 + δ1) * (1 + δ2) * ((1 + δ3) * (1 + δ4)) :=
    mul_le_mul p12lo p34lo q0 (by nlinarith)
  have phi : (1 + δ1) * (1 + δ2) * ((1 + δ3) * (1 + δ4)) ≤ (1 + u) * (1 + u) * ((1 + u) * (1 + u)) :=
    mul_le_mul p12hi p34hi (by nlinarith) (by nlinarith)
  rw [abs_le]
  constructor
  · nlinarith [mul_nonneg hu hu, mul_nonneg (mul_nonneg hu hu) hu]
  · nlinarith [mul_nonneg hu hu, mul_nonneg (mul_nonneg hu hu) hu,
      mul_nonneg (mul_nonneg (mul_nonneg hu hu) hu) hu]
end conv

/-! ## floating-point range of `normalize` -/
/-- Modelling assumption stated as a comment only (it is neither a hypothesis nor proved): `%` is exact in IEEE arithmetic, so
the remainder enters as a real `rem` with `-T < rem < T` and the only rounded operation is `rem + T`.  What is proved: with a
monotone `rnd : ℝ → ℝ` that fixes `0` and `T`, `if rem < 0 then rnd (rem + T) else rem` lies in the closed range `[0, T]`. -/
theorem normalize_range_fl (rnd : ℝ → ℝ) (hm : Monotone rnd) (T rem : ℝ) (h0 : rnd 0 = 0)
    (hT' : rnd T = T) (hrem : -T < rem ∧ rem < T) :
    let r := if rem < 0 then rnd (rem + T) else rem
    0 ≤ r ∧ r ≤ T := by
  intro r
  show 0 ≤ (if rem < 0 then rnd (rem + T) else rem) ∧ (if rem < 0 then rnd (rem + T) else rem) ≤ T
  split_ifs with h
  · constructor
    · rw [← h0]; exact hm (by linarith)
    · rw [← hT']; exact hm (by linarith)
  · rw [not_lt] at h; exact ⟨h, by linarith⟩

/-! ## trigonometry: wrappers are the real functions of the radian measure -/
section trig
variable [Lits ℝ]
theorem rad_trig (a : ℝ) :
    Rad.sin a = Real.sin a ∧ Rad.cos a = Real.cos a ∧ Rad.tan a = Real.tan a ∧
    Rad.csc a = 1 / Real.sin a ∧ Rad.sec a = 1 / Real.cos a ∧ Rad.cot a = 1 / Real.tan a :=
  ⟨rfl, rfl, rfl, rfl, rfl, rfl⟩
theorem deg_trig (a : ℝ) :
    Deg.sin a = Real.sin (degToRad a) ∧ Deg.cos a = Real.cos (degToRad a) ∧
    Deg.tan a = Real.tan (degToRad a) ∧ Deg.csc a = 1 / Real.sin (degToRad a) ∧
    Deg.sec a = 1 / Real.cos (degToRad a) ∧ Deg.cot a = 1 / Real.tan (degToRad a) :=
  ⟨rfl, rfl, rfl, rfl, rfl, rfl⟩
/-- inverse functions return the principal value, converted to the caller's unit -/
theorem inverse_trig (x y : ℝ) :
    Rad.asin x = Real.arcsin x ∧ Rad.acos x = Real.arccos x ∧ Rad.atan x = Real.arctan x ∧
    Rad.atan2 y x = Complex.arg ⟨x, y⟩ ∧
    Deg.asin x = radToDeg (Real.arcsin x) ∧ Deg.acos x = radToDeg (Real.arccos x) ∧
    Deg.atan x = radToDeg (Real.arctan x) ∧ Deg.atan2 y x = radToDeg (Complex.arg ⟨x, y⟩) :=
  ⟨rfl, rfl, rfl, rfl, rfl, rfl, rfl, rfl⟩
end trig

-- the repaired `bisect` on the inputs that exposed the defect (10° & 50° ↦ 30°, 350° & 10° ↦ 0°): theorems
-- `bisect_10_50`, `bisect_350_10` in Props/C13b.lean, and about the traced code in E2E/C13b.lean.

end Cg.C13
