import Cgm.Props.C05b
import Cgm.Props.C06b
import Cgm.Model.Rot2
/-!
# C05 (third part) — `Quaternion::from(Basis3)`, the full 4x4 statement

* `Quat.ofBasis3` (`Cgm/Model/Rot2.lean`) is `From<Basis3<S>> for Quaternion<S>`
  (src/rotation.rs:338-343, `b.mat.into()`).
  - `ofBasis3_fromQuaternion`       : `Quaternion::from(Basis3::from_quaternion(q)) = q ∨ = -q` (unit `q`)
  - `ofBasis3_fromQuaternion_sign`  : which of the two, by the sign of the pivot component
  - `ofBasis3_fromQuaternion_cases` : case by case (the four internal cases)
  - `fromQuaternion_ofBasis3`       : `Basis3::from_quaternion(Quaternion::from(b)) = b` for every
    rotation `b` (orthonormal, determinant `+1`), and the quaternion is a unit quaternion
  - `basis3_fromQuaternion_rotation`: the `Basis3` of a unit quaternion is a rotation
* `toM4_orthonormal_full` : the FULL 4x4 statement for `Matrix4::from(q)`, unit `q`:
  `Mᵀ M = M Mᵀ = Matrix4::one` and `M.determinant() = 1` (the `Matrix4` determinant).
-/
set_option linter.unusedSectionVars false
namespace Cg.C05
open Cg

/-! ## `Matrix4::from(Quaternion)` is orthonormal with determinant `+1` (the 4x4 matrix itself) -/

/-- **full 4x4 statement**: for a unit quaternion, `Matrix4::from(q)` times its transpose is the
4x4 identity (both orders) and its (4x4) determinant is `+1` -/
theorem toM4_orthonormal_full {K : Type} [CommRing K] (q : Quat K) (hq : q.magnitude2 = 1) :
    q.toM4.transpose * q.toM4 = M4.one ∧ q.toM4 * q.toM4.transpose = M4.one ∧ q.toM4.det = 1 := by
  obtain ⟨h1, h2, h3⟩ := toM3_orthonormal q hq
  rw [toM4_eq_embed]
  refine ⟨?_, ?_, ?_⟩
  · rw [Cg.C06.toM4_transpose, ← Cg.C06.toM4_mul, h1, Cg.C06.toM4_one]
  · rw [Cg.C06.toM4_transpose, ← Cg.C06.toM4_mul, h2, Cg.C06.toM4_one]
  · rw [Cg.C06.toM4_det, h3]

/-- consequently `Matrix4::from(q)` is invertible, its inverse is its transpose, which is the
matrix of the conjugate quaternion -/
theorem toM4_invert {F : Type} [Field F] [DecidableEq F] (q : Quat F) (hq : q.magnitude2 = 1) :
    q.toM4.invert = some q.toM4.transpose ∧ q.toM4.transpose = q.conjugate.toM4 := by
  refine ⟨Cg.C02.M4.invert_unique _ _ (toM4_orthonormal_full q hq).2.1, ?_⟩
  ext <;> simp <;> ring

/-- the `Basis3` of a unit quaternion is a rotation: orthonormal with determinant `+1` -/
theorem basis3_fromQuaternion_rotation {K : Type} [CommRing K] (q : Quat K) (hq : q.magnitude2 = 1) :
    (Basis3.fromQuaternion q).mat.transpose * (Basis3.fromQuaternion q).mat = M3.one ∧
    (Basis3.fromQuaternion q).mat * (Basis3.fromQuaternion q).mat.transpose = M3.one ∧
    (Basis3.fromQuaternion q).mat.det = 1 :=
  toM3_orthonormal q hq

/-! ## `Quaternion::from(Basis3)` -/

/-- `Quaternion::from(Basis3)` is `Quaternion::from(Matrix3)` of the wrapped matrix -/
theorem ofBasis3_eq (b : Basis3 ℝ) : Quat.ofBasis3 b = b.mat.toQuat ∧ Quat.ofBasis3 b = b.toM3.toQuat :=
  ⟨rfl, rfl⟩

/-- **round trip through `Basis3`**: for every unit quaternion,
`Quaternion::from(Basis3::from_quaternion(&q))` is `q` or `-q` -/
theorem ofBasis3_fromQuaternion (q : Quat ℝ) (hq : q.magnitude2 = 1) :
    Quat.ofBasis3 (Basis3.fromQuaternion q) = q ∨ Quat.ofBasis3 (Basis3.fromQuaternion q) = -q :=
  toQuat_toM3 q hq

/-- … with the sign: `q` when the pivot component (its `w` in the non-negative-trace case, else its
`x`, `y` or `z` according to the case taken) is positive, `-q` when negative; never zero -/
theorem ofBasis3_fromQuaternion_sign (q : Quat ℝ) (hq : q.magnitude2 = 1) :
    (M3.toQuatBranch (Basis3.fromQuaternion q).mat).pivot q ≠ 0 ∧
    Quat.ofBasis3 (Basis3.fromQuaternion q) =
      if 0 < (M3.toQuatBranch (Basis3.fromQuaternion q).mat).pivot q then q else -q :=
  toQuat_toM3_sign q hq

/-- … case by case (the four internal cases of the matrix → quaternion conversion) -/
theorem ofBasis3_fromQuaternion_cases (q : Quat ℝ) (hq : q.magnitude2 = 1) :
    (M3.toQuatBranch (Basis3.fromQuaternion q).mat = .trace →
      q.s ≠ 0 ∧ Quat.ofBasis3 (Basis3.fromQuaternion q) = if 0 ≤ q.s then q else -q) ∧
    (M3.toQuatBranch (Basis3.fromQuaternion q).mat = .xx →
      q.v.x ≠ 0 ∧ Quat.ofBasis3 (Basis3.fromQuaternion q) = if 0 ≤ q.v.x then q else -q) ∧
    (M3.toQuatBranch (Basis3.fromQuaternion q).mat = .yy →
      q.v.y ≠ 0 ∧ Quat.ofBasis3 (Basis3.fromQuaternion q) = if 0 ≤ q.v.y then q else -q) ∧
    (M3.toQuatBranch (Basis3.fromQuaternion q).mat = .zz →
      q.v.z ≠ 0 ∧ Quat.ofBasis3 (Basis3.fromQuaternion q) = if 0 ≤ q.v.z then q else -q) :=
  toQuat_toM3_cases q hq

/-- the quaternion returned describes the same rotation as `q`: same `Basis3`, same action -/
theorem ofBasis3_fromQuaternion_same_rotation (q : Quat ℝ) (hq : q.magnitude2 = 1) (v : V3 ℝ) :
    Basis3.fromQuaternion (Quat.ofBasis3 (Basis3.fromQuaternion q)) = Basis3.fromQuaternion q ∧
    (Quat.ofBasis3 (Basis3.fromQuaternion q)).rotateVector v = q.rotateVector v := by
  have h : (Quat.ofBasis3 (Basis3.fromQuaternion q)).toM3 = q.toM3 := toM3_toQuat_toM3 q hq
  refine ⟨congrArg Basis3.mk h, ?_⟩
  show Quat.ofBasis3 (Basis3.fromQuaternion q) * v = q * v
  rw [← toM3_mulVec, h, toM3_mulVec]

/-- **reverse round trip**: for every `Basis3` rotation `b` (matrix orthonormal with determinant
`+1`), `Quaternion::from(b)` is a unit quaternion and `Basis3::from_quaternion` of it is `b` -/
theorem fromQuaternion_ofBasis3 (b : Basis3 ℝ) (hR : b.mat.transpose * b.mat = M3.one)
    (hdet : b.mat.det = 1) :
    (Quat.ofBasis3 b).magnitude2 = 1 ∧ Basis3.fromQuaternion (Quat.ofBasis3 b) = b ∧
    ∀ v, (Quat.ofBasis3 b).rotateVector v = b.rotateVector v := by
  obtain ⟨h1, h2⟩ := toM3_toQuat b.mat hR hdet
  refine ⟨h1, ?_, ?_⟩
  · show Basis3.mk b.mat.toQuat.toM3 = b
    rw [h2]
  · intro v
    show b.mat.toQuat * v = b.mat * v
    rw [← toM3_mulVec, h2]

/-- `Quaternion::from(Basis3)` respects composition up to sign (unit `p`, `q`) -/
theorem ofBasis3_mul (p q : Quat ℝ) (hp : p.magnitude2 = 1) (hq : q.magnitude2 = 1) :
    Quat.ofBasis3 ((Basis3.fromQuaternion p).mul (Basis3.fromQuaternion q)) = p * q ∨
    Quat.ofBasis3 ((Basis3.fromQuaternion p).mul (Basis3.fromQuaternion q)) = -(p * q) := by
  rw [← basis3_mul p q hp hq]
  exact ofBasis3_fromQuaternion (p * q) (by rw [Cg.C04.magnitude2_mul, hp, hq, mul_one])

/-! ## non-vacuity -/

/-- a unit quaternion off the axes whose conversion takes the "third diagonal element largest"
case through its second entrance (`m00 > m11`, the traced `zz2` path): `(w;x,y,z) = (1;4,0,8)/9` -/
example : (Quat.new (1/9) (4/9) 0 (8/9) : Quat ℝ).magnitude2 = 1 ∧
    M3.toQuatBranch (Basis3.fromQuaternion (Quat.new (1/9) (4/9) 0 (8/9) : Quat ℝ)).mat = .zz := by
  norm_num [Quat.new, Quat.fromSv, Quat.magnitude2, Quat.dot, Quat.toM3, M3.new, M3.toQuatBranch,
    M3.trace, M3.diagonal, V3.sum, Basis3.fromQuaternion]
/-- a `Basis3` satisfying the hypotheses of `fromQuaternion_ofBasis3`: a quarter turn about `z` -/
example : (Basis3.mk (M3.new 0 1 0 (-1) 0 0 0 0 1 : M3 ℝ)).mat.transpose *
      (Basis3.mk (M3.new 0 1 0 (-1) 0 0 0 0 1 : M3 ℝ)).mat = M3.one ∧
    (Basis3.mk (M3.new 0 1 0 (-1) 0 0 0 0 1 : M3 ℝ)).mat.det = 1 := by
  refine ⟨?_, ?_⟩
  · ext <;> simp [M3.one, M3.fromValue, M3.new, M3.transpose]
  · simp [M3.new]

end Cg.C05
