import Cgm.Props.C08c
import Cgm.Props.C08b
/-!
# C08 (continued) — matrix transforms: displacement column, inverses without `Affine`, singular `Decomposed` matrices

* (a) `transform_vector` of a GENERAL `Matrix4` does not depend on its displacement column `w`
  (`M4.transformVector_ignores_w`), of a `Matrix3` used in 2-D on its column `z`
  (`M3.transformVector2_ignores_z`); for an affine matrix, the points move by the vector action
  (`M4.transformPoint_sub`, `M3.transformPoint2_sub`: `m(p) - m(q) = m_vec(p - q)`, whatever the displacement).
* (b) `det a ≠ 0` ⇒ `inverse_transform()` undoes the transform on POINTS without the `Affine` hypothesis,
  whenever the homogeneous weight of `a * p` is non-zero (`M4.inverseTransform_undoes_point`,
  `M4.inverseTransform_exists_undoes_point`).  The `Affine` hypothesis of
  `M4.inverseTransform_undoes` IS needed for vectors (`matrix4_inverse_vector_needs_affine`), and in 2-D
  (no perspective division in `Matrix3::transform_point`) `Affine2` is needed for points, vectors
  and composition (`matrix3_inverse2_needs_affine`, `matrix3_concat2_needs_affine`).
* (c) the `None` side of "converting to a matrix commutes with inverting": the determinant of the matrix of a
  `Decomposed` is `scale^3 det(R)` (`scale^2 det(R)` in 2-D); for `scale = 0` the matrix is singular and
  `Matrix4::invert` / `inverse_transform` return `None`, like `Decomposed::inverse_transform`.
-/
set_option linter.unusedSectionVars false
namespace Cg.C08
open Cg

section field
variable {F : Type} [Field F] [DecidableEq F]

/-! ## (a) `transform_vector` ignores the displacement -/
/-- **Matrix4**: replacing the displacement column `w` by anything does not change `transform_vector` -/
theorem M4.transformVector_ignores_w (m : M4 F) (w' : V4 F) (v : V3 F) :
    ({ m with w := w' } : M4 F).transformVector v = m.transformVector v := by
  ext <;> simp
/-- in particular two matrices with the same first three columns act equally on vectors -/
theorem M4.transformVector_congr (m m' : M4 F) (hx : m.x = m'.x) (hy : m.y = m'.y) (hz : m.z = m'.z)
    (v : V3 F) : m.transformVector v = m'.transformVector v := by
  ext <;> simp [hx, hy, hz]
/-- **Matrix3 as a 2-D transform**: the displacement column is `z` -/
theorem M3.transformVector2_ignores_z (m : M3 F) (z' : V3 F) (v : V2 F) :
    ({ m with z := z' } : M3 F).transformVector2 v = m.transformVector2 v := by
  ext <;> simp
theorem M3.transformVector2_congr (m m' : M3 F) (hx : m.x = m'.x) (hy : m.y = m'.y)
    (v : V2 F) : m.transformVector2 v = m'.transformVector2 v := by
  ext <;> simp [hx, hy]
/-- the displacement column does matter for points (so the two statements above are not vacuous records of a
definition that ignores everything): the image of the origin under an affine matrix IS the displacement -/
theorem M4.transformPoint_origin (m : M4 F) (hm : M4.Affine m) :
    m.transformPoint ⟨0, 0, 0⟩ = P3.fromVec m.w.truncate ∧ m.transformVector ⟨0, 0, 0⟩ = ⟨0, 0, 0⟩ := by
  obtain ⟨h1, h2, h3, h4⟩ := hm
  constructor <;> (ext <;> simp [h1, h2, h3, h4])
/-- for an affine `Matrix4`, points move by the vector action: `m(p) - m(q) = m_vec(p - q)` (the displacement cancels),
over any field -/
theorem M4.transformPoint_sub (m : M4 F) (hm : M4.Affine m) (p q : P3 F) :
    (m.transformPoint p - m.transformPoint q : V3 F) = m.transformVector (p - q) := by
  obtain ⟨h1, h2, h3, h4⟩ := hm
  ext <;> simp [h1, h2, h3, h4] <;> ring
theorem M4.transformPoint_add' (m : M4 F) (hm : M4.Affine m) (p : P3 F) (v : V3 F) :
    m.transformPoint (p + v) = m.transformPoint p + m.transformVector v := by
  obtain ⟨h1, h2, h3, h4⟩ := hm
  ext <;> simp [h1, h2, h3, h4] <;> ring
/-- `Matrix3` in 2-D: no hypothesis is needed, `transform_point` has no perspective division (matrix.rs:1109) -/
theorem M3.transformPoint2_sub (m : M3 F) (p q : P2 F) :
    (m.transformPoint2 p - m.transformPoint2 q : V2 F) = m.transformVector2 (p - q) := by
  ext <;> simp <;> ring
theorem M3.transformPoint2_add (m : M3 F) (p : P2 F) (v : V2 F) :
    m.transformPoint2 (p + v) = m.transformPoint2 p + m.transformVector2 v := by
  ext <;> simp <;> ring

/-! ## (b) the inverse undoes points without `Affine` -/
theorem M4.one_transformPoint (p : P3 F) : (M4.one : M4 F).transformPoint p = p := by
  ext <;> simp
/-- **Matrix4, points, no `Affine` hypothesis**: the matrix returned by `inverse_transform()` undoes the transform
on every point whose image has a non-zero homogeneous weight (the perspective division is then a genuine division) -/
theorem M4.inverseTransform_undoes_point (a i : M4 F) (hi : a.inverseTransform = some i) (p : P3 F)
    (hw : (a * p.toHomogeneous).w ≠ 0) :
    i.transformPoint (a.transformPoint p) = p := by
  obtain ⟨_, h2⟩ := Cg.C02.M4.invert_spec a i hi
  rw [← matrix4_transformPoint_projective i a p hw, h2, M4.one_transformPoint]
/-- the other order: `a(i(p)) = p` when the weight of `i * p` is non-zero -/
theorem M4.inverseTransform_undoes_point' (a i : M4 F) (hi : a.inverseTransform = some i) (p : P3 F)
    (hw : (i * p.toHomogeneous).w ≠ 0) :
    a.transformPoint (i.transformPoint p) = p := by
  obtain ⟨h1, _⟩ := Cg.C02.M4.invert_spec a i hi
  rw [← matrix4_transformPoint_projective a i p hw, h1, M4.one_transformPoint]
/-- **`det a ≠ 0` ⇒ `Some(i)` undoing the transform on points**, for every `Matrix4` -/
theorem M4.inverseTransform_exists_undoes_point (a : M4 F) (hd : a.det ≠ 0) :
    ∃ i, a.inverseTransform = some i ∧
      (∀ p : P3 F, (a * p.toHomogeneous).w ≠ 0 → i.transformPoint (a.transformPoint p) = p) ∧
      (∀ p : P3 F, (i * p.toHomogeneous).w ≠ 0 → a.transformPoint (i.transformPoint p) = p) := by
  obtain ⟨i, hi⟩ := Cg.C02.M4.invert_some_of_det_ne a hd
  exact ⟨i, hi, fun p hw => M4.inverseTransform_undoes_point a i hi p hw,
    fun p hw => M4.inverseTransform_undoes_point' a i hi p hw⟩
/-- the affine case (`M4.inverseTransform_undoes`, point part) is the special case weight `= 1` -/
theorem M4.inverseTransform_undoes_point_affine (a i : M4 F) (hi : a.inverseTransform = some i)
    (ha : M4.Affine a) (p : P3 F) : i.transformPoint (a.transformPoint p) = p :=
  M4.inverseTransform_undoes_point a i hi p (by rw [M4.affine_weight a ha p]; exact one_ne_zero)

end field

/-! ### counterexamples -/
/-- the non-affine matrix with columns `x = (1,0,0,1)`, `w = (1,0,0,2)` and its inverse -/
def naM4 : M4 ℚ := M4.new 1 0 0 1 0 1 0 0 0 0 1 0 1 0 0 2
def naM4inv : M4 ℚ := M4.new 2 0 0 (-1) 0 1 0 0 0 0 1 0 (-1) 0 0 1
theorem naM4_inverse : naM4.det ≠ 0 ∧ naM4.inverseTransform = some naM4inv := by
  have h : naM4.inverseTransform = some naM4inv := by
    apply Cg.C02.M4.invert_unique
    ext <;> simp [naM4, naM4inv] <;> norm_num
  refine ⟨fun h0 => ?_, h⟩
  have h' : naM4.invert = some naM4inv := h
  rw [(Cg.C02.M4.invert_none_iff naM4).mpr h0] at h'
  cases h'
/-- **`Affine` is needed for the VECTOR inverse law**: an invertible `Matrix4` (`det ≠ 0`) whose `inverse_transform()`
does not undo `transform_vector` (`a_vec (1,0,0) = (1,0,0)`, `i_vec (1,0,0) = (2,0,0)`), although it does undo
`transform_point` at every point with non-zero weight (`M4.inverseTransform_undoes_point`) -/
theorem matrix4_inverse_vector_needs_affine :
    ∃ (a i : M4 ℚ) (v : V3 ℚ), a.det ≠ 0 ∧ a.inverseTransform = some i ∧
      i.transformVector (a.transformVector v) ≠ v ∧
      a.inverseTransformVector (a.transformVector v) ≠ some v := by
  refine ⟨naM4, naM4inv, ⟨1, 0, 0⟩, naM4_inverse.1, naM4_inverse.2, ?_, ?_⟩
  · intro h
    have := congrArg V3.x h
    simp [naM4, naM4inv] at this
  · rw [M4.inverseTransformVector, naM4_inverse.2]
    intro h
    have := congrArg V3.x (Option.some.inj h)
    simp [naM4, naM4inv] at this

/-- the hypothesis of `M4.inverseTransform_undoes_point` is satisfiable by a NON-affine matrix: `naM4` at `(1,0,0)` has
weight `3`, and the round trip is the identity there -/
example : ¬ M4.Affine naM4 ∧ (naM4 * (⟨1, 0, 0⟩ : P3 ℚ).toHomogeneous).w ≠ 0 ∧
    naM4inv.transformPoint (naM4.transformPoint ⟨1, 0, 0⟩) = ⟨1, 0, 0⟩ := by
  refine ⟨fun h => ?_, ?_, ?_⟩
  · have := h.1; simp [naM4] at this
  · simp [naM4]; norm_num
  · exact M4.inverseTransform_undoes_point naM4 naM4inv naM4_inverse.2 _ (by simp [naM4]; norm_num)

/-- the 2-D analogue: columns `x = (1,0,1)`, `z = (1,0,2)` -/
def naM3 : M3 ℚ := M3.new 1 0 1 0 1 0 1 0 2
def naM3inv : M3 ℚ := M3.new 2 0 (-1) 0 1 0 (-1) 0 1
theorem naM3_inverse : naM3.det ≠ 0 ∧ naM3.inverseTransform = some naM3inv := by
  have h : naM3.inverseTransform = some naM3inv := by
    apply Cg.C02.M3.invert_unique
    ext <;> simp [naM3, naM3inv] <;> norm_num
  refine ⟨fun h0 => ?_, h⟩
  have h' : naM3.invert = some naM3inv := h
  rw [(Cg.C02.M3.invert_none_iff naM3).mpr h0] at h'
  cases h'
/-- **`Affine2` is needed in 2-D, for points AND vectors**: `Matrix3::transform_point` (2-D) truncates without dividing,
so the inverse of a non-affine invertible `Matrix3` undoes neither -/
theorem matrix3_inverse2_needs_affine :
    ∃ (a i : M3 ℚ) (p : P2 ℚ) (v : V2 ℚ), a.det ≠ 0 ∧ a.inverseTransform = some i ∧
      i.transformPoint2 (a.transformPoint2 p) ≠ p ∧
      i.transformVector2 (a.transformVector2 v) ≠ v := by
  refine ⟨naM3, naM3inv, ⟨1, 0⟩, ⟨1, 0⟩, naM3_inverse.1, naM3_inverse.2, ?_, ?_⟩
  · intro h
    have := congrArg P2.x h
    simp [naM3, naM3inv] at this
    norm_num at this
  · intro h
    have := congrArg V2.x h
    simp [naM3, naM3inv] at this
/-- ... and for the composition law of `matrix3_transform2` (necessity of its hypothesis `Affine2 b`) -/
theorem matrix3_concat2_needs_affine :
    ∃ (a b : M3 ℚ) (p : P2 ℚ) (v : V2 ℚ),
      (a * b).transformPoint2 p ≠ a.transformPoint2 (b.transformPoint2 p) ∧
      (a * b).transformVector2 v ≠ a.transformVector2 (b.transformVector2 v) := by
  refine ⟨naM3inv, naM3, ⟨1, 0⟩, ⟨1, 0⟩, ?_, ?_⟩
  · intro h
    have := congrArg P2.x h
    simp [naM3, naM3inv] at this
  · intro h
    have := congrArg V2.x h
    simp [naM3, naM3inv] at this

/-! ## (c) the matrix of a `Decomposed` with scale 0 is singular -/
section det
variable {F : Type} [Field F] [DecidableEq F]

/-- the determinant of `Matrix4::from(Decomposed)` is `scale^3 det(R)` (whatever the displacement) -/
theorem toM4_det {R : Type} (ρ : RotOps R (V3 F) (M3 F)) (t : Decomposed R (V3 F) F) :
    (t.toM4 ρ).det = t.scale ^ 3 * (ρ.toMat t.rot).det := by
  simp [Decomposed.toM4, M4.det, M4.detSubProc, M4.flat, M3.det, M3.toM4, M4.new, V4.dot]
  ring
/-- the determinant of `Matrix3::from(Decomposed)` (2-D) is `scale^2 det(R)` -/
theorem toM3_det {R : Type} (ρ : RotOps R (V2 F) (M2 F)) (t : Decomposed R (V2 F) F) :
    (t.toM3 ρ).det = t.scale ^ 2 * (ρ.toMat t.rot).det := by
  simp [Decomposed.toM3, M3.det, M2.det, M2.toM3, M3.new]
  ring
/-- **scale = 0 ⇒ the matrix is singular**: `Matrix4::invert`, `inverse_transform` and `inverse_transform_vector` of the
converted transform are `None` (no assumption on the rotation) -/
theorem toM4_singular_of_scale_zero {R : Type} (ρ : RotOps R (V3 F) (M3 F)) (t : Decomposed R (V3 F) F)
    (h0 : t.scale = 0) :
    (t.toM4 ρ).det = 0 ∧ (t.toM4 ρ).invert = none ∧ (t.toM4 ρ).inverseTransform = none ∧
      ∀ v, (t.toM4 ρ).inverseTransformVector v = none := by
  have hd : (t.toM4 ρ).det = 0 := by rw [toM4_det, h0]; simp
  have hi := (Cg.C02.M4.invert_none_iff _).mpr hd
  exact ⟨hd, hi, hi, fun v => by simp [M4.inverseTransformVector, M4.inverseTransform, hi]⟩
theorem toM3_singular_of_scale_zero {R : Type} (ρ : RotOps R (V2 F) (M2 F)) (t : Decomposed R (V2 F) F)
    (h0 : t.scale = 0) :
    (t.toM3 ρ).det = 0 ∧ (t.toM3 ρ).invert = none ∧ (t.toM3 ρ).inverseTransform = none ∧
      ∀ v, (t.toM3 ρ).inverseTransformVector2 v = none := by
  have hd : (t.toM3 ρ).det = 0 := by rw [toM3_det, h0]; simp
  have hi := (Cg.C02.M3.invert_none_iff _).mpr hd
  exact ⟨hd, hi, hi, fun v => by simp [M3.inverseTransformVector2, M3.inverseTransform, hi]⟩
/-- conversely the matrix is invertible for every non-zero scale and non-singular rotation matrix -- including the
scales `0 < |scale| ≤ eps` that `Decomposed::inverse_transform` treats as zero: there the two sides of "converting commutes
with inverting" differ (`None` vs `Some`), which is why the property's `Some` clause starts at `|scale| > 1e-6` -/
theorem toM4_invert_some_of_scale_ne {R : Type} (ρ : RotOps R (V3 F) (M3 F)) (t : Decomposed R (V3 F) F)
    (hs : t.scale ≠ 0) (hr : (ρ.toMat t.rot).det ≠ 0) : ∃ i, (t.toM4 ρ).invert = some i := by
  apply Cg.C02.M4.invert_some_of_det_ne
  rw [toM4_det]
  exact mul_ne_zero (pow_ne_zero 3 hs) hr
end det

/-! ### the `None` side of "to-matrix commutes with inverting", both sides together -/
section none
variable {F : Type} [Field F] [LinearOrder F] [IsStrictOrderedRing F] [Approx F] [DecidableEq F]

/-- **3-D**: for a zero scale factor `Decomposed::inverse_transform()` is `None` AND `Matrix4::from(t).invert()` /
`.inverse_transform()` is `None` -/
theorem toM4_inverse_none_of_scale_zero {R : Type} (ρ : RotOps R (V3 F) (M3 F)) {δ : F} (S : ApproxSpec F δ)
    (t : Decomposed R (V3 F) F) (h0 : t.scale = 0) :
    t.inverseTransform ρ = .none ∧ (t.toM4 ρ).det = 0 ∧ (t.toM4 ρ).invert = none ∧
      (t.toM4 ρ).inverseTransform = none :=
  ⟨(inverse_none_of_scale_zero3 ρ S t h0).1, (toM4_singular_of_scale_zero ρ t h0).1,
    (toM4_singular_of_scale_zero ρ t h0).2.1, (toM4_singular_of_scale_zero ρ t h0).2.2.1⟩
/-- **2-D** -/
theorem toM3_inverse_none_of_scale_zero {R : Type} (ρ : RotOps R (V2 F) (M2 F)) {δ : F} (S : ApproxSpec F δ)
    (t : Decomposed R (V2 F) F) (h0 : t.scale = 0) :
    t.inverseTransform ρ = .none ∧ (t.toM3 ρ).det = 0 ∧ (t.toM3 ρ).invert = none ∧
      (t.toM3 ρ).inverseTransform = none :=
  ⟨(inverse_none_of_scale_zero2 ρ S t h0).1, (toM3_singular_of_scale_zero ρ t h0).1,
    (toM3_singular_of_scale_zero ρ t h0).2.1, (toM3_singular_of_scale_zero ρ t h0).2.2.1⟩
end none

end Cg.C08
