import Cgm.Lemmas.Atan2
/-!
# C11 — magnitude, distance, normalisation, angle and projection are consistent
Over `ℝ` with `sqrt`, `acos`, `atan2` the real functions (`Cgm/Lemmas/RealInst.lean`).
-/
set_option linter.unusedSectionVars false
namespace Cg.C11
open Cg Real

attribute [simp] V1.magnitude V2.magnitude V3.magnitude V4.magnitude Quat.magnitude
  V1.distance V2.distance V3.distance V4.distance Quat.distance P1.distance P2.distance P3.distance
  V1.normalize V2.normalize V3.normalize V4.normalize Quat.normalize
  V1.normalizeTo V2.normalizeTo V3.normalizeTo V4.normalizeTo Quat.normalizeTo
  V1.angle V2.angle V3.angle V4.angle Quat.angle Quat.projectOn

/-! ## squared lengths are sums of squares -/
theorem V1.magnitude2_nonneg (v : V1 ℝ) : 0 ≤ v.magnitude2 := by
  simp; exact mul_self_nonneg _
theorem V2.magnitude2_nonneg (v : V2 ℝ) : 0 ≤ v.magnitude2 := by
  simp; nlinarith [mul_self_nonneg v.x, mul_self_nonneg v.y]
theorem V3.magnitude2_nonneg (v : V3 ℝ) : 0 ≤ v.magnitude2 := by
  simp; nlinarith [mul_self_nonneg v.x, mul_self_nonneg v.y, mul_self_nonneg v.z]
theorem V4.magnitude2_nonneg (v : V4 ℝ) : 0 ≤ v.magnitude2 := by
  simp; nlinarith [mul_self_nonneg v.x, mul_self_nonneg v.y, mul_self_nonneg v.z, mul_self_nonneg v.w]
theorem Quat.magnitude2_nonneg (q : Quat ℝ) : 0 ≤ q.magnitude2 := by
  simp; nlinarith [mul_self_nonneg q.s, mul_self_nonneg q.v.x, mul_self_nonneg q.v.y, mul_self_nonneg q.v.z]

/-! ## magnitude² = magnitude2 ≥ 0 -/
theorem V1.magnitude_sq (v : V1 ℝ) : v.magnitude ^ 2 = v.magnitude2 ∧ 0 ≤ v.magnitude2 := by
  have h : 0 ≤ v.magnitude2 := V1.magnitude2_nonneg v
  exact ⟨by simp only [V1.magnitude, transc_sqrt]; exact Real.sq_sqrt h, h⟩
theorem V2.magnitude_sq (v : V2 ℝ) : v.magnitude ^ 2 = v.magnitude2 ∧ 0 ≤ v.magnitude2 := by
  have h : 0 ≤ v.magnitude2 := V2.magnitude2_nonneg v
  exact ⟨by simp only [V2.magnitude, transc_sqrt]; exact Real.sq_sqrt h, h⟩
theorem V3.magnitude_sq (v : V3 ℝ) : v.magnitude ^ 2 = v.magnitude2 ∧ 0 ≤ v.magnitude2 := by
  have h : 0 ≤ v.magnitude2 := V3.magnitude2_nonneg v
  exact ⟨by simp only [V3.magnitude, transc_sqrt]; exact Real.sq_sqrt h, h⟩
theorem V4.magnitude_sq (v : V4 ℝ) : v.magnitude ^ 2 = v.magnitude2 ∧ 0 ≤ v.magnitude2 := by
  have h : 0 ≤ v.magnitude2 := V4.magnitude2_nonneg v
  exact ⟨by simp only [V4.magnitude, transc_sqrt]; exact Real.sq_sqrt h, h⟩
theorem Quat.magnitude_sq (q : Quat ℝ) : q.magnitude ^ 2 = q.magnitude2 ∧ 0 ≤ q.magnitude2 := by
  have h : 0 ≤ q.magnitude2 := Quat.magnitude2_nonneg q
  exact ⟨by simp only [Quat.magnitude, transc_sqrt]; exact Real.sq_sqrt h, h⟩

/-! ## distance -/
theorem V2.distance_spec (u v : V2 ℝ) :
    V2.distance u v = V2.distance v u ∧ V2.distance u v = (u - v).magnitude ∧
    V2.distance u v ^ 2 = V2.distance2 u v := by
  have e : V2.distance2 u v = V2.distance2 v u := by simp; ring
  have e2 : V2.distance2 u v = (u - v).magnitude2 := by simp; ring
  have h0 : 0 ≤ V2.distance2 u v := V2.magnitude2_nonneg (v - u)
  refine ⟨?_, ?_, ?_⟩
  · simp only [V2.distance, e]
  · simp only [V2.distance, V2.magnitude, e2]
  · simp only [V2.distance, transc_sqrt]; exact Real.sq_sqrt h0
theorem V3.distance_spec (u v : V3 ℝ) :
    V3.distance u v = V3.distance v u ∧ V3.distance u v = (u - v).magnitude ∧
    V3.distance u v ^ 2 = V3.distance2 u v := by
  have e : V3.distance2 u v = V3.distance2 v u := by simp; ring
  have e2 : V3.distance2 u v = (u - v).magnitude2 := by simp; ring
  have h0 : 0 ≤ V3.distance2 u v := V3.magnitude2_nonneg (v - u)
  refine ⟨?_, ?_, ?_⟩
  · simp only [V3.distance, e]
  · simp only [V3.distance, V3.magnitude, e2]
  · simp only [V3.distance, transc_sqrt]; exact Real.sq_sqrt h0
theorem V4.distance_spec (u v : V4 ℝ) :
    V4.distance u v = V4.distance v u ∧ V4.distance u v = (u - v).magnitude ∧
    V4.distance u v ^ 2 = V4.distance2 u v := by
  have e : V4.distance2 u v = V4.distance2 v u := by simp; ring
  have e2 : V4.distance2 u v = (u - v).magnitude2 := by simp; ring
  have h0 : 0 ≤ V4.distance2 u v := V4.magnitude2_nonneg (v - u)
  refine ⟨?_, ?_, ?_⟩
  · simp only [V4.distance, e]
  · simp only [V4.distance, V4.magnitude, e2]
  · simp only [V4.distance, transc_sqrt]; exact Real.sq_sqrt h0
theorem P3.distance_spec (p q : P3 ℝ) :
    P3.distance p q = P3.distance q p ∧ P3.distance p q = (p - q : V3 ℝ).magnitude ∧
    P3.distance p q ^ 2 = P3.distance2 p q := by
  have e : P3.distance2 p q = P3.distance2 q p := by simp; ring
  have e2 : P3.distance2 p q = (p - q : V3 ℝ).magnitude2 := by simp; ring
  have h0 : 0 ≤ P3.distance2 p q := V3.magnitude2_nonneg (q - p : V3 ℝ)
  refine ⟨?_, ?_, ?_⟩
  · simp only [P3.distance, e]
  · simp only [P3.distance, V3.magnitude, e2]
  · simp only [P3.distance, transc_sqrt]; exact Real.sq_sqrt h0
theorem P2.distance_spec (p q : P2 ℝ) :
    P2.distance p q = P2.distance q p ∧ P2.distance p q = (p - q : V2 ℝ).magnitude ∧
    P2.distance p q ^ 2 = P2.distance2 p q := by
  have e : P2.distance2 p q = P2.distance2 q p := by simp; ring
  have e2 : P2.distance2 p q = (p - q : V2 ℝ).magnitude2 := by simp; ring
  have h0 : 0 ≤ P2.distance2 p q := V2.magnitude2_nonneg (q - p : V2 ℝ)
  refine ⟨?_, ?_, ?_⟩
  · simp only [P2.distance, e]
  · simp only [P2.distance, V2.magnitude, e2]
  · simp only [P2.distance, transc_sqrt]; exact Real.sq_sqrt h0
theorem Quat.distance_spec (p q : Quat ℝ) :
    Quat.distance p q = Quat.distance q p ∧ Quat.distance p q = (p - q).magnitude ∧
    Quat.distance p q ^ 2 = Quat.distance2 p q := by
  have e : Quat.distance2 p q = Quat.distance2 q p := by simp; ring
  have e2 : Quat.distance2 p q = (p - q).magnitude2 := by simp; ring
  have h0 : 0 ≤ Quat.distance2 p q := Quat.magnitude2_nonneg (q - p)
  refine ⟨?_, ?_, ?_⟩
  · simp only [Quat.distance, e]
  · simp only [Quat.distance, Quat.magnitude, e2]
  · simp only [Quat.distance, transc_sqrt]; exact Real.sq_sqrt h0

/-! ## normalisation: length `|m|`, a positive multiple of `v` for `m > 0` -/
theorem V2.normalizeTo_spec (v : V2 ℝ) (m : ℝ) (hv : 0 < v.magnitude2) :
    (v.normalizeTo m).magnitude = |m| ∧ v.normalize.magnitude = 1 ∧
    (0 < m → ∃ k : ℝ, 0 < k ∧ v.normalizeTo m = v * k) := by
  have key : ∀ m : ℝ, (v.normalizeTo m).magnitude = |m| := by
    intro m
    have e : (v.normalizeTo m).magnitude2 = (m / Real.sqrt v.magnitude2) ^ 2 * v.magnitude2 := by
      simp; ring
    simp only [V2.magnitude, transc_sqrt, e]; exact sqrt_scale _ m hv
  refine ⟨key m, by simpa using key 1, fun hm => ⟨m / Real.sqrt v.magnitude2, by positivity, by simp⟩⟩
theorem V3.normalizeTo_spec (v : V3 ℝ) (m : ℝ) (hv : 0 < v.magnitude2) :
    (v.normalizeTo m).magnitude = |m| ∧ v.normalize.magnitude = 1 ∧
    (0 < m → ∃ k : ℝ, 0 < k ∧ v.normalizeTo m = v * k) := by
  have key : ∀ m : ℝ, (v.normalizeTo m).magnitude = |m| := by
    intro m
    have e : (v.normalizeTo m).magnitude2 = (m / Real.sqrt v.magnitude2) ^ 2 * v.magnitude2 := by
      simp; ring
    simp only [V3.magnitude, transc_sqrt, e]; exact sqrt_scale _ m hv
  refine ⟨key m, by simpa using key 1, fun hm => ⟨m / Real.sqrt v.magnitude2, by positivity, by simp⟩⟩
theorem V4.normalizeTo_spec (v : V4 ℝ) (m : ℝ) (hv : 0 < v.magnitude2) :
    (v.normalizeTo m).magnitude = |m| ∧ v.normalize.magnitude = 1 ∧
    (0 < m → ∃ k : ℝ, 0 < k ∧ v.normalizeTo m = v * k) := by
  have key : ∀ m : ℝ, (v.normalizeTo m).magnitude = |m| := by
    intro m
    have e : (v.normalizeTo m).magnitude2 = (m / Real.sqrt v.magnitude2) ^ 2 * v.magnitude2 := by
      simp; ring
    simp only [V4.magnitude, transc_sqrt, e]; exact sqrt_scale _ m hv
  refine ⟨key m, by simpa using key 1, fun hm => ⟨m / Real.sqrt v.magnitude2, by positivity, by simp⟩⟩
theorem V1.normalizeTo_spec (v : V1 ℝ) (m : ℝ) (hv : 0 < v.magnitude2) :
    (v.normalizeTo m).magnitude = |m| ∧ v.normalize.magnitude = 1 ∧
    (0 < m → ∃ k : ℝ, 0 < k ∧ v.normalizeTo m = v * k) := by
  have key : ∀ m : ℝ, (v.normalizeTo m).magnitude = |m| := by
    intro m
    have e : (v.normalizeTo m).magnitude2 = (m / Real.sqrt v.magnitude2) ^ 2 * v.magnitude2 := by
      simp; ring
    simp only [V1.magnitude, transc_sqrt, e]; exact sqrt_scale _ m hv
  refine ⟨key m, by simpa using key 1, fun hm => ⟨m / Real.sqrt v.magnitude2, by positivity, by simp⟩⟩
theorem Quat.normalizeTo_spec (v : Quat ℝ) (m : ℝ) (hv : 0 < v.magnitude2) :
    (v.normalizeTo m).magnitude = |m| ∧ v.normalize.magnitude = 1 ∧
    (0 < m → ∃ k : ℝ, 0 < k ∧ v.normalizeTo m = v * k) := by
  have key : ∀ m : ℝ, (v.normalizeTo m).magnitude = |m| := by
    intro m
    have e : (v.normalizeTo m).magnitude2 = (m / Real.sqrt v.magnitude2) ^ 2 * v.magnitude2 := by
      simp; ring
    simp only [Quat.magnitude, transc_sqrt, e]; exact sqrt_scale _ m hv
  refine ⟨key m, by simpa using key 1, fun hm => ⟨m / Real.sqrt v.magnitude2, by positivity, by simp⟩⟩
/-- a non-zero vector has positive squared length -/
theorem V3.magnitude2_pos (v : V3 ℝ) (h : v ≠ V3.zero) : 0 < v.magnitude2 := by
  have h0 : 0 ≤ v.magnitude2 := (V3.magnitude_sq v).2
  rcases h0.lt_or_eq with hlt | heq
  · exact hlt
  · exfalso; apply h
    have e : v.x * v.x + (v.y * v.y + v.z * v.z) = 0 := by simpa using heq.symm
    have hx : v.x = 0 := by nlinarith [mul_self_nonneg v.x, mul_self_nonneg v.y, mul_self_nonneg v.z]
    have hy : v.y = 0 := by nlinarith [mul_self_nonneg v.x, mul_self_nonneg v.y, mul_self_nonneg v.z]
    have hz : v.z = 0 := by nlinarith [mul_self_nonneg v.x, mul_self_nonneg v.y, mul_self_nonneg v.z]
    ext <;> simp [hx, hy, hz]

/-! ## angle -/
/-- Cauchy–Schwarz, dimension 4 and quaternions -/
theorem V4.cauchy_schwarz (u v : V4 ℝ) : (V4.dot u v) ^ 2 ≤ u.magnitude2 * v.magnitude2 := by
  simp
  nlinarith [sq_nonneg (u.x * v.y - u.y * v.x), sq_nonneg (u.x * v.z - u.z * v.x),
    sq_nonneg (u.x * v.w - u.w * v.x), sq_nonneg (u.y * v.z - u.z * v.y),
    sq_nonneg (u.y * v.w - u.w * v.y), sq_nonneg (u.z * v.w - u.w * v.z)]
theorem Quat.cauchy_schwarz (u v : Quat ℝ) : (Quat.dot u v) ^ 2 ≤ u.magnitude2 * v.magnitude2 := by
  simp
  nlinarith [sq_nonneg (u.s * v.v.x - u.v.x * v.s), sq_nonneg (u.s * v.v.y - u.v.y * v.s),
    sq_nonneg (u.s * v.v.z - u.v.z * v.s), sq_nonneg (u.v.x * v.v.y - u.v.y * v.v.x),
    sq_nonneg (u.v.x * v.v.z - u.v.z * v.v.x), sq_nonneg (u.v.y * v.v.z - u.v.z * v.v.y)]
/-- over the reals the clamp before `acos` never acts: `|u·v| ≤ |u||v|` -/
theorem clampUnit_eq (d a b : ℝ) (ha : 0 < a) (hb : 0 < b) (h : d ^ 2 ≤ a * b) :
    clampUnit (d / (Real.sqrt a * Real.sqrt b)) = d / (Real.sqrt a * Real.sqrt b) := by
  obtain ⟨h1, h2⟩ := abs_div_le_one d a b ha hb h
  unfold clampUnit
  rw [if_neg (not_lt.mpr h2), if_neg (not_lt.mpr h1)]
/-- default (arccos) angle: `|u||v| cos(angle) = u·v`, in `[0, π]`, symmetric -/
theorem V4.angle_spec (u v : V4 ℝ) (hu : 0 < u.magnitude2) (hv : 0 < v.magnitude2) :
    u.magnitude * v.magnitude * Real.cos (V4.angle u v) = V4.dot u v ∧
    0 ≤ V4.angle u v ∧ V4.angle u v ≤ π ∧ V4.angle u v = V4.angle v u := by
  obtain ⟨h1, h2, h3⟩ := acos_angle (V4.dot u v) _ _ hu hv (V4.cauchy_schwarz u v)
  have hcl := clampUnit_eq (V4.dot u v) _ _ hu hv (V4.cauchy_schwarz u v)
  have ha : V4.angle u v = Real.arccos (V4.dot u v / (Real.sqrt u.magnitude2 * Real.sqrt v.magnitude2)) := by
    simp only [V4.angle, V4.magnitude, transc_sqrt, transc_acos, hcl]
  rw [ha]
  refine ⟨by simpa using h1, by simpa using h2, by simpa using h3, ?_⟩
  have e : V4.dot u v = V4.dot v u := by simp; ring
  rw [← ha]
  simp only [V4.angle, e, mul_comm]
theorem Quat.angle_spec (u v : Quat ℝ) (hu : 0 < u.magnitude2) (hv : 0 < v.magnitude2) :
    u.magnitude * v.magnitude * Real.cos (Quat.angle u v) = Quat.dot u v ∧
    0 ≤ Quat.angle u v ∧ Quat.angle u v ≤ π ∧ Quat.angle u v = Quat.angle v u := by
  obtain ⟨h1, h2, h3⟩ := acos_angle (Quat.dot u v) _ _ hu hv (Quat.cauchy_schwarz u v)
  have hcl := clampUnit_eq (Quat.dot u v) _ _ hu hv (Quat.cauchy_schwarz u v)
  have ha : Quat.angle u v = Real.arccos (Quat.dot u v / (Real.sqrt u.magnitude2 * Real.sqrt v.magnitude2)) := by
    simp only [Quat.angle, Quat.magnitude, transc_sqrt, transc_acos, hcl]
  rw [ha]
  refine ⟨by simpa using h1, by simpa using h2, by simpa using h3, ?_⟩
  have e : Quat.dot u v = Quat.dot v u := by simp; ring
  rw [← ha]
  simp only [Quat.angle, e, mul_comm]
theorem V1.angle_spec (u v : V1 ℝ) (hu : 0 < u.magnitude2) (hv : 0 < v.magnitude2) :
    u.magnitude * v.magnitude * Real.cos (V1.angle u v) = V1.dot u v ∧
    0 ≤ V1.angle u v ∧ V1.angle u v ≤ π ∧ V1.angle u v = V1.angle v u := by
  have cs : (V1.dot u v) ^ 2 ≤ u.magnitude2 * v.magnitude2 := by simp; nlinarith
  obtain ⟨h1, h2, h3⟩ := acos_angle (V1.dot u v) _ _ hu hv cs
  have hcl := clampUnit_eq (V1.dot u v) _ _ hu hv cs
  have ha : V1.angle u v = Real.arccos (V1.dot u v / (Real.sqrt u.magnitude2 * Real.sqrt v.magnitude2)) := by
    simp only [V1.angle, V1.magnitude, transc_sqrt, transc_acos, hcl]
  rw [ha]
  refine ⟨by simpa using h1, by simpa using h2, by simpa using h3, ?_⟩
  have e : V1.dot u v = V1.dot v u := by simp; ring
  rw [← ha]
  simp only [V1.angle, e, mul_comm]

/-- 3-D: `atan2(|u × v|, u·v)`; same defining property, range `[0, π]`, symmetric -/
theorem V3.angle_spec (u v : V3 ℝ) (hu : 0 < u.magnitude2) (hv : 0 < v.magnitude2) :
    u.magnitude * v.magnitude * Real.cos (V3.angle u v) = V3.dot u v ∧
    0 ≤ V3.angle u v ∧ V3.angle u v ≤ π ∧ V3.angle u v = V3.angle v u := by
  set c := (V3.cross u v).magnitude with hc
  have hc0 : 0 ≤ c := by simp [hc]
  have lag : V3.dot u v * V3.dot u v + c * c = u.magnitude2 * v.magnitude2 := by
    have h1 : c * c = (V3.cross u v).magnitude2 := by
      have := (V3.magnitude_sq (V3.cross u v)).1
      rw [← this, hc]; ring
    rw [h1]; simp; ring
  have hne : V3.dot u v ≠ 0 ∨ c ≠ 0 := by
    by_contra hcon
    rw [not_or, not_not, not_not] at hcon
    rw [hcon.1, hcon.2] at lag
    have : 0 < u.magnitude2 * v.magnitude2 := mul_pos hu hv
    linarith
  obtain ⟨a1, _, a3, a4⟩ := atan2_spec c (V3.dot u v) hne
  have hm : u.magnitude * v.magnitude = Real.sqrt (V3.dot u v * V3.dot u v + c * c) := by
    rw [lag]; simp only [V3.magnitude, transc_sqrt]
    exact (Real.sqrt_mul hu.le _).symm
  refine ⟨?_, ?_, ?_, ?_⟩
  · rw [hm]; simpa [V3.angle, hc] using a1
  · simpa [V3.angle, hc] using atan2_nonneg_of_nonneg c (V3.dot u v) hc0
  · simpa [V3.angle, hc] using a4
  · have e1 : V3.dot u v = V3.dot v u := by simp; ring
    have e2 : (V3.cross u v).magnitude2 = (V3.cross v u).magnitude2 := by simp; ring
    simp only [V3.angle, V3.magnitude, e1, e2]

/-- 2-D: the signed counter-clockwise angle from `u` to `v`, in `(-π, π]` -/
theorem V2.angle_spec (u v : V2 ℝ) (hu : 0 < u.magnitude2) (hv : 0 < v.magnitude2) :
    u.magnitude * v.magnitude * Real.cos (V2.angle u v) = V2.dot u v ∧
    u.magnitude * v.magnitude * Real.sin (V2.angle u v) = V2.perpDot u v ∧
    -π < V2.angle u v ∧ V2.angle u v ≤ π := by
  have lag : V2.dot u v * V2.dot u v + V2.perpDot u v * V2.perpDot u v = u.magnitude2 * v.magnitude2 := by
    simp; ring
  have hne : V2.dot u v ≠ 0 ∨ V2.perpDot u v ≠ 0 := by
    by_contra hcon
    rw [not_or, not_not, not_not] at hcon
    rw [hcon.1, hcon.2] at lag
    have : 0 < u.magnitude2 * v.magnitude2 := mul_pos hu hv
    linarith
  obtain ⟨a1, a2, a3, a4⟩ := atan2_spec (V2.perpDot u v) (V2.dot u v) hne
  have hm : u.magnitude * v.magnitude
      = Real.sqrt (V2.dot u v * V2.dot u v + V2.perpDot u v * V2.perpDot u v) := by
    rw [lag]; simp only [V2.magnitude, transc_sqrt]
    exact (Real.sqrt_mul hu.le _).symm
  refine ⟨?_, ?_, ?_, ?_⟩
  · rw [hm]; simpa [V2.angle] using a1
  · rw [hm]; simpa [V2.angle] using a2
  · simpa [V2.angle] using a3
  · simpa [V2.angle] using a4
/-- swapping the arguments negates the perpendicular dot product and keeps the dot product, i.e. the two arguments that
`Vector2::angle` passes to `atan2` (only this is stated; the consequence that the angle itself changes sign, except at the half
turn, is not drawn here) -/
theorem V2.angle_antisymm (u v : V2 ℝ) :
    V2.perpDot v u = -V2.perpDot u v ∧ V2.dot v u = V2.dot u v := by
  constructor <;> (simp; ring)

/-! ## projection -/
theorem V2.projectOn_spec (u v : V2 ℝ) (hv : v.magnitude2 ≠ 0) :
    (∃ k : ℝ, V2.projectOn u v = v * k) ∧ V2.dot (u - V2.projectOn u v) v = 0 := by
  refine ⟨⟨_, rfl⟩, ?_⟩
  have e : ∀ k : ℝ, V2.dot (u - v * k) v = V2.dot u v - k * v.magnitude2 := by intro k; simp; ring
  show V2.dot (u - v * (V2.dot u v / v.magnitude2)) v = 0
  rw [e, div_mul_cancel₀ _ hv, sub_self]
theorem V3.projectOn_spec (u v : V3 ℝ) (hv : v.magnitude2 ≠ 0) :
    (∃ k : ℝ, V3.projectOn u v = v * k) ∧ V3.dot (u - V3.projectOn u v) v = 0 := by
  refine ⟨⟨_, rfl⟩, ?_⟩
  have e : ∀ k : ℝ, V3.dot (u - v * k) v = V3.dot u v - k * v.magnitude2 := by intro k; simp; ring
  show V3.dot (u - v * (V3.dot u v / v.magnitude2)) v = 0
  rw [e, div_mul_cancel₀ _ hv, sub_self]
theorem V4.projectOn_spec (u v : V4 ℝ) (hv : v.magnitude2 ≠ 0) :
    (∃ k : ℝ, V4.projectOn u v = v * k) ∧ V4.dot (u - V4.projectOn u v) v = 0 := by
  refine ⟨⟨_, rfl⟩, ?_⟩
  have e : ∀ k : ℝ, V4.dot (u - v * k) v = V4.dot u v - k * v.magnitude2 := by intro k; simp; ring
  show V4.dot (u - v * (V4.dot u v / v.magnitude2)) v = 0
  rw [e, div_mul_cancel₀ _ hv, sub_self]
theorem Quat.projectOn_spec (u v : Quat ℝ) (hv : v.magnitude2 ≠ 0) :
    (∃ k : ℝ, Quat.projectOn u v = v * k) ∧ Quat.dot (u - Quat.projectOn u v) v = 0 := by
  refine ⟨⟨_, rfl⟩, ?_⟩
  have e : ∀ k : ℝ, Quat.dot (u - v * k) v = Quat.dot u v - k * v.magnitude2 := by intro k; simp; ring
  show Quat.dot (u - v * (Quat.dot u v / v.magnitude2)) v = 0
  rw [e, div_mul_cancel₀ _ hv, sub_self]

/-- non-vacuity: 3-4-5 -/
example : (⟨3, 4⟩ : V2 ℝ).magnitude = 5 := by
  simp; rw [show (3:ℝ) * 3 + 4 * 4 = 5 ^ 2 by norm_num]; exact Real.sqrt_sq (by norm_num)

end Cg.C11
