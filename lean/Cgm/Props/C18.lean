import Cgm.Lemmas.MatBridge
import Mathlib.Tactic.FinCases
import Mathlib.Tactic.Tauto
import Cgm.Model.Book
/-!
# C18 — approximate-equality and predicate methods test every component
`r` is the scalar relation with the tolerances already applied (`abs_diff_eq(·,·,ε)`,
`relative_eq(·,·,ε,m)`, `ulps_eq(·,·,ε,u)`): any relation at all.
-/
set_option linter.unusedSectionVars false
namespace Cg.C18
open Cg
variable {α : Type} (r : α → α → Bool)

theorem V1.relAll_iff (a b : V1 α) : V1.relAll r a b = true ↔ r a.x b.x = true := by simp [V1.relAll]
theorem V2.relAll_iff (a b : V2 α) :
    V2.relAll r a b = true ↔ r a.x b.x = true ∧ r a.y b.y = true := by simp [V2.relAll]
theorem V3.relAll_iff (a b : V3 α) :
    V3.relAll r a b = true ↔ r a.x b.x = true ∧ r a.y b.y = true ∧ r a.z b.z = true := by
  simp [V3.relAll, and_assoc]
theorem V4.relAll_iff (a b : V4 α) :
    V4.relAll r a b = true ↔ r a.x b.x = true ∧ r a.y b.y = true ∧ r a.z b.z = true ∧ r a.w b.w = true := by
  simp [V4.relAll, and_assoc]
theorem P3.relAll_iff (a b : P3 α) :
    P3.relAll r a b = true ↔ r a.x b.x = true ∧ r a.y b.y = true ∧ r a.z b.z = true := by
  simp [P3.relAll, and_assoc]
theorem P2.relAll_iff (a b : P2 α) :
    P2.relAll r a b = true ↔ r a.x b.x = true ∧ r a.y b.y = true := by simp [P2.relAll]
theorem P1.relAll_iff (a b : P1 α) : P1.relAll r a b = true ↔ r a.x b.x = true := by simp [P1.relAll]
/-- matrices: equal iff every element pair is related (all `n²` of them) -/
theorem M2.relAll_iff (a b : M2 α) :
    M2.relAll r a b = true ↔ ∀ p ∈ a.toList.zip b.toList, r p.1 p.2 = true := by
  simp [M2.relAll, V2.relAll, M2.toList, V2.toList, and_assoc]
theorem M3.relAll_iff (a b : M3 α) :
    M3.relAll r a b = true ↔ ∀ p ∈ a.toList.zip b.toList, r p.1 p.2 = true := by
  simp [M3.relAll, V3.relAll, M3.toList, V3.toList, and_assoc]
theorem M4.relAll_iff (a b : M4 α) :
    M4.relAll r a b = true ↔ ∀ p ∈ a.toList.zip b.toList, r p.1 p.2 = true := by
  simp [M4.relAll, V4.relAll, M4.toList, V4.toList, and_assoc]
theorem Quat.relAll_iff (a b : Quat α) :
    Quat.relAll r a b = true ↔
      r a.s b.s = true ∧ r a.v.x b.v.x = true ∧ r a.v.y b.v.y = true ∧ r a.v.z b.v.z = true := by
  simp [Quat.relAll, V3.relAll, and_assoc]
theorem euler_relAll_iff (a b : α × α × α) :
    eulerRelAll r a b = true ↔ r a.1 b.1 = true ∧ r a.2.1 b.2.1 = true ∧ r a.2.2 b.2.2 = true := by
  simp [eulerRelAll, and_assoc]
/-- the model's relation on a `Basis2` / `Basis3` is the matrix relation on its `mat` field (true by construction of the model:
`⟨rfl, rfl⟩` on the definitions, which transcribe the delegating `approx` impls of the Rust newtypes; despite the name this is an
equality of the two Boolean functions, not an unfolding into components) -/
theorem basis_relAll_iff (a b : Basis2 α) (c d : Basis3 α) :
    (Basis2.relAll r a b = M2.relAll r a.mat b.mat) ∧ (Basis3.relAll r c d = M3.relAll r c.mat d.mat) :=
  ⟨rfl, rfl⟩
theorem Decomposed.relAll_iff {R V : Type} (rr : R → R → Bool) (rv : V → V → Bool)
    (a b : Decomposed R V α) :
    Decomposed.relAll r rr rv a b = true ↔
      r a.scale b.scale = true ∧ rr a.rot b.rot = true ∧ rv a.disp b.disp = true := by
  simp [Decomposed.relAll, and_assoc]

/-- a single component beyond tolerance makes the compound values unequal -/
theorem V4.relAll_false_of_component (a b : V4 α)
    (h : r a.x b.x = false ∨ r a.y b.y = false ∨ r a.z b.z = false ∨ r a.w b.w = false) :
    V4.relAll r a b = false := by
  rcases h with h | h | h | h <;> simp [V4.relAll, h]
theorem M4.relAll_false_of_element (a b : M4 α) (p : α × α) (hp : p ∈ a.toList.zip b.toList)
    (h : r p.1 p.2 = false) : M4.relAll r a b = false := by
  by_contra hc
  have ht : M4.relAll r a b = true := by simpa using hc
  have := (M4.relAll_iff r a b).1 ht p hp
  rw [h] at this; exact Bool.false_ne_true this
/-- reflexive / symmetric scalar relations give reflexive / symmetric compound relations -/
theorem relAll_refl (hr : ∀ x, r x x = true) (v : V4 α) (m : M4 α) (q : Quat α) :
    V4.relAll r v v = true ∧ M4.relAll r m m = true ∧ Quat.relAll r q q = true := by
  simp [V4.relAll, M4.relAll, Quat.relAll, V3.relAll, hr]
theorem relAll_symm (hs : ∀ x y, r x y = r y x) (u v : V4 α) (m n : M4 α) (p q : Quat α) :
    V4.relAll r u v = V4.relAll r v u ∧ M4.relAll r m n = M4.relAll r n m ∧
    Quat.relAll r p q = Quat.relAll r q p := by
  refine ⟨?_, ?_, ?_⟩
  · simp only [V4.relAll]; rw [hs u.x, hs u.y, hs u.z, hs u.w]
  · simp only [M4.relAll, V4.relAll]
    rw [hs m.x.x, hs m.x.y, hs m.x.z, hs m.x.w, hs m.y.x, hs m.y.y, hs m.y.z, hs m.y.w,
      hs m.z.x, hs m.z.y, hs m.z.z, hs m.z.w, hs m.w.x, hs m.w.y, hs m.w.z, hs m.w.w]
  · simp only [Quat.relAll, V3.relAll]; rw [hs p.s, hs p.v.x, hs p.v.y, hs p.v.z]

/-! ## predicates -/
theorem isFinite_iff (p : α → Bool) (m2 : M2 α) (m3 : M3 α) (m4 : M4 α) (q : Quat α) :
    (M2.isFinite p m2 = true ↔ ∀ e ∈ m2.toList, p e = true) ∧
    (M3.isFinite p m3 = true ↔ ∀ e ∈ m3.toList, p e = true) ∧
    (M4.isFinite p m4 = true ↔ ∀ e ∈ m4.toList, p e = true) ∧
    (Quat.isFinite p q = true ↔ ∀ e ∈ q.toList, p e = true) := by
  refine ⟨?_, ?_, ?_, ?_⟩
  · simp [M2.isFinite, V2.allP, M2.toList, V2.toList, and_assoc]
  · simp [M3.isFinite, V3.allP, M3.toList, V3.toList, and_assoc]
  · simp [M4.isFinite, V4.allP, M4.toList, V4.toList, and_assoc]; tauto
  · simp [Quat.isFinite, V3.allP, Quat.toList, and_assoc]
/-- `is_diagonal` tests every off-diagonal element, `is_symmetric` every element against its mirror -/
theorem M4.isDiagonal_iff (z : α → Bool) (m : M4 α) :
    M4.isDiagonal z m = true ↔
      ∀ c r : Fin 4, c ≠ r → (m.get? c r).map z = some true := by
  constructor
  · intro h c r hcr
    simp only [M4.isDiagonal, Bool.and_eq_true] at h
    fin_cases c <;> fin_cases r <;> first | (exact absurd rfl hcr) | (simp [M4.get?, M4.col?, M4.cols, V4.get?, V4.toList]; tauto)
  · intro h
    have g := fun c r hcr => h c r hcr
    simp only [M4.isDiagonal, Bool.and_eq_true]
    have e01 := g 0 1 (by decide); have e02 := g 0 2 (by decide); have e03 := g 0 3 (by decide)
    have e10 := g 1 0 (by decide); have e12 := g 1 2 (by decide); have e13 := g 1 3 (by decide)
    have e20 := g 2 0 (by decide); have e21 := g 2 1 (by decide); have e23 := g 2 3 (by decide)
    have e30 := g 3 0 (by decide); have e31 := g 3 1 (by decide); have e32 := g 3 2 (by decide)
    simp [M4.get?, M4.col?, M4.cols, V4.get?, V4.toList] at e01 e02 e03 e10 e12 e13 e20 e21 e23 e30 e31 e32
    tauto
theorem M4.isSymmetric_iff (m : M4 α) :
    M4.isSymmetric r m = true ↔
      ∀ c rr : Fin 4, c ≠ rr → ((m.get? c rr).bind fun a => (m.get? rr c).map fun b => r a b) = some true := by
  constructor
  · intro h c rr hcr
    simp only [M4.isSymmetric, Bool.and_eq_true] at h
    fin_cases c <;> fin_cases rr <;> first | (exact absurd rfl hcr) | (simp [M4.get?, M4.col?, M4.cols, V4.get?, V4.toList]; tauto)
  · intro h
    have g := fun c r hcr => h c r hcr
    simp only [M4.isSymmetric, Bool.and_eq_true]
    have e01 := g 0 1 (by decide); have e02 := g 0 2 (by decide); have e03 := g 0 3 (by decide)
    have e10 := g 1 0 (by decide); have e12 := g 1 2 (by decide); have e13 := g 1 3 (by decide)
    have e20 := g 2 0 (by decide); have e21 := g 2 1 (by decide); have e23 := g 2 3 (by decide)
    have e30 := g 3 0 (by decide); have e31 := g 3 1 (by decide); have e32 := g 3 2 (by decide)
    simp [M4.get?, M4.col?, M4.cols, V4.get?, V4.toList] at e01 e02 e03 e10 e12 e13 e20 e21 e23 e30 e31 e32
    tauto

end Cg.C18
