import Cgm.Props.C10b
import Cgm.Lemmas.RealInst2
/-!
# C10, general-point forms and "accepted by `planar` ⇒ the mapping clauses"

`Cg.C10.frustum_faces` / `planar_window` (C10.lean) state the face clauses for two diagonal corners only, and
`planar_depth` carries two free side hypotheses (`planarInvF * n + 1 ≠ 0`, `.. f + 1 ≠ 0`).  This file gives

* the image of EVERY point of the near plane / far plane under `frustumMat` (`frustum_near`, `frustum_far`,
  `frustum_far_similar`), the order form "rectangle onto `[-1,1]^2`" (`window_mem`, `window_onto`,
  `frustum_near_rect`, `frustum_far_rect`, `ortho_box`);
* the image of every point of the planes `z = 0`, `z = -n`, `z = -f` under `planarMat`
  (`planar_plane0`, `planar_near`, `planar_far`);
* `planar_some_guards`, `planar_accept_maps`: every tuple accepted by `planar` with a non-zero height maps the
  window onto `[-1,1]^2`, `z = -n` to `-1` and `z = -f` to `+1`; the non-vanishing of `w` on both planes is DERIVED from
  the focal-point assertion (and holds trivially in the orthographic case `tan(fovy/2) = 0`);
* `planar_eq_ortho_of_tan_zero`, `planar_accept_ortho`: with `tan(fovy/2) = 0` the matrix is the `ortho` matrix of the window;
  `planarFocal_eq`: the code's focal point is `-(h/2) cot(fovy/2)`;
* `real_planar`: the concrete version over `ℝ` (`π`, `2^-52`), with examples of accepted tuples on four different paths.
-/
set_option linter.unusedSectionVars false
namespace Cg.C10
open Cg

/-! ## general points: frustum -/
section maps
variable {F : Type} [Field F] [CharZero F] [Transc F] [Lits F] [Approx F] [LT F] [DecidableLT F] [LE F] [DecidableLE F]

/-- EVERY point `(x, y, -n)` of the near plane goes to the face `z = -1`, by the affine map taking the rectangle
`[l,r]x[b,t]` to `[-1,1]^2` -/
theorem frustum_near (l r b t n f x y : F) (hz : f - n ≠ 0) (hn : n ≠ 0) :
    (frustumMat l r b t n f).transformPoint ⟨x, y, -n⟩ =
      ⟨(2 * x - (r + l)) / (r - l), (2 * y - (t + b)) / (t - b), -1⟩ := by
  ext
  · simp; field_simp; ring
  · simp; field_simp; ring
  · simp; field_simp; ring
/-- EVERY point `(x, y, -f)` of the far plane goes to the face `z = +1`; `x`, `y` are first scaled by `n / f` -/
theorem frustum_far (l r b t n f x y : F) (hz : f - n ≠ 0) (hf : f ≠ 0) :
    (frustumMat l r b t n f).transformPoint ⟨x, y, -f⟩ =
      ⟨(2 * (x * (n / f)) - (r + l)) / (r - l), (2 * (y * (n / f)) - (t + b)) / (t - b), 1⟩ := by
  ext
  · simp; field_simp; ring
  · simp; field_simp; ring
  · simp; field_simp; ring
/-- the same, parametrised by the similar far-plane rectangle: the point `(x f/n, y f/n, -f)` (the central projection of
the near-plane point `(x, y, -n)`) has the same image with `z = +1` -/
theorem frustum_far_similar (l r b t n f x y : F) (hz : f - n ≠ 0) (hn : n ≠ 0) (hf : f ≠ 0) :
    (frustumMat l r b t n f).transformPoint ⟨x * (f / n), y * (f / n), -f⟩ =
      ⟨(2 * x - (r + l)) / (r - l), (2 * y - (t + b)) / (t - b), 1⟩ := by
  rw [frustum_far l r b t n f _ _ hz hf]
  have e : ∀ u : F, u * (f / n) * (n / f) = u := fun u => by field_simp
  rw [e, e]

/-! ## general points: planar -/
/-- EVERY point `(x, y, 0)` of the plane `z = 0` has `w = 1` and goes to `(2x/(aspect h), 2y/h, ·)`: the window of
height `h` and width `aspect h` centred at the origin goes onto `[-1,1]^2` -/
theorem planar_plane0 (fovy aspect h n f x y : F) :
    (planarMat fovy aspect h n f).transformPoint ⟨x, y, 0⟩ =
      ⟨2 * x / (aspect * h), 2 * y / h,
        (2 * f * n * planarInvF fovy h + (f + n)) / (n - f)⟩ := by
  ext <;> simp <;> ring
/-- EVERY point `(x, y, -n)` goes to `z = -1` (`w = inv_f n + 1`) -/
theorem planar_near (fovy aspect h n f x y : F) (hnf : n - f ≠ 0) (hkn : planarInvF fovy h * n + 1 ≠ 0) :
    (planarMat fovy aspect h n f).transformPoint ⟨x, y, -n⟩ =
      ⟨2 * x / (aspect * h) / (planarInvF fovy h * n + 1), 2 * y / h / (planarInvF fovy h * n + 1), -1⟩ := by
  have h1 : n * planarInvF fovy h + 1 ≠ 0 := by intro h'; apply hkn; linear_combination h'
  ext
  · simp; ring
  · simp; ring
  · simp; field_simp; ring
/-- EVERY point `(x, y, -f)` goes to `z = +1` (`w = inv_f f + 1`) -/
theorem planar_far (fovy aspect h n f x y : F) (hnf : n - f ≠ 0) (hkf : planarInvF fovy h * f + 1 ≠ 0) :
    (planarMat fovy aspect h n f).transformPoint ⟨x, y, -f⟩ =
      ⟨2 * x / (aspect * h) / (planarInvF fovy h * f + 1), 2 * y / h / (planarInvF fovy h * f + 1), 1⟩ := by
  have h1 : f * planarInvF fovy h + 1 ≠ 0 := by intro h'; apply hkf; linear_combination h'
  ext
  · simp; ring
  · simp; ring
  · simp; field_simp; ring
/-- the orthographic case: with `tan(fovy/2) = 0` (`fovy = 0`, focal point at infinity) the matrix of `planar` IS the `ortho`
matrix of the symmetric window of height `h` and width `aspect h` -/
theorem planar_eq_ortho_of_tan_zero (fovy aspect h n f : F) (hT : Transc.tan (fovy / 2) = 0)
    (hnf : n - f ≠ 0) :
    planarMat fovy aspect h n f = ortho (-(aspect * h / 2)) (aspect * h / 2) (-(h / 2)) (h / 2) n f := by
  have hfn : f - n ≠ 0 := by intro h'; apply hnf; linear_combination -h'
  have hk : planarInvF fovy h = 0 := by simp [planarInvF, hT]
  ext <;> simp [hk] <;> field_simp <;> ring
end maps

/-! ## order form: the rectangles go ONTO `[-1,1]^2` -/
section order
variable {F : Type} [Field F] [LinearOrder F] [IsStrictOrderedRing F] [Transc F] [Lits F] [Approx F]

/-- the affine map `x ↦ (2x - (r+l))/(r-l)` takes `[l,r]` into `[-1,1]` -/
theorem window_mem (l r x : F) (hlr : l < r) (h1 : l ≤ x) (h2 : x ≤ r) :
    -1 ≤ (2 * x - (r + l)) / (r - l) ∧ (2 * x - (r + l)) / (r - l) ≤ 1 := by
  have hp : 0 < r - l := sub_pos.mpr hlr
  rw [le_div_iff₀ hp, div_le_iff₀ hp]
  constructor <;> linarith
/-- ... and onto `[-1,1]` -/
theorem window_onto (l r u : F) (hlr : l < r) (h1 : -1 ≤ u) (h2 : u ≤ 1) :
    ∃ x, l ≤ x ∧ x ≤ r ∧ (2 * x - (r + l)) / (r - l) = u := by
  have hp : 0 < r - l := sub_pos.mpr hlr
  refine ⟨((r - l) * u + (r + l)) / 2, ?_, ?_, ?_⟩
  · rw [le_div_iff₀ (by norm_num)]; nlinarith
  · rw [div_le_iff₀ (by norm_num)]; nlinarith
  · field_simp; ring

/-- `ortho`: the box `[l,r]x[b,t]x[-f,-n]` goes into the cube `[-1,1]^3`, and onto it -/
theorem ortho_box (l r b t n f : F) (hx : l < r) (hy : b < t) (hz : n < f) :
    (∀ x y z, l ≤ x → x ≤ r → b ≤ y → y ≤ t → -f ≤ z → z ≤ -n →
      ∃ u v w, (-1 ≤ u ∧ u ≤ 1) ∧ (-1 ≤ v ∧ v ≤ 1) ∧ (-1 ≤ w ∧ w ≤ 1) ∧
        (ortho l r b t n f).transformPoint ⟨x, y, z⟩ = ⟨u, v, w⟩) ∧
    (∀ u v w, -1 ≤ u → u ≤ 1 → -1 ≤ v → v ≤ 1 → -1 ≤ w → w ≤ 1 →
      ∃ x y z, (l ≤ x ∧ x ≤ r) ∧ (b ≤ y ∧ y ≤ t) ∧ (-f ≤ z ∧ z ≤ -n) ∧
        (ortho l r b t n f).transformPoint ⟨x, y, z⟩ = ⟨u, v, w⟩) := by
  constructor
  · intro x y z h1 h2 h3 h4 h5 h6
    refine ⟨_, _, _, window_mem l r x hx h1 h2, window_mem b t y hy h3 h4, ?_, ortho_affine l r b t n f x y z⟩
    have := window_mem n f (-z) hz (by linarith) (by linarith)
    rw [show (-2 * z - (f + n)) = 2 * -z - (f + n) by ring]
    exact this
  · intro u v w h1 h2 h3 h4 h5 h6
    obtain ⟨x, hx1, hx2, ex⟩ := window_onto l r u hx h1 h2
    obtain ⟨y, hy1, hy2, ey⟩ := window_onto b t v hy h3 h4
    obtain ⟨z, hz1, hz2, ez⟩ := window_onto n f w hz h5 h6
    refine ⟨x, y, -z, ⟨hx1, hx2⟩, ⟨hy1, hy2⟩, ⟨by linarith, by linarith⟩, ?_⟩
    rw [ortho_affine, ex, ey, show (-2 * -z - (f + n)) = 2 * z - (f + n) by ring, ez]

/-- `frustum`: the near-plane rectangle `[l,r]x[b,t]x{-n}` goes into the face `z = -1` of the cube, and onto it -/
theorem frustum_near_rect (l r b t n f : F) (hx : l < r) (hy : b < t) (hn : n ≠ 0) (hz : f - n ≠ 0) :
    (∀ x y, l ≤ x → x ≤ r → b ≤ y → y ≤ t →
      ∃ u v, (-1 ≤ u ∧ u ≤ 1) ∧ (-1 ≤ v ∧ v ≤ 1) ∧
        (frustumMat l r b t n f).transformPoint ⟨x, y, -n⟩ = ⟨u, v, -1⟩) ∧
    (∀ u v, -1 ≤ u → u ≤ 1 → -1 ≤ v → v ≤ 1 →
      ∃ x y, (l ≤ x ∧ x ≤ r) ∧ (b ≤ y ∧ y ≤ t) ∧
        (frustumMat l r b t n f).transformPoint ⟨x, y, -n⟩ = ⟨u, v, -1⟩) := by
  constructor
  · intro x y h1 h2 h3 h4
    exact ⟨_, _, window_mem l r x hx h1 h2, window_mem b t y hy h3 h4, frustum_near l r b t n f x y hz hn⟩
  · intro u v h1 h2 h3 h4
    obtain ⟨x, hx1, hx2, ex⟩ := window_onto l r u hx h1 h2
    obtain ⟨y, hy1, hy2, ey⟩ := window_onto b t v hy h3 h4
    exact ⟨x, y, ⟨hx1, hx2⟩, ⟨hy1, hy2⟩, by rw [frustum_near l r b t n f x y hz hn, ex, ey]⟩
/-- `frustum`: the similar far-plane rectangle `[l f/n, r f/n]x[b f/n, t f/n]x{-f}` (points `(x f/n, y f/n, -f)` with
`(x, y)` in the near rectangle) goes into the face `z = +1`, and onto it -/
theorem frustum_far_rect (l r b t n f : F) (hx : l < r) (hy : b < t) (hn : n ≠ 0) (hf : f ≠ 0) (hz : f - n ≠ 0) :
    (∀ x y, l ≤ x → x ≤ r → b ≤ y → y ≤ t →
      ∃ u v, (-1 ≤ u ∧ u ≤ 1) ∧ (-1 ≤ v ∧ v ≤ 1) ∧
        (frustumMat l r b t n f).transformPoint ⟨x * (f / n), y * (f / n), -f⟩ = ⟨u, v, 1⟩) ∧
    (∀ u v, -1 ≤ u → u ≤ 1 → -1 ≤ v → v ≤ 1 →
      ∃ x y, (l ≤ x ∧ x ≤ r) ∧ (b ≤ y ∧ y ≤ t) ∧
        (frustumMat l r b t n f).transformPoint ⟨x * (f / n), y * (f / n), -f⟩ = ⟨u, v, 1⟩) := by
  constructor
  · intro x y h1 h2 h3 h4
    exact ⟨_, _, window_mem l r x hx h1 h2, window_mem b t y hy h3 h4, frustum_far_similar l r b t n f x y hz hn hf⟩
  · intro u v h1 h2 h3 h4
    obtain ⟨x, hx1, hx2, ex⟩ := window_onto l r u hx h1 h2
    obtain ⟨y, hy1, hy2, ey⟩ := window_onto b t v hy h3 h4
    exact ⟨x, y, ⟨hx1, hx2⟩, ⟨hy1, hy2⟩, by rw [frustum_far_similar l r b t n f x y hz hn hf, ex, ey]⟩
/-- the hypotheses are satisfiable: the frustum `[-1,2]x[-3,4]`, near 1, far 10 -/
example : ((-1 : ℚ) < 2 ∧ (-3 : ℚ) < 4 ∧ (1 : ℚ) ≠ 0 ∧ (10 : ℚ) ≠ 0 ∧ (10 - 1 : ℚ) ≠ 0) := by norm_num

/-! ## `planar`: acceptance ⇒ the mapping clauses -/
/-- `tan(fovy/2)` as the model writes it -/
theorem rad_tan_two (fovy : F) : Rad.tan (fovy / (two : F)) = Transc.tan (fovy / 2) := by simp

/-- `planar` returns `planarMat` or panics -/
theorem planar_eq (fovy aspect h n f : F) :
    planar fovy aspect h n f = none ∨ planar fovy aspect h n f = some (planarMat fovy aspect h n f) := by
  unfold planar; simp only []; split_ifs <;> first | exact Or.inl rfl | exact Or.inr rfl

/-- the code's focal point `-inv_f.recip()` is `(h/2) cot(fovy/2)` behind the origin (depths are measured along `-z`, so
"behind" is a negative depth); with `planar_focal` (C10.lean): `w = 0` exactly there -/
theorem planarFocal_eq (fovy h : F) :
    planarFocal fovy h = -(h / 2 * Rad.cot (fovy / 2)) := by
  simp [planarFocal, planarInvF]; ring

/-- what a tuple accepted by `planar` satisfies, in ordered-field terms (`T = tan(fovy/2)`) -/
theorem planar_some_guards (S : ApproxLaws F) (fovy aspect h n f : F) (m : M4 F)
    (hm : planar fovy aspect h n f = some m) :
    m = planarMat fovy aspect h n f ∧ |fovy| < Lits.radFull / 2 ∧ 0 ≤ h ∧
      Approx.eps < |aspect| ∧ aspect ≠ 0 ∧ Approx.eps < |f - n| ∧ n ≠ f ∧
      ¬ (Transc.tan (fovy / 2) = 0 ∧ h = 0) ∧
      ((Transc.tan (fovy / 2) = 0 ∧ 0 < h) ∨
        planarFocal fovy h < min n f ∨ max n f < planarFocal fovy h) := by
  have hne : ¬ planar fovy aspect h n f = none := by rw [hm]; exact Option.some_ne_none m
  have hmat : m = planarMat fovy aspect h n f := by
    rcases planar_eq fovy aspect h n f with e | e
    · exact absurd e hne
    · rw [hm] at e; exact Option.some.inj e
  rw [planar_none_iff' S, rad_tan_two] at hne
  simp only [not_or, not_le] at hne
  obtain ⟨g1, g2, g3, g4, g5, g6⟩ := hne
  have ha : aspect ≠ 0 := by
    rintro rfl
    rw [abs_zero] at g3
    exact absurd g3 (not_lt.mpr S.eps_nonneg)
  have hnf : n ≠ f := by
    rintro rfl
    rw [sub_self, abs_zero] at g4
    exact absurd g4 (not_lt.mpr S.eps_nonneg)
  refine ⟨hmat, g1, not_lt.mp g2, g3, ha, g4, hnf, g5, ?_⟩
  by_cases hc : Transc.tan (fovy / 2) = 0 ∧ 0 < h
  · exact Or.inl hc
  · right
    by_contra hcc
    rw [not_or, not_lt, not_lt] at hcc
    exact g6 ⟨hc, hcc⟩

/-- the homogeneous weight `w = inv_f d + 1` does not vanish on the near and far planes of an accepted tuple with a
non-zero height: either `tan(fovy/2) = 0` (orthographic: `inv_f = 0`, `w = 1`) or the focal point `-(1/inv_f)`, the only depth
with `w = 0`, is strictly outside `[min n f, max n f]` -- whichever plane is nearer and whether the focal point is in front
of both planes or behind both -/
theorem planar_accept_w (S : ApproxLaws F) (fovy aspect h n f : F) (m : M4 F)
    (hm : planar fovy aspect h n f = some m) (hh : h ≠ 0) :
    planarInvF fovy h * n + 1 ≠ 0 ∧ planarInvF fovy h * f + 1 ≠ 0 := by
  obtain ⟨-, -, h0, -, -, -, -, -, g⟩ := planar_some_guards S fovy aspect h n f m hm
  have key : ∀ d : F, min n f ≤ d → d ≤ max n f → planarInvF fovy h * d + 1 ≠ 0 := by
    intro d hd1 hd2 hc
    by_cases hT : Transc.tan (fovy / 2) = 0
    · have : planarInvF fovy h = 0 := by simp [planarInvF, hT]
      rw [this] at hc; simp at hc
    · have hk : planarInvF fovy h ≠ 0 := by
        simp only [planarInvF, rad_tan_two]
        exact div_ne_zero (mul_ne_zero hT (by simp [two])) hh
      have hd : d = planarFocal fovy h := by
        unfold planarFocal; field_simp; linear_combination hc
      rcases g with g | g | g
      · exact hT g.1
      · rw [← hd] at g; exact absurd hd1 (not_le.mpr g)
      · rw [← hd] at g; exact absurd hd2 (not_le.mpr g)
  exact ⟨key n (min_le_left _ _) (le_max_left _ _), key f (min_le_right _ _) (le_max_right _ _)⟩

/-- EVERY tuple accepted by `planar` with a non-zero height: the `z = 0` plane keeps `w = 1` and is scaled so that the
window of height `h` and width `aspect h` goes onto `[-1,1]^2` (the point `(u aspect h/2, v h/2, 0)` goes to `(u, v, ·)`,
and a point within the window stays within `[-1,1]^2`); every point with `z = -n` goes to `z = -1` and every point with
`z = -f` to `z = +1`.  No side condition beyond acceptance and `h ≠ 0` (with `h = 0` the code's matrix has infinite
entries) -/
theorem planar_accept_maps (S : ApproxLaws F) (fovy aspect h n f : F) (m : M4 F)
    (hm : planar fovy aspect h n f = some m) (hh : h ≠ 0) :
    (∀ x y, m.transformPoint ⟨x, y, 0⟩ =
      ⟨2 * x / (aspect * h), 2 * y / h, (2 * f * n * planarInvF fovy h + (f + n)) / (n - f)⟩) ∧
    (∀ u v, (m.transformPoint ⟨u * (aspect * h / 2), v * (h / 2), 0⟩).x = u ∧
            (m.transformPoint ⟨u * (aspect * h / 2), v * (h / 2), 0⟩).y = v) ∧
    (∀ x y, |x| ≤ |aspect| * h / 2 → |y| ≤ h / 2 →
      |(m.transformPoint ⟨x, y, 0⟩).x| ≤ 1 ∧ |(m.transformPoint ⟨x, y, 0⟩).y| ≤ 1) ∧
    (∀ x y, m.transformPoint ⟨x, y, -n⟩ =
      ⟨2 * x / (aspect * h) / (planarInvF fovy h * n + 1), 2 * y / h / (planarInvF fovy h * n + 1), -1⟩) ∧
    (∀ x y, m.transformPoint ⟨x, y, -f⟩ =
      ⟨2 * x / (aspect * h) / (planarInvF fovy h * f + 1), 2 * y / h / (planarInvF fovy h * f + 1), 1⟩) := by
  obtain ⟨hw1, hw2⟩ := planar_accept_w S fovy aspect h n f m hm hh
  obtain ⟨rfl, -, h0, -, ha, -, hnf, -, -⟩ := planar_some_guards S fovy aspect h n f m hm
  have hpos : 0 < h := lt_of_le_of_ne h0 (Ne.symm hh)
  have hnf' : n - f ≠ 0 := sub_ne_zero.mpr hnf
  refine ⟨fun x y => planar_plane0 .., fun u v => ?_, fun x y hx hy => ?_,
    fun x y => planar_near _ _ _ _ _ x y hnf' hw1, fun x y => planar_far _ _ _ _ _ x y hnf' hw2⟩
  · rw [planar_plane0]
    constructor
    · show 2 * (u * (aspect * h / 2)) / (aspect * h) = u
      field_simp
    · show 2 * (v * (h / 2)) / h = v
      field_simp
  · rw [planar_plane0]
    have hap : 0 < |aspect| := abs_pos.mpr ha
    constructor
    · show |2 * x / (aspect * h)| ≤ 1
      rw [abs_div, abs_mul, abs_mul, abs_of_pos hpos, abs_of_pos (two_pos : (0 : F) < 2),
        div_le_one (mul_pos hap hpos)]
      linarith
    · show |2 * y / h| ≤ 1
      rw [abs_div, abs_mul, abs_of_pos hpos, abs_of_pos (two_pos : (0 : F) < 2), div_le_one hpos]
      linarith
/-- an accepted tuple with `tan(fovy/2) = 0` (over `ℝ`: `fovy = 0`) yields exactly the orthographic matrix of the window -/
theorem planar_accept_ortho (S : ApproxLaws F) (fovy aspect h n f : F) (m : M4 F)
    (hm : planar fovy aspect h n f = some m) (hT : Transc.tan (fovy / 2) = 0) :
    0 < h ∧ m = ortho (-(aspect * h / 2)) (aspect * h / 2) (-(h / 2)) (h / 2) n f := by
  obtain ⟨rfl, -, h0, -, -, -, hnf, hz, -⟩ := planar_some_guards S fovy aspect h n f m hm
  exact ⟨lt_of_le_of_ne h0 (fun e => hz ⟨hT, e.symm⟩),
    planar_eq_ortho_of_tan_zero fovy aspect h n f hT (sub_ne_zero.mpr hnf)⟩
end order

/-! ## fully concrete: the `Approx ℝ` instance of RealApprox.lean and `Lits.radFull = 2π` -/
section concrete
open scoped Cg.RealApprox

/-- for `|fovy| < π`, `tan(fovy/2) = 0` only for `fovy = 0` (the documented orthographic case) -/
theorem tan_half_eq_zero_iff (fovy : ℝ) (h : |fovy| < Real.pi) : Real.tan (fovy / 2) = 0 ↔ fovy = 0 := by
  obtain ⟨h1, h2⟩ := abs_lt.mp h
  constructor
  · intro ht
    rcases lt_trichotomy fovy 0 with hc | hc | hc
    · have := Real.tan_neg_of_neg_of_pi_div_two_lt (x := fovy / 2) (by linarith) (by linarith)
      linarith
    · exact hc
    · have := Real.tan_pos_of_pos_of_lt_pi_div_two (x := fovy / 2) (by linarith) (by linarith)
      linarith
  · rintro rfl; simp

section
variable [Lits ℝ]
/-- the tuples rejected by `planar` over `ℝ` are exactly those with `|fovy| ≥ π`, negative height, `|aspect| ≤ 2^-52`,
`|far - near| ≤ 2^-52`, `fovy = 0` with height 0 (`inv_f = 0/0`), or -- unless `fovy = 0` with a positive height, the
orthographic case -- the focal point `-(h/2) cot(fovy/2)` between the planes; and EVERY accepted tuple with a non-zero
height has the window / depth mapping of `planar_accept_maps` -/
theorem real_planar (hT : (Lits.radFull : ℝ) = 2 * Real.pi) (fovy aspect h n f : ℝ) :
    (planar fovy aspect h n f = none ↔
      Real.pi ≤ |fovy| ∨ h < 0 ∨ |aspect| ≤ eps52R ∨ |f - n| ≤ eps52R ∨ (fovy = 0 ∧ h = 0) ∨
        (¬ (fovy = 0 ∧ 0 < h) ∧ min n f ≤ -(h / 2 * (1 / Real.tan (fovy / 2))) ∧
          -(h / 2 * (1 / Real.tan (fovy / 2))) ≤ max n f)) ∧
    (∀ m, planar fovy aspect h n f = some m → h ≠ 0 →
      m = planarMat fovy aspect h n f ∧ |fovy| < Real.pi ∧ 0 < h ∧ aspect ≠ 0 ∧ n ≠ f ∧
      (∀ x y, m.transformPoint ⟨x, y, 0⟩ =
        ⟨2 * x / (aspect * h), 2 * y / h, (2 * f * n * planarInvF fovy h + (f + n)) / (n - f)⟩) ∧
      (∀ u v, (m.transformPoint ⟨u * (aspect * h / 2), v * (h / 2), 0⟩).x = u ∧
              (m.transformPoint ⟨u * (aspect * h / 2), v * (h / 2), 0⟩).y = v) ∧
      (∀ x y, |x| ≤ |aspect| * h / 2 → |y| ≤ h / 2 →
        |(m.transformPoint ⟨x, y, 0⟩).x| ≤ 1 ∧ |(m.transformPoint ⟨x, y, 0⟩).y| ≤ 1) ∧
      (∀ x y, (m.transformPoint ⟨x, y, -n⟩).z = -1) ∧
      (∀ x y, (m.transformPoint ⟨x, y, -f⟩).z = 1)) := by
  constructor
  · rw [planar_none_iff' realApproxLaws, hT, planarFocal_eq]
    simp only [real_eps, mul_div_cancel_left₀ Real.pi (two_ne_zero' ℝ), Rad.cot, Rad.tan, transc_tan, Nat.cast_ofNat]
    by_cases hp : Real.pi ≤ |fovy|
    · simp [hp]
    · rw [tan_half_eq_zero_iff fovy (not_le.mp hp)]
  · intro m hm hh
    obtain ⟨e, g1, g2, -, ha, -, hnf, -, -⟩ := planar_some_guards realApproxLaws fovy aspect h n f m hm
    obtain ⟨m1, m2, m3, m4, m5⟩ := planar_accept_maps realApproxLaws fovy aspect h n f m hm hh
    rw [hT, mul_div_cancel_left₀ Real.pi (two_ne_zero' ℝ)] at g1
    exact ⟨e, g1, lt_of_le_of_ne g2 (Ne.symm hh), ha, hnf, m1, m2, m3,
      fun x y => by rw [m4], fun x y => by rw [m5]⟩
end

/-- acceptance is satisfiable, with the literals of RealInst2.lean: a genuine perspective (`fovy = π/2`, window height 2:
focal point at depth `-1`, i.e. behind the origin, planes at depths 1 and 10), the same with the planes exchanged
(near 10, far 1), a negative `fovy = -π/2` with a negative aspect (focal point at depth `+1`, in front of the origin but
before both planes at depths 2 and 10), and the orthographic case `fovy = 0` -/
example : (∃ m, planar (Real.pi / 2 : ℝ) (4 / 3) 2 1 10 = some m) ∧
    (∃ m, planar (Real.pi / 2 : ℝ) (4 / 3) 2 10 1 = some m) ∧
    (∃ m, planar (-(Real.pi / 2) : ℝ) (-(4 / 3)) 2 2 10 = some m) ∧
    (∃ m, planar (0 : ℝ) (4 / 3) 2 1 10 = some m) := by
  have he : eps52R < 1 := by unfold eps52R; norm_num
  have hpi := Real.two_le_pi
  have h43 : |(4 / 3 : ℝ)| = 4 / 3 := abs_of_pos (by norm_num)
  have hpos : |Real.pi / 2| = Real.pi / 2 := abs_of_pos (by linarith)
  have t1 : Real.tan (Real.pi / 2 / 2) = 1 := by
    rw [show Real.pi / 2 / 2 = Real.pi / 4 by ring]; exact Real.tan_pi_div_four
  have t2 : Real.tan (-(Real.pi / 2) / 2) = -1 := by
    rw [show -(Real.pi / 2) / 2 = -(Real.pi / 4) by ring, Real.tan_neg, Real.tan_pi_div_four]
  have key : ∀ fovy aspect h n f : ℝ, ¬ planar fovy aspect h n f = none → ∃ m, planar fovy aspect h n f = some m :=
    fun _ _ _ _ _ hne => Option.ne_none_iff_exists'.mp hne
  refine ⟨key _ _ _ _ _ ?_, key _ _ _ _ _ ?_, key _ _ _ _ _ ?_, key _ _ _ _ _ ?_⟩
  · rw [(real_planar lits_radFull _ _ _ _ _).1, hpos, h43, t1]
    norm_num
    exact ⟨by linarith, by linarith, by linarith⟩
  · rw [(real_planar lits_radFull _ _ _ _ _).1, hpos, h43, t1]
    norm_num
    exact ⟨by linarith, by linarith, by linarith⟩
  · rw [(real_planar lits_radFull _ _ _ _ _).1, abs_neg, abs_neg, hpos, h43, t2]
    norm_num
    exact ⟨by linarith, by linarith, by linarith⟩
  · rw [(real_planar lits_radFull _ _ _ _ _).1, h43]
    norm_num
    exact ⟨by linarith, by linarith, by linarith⟩
end concrete

end Cg.C10
