import Cgm.Props.C09c
/-!
# C09 (fourth part) — the `Matrix3: Transform<Point2>` look_at entry points; `look_at(eye, eye + d) = look_to(eye, d)`

1. `impl Transform<Point2<S>> for Matrix3<S>`: `look_at` / `look_at_lh` build `Matrix2::look_at(center - eye, up)`,
   `look_at_rh` builds `Matrix2::look_at(eye - center, up)`, and embed it in a `Matrix3` (`Matrix3::from`).
   The result is a LINEAR map of the plane (third column `(0,0,1)`, no translation: unlike the `Matrix4`
   constructors it does not move the eye to the origin): an orthogonal matrix that sends `x̂` to the unit
   direction from the eye to the centre (`_lh`; from the centre to the eye for `_rh`), `ŷ` to the
   perpendicular on the side of `up`; determinant `-1` exactly when `up` is clockwise of (or collinear
   with) the direction.
2. over an exact field `(eye + d) - eye = d`, so every `look_at` entry point at `center = eye + d` is its
   `look_to` sibling at `d` (in floating point `(eye + d) - eye` is rounded: this is a statement about the
   real-number model only).
-/
set_option linter.unusedSectionVars false
set_option linter.unusedVariables false
namespace Cg.C09
open Cg Real

/-! ## 1. the embedding `Matrix3::from(Matrix2)` -/

/-- the upper-left 2x2 block of a 3x3 matrix -/
def block2 {α : Type} (m : M3 α) : M2 α := ⟨m.x.truncate, m.y.truncate⟩

section algebraic
variable {K : Type} [CommRing K]
/-- `Matrix3::from(m2)`: the block is `m2`, the rest is the identity; it acts on vectors and points of the
plane as `m2` does (no translation), and determinant / Gram matrix are those of `m2` -/
theorem toM3_embed (m : M2 K) :
    block2 m.toM3 = m ∧ m.toM3.z = ⟨0, 0, 1⟩ ∧ m.toM3.x.z = 0 ∧ m.toM3.y.z = 0 ∧
    m.toM3.det = m.det ∧ m.toM3.transpose * m.toM3 = (m.transpose * m).toM3 ∧
    (∀ v : V2 K, m.toM3.transformVector2 v = m * v) ∧
    (∀ p : P2 K, m.toM3.transformPoint2 p = P2.fromVec (m * p.toVec)) := by
  refine ⟨rfl, rfl, rfl, rfl, ?_, ?_, ?_, ?_⟩
  · simp [M2.toM3, M3.new, M3.det, M2.det]
  · ext <;> simp [M2.toM3, M3.new, M2.new, M3.transpose, M2.transpose]
  · intro v; ext <;> simp [M3.transformVector2, M2.toM3, M3.new, V2.extend, V3.truncate]
  · intro p
    ext <;> simp [M3.transformPoint2, M2.toM3, M3.new, V3.truncate, P2.fromVec, P2.toVec, P3.toVec]
theorem one_toM3 : (M2.one : M2 K).toM3 = M3.one := by
  ext <;> simp [M2.toM3, M3.new, M2.one, M3.one, M2.fromValue, M3.fromValue, M2.new]
/-- a matrix with orthonormal columns preserves dot products -/
theorem orth2_dot (m : M2 K) (h : m.transpose * m = M2.one) (v w : V2 K) :
    V2.dot (m * v) (m * w) = V2.dot v w := by
  have h1 := congrArg (fun a : M2 K => a.x.x) h
  have h2 := congrArg (fun a : M2 K => a.x.y) h
  have h3 := congrArg (fun a : M2 K => a.y.x) h
  have h4 := congrArg (fun a : M2 K => a.y.y) h
  simp [M2.transpose, M2.new, M2.one, M2.fromValue] at h1 h2 h3 h4
  simp
  linear_combination (v.x * w.x) * h1 + (v.x * w.y) * h3 + (v.y * w.x) * h2 + (v.y * w.y) * h4
end algebraic

/-! ## 2. `Matrix3: Transform<Point2>`: `look_at`, `look_at_lh`, `look_at_rh` -/

/-- what the three entry points compute (`look_at` and `look_at_lh` are the same function); `look_at_rh`
is `look_at_lh` with eye and centre exchanged -/
theorem lookAt2_entry_def (eye center : P2 ℝ) (up : V2 ℝ) :
    M3.lookAt2Lh eye center up = (M2.lookAt (center - eye) up).toM3 ∧
    M3.lookAt2Rh eye center up = (M2.lookAt (eye - center) up).toM3 ∧
    M3.lookAt2Rh eye center up = M3.lookAt2Lh center eye up := ⟨rfl, rfl, rfl⟩

/-- a point is fixed at the origin only if it is the origin -/
theorem magnitude2_eq_zero2 (v : V2 ℝ) (h : v.magnitude2 = 0) : v = ⟨0, 0⟩ := by
  have h' : v.x * v.x + v.y * v.y = 0 := by simpa using h
  have hx : v.x = 0 := by nlinarith [mul_self_nonneg v.x, mul_self_nonneg v.y]
  have hy : v.y = 0 := by nlinarith [mul_self_nonneg v.x, mul_self_nonneg v.y]
  ext <;> simp [hx, hy]

/-- **spec of the embedded 2-D look-at** `(Matrix2::look_at(d, up)).into()` for a non-zero direction `d`:
block = `Matrix2::look_at(d, up)`; third column and third row those of the identity (a linear map: no
translation); orthogonal; determinant `-1` iff `up.y d.x ≤ up.x d.y`; first column `d/|d|` (so `x̂ ↦ d/|d|`);
`ŷ` goes to a unit vector perpendicular to `d` on the side of `up`; lengths and dot products are preserved;
points are transformed linearly (the origin is fixed, and no other point is sent to the origin) -/
theorem lookAt2_embed_spec (d up : V2 ℝ) (hd : 0 < d.magnitude2) :
    let m := (M2.lookAt d up).toM3
    block2 m = M2.lookAt d up ∧ m.z = ⟨0, 0, 1⟩ ∧ m.x.z = 0 ∧ m.y.z = 0 ∧
    m.transpose * m = M3.one ∧
    m.det = (if up.y * d.x ≤ up.x * d.y then -1 else 1) ∧
    m.x = (d * (1 / d.magnitude)).extend 0 ∧
    m.transformVector2 ⟨1, 0⟩ = d * (1 / d.magnitude) ∧
    V2.dot (m.transformVector2 ⟨0, 1⟩) d = 0 ∧
    V2.dot (m.transformVector2 ⟨0, 1⟩) (m.transformVector2 ⟨0, 1⟩) = 1 ∧
    0 ≤ V2.dot (m.transformVector2 ⟨0, 1⟩) up ∧
    (∀ v w : V2 ℝ, V2.dot (m.transformVector2 v) (m.transformVector2 w) = V2.dot v w) ∧
    (∀ p : P2 ℝ, m.transformPoint2 p = P2.fromVec (M2.lookAt d up * p.toVec)) ∧
    (∀ p : P2 ℝ, m.transformPoint2 p = P2.origin ↔ p = P2.origin) := by
  intro m
  obtain ⟨e1, e2, e3, e4, e5, e6, e7, e8⟩ := toM3_embed (M2.lookAt d up)
  obtain ⟨s1, s2, s3, s4, s5⟩ := lookAt2_spec d up hd
  obtain ⟨t1, t2, _, _⟩ := lookAt2_det d up hd
  obtain ⟨_, _, hm0⟩ := normalize_unit2 d hd
  set L := M2.lookAt d up with hL
  have hcol1 : L * (⟨1, 0⟩ : V2 ℝ) = L.x := by ext <;> simp
  have hcol2 : L * (⟨0, 1⟩ : V2 ℝ) = L.y := by ext <;> simp
  have hdot : ∀ v w : V2 ℝ, V2.dot (m.transformVector2 v) (m.transformVector2 w) = V2.dot v w := by
    intro v w
    show V2.dot (L.toM3.transformVector2 v) (L.toM3.transformVector2 w) = _
    rw [e7, e7]; exact orth2_dot L t1 v w
  refine ⟨e1, e2, e3, e4, ?_, ?_, ?_, ?_, ?_, ?_, ?_, hdot, e8, ?_⟩
  · show L.toM3.transpose * L.toM3 = _
    rw [e6, t1, one_toM3]
  · show L.toM3.det = _
    rw [e5, t2]
  · show L.toM3.x = _
    have : L.toM3.x = L.x.extend 0 := rfl
    rw [this, s1]
  · show L.toM3.transformVector2 _ = _
    rw [e7, hcol1, s1]
  · show V2.dot (L.toM3.transformVector2 _) d = 0
    rw [e7, hcol2]
    -- d = |d| * first column, and the columns are perpendicular
    have hdx : d = L.x * d.magnitude := by
      rw [s1]; have hne : d.magnitude ≠ 0 := hm0.ne'
      ext <;> simp only [V2.mul_def] <;> field_simp
    have e : V2.dot L.y d = V2.dot L.x L.y * d.magnitude := by
      conv_lhs => rw [hdx]
      simp; ring
    rw [e, s4, zero_mul]
  · show V2.dot (L.toM3.transformVector2 _) (L.toM3.transformVector2 _) = 1
    rw [e7, hcol2]; exact s3
  · show 0 ≤ V2.dot (L.toM3.transformVector2 _) up
    rw [e7, hcol2]; exact s5
  · intro p
    constructor
    · intro h
      -- |m p|² = |p|²
      have hp := hdot p.toVec p.toVec
      have h0 : m.transformVector2 p.toVec = ⟨0, 0⟩ := by
        have h' : L.toM3.transformPoint2 p = P2.origin := h
        rw [e8] at h'
        show L.toM3.transformVector2 p.toVec = _
        rw [e7]
        have hx := congrArg P2.x h'
        have hy := congrArg P2.y h'
        simp only [P2.fromVec, P2.origin] at hx hy
        ext
        · exact hx
        · exact hy
      rw [h0] at hp
      have hz : p.toVec.magnitude2 = 0 := by
        show V2.dot p.toVec p.toVec = 0
        rw [← hp]; simp
      have := magnitude2_eq_zero2 p.toVec hz
      have hx := congrArg V2.x this
      have hy := congrArg V2.y this
      simp only [P2.toVec] at hx hy
      ext
      · exact hx
      · exact hy
    · rintro rfl
      show L.toM3.transformPoint2 P2.origin = P2.origin
      rw [e8]; ext <;> simp [P2.origin, P2.toVec, P2.fromVec]

/-- **`Matrix3::look_at` / `look_at_lh` on `Point2`** (centre ≠ eye): the embedded 2-D look-at of the
direction `center - eye`; in particular `x̂` goes to the unit vector pointing from the eye to the centre -/
theorem lookAt2Lh_spec (eye center : P2 ℝ) (up : V2 ℝ) (hd : 0 < (center - eye : V2 ℝ).magnitude2) :
    let d : V2 ℝ := center - eye
    let m := M3.lookAt2Lh eye center up
    block2 m = M2.lookAt d up ∧ m.z = ⟨0, 0, 1⟩ ∧ m.x.z = 0 ∧ m.y.z = 0 ∧
    m.transpose * m = M3.one ∧
    m.det = (if up.y * d.x ≤ up.x * d.y then -1 else 1) ∧
    m.x = (d * (1 / d.magnitude)).extend 0 ∧
    m.transformVector2 ⟨1, 0⟩ = d * (1 / d.magnitude) ∧
    V2.dot (m.transformVector2 ⟨0, 1⟩) d = 0 ∧
    V2.dot (m.transformVector2 ⟨0, 1⟩) (m.transformVector2 ⟨0, 1⟩) = 1 ∧
    0 ≤ V2.dot (m.transformVector2 ⟨0, 1⟩) up ∧
    (∀ v w : V2 ℝ, V2.dot (m.transformVector2 v) (m.transformVector2 w) = V2.dot v w) ∧
    (∀ p : P2 ℝ, m.transformPoint2 p = P2.fromVec (M2.lookAt d up * p.toVec)) ∧
    (∀ p : P2 ℝ, m.transformPoint2 p = P2.origin ↔ p = P2.origin) :=
  lookAt2_embed_spec (center - eye) up hd

/-- **`Matrix3::look_at_rh` on `Point2`**: the same with the direction `eye - center`: `x̂` goes to the unit
vector pointing from the centre back to the eye -/
theorem lookAt2Rh_spec (eye center : P2 ℝ) (up : V2 ℝ) (hd : 0 < (center - eye : V2 ℝ).magnitude2) :
    let d : V2 ℝ := eye - center
    let m := M3.lookAt2Rh eye center up
    block2 m = M2.lookAt d up ∧ m.z = ⟨0, 0, 1⟩ ∧ m.x.z = 0 ∧ m.y.z = 0 ∧
    m.transpose * m = M3.one ∧
    m.det = (if up.y * d.x ≤ up.x * d.y then -1 else 1) ∧
    m.x = (d * (1 / d.magnitude)).extend 0 ∧
    m.transformVector2 ⟨1, 0⟩ = d * (1 / d.magnitude) ∧
    V2.dot (m.transformVector2 ⟨0, 1⟩) d = 0 ∧
    V2.dot (m.transformVector2 ⟨0, 1⟩) (m.transformVector2 ⟨0, 1⟩) = 1 ∧
    0 ≤ V2.dot (m.transformVector2 ⟨0, 1⟩) up ∧
    (∀ v w : V2 ℝ, V2.dot (m.transformVector2 v) (m.transformVector2 w) = V2.dot v w) ∧
    (∀ p : P2 ℝ, m.transformPoint2 p = P2.fromVec (M2.lookAt d up * p.toVec)) ∧
    (∀ p : P2 ℝ, m.transformPoint2 p = P2.origin ↔ p = P2.origin) := by
  have hd' : 0 < (eye - center : V2 ℝ).magnitude2 := by
    have e : (eye - center : V2 ℝ).magnitude2 = (center - eye : V2 ℝ).magnitude2 := by simp; ring
    rw [e]; exact hd
  exact lookAt2_embed_spec (eye - center) up hd'

/-- the eye is NOT sent to the origin (contrast `Matrix4::look_at_*`, `lookAtRh_spec`): the transformed
eye is the origin only when the eye already is -/
theorem lookAt2_eye (eye center : P2 ℝ) (up : V2 ℝ) (hd : 0 < (center - eye : V2 ℝ).magnitude2) :
    ((M3.lookAt2Lh eye center up).transformPoint2 eye = P2.origin ↔ eye = P2.origin) ∧
    ((M3.lookAt2Rh eye center up).transformPoint2 eye = P2.origin ↔ eye = P2.origin) :=
  ⟨(lookAt2Lh_spec eye center up hd).2.2.2.2.2.2.2.2.2.2.2.2.2 eye,
   (lookAt2Rh_spec eye center up hd).2.2.2.2.2.2.2.2.2.2.2.2.2 eye⟩

/-- 2-D `normalize` commutes with negation -/
theorem normalize_neg2 (v : V2 ℝ) : (-v).normalize = -v.normalize := by
  have hm : (-v).magnitude = v.magnitude := by
    have : (-v).magnitude2 = v.magnitude2 := by simp
    simp only [V2.magnitude, this]
  show (-v) * (1 / (-v).magnitude) = -(v * (1 / v.magnitude))
  rw [hm]
  ext <;> simp

/-- embedding two 2x2 matrices that differ in the sign of the first column -/
theorem toM3_cols (A B : M2 ℝ) (h1 : A.x = -B.x) (h2 : A.y = B.y) :
    A.toM3.x = -B.toM3.x ∧ A.toM3.y = B.toM3.y ∧ A.toM3.z = B.toM3.z ∧ A.toM3.det = -B.toM3.det := by
  obtain ⟨⟨a, b⟩, ⟨c, d⟩⟩ := A
  obtain ⟨⟨a', b'⟩, ⟨c', d'⟩⟩ := B
  simp only [V2.neg_def, V2.mk.injEq] at h1 h2
  obtain ⟨rfl, rfl⟩ := h1
  obtain ⟨rfl, rfl⟩ := h2
  refine ⟨?_, ?_, rfl, ?_⟩
  · ext <;> simp [M2.toM3, M3.new]
  · ext <;> simp [M2.toM3, M3.new]
  · simp [M2.toM3, M3.new, M3.det]; ring

/-- **`_rh` versus `_lh`**: when `up` is not collinear with the direction, `look_at_rh` and `look_at_lh`
differ exactly in the sign of the first column (the image of `x̂`); the second column (the image of `ŷ`,
on the side of `up`) is the same.  So exactly one of the two is a rotation, the other a reflection. -/
theorem lookAt2_rh_vs_lh (eye center : P2 ℝ) (up : V2 ℝ)
    (hup : up.y * (center - eye : V2 ℝ).x ≠ up.x * (center - eye : V2 ℝ).y) :
    (M3.lookAt2Rh eye center up).x = -(M3.lookAt2Lh eye center up).x ∧
    (M3.lookAt2Rh eye center up).y = (M3.lookAt2Lh eye center up).y ∧
    (M3.lookAt2Rh eye center up).z = (M3.lookAt2Lh eye center up).z ∧
    (M3.lookAt2Rh eye center up).det = -(M3.lookAt2Lh eye center up).det := by
  set d : V2 ℝ := center - eye with hd
  have hneg : (eye - center : V2 ℝ) = -d := by rw [hd]; ext <;> simp
  have hR : M3.lookAt2Rh eye center up = (M2.lookAt (-d) up).toM3 := by
    show (M2.lookAt (eye - center) up).toM3 = _
    rw [hneg]
  have hLh : M3.lookAt2Lh eye center up = (M2.lookAt d up).toM3 := rfl
  have hn := normalize_neg2 d
  have key : (M2.lookAt (-d) up).x = -(M2.lookAt d up).x ∧ (M2.lookAt (-d) up).y = (M2.lookAt d up).y := by
    rcases lt_or_gt_of_ne hup with h | h
    · -- flip for `d`, no flip for `-d`
      have f1 : up.y * d.x ≤ up.x * d.y := h.le
      have f2 : ¬ (up.y * (-d).x ≤ up.x * (-d).y) := by
        simp only [V2.neg_def]; intro hc; linarith
      have a : M2.lookAt d up = ⟨d.normalize, ⟨d.normalize.y, -d.normalize.x⟩⟩ := by
        unfold M2.lookAt M2.lookAtStable; simp only [f1, decide_true, if_true]
      have b : M2.lookAt (-d) up = ⟨(-d).normalize, ⟨-(-d).normalize.y, (-d).normalize.x⟩⟩ := by
        unfold M2.lookAt M2.lookAtStable; simp only [f2, decide_false]; rfl
      rw [a, b, hn]
      constructor
      · rfl
      · ext <;> simp
    · have f1 : ¬ (up.y * d.x ≤ up.x * d.y) := not_le.mpr h
      have f2 : up.y * (-d).x ≤ up.x * (-d).y := by
        simp only [V2.neg_def]; linarith
      have a : M2.lookAt d up = ⟨d.normalize, ⟨-d.normalize.y, d.normalize.x⟩⟩ := by
        unfold M2.lookAt M2.lookAtStable; simp only [f1, decide_false]; rfl
      have b : M2.lookAt (-d) up = ⟨(-d).normalize, ⟨(-d).normalize.y, -(-d).normalize.x⟩⟩ := by
        unfold M2.lookAt M2.lookAtStable; simp only [f2, decide_true, if_true]
      rw [a, b, hn]
      constructor
      · rfl
      · ext <;> simp
  obtain ⟨k1, k2⟩ := key
  rw [hR, hLh]
  exact toM3_cols _ _ k1 k2

/-- the remaining (collinear) case: when `up` is collinear with the direction both entry points take the
`flip` branch, and the 2x2 block of `look_at_rh` is the negative of that of `look_at_lh` (both reflections) -/
theorem lookAt2_rh_vs_lh_collinear (eye center : P2 ℝ) (up : V2 ℝ)
    (hup : up.y * (center - eye : V2 ℝ).x = up.x * (center - eye : V2 ℝ).y) :
    block2 (M3.lookAt2Rh eye center up) = -block2 (M3.lookAt2Lh eye center up) := by
  set d : V2 ℝ := center - eye with hd
  have hneg : (eye - center : V2 ℝ) = -d := by rw [hd]; ext <;> simp
  show M2.lookAt (eye - center) up = -M2.lookAt d up
  rw [hneg]
  have f1 : up.y * d.x ≤ up.x * d.y := hup.le
  have f2 : up.y * (-d).x ≤ up.x * (-d).y := by simp only [V2.neg_def]; linarith
  have a : M2.lookAt d up = ⟨d.normalize, ⟨d.normalize.y, -d.normalize.x⟩⟩ := by
    unfold M2.lookAt M2.lookAtStable; simp only [f1, decide_true, if_true]
  have b : M2.lookAt (-d) up = ⟨(-d).normalize, ⟨(-d).normalize.y, -(-d).normalize.x⟩⟩ := by
    unfold M2.lookAt M2.lookAtStable; simp only [f2, decide_true, if_true]
  rw [a, b, normalize_neg2 d]
  rfl

/-- non-vacuity: eye `(1,1)`, centre `(4,5)` (direction `(3,4)`, length `5`), `up = ŷ`:
the hypotheses hold and `x̂ ↦ (3/5, 4/5)` -/
example : let eye : P2 ℝ := ⟨1, 1⟩; let center : P2 ℝ := ⟨4, 5⟩; let up : V2 ℝ := ⟨0, 1⟩
    0 < (center - eye : V2 ℝ).magnitude2 ∧
    up.y * (center - eye : V2 ℝ).x ≠ up.x * (center - eye : V2 ℝ).y ∧
    (M3.lookAt2Lh eye center up).transformVector2 ⟨1, 0⟩ = ⟨3 / 5, 4 / 5⟩ := by
  intro eye center up
  have hdv : (center - eye : V2 ℝ) = ⟨3, 4⟩ := by ext <;> simp [center, eye] <;> norm_num
  have hm2 : (center - eye : V2 ℝ).magnitude2 = 25 := by rw [hdv]; simp; norm_num
  have hpos : 0 < (center - eye : V2 ℝ).magnitude2 := by rw [hm2]; norm_num
  refine ⟨hpos, by rw [hdv]; simp [up], ?_⟩
  have h := (lookAt2Lh_spec eye center up hpos).2.2.2.2.2.2.2.1
  rw [h]
  have hmag : (center - eye : V2 ℝ).magnitude = 5 := by
    simp only [V2.magnitude, transc_sqrt, hm2]
    rw [show (25 : ℝ) = 5 ^ 2 by norm_num]; exact Real.sqrt_sq (by norm_num)
  rw [hmag, hdv]; ext <;> simp <;> norm_num

/-! ## 3. `look_at(eye, eye + d, up) = look_to(eye, d, up)` -/

section exact
variable {K : Type} [CommRing K]
/-- point + vector - point, over any commutative ring -/
theorem P3.add_sub_cancel (eye : P3 K) (d : V3 K) : ((eye + d) - eye : V3 K) = d := by
  ext <;> simp
theorem P2.add_sub_cancel (eye : P2 K) (d : V2 K) : ((eye + d) - eye : V2 K) = d := by
  ext <;> simp
theorem P2.sub_add_cancel (eye : P2 K) (d : V2 K) : (eye - (eye + d) : V2 K) = -d := by
  ext <;> simp
theorem P3.sub_add_cancel (eye : P3 K) (d : V3 K) : (eye - (eye + d) : V3 K) = -d := by
  ext <;> simp
end exact

/-- **`look_at_*(eye, eye + d, up) = look_to_*(eye, d, up)`** for `Matrix4` (right- and left-handed; the
deprecated `Matrix4::look_at` and `Transform<Point3>::look_at` for `Matrix4` are `look_at_rh`) and for
`Matrix3: Transform<Point3>` (`look_at` = `look_at_lh`, `look_at_rh`); conversely every `look_to` is the
`look_at` of the centre `eye + d` -/
theorem lookAt_eye_add (eye : P3 ℝ) (d up : V3 ℝ) :
    M4.lookAtRh eye (eye + d) up = M4.lookToRh eye d up ∧
    M4.lookAtLh eye (eye + d) up = M4.lookToLh eye d up ∧
    M3.lookAtRh eye (eye + d) up = M3.lookToRh d up ∧
    M3.lookAtLh eye (eye + d) up = M3.lookToLh d up := by
  have e := P3.add_sub_cancel eye d
  obtain ⟨h1, h2, h3, h4⟩ := lookAt_eq_lookTo eye (eye + d) up
  rw [h1, h2, h3, h4, e]
  exact ⟨rfl, rfl, rfl, rfl⟩

/-- the 2-D entry points at `center = eye + d`: `look_at`/`look_at_lh` is the embedded `Matrix2::look_at(d, up)`,
`look_at_rh` the embedded `Matrix2::look_at(-d, up)` (their "look_to" forms: the eye drops out) -/
theorem lookAt2_eye_add (eye : P2 ℝ) (d up : V2 ℝ) :
    M3.lookAt2Lh eye (eye + d) up = (M2.lookAt d up).toM3 ∧
    M3.lookAt2Rh eye (eye + d) up = (M2.lookAt (-d) up).toM3 ∧
    M3.lookAt2Rh (eye + d) eye up = (M2.lookAt d up).toM3 := by
  refine ⟨?_, ?_, ?_⟩
  · show (M2.lookAt ((eye + d) - eye) up).toM3 = _
    rw [P2.add_sub_cancel]
  · show (M2.lookAt (eye - (eye + d)) up).toM3 = _
    rw [P2.sub_add_cancel]
  · show (M2.lookAt ((eye + d) - eye) up).toM3 = _
    rw [P2.add_sub_cancel]

/-- the `Decomposed` entry points (`look_at`/`look_at_lh`: direction `center - eye`; `look_at_rh`:
`eye - center`) at `center = eye + d`, for any rotation type: the rotation part is `R::look_at(d, up)`
(resp. `R::look_at(-d, up)`) -/
theorem decomposed_lookAt_eye_add {R M : Type} (ρ : RotOps R (V3 ℝ) M) (eye : P3 ℝ) (d up : V3 ℝ) :
    Decomposed.lookAtDir ρ ((eye + d) - eye) up V3.zero eye.toVec
      = (Decomposed.lookAtDir ρ d up V3.zero eye.toVec : Decomposed R (V3 ℝ) ℝ) ∧
    Decomposed.lookAtDir ρ (eye - (eye + d)) up V3.zero eye.toVec
      = (Decomposed.lookAtDir ρ (-d) up V3.zero eye.toVec : Decomposed R (V3 ℝ) ℝ) := by
  rw [P3.add_sub_cancel, P3.sub_add_cancel]
  exact ⟨rfl, rfl⟩

/-- consequence: the `look_to` specs transfer to `look_at` at `eye + d` — the right-handed `Matrix4` view
matrix for the centre `eye + d` sends the eye to the origin and `d` to `(0, 0, -|d|)` -/
theorem lookAtRh_eye_add_spec (eye : P3 ℝ) (d up : V3 ℝ) (hd : 0 < d.magnitude2)
    (hup : 0 < (V3.cross d.normalize up).magnitude2) :
    (M4.lookAtRh eye (eye + d) up).transformPoint eye = P3.origin ∧
    (M4.lookAtRh eye (eye + d) up).transformVector d = ⟨0, 0, -d.magnitude⟩ := by
  rw [(lookAt_eye_add eye d up).1]
  obtain ⟨_, _, _, h4, h5, _⟩ := lookToRh_spec eye d up hd hup
  exact ⟨h4, h5⟩

example : ((⟨1, 2, 3⟩ : P3 ℝ) + (⟨1, 0, 0⟩ : V3 ℝ) : P3 ℝ) = ⟨2, 2, 3⟩ ∧
    M4.lookAtRh (⟨1, 2, 3⟩ : P3 ℝ) ⟨2, 2, 3⟩ ⟨0, 1, 0⟩ = M4.lookToRh ⟨1, 2, 3⟩ ⟨1, 0, 0⟩ ⟨0, 1, 0⟩ := by
  have e : ((⟨1, 2, 3⟩ : P3 ℝ) + (⟨1, 0, 0⟩ : V3 ℝ) : P3 ℝ) = ⟨2, 2, 3⟩ := by
    ext <;> simp <;> norm_num
  refine ⟨e, ?_⟩
  rw [← e]; exact (lookAt_eye_add _ _ _).1

end Cg.C09
