import Cgm.Lemmas.MatBridge
/-!
# C01 — column-major, column-vector convention; constructors; ring action

Theorems about `Cgm/Model/Mat.lean` over a commutative ring `K` (no division needed).
`toMatrix`/`toFun` are the bridges to Mathlib's `Matrix (Fin n) (Fin n) K` / `Fin n → K`
(`toMatrix m i j` is row `i`, column `j`).
-/
set_option linter.unusedSectionVars false
namespace Cg.C01
open Cg Matrix
variable {K : Type} [CommRing K]

/-! ## layout: element (column c, row r) is the r-th component of the c-th column given to `new` -/
theorem M2.new_layout (a b c d : K) :
    (M2.new a b c d).x = ⟨a, b⟩ ∧ (M2.new a b c d).y = ⟨c, d⟩ ∧
    (M2.new a b c d).toList = [a, b, c, d] := ⟨rfl, rfl, rfl⟩
theorem M3.new_layout (a b c d e f g h i : K) :
    (M3.new a b c d e f g h i).x = ⟨a, b, c⟩ ∧ (M3.new a b c d e f g h i).y = ⟨d, e, f⟩ ∧
    (M3.new a b c d e f g h i).z = ⟨g, h, i⟩ ∧
    (M3.new a b c d e f g h i).toList = [a, b, c, d, e, f, g, h, i] := ⟨rfl, rfl, rfl, rfl⟩
theorem M4.new_layout (a b c d e f g h i j k l m n o p : K) :
    (M4.new a b c d e f g h i j k l m n o p).x = ⟨a, b, c, d⟩ ∧
    (M4.new a b c d e f g h i j k l m n o p).y = ⟨e, f, g, h⟩ ∧
    (M4.new a b c d e f g h i j k l m n o p).z = ⟨i, j, k, l⟩ ∧
    (M4.new a b c d e f g h i j k l m n o p).w = ⟨m, n, o, p⟩ ∧
    (M4.new a b c d e f g h i j k l m n o p).toList = [a, b, c, d, e, f, g, h, i, j, k, l, m, n, o, p] :=
  ⟨rfl, rfl, rfl, rfl, rfl⟩
/-- `m[c][r]` is entry `n*c + r` of the flat column-major list, and the bridge's `(r, c)` entry -/
theorem M2.get_layout (m : M2 K) (c r : Fin 2) :
    m.get? c r = m.toList[2 * c.val + r.val]? ∧ m.get? c r = some (m.toMatrix r c) := by
  fin_cases c <;> fin_cases r <;> simp [M2.get?, M2.col?, M2.cols, V2.get?, V2.toList, M2.toList, M2.toMatrix]
theorem M3.get_layout (m : M3 K) (c r : Fin 3) :
    m.get? c r = m.toList[3 * c.val + r.val]? ∧ m.get? c r = some (m.toMatrix r c) := by
  fin_cases c <;> fin_cases r <;> simp [M3.get?, M3.col?, M3.cols, V3.get?, V3.toList, M3.toList, M3.toMatrix]
theorem M4.get_layout (m : M4 K) (c r : Fin 4) :
    m.get? c r = m.toList[4 * c.val + r.val]? ∧ m.get? c r = some (m.toMatrix r c) := by
  fin_cases c <;> fin_cases r <;> simp [M4.get?, M4.col?, M4.cols, V4.get?, V4.toList, M4.toList, M4.toMatrix]
/-- out-of-range column or row index panics -/
theorem M4.get_oob (m : M4 K) (c r : Nat) (h : 4 ≤ c ∨ 4 ≤ r) : m.get? c r = none := by
  rcases h with h | h
  · have : m.col? c = none := by simp [M4.col?, M4.cols]; omega
    simp [M4.get?, this]
  · unfold M4.get?
    cases hc : m.col? c with
    | none => rfl
    | some v => simp [V4.get?, V4.toList]; omega

/-! ## `A * v = Σ_c v[c] • column c`; column c of `A * B` is `A * (column c of B)` -/
theorem M2.mulVec_eq_sum_cols (m : M2 K) (v : V2 K) : m * v = m.x * v.x + m.y * v.y := by cg_ring
theorem M3.mulVec_eq_sum_cols (m : M3 K) (v : V3 K) :
    m * v = m.x * v.x + m.y * v.y + m.z * v.z := by cg_ring
theorem M4.mulVec_eq_sum_cols (m : M4 K) (v : V4 K) :
    m * v = m.x * v.x + m.y * v.y + m.z * v.z + m.w * v.w := by cg_ring
theorem M2.mul_col (a b : M2 K) : (a * b).x = a * b.x ∧ (a * b).y = a * b.y := by
  constructor <;> cg_ring
theorem M3.mul_col (a b : M3 K) : (a * b).x = a * b.x ∧ (a * b).y = a * b.y ∧ (a * b).z = a * b.z := by
  refine ⟨?_, ?_, ?_⟩ <;> cg_ring
theorem M4.mul_col (a b : M4 K) :
    (a * b).x = a * b.x ∧ (a * b).y = a * b.y ∧ (a * b).z = a * b.z ∧ (a * b).w = a * b.w := by
  refine ⟨?_, ?_, ?_, ?_⟩ <;> cg_ring
/-- the products are Mathlib's matrix product / `mulVec` through the bridge -/
theorem M2.bridge (a b : M2 K) (v : V2 K) :
    (a * b).toMatrix = a.toMatrix * b.toMatrix ∧ (a * v).toFun = a.toMatrix *ᵥ v.toFun :=
  ⟨M2.toMatrix_mul a b, M2.toFun_mulVec a v⟩
theorem M3.bridge (a b : M3 K) (v : V3 K) :
    (a * b).toMatrix = a.toMatrix * b.toMatrix ∧ (a * v).toFun = a.toMatrix *ᵥ v.toFun :=
  ⟨M3.toMatrix_mul a b, M3.toFun_mulVec a v⟩
theorem M4.bridge (a b : M4 K) (v : V4 K) :
    (a * b).toMatrix = a.toMatrix * b.toMatrix ∧ (a * v).toFun = a.toMatrix *ᵥ v.toFun :=
  ⟨M4.toMatrix_mul a b, M4.toFun_mulVec a v⟩

/-! ## row / transpose / diagonal / trace -/
theorem M2.row_get (m : M2 K) (r : Fin 2) :
    (m.row? r).map V2.toFun = some (fun c => m.toMatrix r c) := by
  fin_cases r <;> simp [M2.row?, V2.get?, V2.toList, V2.toFun, M2.toMatrix] <;> (funext c; fin_cases c <;> rfl)
theorem M3.row_get (m : M3 K) (r : Fin 3) :
    (m.row? r).map V3.toFun = some (fun c => m.toMatrix r c) := by
  fin_cases r <;> simp [M3.row?, V3.get?, V3.toList, V3.toFun, M3.toMatrix] <;> (funext c; fin_cases c <;> rfl)
theorem M4.row_get (m : M4 K) (r : Fin 4) :
    (m.row? r).map V4.toFun = some (fun c => m.toMatrix r c) := by
  fin_cases r <;> simp [M4.row?, V4.get?, V4.toList, V4.toFun, M4.toMatrix] <;> (funext c; fin_cases c <;> rfl)
theorem M4.row_oob (m : M4 K) (r : Nat) (h : 4 ≤ r) : m.row? r = none := by
  have : ∀ v : V4 K, v.get? r = none := by intro v; simp [V4.get?, V4.toList]; omega
  simp [M4.row?, this]
theorem M2.transpose_get (m : M2 K) (i j : Fin 2) : m.transpose.toMatrix i j = m.toMatrix j i := by
  rw [M2.toMatrix_transpose]; rfl
theorem M3.transpose_get (m : M3 K) (i j : Fin 3) : m.transpose.toMatrix i j = m.toMatrix j i := by
  rw [M3.toMatrix_transpose]; rfl
theorem M4.transpose_get (m : M4 K) (i j : Fin 4) : m.transpose.toMatrix i j = m.toMatrix j i := by
  rw [M4.toMatrix_transpose]; rfl
theorem M2.diagonal_get (m : M2 K) : m.diagonal.toFun = Matrix.diag m.toMatrix := by
  funext i; fin_cases i <;> rfl
theorem M3.diagonal_get (m : M3 K) : m.diagonal.toFun = Matrix.diag m.toMatrix := by
  funext i; fin_cases i <;> rfl
theorem M4.diagonal_get (m : M4 K) : m.diagonal.toFun = Matrix.diag m.toMatrix := by
  funext i; fin_cases i <;> rfl
theorem M2.trace_eq (m : M2 K) : m.trace = m.x.x + m.y.y ∧ m.trace = Matrix.trace m.toMatrix := by
  constructor <;> simp [Matrix.trace, Fin.sum_univ_succ, M2.toMatrix]
theorem M3.trace_eq (m : M3 K) :
    m.trace = m.x.x + m.y.y + m.z.z ∧ m.trace = Matrix.trace m.toMatrix := by
  constructor <;> simp [Matrix.trace, Fin.sum_univ_succ, M3.toMatrix] <;> ring
theorem M4.trace_eq (m : M4 K) :
    m.trace = m.x.x + m.y.y + m.z.z + m.w.w ∧ m.trace = Matrix.trace m.toMatrix := by
  constructor <;> simp [Matrix.trace, Fin.sum_univ_succ, M4.toMatrix] <;> ring

/-! ## embeddings of a smaller matrix into a larger identity -/
theorem M2.toM3_spec (m : M2 K) :
    m.toM3.x = m.x.extend 0 ∧ m.toM3.y = m.y.extend 0 ∧ m.toM3.z = V3.unitZ := ⟨rfl, rfl, rfl⟩
theorem M2.toM4_spec (m : M2 K) :
    m.toM4.x = (m.x.extend 0).extend 0 ∧ m.toM4.y = (m.y.extend 0).extend 0 ∧
    m.toM4.z = V4.unitZ ∧ m.toM4.w = V4.unitW := ⟨rfl, rfl, rfl, rfl⟩
theorem M3.toM4_spec (m : M3 K) :
    m.toM4.x = m.x.extend 0 ∧ m.toM4.y = m.y.extend 0 ∧ m.toM4.z = m.z.extend 0 ∧
    m.toM4.w = V4.unitW := ⟨rfl, rfl, rfl, rfl⟩
/-- the embeddings are ring homomorphisms (products are preserved) -/
theorem embed_mul (a b : M2 K) (c d : M3 K) :
    (a * b).toM3 = a.toM3 * b.toM3 ∧ (a * b).toM4 = a.toM4 * b.toM4 ∧
    (c * d).toM4 = c.toM4 * d.toM4 := by
  refine ⟨?_, ?_, ?_⟩ <;> cg_ring

/-! ## constructors: the matrices whose action is scaling / displacement -/
theorem M2.fromValue_spec (s : K) (d v : V2 K) :
    (M2.fromValue s).toMatrix = Matrix.diagonal (fun _ => s) ∧
    (M2.fromDiagonal d).toMatrix = Matrix.diagonal d.toFun ∧
    M2.fromValue s * v = v * s ∧ M2.fromDiagonal d * v = V2.mulEw d v ∧ (M2.one : M2 K) * v = v := by
  refine ⟨?_, ?_, ?_, ?_, ?_⟩
  · ext i j; fin_cases i <;> fin_cases j <;> simp [M2.toMatrix]
  · ext i j; fin_cases i <;> fin_cases j <;> simp [M2.toMatrix, V2.toFun]
  all_goals cg_ring
theorem M3.fromValue_spec (s : K) (d v : V3 K) :
    (M3.fromValue s).toMatrix = Matrix.diagonal (fun _ => s) ∧
    (M3.fromDiagonal d).toMatrix = Matrix.diagonal d.toFun ∧
    M3.fromValue s * v = v * s ∧ M3.fromDiagonal d * v = V3.mulEw d v ∧ (M3.one : M3 K) * v = v := by
  refine ⟨?_, ?_, ?_, ?_, ?_⟩
  · ext i j; fin_cases i <;> fin_cases j <;> simp [M3.toMatrix]
  · ext i j; fin_cases i <;> fin_cases j <;> simp [M3.toMatrix, V3.toFun]
  all_goals cg_ring
theorem M4.fromValue_spec (s : K) (d v : V4 K) :
    (M4.fromValue s).toMatrix = Matrix.diagonal (fun _ => s) ∧
    (M4.fromDiagonal d).toMatrix = Matrix.diagonal d.toFun ∧
    M4.fromValue s * v = v * s ∧ M4.fromDiagonal d * v = V4.mulEw d v ∧ (M4.one : M4 K) * v = v := by
  refine ⟨?_, ?_, ?_, ?_, ?_⟩
  · ext i j; fin_cases i <;> fin_cases j <;> simp [M4.toMatrix]
  · ext i j; fin_cases i <;> fin_cases j <;> simp [M4.toMatrix, V4.toFun]
  all_goals cg_ring

section field
variable {F : Type} [Field F]
/-- `from_scale` scales points and vectors; `from_translation` displaces points, not vectors -/
theorem M4.scale_translation (s x y z : F) (t : V3 F) (p : P3 F) (v : V3 F) :
    (M4.fromScale s).transformPoint p = p * s ∧ (M4.fromScale s).transformVector v = v * s ∧
    (M4.fromNonuniformScale x y z).transformPoint p = P3.mulEw ⟨x, y, z⟩ p ∧
    (M4.fromNonuniformScale x y z).transformVector v = V3.mulEw ⟨x, y, z⟩ v ∧
    (M4.fromTranslation t).transformPoint p = p + t ∧ (M4.fromTranslation t).transformVector v = v := by
  refine ⟨?_, ?_, ?_, ?_, ?_, ?_⟩ <;> cg_ring
theorem M3.scale_translation (s x y : F) (t : V2 F) (p : P2 F) (v : V2 F) :
    (M3.fromScale s).transformPoint2 p = p * s ∧ (M3.fromScale s).transformVector2 v = v * s ∧
    (M3.fromNonuniformScale x y).transformPoint2 p = P2.mulEw ⟨x, y⟩ p ∧
    (M3.fromNonuniformScale x y).transformVector2 v = V2.mulEw ⟨x, y⟩ v ∧
    (M3.fromTranslation t).transformPoint2 p = p + t ∧ (M3.fromTranslation t).transformVector2 v = v := by
  refine ⟨?_, ?_, ?_, ?_, ?_, ?_⟩ <;> cg_ring
/-- `Transform for Matrix3` over `Point3`: plain matrix action -/
theorem M3.transform3 (m : M3 F) (p : P3 F) (v : V3 F) :
    m.transformPoint p = P3.fromVec (m * p.toVec) ∧ m.transformVector v = m * v := ⟨rfl, rfl⟩
/-- matrices act on the vector part linearly and ignore displacement for vectors -/
theorem M4.transformVector_linear (m : M4 F) (u v : V3 F) (s : F) :
    m.transformVector (u + v) = m.transformVector u + m.transformVector v ∧
    m.transformVector (u * s) = m.transformVector u * s := by
  constructor <;> cg_ring
end field

/-! ## element-wise sum, difference, negation, scalar multiples (bridge to Mathlib) -/
theorem M2.elementwise (a b : M2 K) (s : K) :
    (a + b).toMatrix = a.toMatrix + b.toMatrix ∧ (a - b).toMatrix = a.toMatrix - b.toMatrix ∧
    (-a).toMatrix = -a.toMatrix ∧ (a * s).toMatrix = s • a.toMatrix ∧
    (M2.zero : M2 K).toMatrix = 0 ∧ (M2.one : M2 K).toMatrix = 1 :=
  ⟨M2.toMatrix_add a b, M2.toMatrix_sub a b, M2.toMatrix_neg a, M2.toMatrix_smul a s,
   M2.toMatrix_zero, M2.toMatrix_one⟩
theorem M3.elementwise (a b : M3 K) (s : K) :
    (a + b).toMatrix = a.toMatrix + b.toMatrix ∧ (a - b).toMatrix = a.toMatrix - b.toMatrix ∧
    (-a).toMatrix = -a.toMatrix ∧ (a * s).toMatrix = s • a.toMatrix ∧
    (M3.zero : M3 K).toMatrix = 0 ∧ (M3.one : M3 K).toMatrix = 1 :=
  ⟨M3.toMatrix_add a b, M3.toMatrix_sub a b, M3.toMatrix_neg a, M3.toMatrix_smul a s,
   M3.toMatrix_zero, M3.toMatrix_one⟩
theorem M4.elementwise (a b : M4 K) (s : K) :
    (a + b).toMatrix = a.toMatrix + b.toMatrix ∧ (a - b).toMatrix = a.toMatrix - b.toMatrix ∧
    (-a).toMatrix = -a.toMatrix ∧ (a * s).toMatrix = s • a.toMatrix ∧
    (M4.zero : M4 K).toMatrix = 0 ∧ (M4.one : M4 K).toMatrix = 1 :=
  ⟨M4.toMatrix_add a b, M4.toMatrix_sub a b, M4.toMatrix_neg a, M4.toMatrix_smul a s,
   M4.toMatrix_zero, M4.toMatrix_one⟩
theorem M4.div_eq {F : Type} [Field F] (a : M4 F) (s : F) : a / s = a * s⁻¹ := by cg_ring
theorem M3.div_eq {F : Type} [Field F] (a : M3 F) (s : F) : a / s = a * s⁻¹ := by cg_ring
theorem M2.div_eq {F : Type} [Field F] (a : M2 F) (s : F) : a / s = a * s⁻¹ := by cg_ring

/-! ## ring laws and linear action, transported from Mathlib through the bridge -/
theorem M2.ring_laws (a b c : M2 K) (u v : V2 K) (s : K) :
    (a * b) * c = a * (b * c) ∧ a * (b + c) = a * b + a * c ∧ (a + b) * c = a * c + b * c ∧
    M2.one * a = a ∧ a * M2.one = a ∧ (a * b) * v = a * (b * v) ∧
    a * (u + v) = a * u + a * v ∧ a * (v * s) = (a * v) * s := by
  refine ⟨?_, ?_, ?_, ?_, ?_, ?_, ?_, ?_⟩
  · apply M2.toMatrix_inj; simp only [M2.toMatrix_mul, Matrix.mul_assoc]
  · apply M2.toMatrix_inj; simp only [M2.toMatrix_mul, M2.toMatrix_add, Matrix.mul_add]
  · apply M2.toMatrix_inj; simp only [M2.toMatrix_mul, M2.toMatrix_add, Matrix.add_mul]
  · apply M2.toMatrix_inj; simp only [M2.toMatrix_mul, M2.toMatrix_one, Matrix.one_mul]
  · apply M2.toMatrix_inj; simp only [M2.toMatrix_mul, M2.toMatrix_one, Matrix.mul_one]
  · apply V2.toFun_inj; simp only [M2.toFun_mulVec, M2.toMatrix_mul, Matrix.mulVec_mulVec]
  all_goals cg_ring
theorem M3.ring_laws (a b c : M3 K) (u v : V3 K) (s : K) :
    (a * b) * c = a * (b * c) ∧ a * (b + c) = a * b + a * c ∧ (a + b) * c = a * c + b * c ∧
    M3.one * a = a ∧ a * M3.one = a ∧ (a * b) * v = a * (b * v) ∧
    a * (u + v) = a * u + a * v ∧ a * (v * s) = (a * v) * s := by
  refine ⟨?_, ?_, ?_, ?_, ?_, ?_, ?_, ?_⟩
  · apply M3.toMatrix_inj; simp only [M3.toMatrix_mul, Matrix.mul_assoc]
  · apply M3.toMatrix_inj; simp only [M3.toMatrix_mul, M3.toMatrix_add, Matrix.mul_add]
  · apply M3.toMatrix_inj; simp only [M3.toMatrix_mul, M3.toMatrix_add, Matrix.add_mul]
  · apply M3.toMatrix_inj; simp only [M3.toMatrix_mul, M3.toMatrix_one, Matrix.one_mul]
  · apply M3.toMatrix_inj; simp only [M3.toMatrix_mul, M3.toMatrix_one, Matrix.mul_one]
  · apply V3.toFun_inj; simp only [M3.toFun_mulVec, M3.toMatrix_mul, Matrix.mulVec_mulVec]
  all_goals cg_ring
theorem M4.ring_laws (a b c : M4 K) (u v : V4 K) (s : K) :
    (a * b) * c = a * (b * c) ∧ a * (b + c) = a * b + a * c ∧ (a + b) * c = a * c + b * c ∧
    M4.one * a = a ∧ a * M4.one = a ∧ (a * b) * v = a * (b * v) ∧
    a * (u + v) = a * u + a * v ∧ a * (v * s) = (a * v) * s := by
  refine ⟨?_, ?_, ?_, ?_, ?_, ?_, ?_, ?_⟩
  · apply M4.toMatrix_inj; simp only [M4.toMatrix_mul, Matrix.mul_assoc]
  · apply M4.toMatrix_inj; simp only [M4.toMatrix_mul, M4.toMatrix_add, Matrix.mul_add]
  · apply M4.toMatrix_inj; simp only [M4.toMatrix_mul, M4.toMatrix_add, Matrix.add_mul]
  · apply M4.toMatrix_inj; simp only [M4.toMatrix_mul, M4.toMatrix_one, Matrix.one_mul]
  · apply M4.toMatrix_inj; simp only [M4.toMatrix_mul, M4.toMatrix_one, Matrix.mul_one]
  · apply V4.toFun_inj; simp only [M4.toFun_mulVec, M4.toMatrix_mul, Matrix.mulVec_mulVec]
  all_goals cg_ring

/-- non-vacuity: a concrete product over ℤ -/
example : (M2.new 1 2 3 4 : M2 ℤ) * M2.new 5 6 7 8 = M2.new 23 34 31 46 := by decide

end Cg.C01
