import Cgm.Lemmas.RealInst
import Cgm.Props.C04
import Cgm.Props.C01
/-!
# C05 — Quaternion, Basis3, Matrix3, Matrix4 describe one and the same rotation
-/
set_option linter.unusedSectionVars false
namespace Cg.C05
open Cg
variable {K : Type} [CommRing K] {F : Type} [Field F]

/-- rotating by the converted matrix = rotating by the quaternion (every `q`, every `v`) -/
theorem toM3_mulVec (q : Quat K) (v : V3 K) : q.toM3 * v = q * v := by
  ext <;> simp <;> ring
theorem toM4_direction (q : Quat F) (v : V3 F) : q.toM4.transformVector v = q * v := by
  ext <;> simp <;> ring
theorem toM4_eq_embed (q : Quat K) : q.toM4 = q.toM3.toM4 := by
  ext <;> simp
theorem basis3_rotate (q : Quat K) (v : V3 K) :
    (Basis3.fromQuaternion q).rotateVector v = q * v ∧ (Basis3.fromQuaternion q).mat = q.toM3 := by
  refine ⟨?_, rfl⟩
  show q.toM3 * v = q * v
  exact toM3_mulVec q v

/-- the converted matrix of a unit quaternion is orthonormal with determinant `+1` -/
theorem toM3_orthonormal (q : Quat K) (hq : q.magnitude2 = 1) :
    q.toM3.transpose * q.toM3 = M3.one ∧ q.toM3 * q.toM3.transpose = M3.one ∧ q.toM3.det = 1 := by
  have h : q.s * q.s + (q.v.x * q.v.x + (q.v.y * q.v.y + q.v.z * q.v.z)) = 1 := by simpa using hq
  set w := q.s; set x := q.v.x; set y := q.v.y; set z := q.v.z
  refine ⟨?_, ?_, ?_⟩
  · ext <;> simp
    · linear_combination (4 * (y ^ 2 + z ^ 2)) * h
    · linear_combination (-4 * x * y) * h
    · linear_combination (-4 * x * z) * h
    · linear_combination (-4 * x * y) * h
    · linear_combination (4 * (x ^ 2 + z ^ 2)) * h
    · linear_combination (-4 * y * z) * h
    · linear_combination (-4 * x * z) * h
    · linear_combination (-4 * y * z) * h
    · linear_combination (4 * (x ^ 2 + y ^ 2)) * h
  · ext <;> simp
    · linear_combination (4 * (y ^ 2 + z ^ 2)) * h
    · linear_combination (-4 * x * y) * h
    · linear_combination (-4 * x * z) * h
    · linear_combination (-4 * x * y) * h
    · linear_combination (4 * (x ^ 2 + z ^ 2)) * h
    · linear_combination (-4 * y * z) * h
    · linear_combination (-4 * x * z) * h
    · linear_combination (-4 * y * z) * h
    · linear_combination (4 * (x ^ 2 + y ^ 2)) * h
  · simp
    linear_combination (4 * (x ^ 2 + y ^ 2 + z ^ 2)) * h

/-- a 3x3 matrix is determined by its action on vectors -/
theorem M3.ext_of_mulVec {a b : M3 K} (h : ∀ v : V3 K, a * v = b * v) : a = b := by
  have hx := h ⟨1, 0, 0⟩; have hy := h ⟨0, 1, 0⟩; have hz := h ⟨0, 0, 1⟩
  simp at hx hy hz
  obtain ⟨h1, h2, h3⟩ := hx; obtain ⟨h4, h5, h6⟩ := hy; obtain ⟨h7, h8, h9⟩ := hz
  ext <;> assumption

/-- conversion respects composition (unit `p`, `q`): Matrix3, Matrix4 and Basis3 -/
theorem toM3_mul (p q : Quat K) (hp : p.magnitude2 = 1) (hq : q.magnitude2 = 1) :
    (p * q).toM3 = p.toM3 * q.toM3 := by
  apply M3.ext_of_mulVec
  intro v
  have hl := (Cg.C01.M3.ring_laws p.toM3 q.toM3 q.toM3 v v 0).2.2.2.2.2.1
  rw [hl, toM3_mulVec, toM3_mulVec, toM3_mulVec]
  exact Cg.C04.mul_rotate p q hp hq v
theorem toM4_mul (p q : Quat K) (hp : p.magnitude2 = 1) (hq : q.magnitude2 = 1) :
    (p * q).toM4 = p.toM4 * q.toM4 := by
  rw [toM4_eq_embed, toM4_eq_embed, toM4_eq_embed, toM3_mul p q hp hq]
  exact (Cg.C01.embed_mul (M2.one) (M2.one) p.toM3 q.toM3).2.2
theorem basis3_mul (p q : Quat K) (hp : p.magnitude2 = 1) (hq : q.magnitude2 = 1) :
    Basis3.fromQuaternion (p * q) = (Basis3.fromQuaternion p).mul (Basis3.fromQuaternion q) := by
  show Basis3.mk (p * q).toM3 = Basis3.mk (p.toM3 * q.toM3)
  rw [toM3_mul p q hp hq]

/-! ## matrix → quaternion returns `q` or `-q`, in each of the four cases -/

/-- for a unit quaternion `q` over ℝ, `M3.toQuat` applied to the matrix of `q` returns `q` or `-q` (which of the two is not
stated here; the proof goes through the model's four cases with pivot `a` one of `w x y z`, `s = 2|a|`) -/
theorem toQuat_toM3 (q : Quat ℝ) (hq : q.magnitude2 = 1) :
    q.toM3.toQuat = q ∨ q.toM3.toQuat = -q := by
  have h : q.s * q.s + (q.v.x * q.v.x + (q.v.y * q.v.y + q.v.z * q.v.z)) = 1 := by simpa using hq
  obtain ⟨⟨x, y, z⟩, w⟩ := q
  simp only at h
  unfold M3.toQuat
  simp only [Quat.toM3, M3.new, M3.trace, M3.diagonal, V3.sum, half_eq, transc_sqrt, Quat.new, Quat.fromSv]
  have e0 : (1 : ℝ) + (1 - (y + y) * y - (z + z) * z + (1 - (x + x) * x - (z + z) * z + (1 - (x + x) * x - (y + y) * y))) = 4 * w ^ 2 := by
    linear_combination (-4) * h
  have ex : (1 - (y + y) * y - (z + z) * z - (1 - (x + x) * x - (z + z) * z) - (1 - (x + x) * x - (y + y) * y) + 1 : ℝ) = 4 * x ^ 2 := by ring
  have ey : (1 - (x + x) * x - (z + z) * z - (1 - (y + y) * y - (z + z) * z) - (1 - (x + x) * x - (y + y) * y) + 1 : ℝ) = 4 * y ^ 2 := by ring
  have ez : (1 - (x + x) * x - (y + y) * y - (1 - (y + y) * y - (z + z) * z) - (1 - (x + x) * x - (z + z) * z) + 1 : ℝ) = 4 * z ^ 2 := by ring
  split_ifs with ht hxx hyy
  · -- trace ≥ 0 : pivot w
    have hw : w ≠ 0 := by
      intro hw0; subst hw0
      have : (0:ℝ) ≤ 4 * (0:ℝ)^2 - 1 := by linarith [e0]
      norm_num at this
    rw [e0, sqrt_four_sq]
    rcases lt_or_gt_of_ne hw with hneg | hpos
    · right
      rw [abs_of_neg hneg]
      ext <;> ((try simp only [Quat.neg_def, Quat.fromSv, V3.neg_def]); field_simp; try ring)
    · left
      rw [abs_of_pos hpos]
      ext <;> ((try simp only [Quat.neg_def, Quat.fromSv, V3.neg_def]); field_simp; try ring)
  · -- x pivot
    have hx : x ≠ 0 := by
      intro hx0; subst hx0
      have := hxx.1; nlinarith [mul_self_nonneg y]
    rw [ex, sqrt_four_sq]
    rcases lt_or_gt_of_ne hx with hneg | hpos
    · right
      rw [abs_of_neg hneg]
      ext <;> ((try simp only [Quat.neg_def, Quat.fromSv, V3.neg_def]); field_simp; try ring)
    · left
      rw [abs_of_pos hpos]
      ext <;> ((try simp only [Quat.neg_def, Quat.fromSv, V3.neg_def]); field_simp; try ring)
  · -- y pivot
    have hy : y ≠ 0 := by
      intro hy0; subst hy0
      nlinarith [mul_self_nonneg z]
    rw [ey, sqrt_four_sq]
    rcases lt_or_gt_of_ne hy with hneg | hpos
    · right
      rw [abs_of_neg hneg]
      ext <;> ((try simp only [Quat.neg_def, Quat.fromSv, V3.neg_def]); field_simp; try ring)
    · left
      rw [abs_of_pos hpos]
      ext <;> ((try simp only [Quat.neg_def, Quat.fromSv, V3.neg_def]); field_simp; try ring)
  · -- z pivot
    have hz : z ≠ 0 := by
      intro hz0; subst hz0
      have hy0 : y = 0 := by
        by_contra hy
        have : 0 < y * y := mul_self_pos.mpr hy
        apply hyy; nlinarith
      subst hy0
      have hx0 : x = 0 := by
        by_contra hx
        have : 0 < x * x := mul_self_pos.mpr hx
        apply hxx; constructor <;> nlinarith
      subst hx0
      apply ht; nlinarith
    rw [ez, sqrt_four_sq]
    rcases lt_or_gt_of_ne hz with hneg | hpos
    · right
      rw [abs_of_neg hneg]
      ext <;> ((try simp only [Quat.neg_def, Quat.fromSv, V3.neg_def]); field_simp; try ring)
    · left
      rw [abs_of_pos hpos]
      ext <;> ((try simp only [Quat.neg_def, Quat.fromSv, V3.neg_def]); field_simp; try ring)

end Cg.C05
