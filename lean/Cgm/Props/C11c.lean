import Cgm.Props.C11b
/-!
# C11c — the 2-D signed angle is antisymmetric; `normalize` is a POSITIVE multiple

Third audit, C11 rows "2-D signed angle" (`angle(v, u) = −angle(u, v)` was missing:
`V2.angle_antisymm` of `Props/C11.lean` only relates `perp_dot`/`dot`) and "normalize"
("a positive multiple of `v`" was stated for `normalize_to` with `m > 0` only, under
`0 < magnitude2`; here for `normalize` itself, with the multiplier `1/‖v‖`, under `v ≠ 0`).
Over `ℝ` with `atan2 y x = arg (x + i y)` (`Cgm/Lemmas/RealInst.lean`).
-/
set_option linter.unusedSectionVars false
namespace Cg.C11
open Cg Real

/-! ## the 2-D signed angle under exchange of its arguments -/

/-- the angle from `v` to `u` is the argument of the complex conjugate of the number whose
argument is the angle from `u` to `v` -/
theorem V2.angle_swap_conj (u v : V2 ℝ) :
    V2.angle v u = Complex.arg ((starRingEnd ℂ) ⟨V2.dot u v, V2.perpDot u v⟩) := by
  have e1 : V2.perpDot v u = -V2.perpDot u v := (V2.angle_antisymm u v).1
  have e2 : V2.dot v u = V2.dot u v := (V2.angle_antisymm u v).2
  have e3 : (starRingEnd ℂ) (⟨V2.dot u v, V2.perpDot u v⟩ : ℂ)
      = ⟨V2.dot u v, -V2.perpDot u v⟩ := by
    apply Complex.ext <;> simp
  rw [e3]
  simp only [V2.angle, transc_atan2, e1, e2]

/-- the half turn is reached exactly when `v` is a negative multiple direction of `u`:
`perp_dot u v = 0` and `dot u v < 0` -/
theorem V2.angle_eq_pi_iff (u v : V2 ℝ) :
    V2.angle u v = π ↔ V2.perpDot u v = 0 ∧ V2.dot u v < 0 := by
  simp only [V2.angle, transc_atan2, Complex.arg_eq_pi_iff]
  exact and_comm

/-- exchange of the arguments, every case: the angle changes sign, except at the half turn
where both angles are `π` -/
theorem V2.angle_swap (u v : V2 ℝ) :
    V2.angle v u = if V2.angle u v = π then π else -V2.angle u v := by
  rw [V2.angle_swap_conj, Complex.arg_conj]
  rfl

/-- **antisymmetry away from the cut**: unless `perp_dot u v = 0 ∧ dot u v < 0` (the two vectors
point in exactly opposite directions), `angle(v, u) = −angle(u, v)` -/
theorem V2.angle_antisymm_off_cut (u v : V2 ℝ) (h : ¬ (V2.perpDot u v = 0 ∧ V2.dot u v < 0)) :
    V2.angle v u = -V2.angle u v := by
  have hne : V2.angle u v ≠ π := fun e => h ((V2.angle_eq_pi_iff u v).1 e)
  rw [V2.angle_swap, if_neg hne]

/-- **on the cut** both angles are `π` (so their sum is `2π`, not `0`) -/
theorem V2.angle_on_cut (u v : V2 ℝ) (h0 : V2.perpDot u v = 0) (hneg : V2.dot u v < 0) :
    V2.angle u v = π ∧ V2.angle v u = π := by
  have e : V2.angle u v = π := (V2.angle_eq_pi_iff u v).2 ⟨h0, hneg⟩
  refine ⟨e, ?_⟩
  rw [V2.angle_swap, if_pos e]

/-- the EXACT condition: antisymmetry holds if and only if the pair is off the cut -/
theorem V2.angle_antisymm_iff (u v : V2 ℝ) :
    V2.angle v u = -V2.angle u v ↔ ¬ (V2.perpDot u v = 0 ∧ V2.dot u v < 0) := by
  constructor
  · rintro h ⟨h0, hneg⟩
    obtain ⟨e1, e2⟩ := V2.angle_on_cut u v h0 hneg
    rw [e1, e2] at h
    have := Real.pi_pos
    linarith
  · exact V2.angle_antisymm_off_cut u v
/-- the same condition read on the other pair (the cut is symmetric) -/
theorem V2.cut_symm (u v : V2 ℝ) :
    (V2.perpDot v u = 0 ∧ V2.dot v u < 0) ↔ (V2.perpDot u v = 0 ∧ V2.dot u v < 0) := by
  rw [(V2.angle_antisymm u v).1, (V2.angle_antisymm u v).2, neg_eq_zero]
/-- in every case the two angles add up to `0` or to `2π` -/
theorem V2.angle_add_swap (u v : V2 ℝ) :
    V2.angle u v + V2.angle v u = if V2.perpDot u v = 0 ∧ V2.dot u v < 0 then 2 * π else 0 := by
  by_cases h : V2.perpDot u v = 0 ∧ V2.dot u v < 0
  · obtain ⟨e1, e2⟩ := V2.angle_on_cut u v h.1 h.2
    rw [if_pos h, e1, e2]; ring
  · rw [if_neg h, V2.angle_antisymm_off_cut u v h]; ring
/-- for non-zero vectors the cut is "`v` is a negative multiple of `u`" -/
theorem V2.cut_iff_neg_multiple (u v : V2 ℝ) (hu : u ≠ V2.zero) (hv : v ≠ V2.zero) :
    (V2.perpDot u v = 0 ∧ V2.dot u v < 0) ↔ ∃ k : ℝ, k < 0 ∧ v = u * k := by
  have hu2 : 0 < u.magnitude2 := V2.magnitude2_pos u hu
  have hv2 : 0 < v.magnitude2 := V2.magnitude2_pos v hv
  have hu2' : 0 < u.x * u.x + u.y * u.y := by simpa using hu2
  have hv2' : 0 < v.x * v.x + v.y * v.y := by simpa using hv2
  constructor
  · rintro ⟨h0, hneg⟩
    have h0' : u.x * v.y - u.y * v.x = 0 := by simpa using h0
    have hneg' : u.x * v.x + u.y * v.y < 0 := by simpa using hneg
    refine ⟨V2.dot u v / u.magnitude2, div_neg_of_neg_of_pos hneg hu2, ?_⟩
    have hne : u.x * u.x + u.y * u.y ≠ 0 := hu2'.ne'
    ext
    · show v.x = u.x * (V2.dot u v / u.magnitude2)
      have ed : V2.dot u v = u.x * v.x + u.y * v.y := by simp
      have em : u.magnitude2 = u.x * u.x + u.y * u.y := by simp
      rw [ed, em, ← mul_div_assoc, eq_div_iff hne]
      linear_combination (-u.y) * h0'
    · show v.y = u.y * (V2.dot u v / u.magnitude2)
      have ed : V2.dot u v = u.x * v.x + u.y * v.y := by simp
      have em : u.magnitude2 = u.x * u.x + u.y * u.y := by simp
      rw [ed, em, ← mul_div_assoc, eq_div_iff hne]
      linear_combination (u.x) * h0'
  · rintro ⟨k, hk, rfl⟩
    constructor
    · simp; ring
    · have e : V2.dot u (u * k) = k * u.magnitude2 := by simp; ring
      rw [e]; exact mul_neg_of_neg_of_pos hk hu2

/-- non-vacuity, off the cut: a quarter turn and its negative -/
example : V2.angle (⟨1, 0⟩ : V2 ℝ) ⟨0, 1⟩ = π / 2 ∧ V2.angle (⟨0, 1⟩ : V2 ℝ) ⟨1, 0⟩ = -(π / 2) := by
  have h : ¬ (V2.perpDot (⟨1, 0⟩ : V2 ℝ) ⟨0, 1⟩ = 0 ∧ V2.dot (⟨1, 0⟩ : V2 ℝ) ⟨0, 1⟩ < 0) := by
    simp
  have e : V2.angle (⟨1, 0⟩ : V2 ℝ) ⟨0, 1⟩ = π / 2 := by
    have : (⟨0, 1⟩ : ℂ) = Complex.I := by apply Complex.ext <;> simp
    simp [V2.angle, this]
  exact ⟨e, by rw [V2.angle_antisymm_off_cut _ _ h, e]⟩
/-- non-vacuity, on the cut: opposite vectors, both angles are `π` -/
example : V2.angle (⟨1, 0⟩ : V2 ℝ) ⟨-1, 0⟩ = π ∧ V2.angle (⟨-1, 0⟩ : V2 ℝ) ⟨1, 0⟩ = π :=
  V2.angle_on_cut _ _ (by simp) (by simp)

/-! ## `normalize` / `normalize_to` are positive multiples of a non-zero `v` (multiplier `m/‖v‖`) -/
theorem V1.normalize_pos_multiple (v : V1 ℝ) (m : ℝ) (hv : v ≠ V1.zero) :
    0 < v.magnitude ∧ v.normalize = v * (1 / v.magnitude) ∧
    (∃ k : ℝ, 0 < k ∧ v.normalize = v * k) ∧
    v.normalizeTo m = v * (m / v.magnitude) ∧
    (0 < m → ∃ k : ℝ, 0 < k ∧ v.normalizeTo m = v * k) ∧
    (m < 0 → ∃ k : ℝ, k < 0 ∧ v.normalizeTo m = v * k) := by
  have hpos : 0 < v.magnitude := by
    simp only [V1.magnitude, transc_sqrt]; exact Real.sqrt_pos.2 (V1.magnitude2_pos v hv)
  exact ⟨hpos, rfl, ⟨1 / v.magnitude, by positivity, rfl⟩, rfl,
    fun hm => ⟨m / v.magnitude, div_pos hm hpos, rfl⟩,
    fun hm => ⟨m / v.magnitude, div_neg_of_neg_of_pos hm hpos, rfl⟩⟩
theorem V2.normalize_pos_multiple (v : V2 ℝ) (m : ℝ) (hv : v ≠ V2.zero) :
    0 < v.magnitude ∧ v.normalize = v * (1 / v.magnitude) ∧
    (∃ k : ℝ, 0 < k ∧ v.normalize = v * k) ∧
    v.normalizeTo m = v * (m / v.magnitude) ∧
    (0 < m → ∃ k : ℝ, 0 < k ∧ v.normalizeTo m = v * k) ∧
    (m < 0 → ∃ k : ℝ, k < 0 ∧ v.normalizeTo m = v * k) := by
  have hpos : 0 < v.magnitude := by
    simp only [V2.magnitude, transc_sqrt]; exact Real.sqrt_pos.2 (V2.magnitude2_pos v hv)
  exact ⟨hpos, rfl, ⟨1 / v.magnitude, by positivity, rfl⟩, rfl,
    fun hm => ⟨m / v.magnitude, div_pos hm hpos, rfl⟩,
    fun hm => ⟨m / v.magnitude, div_neg_of_neg_of_pos hm hpos, rfl⟩⟩
theorem V3.normalize_pos_multiple (v : V3 ℝ) (m : ℝ) (hv : v ≠ V3.zero) :
    0 < v.magnitude ∧ v.normalize = v * (1 / v.magnitude) ∧
    (∃ k : ℝ, 0 < k ∧ v.normalize = v * k) ∧
    v.normalizeTo m = v * (m / v.magnitude) ∧
    (0 < m → ∃ k : ℝ, 0 < k ∧ v.normalizeTo m = v * k) ∧
    (m < 0 → ∃ k : ℝ, k < 0 ∧ v.normalizeTo m = v * k) := by
  have hpos : 0 < v.magnitude := by
    simp only [V3.magnitude, transc_sqrt]; exact Real.sqrt_pos.2 (V3.magnitude2_pos v hv)
  exact ⟨hpos, rfl, ⟨1 / v.magnitude, by positivity, rfl⟩, rfl,
    fun hm => ⟨m / v.magnitude, div_pos hm hpos, rfl⟩,
    fun hm => ⟨m / v.magnitude, div_neg_of_neg_of_pos hm hpos, rfl⟩⟩
theorem V4.normalize_pos_multiple (v : V4 ℝ) (m : ℝ) (hv : v ≠ V4.zero) :
    0 < v.magnitude ∧ v.normalize = v * (1 / v.magnitude) ∧
    (∃ k : ℝ, 0 < k ∧ v.normalize = v * k) ∧
    v.normalizeTo m = v * (m / v.magnitude) ∧
    (0 < m → ∃ k : ℝ, 0 < k ∧ v.normalizeTo m = v * k) ∧
    (m < 0 → ∃ k : ℝ, k < 0 ∧ v.normalizeTo m = v * k) := by
  have hpos : 0 < v.magnitude := by
    simp only [V4.magnitude, transc_sqrt]; exact Real.sqrt_pos.2 (V4.magnitude2_pos v hv)
  exact ⟨hpos, rfl, ⟨1 / v.magnitude, by positivity, rfl⟩, rfl,
    fun hm => ⟨m / v.magnitude, div_pos hm hpos, rfl⟩,
    fun hm => ⟨m / v.magnitude, div_neg_of_neg_of_pos hm hpos, rfl⟩⟩
theorem Quat.normalize_pos_multiple (q : Quat ℝ) (m : ℝ) (hq : q ≠ Quat.zero) :
    0 < q.magnitude ∧ q.normalize = q * (1 / q.magnitude) ∧
    (∃ k : ℝ, 0 < k ∧ q.normalize = q * k) ∧
    q.normalizeTo m = q * (m / q.magnitude) ∧
    (0 < m → ∃ k : ℝ, 0 < k ∧ q.normalizeTo m = q * k) ∧
    (m < 0 → ∃ k : ℝ, k < 0 ∧ q.normalizeTo m = q * k) := by
  have hpos : 0 < q.magnitude := by
    simp only [Quat.magnitude, transc_sqrt]; exact Real.sqrt_pos.2 (Quat.magnitude2_pos q hq)
  exact ⟨hpos, rfl, ⟨1 / q.magnitude, by positivity, rfl⟩, rfl,
    fun hm => ⟨m / q.magnitude, div_pos hm hpos, rfl⟩,
    fun hm => ⟨m / q.magnitude, div_neg_of_neg_of_pos hm hpos, rfl⟩⟩

/-- consequence: `normalize v` points the same way as `v` (positive inner product `‖v‖`) -/
theorem V3.dot_normalize_pos (v : V3 ℝ) (hv : v ≠ V3.zero) :
    V3.dot v v.normalize = v.magnitude ∧ 0 < V3.dot v v.normalize := by
  obtain ⟨hpos, e, -⟩ := V3.normalize_pos_multiple v 1 hv
  have hm : v.magnitude * v.magnitude = v.magnitude2 := by
    have := (V3.magnitude_sq v).1; rw [← this]; ring
  have e2 : V3.dot v (v * (1 / v.magnitude)) = v.magnitude2 * (1 / v.magnitude) := by simp; ring
  have e3 : V3.dot v v.normalize = v.magnitude := by
    rw [e, e2, ← hm]; field_simp
  exact ⟨e3, e3 ▸ hpos⟩

/-- non-vacuity: `normalize (3, 4) = (3, 4) * (1/5)` -/
example : (⟨3, 4⟩ : V2 ℝ) ≠ V2.zero ∧ (⟨3, 4⟩ : V2 ℝ).magnitude = 5 := by
  refine ⟨?_, ?_⟩
  · intro h; have := congrArg V2.x h; simp [V2.zero, V2.fromValue] at this
  · have : (3 : ℝ) * 3 + 4 * 4 = 5 ^ 2 := by norm_num
    simp [this]

end Cg.C11
