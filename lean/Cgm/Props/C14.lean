import Cgm.Props.C11
import Cgm.Lemmas.NlerpArc
/-!
# C14 — lerp, nlerp and slerp interpolate with exact endpoints along the shortest path
-/
set_option linter.unusedSectionVars false
namespace Cg.C14
open Cg Real

/-! ## lerp -/
section lerp
variable {K : Type} [CommRing K]
theorem V2.lerp_spec (a b : V2 K) (t : K) :
    V2.lerp a b t = a + (b - a) * t ∧ V2.lerp a b 0 = a ∧ V2.lerp a b 1 = b := by
  refine ⟨rfl, ?_, ?_⟩ <;> (ext <;> simp)
theorem V3.lerp_spec (a b : V3 K) (t : K) :
    V3.lerp a b t = a + (b - a) * t ∧ V3.lerp a b 0 = a ∧ V3.lerp a b 1 = b := by
  refine ⟨rfl, ?_, ?_⟩ <;> (ext <;> simp)
theorem V4.lerp_spec (a b : V4 K) (t : K) :
    V4.lerp a b t = a + (b - a) * t ∧ V4.lerp a b 0 = a ∧ V4.lerp a b 1 = b := by
  refine ⟨rfl, ?_, ?_⟩ <;> (ext <;> simp)
theorem V1.lerp_spec (a b : V1 K) (t : K) :
    V1.lerp a b t = a + (b - a) * t ∧ V1.lerp a b 0 = a ∧ V1.lerp a b 1 = b := by
  refine ⟨rfl, ?_, ?_⟩ <;> (ext <;> simp)
theorem Quat.lerp_spec (a b : Quat K) (t : K) :
    Quat.lerp a b t = a + (b - a) * t ∧ Quat.lerp a b 0 = a ∧ Quat.lerp a b 1 = b := by
  refine ⟨rfl, ?_, ?_⟩ <;> (ext <;> simp)
end lerp

/-! ## weighted combinations of two unit quaternions -/
/-- `|a p + b q|² = p² + q² + 2 p q (a·b)` and the dot products with `a`, `b` -/
theorem comb_dots (a b : Quat ℝ) (ha : a.magnitude2 = 1) (hb : b.magnitude2 = 1) (p q : ℝ) :
    (a * p + b * q).magnitude2 = p * p + q * q + 2 * p * q * Quat.dot a b ∧
    Quat.dot a (a * p + b * q) = p + q * Quat.dot a b ∧
    Quat.dot b (a * p + b * q) = p * Quat.dot a b + q := by
  have ha' : a.s * a.s + (a.v.x * a.v.x + (a.v.y * a.v.y + a.v.z * a.v.z)) = 1 := by simpa using ha
  have hb' : b.s * b.s + (b.v.x * b.v.x + (b.v.y * b.v.y + b.v.z * b.v.z)) = 1 := by simpa using hb
  refine ⟨?_, ?_, ?_⟩
  · simp; linear_combination (p * p) * ha' + (q * q) * hb'
  · simp; linear_combination p * ha'
  · simp; linear_combination q * hb'
/-- normalising `c = a p + b q` (`N = |c| > 0`) -/
theorem normalize_comb (c : Quat ℝ) (N : ℝ) (hN : 0 < N) (hc : c.magnitude2 = N * N) (x : Quat ℝ) :
    c.normalize.magnitude2 = 1 ∧ Quat.dot x c.normalize = Quat.dot x c / N ∧ c.normalize = c * (1 / N) := by
  have hm : c.magnitude = N := by
    simp only [Quat.magnitude, transc_sqrt, hc]; exact Real.sqrt_mul_self hN.le
  have e : c.normalize = c * (1 / N) := by simp only [Quat.normalize, Quat.normalizeTo, hm]
  have hne : N ≠ 0 := hN.ne'
  refine ⟨?_, ?_, e⟩
  · have : (c * (1 / N)).magnitude2 = c.magnitude2 * ((1 / N) * (1 / N)) := by simp; ring
    rw [e, this, hc]; field_simp
  · rw [e]
    have : Quat.dot x (c * (1 / N)) = Quat.dot x c * (1 / N) := by simp; ring
    rw [this]; ring

/-- the sign flip both interpolations perform: `b' = -b` if `a·b < 0` -/
noncomputable def flip (a b : Quat ℝ) : Quat ℝ := if Quat.dot a b < 0 then -b else b
theorem flip_spec (a b : Quat ℝ) (hb : b.magnitude2 = 1) :
    (flip a b).magnitude2 = 1 ∧ Quat.dot a (flip a b) = |Quat.dot a b| ∧ (flip a b = b ∨ flip a b = -b) := by
  unfold flip
  split_ifs with h
  · refine ⟨by simpa using hb, ?_, Or.inr rfl⟩
    rw [abs_of_neg h]; simp; ring
  · rw [not_lt] at h
    exact ⟨hb, by rw [abs_of_nonneg h], Or.inl rfl⟩

/-! ## nlerp -/
variable [Lits ℝ]
theorem nlerp_eq (a b : Quat ℝ) (t : ℝ) :
    a.nlerp b t = (a * (1 - t) + flip a b * t).normalize := by
  unfold Quat.nlerp flip; rfl
/-- unit result, in the plane of `a` and `b' = ±b` with non-negative weights (the shorter arc),
`a` at `t = 0` and `b'` at `t = 1` -/
theorem nlerp_spec (a b : Quat ℝ) (ha : a.magnitude2 = 1) (hb : b.magnitude2 = 1) (t : ℝ)
    (h0 : 0 ≤ t) (h1 : t ≤ 1) :
    (a.nlerp b t).magnitude2 = 1 ∧
    (∃ α β : ℝ, 0 ≤ α ∧ 0 ≤ β ∧ a.nlerp b t = a * α + flip a b * β) ∧
    a.nlerp b 0 = a ∧ a.nlerp b 1 = flip a b := by
  obtain ⟨fb, fd, _⟩ := flip_spec a b hb
  have key : ∀ t : ℝ, 0 ≤ t → t ≤ 1 →
      ∃ N : ℝ, 0 < N ∧ (a * (1 - t) + flip a b * t).magnitude2 = N * N := by
    intro t h0 h1
    obtain ⟨m, _, _⟩ := comb_dots a (flip a b) ha fb (1 - t) t
    have hpos : 0 < (1 - t) * (1 - t) + t * t + 2 * (1 - t) * t * Quat.dot a (flip a b) := by
      rw [fd]
      have : 0 ≤ 2 * (1 - t) * t * |Quat.dot a b| := by
        apply mul_nonneg (mul_nonneg (by linarith) h0) (abs_nonneg _)
      nlinarith [sq_nonneg (1 - 2 * t)]
    refine ⟨Real.sqrt ((1 - t) * (1 - t) + t * t + 2 * (1 - t) * t * Quat.dot a (flip a b)),
      Real.sqrt_pos.mpr hpos, ?_⟩
    rw [m, Real.mul_self_sqrt hpos.le]
  obtain ⟨N, hN, hc⟩ := key t h0 h1
  obtain ⟨n1, _, n3⟩ := normalize_comb _ N hN hc a
  have hNi : 0 ≤ 1 / N := by positivity
  refine ⟨by rw [nlerp_eq]; exact n1,
    ⟨(1 - t) * (1 / N), t * (1 / N), mul_nonneg (by linarith) hNi, mul_nonneg h0 hNi, ?_⟩, ?_, ?_⟩
  · rw [nlerp_eq, n3]; ext <;> simp <;> ring
  · -- t = 0
    have e : a * (1 - (0:ℝ)) + flip a b * (0:ℝ) = a := by ext <;> simp
    have hc0 : (a * (1 - (0:ℝ)) + flip a b * (0:ℝ)).magnitude2 = 1 * 1 := by rw [e, ha]; ring
    obtain ⟨_, _, m3⟩ := normalize_comb _ 1 one_pos hc0 a
    rw [nlerp_eq, m3, e]; ext <;> simp
  · -- t = 1
    have e : a * (1 - (1:ℝ)) + flip a b * (1:ℝ) = flip a b := by ext <;> simp
    have hc1 : (a * (1 - (1:ℝ)) + flip a b * (1:ℝ)).magnitude2 = 1 * 1 := by rw [e, fb]; ring
    obtain ⟨_, _, m3⟩ := normalize_comb _ 1 one_pos hc1 a
    rw [nlerp_eq, m3, e]; ext <;> simp

/-! ## slerp -/
/-- in the far branch (`|a·b| ≤ thr`) `slerp` is the normalised sine-weighted combination -/
theorem slerp_far_eq (a b : Quat ℝ) (t : ℝ) (hfar : ¬ (Lits.thr : ℝ) < |Quat.dot a b|)
    (hd : |Quat.dot a b| ≤ 1) :
    a.slerp b t = (a * Real.sin (Real.arccos |Quat.dot a b| * (1 - t)) +
      flip a b * Real.sin (Real.arccos |Quat.dot a b| * t)).normalize := by
  have habs : (if Quat.dot a b < 0 then -Quat.dot a b else Quat.dot a b) = |Quat.dot a b| := by
    split_ifs with h
    · rw [abs_of_neg h]
    · rw [not_lt] at h; rw [abs_of_nonneg h]
  have hrob : smax (smin |Quat.dot a b| 1) (-1) = |Quat.dot a b| := by
    have h0 : 0 ≤ |Quat.dot a b| := abs_nonneg _
    unfold smax smin
    have h1 : ¬ (1 : ℝ) < |Quat.dot a b| := not_lt.mpr hd
    simp only [h1, if_false]
    have h2 : ¬ |Quat.dot a b| < -1 := by rw [not_lt]; linarith
    simp only [h2, if_false]
  unfold Quat.slerp flip
  simp only [decide_eq_true_eq, habs, hfar, if_false, hrob, transc_acos, transc_sin]
/-- in the near branch `slerp` hands over to `nlerp` -/
theorem slerp_near_eq (a b : Quat ℝ) (t : ℝ) (hnear : (Lits.thr : ℝ) < |Quat.dot a b|) :
    a.slerp b t = a.nlerp (flip a b) t := by
  have habs : (if Quat.dot a b < 0 then -Quat.dot a b else Quat.dot a b) = |Quat.dot a b| := by
    split_ifs with h
    · rw [abs_of_neg h]
    · rw [not_lt] at h; rw [abs_of_nonneg h]
  unfold Quat.slerp flip
  simp only [decide_eq_true_eq, habs, hnear, if_true]

/-- constant angular speed in the far branch: with `θ = arccos |a·b|` the result is a unit
quaternion on the short arc from `a` to `b' = ±b`, at angle `tθ` from `a` and `(1-t)θ` from `b'` -/
theorem slerp_far_spec (a b : Quat ℝ) (ha : a.magnitude2 = 1) (hb : b.magnitude2 = 1) (t : ℝ)
    (h0 : 0 ≤ t) (h1 : t ≤ 1) (hthr : (Lits.thr : ℝ) < 1) (hfar : ¬ (Lits.thr : ℝ) < |Quat.dot a b|) :
    let θ := Real.arccos |Quat.dot a b|
    (a.slerp b t).magnitude2 = 1 ∧
    Quat.dot a (a.slerp b t) = Real.cos (t * θ) ∧
    Quat.dot (flip a b) (a.slerp b t) = Real.cos ((1 - t) * θ) ∧
    (∃ α β : ℝ, 0 ≤ α ∧ 0 ≤ β ∧ a.slerp b t = a * α + flip a b * β) ∧
    a.slerp b 0 = a ∧ a.slerp b 1 = flip a b := by
  intro θ
  rw [not_lt] at hfar
  have hd1 : |Quat.dot a b| < 1 := lt_of_le_of_lt hfar hthr
  have hd0 : 0 ≤ |Quat.dot a b| := abs_nonneg _
  obtain ⟨fb, fd, _⟩ := flip_spec a b hb
  have hcos : Real.cos θ = |Quat.dot a b| := Real.cos_arccos (by linarith) hd1.le
  have hθ0 : 0 < θ := Real.arccos_pos.mpr hd1
  have hθ1 : θ ≤ π / 2 := Real.arccos_le_pi_div_two.mpr hd0
  have hsinθ : 0 < Real.sin θ := Real.sin_pos_of_pos_of_lt_pi hθ0 (by linarith [Real.pi_pos])
  -- general weights A = sθ, B = (1-s)θ
  have gen : ∀ s : ℝ, 0 ≤ s → s ≤ 1 →
      let c := a * Real.sin (θ * (1 - s)) + flip a b * Real.sin (θ * s)
      c.magnitude2 = Real.sin θ * Real.sin θ ∧ Quat.dot a c = Real.sin θ * Real.cos (s * θ) ∧
      Quat.dot (flip a b) c = Real.sin θ * Real.cos ((1 - s) * θ) ∧
      0 ≤ Real.sin (θ * (1 - s)) ∧ 0 ≤ Real.sin (θ * s) := by
    intro s hs0 hs1 c
    obtain ⟨m1, m2, m3⟩ := comb_dots a (flip a b) ha fb (Real.sin (θ * (1 - s))) (Real.sin (θ * s))
    set A := s * θ with hA
    set B := (1 - s) * θ with hB
    have eA : θ * s = A := by rw [hA]; ring
    have eB : θ * (1 - s) = B := by rw [hB]; ring
    have eT : θ = A + B := by rw [hA, hB]; ring
    have g1 := Real.sin_sq_add_cos_sq A
    have g2 := Real.sin_sq_add_cos_sq B
    have sT : Real.sin θ = Real.sin A * Real.cos B + Real.cos A * Real.sin B := by
      conv_lhs => rw [eT]
      exact Real.sin_add A B
    have cT : |Quat.dot a b| = Real.cos A * Real.cos B - Real.sin A * Real.sin B := by
      rw [← hcos]; conv_lhs => rw [eT]
      exact Real.cos_add A B
    have hA0 : 0 ≤ A := mul_nonneg hs0 hθ0.le
    have hB0 : 0 ≤ B := mul_nonneg (by linarith) hθ0.le
    have hAπ : A ≤ π := by nlinarith [Real.pi_pos]
    have hBπ : B ≤ π := by nlinarith [Real.pi_pos]
    refine ⟨?_, ?_, ?_, ?_, ?_⟩
    · show c.magnitude2 = _
      rw [m1, fd, eA, eB, sT, cT]
      linear_combination (-(Real.sin B) ^ 2) * g1 + (-(Real.sin A) ^ 2) * g2
    · show Quat.dot a c = _
      rw [m2, fd, eA, eB, sT, cT]
      linear_combination (-(Real.sin B)) * g1
    · show Quat.dot (flip a b) c = _
      rw [m3, fd, eA, eB, sT, cT]
      linear_combination (-(Real.sin A)) * g2
    · rw [eB]; exact Real.sin_nonneg_of_nonneg_of_le_pi hB0 hBπ
    · rw [eA]; exact Real.sin_nonneg_of_nonneg_of_le_pi hA0 hAπ
  have hd1' : |Quat.dot a b| ≤ 1 := hd1.le
  have hfar' : ¬ (Lits.thr : ℝ) < |Quat.dot a b| := not_lt.mpr hfar
  obtain ⟨c1, c2, c3, c4, c5⟩ := gen t h0 h1
  obtain ⟨n1, n2, n3⟩ := normalize_comb _ (Real.sin θ) hsinθ c1 a
  obtain ⟨_, n2', _⟩ := normalize_comb _ (Real.sin θ) hsinθ c1 (flip a b)
  have hne : Real.sin θ ≠ 0 := hsinθ.ne'
  have hi : 0 ≤ 1 / Real.sin θ := by positivity
  refine ⟨?_, ?_, ?_, ⟨_, _, mul_nonneg c4 hi, mul_nonneg c5 hi, ?_⟩, ?_, ?_⟩
  · rw [slerp_far_eq a b t hfar' hd1']; exact n1
  · rw [slerp_far_eq a b t hfar' hd1', n2, c2]; field_simp
  · rw [slerp_far_eq a b t hfar' hd1', n2', c3]; field_simp
  · rw [slerp_far_eq a b t hfar' hd1', n3]; ext <;> simp <;> ring
  · -- t = 0
    obtain ⟨z1, _, _, _, _⟩ := gen 0 le_rfl zero_le_one
    obtain ⟨_, _, z3⟩ := normalize_comb _ (Real.sin θ) hsinθ z1 a
    rw [slerp_far_eq a b 0 hfar' hd1', z3]
    ext <;> simp <;> field_simp
  · -- t = 1
    obtain ⟨z1, _, _, _, _⟩ := gen 1 zero_le_one le_rfl
    obtain ⟨_, _, z3⟩ := normalize_comb _ (Real.sin θ) hsinθ z1 a
    rw [slerp_far_eq a b 1 hfar' hd1', z3]
    ext <;> simp <;> field_simp

theorem mag2_nonneg (c : Quat ℝ) : 0 ≤ c.magnitude2 := by
  obtain ⟨⟨x, y, z⟩, w⟩ := c
  simp
  nlinarith [mul_self_nonneg x, mul_self_nonneg y, mul_self_nonneg z, mul_self_nonneg w]

/-- **the near-branch envelope of the property**: above the `0.9995` hand-over `slerp` is `nlerp`,
and the arc it has covered at parameter `t` is within `1e-5` rad of `t` times the whole arc
(`Cgm/Lemmas/NlerpArc.lean`: `√N sin(α - tθ) = t sin((1-t)θ) - (1-t) sin(tθ)`, `|·| ≤ θ³/24`, `θ < 0.032`) -/
theorem slerp_near_bound (a b : Quat ℝ) (t : ℝ) (ha : a.magnitude2 = 1) (hb : b.magnitude2 = 1)
    (h0 : 0 ≤ t) (h1 : t ≤ 1) (hthr : (Lits.thr : ℝ) = 0.9995) (hnear : (Lits.thr : ℝ) < |Quat.dot a b|) :
    abs (Real.arccos (Quat.dot a (a.slerp b t)) - t * Real.arccos (abs (Quat.dot a b))) ≤ 1e-5 := by
  obtain ⟨fb, fd, _⟩ := flip_spec a b hb
  set b' := flip a b with hb'
  set d := |Quat.dot a b| with hd
  have hd0 : 0.9995 < d := by rw [← hthr]; exact hnear
  -- |a·b| ≤ 1 for unit quaternions
  have hd1 : d ≤ 1 := by
    obtain ⟨m, _, _⟩ := comb_dots a b' ha fb 1 (-1)
    have hnn : 0 ≤ (a * (1 : ℝ) + b' * (-1 : ℝ)).magnitude2 := by
      exact mag2_nonneg _
    rw [m, fd] at hnn
    linarith
  -- the second flip inside nlerp does nothing: a·b' = d ≥ 0
  have hff : flip a b' = b' := by
    unfold flip
    rw [if_neg]
    rw [fd, not_lt]; linarith
  have hs : a.slerp b t = (a * (1 - t) + b' * t).normalize := by
    rw [slerp_near_eq a b t hnear, nlerp_eq, hff]
  obtain ⟨m, dm, _⟩ := comb_dots a b' ha fb (1 - t) t
  rw [fd] at m dm
  obtain ⟨hN1, hu0, huN, hd2⟩ := Cg.NlerpArc.N_bounds hd0 hd1 h0 h1
  have hNpos : 0 < (1 - t) * (1 - t) + t * t + 2 * (1 - t) * t * d := by linarith
  have hc : (a * (1 - t) + b' * t).magnitude2 =
      Real.sqrt ((1 - t) * (1 - t) + t * t + 2 * (1 - t) * t * d) *
        Real.sqrt ((1 - t) * (1 - t) + t * t + 2 * (1 - t) * t * d) := by
    rw [m, Real.mul_self_sqrt hNpos.le]
  obtain ⟨_, n2, _⟩ := normalize_comb _ _ (Real.sqrt_pos.mpr hNpos) hc a
  rw [hs, n2, dm]
  exact Cg.NlerpArc.arc_bound hd0 hd1 h0 h1

/-- non-vacuity: two unit quaternions at `a·b = 9999/10001 > 0.9995` -/
example :
    let a : Quat ℝ := ⟨⟨0, 0, 0⟩, 1⟩
    let b : Quat ℝ := ⟨⟨200 / 10001, 0, 0⟩, 9999 / 10001⟩
    a.magnitude2 = 1 ∧ b.magnitude2 = 1 ∧ (0.9995 : ℝ) < |Quat.dot a b| := by
  refine ⟨by norm_num [Quat.magnitude2], by norm_num [Quat.magnitude2], ?_⟩
  norm_num [Quat.dot, abs_of_pos]

end Cg.C14
