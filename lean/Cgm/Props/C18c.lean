import Cgm.Props.C18b
import Cgm.Lemmas.ApproxSpec
import Cgm.Lemmas.RealApprox
import Cgm.Lemmas.RealInst2
import Cgm.Model.Book4
/-!
# C18 (third part) — the three `approx` relations with their tolerance arguments, the matrix
default epsilon, `is_finite` of vectors and points

C18.lean / C18b.lean speak about ONE relation `X.relAll r` per type, `r` a scalar relation with
the tolerances already applied, and their reflexivity / symmetry theorems are conditional on
hypotheses about `r`.  Here:

1. the three relations of every compound type (`X.absDiffEq a b e`, `X.relEq a b e m`,
   `X.ulpsEq a b e u`, Cgm/Model/Book4.lean: one definition per Rust impl, tolerance arguments
   forwarded as in the source) ARE `X.relAll` at the scalar relation with the SAME tolerances
   (`*_eq_relAll`), hence hold iff that scalar relation holds on every pair of corresponding
   components (`*_iff`, matrices also `*_iff_elems`), and fail as soon as one component pair
   fails (`*_false_of_component` / `*_false_of_element`);
2. under `ApproxLaws` (Cgm/Lemmas/ApproxSpec.lean: what the `approx` crate guarantees for the
   floats, read at an ordered field) they are reflexive for non-negative tolerances and symmetric
   (`*_refl`, `*_symm`), with no hypothesis on the relation left; `abs_diff_eq` is the comparison
   of every component distance with `e` (`X.absDiffEq_iff_abs`, `X.absDiffEq_false_of_gt`);
3. default tolerances: every type's `default_epsilon()` is the scalar's EXCEPT Matrix2/3/4
   (`Lits.matEps` = 1e-6); over `ℝ` `is_zero` / `is_identity` of a matrix are "every element
   within 1e-6 of the zero / identity matrix" (`real_M*_isZeroD_iff`, `real_M*_isIdentityD_iff`),
   while `is_diagonal` / `is_symmetric` / `is_invertible` test scalars at 2^-52 (`real_contrast_M2`, `_M3`, `_M4`);
4. `is_finite` of `Vector1..4`, `Point1..3` (`V*.isFinite_iff`, `P*.isFinite_iff`), matrices and
   quaternion in terms of these.
-/
set_option linter.unusedSectionVars false
set_option linter.unusedVariables false
namespace Cg.C18
open Cg
variable {α : Type}

/-! ## the abstract relation, one statement per type (un-bundled forms of C18.lean / C18b.lean) -/
section generic
variable (r : α → α → Bool)
theorem V1.relAll_refl_of (hr : ∀ x, r x x = true) (a : V1 α) : V1.relAll r a a = true := by
  simp [V1.relAll, hr]
theorem V1.relAll_symm_of (hs : ∀ x y, r x y = r y x) (a b : V1 α) :
    V1.relAll r a b = V1.relAll r b a := by
  simp only [V1.relAll]; rw [hs a.x]
theorem V1.relAll_false_of_component (a b : V1 α)
    (h : r a.x b.x = false) : V1.relAll r a b = false := by
  simp [V1.relAll, h]
theorem V2.relAll_refl_of (hr : ∀ x, r x x = true) (a : V2 α) : V2.relAll r a a = true := by
  simp [V2.relAll, hr]
theorem V2.relAll_symm_of (hs : ∀ x y, r x y = r y x) (a b : V2 α) :
    V2.relAll r a b = V2.relAll r b a := by
  simp only [V2.relAll]; rw [hs a.x, hs a.y]
theorem V2.relAll_false_of_component (a b : V2 α)
    (h : r a.x b.x = false ∨ r a.y b.y = false) : V2.relAll r a b = false := by
  rcases h with h | h <;> simp [V2.relAll, h]
theorem V3.relAll_refl_of (hr : ∀ x, r x x = true) (a : V3 α) : V3.relAll r a a = true := by
  simp [V3.relAll, hr]
theorem V3.relAll_symm_of (hs : ∀ x y, r x y = r y x) (a b : V3 α) :
    V3.relAll r a b = V3.relAll r b a := by
  simp only [V3.relAll]; rw [hs a.x, hs a.y, hs a.z]
theorem V3.relAll_false_of_component (a b : V3 α)
    (h : r a.x b.x = false ∨ r a.y b.y = false ∨ r a.z b.z = false) : V3.relAll r a b = false := by
  rcases h with h | h | h <;> simp [V3.relAll, h]
theorem V4.relAll_refl_of (hr : ∀ x, r x x = true) (a : V4 α) : V4.relAll r a a = true := by
  simp [V4.relAll, hr]
theorem V4.relAll_symm_of (hs : ∀ x y, r x y = r y x) (a b : V4 α) :
    V4.relAll r a b = V4.relAll r b a := by
  simp only [V4.relAll]; rw [hs a.x, hs a.y, hs a.z, hs a.w]
theorem P1.relAll_refl_of (hr : ∀ x, r x x = true) (a : P1 α) : P1.relAll r a a = true := by
  simp [P1.relAll, hr]
theorem P1.relAll_symm_of (hs : ∀ x y, r x y = r y x) (a b : P1 α) :
    P1.relAll r a b = P1.relAll r b a := by
  simp only [P1.relAll]; rw [hs a.x]
theorem P1.relAll_false_of_component (a b : P1 α)
    (h : r a.x b.x = false) : P1.relAll r a b = false := by
  simp [P1.relAll, h]
theorem P2.relAll_refl_of (hr : ∀ x, r x x = true) (a : P2 α) : P2.relAll r a a = true := by
  simp [P2.relAll, hr]
theorem P2.relAll_symm_of (hs : ∀ x y, r x y = r y x) (a b : P2 α) :
    P2.relAll r a b = P2.relAll r b a := by
  simp only [P2.relAll]; rw [hs a.x, hs a.y]
theorem P2.relAll_false_of_component (a b : P2 α)
    (h : r a.x b.x = false ∨ r a.y b.y = false) : P2.relAll r a b = false := by
  rcases h with h | h <;> simp [P2.relAll, h]
theorem P3.relAll_refl_of (hr : ∀ x, r x x = true) (a : P3 α) : P3.relAll r a a = true := by
  simp [P3.relAll, hr]
theorem P3.relAll_symm_of (hs : ∀ x y, r x y = r y x) (a b : P3 α) :
    P3.relAll r a b = P3.relAll r b a := by
  simp only [P3.relAll]; rw [hs a.x, hs a.y, hs a.z]
theorem P3.relAll_false_of_component (a b : P3 α)
    (h : r a.x b.x = false ∨ r a.y b.y = false ∨ r a.z b.z = false) : P3.relAll r a b = false := by
  rcases h with h | h | h <;> simp [P3.relAll, h]
theorem M2.relAll_refl_of (hr : ∀ x, r x x = true) (a : M2 α) : M2.relAll r a a = true := by
  simp [M2.relAll, V2.relAll, hr]
theorem M2.relAll_symm_of (hs : ∀ x y, r x y = r y x) (a b : M2 α) :
    M2.relAll r a b = M2.relAll r b a := by
  simp only [M2.relAll]; rw [V2.relAll_symm_of r hs a.x, V2.relAll_symm_of r hs a.y]
/-- all 4 element pairs, spelled out (column, then row) -/
theorem M2.relAll_iff_elems (a b : M2 α) :
    M2.relAll r a b = true ↔ r a.x.x b.x.x = true ∧ r a.x.y b.x.y = true ∧ r a.y.x b.y.x = true ∧ r a.y.y b.y.y = true := by
  simp [M2.relAll, V2.relAll, and_assoc]
theorem M2.relAll_false_of_element (a b : M2 α) (p : α × α) (hp : p ∈ a.toList.zip b.toList)
    (h : r p.1 p.2 = false) : M2.relAll r a b = false := by
  by_contra hc
  have ht : M2.relAll r a b = true := by simpa using hc
  have := (M2.relAll_iff r a b).1 ht p hp
  rw [h] at this; exact Bool.false_ne_true this
theorem M3.relAll_refl_of (hr : ∀ x, r x x = true) (a : M3 α) : M3.relAll r a a = true := by
  simp [M3.relAll, V3.relAll, hr]
theorem M3.relAll_symm_of (hs : ∀ x y, r x y = r y x) (a b : M3 α) :
    M3.relAll r a b = M3.relAll r b a := by
  simp only [M3.relAll]; rw [V3.relAll_symm_of r hs a.x, V3.relAll_symm_of r hs a.y, V3.relAll_symm_of r hs a.z]
/-- all 9 element pairs, spelled out (column, then row) -/
theorem M3.relAll_iff_elems (a b : M3 α) :
    M3.relAll r a b = true ↔ r a.x.x b.x.x = true ∧ r a.x.y b.x.y = true ∧ r a.x.z b.x.z = true ∧ r a.y.x b.y.x = true ∧ r a.y.y b.y.y = true ∧ r a.y.z b.y.z = true ∧ r a.z.x b.z.x = true ∧ r a.z.y b.z.y = true ∧ r a.z.z b.z.z = true := by
  simp [M3.relAll, V3.relAll, and_assoc]
theorem M3.relAll_false_of_element (a b : M3 α) (p : α × α) (hp : p ∈ a.toList.zip b.toList)
    (h : r p.1 p.2 = false) : M3.relAll r a b = false := by
  by_contra hc
  have ht : M3.relAll r a b = true := by simpa using hc
  have := (M3.relAll_iff r a b).1 ht p hp
  rw [h] at this; exact Bool.false_ne_true this
theorem M4.relAll_refl_of (hr : ∀ x, r x x = true) (a : M4 α) : M4.relAll r a a = true := by
  simp [M4.relAll, V4.relAll, hr]
theorem M4.relAll_symm_of (hs : ∀ x y, r x y = r y x) (a b : M4 α) :
    M4.relAll r a b = M4.relAll r b a := by
  simp only [M4.relAll]; rw [V4.relAll_symm_of r hs a.x, V4.relAll_symm_of r hs a.y, V4.relAll_symm_of r hs a.z, V4.relAll_symm_of r hs a.w]
/-- all 16 element pairs, spelled out (column, then row) -/
theorem M4.relAll_iff_elems (a b : M4 α) :
    M4.relAll r a b = true ↔ r a.x.x b.x.x = true ∧ r a.x.y b.x.y = true ∧ r a.x.z b.x.z = true ∧ r a.x.w b.x.w = true ∧ r a.y.x b.y.x = true ∧ r a.y.y b.y.y = true ∧ r a.y.z b.y.z = true ∧ r a.y.w b.y.w = true ∧ r a.z.x b.z.x = true ∧ r a.z.y b.z.y = true ∧ r a.z.z b.z.z = true ∧ r a.z.w b.z.w = true ∧ r a.w.x b.w.x = true ∧ r a.w.y b.w.y = true ∧ r a.w.z b.w.z = true ∧ r a.w.w b.w.w = true := by
  simp [M4.relAll, V4.relAll, and_assoc]
theorem Quat.relAll_refl_of (hr : ∀ x, r x x = true) (a : Quat α) : Quat.relAll r a a = true := by
  simp [Quat.relAll, V3.relAll, hr]
theorem Quat.relAll_symm_of (hs : ∀ x y, r x y = r y x) (a b : Quat α) :
    Quat.relAll r a b = Quat.relAll r b a := by
  simp only [Quat.relAll]; rw [hs a.s, V3.relAll_symm_of r hs a.v]
theorem Quat.relAll_false_of_component (a b : Quat α)
    (h : r a.s b.s = false ∨ r a.v.x b.v.x = false ∨ r a.v.y b.v.y = false ∨ r a.v.z b.v.z = false) :
    Quat.relAll r a b = false := by
  rcases h with h | h | h | h <;> simp [Quat.relAll, V3.relAll, h]
theorem eulerRelAll_refl_of (hr : ∀ x, r x x = true) (a : α × α × α) : eulerRelAll r a a = true := by
  simp [eulerRelAll, hr]
theorem eulerRelAll_symm_of (hs : ∀ x y, r x y = r y x) (a b : α × α × α) :
    eulerRelAll r a b = eulerRelAll r b a := by
  simp only [eulerRelAll]; rw [hs a.1, hs a.2.1, hs a.2.2]
theorem eulerRelAll_false_of_component (a b : α × α × α)
    (h : r a.1 b.1 = false ∨ r a.2.1 b.2.1 = false ∨ r a.2.2 b.2.2 = false) :
    eulerRelAll r a b = false := by
  rcases h with h | h | h <;> simp [eulerRelAll, h]
/-- `Basis2` / `Basis3`: the iff down to the elements (C18.lean's `basis_relAll_iff` stops at the matrix) -/
theorem Basis2.relAll_iff (a b : Basis2 α) :
    Basis2.relAll r a b = true ↔ ∀ p ∈ a.mat.toList.zip b.mat.toList, r p.1 p.2 = true :=
  M2.relAll_iff r a.mat b.mat
theorem Basis3.relAll_iff (a b : Basis3 α) :
    Basis3.relAll r a b = true ↔ ∀ p ∈ a.mat.toList.zip b.mat.toList, r p.1 p.2 = true :=
  M3.relAll_iff r a.mat b.mat
theorem Basis2.relAll_refl_of (hr : ∀ x, r x x = true) (a : Basis2 α) : Basis2.relAll r a a = true :=
  M2.relAll_refl_of r hr a.mat
theorem Basis3.relAll_refl_of (hr : ∀ x, r x x = true) (a : Basis3 α) : Basis3.relAll r a a = true :=
  M3.relAll_refl_of r hr a.mat
theorem Basis2.relAll_symm_of (hs : ∀ x y, r x y = r y x) (a b : Basis2 α) :
    Basis2.relAll r a b = Basis2.relAll r b a := M2.relAll_symm_of r hs a.mat b.mat
theorem Basis3.relAll_symm_of (hs : ∀ x y, r x y = r y x) (a b : Basis3 α) :
    Basis3.relAll r a b = Basis3.relAll r b a := M3.relAll_symm_of r hs a.mat b.mat
theorem Basis2.relAll_false_of_element (a b : Basis2 α) (p : α × α)
    (hp : p ∈ a.mat.toList.zip b.mat.toList) (h : r p.1 p.2 = false) : Basis2.relAll r a b = false :=
  M2.relAll_false_of_element r a.mat b.mat p hp h
theorem Basis3.relAll_false_of_element (a b : Basis3 α) (p : α × α)
    (hp : p ∈ a.mat.toList.zip b.mat.toList) (h : r p.1 p.2 = false) : Basis3.relAll r a b = false :=
  M3.relAll_false_of_element r a.mat b.mat p hp h
end generic

/-! ## the three relations are `relAll` at the scalar relation WITH THE SAME tolerance arguments -/
section link
variable [Approx α]
theorem V1.absDiffEq_eq_relAll (a b : V1 α) (e : α) :
    V1.absDiffEq a b e = V1.relAll (fun x y => Approx.absDiffEq x y e) a b := rfl
theorem V1.relEq_eq_relAll (a b : V1 α) (e m : α) :
    V1.relEq a b e m = V1.relAll (fun x y => Approx.relEq x y e m) a b := rfl
theorem V1.ulpsEq_eq_relAll (a b : V1 α) (e : α) (u : Nat) :
    V1.ulpsEq a b e u = V1.relAll (fun x y => Approx.ulpsEq x y e u) a b := rfl
theorem V2.absDiffEq_eq_relAll (a b : V2 α) (e : α) :
    V2.absDiffEq a b e = V2.relAll (fun x y => Approx.absDiffEq x y e) a b := rfl
theorem V2.relEq_eq_relAll (a b : V2 α) (e m : α) :
    V2.relEq a b e m = V2.relAll (fun x y => Approx.relEq x y e m) a b := rfl
theorem V2.ulpsEq_eq_relAll (a b : V2 α) (e : α) (u : Nat) :
    V2.ulpsEq a b e u = V2.relAll (fun x y => Approx.ulpsEq x y e u) a b := rfl
theorem V3.absDiffEq_eq_relAll (a b : V3 α) (e : α) :
    V3.absDiffEq a b e = V3.relAll (fun x y => Approx.absDiffEq x y e) a b := rfl
theorem V3.relEq_eq_relAll (a b : V3 α) (e m : α) :
    V3.relEq a b e m = V3.relAll (fun x y => Approx.relEq x y e m) a b := rfl
theorem V3.ulpsEq_eq_relAll (a b : V3 α) (e : α) (u : Nat) :
    V3.ulpsEq a b e u = V3.relAll (fun x y => Approx.ulpsEq x y e u) a b := rfl
theorem V4.absDiffEq_eq_relAll (a b : V4 α) (e : α) :
    V4.absDiffEq a b e = V4.relAll (fun x y => Approx.absDiffEq x y e) a b := rfl
theorem V4.relEq_eq_relAll (a b : V4 α) (e m : α) :
    V4.relEq a b e m = V4.relAll (fun x y => Approx.relEq x y e m) a b := rfl
theorem V4.ulpsEq_eq_relAll (a b : V4 α) (e : α) (u : Nat) :
    V4.ulpsEq a b e u = V4.relAll (fun x y => Approx.ulpsEq x y e u) a b := rfl
theorem P1.absDiffEq_eq_relAll (a b : P1 α) (e : α) :
    P1.absDiffEq a b e = P1.relAll (fun x y => Approx.absDiffEq x y e) a b := rfl
theorem P1.relEq_eq_relAll (a b : P1 α) (e m : α) :
    P1.relEq a b e m = P1.relAll (fun x y => Approx.relEq x y e m) a b := rfl
theorem P1.ulpsEq_eq_relAll (a b : P1 α) (e : α) (u : Nat) :
    P1.ulpsEq a b e u = P1.relAll (fun x y => Approx.ulpsEq x y e u) a b := rfl
theorem P2.absDiffEq_eq_relAll (a b : P2 α) (e : α) :
    P2.absDiffEq a b e = P2.relAll (fun x y => Approx.absDiffEq x y e) a b := rfl
theorem P2.relEq_eq_relAll (a b : P2 α) (e m : α) :
    P2.relEq a b e m = P2.relAll (fun x y => Approx.relEq x y e m) a b := rfl
theorem P2.ulpsEq_eq_relAll (a b : P2 α) (e : α) (u : Nat) :
    P2.ulpsEq a b e u = P2.relAll (fun x y => Approx.ulpsEq x y e u) a b := rfl
theorem P3.absDiffEq_eq_relAll (a b : P3 α) (e : α) :
    P3.absDiffEq a b e = P3.relAll (fun x y => Approx.absDiffEq x y e) a b := rfl
theorem P3.relEq_eq_relAll (a b : P3 α) (e m : α) :
    P3.relEq a b e m = P3.relAll (fun x y => Approx.relEq x y e m) a b := rfl
theorem P3.ulpsEq_eq_relAll (a b : P3 α) (e : α) (u : Nat) :
    P3.ulpsEq a b e u = P3.relAll (fun x y => Approx.ulpsEq x y e u) a b := rfl
theorem M2.absDiffEq_eq_relAll (a b : M2 α) (e : α) :
    M2.absDiffEq a b e = M2.relAll (fun x y => Approx.absDiffEq x y e) a b := rfl
theorem M2.relEq_eq_relAll (a b : M2 α) (e m : α) :
    M2.relEq a b e m = M2.relAll (fun x y => Approx.relEq x y e m) a b := rfl
theorem M2.ulpsEq_eq_relAll (a b : M2 α) (e : α) (u : Nat) :
    M2.ulpsEq a b e u = M2.relAll (fun x y => Approx.ulpsEq x y e u) a b := rfl
theorem M3.absDiffEq_eq_relAll (a b : M3 α) (e : α) :
    M3.absDiffEq a b e = M3.relAll (fun x y => Approx.absDiffEq x y e) a b := rfl
theorem M3.relEq_eq_relAll (a b : M3 α) (e m : α) :
    M3.relEq a b e m = M3.relAll (fun x y => Approx.relEq x y e m) a b := rfl
theorem M3.ulpsEq_eq_relAll (a b : M3 α) (e : α) (u : Nat) :
    M3.ulpsEq a b e u = M3.relAll (fun x y => Approx.ulpsEq x y e u) a b := rfl
theorem M4.absDiffEq_eq_relAll (a b : M4 α) (e : α) :
    M4.absDiffEq a b e = M4.relAll (fun x y => Approx.absDiffEq x y e) a b := rfl
theorem M4.relEq_eq_relAll (a b : M4 α) (e m : α) :
    M4.relEq a b e m = M4.relAll (fun x y => Approx.relEq x y e m) a b := rfl
theorem M4.ulpsEq_eq_relAll (a b : M4 α) (e : α) (u : Nat) :
    M4.ulpsEq a b e u = M4.relAll (fun x y => Approx.ulpsEq x y e u) a b := rfl
theorem Quat.absDiffEq_eq_relAll (a b : Quat α) (e : α) :
    Quat.absDiffEq a b e = Quat.relAll (fun x y => Approx.absDiffEq x y e) a b := rfl
theorem Quat.relEq_eq_relAll (a b : Quat α) (e m : α) :
    Quat.relEq a b e m = Quat.relAll (fun x y => Approx.relEq x y e m) a b := rfl
theorem Quat.ulpsEq_eq_relAll (a b : Quat α) (e : α) (u : Nat) :
    Quat.ulpsEq a b e u = Quat.relAll (fun x y => Approx.ulpsEq x y e u) a b := rfl
theorem Basis2.absDiffEq_eq_relAll (a b : Basis2 α) (e : α) :
    Basis2.absDiffEq a b e = Basis2.relAll (fun x y => Approx.absDiffEq x y e) a b := rfl
theorem Basis2.relEq_eq_relAll (a b : Basis2 α) (e m : α) :
    Basis2.relEq a b e m = Basis2.relAll (fun x y => Approx.relEq x y e m) a b := rfl
theorem Basis2.ulpsEq_eq_relAll (a b : Basis2 α) (e : α) (u : Nat) :
    Basis2.ulpsEq a b e u = Basis2.relAll (fun x y => Approx.ulpsEq x y e u) a b := rfl
theorem Basis3.absDiffEq_eq_relAll (a b : Basis3 α) (e : α) :
    Basis3.absDiffEq a b e = Basis3.relAll (fun x y => Approx.absDiffEq x y e) a b := rfl
theorem Basis3.relEq_eq_relAll (a b : Basis3 α) (e m : α) :
    Basis3.relEq a b e m = Basis3.relAll (fun x y => Approx.relEq x y e m) a b := rfl
theorem Basis3.ulpsEq_eq_relAll (a b : Basis3 α) (e : α) (u : Nat) :
    Basis3.ulpsEq a b e u = Basis3.relAll (fun x y => Approx.ulpsEq x y e u) a b := rfl
theorem eulerAbsDiffEq_eq_relAll (a b : α × α × α) (e : α) :
    eulerAbsDiffEq a b e = eulerRelAll (fun x y => Approx.absDiffEq x y e) a b := rfl
/-- `Rad` / `Deg`: the relation of the wrapped scalar, same tolerances -/
theorem angleAbsDiffEq_eq (a b : α) (e : α) : angleAbsDiffEq a b e = Approx.absDiffEq a b e := rfl
theorem eulerRelEq_eq_relAll (a b : α × α × α) (e m : α) :
    eulerRelEq a b e m = eulerRelAll (fun x y => Approx.relEq x y e m) a b := rfl
/-- `Rad` / `Deg`: the relation of the wrapped scalar, same tolerances -/
theorem angleRelEq_eq (a b : α) (e m : α) : angleRelEq a b e m = Approx.relEq a b e m := rfl
theorem eulerUlpsEq_eq_relAll (a b : α × α × α) (e : α) (u : Nat) :
    eulerUlpsEq a b e u = eulerRelAll (fun x y => Approx.ulpsEq x y e u) a b := rfl
/-- `Rad` / `Deg`: the relation of the wrapped scalar, same tolerances -/
theorem angleUlpsEq_eq (a b : α) (e : α) (u : Nat) : angleUlpsEq a b e u = Approx.ulpsEq a b e u := rfl
theorem Decomposed.absDiffEq_eq_relAll {R V : Type} (rr : R → R → α → Bool) (rv : V → V → α → Bool)
    (a b : Decomposed R V α) (e : α) :
    Decomposed.absDiffEq rr rv a b e =
      Decomposed.relAll (fun x y => Approx.absDiffEq x y e) (fun x y => rr x y e) (fun x y => rv x y e) a b := rfl
theorem Decomposed.relEq_eq_relAll {R V : Type} (rr : R → R → α → α → Bool) (rv : V → V → α → α → Bool)
    (a b : Decomposed R V α) (e m : α) :
    Decomposed.relEq rr rv a b e m =
      Decomposed.relAll (fun x y => Approx.relEq x y e m) (fun x y => rr x y e m) (fun x y => rv x y e m) a b := rfl
theorem Decomposed.ulpsEq_eq_relAll {R V : Type} (rr : R → R → α → Nat → Bool) (rv : V → V → α → Nat → Bool)
    (a b : Decomposed R V α) (e : α) (u : Nat) :
    Decomposed.ulpsEq rr rv a b e u =
      Decomposed.relAll (fun x y => Approx.ulpsEq x y e u) (fun x y => rr x y e u) (fun x y => rv x y e u) a b := rfl

/-! ## each relation holds iff the scalar relation with the same tolerances holds on every component pair -/
theorem V1.absDiffEq_iff (a b : V1 α) (e : α) :
    V1.absDiffEq a b e = true ↔ Approx.absDiffEq a.x b.x e = true :=
  V1.relAll_iff (fun x y => Approx.absDiffEq x y e) a b
theorem V1.absDiffEq_false_of_component (a b : V1 α) (e : α)
    (h : Approx.absDiffEq a.x b.x e = false) : V1.absDiffEq a b e = false :=
  V1.relAll_false_of_component (fun x y => Approx.absDiffEq x y e) a b h
theorem V1.relEq_iff (a b : V1 α) (e m : α) :
    V1.relEq a b e m = true ↔ Approx.relEq a.x b.x e m = true :=
  V1.relAll_iff (fun x y => Approx.relEq x y e m) a b
theorem V1.relEq_false_of_component (a b : V1 α) (e m : α)
    (h : Approx.relEq a.x b.x e m = false) : V1.relEq a b e m = false :=
  V1.relAll_false_of_component (fun x y => Approx.relEq x y e m) a b h
theorem V1.ulpsEq_iff (a b : V1 α) (e : α) (u : Nat) :
    V1.ulpsEq a b e u = true ↔ Approx.ulpsEq a.x b.x e u = true :=
  V1.relAll_iff (fun x y => Approx.ulpsEq x y e u) a b
theorem V1.ulpsEq_false_of_component (a b : V1 α) (e : α) (u : Nat)
    (h : Approx.ulpsEq a.x b.x e u = false) : V1.ulpsEq a b e u = false :=
  V1.relAll_false_of_component (fun x y => Approx.ulpsEq x y e u) a b h
theorem V2.absDiffEq_iff (a b : V2 α) (e : α) :
    V2.absDiffEq a b e = true ↔ Approx.absDiffEq a.x b.x e = true ∧ Approx.absDiffEq a.y b.y e = true :=
  V2.relAll_iff (fun x y => Approx.absDiffEq x y e) a b
theorem V2.absDiffEq_false_of_component (a b : V2 α) (e : α)
    (h : Approx.absDiffEq a.x b.x e = false ∨ Approx.absDiffEq a.y b.y e = false) : V2.absDiffEq a b e = false :=
  V2.relAll_false_of_component (fun x y => Approx.absDiffEq x y e) a b h
theorem V2.relEq_iff (a b : V2 α) (e m : α) :
    V2.relEq a b e m = true ↔ Approx.relEq a.x b.x e m = true ∧ Approx.relEq a.y b.y e m = true :=
  V2.relAll_iff (fun x y => Approx.relEq x y e m) a b
theorem V2.relEq_false_of_component (a b : V2 α) (e m : α)
    (h : Approx.relEq a.x b.x e m = false ∨ Approx.relEq a.y b.y e m = false) : V2.relEq a b e m = false :=
  V2.relAll_false_of_component (fun x y => Approx.relEq x y e m) a b h
theorem V2.ulpsEq_iff (a b : V2 α) (e : α) (u : Nat) :
    V2.ulpsEq a b e u = true ↔ Approx.ulpsEq a.x b.x e u = true ∧ Approx.ulpsEq a.y b.y e u = true :=
  V2.relAll_iff (fun x y => Approx.ulpsEq x y e u) a b
theorem V2.ulpsEq_false_of_component (a b : V2 α) (e : α) (u : Nat)
    (h : Approx.ulpsEq a.x b.x e u = false ∨ Approx.ulpsEq a.y b.y e u = false) : V2.ulpsEq a b e u = false :=
  V2.relAll_false_of_component (fun x y => Approx.ulpsEq x y e u) a b h
theorem V3.absDiffEq_iff (a b : V3 α) (e : α) :
    V3.absDiffEq a b e = true ↔ Approx.absDiffEq a.x b.x e = true ∧ Approx.absDiffEq a.y b.y e = true ∧ Approx.absDiffEq a.z b.z e = true :=
  V3.relAll_iff (fun x y => Approx.absDiffEq x y e) a b
theorem V3.absDiffEq_false_of_component (a b : V3 α) (e : α)
    (h : Approx.absDiffEq a.x b.x e = false ∨ Approx.absDiffEq a.y b.y e = false ∨ Approx.absDiffEq a.z b.z e = false) : V3.absDiffEq a b e = false :=
  V3.relAll_false_of_component (fun x y => Approx.absDiffEq x y e) a b h
theorem V3.relEq_iff (a b : V3 α) (e m : α) :
    V3.relEq a b e m = true ↔ Approx.relEq a.x b.x e m = true ∧ Approx.relEq a.y b.y e m = true ∧ Approx.relEq a.z b.z e m = true :=
  V3.relAll_iff (fun x y => Approx.relEq x y e m) a b
theorem V3.relEq_false_of_component (a b : V3 α) (e m : α)
    (h : Approx.relEq a.x b.x e m = false ∨ Approx.relEq a.y b.y e m = false ∨ Approx.relEq a.z b.z e m = false) : V3.relEq a b e m = false :=
  V3.relAll_false_of_component (fun x y => Approx.relEq x y e m) a b h
theorem V3.ulpsEq_iff (a b : V3 α) (e : α) (u : Nat) :
    V3.ulpsEq a b e u = true ↔ Approx.ulpsEq a.x b.x e u = true ∧ Approx.ulpsEq a.y b.y e u = true ∧ Approx.ulpsEq a.z b.z e u = true :=
  V3.relAll_iff (fun x y => Approx.ulpsEq x y e u) a b
theorem V3.ulpsEq_false_of_component (a b : V3 α) (e : α) (u : Nat)
    (h : Approx.ulpsEq a.x b.x e u = false ∨ Approx.ulpsEq a.y b.y e u = false ∨ Approx.ulpsEq a.z b.z e u = false) : V3.ulpsEq a b e u = false :=
  V3.relAll_false_of_component (fun x y => Approx.ulpsEq x y e u) a b h
theorem V4.absDiffEq_iff (a b : V4 α) (e : α) :
    V4.absDiffEq a b e = true ↔ Approx.absDiffEq a.x b.x e = true ∧ Approx.absDiffEq a.y b.y e = true ∧ Approx.absDiffEq a.z b.z e = true ∧ Approx.absDiffEq a.w b.w e = true :=
  V4.relAll_iff (fun x y => Approx.absDiffEq x y e) a b
theorem V4.absDiffEq_false_of_component (a b : V4 α) (e : α)
    (h : Approx.absDiffEq a.x b.x e = false ∨ Approx.absDiffEq a.y b.y e = false ∨ Approx.absDiffEq a.z b.z e = false ∨ Approx.absDiffEq a.w b.w e = false) : V4.absDiffEq a b e = false :=
  V4.relAll_false_of_component (fun x y => Approx.absDiffEq x y e) a b h
theorem V4.relEq_iff (a b : V4 α) (e m : α) :
    V4.relEq a b e m = true ↔ Approx.relEq a.x b.x e m = true ∧ Approx.relEq a.y b.y e m = true ∧ Approx.relEq a.z b.z e m = true ∧ Approx.relEq a.w b.w e m = true :=
  V4.relAll_iff (fun x y => Approx.relEq x y e m) a b
theorem V4.relEq_false_of_component (a b : V4 α) (e m : α)
    (h : Approx.relEq a.x b.x e m = false ∨ Approx.relEq a.y b.y e m = false ∨ Approx.relEq a.z b.z e m = false ∨ Approx.relEq a.w b.w e m = false) : V4.relEq a b e m = false :=
  V4.relAll_false_of_component (fun x y => Approx.relEq x y e m) a b h
theorem V4.ulpsEq_iff (a b : V4 α) (e : α) (u : Nat) :
    V4.ulpsEq a b e u = true ↔ Approx.ulpsEq a.x b.x e u = true ∧ Approx.ulpsEq a.y b.y e u = true ∧ Approx.ulpsEq a.z b.z e u = true ∧ Approx.ulpsEq a.w b.w e u = true :=
  V4.relAll_iff (fun x y => Approx.ulpsEq x y e u) a b
theorem V4.ulpsEq_false_of_component (a b : V4 α) (e : α) (u : Nat)
    (h : Approx.ulpsEq a.x b.x e u = false ∨ Approx.ulpsEq a.y b.y e u = false ∨ Approx.ulpsEq a.z b.z e u = false ∨ Approx.ulpsEq a.w b.w e u = false) : V4.ulpsEq a b e u = false :=
  V4.relAll_false_of_component (fun x y => Approx.ulpsEq x y e u) a b h
theorem P1.absDiffEq_iff (a b : P1 α) (e : α) :
    P1.absDiffEq a b e = true ↔ Approx.absDiffEq a.x b.x e = true :=
  P1.relAll_iff (fun x y => Approx.absDiffEq x y e) a b
theorem P1.absDiffEq_false_of_component (a b : P1 α) (e : α)
    (h : Approx.absDiffEq a.x b.x e = false) : P1.absDiffEq a b e = false :=
  P1.relAll_false_of_component (fun x y => Approx.absDiffEq x y e) a b h
theorem P1.relEq_iff (a b : P1 α) (e m : α) :
    P1.relEq a b e m = true ↔ Approx.relEq a.x b.x e m = true :=
  P1.relAll_iff (fun x y => Approx.relEq x y e m) a b
theorem P1.relEq_false_of_component (a b : P1 α) (e m : α)
    (h : Approx.relEq a.x b.x e m = false) : P1.relEq a b e m = false :=
  P1.relAll_false_of_component (fun x y => Approx.relEq x y e m) a b h
theorem P1.ulpsEq_iff (a b : P1 α) (e : α) (u : Nat) :
    P1.ulpsEq a b e u = true ↔ Approx.ulpsEq a.x b.x e u = true :=
  P1.relAll_iff (fun x y => Approx.ulpsEq x y e u) a b
theorem P1.ulpsEq_false_of_component (a b : P1 α) (e : α) (u : Nat)
    (h : Approx.ulpsEq a.x b.x e u = false) : P1.ulpsEq a b e u = false :=
  P1.relAll_false_of_component (fun x y => Approx.ulpsEq x y e u) a b h
theorem P2.absDiffEq_iff (a b : P2 α) (e : α) :
    P2.absDiffEq a b e = true ↔ Approx.absDiffEq a.x b.x e = true ∧ Approx.absDiffEq a.y b.y e = true :=
  P2.relAll_iff (fun x y => Approx.absDiffEq x y e) a b
theorem P2.absDiffEq_false_of_component (a b : P2 α) (e : α)
    (h : Approx.absDiffEq a.x b.x e = false ∨ Approx.absDiffEq a.y b.y e = false) : P2.absDiffEq a b e = false :=
  P2.relAll_false_of_component (fun x y => Approx.absDiffEq x y e) a b h
theorem P2.relEq_iff (a b : P2 α) (e m : α) :
    P2.relEq a b e m = true ↔ Approx.relEq a.x b.x e m = true ∧ Approx.relEq a.y b.y e m = true :=
  P2.relAll_iff (fun x y => Approx.relEq x y e m) a b
theorem P2.relEq_false_of_component (a b : P2 α) (e m : α)
    (h : Approx.relEq a.x b.x e m = false ∨ Approx.relEq a.y b.y e m = false) : P2.relEq a b e m = false :=
  P2.relAll_false_of_component (fun x y => Approx.relEq x y e m) a b h
theorem P2.ulpsEq_iff (a b : P2 α) (e : α) (u : Nat) :
    P2.ulpsEq a b e u = true ↔ Approx.ulpsEq a.x b.x e u = true ∧ Approx.ulpsEq a.y b.y e u = true :=
  P2.relAll_iff (fun x y => Approx.ulpsEq x y e u) a b
theorem P2.ulpsEq_false_of_component (a b : P2 α) (e : α) (u : Nat)
    (h : Approx.ulpsEq a.x b.x e u = false ∨ Approx.ulpsEq a.y b.y e u = false) : P2.ulpsEq a b e u = false :=
  P2.relAll_false_of_component (fun x y => Approx.ulpsEq x y e u) a b h
theorem P3.absDiffEq_iff (a b : P3 α) (e : α) :
    P3.absDiffEq a b e = true ↔ Approx.absDiffEq a.x b.x e = true ∧ Approx.absDiffEq a.y b.y e = true ∧ Approx.absDiffEq a.z b.z e = true :=
  P3.relAll_iff (fun x y => Approx.absDiffEq x y e) a b
theorem P3.absDiffEq_false_of_component (a b : P3 α) (e : α)
    (h : Approx.absDiffEq a.x b.x e = false ∨ Approx.absDiffEq a.y b.y e = false ∨ Approx.absDiffEq a.z b.z e = false) : P3.absDiffEq a b e = false :=
  P3.relAll_false_of_component (fun x y => Approx.absDiffEq x y e) a b h
theorem P3.relEq_iff (a b : P3 α) (e m : α) :
    P3.relEq a b e m = true ↔ Approx.relEq a.x b.x e m = true ∧ Approx.relEq a.y b.y e m = true ∧ Approx.relEq a.z b.z e m = true :=
  P3.relAll_iff (fun x y => Approx.relEq x y e m) a b
theorem P3.relEq_false_of_component (a b : P3 α) (e m : α)
    (h : Approx.relEq a.x b.x e m = false ∨ Approx.relEq a.y b.y e m = false ∨ Approx.relEq a.z b.z e m = false) : P3.relEq a b e m = false :=
  P3.relAll_false_of_component (fun x y => Approx.relEq x y e m) a b h
theorem P3.ulpsEq_iff (a b : P3 α) (e : α) (u : Nat) :
    P3.ulpsEq a b e u = true ↔ Approx.ulpsEq a.x b.x e u = true ∧ Approx.ulpsEq a.y b.y e u = true ∧ Approx.ulpsEq a.z b.z e u = true :=
  P3.relAll_iff (fun x y => Approx.ulpsEq x y e u) a b
theorem P3.ulpsEq_false_of_component (a b : P3 α) (e : α) (u : Nat)
    (h : Approx.ulpsEq a.x b.x e u = false ∨ Approx.ulpsEq a.y b.y e u = false ∨ Approx.ulpsEq a.z b.z e u = false) : P3.ulpsEq a b e u = false :=
  P3.relAll_false_of_component (fun x y => Approx.ulpsEq x y e u) a b h
theorem M2.absDiffEq_iff (a b : M2 α) (e : α) :
    M2.absDiffEq a b e = true ↔ ∀ p ∈ a.toList.zip b.toList, Approx.absDiffEq p.1 p.2 e = true :=
  M2.relAll_iff (fun x y => Approx.absDiffEq x y e) a b
theorem M2.absDiffEq_iff_elems (a b : M2 α) (e : α) :
    M2.absDiffEq a b e = true ↔ Approx.absDiffEq a.x.x b.x.x e = true ∧ Approx.absDiffEq a.x.y b.x.y e = true ∧ Approx.absDiffEq a.y.x b.y.x e = true ∧ Approx.absDiffEq a.y.y b.y.y e = true :=
  M2.relAll_iff_elems (fun x y => Approx.absDiffEq x y e) a b
theorem M2.absDiffEq_false_of_element (a b : M2 α) (e : α) (p : α × α) (hp : p ∈ a.toList.zip b.toList)
    (h : Approx.absDiffEq p.1 p.2 e = false) : M2.absDiffEq a b e = false :=
  M2.relAll_false_of_element (fun x y => Approx.absDiffEq x y e) a b p hp h
theorem M2.relEq_iff (a b : M2 α) (e m : α) :
    M2.relEq a b e m = true ↔ ∀ p ∈ a.toList.zip b.toList, Approx.relEq p.1 p.2 e m = true :=
  M2.relAll_iff (fun x y => Approx.relEq x y e m) a b
theorem M2.relEq_iff_elems (a b : M2 α) (e m : α) :
    M2.relEq a b e m = true ↔ Approx.relEq a.x.x b.x.x e m = true ∧ Approx.relEq a.x.y b.x.y e m = true ∧ Approx.relEq a.y.x b.y.x e m = true ∧ Approx.relEq a.y.y b.y.y e m = true :=
  M2.relAll_iff_elems (fun x y => Approx.relEq x y e m) a b
theorem M2.relEq_false_of_element (a b : M2 α) (e m : α) (p : α × α) (hp : p ∈ a.toList.zip b.toList)
    (h : Approx.relEq p.1 p.2 e m = false) : M2.relEq a b e m = false :=
  M2.relAll_false_of_element (fun x y => Approx.relEq x y e m) a b p hp h
theorem M2.ulpsEq_iff (a b : M2 α) (e : α) (u : Nat) :
    M2.ulpsEq a b e u = true ↔ ∀ p ∈ a.toList.zip b.toList, Approx.ulpsEq p.1 p.2 e u = true :=
  M2.relAll_iff (fun x y => Approx.ulpsEq x y e u) a b
theorem M2.ulpsEq_iff_elems (a b : M2 α) (e : α) (u : Nat) :
    M2.ulpsEq a b e u = true ↔ Approx.ulpsEq a.x.x b.x.x e u = true ∧ Approx.ulpsEq a.x.y b.x.y e u = true ∧ Approx.ulpsEq a.y.x b.y.x e u = true ∧ Approx.ulpsEq a.y.y b.y.y e u = true :=
  M2.relAll_iff_elems (fun x y => Approx.ulpsEq x y e u) a b
theorem M2.ulpsEq_false_of_element (a b : M2 α) (e : α) (u : Nat) (p : α × α) (hp : p ∈ a.toList.zip b.toList)
    (h : Approx.ulpsEq p.1 p.2 e u = false) : M2.ulpsEq a b e u = false :=
  M2.relAll_false_of_element (fun x y => Approx.ulpsEq x y e u) a b p hp h
theorem M3.absDiffEq_iff (a b : M3 α) (e : α) :
    M3.absDiffEq a b e = true ↔ ∀ p ∈ a.toList.zip b.toList, Approx.absDiffEq p.1 p.2 e = true :=
  M3.relAll_iff (fun x y => Approx.absDiffEq x y e) a b
theorem M3.absDiffEq_iff_elems (a b : M3 α) (e : α) :
    M3.absDiffEq a b e = true ↔ Approx.absDiffEq a.x.x b.x.x e = true ∧ Approx.absDiffEq a.x.y b.x.y e = true ∧ Approx.absDiffEq a.x.z b.x.z e = true ∧ Approx.absDiffEq a.y.x b.y.x e = true ∧ Approx.absDiffEq a.y.y b.y.y e = true ∧ Approx.absDiffEq a.y.z b.y.z e = true ∧ Approx.absDiffEq a.z.x b.z.x e = true ∧ Approx.absDiffEq a.z.y b.z.y e = true ∧ Approx.absDiffEq a.z.z b.z.z e = true :=
  M3.relAll_iff_elems (fun x y => Approx.absDiffEq x y e) a b
theorem M3.absDiffEq_false_of_element (a b : M3 α) (e : α) (p : α × α) (hp : p ∈ a.toList.zip b.toList)
    (h : Approx.absDiffEq p.1 p.2 e = false) : M3.absDiffEq a b e = false :=
  M3.relAll_false_of_element (fun x y => Approx.absDiffEq x y e) a b p hp h
theorem M3.relEq_iff (a b : M3 α) (e m : α) :
    M3.relEq a b e m = true ↔ ∀ p ∈ a.toList.zip b.toList, Approx.relEq p.1 p.2 e m = true :=
  M3.relAll_iff (fun x y => Approx.relEq x y e m) a b
theorem M3.relEq_iff_elems (a b : M3 α) (e m : α) :
    M3.relEq a b e m = true ↔ Approx.relEq a.x.x b.x.x e m = true ∧ Approx.relEq a.x.y b.x.y e m = true ∧ Approx.relEq a.x.z b.x.z e m = true ∧ Approx.relEq a.y.x b.y.x e m = true ∧ Approx.relEq a.y.y b.y.y e m = true ∧ Approx.relEq a.y.z b.y.z e m = true ∧ Approx.relEq a.z.x b.z.x e m = true ∧ Approx.relEq a.z.y b.z.y e m = true ∧ Approx.relEq a.z.z b.z.z e m = true :=
  M3.relAll_iff_elems (fun x y => Approx.relEq x y e m) a b
theorem M3.relEq_false_of_element (a b : M3 α) (e m : α) (p : α × α) (hp : p ∈ a.toList.zip b.toList)
    (h : Approx.relEq p.1 p.2 e m = false) : M3.relEq a b e m = false :=
  M3.relAll_false_of_element (fun x y => Approx.relEq x y e m) a b p hp h
theorem M3.ulpsEq_iff (a b : M3 α) (e : α) (u : Nat) :
    M3.ulpsEq a b e u = true ↔ ∀ p ∈ a.toList.zip b.toList, Approx.ulpsEq p.1 p.2 e u = true :=
  M3.relAll_iff (fun x y => Approx.ulpsEq x y e u) a b
theorem M3.ulpsEq_iff_elems (a b : M3 α) (e : α) (u : Nat) :
    M3.ulpsEq a b e u = true ↔ Approx.ulpsEq a.x.x b.x.x e u = true ∧ Approx.ulpsEq a.x.y b.x.y e u = true ∧ Approx.ulpsEq a.x.z b.x.z e u = true ∧ Approx.ulpsEq a.y.x b.y.x e u = true ∧ Approx.ulpsEq a.y.y b.y.y e u = true ∧ Approx.ulpsEq a.y.z b.y.z e u = true ∧ Approx.ulpsEq a.z.x b.z.x e u = true ∧ Approx.ulpsEq a.z.y b.z.y e u = true ∧ Approx.ulpsEq a.z.z b.z.z e u = true :=
  M3.relAll_iff_elems (fun x y => Approx.ulpsEq x y e u) a b
theorem M3.ulpsEq_false_of_element (a b : M3 α) (e : α) (u : Nat) (p : α × α) (hp : p ∈ a.toList.zip b.toList)
    (h : Approx.ulpsEq p.1 p.2 e u = false) : M3.ulpsEq a b e u = false :=
  M3.relAll_false_of_element (fun x y => Approx.ulpsEq x y e u) a b p hp h
theorem M4.absDiffEq_iff (a b : M4 α) (e : α) :
    M4.absDiffEq a b e = true ↔ ∀ p ∈ a.toList.zip b.toList, Approx.absDiffEq p.1 p.2 e = true :=
  M4.relAll_iff (fun x y => Approx.absDiffEq x y e) a b
theorem M4.absDiffEq_iff_elems (a b : M4 α) (e : α) :
    M4.absDiffEq a b e = true ↔ Approx.absDiffEq a.x.x b.x.x e = true ∧ Approx.absDiffEq a.x.y b.x.y e = true ∧ Approx.absDiffEq a.x.z b.x.z e = true ∧ Approx.absDiffEq a.x.w b.x.w e = true ∧ Approx.absDiffEq a.y.x b.y.x e = true ∧ Approx.absDiffEq a.y.y b.y.y e = true ∧ Approx.absDiffEq a.y.z b.y.z e = true ∧ Approx.absDiffEq a.y.w b.y.w e = true ∧ Approx.absDiffEq a.z.x b.z.x e = true ∧ Approx.absDiffEq a.z.y b.z.y e = true ∧ Approx.absDiffEq a.z.z b.z.z e = true ∧ Approx.absDiffEq a.z.w b.z.w e = true ∧ Approx.absDiffEq a.w.x b.w.x e = true ∧ Approx.absDiffEq a.w.y b.w.y e = true ∧ Approx.absDiffEq a.w.z b.w.z e = true ∧ Approx.absDiffEq a.w.w b.w.w e = true :=
  M4.relAll_iff_elems (fun x y => Approx.absDiffEq x y e) a b
theorem M4.absDiffEq_false_of_element (a b : M4 α) (e : α) (p : α × α) (hp : p ∈ a.toList.zip b.toList)
    (h : Approx.absDiffEq p.1 p.2 e = false) : M4.absDiffEq a b e = false :=
  M4.relAll_false_of_element (fun x y => Approx.absDiffEq x y e) a b p hp h
theorem M4.relEq_iff (a b : M4 α) (e m : α) :
    M4.relEq a b e m = true ↔ ∀ p ∈ a.toList.zip b.toList, Approx.relEq p.1 p.2 e m = true :=
  M4.relAll_iff (fun x y => Approx.relEq x y e m) a b
theorem M4.relEq_iff_elems (a b : M4 α) (e m : α) :
    M4.relEq a b e m = true ↔ Approx.relEq a.x.x b.x.x e m = true ∧ Approx.relEq a.x.y b.x.y e m = true ∧ Approx.relEq a.x.z b.x.z e m = true ∧ Approx.relEq a.x.w b.x.w e m = true ∧ Approx.relEq a.y.x b.y.x e m = true ∧ Approx.relEq a.y.y b.y.y e m = true ∧ Approx.relEq a.y.z b.y.z e m = true ∧ Approx.relEq a.y.w b.y.w e m = true ∧ Approx.relEq a.z.x b.z.x e m = true ∧ Approx.relEq a.z.y b.z.y e m = true ∧ Approx.relEq a.z.z b.z.z e m = true ∧ Approx.relEq a.z.w b.z.w e m = true ∧ Approx.relEq a.w.x b.w.x e m = true ∧ Approx.relEq a.w.y b.w.y e m = true ∧ Approx.relEq a.w.z b.w.z e m = true ∧ Approx.relEq a.w.w b.w.w e m = true :=
  M4.relAll_iff_elems (fun x y => Approx.relEq x y e m) a b
theorem M4.relEq_false_of_element (a b : M4 α) (e m : α) (p : α × α) (hp : p ∈ a.toList.zip b.toList)
    (h : Approx.relEq p.1 p.2 e m = false) : M4.relEq a b e m = false :=
  M4.relAll_false_of_element (fun x y => Approx.relEq x y e m) a b p hp h
theorem M4.ulpsEq_iff (a b : M4 α) (e : α) (u : Nat) :
    M4.ulpsEq a b e u = true ↔ ∀ p ∈ a.toList.zip b.toList, Approx.ulpsEq p.1 p.2 e u = true :=
  M4.relAll_iff (fun x y => Approx.ulpsEq x y e u) a b
theorem M4.ulpsEq_iff_elems (a b : M4 α) (e : α) (u : Nat) :
    M4.ulpsEq a b e u = true ↔ Approx.ulpsEq a.x.x b.x.x e u = true ∧ Approx.ulpsEq a.x.y b.x.y e u = true ∧ Approx.ulpsEq a.x.z b.x.z e u = true ∧ Approx.ulpsEq a.x.w b.x.w e u = true ∧ Approx.ulpsEq a.y.x b.y.x e u = true ∧ Approx.ulpsEq a.y.y b.y.y e u = true ∧ Approx.ulpsEq a.y.z b.y.z e u = true ∧ Approx.ulpsEq a.y.w b.y.w e u = true ∧ Approx.ulpsEq a.z.x b.z.x e u = true ∧ Approx.ulpsEq a.z.y b.z.y e u = true ∧ Approx.ulpsEq a.z.z b.z.z e u = true ∧ Approx.ulpsEq a.z.w b.z.w e u = true ∧ Approx.ulpsEq a.w.x b.w.x e u = true ∧ Approx.ulpsEq a.w.y b.w.y e u = true ∧ Approx.ulpsEq a.w.z b.w.z e u = true ∧ Approx.ulpsEq a.w.w b.w.w e u = true :=
  M4.relAll_iff_elems (fun x y => Approx.ulpsEq x y e u) a b
theorem M4.ulpsEq_false_of_element (a b : M4 α) (e : α) (u : Nat) (p : α × α) (hp : p ∈ a.toList.zip b.toList)
    (h : Approx.ulpsEq p.1 p.2 e u = false) : M4.ulpsEq a b e u = false :=
  M4.relAll_false_of_element (fun x y => Approx.ulpsEq x y e u) a b p hp h
theorem Basis2.absDiffEq_iff (a b : Basis2 α) (e : α) :
    Basis2.absDiffEq a b e = true ↔ ∀ p ∈ a.mat.toList.zip b.mat.toList, Approx.absDiffEq p.1 p.2 e = true :=
  M2.relAll_iff (fun x y => Approx.absDiffEq x y e) a.mat b.mat
theorem Basis2.absDiffEq_iff_elems (a b : Basis2 α) (e : α) :
    Basis2.absDiffEq a b e = true ↔ Approx.absDiffEq a.mat.x.x b.mat.x.x e = true ∧ Approx.absDiffEq a.mat.x.y b.mat.x.y e = true ∧ Approx.absDiffEq a.mat.y.x b.mat.y.x e = true ∧ Approx.absDiffEq a.mat.y.y b.mat.y.y e = true :=
  M2.relAll_iff_elems (fun x y => Approx.absDiffEq x y e) a.mat b.mat
theorem Basis2.absDiffEq_false_of_element (a b : Basis2 α) (e : α) (p : α × α) (hp : p ∈ a.mat.toList.zip b.mat.toList)
    (h : Approx.absDiffEq p.1 p.2 e = false) : Basis2.absDiffEq a b e = false :=
  M2.relAll_false_of_element (fun x y => Approx.absDiffEq x y e) a.mat b.mat p hp h
theorem Basis2.relEq_iff (a b : Basis2 α) (e m : α) :
    Basis2.relEq a b e m = true ↔ ∀ p ∈ a.mat.toList.zip b.mat.toList, Approx.relEq p.1 p.2 e m = true :=
  M2.relAll_iff (fun x y => Approx.relEq x y e m) a.mat b.mat
theorem Basis2.relEq_iff_elems (a b : Basis2 α) (e m : α) :
    Basis2.relEq a b e m = true ↔ Approx.relEq a.mat.x.x b.mat.x.x e m = true ∧ Approx.relEq a.mat.x.y b.mat.x.y e m = true ∧ Approx.relEq a.mat.y.x b.mat.y.x e m = true ∧ Approx.relEq a.mat.y.y b.mat.y.y e m = true :=
  M2.relAll_iff_elems (fun x y => Approx.relEq x y e m) a.mat b.mat
theorem Basis2.relEq_false_of_element (a b : Basis2 α) (e m : α) (p : α × α) (hp : p ∈ a.mat.toList.zip b.mat.toList)
    (h : Approx.relEq p.1 p.2 e m = false) : Basis2.relEq a b e m = false :=
  M2.relAll_false_of_element (fun x y => Approx.relEq x y e m) a.mat b.mat p hp h
theorem Basis2.ulpsEq_iff (a b : Basis2 α) (e : α) (u : Nat) :
    Basis2.ulpsEq a b e u = true ↔ ∀ p ∈ a.mat.toList.zip b.mat.toList, Approx.ulpsEq p.1 p.2 e u = true :=
  M2.relAll_iff (fun x y => Approx.ulpsEq x y e u) a.mat b.mat
theorem Basis2.ulpsEq_iff_elems (a b : Basis2 α) (e : α) (u : Nat) :
    Basis2.ulpsEq a b e u = true ↔ Approx.ulpsEq a.mat.x.x b.mat.x.x e u = true ∧ Approx.ulpsEq a.mat.x.y b.mat.x.y e u = true ∧ Approx.ulpsEq a.mat.y.x b.mat.y.x e u = true ∧ Approx.ulpsEq a.mat.y.y b.mat.y.y e u = true :=
  M2.relAll_iff_elems (fun x y => Approx.ulpsEq x y e u) a.mat b.mat
theorem Basis2.ulpsEq_false_of_element (a b : Basis2 α) (e : α) (u : Nat) (p : α × α) (hp : p ∈ a.mat.toList.zip b.mat.toList)
    (h : Approx.ulpsEq p.1 p.2 e u = false) : Basis2.ulpsEq a b e u = false :=
  M2.relAll_false_of_element (fun x y => Approx.ulpsEq x y e u) a.mat b.mat p hp h
theorem Basis3.absDiffEq_iff (a b : Basis3 α) (e : α) :
    Basis3.absDiffEq a b e = true ↔ ∀ p ∈ a.mat.toList.zip b.mat.toList, Approx.absDiffEq p.1 p.2 e = true :=
  M3.relAll_iff (fun x y => Approx.absDiffEq x y e) a.mat b.mat
theorem Basis3.absDiffEq_iff_elems (a b : Basis3 α) (e : α) :
    Basis3.absDiffEq a b e = true ↔ Approx.absDiffEq a.mat.x.x b.mat.x.x e = true ∧ Approx.absDiffEq a.mat.x.y b.mat.x.y e = true ∧ Approx.absDiffEq a.mat.x.z b.mat.x.z e = true ∧ Approx.absDiffEq a.mat.y.x b.mat.y.x e = true ∧ Approx.absDiffEq a.mat.y.y b.mat.y.y e = true ∧ Approx.absDiffEq a.mat.y.z b.mat.y.z e = true ∧ Approx.absDiffEq a.mat.z.x b.mat.z.x e = true ∧ Approx.absDiffEq a.mat.z.y b.mat.z.y e = true ∧ Approx.absDiffEq a.mat.z.z b.mat.z.z e = true :=
  M3.relAll_iff_elems (fun x y => Approx.absDiffEq x y e) a.mat b.mat
theorem Basis3.absDiffEq_false_of_element (a b : Basis3 α) (e : α) (p : α × α) (hp : p ∈ a.mat.toList.zip b.mat.toList)
    (h : Approx.absDiffEq p.1 p.2 e = false) : Basis3.absDiffEq a b e = false :=
  M3.relAll_false_of_element (fun x y => Approx.absDiffEq x y e) a.mat b.mat p hp h
theorem Basis3.relEq_iff (a b : Basis3 α) (e m : α) :
    Basis3.relEq a b e m = true ↔ ∀ p ∈ a.mat.toList.zip b.mat.toList, Approx.relEq p.1 p.2 e m = true :=
  M3.relAll_iff (fun x y => Approx.relEq x y e m) a.mat b.mat
theorem Basis3.relEq_iff_elems (a b : Basis3 α) (e m : α) :
    Basis3.relEq a b e m = true ↔ Approx.relEq a.mat.x.x b.mat.x.x e m = true ∧ Approx.relEq a.mat.x.y b.mat.x.y e m = true ∧ Approx.relEq a.mat.x.z b.mat.x.z e m = true ∧ Approx.relEq a.mat.y.x b.mat.y.x e m = true ∧ Approx.relEq a.mat.y.y b.mat.y.y e m = true ∧ Approx.relEq a.mat.y.z b.mat.y.z e m = true ∧ Approx.relEq a.mat.z.x b.mat.z.x e m = true ∧ Approx.relEq a.mat.z.y b.mat.z.y e m = true ∧ Approx.relEq a.mat.z.z b.mat.z.z e m = true :=
  M3.relAll_iff_elems (fun x y => Approx.relEq x y e m) a.mat b.mat
theorem Basis3.relEq_false_of_element (a b : Basis3 α) (e m : α) (p : α × α) (hp : p ∈ a.mat.toList.zip b.mat.toList)
    (h : Approx.relEq p.1 p.2 e m = false) : Basis3.relEq a b e m = false :=
  M3.relAll_false_of_element (fun x y => Approx.relEq x y e m) a.mat b.mat p hp h
theorem Basis3.ulpsEq_iff (a b : Basis3 α) (e : α) (u : Nat) :
    Basis3.ulpsEq a b e u = true ↔ ∀ p ∈ a.mat.toList.zip b.mat.toList, Approx.ulpsEq p.1 p.2 e u = true :=
  M3.relAll_iff (fun x y => Approx.ulpsEq x y e u) a.mat b.mat
theorem Basis3.ulpsEq_iff_elems (a b : Basis3 α) (e : α) (u : Nat) :
    Basis3.ulpsEq a b e u = true ↔ Approx.ulpsEq a.mat.x.x b.mat.x.x e u = true ∧ Approx.ulpsEq a.mat.x.y b.mat.x.y e u = true ∧ Approx.ulpsEq a.mat.x.z b.mat.x.z e u = true ∧ Approx.ulpsEq a.mat.y.x b.mat.y.x e u = true ∧ Approx.ulpsEq a.mat.y.y b.mat.y.y e u = true ∧ Approx.ulpsEq a.mat.y.z b.mat.y.z e u = true ∧ Approx.ulpsEq a.mat.z.x b.mat.z.x e u = true ∧ Approx.ulpsEq a.mat.z.y b.mat.z.y e u = true ∧ Approx.ulpsEq a.mat.z.z b.mat.z.z e u = true :=
  M3.relAll_iff_elems (fun x y => Approx.ulpsEq x y e u) a.mat b.mat
theorem Basis3.ulpsEq_false_of_element (a b : Basis3 α) (e : α) (u : Nat) (p : α × α) (hp : p ∈ a.mat.toList.zip b.mat.toList)
    (h : Approx.ulpsEq p.1 p.2 e u = false) : Basis3.ulpsEq a b e u = false :=
  M3.relAll_false_of_element (fun x y => Approx.ulpsEq x y e u) a.mat b.mat p hp h
theorem Quat.absDiffEq_iff (a b : Quat α) (e : α) :
    Quat.absDiffEq a b e = true ↔ Approx.absDiffEq a.s b.s e = true ∧ Approx.absDiffEq a.v.x b.v.x e = true ∧ Approx.absDiffEq a.v.y b.v.y e = true ∧ Approx.absDiffEq a.v.z b.v.z e = true :=
  Quat.relAll_iff (fun x y => Approx.absDiffEq x y e) a b
theorem Quat.absDiffEq_false_of_component (a b : Quat α) (e : α)
    (h : Approx.absDiffEq a.s b.s e = false ∨ Approx.absDiffEq a.v.x b.v.x e = false ∨ Approx.absDiffEq a.v.y b.v.y e = false ∨ Approx.absDiffEq a.v.z b.v.z e = false) : Quat.absDiffEq a b e = false :=
  Quat.relAll_false_of_component (fun x y => Approx.absDiffEq x y e) a b h
theorem eulerAbsDiffEq_iff (a b : α × α × α) (e : α) :
    eulerAbsDiffEq a b e = true ↔ Approx.absDiffEq a.1 b.1 e = true ∧ Approx.absDiffEq a.2.1 b.2.1 e = true ∧ Approx.absDiffEq a.2.2 b.2.2 e = true :=
  euler_relAll_iff (fun x y => Approx.absDiffEq x y e) a b
theorem eulerAbsDiffEq_false_of_component (a b : α × α × α) (e : α)
    (h : Approx.absDiffEq a.1 b.1 e = false ∨ Approx.absDiffEq a.2.1 b.2.1 e = false ∨ Approx.absDiffEq a.2.2 b.2.2 e = false) : eulerAbsDiffEq a b e = false :=
  eulerRelAll_false_of_component (fun x y => Approx.absDiffEq x y e) a b h
theorem angleAbsDiffEq_iff (a b : α) (e : α) : angleAbsDiffEq a b e = true ↔ Approx.absDiffEq a b e = true := Iff.rfl
theorem Quat.relEq_iff (a b : Quat α) (e m : α) :
    Quat.relEq a b e m = true ↔ Approx.relEq a.s b.s e m = true ∧ Approx.relEq a.v.x b.v.x e m = true ∧ Approx.relEq a.v.y b.v.y e m = true ∧ Approx.relEq a.v.z b.v.z e m = true :=
  Quat.relAll_iff (fun x y => Approx.relEq x y e m) a b
theorem Quat.relEq_false_of_component (a b : Quat α) (e m : α)
    (h : Approx.relEq a.s b.s e m = false ∨ Approx.relEq a.v.x b.v.x e m = false ∨ Approx.relEq a.v.y b.v.y e m = false ∨ Approx.relEq a.v.z b.v.z e m = false) : Quat.relEq a b e m = false :=
  Quat.relAll_false_of_component (fun x y => Approx.relEq x y e m) a b h
theorem eulerRelEq_iff (a b : α × α × α) (e m : α) :
    eulerRelEq a b e m = true ↔ Approx.relEq a.1 b.1 e m = true ∧ Approx.relEq a.2.1 b.2.1 e m = true ∧ Approx.relEq a.2.2 b.2.2 e m = true :=
  euler_relAll_iff (fun x y => Approx.relEq x y e m) a b
theorem eulerRelEq_false_of_component (a b : α × α × α) (e m : α)
    (h : Approx.relEq a.1 b.1 e m = false ∨ Approx.relEq a.2.1 b.2.1 e m = false ∨ Approx.relEq a.2.2 b.2.2 e m = false) : eulerRelEq a b e m = false :=
  eulerRelAll_false_of_component (fun x y => Approx.relEq x y e m) a b h
theorem angleRelEq_iff (a b : α) (e m : α) : angleRelEq a b e m = true ↔ Approx.relEq a b e m = true := Iff.rfl
theorem Quat.ulpsEq_iff (a b : Quat α) (e : α) (u : Nat) :
    Quat.ulpsEq a b e u = true ↔ Approx.ulpsEq a.s b.s e u = true ∧ Approx.ulpsEq a.v.x b.v.x e u = true ∧ Approx.ulpsEq a.v.y b.v.y e u = true ∧ Approx.ulpsEq a.v.z b.v.z e u = true :=
  Quat.relAll_iff (fun x y => Approx.ulpsEq x y e u) a b
theorem Quat.ulpsEq_false_of_component (a b : Quat α) (e : α) (u : Nat)
    (h : Approx.ulpsEq a.s b.s e u = false ∨ Approx.ulpsEq a.v.x b.v.x e u = false ∨ Approx.ulpsEq a.v.y b.v.y e u = false ∨ Approx.ulpsEq a.v.z b.v.z e u = false) : Quat.ulpsEq a b e u = false :=
  Quat.relAll_false_of_component (fun x y => Approx.ulpsEq x y e u) a b h
theorem eulerUlpsEq_iff (a b : α × α × α) (e : α) (u : Nat) :
    eulerUlpsEq a b e u = true ↔ Approx.ulpsEq a.1 b.1 e u = true ∧ Approx.ulpsEq a.2.1 b.2.1 e u = true ∧ Approx.ulpsEq a.2.2 b.2.2 e u = true :=
  euler_relAll_iff (fun x y => Approx.ulpsEq x y e u) a b
theorem eulerUlpsEq_false_of_component (a b : α × α × α) (e : α) (u : Nat)
    (h : Approx.ulpsEq a.1 b.1 e u = false ∨ Approx.ulpsEq a.2.1 b.2.1 e u = false ∨ Approx.ulpsEq a.2.2 b.2.2 e u = false) : eulerUlpsEq a b e u = false :=
  eulerRelAll_false_of_component (fun x y => Approx.ulpsEq x y e u) a b h
theorem angleUlpsEq_iff (a b : α) (e : α) (u : Nat) : angleUlpsEq a b e u = true ↔ Approx.ulpsEq a b e u = true := Iff.rfl
end link

/-! ## reflexive and symmetric for non-negative tolerances (`ApproxLaws`), unconditional in the relation -/
section laws
variable [Field α] [LinearOrder α] [Approx α] (S : ApproxLaws α)
include S
theorem V1.absDiffEq_refl (a : V1 α) (e : α) (he : 0 ≤ e) : V1.absDiffEq a a e = true :=
  V1.relAll_refl_of (fun x y => Approx.absDiffEq x y e) (fun x => S.absDiffEq_refl x e he) a
theorem V1.absDiffEq_symm (a b : V1 α) (e : α) : V1.absDiffEq a b e = V1.absDiffEq b a e :=
  V1.relAll_symm_of (fun x y => Approx.absDiffEq x y e) (fun x y => S.absDiffEq_symm x y e) a b
theorem V1.relEq_refl (a : V1 α) (e m : α) (he : 0 ≤ e) (hm : 0 ≤ m) : V1.relEq a a e m = true :=
  V1.relAll_refl_of (fun x y => Approx.relEq x y e m) (fun x => S.relEq_refl x e m he hm) a
theorem V1.relEq_symm (a b : V1 α) (e m : α) : V1.relEq a b e m = V1.relEq b a e m :=
  V1.relAll_symm_of (fun x y => Approx.relEq x y e m) (fun x y => S.relEq_symm x y e m) a b
theorem V1.ulpsEq_refl (a : V1 α) (e : α) (u : Nat) (he : 0 ≤ e) : V1.ulpsEq a a e u = true :=
  V1.relAll_refl_of (fun x y => Approx.ulpsEq x y e u) (fun x => S.ulpsEq_refl x e u he) a
theorem V1.ulpsEq_symm (a b : V1 α) (e : α) (u : Nat) : V1.ulpsEq a b e u = V1.ulpsEq b a e u :=
  V1.relAll_symm_of (fun x y => Approx.ulpsEq x y e u) (fun x y => S.ulpsEq_symm x y e u) a b
theorem V2.absDiffEq_refl (a : V2 α) (e : α) (he : 0 ≤ e) : V2.absDiffEq a a e = true :=
  V2.relAll_refl_of (fun x y => Approx.absDiffEq x y e) (fun x => S.absDiffEq_refl x e he) a
theorem V2.absDiffEq_symm (a b : V2 α) (e : α) : V2.absDiffEq a b e = V2.absDiffEq b a e :=
  V2.relAll_symm_of (fun x y => Approx.absDiffEq x y e) (fun x y => S.absDiffEq_symm x y e) a b
theorem V2.relEq_refl (a : V2 α) (e m : α) (he : 0 ≤ e) (hm : 0 ≤ m) : V2.relEq a a e m = true :=
  V2.relAll_refl_of (fun x y => Approx.relEq x y e m) (fun x => S.relEq_refl x e m he hm) a
theorem V2.relEq_symm (a b : V2 α) (e m : α) : V2.relEq a b e m = V2.relEq b a e m :=
  V2.relAll_symm_of (fun x y => Approx.relEq x y e m) (fun x y => S.relEq_symm x y e m) a b
theorem V2.ulpsEq_refl (a : V2 α) (e : α) (u : Nat) (he : 0 ≤ e) : V2.ulpsEq a a e u = true :=
  V2.relAll_refl_of (fun x y => Approx.ulpsEq x y e u) (fun x => S.ulpsEq_refl x e u he) a
theorem V2.ulpsEq_symm (a b : V2 α) (e : α) (u : Nat) : V2.ulpsEq a b e u = V2.ulpsEq b a e u :=
  V2.relAll_symm_of (fun x y => Approx.ulpsEq x y e u) (fun x y => S.ulpsEq_symm x y e u) a b
theorem V3.absDiffEq_refl (a : V3 α) (e : α) (he : 0 ≤ e) : V3.absDiffEq a a e = true :=
  V3.relAll_refl_of (fun x y => Approx.absDiffEq x y e) (fun x => S.absDiffEq_refl x e he) a
theorem V3.absDiffEq_symm (a b : V3 α) (e : α) : V3.absDiffEq a b e = V3.absDiffEq b a e :=
  V3.relAll_symm_of (fun x y => Approx.absDiffEq x y e) (fun x y => S.absDiffEq_symm x y e) a b
theorem V3.relEq_refl (a : V3 α) (e m : α) (he : 0 ≤ e) (hm : 0 ≤ m) : V3.relEq a a e m = true :=
  V3.relAll_refl_of (fun x y => Approx.relEq x y e m) (fun x => S.relEq_refl x e m he hm) a
theorem V3.relEq_symm (a b : V3 α) (e m : α) : V3.relEq a b e m = V3.relEq b a e m :=
  V3.relAll_symm_of (fun x y => Approx.relEq x y e m) (fun x y => S.relEq_symm x y e m) a b
theorem V3.ulpsEq_refl (a : V3 α) (e : α) (u : Nat) (he : 0 ≤ e) : V3.ulpsEq a a e u = true :=
  V3.relAll_refl_of (fun x y => Approx.ulpsEq x y e u) (fun x => S.ulpsEq_refl x e u he) a
theorem V3.ulpsEq_symm (a b : V3 α) (e : α) (u : Nat) : V3.ulpsEq a b e u = V3.ulpsEq b a e u :=
  V3.relAll_symm_of (fun x y => Approx.ulpsEq x y e u) (fun x y => S.ulpsEq_symm x y e u) a b
theorem V4.absDiffEq_refl (a : V4 α) (e : α) (he : 0 ≤ e) : V4.absDiffEq a a e = true :=
  V4.relAll_refl_of (fun x y => Approx.absDiffEq x y e) (fun x => S.absDiffEq_refl x e he) a
theorem V4.absDiffEq_symm (a b : V4 α) (e : α) : V4.absDiffEq a b e = V4.absDiffEq b a e :=
  V4.relAll_symm_of (fun x y => Approx.absDiffEq x y e) (fun x y => S.absDiffEq_symm x y e) a b
theorem V4.relEq_refl (a : V4 α) (e m : α) (he : 0 ≤ e) (hm : 0 ≤ m) : V4.relEq a a e m = true :=
  V4.relAll_refl_of (fun x y => Approx.relEq x y e m) (fun x => S.relEq_refl x e m he hm) a
theorem V4.relEq_symm (a b : V4 α) (e m : α) : V4.relEq a b e m = V4.relEq b a e m :=
  V4.relAll_symm_of (fun x y => Approx.relEq x y e m) (fun x y => S.relEq_symm x y e m) a b
theorem V4.ulpsEq_refl (a : V4 α) (e : α) (u : Nat) (he : 0 ≤ e) : V4.ulpsEq a a e u = true :=
  V4.relAll_refl_of (fun x y => Approx.ulpsEq x y e u) (fun x => S.ulpsEq_refl x e u he) a
theorem V4.ulpsEq_symm (a b : V4 α) (e : α) (u : Nat) : V4.ulpsEq a b e u = V4.ulpsEq b a e u :=
  V4.relAll_symm_of (fun x y => Approx.ulpsEq x y e u) (fun x y => S.ulpsEq_symm x y e u) a b
theorem P1.absDiffEq_refl (a : P1 α) (e : α) (he : 0 ≤ e) : P1.absDiffEq a a e = true :=
  P1.relAll_refl_of (fun x y => Approx.absDiffEq x y e) (fun x => S.absDiffEq_refl x e he) a
theorem P1.absDiffEq_symm (a b : P1 α) (e : α) : P1.absDiffEq a b e = P1.absDiffEq b a e :=
  P1.relAll_symm_of (fun x y => Approx.absDiffEq x y e) (fun x y => S.absDiffEq_symm x y e) a b
theorem P1.relEq_refl (a : P1 α) (e m : α) (he : 0 ≤ e) (hm : 0 ≤ m) : P1.relEq a a e m = true :=
  P1.relAll_refl_of (fun x y => Approx.relEq x y e m) (fun x => S.relEq_refl x e m he hm) a
theorem P1.relEq_symm (a b : P1 α) (e m : α) : P1.relEq a b e m = P1.relEq b a e m :=
  P1.relAll_symm_of (fun x y => Approx.relEq x y e m) (fun x y => S.relEq_symm x y e m) a b
theorem P1.ulpsEq_refl (a : P1 α) (e : α) (u : Nat) (he : 0 ≤ e) : P1.ulpsEq a a e u = true :=
  P1.relAll_refl_of (fun x y => Approx.ulpsEq x y e u) (fun x => S.ulpsEq_refl x e u he) a
theorem P1.ulpsEq_symm (a b : P1 α) (e : α) (u : Nat) : P1.ulpsEq a b e u = P1.ulpsEq b a e u :=
  P1.relAll_symm_of (fun x y => Approx.ulpsEq x y e u) (fun x y => S.ulpsEq_symm x y e u) a b
theorem P2.absDiffEq_refl (a : P2 α) (e : α) (he : 0 ≤ e) : P2.absDiffEq a a e = true :=
  P2.relAll_refl_of (fun x y => Approx.absDiffEq x y e) (fun x => S.absDiffEq_refl x e he) a
theorem P2.absDiffEq_symm (a b : P2 α) (e : α) : P2.absDiffEq a b e = P2.absDiffEq b a e :=
  P2.relAll_symm_of (fun x y => Approx.absDiffEq x y e) (fun x y => S.absDiffEq_symm x y e) a b
theorem P2.relEq_refl (a : P2 α) (e m : α) (he : 0 ≤ e) (hm : 0 ≤ m) : P2.relEq a a e m = true :=
  P2.relAll_refl_of (fun x y => Approx.relEq x y e m) (fun x => S.relEq_refl x e m he hm) a
theorem P2.relEq_symm (a b : P2 α) (e m : α) : P2.relEq a b e m = P2.relEq b a e m :=
  P2.relAll_symm_of (fun x y => Approx.relEq x y e m) (fun x y => S.relEq_symm x y e m) a b
theorem P2.ulpsEq_refl (a : P2 α) (e : α) (u : Nat) (he : 0 ≤ e) : P2.ulpsEq a a e u = true :=
  P2.relAll_refl_of (fun x y => Approx.ulpsEq x y e u) (fun x => S.ulpsEq_refl x e u he) a
theorem P2.ulpsEq_symm (a b : P2 α) (e : α) (u : Nat) : P2.ulpsEq a b e u = P2.ulpsEq b a e u :=
  P2.relAll_symm_of (fun x y => Approx.ulpsEq x y e u) (fun x y => S.ulpsEq_symm x y e u) a b
theorem P3.absDiffEq_refl (a : P3 α) (e : α) (he : 0 ≤ e) : P3.absDiffEq a a e = true :=
  P3.relAll_refl_of (fun x y => Approx.absDiffEq x y e) (fun x => S.absDiffEq_refl x e he) a
theorem P3.absDiffEq_symm (a b : P3 α) (e : α) : P3.absDiffEq a b e = P3.absDiffEq b a e :=
  P3.relAll_symm_of (fun x y => Approx.absDiffEq x y e) (fun x y => S.absDiffEq_symm x y e) a b
theorem P3.relEq_refl (a : P3 α) (e m : α) (he : 0 ≤ e) (hm : 0 ≤ m) : P3.relEq a a e m = true :=
  P3.relAll_refl_of (fun x y => Approx.relEq x y e m) (fun x => S.relEq_refl x e m he hm) a
theorem P3.relEq_symm (a b : P3 α) (e m : α) : P3.relEq a b e m = P3.relEq b a e m :=
  P3.relAll_symm_of (fun x y => Approx.relEq x y e m) (fun x y => S.relEq_symm x y e m) a b
theorem P3.ulpsEq_refl (a : P3 α) (e : α) (u : Nat) (he : 0 ≤ e) : P3.ulpsEq a a e u = true :=
  P3.relAll_refl_of (fun x y => Approx.ulpsEq x y e u) (fun x => S.ulpsEq_refl x e u he) a
theorem P3.ulpsEq_symm (a b : P3 α) (e : α) (u : Nat) : P3.ulpsEq a b e u = P3.ulpsEq b a e u :=
  P3.relAll_symm_of (fun x y => Approx.ulpsEq x y e u) (fun x y => S.ulpsEq_symm x y e u) a b
theorem M2.absDiffEq_refl (a : M2 α) (e : α) (he : 0 ≤ e) : M2.absDiffEq a a e = true :=
  M2.relAll_refl_of (fun x y => Approx.absDiffEq x y e) (fun x => S.absDiffEq_refl x e he) a
theorem M2.absDiffEq_symm (a b : M2 α) (e : α) : M2.absDiffEq a b e = M2.absDiffEq b a e :=
  M2.relAll_symm_of (fun x y => Approx.absDiffEq x y e) (fun x y => S.absDiffEq_symm x y e) a b
theorem M2.relEq_refl (a : M2 α) (e m : α) (he : 0 ≤ e) (hm : 0 ≤ m) : M2.relEq a a e m = true :=
  M2.relAll_refl_of (fun x y => Approx.relEq x y e m) (fun x => S.relEq_refl x e m he hm) a
theorem M2.relEq_symm (a b : M2 α) (e m : α) : M2.relEq a b e m = M2.relEq b a e m :=
  M2.relAll_symm_of (fun x y => Approx.relEq x y e m) (fun x y => S.relEq_symm x y e m) a b
theorem M2.ulpsEq_refl (a : M2 α) (e : α) (u : Nat) (he : 0 ≤ e) : M2.ulpsEq a a e u = true :=
  M2.relAll_refl_of (fun x y => Approx.ulpsEq x y e u) (fun x => S.ulpsEq_refl x e u he) a
theorem M2.ulpsEq_symm (a b : M2 α) (e : α) (u : Nat) : M2.ulpsEq a b e u = M2.ulpsEq b a e u :=
  M2.relAll_symm_of (fun x y => Approx.ulpsEq x y e u) (fun x y => S.ulpsEq_symm x y e u) a b
theorem M3.absDiffEq_refl (a : M3 α) (e : α) (he : 0 ≤ e) : M3.absDiffEq a a e = true :=
  M3.relAll_refl_of (fun x y => Approx.absDiffEq x y e) (fun x => S.absDiffEq_refl x e he) a
theorem M3.absDiffEq_symm (a b : M3 α) (e : α) : M3.absDiffEq a b e = M3.absDiffEq b a e :=
  M3.relAll_symm_of (fun x y => Approx.absDiffEq x y e) (fun x y => S.absDiffEq_symm x y e) a b
theorem M3.relEq_refl (a : M3 α) (e m : α) (he : 0 ≤ e) (hm : 0 ≤ m) : M3.relEq a a e m = true :=
  M3.relAll_refl_of (fun x y => Approx.relEq x y e m) (fun x => S.relEq_refl x e m he hm) a
theorem M3.relEq_symm (a b : M3 α) (e m : α) : M3.relEq a b e m = M3.relEq b a e m :=
  M3.relAll_symm_of (fun x y => Approx.relEq x y e m) (fun x y => S.relEq_symm x y e m) a b
theorem M3.ulpsEq_refl (a : M3 α) (e : α) (u : Nat) (he : 0 ≤ e) : M3.ulpsEq a a e u = true :=
  M3.relAll_refl_of (fun x y => Approx.ulpsEq x y e u) (fun x => S.ulpsEq_refl x e u he) a
theorem M3.ulpsEq_symm (a b : M3 α) (e : α) (u : Nat) : M3.ulpsEq a b e u = M3.ulpsEq b a e u :=
  M3.relAll_symm_of (fun x y => Approx.ulpsEq x y e u) (fun x y => S.ulpsEq_symm x y e u) a b
theorem M4.absDiffEq_refl (a : M4 α) (e : α) (he : 0 ≤ e) : M4.absDiffEq a a e = true :=
  M4.relAll_refl_of (fun x y => Approx.absDiffEq x y e) (fun x => S.absDiffEq_refl x e he) a
theorem M4.absDiffEq_symm (a b : M4 α) (e : α) : M4.absDiffEq a b e = M4.absDiffEq b a e :=
  M4.relAll_symm_of (fun x y => Approx.absDiffEq x y e) (fun x y => S.absDiffEq_symm x y e) a b
theorem M4.relEq_refl (a : M4 α) (e m : α) (he : 0 ≤ e) (hm : 0 ≤ m) : M4.relEq a a e m = true :=
  M4.relAll_refl_of (fun x y => Approx.relEq x y e m) (fun x => S.relEq_refl x e m he hm) a
theorem M4.relEq_symm (a b : M4 α) (e m : α) : M4.relEq a b e m = M4.relEq b a e m :=
  M4.relAll_symm_of (fun x y => Approx.relEq x y e m) (fun x y => S.relEq_symm x y e m) a b
theorem M4.ulpsEq_refl (a : M4 α) (e : α) (u : Nat) (he : 0 ≤ e) : M4.ulpsEq a a e u = true :=
  M4.relAll_refl_of (fun x y => Approx.ulpsEq x y e u) (fun x => S.ulpsEq_refl x e u he) a
theorem M4.ulpsEq_symm (a b : M4 α) (e : α) (u : Nat) : M4.ulpsEq a b e u = M4.ulpsEq b a e u :=
  M4.relAll_symm_of (fun x y => Approx.ulpsEq x y e u) (fun x y => S.ulpsEq_symm x y e u) a b
theorem Quat.absDiffEq_refl (a : Quat α) (e : α) (he : 0 ≤ e) : Quat.absDiffEq a a e = true :=
  Quat.relAll_refl_of (fun x y => Approx.absDiffEq x y e) (fun x => S.absDiffEq_refl x e he) a
theorem Quat.absDiffEq_symm (a b : Quat α) (e : α) : Quat.absDiffEq a b e = Quat.absDiffEq b a e :=
  Quat.relAll_symm_of (fun x y => Approx.absDiffEq x y e) (fun x y => S.absDiffEq_symm x y e) a b
theorem Quat.relEq_refl (a : Quat α) (e m : α) (he : 0 ≤ e) (hm : 0 ≤ m) : Quat.relEq a a e m = true :=
  Quat.relAll_refl_of (fun x y => Approx.relEq x y e m) (fun x => S.relEq_refl x e m he hm) a
theorem Quat.relEq_symm (a b : Quat α) (e m : α) : Quat.relEq a b e m = Quat.relEq b a e m :=
  Quat.relAll_symm_of (fun x y => Approx.relEq x y e m) (fun x y => S.relEq_symm x y e m) a b
theorem Quat.ulpsEq_refl (a : Quat α) (e : α) (u : Nat) (he : 0 ≤ e) : Quat.ulpsEq a a e u = true :=
  Quat.relAll_refl_of (fun x y => Approx.ulpsEq x y e u) (fun x => S.ulpsEq_refl x e u he) a
theorem Quat.ulpsEq_symm (a b : Quat α) (e : α) (u : Nat) : Quat.ulpsEq a b e u = Quat.ulpsEq b a e u :=
  Quat.relAll_symm_of (fun x y => Approx.ulpsEq x y e u) (fun x y => S.ulpsEq_symm x y e u) a b
theorem Basis2.absDiffEq_refl (a : Basis2 α) (e : α) (he : 0 ≤ e) : Basis2.absDiffEq a a e = true :=
  Basis2.relAll_refl_of (fun x y => Approx.absDiffEq x y e) (fun x => S.absDiffEq_refl x e he) a
theorem Basis2.absDiffEq_symm (a b : Basis2 α) (e : α) : Basis2.absDiffEq a b e = Basis2.absDiffEq b a e :=
  Basis2.relAll_symm_of (fun x y => Approx.absDiffEq x y e) (fun x y => S.absDiffEq_symm x y e) a b
theorem Basis2.relEq_refl (a : Basis2 α) (e m : α) (he : 0 ≤ e) (hm : 0 ≤ m) : Basis2.relEq a a e m = true :=
  Basis2.relAll_refl_of (fun x y => Approx.relEq x y e m) (fun x => S.relEq_refl x e m he hm) a
theorem Basis2.relEq_symm (a b : Basis2 α) (e m : α) : Basis2.relEq a b e m = Basis2.relEq b a e m :=
  Basis2.relAll_symm_of (fun x y => Approx.relEq x y e m) (fun x y => S.relEq_symm x y e m) a b
theorem Basis2.ulpsEq_refl (a : Basis2 α) (e : α) (u : Nat) (he : 0 ≤ e) : Basis2.ulpsEq a a e u = true :=
  Basis2.relAll_refl_of (fun x y => Approx.ulpsEq x y e u) (fun x => S.ulpsEq_refl x e u he) a
theorem Basis2.ulpsEq_symm (a b : Basis2 α) (e : α) (u : Nat) : Basis2.ulpsEq a b e u = Basis2.ulpsEq b a e u :=
  Basis2.relAll_symm_of (fun x y => Approx.ulpsEq x y e u) (fun x y => S.ulpsEq_symm x y e u) a b
theorem Basis3.absDiffEq_refl (a : Basis3 α) (e : α) (he : 0 ≤ e) : Basis3.absDiffEq a a e = true :=
  Basis3.relAll_refl_of (fun x y => Approx.absDiffEq x y e) (fun x => S.absDiffEq_refl x e he) a
theorem Basis3.absDiffEq_symm (a b : Basis3 α) (e : α) : Basis3.absDiffEq a b e = Basis3.absDiffEq b a e :=
  Basis3.relAll_symm_of (fun x y => Approx.absDiffEq x y e) (fun x y => S.absDiffEq_symm x y e) a b
theorem Basis3.relEq_refl (a : Basis3 α) (e m : α) (he : 0 ≤ e) (hm : 0 ≤ m) : Basis3.relEq a a e m = true :=
  Basis3.relAll_refl_of (fun x y => Approx.relEq x y e m) (fun x => S.relEq_refl x e m he hm) a
theorem Basis3.relEq_symm (a b : Basis3 α) (e m : α) : Basis3.relEq a b e m = Basis3.relEq b a e m :=
  Basis3.relAll_symm_of (fun x y => Approx.relEq x y e m) (fun x y => S.relEq_symm x y e m) a b
theorem Basis3.ulpsEq_refl (a : Basis3 α) (e : α) (u : Nat) (he : 0 ≤ e) : Basis3.ulpsEq a a e u = true :=
  Basis3.relAll_refl_of (fun x y => Approx.ulpsEq x y e u) (fun x => S.ulpsEq_refl x e u he) a
theorem Basis3.ulpsEq_symm (a b : Basis3 α) (e : α) (u : Nat) : Basis3.ulpsEq a b e u = Basis3.ulpsEq b a e u :=
  Basis3.relAll_symm_of (fun x y => Approx.ulpsEq x y e u) (fun x y => S.ulpsEq_symm x y e u) a b
theorem eulerAbsDiffEq_refl (a : α × α × α) (e : α) (he : 0 ≤ e) : eulerAbsDiffEq a a e = true :=
  eulerRelAll_refl_of (fun x y => Approx.absDiffEq x y e) (fun x => S.absDiffEq_refl x e he) a
theorem eulerAbsDiffEq_symm (a b : α × α × α) (e : α) : eulerAbsDiffEq a b e = eulerAbsDiffEq b a e :=
  eulerRelAll_symm_of (fun x y => Approx.absDiffEq x y e) (fun x y => S.absDiffEq_symm x y e) a b
theorem angleAbsDiffEq_refl (a : α) (e : α) (he : 0 ≤ e) : angleAbsDiffEq a a e = true := (fun x => S.absDiffEq_refl x e he) a
theorem angleAbsDiffEq_symm (a b : α) (e : α) : angleAbsDiffEq a b e = angleAbsDiffEq b a e := (fun x y => S.absDiffEq_symm x y e) a b
theorem eulerRelEq_refl (a : α × α × α) (e m : α) (he : 0 ≤ e) (hm : 0 ≤ m) : eulerRelEq a a e m = true :=
  eulerRelAll_refl_of (fun x y => Approx.relEq x y e m) (fun x => S.relEq_refl x e m he hm) a
theorem eulerRelEq_symm (a b : α × α × α) (e m : α) : eulerRelEq a b e m = eulerRelEq b a e m :=
  eulerRelAll_symm_of (fun x y => Approx.relEq x y e m) (fun x y => S.relEq_symm x y e m) a b
theorem angleRelEq_refl (a : α) (e m : α) (he : 0 ≤ e) (hm : 0 ≤ m) : angleRelEq a a e m = true := (fun x => S.relEq_refl x e m he hm) a
theorem angleRelEq_symm (a b : α) (e m : α) : angleRelEq a b e m = angleRelEq b a e m := (fun x y => S.relEq_symm x y e m) a b
theorem eulerUlpsEq_refl (a : α × α × α) (e : α) (u : Nat) (he : 0 ≤ e) : eulerUlpsEq a a e u = true :=
  eulerRelAll_refl_of (fun x y => Approx.ulpsEq x y e u) (fun x => S.ulpsEq_refl x e u he) a
theorem eulerUlpsEq_symm (a b : α × α × α) (e : α) (u : Nat) : eulerUlpsEq a b e u = eulerUlpsEq b a e u :=
  eulerRelAll_symm_of (fun x y => Approx.ulpsEq x y e u) (fun x y => S.ulpsEq_symm x y e u) a b
theorem angleUlpsEq_refl (a : α) (e : α) (u : Nat) (he : 0 ≤ e) : angleUlpsEq a a e u = true := (fun x => S.ulpsEq_refl x e u he) a
theorem angleUlpsEq_symm (a b : α) (e : α) (u : Nat) : angleUlpsEq a b e u = angleUlpsEq b a e u := (fun x y => S.ulpsEq_symm x y e u) a b
end laws

/-! ## `Decomposed`: scale, rot, disp with the SAME tolerances; the three concrete instances -/
section decomposed
variable [Approx α] {R V : Type}
theorem Decomposed.absDiffEq_iff (rr : R → R → α → Bool) (rv : V → V → α → Bool)
    (a b : Decomposed R V α) (e : α) :
    Decomposed.absDiffEq rr rv a b e = true ↔
      Approx.absDiffEq a.scale b.scale e = true ∧ rr a.rot b.rot e = true ∧ rv a.disp b.disp e = true := by
  simp [Decomposed.absDiffEq, and_assoc]
theorem Decomposed.absDiffEq_false_of_part (rr : R → R → α → Bool) (rv : V → V → α → Bool)
    (a b : Decomposed R V α) (e : α)
    (h : Approx.absDiffEq a.scale b.scale e = false ∨ rr a.rot b.rot e = false ∨ rv a.disp b.disp e = false) :
    Decomposed.absDiffEq rr rv a b e = false := by
  rcases h with h | h | h <;> simp [Decomposed.absDiffEq, h]
theorem Decomposed.relEq_iff (rr : R → R → α → α → Bool) (rv : V → V → α → α → Bool)
    (a b : Decomposed R V α) (e m : α) :
    Decomposed.relEq rr rv a b e m = true ↔
      Approx.relEq a.scale b.scale e m = true ∧ rr a.rot b.rot e m = true ∧ rv a.disp b.disp e m = true := by
  simp [Decomposed.relEq, and_assoc]
theorem Decomposed.relEq_false_of_part (rr : R → R → α → α → Bool) (rv : V → V → α → α → Bool)
    (a b : Decomposed R V α) (e m : α)
    (h : Approx.relEq a.scale b.scale e m = false ∨ rr a.rot b.rot e m = false ∨ rv a.disp b.disp e m = false) :
    Decomposed.relEq rr rv a b e m = false := by
  rcases h with h | h | h <;> simp [Decomposed.relEq, h]
theorem Decomposed.ulpsEq_iff (rr : R → R → α → Nat → Bool) (rv : V → V → α → Nat → Bool)
    (a b : Decomposed R V α) (e : α) (u : Nat) :
    Decomposed.ulpsEq rr rv a b e u = true ↔
      Approx.ulpsEq a.scale b.scale e u = true ∧ rr a.rot b.rot e u = true ∧ rv a.disp b.disp e u = true := by
  simp [Decomposed.ulpsEq, and_assoc]
theorem Decomposed.ulpsEq_false_of_part (rr : R → R → α → Nat → Bool) (rv : V → V → α → Nat → Bool)
    (a b : Decomposed R V α) (e : α) (u : Nat)
    (h : Approx.ulpsEq a.scale b.scale e u = false ∨ rr a.rot b.rot e u = false ∨ rv a.disp b.disp e u = false) :
    Decomposed.ulpsEq rr rv a b e u = false := by
  rcases h with h | h | h <;> simp [Decomposed.ulpsEq, h]
/-- Decomposed<Vector3, Quaternion>: 1 + 4 + 3 = 8 scalar comparisons, one set of tolerances -/
theorem Decomposed.absDiffEq_quat_iff (a b : Decomposed (Quat α) (V3 α) α) (e : α) :
    Decomposed.absDiffEq Quat.absDiffEq V3.absDiffEq a b e = true ↔
      Approx.absDiffEq a.scale b.scale e = true ∧
      (Approx.absDiffEq a.rot.s b.rot.s e = true ∧ Approx.absDiffEq a.rot.v.x b.rot.v.x e = true ∧ Approx.absDiffEq a.rot.v.y b.rot.v.y e = true ∧ Approx.absDiffEq a.rot.v.z b.rot.v.z e = true) ∧
      (Approx.absDiffEq a.disp.x b.disp.x e = true ∧ Approx.absDiffEq a.disp.y b.disp.y e = true ∧ Approx.absDiffEq a.disp.z b.disp.z e = true) := by
  rw [Decomposed.absDiffEq_iff, Quat.absDiffEq_iff, V3.absDiffEq_iff]
/-- Decomposed<Vector3, Quaternion>: 1 + 4 + 3 = 8 scalar comparisons, one set of tolerances -/
theorem Decomposed.relEq_quat_iff (a b : Decomposed (Quat α) (V3 α) α) (e m : α) :
    Decomposed.relEq Quat.relEq V3.relEq a b e m = true ↔
      Approx.relEq a.scale b.scale e m = true ∧
      (Approx.relEq a.rot.s b.rot.s e m = true ∧ Approx.relEq a.rot.v.x b.rot.v.x e m = true ∧ Approx.relEq a.rot.v.y b.rot.v.y e m = true ∧ Approx.relEq a.rot.v.z b.rot.v.z e m = true) ∧
      (Approx.relEq a.disp.x b.disp.x e m = true ∧ Approx.relEq a.disp.y b.disp.y e m = true ∧ Approx.relEq a.disp.z b.disp.z e m = true) := by
  rw [Decomposed.relEq_iff, Quat.relEq_iff, V3.relEq_iff]
/-- Decomposed<Vector3, Quaternion>: 1 + 4 + 3 = 8 scalar comparisons, one set of tolerances -/
theorem Decomposed.ulpsEq_quat_iff (a b : Decomposed (Quat α) (V3 α) α) (e : α) (u : Nat) :
    Decomposed.ulpsEq Quat.ulpsEq V3.ulpsEq a b e u = true ↔
      Approx.ulpsEq a.scale b.scale e u = true ∧
      (Approx.ulpsEq a.rot.s b.rot.s e u = true ∧ Approx.ulpsEq a.rot.v.x b.rot.v.x e u = true ∧ Approx.ulpsEq a.rot.v.y b.rot.v.y e u = true ∧ Approx.ulpsEq a.rot.v.z b.rot.v.z e u = true) ∧
      (Approx.ulpsEq a.disp.x b.disp.x e u = true ∧ Approx.ulpsEq a.disp.y b.disp.y e u = true ∧ Approx.ulpsEq a.disp.z b.disp.z e u = true) := by
  rw [Decomposed.ulpsEq_iff, Quat.ulpsEq_iff, V3.ulpsEq_iff]
/-- Decomposed<Vector3, Basis3>: 1 + 9 + 3 = 13 scalar comparisons, one set of tolerances -/
theorem Decomposed.absDiffEq_basis3_iff (a b : Decomposed (Basis3 α) (V3 α) α) (e : α) :
    Decomposed.absDiffEq Basis3.absDiffEq V3.absDiffEq a b e = true ↔
      Approx.absDiffEq a.scale b.scale e = true ∧
      (Approx.absDiffEq a.rot.mat.x.x b.rot.mat.x.x e = true ∧ Approx.absDiffEq a.rot.mat.x.y b.rot.mat.x.y e = true ∧ Approx.absDiffEq a.rot.mat.x.z b.rot.mat.x.z e = true ∧ Approx.absDiffEq a.rot.mat.y.x b.rot.mat.y.x e = true ∧ Approx.absDiffEq a.rot.mat.y.y b.rot.mat.y.y e = true ∧ Approx.absDiffEq a.rot.mat.y.z b.rot.mat.y.z e = true ∧ Approx.absDiffEq a.rot.mat.z.x b.rot.mat.z.x e = true ∧ Approx.absDiffEq a.rot.mat.z.y b.rot.mat.z.y e = true ∧ Approx.absDiffEq a.rot.mat.z.z b.rot.mat.z.z e = true) ∧
      (Approx.absDiffEq a.disp.x b.disp.x e = true ∧ Approx.absDiffEq a.disp.y b.disp.y e = true ∧ Approx.absDiffEq a.disp.z b.disp.z e = true) := by
  rw [Decomposed.absDiffEq_iff, Basis3.absDiffEq_iff_elems, V3.absDiffEq_iff]
/-- Decomposed<Vector3, Basis3>: 1 + 9 + 3 = 13 scalar comparisons, one set of tolerances -/
theorem Decomposed.relEq_basis3_iff (a b : Decomposed (Basis3 α) (V3 α) α) (e m : α) :
    Decomposed.relEq Basis3.relEq V3.relEq a b e m = true ↔
      Approx.relEq a.scale b.scale e m = true ∧
      (Approx.relEq a.rot.mat.x.x b.rot.mat.x.x e m = true ∧ Approx.relEq a.rot.mat.x.y b.rot.mat.x.y e m = true ∧ Approx.relEq a.rot.mat.x.z b.rot.mat.x.z e m = true ∧ Approx.relEq a.rot.mat.y.x b.rot.mat.y.x e m = true ∧ Approx.relEq a.rot.mat.y.y b.rot.mat.y.y e m = true ∧ Approx.relEq a.rot.mat.y.z b.rot.mat.y.z e m = true ∧ Approx.relEq a.rot.mat.z.x b.rot.mat.z.x e m = true ∧ Approx.relEq a.rot.mat.z.y b.rot.mat.z.y e m = true ∧ Approx.relEq a.rot.mat.z.z b.rot.mat.z.z e m = true) ∧
      (Approx.relEq a.disp.x b.disp.x e m = true ∧ Approx.relEq a.disp.y b.disp.y e m = true ∧ Approx.relEq a.disp.z b.disp.z e m = true) := by
  rw [Decomposed.relEq_iff, Basis3.relEq_iff_elems, V3.relEq_iff]
/-- Decomposed<Vector3, Basis3>: 1 + 9 + 3 = 13 scalar comparisons, one set of tolerances -/
theorem Decomposed.ulpsEq_basis3_iff (a b : Decomposed (Basis3 α) (V3 α) α) (e : α) (u : Nat) :
    Decomposed.ulpsEq Basis3.ulpsEq V3.ulpsEq a b e u = true ↔
      Approx.ulpsEq a.scale b.scale e u = true ∧
      (Approx.ulpsEq a.rot.mat.x.x b.rot.mat.x.x e u = true ∧ Approx.ulpsEq a.rot.mat.x.y b.rot.mat.x.y e u = true ∧ Approx.ulpsEq a.rot.mat.x.z b.rot.mat.x.z e u = true ∧ Approx.ulpsEq a.rot.mat.y.x b.rot.mat.y.x e u = true ∧ Approx.ulpsEq a.rot.mat.y.y b.rot.mat.y.y e u = true ∧ Approx.ulpsEq a.rot.mat.y.z b.rot.mat.y.z e u = true ∧ Approx.ulpsEq a.rot.mat.z.x b.rot.mat.z.x e u = true ∧ Approx.ulpsEq a.rot.mat.z.y b.rot.mat.z.y e u = true ∧ Approx.ulpsEq a.rot.mat.z.z b.rot.mat.z.z e u = true) ∧
      (Approx.ulpsEq a.disp.x b.disp.x e u = true ∧ Approx.ulpsEq a.disp.y b.disp.y e u = true ∧ Approx.ulpsEq a.disp.z b.disp.z e u = true) := by
  rw [Decomposed.ulpsEq_iff, Basis3.ulpsEq_iff_elems, V3.ulpsEq_iff]
/-- Decomposed<Vector2, Basis2>: 1 + 4 + 2 = 7 scalar comparisons, one set of tolerances -/
theorem Decomposed.absDiffEq_basis2_iff (a b : Decomposed (Basis2 α) (V2 α) α) (e : α) :
    Decomposed.absDiffEq Basis2.absDiffEq V2.absDiffEq a b e = true ↔
      Approx.absDiffEq a.scale b.scale e = true ∧
      (Approx.absDiffEq a.rot.mat.x.x b.rot.mat.x.x e = true ∧ Approx.absDiffEq a.rot.mat.x.y b.rot.mat.x.y e = true ∧ Approx.absDiffEq a.rot.mat.y.x b.rot.mat.y.x e = true ∧ Approx.absDiffEq a.rot.mat.y.y b.rot.mat.y.y e = true) ∧
      (Approx.absDiffEq a.disp.x b.disp.x e = true ∧ Approx.absDiffEq a.disp.y b.disp.y e = true) := by
  rw [Decomposed.absDiffEq_iff, Basis2.absDiffEq_iff_elems, V2.absDiffEq_iff]
/-- Decomposed<Vector2, Basis2>: 1 + 4 + 2 = 7 scalar comparisons, one set of tolerances -/
theorem Decomposed.relEq_basis2_iff (a b : Decomposed (Basis2 α) (V2 α) α) (e m : α) :
    Decomposed.relEq Basis2.relEq V2.relEq a b e m = true ↔
      Approx.relEq a.scale b.scale e m = true ∧
      (Approx.relEq a.rot.mat.x.x b.rot.mat.x.x e m = true ∧ Approx.relEq a.rot.mat.x.y b.rot.mat.x.y e m = true ∧ Approx.relEq a.rot.mat.y.x b.rot.mat.y.x e m = true ∧ Approx.relEq a.rot.mat.y.y b.rot.mat.y.y e m = true) ∧
      (Approx.relEq a.disp.x b.disp.x e m = true ∧ Approx.relEq a.disp.y b.disp.y e m = true) := by
  rw [Decomposed.relEq_iff, Basis2.relEq_iff_elems, V2.relEq_iff]
/-- Decomposed<Vector2, Basis2>: 1 + 4 + 2 = 7 scalar comparisons, one set of tolerances -/
theorem Decomposed.ulpsEq_basis2_iff (a b : Decomposed (Basis2 α) (V2 α) α) (e : α) (u : Nat) :
    Decomposed.ulpsEq Basis2.ulpsEq V2.ulpsEq a b e u = true ↔
      Approx.ulpsEq a.scale b.scale e u = true ∧
      (Approx.ulpsEq a.rot.mat.x.x b.rot.mat.x.x e u = true ∧ Approx.ulpsEq a.rot.mat.x.y b.rot.mat.x.y e u = true ∧ Approx.ulpsEq a.rot.mat.y.x b.rot.mat.y.x e u = true ∧ Approx.ulpsEq a.rot.mat.y.y b.rot.mat.y.y e u = true) ∧
      (Approx.ulpsEq a.disp.x b.disp.x e u = true ∧ Approx.ulpsEq a.disp.y b.disp.y e u = true) := by
  rw [Decomposed.ulpsEq_iff, Basis2.ulpsEq_iff_elems, V2.ulpsEq_iff]
end decomposed

section decomposedLaws
variable [Field α] [LinearOrder α] [Approx α] (S : ApproxLaws α)
include S
theorem Decomposed.absDiffEq_quat_refl (a : Decomposed (Quat α) (V3 α) α) (e : α) (he : 0 ≤ e) :
    Decomposed.absDiffEq Quat.absDiffEq V3.absDiffEq a a e = true := by
  simp [Decomposed.absDiffEq, S.absDiffEq_refl _ e he, Quat.absDiffEq_refl S _ e he, V3.absDiffEq_refl S _ e he]
theorem Decomposed.absDiffEq_quat_symm (a b : Decomposed (Quat α) (V3 α) α) (e : α) :
    Decomposed.absDiffEq Quat.absDiffEq V3.absDiffEq a b e = Decomposed.absDiffEq Quat.absDiffEq V3.absDiffEq b a e := by
  simp only [Decomposed.absDiffEq]
  rw [S.absDiffEq_symm a.scale, Quat.absDiffEq_symm S a.rot, V3.absDiffEq_symm S a.disp]
theorem Decomposed.relEq_quat_refl (a : Decomposed (Quat α) (V3 α) α) (e m : α) (he : 0 ≤ e) (hm : 0 ≤ m) :
    Decomposed.relEq Quat.relEq V3.relEq a a e m = true := by
  simp [Decomposed.relEq, S.relEq_refl _ e m he hm, Quat.relEq_refl S _ e m he hm, V3.relEq_refl S _ e m he hm]
theorem Decomposed.relEq_quat_symm (a b : Decomposed (Quat α) (V3 α) α) (e m : α) :
    Decomposed.relEq Quat.relEq V3.relEq a b e m = Decomposed.relEq Quat.relEq V3.relEq b a e m := by
  simp only [Decomposed.relEq]
  rw [S.relEq_symm a.scale, Quat.relEq_symm S a.rot, V3.relEq_symm S a.disp]
theorem Decomposed.ulpsEq_quat_refl (a : Decomposed (Quat α) (V3 α) α) (e : α) (u : Nat) (he : 0 ≤ e) :
    Decomposed.ulpsEq Quat.ulpsEq V3.ulpsEq a a e u = true := by
  simp [Decomposed.ulpsEq, S.ulpsEq_refl _ e u he, Quat.ulpsEq_refl S _ e u he, V3.ulpsEq_refl S _ e u he]
theorem Decomposed.ulpsEq_quat_symm (a b : Decomposed (Quat α) (V3 α) α) (e : α) (u : Nat) :
    Decomposed.ulpsEq Quat.ulpsEq V3.ulpsEq a b e u = Decomposed.ulpsEq Quat.ulpsEq V3.ulpsEq b a e u := by
  simp only [Decomposed.ulpsEq]
  rw [S.ulpsEq_symm a.scale, Quat.ulpsEq_symm S a.rot, V3.ulpsEq_symm S a.disp]
theorem Decomposed.absDiffEq_basis3_refl (a : Decomposed (Basis3 α) (V3 α) α) (e : α) (he : 0 ≤ e) :
    Decomposed.absDiffEq Basis3.absDiffEq V3.absDiffEq a a e = true := by
  simp [Decomposed.absDiffEq, S.absDiffEq_refl _ e he, Basis3.absDiffEq_refl S _ e he, V3.absDiffEq_refl S _ e he]
theorem Decomposed.absDiffEq_basis3_symm (a b : Decomposed (Basis3 α) (V3 α) α) (e : α) :
    Decomposed.absDiffEq Basis3.absDiffEq V3.absDiffEq a b e = Decomposed.absDiffEq Basis3.absDiffEq V3.absDiffEq b a e := by
  simp only [Decomposed.absDiffEq]
  rw [S.absDiffEq_symm a.scale, Basis3.absDiffEq_symm S a.rot, V3.absDiffEq_symm S a.disp]
theorem Decomposed.relEq_basis3_refl (a : Decomposed (Basis3 α) (V3 α) α) (e m : α) (he : 0 ≤ e) (hm : 0 ≤ m) :
    Decomposed.relEq Basis3.relEq V3.relEq a a e m = true := by
  simp [Decomposed.relEq, S.relEq_refl _ e m he hm, Basis3.relEq_refl S _ e m he hm, V3.relEq_refl S _ e m he hm]
theorem Decomposed.relEq_basis3_symm (a b : Decomposed (Basis3 α) (V3 α) α) (e m : α) :
    Decomposed.relEq Basis3.relEq V3.relEq a b e m = Decomposed.relEq Basis3.relEq V3.relEq b a e m := by
  simp only [Decomposed.relEq]
  rw [S.relEq_symm a.scale, Basis3.relEq_symm S a.rot, V3.relEq_symm S a.disp]
theorem Decomposed.ulpsEq_basis3_refl (a : Decomposed (Basis3 α) (V3 α) α) (e : α) (u : Nat) (he : 0 ≤ e) :
    Decomposed.ulpsEq Basis3.ulpsEq V3.ulpsEq a a e u = true := by
  simp [Decomposed.ulpsEq, S.ulpsEq_refl _ e u he, Basis3.ulpsEq_refl S _ e u he, V3.ulpsEq_refl S _ e u he]
theorem Decomposed.ulpsEq_basis3_symm (a b : Decomposed (Basis3 α) (V3 α) α) (e : α) (u : Nat) :
    Decomposed.ulpsEq Basis3.ulpsEq V3.ulpsEq a b e u = Decomposed.ulpsEq Basis3.ulpsEq V3.ulpsEq b a e u := by
  simp only [Decomposed.ulpsEq]
  rw [S.ulpsEq_symm a.scale, Basis3.ulpsEq_symm S a.rot, V3.ulpsEq_symm S a.disp]
theorem Decomposed.absDiffEq_basis2_refl (a : Decomposed (Basis2 α) (V2 α) α) (e : α) (he : 0 ≤ e) :
    Decomposed.absDiffEq Basis2.absDiffEq V2.absDiffEq a a e = true := by
  simp [Decomposed.absDiffEq, S.absDiffEq_refl _ e he, Basis2.absDiffEq_refl S _ e he, V2.absDiffEq_refl S _ e he]
theorem Decomposed.absDiffEq_basis2_symm (a b : Decomposed (Basis2 α) (V2 α) α) (e : α) :
    Decomposed.absDiffEq Basis2.absDiffEq V2.absDiffEq a b e = Decomposed.absDiffEq Basis2.absDiffEq V2.absDiffEq b a e := by
  simp only [Decomposed.absDiffEq]
  rw [S.absDiffEq_symm a.scale, Basis2.absDiffEq_symm S a.rot, V2.absDiffEq_symm S a.disp]
theorem Decomposed.relEq_basis2_refl (a : Decomposed (Basis2 α) (V2 α) α) (e m : α) (he : 0 ≤ e) (hm : 0 ≤ m) :
    Decomposed.relEq Basis2.relEq V2.relEq a a e m = true := by
  simp [Decomposed.relEq, S.relEq_refl _ e m he hm, Basis2.relEq_refl S _ e m he hm, V2.relEq_refl S _ e m he hm]
theorem Decomposed.relEq_basis2_symm (a b : Decomposed (Basis2 α) (V2 α) α) (e m : α) :
    Decomposed.relEq Basis2.relEq V2.relEq a b e m = Decomposed.relEq Basis2.relEq V2.relEq b a e m := by
  simp only [Decomposed.relEq]
  rw [S.relEq_symm a.scale, Basis2.relEq_symm S a.rot, V2.relEq_symm S a.disp]
theorem Decomposed.ulpsEq_basis2_refl (a : Decomposed (Basis2 α) (V2 α) α) (e : α) (u : Nat) (he : 0 ≤ e) :
    Decomposed.ulpsEq Basis2.ulpsEq V2.ulpsEq a a e u = true := by
  simp [Decomposed.ulpsEq, S.ulpsEq_refl _ e u he, Basis2.ulpsEq_refl S _ e u he, V2.ulpsEq_refl S _ e u he]
theorem Decomposed.ulpsEq_basis2_symm (a b : Decomposed (Basis2 α) (V2 α) α) (e : α) (u : Nat) :
    Decomposed.ulpsEq Basis2.ulpsEq V2.ulpsEq a b e u = Decomposed.ulpsEq Basis2.ulpsEq V2.ulpsEq b a e u := by
  simp only [Decomposed.ulpsEq]
  rw [S.ulpsEq_symm a.scale, Basis2.ulpsEq_symm S a.rot, V2.ulpsEq_symm S a.disp]
end decomposedLaws

/-! ## `abs_diff_eq` is the comparison of every component distance with the tolerance:
all within `e` <=> equal; one component beyond `e` => unequal (`ApproxLaws.absDiffEq_iff`) -/
section absForms
variable [Field α] [LinearOrder α] [Approx α] (S : ApproxLaws α)
include S
theorem scalar_absDiffEq_false_of_gt (x y e : α) (h : e < |x - y|) : Approx.absDiffEq x y e = false := by
  rw [← Bool.not_eq_true, S.absDiffEq_iff]; exact not_le.2 h
theorem V1.absDiffEq_iff_abs (a b : V1 α) (e : α) :
    V1.absDiffEq a b e = true ↔ |a.x - b.x| ≤ e := by
  rw [V1.absDiffEq_iff]; simp only [S.absDiffEq_iff]
theorem V1.absDiffEq_false_of_gt (a b : V1 α) (e : α) (h : e < |a.x - b.x|) : V1.absDiffEq a b e = false :=
  V1.absDiffEq_false_of_component a b e (scalar_absDiffEq_false_of_gt S _ _ _ h)
theorem V2.absDiffEq_iff_abs (a b : V2 α) (e : α) :
    V2.absDiffEq a b e = true ↔ |a.x - b.x| ≤ e ∧ |a.y - b.y| ≤ e := by
  rw [V2.absDiffEq_iff]; simp only [S.absDiffEq_iff]
theorem V2.absDiffEq_false_of_gt (a b : V2 α) (e : α)
    (h : e < |a.x - b.x| ∨ e < |a.y - b.y|) : V2.absDiffEq a b e = false := by
  rcases h with h | h
  · exact V2.absDiffEq_false_of_component a b e (Or.inl (scalar_absDiffEq_false_of_gt S _ _ _ h))
  · exact V2.absDiffEq_false_of_component a b e (Or.inr (scalar_absDiffEq_false_of_gt S _ _ _ h))
theorem V3.absDiffEq_iff_abs (a b : V3 α) (e : α) :
    V3.absDiffEq a b e = true ↔ |a.x - b.x| ≤ e ∧ |a.y - b.y| ≤ e ∧ |a.z - b.z| ≤ e := by
  rw [V3.absDiffEq_iff]; simp only [S.absDiffEq_iff]
theorem V3.absDiffEq_false_of_gt (a b : V3 α) (e : α)
    (h : e < |a.x - b.x| ∨ e < |a.y - b.y| ∨ e < |a.z - b.z|) : V3.absDiffEq a b e = false := by
  rcases h with h | h | h
  · exact V3.absDiffEq_false_of_component a b e (Or.inl (scalar_absDiffEq_false_of_gt S _ _ _ h))
  · exact V3.absDiffEq_false_of_component a b e (Or.inr (Or.inl (scalar_absDiffEq_false_of_gt S _ _ _ h)))
  · exact V3.absDiffEq_false_of_component a b e (Or.inr (Or.inr (scalar_absDiffEq_false_of_gt S _ _ _ h)))
theorem V4.absDiffEq_iff_abs (a b : V4 α) (e : α) :
    V4.absDiffEq a b e = true ↔ |a.x - b.x| ≤ e ∧ |a.y - b.y| ≤ e ∧ |a.z - b.z| ≤ e ∧ |a.w - b.w| ≤ e := by
  rw [V4.absDiffEq_iff]; simp only [S.absDiffEq_iff]
theorem V4.absDiffEq_false_of_gt (a b : V4 α) (e : α)
    (h : e < |a.x - b.x| ∨ e < |a.y - b.y| ∨ e < |a.z - b.z| ∨ e < |a.w - b.w|) : V4.absDiffEq a b e = false := by
  rcases h with h | h | h | h
  · exact V4.absDiffEq_false_of_component a b e (Or.inl (scalar_absDiffEq_false_of_gt S _ _ _ h))
  · exact V4.absDiffEq_false_of_component a b e (Or.inr (Or.inl (scalar_absDiffEq_false_of_gt S _ _ _ h)))
  · exact V4.absDiffEq_false_of_component a b e (Or.inr (Or.inr (Or.inl (scalar_absDiffEq_false_of_gt S _ _ _ h))))
  · exact V4.absDiffEq_false_of_component a b e (Or.inr (Or.inr (Or.inr (scalar_absDiffEq_false_of_gt S _ _ _ h))))
theorem P1.absDiffEq_iff_abs (a b : P1 α) (e : α) :
    P1.absDiffEq a b e = true ↔ |a.x - b.x| ≤ e := by
  rw [P1.absDiffEq_iff]; simp only [S.absDiffEq_iff]
theorem P1.absDiffEq_false_of_gt (a b : P1 α) (e : α) (h : e < |a.x - b.x|) : P1.absDiffEq a b e = false :=
  P1.absDiffEq_false_of_component a b e (scalar_absDiffEq_false_of_gt S _ _ _ h)
theorem P2.absDiffEq_iff_abs (a b : P2 α) (e : α) :
    P2.absDiffEq a b e = true ↔ |a.x - b.x| ≤ e ∧ |a.y - b.y| ≤ e := by
  rw [P2.absDiffEq_iff]; simp only [S.absDiffEq_iff]
theorem P2.absDiffEq_false_of_gt (a b : P2 α) (e : α)
    (h : e < |a.x - b.x| ∨ e < |a.y - b.y|) : P2.absDiffEq a b e = false := by
  rcases h with h | h
  · exact P2.absDiffEq_false_of_component a b e (Or.inl (scalar_absDiffEq_false_of_gt S _ _ _ h))
  · exact P2.absDiffEq_false_of_component a b e (Or.inr (scalar_absDiffEq_false_of_gt S _ _ _ h))
theorem P3.absDiffEq_iff_abs (a b : P3 α) (e : α) :
    P3.absDiffEq a b e = true ↔ |a.x - b.x| ≤ e ∧ |a.y - b.y| ≤ e ∧ |a.z - b.z| ≤ e := by
  rw [P3.absDiffEq_iff]; simp only [S.absDiffEq_iff]
theorem P3.absDiffEq_false_of_gt (a b : P3 α) (e : α)
    (h : e < |a.x - b.x| ∨ e < |a.y - b.y| ∨ e < |a.z - b.z|) : P3.absDiffEq a b e = false := by
  rcases h with h | h | h
  · exact P3.absDiffEq_false_of_component a b e (Or.inl (scalar_absDiffEq_false_of_gt S _ _ _ h))
  · exact P3.absDiffEq_false_of_component a b e (Or.inr (Or.inl (scalar_absDiffEq_false_of_gt S _ _ _ h)))
  · exact P3.absDiffEq_false_of_component a b e (Or.inr (Or.inr (scalar_absDiffEq_false_of_gt S _ _ _ h)))
theorem Quat.absDiffEq_iff_abs (a b : Quat α) (e : α) :
    Quat.absDiffEq a b e = true ↔ |a.s - b.s| ≤ e ∧ |a.v.x - b.v.x| ≤ e ∧ |a.v.y - b.v.y| ≤ e ∧ |a.v.z - b.v.z| ≤ e := by
  rw [Quat.absDiffEq_iff]; simp only [S.absDiffEq_iff]
theorem Quat.absDiffEq_false_of_gt (a b : Quat α) (e : α)
    (h : e < |a.s - b.s| ∨ e < |a.v.x - b.v.x| ∨ e < |a.v.y - b.v.y| ∨ e < |a.v.z - b.v.z|) : Quat.absDiffEq a b e = false := by
  rcases h with h | h | h | h
  · exact Quat.absDiffEq_false_of_component a b e (Or.inl (scalar_absDiffEq_false_of_gt S _ _ _ h))
  · exact Quat.absDiffEq_false_of_component a b e (Or.inr (Or.inl (scalar_absDiffEq_false_of_gt S _ _ _ h)))
  · exact Quat.absDiffEq_false_of_component a b e (Or.inr (Or.inr (Or.inl (scalar_absDiffEq_false_of_gt S _ _ _ h))))
  · exact Quat.absDiffEq_false_of_component a b e (Or.inr (Or.inr (Or.inr (scalar_absDiffEq_false_of_gt S _ _ _ h))))
theorem eulerAbsDiffEq_iff_abs (a b : α × α × α) (e : α) :
    eulerAbsDiffEq a b e = true ↔ |a.1 - b.1| ≤ e ∧ |a.2.1 - b.2.1| ≤ e ∧ |a.2.2 - b.2.2| ≤ e := by
  rw [eulerAbsDiffEq_iff]; simp only [S.absDiffEq_iff]
theorem eulerAbsDiffEq_false_of_gt (a b : α × α × α) (e : α)
    (h : e < |a.1 - b.1| ∨ e < |a.2.1 - b.2.1| ∨ e < |a.2.2 - b.2.2|) : eulerAbsDiffEq a b e = false := by
  rcases h with h | h | h
  · exact eulerAbsDiffEq_false_of_component a b e (Or.inl (scalar_absDiffEq_false_of_gt S _ _ _ h))
  · exact eulerAbsDiffEq_false_of_component a b e (Or.inr (Or.inl (scalar_absDiffEq_false_of_gt S _ _ _ h)))
  · exact eulerAbsDiffEq_false_of_component a b e (Or.inr (Or.inr (scalar_absDiffEq_false_of_gt S _ _ _ h)))
theorem M2.absDiffEq_iff_abs (a b : M2 α) (e : α) :
    M2.absDiffEq a b e = true ↔ ∀ p ∈ a.toList.zip b.toList, |p.1 - p.2| ≤ e := by
  rw [M2.absDiffEq_iff]; simp only [S.absDiffEq_iff]
theorem M2.absDiffEq_false_of_gt (a b : M2 α) (e : α) (p : α × α) (hp : p ∈ a.toList.zip b.toList)
    (h : e < |p.1 - p.2|) : M2.absDiffEq a b e = false :=
  M2.absDiffEq_false_of_element a b e p hp (scalar_absDiffEq_false_of_gt S _ _ _ h)
theorem M3.absDiffEq_iff_abs (a b : M3 α) (e : α) :
    M3.absDiffEq a b e = true ↔ ∀ p ∈ a.toList.zip b.toList, |p.1 - p.2| ≤ e := by
  rw [M3.absDiffEq_iff]; simp only [S.absDiffEq_iff]
theorem M3.absDiffEq_false_of_gt (a b : M3 α) (e : α) (p : α × α) (hp : p ∈ a.toList.zip b.toList)
    (h : e < |p.1 - p.2|) : M3.absDiffEq a b e = false :=
  M3.absDiffEq_false_of_element a b e p hp (scalar_absDiffEq_false_of_gt S _ _ _ h)
theorem M4.absDiffEq_iff_abs (a b : M4 α) (e : α) :
    M4.absDiffEq a b e = true ↔ ∀ p ∈ a.toList.zip b.toList, |p.1 - p.2| ≤ e := by
  rw [M4.absDiffEq_iff]; simp only [S.absDiffEq_iff]
theorem M4.absDiffEq_false_of_gt (a b : M4 α) (e : α) (p : α × α) (hp : p ∈ a.toList.zip b.toList)
    (h : e < |p.1 - p.2|) : M4.absDiffEq a b e = false :=
  M4.absDiffEq_false_of_element a b e p hp (scalar_absDiffEq_false_of_gt S _ _ _ h)
theorem Basis2.absDiffEq_iff_abs (a b : Basis2 α) (e : α) :
    Basis2.absDiffEq a b e = true ↔ ∀ p ∈ a.mat.toList.zip b.mat.toList, |p.1 - p.2| ≤ e := by
  rw [Basis2.absDiffEq_iff]; simp only [S.absDiffEq_iff]
theorem Basis2.absDiffEq_false_of_gt (a b : Basis2 α) (e : α) (p : α × α) (hp : p ∈ a.mat.toList.zip b.mat.toList)
    (h : e < |p.1 - p.2|) : Basis2.absDiffEq a b e = false :=
  Basis2.absDiffEq_false_of_element a b e p hp (scalar_absDiffEq_false_of_gt S _ _ _ h)
theorem Basis3.absDiffEq_iff_abs (a b : Basis3 α) (e : α) :
    Basis3.absDiffEq a b e = true ↔ ∀ p ∈ a.mat.toList.zip b.mat.toList, |p.1 - p.2| ≤ e := by
  rw [Basis3.absDiffEq_iff]; simp only [S.absDiffEq_iff]
theorem Basis3.absDiffEq_false_of_gt (a b : Basis3 α) (e : α) (p : α × α) (hp : p ∈ a.mat.toList.zip b.mat.toList)
    (h : e < |p.1 - p.2|) : Basis3.absDiffEq a b e = false :=
  Basis3.absDiffEq_false_of_element a b e p hp (scalar_absDiffEq_false_of_gt S _ _ _ h)
/-- `abs_diff_eq` within tolerance implies the other two relations: stated and proved for `Matrix4` only (the largest `&&`
chain); the same argument would apply to the other compound types but no theorem states it for them -/
theorem M4.relEq_of_absDiffEq (a b : M4 α) (e m : α) (h : M4.absDiffEq a b e = true) :
    M4.relEq a b e m = true := by
  rw [M4.absDiffEq_iff] at h; rw [M4.relEq_iff]
  exact fun p hp => S.relEq_of_absDiffEq _ _ _ _ (h p hp)
theorem M4.ulpsEq_of_absDiffEq (a b : M4 α) (e : α) (u : Nat) (h : M4.absDiffEq a b e = true) :
    M4.ulpsEq a b e u = true := by
  rw [M4.absDiffEq_iff] at h; rw [M4.ulpsEq_iff]
  exact fun p hp => S.ulpsEq_of_absDiffEq _ _ _ _ (h p hp)
end absForms

/-! ## `is_finite`: every component passes the scalar test `fin` -/
section finite
variable (fin : α → Bool)
theorem V1.isFinite_iff (v : V1 α) : V1.isFinite fin v = true ↔ fin v.x = true := by
  simp [V1.isFinite, and_assoc]
theorem V1.isFinite_iff_toList (v : V1 α) : V1.isFinite fin v = true ↔ ∀ e ∈ v.toList, fin e = true := by
  simp [V1.isFinite, V1.toList, and_assoc]
theorem V1.isFinite_false_of_component (v : V1 α) (h : fin v.x = false) :
    V1.isFinite fin v = false := by
  simp [V1.isFinite, h]
theorem V2.isFinite_iff (v : V2 α) : V2.isFinite fin v = true ↔ fin v.x = true ∧ fin v.y = true := by
  simp [V2.isFinite, and_assoc]
theorem V2.isFinite_iff_toList (v : V2 α) : V2.isFinite fin v = true ↔ ∀ e ∈ v.toList, fin e = true := by
  simp [V2.isFinite, V2.toList, and_assoc]
theorem V2.isFinite_false_of_component (v : V2 α) (h : fin v.x = false ∨ fin v.y = false) :
    V2.isFinite fin v = false := by
  rcases h with h | h <;> simp [V2.isFinite, h]
theorem V3.isFinite_iff (v : V3 α) : V3.isFinite fin v = true ↔ fin v.x = true ∧ fin v.y = true ∧ fin v.z = true := by
  simp [V3.isFinite, and_assoc]
theorem V3.isFinite_iff_toList (v : V3 α) : V3.isFinite fin v = true ↔ ∀ e ∈ v.toList, fin e = true := by
  simp [V3.isFinite, V3.toList, and_assoc]
theorem V3.isFinite_false_of_component (v : V3 α) (h : fin v.x = false ∨ fin v.y = false ∨ fin v.z = false) :
    V3.isFinite fin v = false := by
  rcases h with h | h | h <;> simp [V3.isFinite, h]
theorem V4.isFinite_iff (v : V4 α) : V4.isFinite fin v = true ↔ fin v.x = true ∧ fin v.y = true ∧ fin v.z = true ∧ fin v.w = true := by
  simp [V4.isFinite, and_assoc]
theorem V4.isFinite_iff_toList (v : V4 α) : V4.isFinite fin v = true ↔ ∀ e ∈ v.toList, fin e = true := by
  simp [V4.isFinite, V4.toList, and_assoc]
theorem V4.isFinite_false_of_component (v : V4 α) (h : fin v.x = false ∨ fin v.y = false ∨ fin v.z = false ∨ fin v.w = false) :
    V4.isFinite fin v = false := by
  rcases h with h | h | h | h <;> simp [V4.isFinite, h]
theorem P1.isFinite_iff (v : P1 α) : P1.isFinite fin v = true ↔ fin v.x = true := by
  simp [P1.isFinite, and_assoc]
theorem P1.isFinite_iff_toList (v : P1 α) : P1.isFinite fin v = true ↔ ∀ e ∈ v.toList, fin e = true := by
  simp [P1.isFinite, P1.toList, and_assoc]
theorem P1.isFinite_false_of_component (v : P1 α) (h : fin v.x = false) :
    P1.isFinite fin v = false := by
  simp [P1.isFinite, h]
theorem P2.isFinite_iff (v : P2 α) : P2.isFinite fin v = true ↔ fin v.x = true ∧ fin v.y = true := by
  simp [P2.isFinite, and_assoc]
theorem P2.isFinite_iff_toList (v : P2 α) : P2.isFinite fin v = true ↔ ∀ e ∈ v.toList, fin e = true := by
  simp [P2.isFinite, P2.toList, and_assoc]
theorem P2.isFinite_false_of_component (v : P2 α) (h : fin v.x = false ∨ fin v.y = false) :
    P2.isFinite fin v = false := by
  rcases h with h | h <;> simp [P2.isFinite, h]
theorem P3.isFinite_iff (v : P3 α) : P3.isFinite fin v = true ↔ fin v.x = true ∧ fin v.y = true ∧ fin v.z = true := by
  simp [P3.isFinite, and_assoc]
theorem P3.isFinite_iff_toList (v : P3 α) : P3.isFinite fin v = true ↔ ∀ e ∈ v.toList, fin e = true := by
  simp [P3.isFinite, P3.toList, and_assoc]
theorem P3.isFinite_false_of_component (v : P3 α) (h : fin v.x = false ∨ fin v.y = false ∨ fin v.z = false) :
    P3.isFinite fin v = false := by
  rcases h with h | h | h <;> simp [P3.isFinite, h]
/-- the vector tests used by the matrix / quaternion `is_finite` of Book.lean are these -/
theorem isFinite_eq_allP (v2 : V2 α) (v3 : V3 α) (v4 : V4 α) :
    V2.isFinite fin v2 = V2.allP fin v2 ∧ V3.isFinite fin v3 = V3.allP fin v3 ∧
    V4.isFinite fin v4 = V4.allP fin v4 := ⟨rfl, rfl, rfl⟩
/-- matrices: column by column (`self.x.is_finite() && ...`); `Matrix4` tests column `w` first
(src/matrix.rs:477); quaternion: `s`, then `v` -/
theorem M2.isFinite_eq (m : M2 α) :
    M2.isFinite fin m = (V2.isFinite fin m.x && V2.isFinite fin m.y) := rfl
theorem M3.isFinite_eq (m : M3 α) :
    M3.isFinite fin m = (V3.isFinite fin m.x && V3.isFinite fin m.y && V3.isFinite fin m.z) := rfl
theorem M4.isFinite_eq (m : M4 α) :
    M4.isFinite fin m =
      (V4.isFinite fin m.w && V4.isFinite fin m.x && V4.isFinite fin m.y && V4.isFinite fin m.z) := rfl
theorem Quat.isFinite_eq (q : Quat α) :
    Quat.isFinite fin q = (fin q.s && V3.isFinite fin q.v) := rfl
/-- every element (the four statements of C18.lean's `isFinite_iff`, one per type) -/
theorem M2.isFinite_iff_toList (m : M2 α) : M2.isFinite fin m = true ↔ ∀ e ∈ m.toList, fin e = true := by
  simp [M2.isFinite, V2.allP, M2.toList, V2.toList, and_assoc]
theorem M3.isFinite_iff_toList (m : M3 α) : M3.isFinite fin m = true ↔ ∀ e ∈ m.toList, fin e = true := by
  simp [M3.isFinite, V3.allP, M3.toList, V3.toList, and_assoc]
theorem M4.isFinite_iff_toList (m : M4 α) : M4.isFinite fin m = true ↔ ∀ e ∈ m.toList, fin e = true := by
  simp [M4.isFinite, V4.allP, M4.toList, V4.toList, and_assoc]; tauto
theorem Quat.isFinite_iff_toList (q : Quat α) : Quat.isFinite fin q = true ↔ ∀ e ∈ q.toList, fin e = true := by
  simp [Quat.isFinite, V3.allP, Quat.toList, and_assoc]
/-- one non-finite element makes the matrix / quaternion non-finite -/
theorem M2.isFinite_false_of_element (m : M2 α) (e : α) (he : e ∈ m.toList) (h : fin e = false) :
    M2.isFinite fin m = false := by
  by_contra hc
  have ht : M2.isFinite fin m = true := by simpa using hc
  have := (M2.isFinite_iff_toList fin m).1 ht e he
  rw [h] at this; exact Bool.false_ne_true this
theorem M3.isFinite_false_of_element (m : M3 α) (e : α) (he : e ∈ m.toList) (h : fin e = false) :
    M3.isFinite fin m = false := by
  by_contra hc
  have ht : M3.isFinite fin m = true := by simpa using hc
  have := (M3.isFinite_iff_toList fin m).1 ht e he
  rw [h] at this; exact Bool.false_ne_true this
theorem M4.isFinite_false_of_element (m : M4 α) (e : α) (he : e ∈ m.toList) (h : fin e = false) :
    M4.isFinite fin m = false := by
  by_contra hc
  have ht : M4.isFinite fin m = true := by simpa using hc
  have := (M4.isFinite_iff_toList fin m).1 ht e he
  rw [h] at this; exact Bool.false_ne_true this
theorem Quat.isFinite_false_of_element (m : Quat α) (e : α) (he : e ∈ m.toList) (h : fin e = false) :
    Quat.isFinite fin m = false := by
  by_contra hc
  have ht : Quat.isFinite fin m = true := by simpa using hc
  have := (Quat.isFinite_iff_toList fin m).1 ht e he
  rw [h] at this; exact Bool.false_ne_true this
end finite

/-! ## default tolerances: which epsilon each type's `abs_diff_eq!` / `relative_eq!` / `ulps_eq!` uses -/
section defaults
variable [Approx α] [Lits α]
/-- vectors, points, quaternion, angles, Euler: the scalar's epsilon -/
theorem ulpsEqD_scalar_eps (a4 b4 : V4 α) (p3 q3 : P3 α) (p q : Quat α) (x y : α) (e f : α × α × α) :
    V4.ulpsEqD a4 b4 = V4.ulpsEq a4 b4 Approx.eps (Approx.maxUlps α) ∧
    P3.ulpsEqD p3 q3 = P3.ulpsEq p3 q3 Approx.eps (Approx.maxUlps α) ∧
    Quat.ulpsEqD p q = Quat.ulpsEq p q Approx.eps (Approx.maxUlps α) ∧
    angleUlpsEqD x y = Cg.ulpsEqD x y ∧
    eulerUlpsEqD e f = eulerUlpsEq e f Approx.eps (Approx.maxUlps α) :=
  ⟨rfl, rfl, rfl, rfl, rfl⟩
/-- the matrices: `Lits.matEps` (1e-6) for all three macros; `max_relative` / `max_ulps` stay the scalar's -/
theorem M2.defaults (a b : M2 α) :
    M2.absDiffEqD a b = M2.absDiffEq a b Lits.matEps ∧
    M2.relEqD a b = M2.relEq a b Lits.matEps Approx.maxRel ∧
    M2.ulpsEqD a b = M2.ulpsEq a b Lits.matEps (Approx.maxUlps α) := ⟨rfl, rfl, rfl⟩
theorem M3.defaults (a b : M3 α) :
    M3.absDiffEqD a b = M3.absDiffEq a b Lits.matEps ∧
    M3.relEqD a b = M3.relEq a b Lits.matEps Approx.maxRel ∧
    M3.ulpsEqD a b = M3.ulpsEq a b Lits.matEps (Approx.maxUlps α) := ⟨rfl, rfl, rfl⟩
theorem M4.defaults (a b : M4 α) :
    M4.absDiffEqD a b = M4.absDiffEq a b Lits.matEps ∧
    M4.relEqD a b = M4.relEq a b Lits.matEps Approx.maxRel ∧
    M4.ulpsEqD a b = M4.ulpsEq a b Lits.matEps (Approx.maxUlps α) := ⟨rfl, rfl, rfl⟩
/-- `Basis2` / `Basis3` compare their matrices, but at the SCALAR epsilon: `ulps_eq!(b1, b2)` is not
`ulps_eq!(b1.mat, b2.mat)` (src/rotation.rs:254, 410 against src/matrix.rs:961, 1003) -/
theorem Basis.defaults (a b : Basis2 α) (c d : Basis3 α) :
    Basis2.ulpsEqD a b = M2.ulpsEq a.mat b.mat Approx.eps (Approx.maxUlps α) ∧
    Basis3.ulpsEqD c d = M3.ulpsEq c.mat d.mat Approx.eps (Approx.maxUlps α) ∧
    Basis2.absDiffEqD a b = M2.absDiffEq a.mat b.mat Approx.eps ∧
    Basis3.absDiffEqD c d = M3.absDiffEq c.mat d.mat Approx.eps := ⟨rfl, rfl, rfl, rfl⟩
/-- `Decomposed`: the scalar epsilon, forwarded to all three parts -/
theorem Decomposed.defaults (a b : Decomposed (Quat α) (V3 α) α) :
    Decomposed.ulpsEqD Quat.ulpsEq V3.ulpsEq a b =
      (Approx.ulpsEq a.scale b.scale Approx.eps (Approx.maxUlps α) &&
       Quat.ulpsEq a.rot b.rot Approx.eps (Approx.maxUlps α) &&
       V3.ulpsEq a.disp b.disp Approx.eps (Approx.maxUlps α)) := rfl

/-- the scalar relation the matrix `ulps_eq!` applies to every element pair -/
def matRel (x y : α) : Bool := Approx.ulpsEq x y Lits.matEps (Approx.maxUlps α)

/-- `is_zero` / `is_identity` of a matrix are the predicates of Book2.lean at `matRel` (so every
element-wise statement of C18b.lean applies with the matrix epsilon); `is_diagonal`, `is_symmetric`,
`is_invertible`, `is_perpendicular`, quaternion / angle `is_zero` are those at the scalar `ulps_eq!` -/
theorem isZeroD_eq [OfNat α 0] (m2 : M2 α) (m3 : M3 α) (m4 : M4 α) :
    M2.isZeroD m2 = M2.isZero matRel m2 ∧ M3.isZeroD m3 = M3.isZero matRel m3 ∧
    M4.isZeroD m4 = M4.isZero matRel m4 := ⟨rfl, rfl, rfl⟩
theorem isIdentityD_eq [OfNat α 0] [OfNat α 1] (m2 : M2 α) (m3 : M3 α) (m4 : M4 α) :
    M2.isIdentityD m2 = M2.isIdentity matRel m2 ∧ M3.isIdentityD m3 = M3.isIdentity matRel m3 ∧
    M4.isIdentityD m4 = M4.isIdentity matRel m4 := ⟨rfl, rfl, rfl⟩
theorem scalarPredicatesD_eq [OfNat α 0] (q : Quat α) (x : α) :
    Quat.isZeroD q = Quat.isZero Cg.ulpsEqD q ∧ angleIsZeroD x = angleIsZero Cg.ulpsEqD x :=
  ⟨rfl, rfl⟩
/-- `is_identity` at the matrix epsilon: every element against `1` on, `0` off the diagonal -/
theorem M4.isIdentityD_iff [OfNat α 0] [OfNat α 1] (m : M4 α) :
    M4.isIdentityD m = true ↔
      ∀ c r' : Fin 4, (m.get? c r').map
        (fun x => Approx.ulpsEq x (if c = r' then 1 else 0) Lits.matEps (Approx.maxUlps α)) = some true :=
  M4.isIdentity_iff matRel m
theorem M3.isIdentityD_iff [OfNat α 0] [OfNat α 1] (m : M3 α) :
    M3.isIdentityD m = true ↔
      ∀ c r' : Fin 3, (m.get? c r').map
        (fun x => Approx.ulpsEq x (if c = r' then 1 else 0) Lits.matEps (Approx.maxUlps α)) = some true :=
  M3.isIdentity_iff matRel m
theorem M2.isIdentityD_iff [OfNat α 0] [OfNat α 1] (m : M2 α) :
    M2.isIdentityD m = true ↔
      ∀ c r' : Fin 2, (m.get? c r').map
        (fun x => Approx.ulpsEq x (if c = r' then 1 else 0) Lits.matEps (Approx.maxUlps α)) = some true :=
  M2.isIdentity_iff matRel m
theorem isZeroD_iff_flat [OfNat α 0] (m2 : M2 α) (m3 : M3 α) (m4 : M4 α) :
    (M2.isZeroD m2 = true ↔ ∀ x ∈ m2.toList, Approx.ulpsEq x 0 Lits.matEps (Approx.maxUlps α) = true) ∧
    (M3.isZeroD m3 = true ↔ ∀ x ∈ m3.toList, Approx.ulpsEq x 0 Lits.matEps (Approx.maxUlps α) = true) ∧
    (M4.isZeroD m4 = true ↔ ∀ x ∈ m4.toList, Approx.ulpsEq x 0 Lits.matEps (Approx.maxUlps α) = true) :=
  isZero_iff_flat matRel m2 m3 m4
/-- `is_diagonal` / `is_symmetric` / `is_invertible` at the SCALAR default tolerances -/
theorem M4.isDiagonalD_iff [OfNat α 0] (m : M4 α) :
    M4.isDiagonalD m = true ↔
      ∀ c r : Fin 4, c ≠ r → (m.get? c r).map (fun x => Cg.ulpsEqD x 0) = some true :=
  M4.isDiagonal_iff _ m
theorem M4.isSymmetricD_iff (m : M4 α) :
    M4.isSymmetricD m = true ↔
      ∀ c rr : Fin 4, c ≠ rr →
        ((m.get? c rr).bind fun a => (m.get? rr c).map fun b => Cg.ulpsEqD a b) = some true :=
  M4.isSymmetric_iff Cg.ulpsEqD m
theorem isInvertibleD_iff [Add α] [Sub α] [Mul α] [OfNat α 0] (m2 : M2 α) (m3 : M3 α) (m4 : M4 α) :
    (M2.isInvertibleD m2 = true ↔ Cg.ulpsEqD m2.det 0 = false) ∧
    (M3.isInvertibleD m3 = true ↔ Cg.ulpsEqD m3.det 0 = false) ∧
    (M4.isInvertibleD m4 = true ↔ Cg.ulpsEqD m4.det 0 = false) :=
  ⟨M2.isInvertible_iff_det _ m2, M3.isInvertible_iff _ m3, M4.isInvertible_iff _ m4⟩
end defaults

/-! ## over `ℝ` (scoped `approx` instance, `Lits ℝ`): the matrix epsilon `1e-6` against the scalar `2^-52` -/
section real
open scoped Cg.RealApprox

/-- against a target of size at most 1 (the elements of `zero()` and `identity()`), the matrix
`ulps_eq!` element test is `|a - b| ≤ 1e-6`: four units in the last place never reach beyond it -/
theorem real_matRel_iff (a b : ℝ) (hb : |b| ≤ 1) : matRel a b = true ↔ |a - b| ≤ 1e-6 := by
  unfold matRel
  rw [real_ulpsEq, lits_matEps, real_maxUlps]
  constructor
  · rintro (h | h)
    · exact h
    · have h1 : max |a| |b| ≤ 1 + |a - b| := by
        apply max_le
        · have := abs_sub_abs_le_abs_sub a b; linarith
        · have := abs_nonneg (a - b); linarith
      have h0 := abs_nonneg (a - b)
      unfold eps52R at h
      push_cast at h
      norm_num at h ⊢
      linarith
  · intro h; exact Or.inl h
theorem real_matRel_zero (a : ℝ) : matRel a 0 = true ↔ |a| ≤ 1e-6 := by
  rw [real_matRel_iff a 0 (by norm_num), sub_zero]
theorem real_matRel_one (a : ℝ) : matRel a 1 = true ↔ |a - 1| ≤ 1e-6 :=
  real_matRel_iff a 1 (by norm_num)

/-- `Matrix::is_zero` over the reals: every element within the MATRIX epsilon of 0 -/
theorem real_M2_isZeroD_iff (m : M2 ℝ) : M2.isZeroD m = true ↔ ∀ x ∈ m.toList, |x| ≤ 1e-6 := by
  rw [(isZeroD_iff_flat m M3.zero M4.zero).1]
  exact forall₂_congr fun x _ => real_matRel_zero x
theorem real_M3_isZeroD_iff (m : M3 ℝ) : M3.isZeroD m = true ↔ ∀ x ∈ m.toList, |x| ≤ 1e-6 := by
  rw [(isZeroD_iff_flat M2.zero m M4.zero).2.1]
  exact forall₂_congr fun x _ => real_matRel_zero x
theorem real_M4_isZeroD_iff (m : M4 ℝ) : M4.isZeroD m = true ↔ ∀ x ∈ m.toList, |x| ≤ 1e-6 := by
  rw [(isZeroD_iff_flat M2.zero M3.zero m).2.2]
  exact forall₂_congr fun x _ => real_matRel_zero x

/-- `SquareMatrix::is_identity` over the reals: every element within the MATRIX epsilon of the
identity's element -/
theorem real_M2_isIdentityD_iff (m : M2 ℝ) :
    M2.isIdentityD m = true ↔ ∀ p ∈ m.toList.zip (M2.one : M2 ℝ).toList, |p.1 - p.2| ≤ 1e-6 := by
  have hb : ∀ y ∈ (M2.one : M2 ℝ).toList, |y| ≤ 1 := by
    simp [M2.one, M2.fromValue, M2.new, M2.toList, V2.toList]
  unfold M2.isIdentityD M2.ulpsEqD
  rw [M2.ulpsEq_iff]
  exact forall₂_congr fun p hp => real_matRel_iff p.1 p.2 (hb _ (List.of_mem_zip hp).2)
theorem real_M3_isIdentityD_iff (m : M3 ℝ) :
    M3.isIdentityD m = true ↔ ∀ p ∈ m.toList.zip (M3.one : M3 ℝ).toList, |p.1 - p.2| ≤ 1e-6 := by
  have hb : ∀ y ∈ (M3.one : M3 ℝ).toList, |y| ≤ 1 := by
    simp [M3.one, M3.fromValue, M3.new, M3.toList, V3.toList]
  unfold M3.isIdentityD M3.ulpsEqD
  rw [M3.ulpsEq_iff]
  exact forall₂_congr fun p hp => real_matRel_iff p.1 p.2 (hb _ (List.of_mem_zip hp).2)
theorem real_M4_isIdentityD_iff (m : M4 ℝ) :
    M4.isIdentityD m = true ↔ ∀ p ∈ m.toList.zip (M4.one : M4 ℝ).toList, |p.1 - p.2| ≤ 1e-6 := by
  have hb : ∀ y ∈ (M4.one : M4 ℝ).toList, |y| ≤ 1 := by
    simp [M4.one, M4.fromValue, M4.new, M4.toList, V4.toList]
  unfold M4.isIdentityD M4.ulpsEqD
  rw [M4.ulpsEq_iff]
  exact forall₂_congr fun p hp => real_matRel_iff p.1 p.2 (hb _ (List.of_mem_zip hp).2)
/-- spelled out for `Matrix2` -/
theorem real_M2_isIdentityD_iff_elems (m : M2 ℝ) :
    M2.isIdentityD m = true ↔
      |m.x.x - 1| ≤ 1e-6 ∧ |m.x.y| ≤ 1e-6 ∧ |m.y.x| ≤ 1e-6 ∧ |m.y.y - 1| ≤ 1e-6 := by
  unfold M2.isIdentityD M2.ulpsEqD
  rw [M2.ulpsEq_iff_elems]
  exact and_congr (real_matRel_one _) (and_congr (real_matRel_zero _)
    (and_congr (real_matRel_zero _) (real_matRel_one _)))

/-- the scalar-epsilon predicates over the reals -/
theorem real_M2_isDiagonalD_iff (m : M2 ℝ) :
    M2.isDiagonalD m = true ↔ |m.x.y| ≤ eps52R ∧ |m.y.x| ≤ eps52R := by
  simp [M2.isDiagonalD, M2.isDiagonal, real_ulpsEqD_zero]
theorem real_M3_isDiagonalD_iff (m : M3 ℝ) :
    M3.isDiagonalD m = true ↔ |m.x.y| ≤ eps52R ∧ |m.x.z| ≤ eps52R ∧ |m.y.x| ≤ eps52R ∧
      |m.y.z| ≤ eps52R ∧ |m.z.x| ≤ eps52R ∧ |m.z.y| ≤ eps52R := by
  simp [M3.isDiagonalD, M3.isDiagonal, real_ulpsEqD_zero, and_assoc]
theorem real_isInvertibleD_iff (m2 : M2 ℝ) (m3 : M3 ℝ) (m4 : M4 ℝ) :
    (M2.isInvertibleD m2 = true ↔ eps52R < |m2.det|) ∧
    (M3.isInvertibleD m3 = true ↔ eps52R < |m3.det|) ∧
    (M4.isInvertibleD m4 = true ↔ eps52R < |m4.det|) := by
  have key : ∀ d : ℝ, Cg.ulpsEqD d 0 = false ↔ eps52R < |d| := by
    intro d; rw [← not_le, ← real_ulpsEqD_zero]; simp
  obtain ⟨h2, h3, h4⟩ := isInvertibleD_iff m2 m3 m4
  exact ⟨h2.trans (key _), h3.trans (key _), h4.trans (key _)⟩

/-- THE CONTRAST, `Matrix2`: a deviation of `1e-8` in one element is inside the matrix epsilon `1e-6`
(`is_identity`, `is_zero` hold), `1e-5` is outside (they fail); but the very same `1e-8` is far outside
the scalar epsilon `2^-52` that `is_diagonal` / `is_symmetric` / `is_invertible` use: the matrix that
"is the identity" is neither diagonal nor symmetric, and a matrix that "is zero" is invertible. -/
theorem real_contrast_M2 :
    M2.isIdentityD (M2.new 1 1e-8 0 1 : M2 ℝ) = true ∧
    M2.isIdentityD (M2.new 1 1e-5 0 1 : M2 ℝ) = false ∧
    M2.isZeroD (M2.new 0 1e-8 0 0 : M2 ℝ) = true ∧
    M2.isZeroD (M2.new 0 1e-5 0 0 : M2 ℝ) = false ∧
    M2.isDiagonalD (M2.new 1 1e-8 0 1 : M2 ℝ) = false ∧
    M2.isSymmetricD (M2.new 1 1e-8 0 1 : M2 ℝ) = false ∧
    M2.isZeroD (M2.new 1e-7 0 0 1e-7 : M2 ℝ) = true ∧
    M2.isInvertibleD (M2.new 1e-7 0 0 1e-7 : M2 ℝ) = true := by
  refine ⟨?_, ?_, ?_, ?_, ?_, ?_, ?_, ?_⟩
  · rw [real_M2_isIdentityD_iff_elems]; norm_num [M2.new, abs_le]
  · rw [← Bool.not_eq_true, real_M2_isIdentityD_iff_elems]; norm_num [M2.new, abs_le]
  · rw [real_M2_isZeroD_iff]; norm_num [M2.new, M2.toList, V2.toList, abs_le]
  · rw [← Bool.not_eq_true, real_M2_isZeroD_iff]; norm_num [M2.new, M2.toList, V2.toList, abs_le]
  · rw [← Bool.not_eq_true, real_M2_isDiagonalD_iff]; norm_num [M2.new, abs_le, eps52R]
  · rw [← Bool.not_eq_true]
    simp only [M2.isSymmetricD, M2.isSymmetric, M2.new, Bool.and_eq_true, real_ulpsEqD]
    norm_num [abs_le, eps52R]
  · rw [real_M2_isZeroD_iff]; norm_num [M2.new, M2.toList, V2.toList, abs_le]
  · rw [(real_isInvertibleD_iff _ M3.zero M4.zero).1]; norm_num [M2.new, M2.det, eps52R, lt_abs]

/-- the same two sides of `1e-6` for `Matrix3` and `Matrix4` (perturbed element: column 2, row 1) -/
theorem real_contrast_M3 :
    M3.isIdentityD (M3.new 1 0 0 0 1 0 0 1e-8 1 : M3 ℝ) = true ∧
    M3.isIdentityD (M3.new 1 0 0 0 1 0 0 1e-5 1 : M3 ℝ) = false ∧
    M3.isZeroD (M3.new 0 0 0 0 0 0 0 1e-8 0 : M3 ℝ) = true ∧
    M3.isZeroD (M3.new 0 0 0 0 0 0 0 1e-5 0 : M3 ℝ) = false ∧
    M3.isDiagonalD (M3.new 1 0 0 0 1 0 0 1e-8 1 : M3 ℝ) = false := by
  refine ⟨?_, ?_, ?_, ?_, ?_⟩
  · rw [real_M3_isIdentityD_iff]
    norm_num [M3.new, M3.one, M3.fromValue, M3.toList, V3.toList, abs_le]
  · rw [← Bool.not_eq_true, real_M3_isIdentityD_iff]
    norm_num [M3.new, M3.one, M3.fromValue, M3.toList, V3.toList, abs_le]
  · rw [real_M3_isZeroD_iff]; norm_num [M3.new, M3.toList, V3.toList, abs_le]
  · rw [← Bool.not_eq_true, real_M3_isZeroD_iff]; norm_num [M3.new, M3.toList, V3.toList, abs_le]
  · rw [← Bool.not_eq_true, real_M3_isDiagonalD_iff]; norm_num [M3.new, abs_le, eps52R]
theorem real_contrast_M4 :
    M4.isIdentityD (M4.new 1 0 0 0 0 1 0 0 0 1e-8 1 0 0 0 0 1 : M4 ℝ) = true ∧
    M4.isIdentityD (M4.new 1 0 0 0 0 1 0 0 0 1e-5 1 0 0 0 0 1 : M4 ℝ) = false ∧
    M4.isZeroD (M4.new 0 0 0 0 0 0 0 0 0 1e-8 0 0 0 0 0 0 : M4 ℝ) = true ∧
    M4.isZeroD (M4.new 0 0 0 0 0 0 0 0 0 1e-5 0 0 0 0 0 0 : M4 ℝ) = false := by
  refine ⟨?_, ?_, ?_, ?_⟩
  · rw [real_M4_isIdentityD_iff]
    norm_num [M4.new, M4.one, M4.fromValue, M4.toList, V4.toList, abs_le]
  · rw [← Bool.not_eq_true, real_M4_isIdentityD_iff]
    norm_num [M4.new, M4.one, M4.fromValue, M4.toList, V4.toList, abs_le]
  · rw [real_M4_isZeroD_iff]; norm_num [M4.new, M4.toList, V4.toList, abs_le]
  · rw [← Bool.not_eq_true, real_M4_isZeroD_iff]; norm_num [M4.new, M4.toList, V4.toList, abs_le]

/-- consequences in the form of the property's quantifier: all elements within `1e-8` of the identity
=> `is_identity`; one element at least `1e-5` away => not -/
theorem real_M4_isIdentityD_of_close (m : M4 ℝ)
    (h : ∀ p ∈ m.toList.zip (M4.one : M4 ℝ).toList, |p.1 - p.2| ≤ 1e-8) : M4.isIdentityD m = true :=
  (real_M4_isIdentityD_iff m).2 fun p hp => le_trans (h p hp) (by norm_num)
theorem real_M4_isIdentityD_of_far (m : M4 ℝ) (p : ℝ × ℝ)
    (hp : p ∈ m.toList.zip (M4.one : M4 ℝ).toList) (h : 1e-5 ≤ |p.1 - p.2|) :
    M4.isIdentityD m = false := by
  rw [← Bool.not_eq_true, real_M4_isIdentityD_iff]
  intro hc
  have := hc p hp
  have h2 : (1e-6 : ℝ) < 1e-5 := by norm_num
  linarith

/-! ### the laws are inhabited at `ℝ`: the compound relations over the reals, just inside / just outside -/
theorem real_V3_absDiffEq_iff (a b : V3 ℝ) (e : ℝ) :
    V3.absDiffEq a b e = true ↔ |a.x - b.x| ≤ e ∧ |a.y - b.y| ≤ e ∧ |a.z - b.z| ≤ e :=
  V3.absDiffEq_iff_abs realApproxLaws a b e
theorem real_M4_absDiffEq_iff (a b : M4 ℝ) (e : ℝ) :
    M4.absDiffEq a b e = true ↔ ∀ p ∈ a.toList.zip b.toList, |p.1 - p.2| ≤ e :=
  M4.absDiffEq_iff_abs realApproxLaws a b e
theorem real_refl_symm (m n : M4 ℝ) (d d' : Decomposed (Quat ℝ) (V3 ℝ) ℝ) :
    M4.ulpsEqD m m = true ∧ M4.relEqD m m = true ∧ M4.ulpsEqD m n = M4.ulpsEqD n m ∧
    Decomposed.ulpsEqD Quat.ulpsEq V3.ulpsEq d d = true ∧
    Decomposed.ulpsEqD Quat.ulpsEq V3.ulpsEq d d' = Decomposed.ulpsEqD Quat.ulpsEq V3.ulpsEq d' d :=
  ⟨M4.ulpsEq_refl realApproxLaws m _ _ lits_matEps_pos.le,
   M4.relEq_refl realApproxLaws m _ _ lits_matEps_pos.le realApproxLaws.maxRel_nonneg,
   M4.ulpsEq_symm realApproxLaws m n _ _,
   Decomposed.ulpsEq_quat_refl realApproxLaws d _ _ realApproxLaws.eps_nonneg,
   Decomposed.ulpsEq_quat_symm realApproxLaws d d' _ _⟩
/-- a difference of `1` in the last component only: equal at tolerance `1`, unequal at `1/2`;
a negative tolerance makes even `abs_diff_eq(v, v, e)` false (why reflexivity needs `0 ≤ e`) -/
example :
    V3.absDiffEq (⟨0, 0, 0⟩ : V3 ℝ) ⟨0, 0, 1⟩ 1 = true ∧
    V3.absDiffEq (⟨0, 0, 0⟩ : V3 ℝ) ⟨0, 0, 1⟩ (1 / 2) = false ∧
    V3.absDiffEq (⟨0, 0, 0⟩ : V3 ℝ) ⟨0, 0, 0⟩ (-1) = false := by
  refine ⟨?_, ?_, ?_⟩
  · rw [real_V3_absDiffEq_iff]; norm_num
  · rw [← Bool.not_eq_true, real_V3_absDiffEq_iff]; norm_num
  · rw [← Bool.not_eq_true, real_V3_absDiffEq_iff]; norm_num
end real

/-! ## non-vacuity of `is_finite`: concrete values (`fin n := |n| < 100` on `Int`) -/
example : V3.isFinite (fun n : Int => decide (n < 100)) ⟨1, 2, 3⟩ = true ∧
    V3.isFinite (fun n : Int => decide (n < 100)) ⟨1, 2, 300⟩ = false ∧
    P2.isFinite (fun n : Int => decide (n < 100)) ⟨1, 200⟩ = false ∧
    V1.isFinite (fun n : Int => decide (n < 100)) ⟨1⟩ = true := by decide
example : M4.isFinite (fun n : Int => decide (n < 100))
      (M4.new 1 0 0 0 0 1 0 0 0 0 1 0 0 0 0 1) = true ∧
    M4.isFinite (fun n : Int => decide (n < 100))
      (M4.new 1 0 0 0 0 1 0 0 0 0 1 0 0 0 500 1) = false := by decide
end Cg.C18
