import Cgm.Props.C03
import Mathlib.Algebra.Ring.InjSurj
import Mathlib.Algebra.Ring.Int.Defs
import Mathlib.Algebra.Ring.Hom.Defs
import Mathlib.Algebra.Order.Group.Int
import Mathlib.Data.Int.Cast.Lemmas
import Mathlib.Data.ZMod.Defs
import Mathlib.Data.ZMod.Basic
import Mathlib.Data.BitVec
import Mathlib.Data.UInt
import Mathlib.Tactic.NormNum
/-!
# C03b — the integer reading of C03 made explicit

C03 quantifies over "a field ... and the same identities over the integer scalar types where no
overflow occurs".  `Cgm/Props/C03.lean` proves every division-free law over an arbitrary
commutative ring `R`.  Here:

1. **Instantiation.**  All those laws are bundled in `RingLaws R`; `ringLaws R` proves the bundle
   for every commutative ring, and it is instantiated at `ℤ` (mathematical integers = "no overflow
   occurs"), at `ZMod (2^n)`, `n = 8, 16, 32, 64` (and every `n`) -- release-mode Rust integer
   arithmetic `+ - *` *is* arithmetic in `ℤ/2^n`, for the signed and the unsigned types alike, so
   the laws hold verbatim for wrapping arithmetic --, at `BitVec w`, at Lean's machine words
   `UInt8 .. UInt64`, and at `TInt` below.  `map_*` says the model functions commute with every
   ring homomorphism, in particular with the reduction `ℤ → ZMod (2^n)`: the wrapped result is
   the reduction of the mathematical result.
2. **Division.**  Rust's integer `/` and `%` truncate toward zero.  `TInt` wraps `ℤ` with
   `Int.tdiv` / `Int.tmod` as `Div` / `Mod` / `FRem`, so that the polymorphic model at `V3 TInt`
   computes what `Vector3<i64>` computes when nothing overflows.  Division and remainder are
   component-wise `tdiv` / `tmod`, `v / s * s + v % s = v`, the remainder is smaller than the
   divisor in absolute value and has the sign of the dividend, and the rewrite
   `v / s  ↦  v * (1 / s)` (valid over a field, `C03.V3.div_eq`) is **wrong** over `TInt`.
3. **Sanity evaluations** of the model over `TInt` by `decide`.
-/
namespace Cg

/-! ## `TInt`: integers with Rust's truncating `/` and `%` -/

/-- mathematical integers carrying Rust's integer division (`/` = `Int.tdiv`, `%` = `Int.tmod`):
the scalar type `i8 .. i64 / isize` (and, on the non-negative part, `u8 .. u64 / usize`) as long
as no operation overflows -/
structure TInt where
  val : ℤ
  deriving DecidableEq, Repr

namespace TInt
instance : Add TInt := ⟨fun a b => ⟨a.val + b.val⟩⟩
instance : Sub TInt := ⟨fun a b => ⟨a.val - b.val⟩⟩
instance : Mul TInt := ⟨fun a b => ⟨a.val * b.val⟩⟩
instance : Neg TInt := ⟨fun a => ⟨-a.val⟩⟩
instance : Zero TInt := ⟨⟨0⟩⟩
instance : One TInt := ⟨⟨1⟩⟩
instance : NatCast TInt := ⟨fun n => ⟨n⟩⟩
instance : IntCast TInt := ⟨fun n => ⟨n⟩⟩
instance : SMul ℕ TInt := ⟨fun n a => ⟨n • a.val⟩⟩
instance : SMul ℤ TInt := ⟨fun n a => ⟨n • a.val⟩⟩
instance : Pow TInt ℕ := ⟨fun a n => ⟨a.val ^ n⟩⟩
/-- Rust `i64::div`: truncation toward zero -/
instance : Div TInt := ⟨fun a b => ⟨Int.tdiv a.val b.val⟩⟩
/-- Rust `i64::rem`: remainder of the truncating division (sign of the dividend) -/
instance : Mod TInt := ⟨fun a b => ⟨Int.tmod a.val b.val⟩⟩
instance : LT TInt := ⟨fun a b => a.val < b.val⟩
instance : LE TInt := ⟨fun a b => a.val ≤ b.val⟩
instance : DecidableLT TInt := fun a b => inferInstanceAs (Decidable (a.val < b.val))
instance : DecidableLE TInt := fun a b => inferInstanceAs (Decidable (a.val ≤ b.val))
/-- the model's `%` -/
instance : FRem TInt := ⟨fun a b => a % b⟩

theorem val_injective : Function.Injective TInt.val := fun a b h => by
  cases a; cases b; simp_all

/-- the ring structure is the one of `ℤ`, *with the very `+ - * 0 1` instances above* (which are
the ones the polymorphic model picks up), so the ring-level laws of C03 apply to `V3 TInt` etc. -/
instance : CommRing TInt :=
  val_injective.commRing TInt.val rfl rfl (fun _ _ => rfl) (fun _ _ => rfl) (fun _ => rfl)
    (fun _ _ => rfl) (fun _ _ => rfl) (fun _ _ => rfl) (fun _ _ => rfl) (fun _ => rfl) (fun _ => rfl)

@[simp] theorem val_zero : (0 : TInt).val = 0 := rfl
@[simp] theorem val_one : (1 : TInt).val = 1 := rfl
@[simp] theorem val_ofNat (n : ℕ) [n.AtLeastTwo] : (OfNat.ofNat n : TInt).val = OfNat.ofNat n := rfl
@[simp] theorem val_natCast (n : ℕ) : ((n : TInt)).val = n := rfl
@[simp] theorem val_add (a b : TInt) : (a + b).val = a.val + b.val := rfl
@[simp] theorem val_sub (a b : TInt) : (a - b).val = a.val - b.val := rfl
@[simp] theorem val_mul (a b : TInt) : (a * b).val = a.val * b.val := rfl
@[simp] theorem val_neg (a : TInt) : (-a).val = -a.val := rfl
@[simp] theorem val_div (a b : TInt) : (a / b).val = Int.tdiv a.val b.val := rfl
@[simp] theorem val_mod (a b : TInt) : (a % b).val = Int.tmod a.val b.val := rfl
@[simp] theorem val_frem (a b : TInt) : (FRem.frem a b).val = Int.tmod a.val b.val := rfl
theorem ext_iff' {a b : TInt} : a = b ↔ a.val = b.val := ⟨congrArg _, fun h => val_injective h⟩
theorem ne_zero_iff {s : TInt} : s ≠ 0 ↔ s.val ≠ 0 := not_congr ext_iff'

/-- `val` is a ring isomorphism onto `ℤ`: `TInt` adds nothing but `/` and `%` -/
def valHom : TInt →+* ℤ where
  toFun := TInt.val
  map_one' := rfl
  map_mul' _ _ := rfl
  map_zero' := rfl
  map_add' _ _ := rfl

/-! ### scalar facts: Rust's `/`, `%` -/
/-- `a / s * s + a % s = a` (also for `s = 0` in the model, where `a / 0 = 0`, `a % 0 = a`; in Rust
`s = 0` panics) -/
theorem div_mul_add_rem (a s : TInt) : a / s * s + FRem.frem a s = a :=
  val_injective (Int.tdiv_mul_add_tmod a.val s.val)
/-- the remainder is smaller than the divisor in absolute value and has the sign of the dividend:
together with `div_mul_add_rem` this is "truncation toward zero" -/
theorem rem_bound (a s : TInt) (hs : s ≠ 0) :
    |(FRem.frem a s).val| < |s.val| ∧ (0 ≤ a.val → 0 ≤ (FRem.frem a s).val) ∧
    (a.val ≤ 0 → (FRem.frem a s).val ≤ 0) := by
  have hs' : s.val ≠ 0 := ne_zero_iff.1 hs
  refine ⟨?_, fun h => Int.tmod_nonneg _ h, fun h => ?_⟩
  · rw [val_frem, Int.abs_eq_natAbs, Int.abs_eq_natAbs, Int.natAbs_tmod]
    exact_mod_cast Nat.mod_lt _ (Int.natAbs_pos.2 hs')
  · have := Int.tmod_nonneg (a := -a.val) s.val (by omega)
    rw [Int.neg_tmod] at this
    simp only [val_frem]; omega
/-- the quotient is toward zero: `|a / s * s| ≤ |a|` -/
theorem abs_div_mul_le (a s : TInt) : |(a / s * s).val| ≤ |a.val| := by
  rw [val_mul, val_div, Int.abs_eq_natAbs, Int.abs_eq_natAbs, Int.natAbs_mul, Int.natAbs_tdiv]
  exact_mod_cast Nat.div_mul_le_self _ _
/-- exact division is undone by multiplication: `(a * s) / s = a` for `s ≠ 0` -/
theorem mul_div_cancel (a s : TInt) (hs : s ≠ 0) : a * s / s = a :=
  val_injective (Int.mul_tdiv_cancel _ (ne_zero_iff.1 hs))
/-- `1 / s = 0` as soon as `|s| > 1`: there is no integer reciprocal -/
theorem one_div_eq_zero (s : TInt) (hs : 1 < |s.val|) : (1 : TInt) / s = 0 := by
  apply val_injective
  show Int.tdiv 1 s.val = 0
  rcases le_total 0 s.val with h | h
  · rw [abs_of_nonneg h] at hs
    exact Int.tdiv_eq_zero_of_lt (by norm_num) hs
  · rw [abs_of_nonpos h] at hs
    have := Int.tdiv_eq_zero_of_lt (a := 1) (b := -s.val) (by norm_num) hs
    rw [Int.tdiv_neg] at this
    omega
/-- the unsigned types `u8 .. u64 / usize`: on natural numbers the truncating `/`, `%` are the
natural-number quotient and remainder -/
theorem div_natCast (a s : ℕ) : ((a : TInt) / (s : TInt)) = ((a / s : ℕ) : TInt) ∧
    FRem.frem (a : TInt) (s : TInt) = ((a % s : ℕ) : TInt) :=
  ⟨val_injective (Int.ofNat_tdiv a s).symm, val_injective (Int.ofNat_tmod a s).symm⟩
end TInt
end Cg

namespace Cg.C03
open Cg

/-! ## 1. the ring-level laws of C03, bundled, and their instances -/

/-- every division-free statement of `Cgm/Props/C03.lean`, verbatim, over the scalar ring `R` -/
structure RingLaws (R : Type) [CommRing R] : Prop where
  V1_add_get : ∀ (u v : V1 R),
    (u + v).x = u.x + v.x
  V2_add_get : ∀ (u v : V2 R),
    (u + v).x = u.x + v.x ∧ (u + v).y = u.y + v.y
  V3_add_get : ∀ (u v : V3 R),
    (u + v).x = u.x + v.x ∧ (u + v).y = u.y + v.y ∧ (u + v).z = u.z + v.z
  V4_add_get : ∀ (u v : V4 R),
    (u + v).x = u.x + v.x ∧ (u + v).y = u.y + v.y ∧ (u + v).z = u.z + v.z ∧ (u + v).w = u.w + v.w
  V1_sub_get : ∀ (u v : V1 R),
    (u - v).x = u.x - v.x
  V2_sub_get : ∀ (u v : V2 R),
    (u - v).x = u.x - v.x ∧ (u - v).y = u.y - v.y
  V3_sub_get : ∀ (u v : V3 R),
    (u - v).x = u.x - v.x ∧ (u - v).y = u.y - v.y ∧ (u - v).z = u.z - v.z
  V4_sub_get : ∀ (u v : V4 R),
    (u - v).x = u.x - v.x ∧ (u - v).y = u.y - v.y ∧ (u - v).z = u.z - v.z ∧ (u - v).w = u.w - v.w
  V1_neg_get : ∀ (u : V1 R),
    (-u).x = -u.x
  V2_neg_get : ∀ (u : V2 R),
    (-u).x = -u.x ∧ (-u).y = -u.y
  V3_neg_get : ∀ (u : V3 R),
    (-u).x = -u.x ∧ (-u).y = -u.y ∧ (-u).z = -u.z
  V4_neg_get : ∀ (u : V4 R),
    (-u).x = -u.x ∧ (-u).y = -u.y ∧ (-u).z = -u.z ∧ (-u).w = -u.w
  V1_mul_get : ∀ (u : V1 R) (a : R),
    (u * a).x = u.x * a
  V2_mul_get : ∀ (u : V2 R) (a : R),
    (u * a).x = u.x * a ∧ (u * a).y = u.y * a
  V3_mul_get : ∀ (u : V3 R) (a : R),
    (u * a).x = u.x * a ∧ (u * a).y = u.y * a ∧ (u * a).z = u.z * a
  V4_mul_get : ∀ (u : V4 R) (a : R),
    (u * a).x = u.x * a ∧ (u * a).y = u.y * a ∧ (u * a).z = u.z * a ∧ (u * a).w = u.w * a
  V1_add_comm : ∀ (u v : V1 R),
    u + v = v + u
  V2_add_comm : ∀ (u v : V2 R),
    u + v = v + u
  V3_add_comm : ∀ (u v : V3 R),
    u + v = v + u
  V4_add_comm : ∀ (u v : V4 R),
    u + v = v + u
  V1_add_assoc : ∀ (u v w : V1 R),
    (u + v) + w = u + (v + w)
  V2_add_assoc : ∀ (u v w : V2 R),
    (u + v) + w = u + (v + w)
  V3_add_assoc : ∀ (u v w : V3 R),
    (u + v) + w = u + (v + w)
  V4_add_assoc : ∀ (u v w : V4 R),
    (u + v) + w = u + (v + w)
  V1_add_zero : ∀ (u : V1 R),
    u + V1.zero = u ∧ V1.zero + u = u
  V2_add_zero : ∀ (u : V2 R),
    u + V2.zero = u ∧ V2.zero + u = u
  V3_add_zero : ∀ (u : V3 R),
    u + V3.zero = u ∧ V3.zero + u = u
  V4_add_zero : ∀ (u : V4 R),
    u + V4.zero = u ∧ V4.zero + u = u
  V1_add_neg : ∀ (u : V1 R),
    u + -u = V1.zero
  V2_add_neg : ∀ (u : V2 R),
    u + -u = V2.zero
  V3_add_neg : ∀ (u : V3 R),
    u + -u = V3.zero
  V4_add_neg : ∀ (u : V4 R),
    u + -u = V4.zero
  V1_sub_eq : ∀ (u v : V1 R),
    u - v = u + -v
  V2_sub_eq : ∀ (u v : V2 R),
    u - v = u + -v
  V3_sub_eq : ∀ (u v : V3 R),
    u - v = u + -v
  V4_sub_eq : ∀ (u v : V4 R),
    u - v = u + -v
  V1_mul_add : ∀ (u v : V1 R) (a b : R),
    (u + v) * a = u * a + v * a ∧ u * (a + b) = u * a + u * b ∧ (u * a) * b = u * (a * b) ∧ u * (1 : R) = u
  V2_mul_add : ∀ (u v : V2 R) (a b : R),
    (u + v) * a = u * a + v * a ∧ u * (a + b) = u * a + u * b ∧ (u * a) * b = u * (a * b) ∧ u * (1 : R) = u
  V3_mul_add : ∀ (u v : V3 R) (a b : R),
    (u + v) * a = u * a + v * a ∧ u * (a + b) = u * a + u * b ∧ (u * a) * b = u * (a * b) ∧ u * (1 : R) = u
  V4_mul_add : ∀ (u v : V4 R) (a b : R),
    (u + v) * a = u * a + v * a ∧ u * (a + b) = u * a + u * b ∧ (u * a) * b = u * (a * b) ∧ u * (1 : R) = u
  V1_sum_eq : ∀ (u : V1 R),
    u.sum = u.x ∧ u.product = u.x + 0
  V2_sum_eq : ∀ (u : V2 R),
    u.sum = u.x + u.y ∧ u.product = u.x * u.y
  V3_sum_eq : ∀ (u : V3 R),
    u.sum = u.x + u.y + u.z ∧ u.product = u.x * u.y * u.z
  V4_sum_eq : ∀ (u : V4 R),
    u.sum = u.x + u.y + u.z + u.w ∧ u.product = u.x * u.y * u.z * u.w
  V1_dot_eq : ∀ (u v : V1 R),
    V1.dot u v = u.x * v.x
  V2_dot_eq : ∀ (u v : V2 R),
    V2.dot u v = u.x * v.x + u.y * v.y
  V3_dot_eq : ∀ (u v : V3 R),
    V3.dot u v = u.x * v.x + u.y * v.y + u.z * v.z
  V4_dot_eq : ∀ (u v : V4 R),
    V4.dot u v = u.x * v.x + u.y * v.y + u.z * v.z + u.w * v.w
  V1_dot_comm : ∀ (u v : V1 R),
    V1.dot u v = V1.dot v u
  V2_dot_comm : ∀ (u v : V2 R),
    V2.dot u v = V2.dot v u
  V3_dot_comm : ∀ (u v : V3 R),
    V3.dot u v = V3.dot v u
  V4_dot_comm : ∀ (u v : V4 R),
    V4.dot u v = V4.dot v u
  V1_dot_bilinear : ∀ (u v w : V1 R) (a : R),
    V1.dot (u + v) w = V1.dot u w + V1.dot v w ∧ V1.dot (u * a) w = a * V1.dot u w ∧ V1.dot w (u + v) = V1.dot w u + V1.dot w v ∧ V1.dot w (u * a) = a * V1.dot w u
  V2_dot_bilinear : ∀ (u v w : V2 R) (a : R),
    V2.dot (u + v) w = V2.dot u w + V2.dot v w ∧ V2.dot (u * a) w = a * V2.dot u w ∧ V2.dot w (u + v) = V2.dot w u + V2.dot w v ∧ V2.dot w (u * a) = a * V2.dot w u
  V3_dot_bilinear : ∀ (u v w : V3 R) (a : R),
    V3.dot (u + v) w = V3.dot u w + V3.dot v w ∧ V3.dot (u * a) w = a * V3.dot u w ∧ V3.dot w (u + v) = V3.dot w u + V3.dot w v ∧ V3.dot w (u * a) = a * V3.dot w u
  V4_dot_bilinear : ∀ (u v w : V4 R) (a : R),
    V4.dot (u + v) w = V4.dot u w + V4.dot v w ∧ V4.dot (u * a) w = a * V4.dot u w ∧ V4.dot w (u + v) = V4.dot w u + V4.dot w v ∧ V4.dot w (u * a) = a * V4.dot w u
  V1_magnitude2_eq : ∀ (u : V1 R),
    u.magnitude2 = V1.dot u u
  V2_magnitude2_eq : ∀ (u : V2 R),
    u.magnitude2 = V2.dot u u
  V3_magnitude2_eq : ∀ (u : V3 R),
    u.magnitude2 = V3.dot u u
  V4_magnitude2_eq : ∀ (u : V4 R),
    u.magnitude2 = V4.dot u u
  V3_cross_anticomm : ∀ (u v : V3 R),
    V3.cross u v = -V3.cross v u
  V3_dot_cross_self : ∀ (u v : V3 R),
    V3.dot u (V3.cross u v) = 0 ∧ V3.dot v (V3.cross u v) = 0
  V3_lagrange : ∀ (u v : V3 R),
    (V3.cross u v).magnitude2 = u.magnitude2 * v.magnitude2 - (V3.dot u v) ^ 2
  V3_cross_cross : ∀ (u v w : V3 R),
    V3.cross u (V3.cross v w) = v * V3.dot u w - w * V3.dot u v
  V2_perpDot_eq : ∀ (u v : V2 R),
    V2.perpDot u v = u.x * v.y - u.y * v.x
  /-- the division-free part of `V*.elementwise` -/
  V1_elementwise : ∀ (u v : V1 R) (s : R),
    u + v = V1.zip (· + ·) u v ∧ u - v = V1.zip (· - ·) u v ∧ V1.mulEw u v = V1.zip (· * ·) u v ∧
    V1.addS u s = V1.map (· + s) u ∧ V1.subS u s = V1.map (· - s) u ∧ u * s = V1.map (· * s) u
  V2_elementwise : ∀ (u v : V2 R) (s : R),
    u + v = V2.zip (· + ·) u v ∧ u - v = V2.zip (· - ·) u v ∧ V2.mulEw u v = V2.zip (· * ·) u v ∧
    V2.addS u s = V2.map (· + s) u ∧ V2.subS u s = V2.map (· - s) u ∧ u * s = V2.map (· * s) u
  V3_elementwise : ∀ (u v : V3 R) (s : R),
    u + v = V3.zip (· + ·) u v ∧ u - v = V3.zip (· - ·) u v ∧ V3.mulEw u v = V3.zip (· * ·) u v ∧
    V3.addS u s = V3.map (· + s) u ∧ V3.subS u s = V3.map (· - s) u ∧ u * s = V3.map (· * s) u
  V4_elementwise : ∀ (u v : V4 R) (s : R),
    u + v = V4.zip (· + ·) u v ∧ u - v = V4.zip (· - ·) u v ∧ V4.mulEw u v = V4.zip (· * ·) u v ∧
    V4.addS u s = V4.map (· + s) u ∧ V4.subS u s = V4.map (· - s) u ∧ u * s = V4.map (· * s) u

/-- the bundle holds over every commutative ring (this is just `Cgm/Props/C03.lean`) -/
theorem ringLaws (R : Type) [CommRing R] : RingLaws R where
  V1_add_get := V1.add_get
  V2_add_get := V2.add_get
  V3_add_get := V3.add_get
  V4_add_get := V4.add_get
  V1_sub_get := V1.sub_get
  V2_sub_get := V2.sub_get
  V3_sub_get := V3.sub_get
  V4_sub_get := V4.sub_get
  V1_neg_get := V1.neg_get
  V2_neg_get := V2.neg_get
  V3_neg_get := V3.neg_get
  V4_neg_get := V4.neg_get
  V1_mul_get := V1.mul_get
  V2_mul_get := V2.mul_get
  V3_mul_get := V3.mul_get
  V4_mul_get := V4.mul_get
  V1_add_comm := V1.add_comm
  V2_add_comm := V2.add_comm
  V3_add_comm := V3.add_comm
  V4_add_comm := V4.add_comm
  V1_add_assoc := V1.add_assoc
  V2_add_assoc := V2.add_assoc
  V3_add_assoc := V3.add_assoc
  V4_add_assoc := V4.add_assoc
  V1_add_zero := V1.add_zero
  V2_add_zero := V2.add_zero
  V3_add_zero := V3.add_zero
  V4_add_zero := V4.add_zero
  V1_add_neg := V1.add_neg
  V2_add_neg := V2.add_neg
  V3_add_neg := V3.add_neg
  V4_add_neg := V4.add_neg
  V1_sub_eq := V1.sub_eq
  V2_sub_eq := V2.sub_eq
  V3_sub_eq := V3.sub_eq
  V4_sub_eq := V4.sub_eq
  V1_mul_add := V1.mul_add
  V2_mul_add := V2.mul_add
  V3_mul_add := V3.mul_add
  V4_mul_add := V4.mul_add
  V1_sum_eq := V1.sum_eq
  V2_sum_eq := V2.sum_eq
  V3_sum_eq := V3.sum_eq
  V4_sum_eq := V4.sum_eq
  V1_dot_eq := V1.dot_eq
  V2_dot_eq := V2.dot_eq
  V3_dot_eq := V3.dot_eq
  V4_dot_eq := V4.dot_eq
  V1_dot_comm := V1.dot_comm
  V2_dot_comm := V2.dot_comm
  V3_dot_comm := V3.dot_comm
  V4_dot_comm := V4.dot_comm
  V1_dot_bilinear := V1.dot_bilinear
  V2_dot_bilinear := V2.dot_bilinear
  V3_dot_bilinear := V3.dot_bilinear
  V4_dot_bilinear := V4.dot_bilinear
  V1_magnitude2_eq := V1.magnitude2_eq
  V2_magnitude2_eq := V2.magnitude2_eq
  V3_magnitude2_eq := V3.magnitude2_eq
  V4_magnitude2_eq := V4.magnitude2_eq
  V3_cross_anticomm := V3.cross_anticomm
  V3_dot_cross_self := V3.dot_cross_self
  V3_lagrange := V3.lagrange
  V3_cross_cross := V3.cross_cross
  V2_perpDot_eq := V2.perpDot_eq
  V1_elementwise := fun _ _ _ => ⟨rfl, rfl, rfl, rfl, rfl, rfl⟩
  V2_elementwise := fun _ _ _ => ⟨rfl, rfl, rfl, rfl, rfl, rfl⟩
  V3_elementwise := fun _ _ _ => ⟨rfl, rfl, rfl, rfl, rfl, rfl⟩
  V4_elementwise := fun _ _ _ => ⟨rfl, rfl, rfl, rfl, rfl, rfl⟩

/-- **mathematical integers** ("the integer scalar types where no overflow occurs") -/
theorem ringLaws_int : RingLaws ℤ := ringLaws ℤ
/-- **wrapping arithmetic of any width**: `ℤ/2^n` -/
theorem ringLaws_wrapping (n : ℕ) : RingLaws (ZMod (2 ^ n)) := ringLaws _
/-- `i8` / `u8` release-mode arithmetic -/
theorem ringLaws_wrapping8 : RingLaws (ZMod (2 ^ 8)) := ringLaws _
/-- `i16` / `u16` -/
theorem ringLaws_wrapping16 : RingLaws (ZMod (2 ^ 16)) := ringLaws _
/-- `i32` / `u32` -/
theorem ringLaws_wrapping32 : RingLaws (ZMod (2 ^ 32)) := ringLaws _
/-- `i64` / `u64` (and `isize` / `usize` on 64-bit targets) -/
theorem ringLaws_wrapping64 : RingLaws (ZMod (2 ^ 64)) := ringLaws _
/-- bit-vectors of any width with the two's-complement `+ - *` of Lean core (`BitVec.add`, ...) -/
theorem ringLaws_bitVec (w : ℕ) : RingLaws (BitVec w) := ringLaws _
theorem ringLaws_bitVec32 : RingLaws (BitVec 32) := ringLaws _
/-- Lean's machine words (`UInt32.add` etc. are the wrapping machine operations) -/
theorem ringLaws_uInt8 : open scoped UInt8.CommRing in RingLaws UInt8 :=
  open scoped UInt8.CommRing in ringLaws _
theorem ringLaws_uInt16 : open scoped UInt16.CommRing in RingLaws UInt16 :=
  open scoped UInt16.CommRing in ringLaws _
theorem ringLaws_uInt32 : open scoped UInt32.CommRing in RingLaws UInt32 :=
  open scoped UInt32.CommRing in ringLaws _
theorem ringLaws_uInt64 : open scoped UInt64.CommRing in RingLaws UInt64 :=
  open scoped UInt64.CommRing in ringLaws _
/-- the truncating-division integers: same `+ - *` as the ones `/` and `%` below live with -/
theorem ringLaws_tInt : RingLaws TInt := ringLaws _

/-- a few fields spelled out at the instances, to show what the bundle gives -/
example (u v : V3 ℤ) : (V3.cross u v).magnitude2 = u.magnitude2 * v.magnitude2 - V3.dot u v ^ 2 :=
  ringLaws_int.V3_lagrange u v
example (u v w : V3 (ZMod (2 ^ 32))) :
    V3.cross u (V3.cross v w) = v * V3.dot u w - w * V3.dot u v :=
  ringLaws_wrapping32.V3_cross_cross u v w
example (u v : V4 (BitVec 32)) : V4.dot u v = V4.dot v u := ringLaws_bitVec32.V4_dot_comm u v
example (u v : V2 (ZMod (2 ^ 8))) : V2.perpDot u v = u.x * v.y - u.y * v.x :=
  ringLaws_wrapping8.V2_perpDot_eq u v
/-- the laws really are about wrapping arithmetic: in `ℤ/2^8`, `(200, 100)·(2, 1) = 500 = 244` -/
example : V2.dot (⟨200, 100⟩ : V2 (ZMod (2 ^ 8))) ⟨2, 1⟩ = 244 := by decide
example : V2.dot (⟨200, 100⟩ : V2 (BitVec 8)) ⟨2, 1⟩ = 244 := by decide

/-! ### the model commutes with ring homomorphisms (reduction `ℤ → ℤ/2^n`) -/
section hom
variable {R S : Type} [CommRing R] [CommRing S] (f : R →+* S)

theorem V1.map_ringHom (u v : V1 R) (a : R) :
    (u + v).map f = u.map f + v.map f ∧ (u - v).map f = u.map f - v.map f ∧
    (-u).map f = -u.map f ∧ (u * a).map f = u.map f * f a ∧
    (V1.mulEw u v).map f = V1.mulEw (u.map f) (v.map f) ∧
    f (V1.dot u v) = V1.dot (u.map f) (v.map f) ∧ f u.sum = (u.map f).sum ∧
    f u.product = (u.map f).product := by
  refine ⟨?_, ?_, ?_, ?_, ?_, ?_, ?_, ?_⟩ <;> simp
theorem V2.map_ringHom (u v : V2 R) (a : R) :
    (u + v).map f = u.map f + v.map f ∧ (u - v).map f = u.map f - v.map f ∧
    (-u).map f = -u.map f ∧ (u * a).map f = u.map f * f a ∧
    (V2.mulEw u v).map f = V2.mulEw (u.map f) (v.map f) ∧
    f (V2.dot u v) = V2.dot (u.map f) (v.map f) ∧ f u.sum = (u.map f).sum ∧
    f u.product = (u.map f).product ∧
    f (V2.perpDot u v) = V2.perpDot (u.map f) (v.map f) := by
  refine ⟨?_, ?_, ?_, ?_, ?_, ?_, ?_, ?_, ?_⟩ <;> simp
theorem V3.map_ringHom (u v : V3 R) (a : R) :
    (u + v).map f = u.map f + v.map f ∧ (u - v).map f = u.map f - v.map f ∧
    (-u).map f = -u.map f ∧ (u * a).map f = u.map f * f a ∧
    (V3.mulEw u v).map f = V3.mulEw (u.map f) (v.map f) ∧
    f (V3.dot u v) = V3.dot (u.map f) (v.map f) ∧ f u.sum = (u.map f).sum ∧
    f u.product = (u.map f).product ∧
    (V3.cross u v).map f = V3.cross (u.map f) (v.map f) := by
  refine ⟨?_, ?_, ?_, ?_, ?_, ?_, ?_, ?_, ?_⟩ <;> simp
theorem V4.map_ringHom (u v : V4 R) (a : R) :
    (u + v).map f = u.map f + v.map f ∧ (u - v).map f = u.map f - v.map f ∧
    (-u).map f = -u.map f ∧ (u * a).map f = u.map f * f a ∧
    (V4.mulEw u v).map f = V4.mulEw (u.map f) (v.map f) ∧
    f (V4.dot u v) = V4.dot (u.map f) (v.map f) ∧ f u.sum = (u.map f).sum ∧
    f u.product = (u.map f).product := by
  refine ⟨?_, ?_, ?_, ?_, ?_, ?_, ?_, ?_⟩ <;> simp
end hom

/-- **wrapped result = reduction of the exact result**: computing `cross` / `dot` with `n`-bit
wrapping arithmetic on the reduced inputs gives the reduction mod `2^n` of the integer result; so
when the integer result (and nothing else is needed) fits the type, the wrapped computation is
exact even if intermediate products overflowed -/
theorem V3.cross_dot_wrapping (n : ℕ) (u v : V3 ℤ) :
    V3.cross (u.map (Int.cast : ℤ → ZMod (2 ^ n))) (v.map Int.cast) = (V3.cross u v).map Int.cast ∧
    V3.dot (u.map (Int.cast : ℤ → ZMod (2 ^ n))) (v.map Int.cast) = ((V3.dot u v : ℤ) : ZMod (2 ^ n)) := by
  have h := V3.map_ringHom (Int.castRingHom (ZMod (2 ^ n))) u v 0
  exact ⟨h.2.2.2.2.2.2.2.2.symm, h.2.2.2.2.2.1.symm⟩
/-- the model over `TInt` is the model over `ℤ` (`val` commutes with everything division-free) -/
theorem V3.tInt_val (u v : V3 TInt) :
    (V3.cross u v).map TInt.val = V3.cross (u.map TInt.val) (v.map TInt.val) ∧
    (V3.dot u v).val = V3.dot (u.map TInt.val) (v.map TInt.val) := by
  have h := V3.map_ringHom TInt.valHom u v 0
  exact ⟨h.2.2.2.2.2.2.2.2, h.2.2.2.2.2.1⟩

/-! ## 2. division and remainder over `TInt` (Rust's truncating `/`, `%`) -/

/-- `vector / scalar` is component-wise `Int.tdiv` -/
theorem V1.tdiv_get (v : V1 TInt) (s : TInt) : (v / s).x.val = Int.tdiv v.x.val s.val := rfl
theorem V2.tdiv_get (v : V2 TInt) (s : TInt) :
    (v / s).x.val = Int.tdiv v.x.val s.val ∧ (v / s).y.val = Int.tdiv v.y.val s.val := ⟨rfl, rfl⟩
theorem V3.tdiv_get (v : V3 TInt) (s : TInt) :
    (v / s).x.val = Int.tdiv v.x.val s.val ∧ (v / s).y.val = Int.tdiv v.y.val s.val ∧
    (v / s).z.val = Int.tdiv v.z.val s.val := ⟨rfl, rfl, rfl⟩
theorem V4.tdiv_get (v : V4 TInt) (s : TInt) :
    (v / s).x.val = Int.tdiv v.x.val s.val ∧ (v / s).y.val = Int.tdiv v.y.val s.val ∧
    (v / s).z.val = Int.tdiv v.z.val s.val ∧ (v / s).w.val = Int.tdiv v.w.val s.val :=
  ⟨rfl, rfl, rfl, rfl⟩
/-- `vector % scalar` is component-wise `Int.tmod` -/
theorem V1.trem_get (v : V1 TInt) (s : TInt) : (V1.rem v s).x.val = Int.tmod v.x.val s.val := rfl
theorem V2.trem_get (v : V2 TInt) (s : TInt) :
    (V2.rem v s).x.val = Int.tmod v.x.val s.val ∧ (V2.rem v s).y.val = Int.tmod v.y.val s.val :=
  ⟨rfl, rfl⟩
theorem V3.trem_get (v : V3 TInt) (s : TInt) :
    (V3.rem v s).x.val = Int.tmod v.x.val s.val ∧ (V3.rem v s).y.val = Int.tmod v.y.val s.val ∧
    (V3.rem v s).z.val = Int.tmod v.z.val s.val := ⟨rfl, rfl, rfl⟩
theorem V4.trem_get (v : V4 TInt) (s : TInt) :
    (V4.rem v s).x.val = Int.tmod v.x.val s.val ∧ (V4.rem v s).y.val = Int.tmod v.y.val s.val ∧
    (V4.rem v s).z.val = Int.tmod v.z.val s.val ∧ (V4.rem v s).w.val = Int.tmod v.w.val s.val :=
  ⟨rfl, rfl, rfl, rfl⟩
/-- scalar on the left (`impl_scalar_ops!` for the integer types): `s / v`, `s % v` apply the
primitive operation with the scalar as *left* operand -/
theorem V4.tsdiv_get (s : TInt) (v : V4 TInt) :
    (s / v).x.val = Int.tdiv s.val v.x.val ∧ (s / v).y.val = Int.tdiv s.val v.y.val ∧
    (s / v).z.val = Int.tdiv s.val v.z.val ∧ (s / v).w.val = Int.tdiv s.val v.w.val ∧
    (V4.srem s v).x.val = Int.tmod s.val v.x.val ∧ (V4.srem s v).y.val = Int.tmod s.val v.y.val ∧
    (V4.srem s v).z.val = Int.tmod s.val v.z.val ∧ (V4.srem s v).w.val = Int.tmod s.val v.w.val :=
  ⟨rfl, rfl, rfl, rfl, rfl, rfl, rfl, rfl⟩
theorem V3.tsdiv_get (s : TInt) (v : V3 TInt) :
    (s / v).x.val = Int.tdiv s.val v.x.val ∧ (s / v).y.val = Int.tdiv s.val v.y.val ∧
    (s / v).z.val = Int.tdiv s.val v.z.val ∧
    (V3.srem s v).x.val = Int.tmod s.val v.x.val ∧ (V3.srem s v).y.val = Int.tmod s.val v.y.val ∧
    (V3.srem s v).z.val = Int.tmod s.val v.z.val := ⟨rfl, rfl, rfl, rfl, rfl, rfl⟩
theorem V2.tsdiv_get (s : TInt) (v : V2 TInt) :
    (s / v).x.val = Int.tdiv s.val v.x.val ∧ (s / v).y.val = Int.tdiv s.val v.y.val ∧
    (V2.srem s v).x.val = Int.tmod s.val v.x.val ∧ (V2.srem s v).y.val = Int.tmod s.val v.y.val :=
  ⟨rfl, rfl, rfl, rfl⟩
theorem V1.tsdiv_get (s : TInt) (v : V1 TInt) :
    (s / v).x.val = Int.tdiv s.val v.x.val ∧ (V1.srem s v).x.val = Int.tmod s.val v.x.val :=
  ⟨rfl, rfl⟩
/-- element-wise `/`, `%` -/
theorem V4.tdivEw_get (u v : V4 TInt) :
    V4.divEw u v = V4.zip (fun a b => ⟨Int.tdiv a.val b.val⟩) u v ∧
    V4.remEw u v = V4.zip (fun a b => ⟨Int.tmod a.val b.val⟩) u v := ⟨rfl, rfl⟩
theorem V3.tdivEw_get (u v : V3 TInt) :
    V3.divEw u v = V3.zip (fun a b => ⟨Int.tdiv a.val b.val⟩) u v ∧
    V3.remEw u v = V3.zip (fun a b => ⟨Int.tmod a.val b.val⟩) u v := ⟨rfl, rfl⟩
theorem V2.tdivEw_get (u v : V2 TInt) :
    V2.divEw u v = V2.zip (fun a b => ⟨Int.tdiv a.val b.val⟩) u v ∧
    V2.remEw u v = V2.zip (fun a b => ⟨Int.tmod a.val b.val⟩) u v := ⟨rfl, rfl⟩
theorem V1.tdivEw_get (u v : V1 TInt) :
    V1.divEw u v = V1.zip (fun a b => ⟨Int.tdiv a.val b.val⟩) u v ∧
    V1.remEw u v = V1.zip (fun a b => ⟨Int.tmod a.val b.val⟩) u v := ⟨rfl, rfl⟩

/-- **`v / s * s + v % s = v`**, every dimension.  No hypothesis is needed in the model (`Int.tdiv`
and `Int.tmod` are total: `a / 0 = 0`, `a % 0 = a`); in Rust `s = 0` panics, so the Rust reading is
"for `s ≠ 0`" (and `i64::MIN / -1` overflows, which "no overflow occurs" excludes). -/
theorem V1.div_mul_add_rem (v : V1 TInt) (s : TInt) : v / s * s + V1.rem v s = v := by
  ext; exact TInt.div_mul_add_rem _ _
theorem V2.div_mul_add_rem (v : V2 TInt) (s : TInt) : v / s * s + V2.rem v s = v := by
  ext <;> exact TInt.div_mul_add_rem _ _
theorem V3.div_mul_add_rem (v : V3 TInt) (s : TInt) : v / s * s + V3.rem v s = v := by
  ext <;> exact TInt.div_mul_add_rem _ _
theorem V4.div_mul_add_rem (v : V4 TInt) (s : TInt) : v / s * s + V4.rem v s = v := by
  ext <;> exact TInt.div_mul_add_rem _ _
/-- the remainder vector: every component is smaller than `|s|` and has the sign of the dividend -/
theorem V3.rem_bound (v : V3 TInt) (s : TInt) (hs : s ≠ 0) :
    (|(V3.rem v s).x.val| < |s.val| ∧ |(V3.rem v s).y.val| < |s.val| ∧
      |(V3.rem v s).z.val| < |s.val|) ∧
    (0 ≤ v.x.val → 0 ≤ (V3.rem v s).x.val) ∧ (v.x.val ≤ 0 → (V3.rem v s).x.val ≤ 0) ∧
    (0 ≤ v.y.val → 0 ≤ (V3.rem v s).y.val) ∧ (v.y.val ≤ 0 → (V3.rem v s).y.val ≤ 0) ∧
    (0 ≤ v.z.val → 0 ≤ (V3.rem v s).z.val) ∧ (v.z.val ≤ 0 → (V3.rem v s).z.val ≤ 0) := by
  obtain ⟨a1, a2, a3⟩ := TInt.rem_bound v.x s hs
  obtain ⟨b1, b2, b3⟩ := TInt.rem_bound v.y s hs
  obtain ⟨c1, c2, c3⟩ := TInt.rem_bound v.z s hs
  exact ⟨⟨a1, b1, c1⟩, a2, a3, b2, b3, c2, c3⟩
example : (3 : TInt) ≠ 0 := by decide
/-- exact division: `(v * s) / s = v` for `s ≠ 0` -/
theorem V3.mul_div_cancel (v : V3 TInt) (s : TInt) (hs : s ≠ 0) : v * s / s = v := by
  ext <;> exact TInt.mul_div_cancel _ _ hs
theorem V4.mul_div_cancel (v : V4 TInt) (s : TInt) (hs : s ≠ 0) : v * s / s = v := by
  ext <;> exact TInt.mul_div_cancel _ _ hs

/-! ### the rewrite `v / s ↦ v * (1 / s)` is wrong for the integer types

Over a field, `C03.V3.div_eq : u / a = u * a⁻¹`, and `1 / a = a⁻¹`.  Over the integer types the
"optimisation" of dividing once and multiplying three times annihilates the vector. -/

/-- the seeded bug, concretely: `(6, -9, 12) / 3 = (2, -3, 4)` but `(6, -9, 12) * (1 / 3) = 0` -/
theorem div_vs_mul_recip_counterexample :
    (⟨6, -9, 12⟩ : V3 TInt) / (3 : TInt) = ⟨2, -3, 4⟩ ∧
    (⟨6, -9, 12⟩ : V3 TInt) * ((1 : TInt) / 3) = ⟨0, 0, 0⟩ ∧
    (⟨6, -9, 12⟩ : V3 TInt) / (3 : TInt) ≠ (⟨6, -9, 12⟩ : V3 TInt) * ((1 : TInt) / 3) := by
  refine ⟨by decide, by decide, by decide⟩
/-- hence the rewrite is not valid over `TInt`, even restricted to non-zero divisors that divide
every component exactly -/
theorem div_ne_mul_recip :
    ¬ ∀ (v : V3 TInt) (s : TInt), s ≠ 0 → v / s = v * ((1 : TInt) / s) := fun h =>
  div_vs_mul_recip_counterexample.2.2 (h _ _ (by decide))
/-- in general: for `|s| > 1`, `v * (1 / s)` is the zero vector whatever `v` is -/
theorem V3.mul_recip_eq_zero (v : V3 TInt) (s : TInt) (hs : 1 < |s.val|) :
    v * ((1 : TInt) / s) = V3.zero := by
  rw [TInt.one_div_eq_zero s hs]; ext <;> simp
theorem V4.mul_recip_eq_zero (v : V4 TInt) (s : TInt) (hs : 1 < |s.val|) :
    v * ((1 : TInt) / s) = V4.zero := by
  rw [TInt.one_div_eq_zero s hs]; ext <;> simp
theorem V2.mul_recip_eq_zero (v : V2 TInt) (s : TInt) (hs : 1 < |s.val|) :
    v * ((1 : TInt) / s) = V2.zero := by
  rw [TInt.one_div_eq_zero s hs]; ext <;> simp
example : (1 : ℤ) < |(3 : TInt).val| := by decide
/-- so `v / s = v * (1 / s)` holds for `|s| > 1` only when `v / s` is itself zero, i.e. when every
component is smaller than `|s|` in absolute value -/
theorem V3.div_eq_mul_recip_iff (v : V3 TInt) (s : TInt) (hs : 1 < |s.val|) :
    v / s = v * ((1 : TInt) / s) ↔ v / s = V3.zero := by
  rw [V3.mul_recip_eq_zero v s hs]
/-- the field-level law `(u + v) / s = u / s + v / s` fails too: truncation is not additive -/
theorem div_not_additive :
    ((⟨1, 1, -1⟩ : V3 TInt) + ⟨1, 1, -1⟩) / (2 : TInt) ≠
      (⟨1, 1, -1⟩ : V3 TInt) / (2 : TInt) + (⟨1, 1, -1⟩ : V3 TInt) / (2 : TInt) := by decide

/-! ## 3. sanity evaluations over `TInt` against hand-computed `i32` / `isize` results -/

/-- `tests/vector.rs::test_cross` (`isize`) -/
example : V3.cross (⟨1, 2, 3⟩ : V3 TInt) ⟨4, 5, 6⟩ = ⟨-3, 6, -3⟩ := by decide
/-- `test_dot` values, in integers -/
example : V2.dot (⟨1, 2⟩ : V2 TInt) ⟨3, 4⟩ = 11 ∧ V3.dot (⟨1, 2, 3⟩ : V3 TInt) ⟨4, 5, 6⟩ = 32 ∧
    V4.dot (⟨1, 2, 3, 4⟩ : V4 TInt) ⟨5, 6, 7, 8⟩ = 70 := by decide
/-- `test_sum` / `test_product` (`isize`) -/
example : (⟨1, 2⟩ : V2 TInt).sum = 3 ∧ (⟨1, 2, 3⟩ : V3 TInt).sum = 6 ∧
    (⟨1, 2, 3, 4⟩ : V4 TInt).sum = 10 ∧ (⟨1, 2⟩ : V2 TInt).product = 2 ∧
    (⟨1, 2, 3⟩ : V3 TInt).product = 6 ∧ (⟨1, 2, 3, 4⟩ : V4 TInt).product = 24 := by decide
example : V2.perpDot (⟨1, 2⟩ : V2 TInt) ⟨3, 4⟩ = -2 ∧ V2.perpDot (⟨3, 4⟩ : V2 TInt) ⟨1, 2⟩ = 2 ∧
    V2.perpDot (⟨-7, 5⟩ : V2 TInt) ⟨2, -3⟩ = 11 := by decide
/-- truncation toward zero, not flooring: `-7 / 2 = -3`, `-7 % 2 = -1`, `7 / -2 = -3`, `7 % -2 = 1` -/
example : (-7 : TInt) / 2 = -3 ∧ FRem.frem (-7 : TInt) 2 = -1 ∧ (7 : TInt) / (-2) = -3 ∧
    FRem.frem (7 : TInt) (-2) = 1 ∧ (-7 : TInt) / (-2) = 3 ∧ FRem.frem (-7 : TInt) (-2) = -1 := by
  decide
example : (⟨7, -7, 9, -9⟩ : V4 TInt) / (2 : TInt) = ⟨3, -3, 4, -4⟩ ∧
    V4.rem (⟨7, -7, 9, -9⟩ : V4 TInt) 2 = ⟨1, -1, 1, -1⟩ := by decide
example : (20 : TInt) / (⟨3, -3, 7⟩ : V3 TInt) = ⟨6, -6, 2⟩ ∧
    V3.srem (20 : TInt) ⟨3, -3, 7⟩ = ⟨2, 2, 6⟩ := by decide
/-- the element-wise family -/
example : V3.mulEw (⟨1, -2, 3⟩ : V3 TInt) ⟨4, 5, -6⟩ = ⟨4, -10, -18⟩ ∧
    V3.divEw (⟨7, -7, 9⟩ : V3 TInt) ⟨2, 2, -4⟩ = ⟨3, -3, -2⟩ ∧
    V3.remEw (⟨7, -7, 9⟩ : V3 TInt) ⟨2, 2, -4⟩ = ⟨1, -1, 1⟩ ∧
    V3.addS (⟨1, -2, 3⟩ : V3 TInt) 10 = ⟨11, 8, 13⟩ ∧
    V3.subS (⟨1, -2, 3⟩ : V3 TInt) 10 = ⟨-9, -12, -7⟩ ∧
    (⟨1, -2, 3⟩ : V3 TInt) * (-4 : TInt) = ⟨-4, 8, -12⟩ ∧
    (-4 : TInt) * (⟨1, -2, 3⟩ : V3 TInt) = ⟨-4, 8, -12⟩ ∧
    -(⟨1, -2, 3⟩ : V3 TInt) = ⟨-1, 2, -3⟩ ∧
    (⟨1, -2, 3⟩ : V3 TInt) - ⟨4, 5, -6⟩ = ⟨-3, -7, 9⟩ := by decide
/-- integer `lerp` and `magnitude2` / `distance2` -/
example : V2.lerp (⟨0, 10⟩ : V2 TInt) ⟨4, -10⟩ 3 = ⟨12, -50⟩ ∧
    (⟨3, -4⟩ : V2 TInt).magnitude2 = 25 ∧ V3.distance2 (⟨1, 2, 3⟩ : V3 TInt) ⟨4, 6, 3⟩ = 25 := by
  decide
/-- Lagrange's identity on a concrete integer pair (both sides `54`) -/
example : (V3.cross (⟨1, 2, 3⟩ : V3 TInt) ⟨4, 5, 6⟩).magnitude2 = 54 ∧
    (⟨1, 2, 3⟩ : V3 TInt).magnitude2 * (⟨4, 5, 6⟩ : V3 TInt).magnitude2 -
      V3.dot (⟨1, 2, 3⟩ : V3 TInt) ⟨4, 5, 6⟩ ^ 2 = 54 := by decide
/-- integer `project_on` truncates: `(5, 5)` on `(3, 0)` is `(3, 0) * (15 / 9) = (3, 0)` -/
example : V2.projectOn (⟨5, 5⟩ : V2 TInt) ⟨3, 0⟩ = ⟨3, 0⟩ := by decide

end Cg.C03
