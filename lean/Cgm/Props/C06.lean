import Cgm.Props.C05
import Cgm.Props.C02
/-!
# C06 — angle and axis-angle constructors give proper right-handed rotations

Algebraic part: over a commutative ring/field with `s`, `c` standing for `sin θ`, `cos θ`
(`s² + c² = 1`) and a unit axis `a`.  Real part: `s = Real.sin θ`, `c = Real.cos θ`, half angles
for the quaternion, addition formulas for composition.
-/
set_option linter.unusedSectionVars false
namespace Cg.C06
open Cg

attribute [simp] M3.axisAngleSC M4.axisAngleSC M3.fromAxisAngle M4.fromAxisAngle M2.fromAngle
  M3.fromAngleX M3.fromAngleY M3.fromAngleZ M4.fromAngleX M4.fromAngleY M4.fromAngleZ
  Quat.fromAxisAngle Quat.fromAngleX Quat.fromAngleY Quat.fromAngleZ

variable {K : Type} [CommRing K]

/-- Rodrigues' formula `v cos t + (a × v) sin t + a (a·v)(1 - cos t)` -/
def rodrigues (a : V3 K) (c s : K) (v : V3 K) : V3 K :=
  v * c + V3.cross a v * s + a * (V3.dot a v * (1 - c))

/-- the axis-angle matrix acts by Rodrigues' formula (every axis, every `s`, `c`) -/
theorem axisAngle_mulVec (a v : V3 K) (s c : K) : M3.axisAngleSC a s c * v = rodrigues a c s v := by
  ext <;> simp [rodrigues] <;> ring
/-- it fixes the (unit) axis, is orthonormal and has determinant `+1` -/
theorem axisAngle_rotation (a : V3 K) (s c : K) (h1 : s * s + c * c = 1) (h2 : a.magnitude2 = 1) :
    M3.axisAngleSC a s c * a = a ∧
    (M3.axisAngleSC a s c).transpose * M3.axisAngleSC a s c = M3.one ∧
    (M3.axisAngleSC a s c).det = 1 := by
  have h2 : a.x * a.x + (a.y * a.y + a.z * a.z) = 1 := by simpa using h2
  obtain ⟨x, y, z⟩ := a
  simp only at h2
  refine ⟨?_, ?_, ?_⟩
  · ext <;> simp
    · linear_combination (-c*x + x) * h2
    · linear_combination (-c*y + y) * h2
    · linear_combination (-c*z + z) * h2
  · ext <;> simp
    · linear_combination (y^2 + z^2) * h1 + (c^2*x^2 - c^2 - 2*c*x^2 + x^2 + 1) * h2
    · linear_combination (-x*y) * h1 + (c^2*x*y - 2*c*x*y + x*y) * h2
    · linear_combination (-x*z) * h1 + (c^2*x*z - 2*c*x*z + x*z) * h2
    · linear_combination (-x*y) * h1 + (c^2*x*y - 2*c*x*y + x*y) * h2
    · linear_combination (x^2 + z^2) * h1 + (c^2*y^2 - c^2 - 2*c*y^2 + y^2 + 1) * h2
    · linear_combination (-y*z) * h1 + (c^2*y*z - 2*c*y*z + y*z) * h2
    · linear_combination (-x*z) * h1 + (c^2*x*z - 2*c*x*z + x*z) * h2
    · linear_combination (-y*z) * h1 + (c^2*y*z - 2*c*y*z + y*z) * h2
    · linear_combination (x^2 + y^2) * h1 + (c^2*z^2 - c^2 - 2*c*z^2 + z^2 + 1) * h2
  · simp
    linear_combination (-c*x^4 - 2*c*x^2*y^2 - 2*c*x^2*z^2 + c*x^2 - c*y^4 - 2*c*y^2*z^2 + c*y^2 - c*z^4 + c*z^2 + x^4 + 2*x^2*y^2 + 2*x^2*z^2 + y^4 + 2*y^2*z^2 + z^4) * h1 + (c^3*x^2 + c^3*y^2 + c^3*z^2 - c^3 - c^2*x^2 - c^2*y^2 - c^2*z^2 - c*x^2 - c*y^2 - c*z^2 + x^2 + y^2 + z^2 + 1) * h2

section transc
variable {F : Type} [Field F] [Transc F]
/-- `Matrix3::from_angle_x/y/z` are `Matrix3::from_axis_angle` about the unit axes (Matrix3 only in this theorem; Matrix4 as the
embedding of Matrix3 is `m4_eq_embed` just below, `Matrix4::from_angle_*` about the unit axes is `m4_fromAngle_eq_axisAngle` and
the `Basis3` wrappers are `basis3_fromAngle_eq_axisAngle`, both in `Props/C06c.lean`) -/
theorem fromAngle_eq_axisAngle (θ : F) :
    M3.fromAngleX θ = M3.fromAxisAngle V3.unitX θ ∧ M3.fromAngleY θ = M3.fromAxisAngle V3.unitY θ ∧
    M3.fromAngleZ θ = M3.fromAxisAngle V3.unitZ θ := by
  refine ⟨?_, ?_, ?_⟩ <;> (ext <;> simp)
theorem m4_eq_embed (a : V3 F) (θ : F) :
    M4.fromAxisAngle a θ = (M3.fromAxisAngle a θ).toM4 ∧ M4.fromAngleX θ = (M3.fromAngleX θ).toM4 ∧
    M4.fromAngleY θ = (M3.fromAngleY θ).toM4 ∧ M4.fromAngleZ θ = (M3.fromAngleZ θ).toM4 := by
  refine ⟨?_, ?_, ?_, ?_⟩ <;> (ext <;> simp)
end transc

/-- composition about a common (unit) axis adds angles: `(s₁,c₁)∘(s₂,c₂) = (s₁c₂+c₁s₂, c₁c₂−s₁s₂)` -/
theorem axisAngle_compose (a : V3 K) (s1 c1 s2 c2 : K) (h2 : a.magnitude2 = 1) :
    M3.axisAngleSC a s1 c1 * M3.axisAngleSC a s2 c2 =
      M3.axisAngleSC a (s1 * c2 + c1 * s2) (c1 * c2 - s1 * s2) := by
  have h2 : a.x * a.x + (a.y * a.y + a.z * a.z) = 1 := by simpa using h2
  obtain ⟨x, y, z⟩ := a
  simp only at h2
  ext <;> simp
  · linear_combination ((1 - c1) * (1 - c2) * x * x - s1 * s2) * h2
  · linear_combination ((1 - c1) * (1 - c2) * x * y) * h2
  · linear_combination ((1 - c1) * (1 - c2) * x * z) * h2
  · linear_combination ((1 - c1) * (1 - c2) * x * y) * h2
  · linear_combination ((1 - c1) * (1 - c2) * y * y - s1 * s2) * h2
  · linear_combination ((1 - c1) * (1 - c2) * y * z) * h2
  · linear_combination ((1 - c1) * (1 - c2) * x * z) * h2
  · linear_combination ((1 - c1) * (1 - c2) * y * z) * h2
  · linear_combination ((1 - c1) * (1 - c2) * z * z - s1 * s2) * h2

/-- the half-angle quaternion `(ch, a·sh)` acts by Rodrigues' formula for the doubled angle -/
theorem quat_halfAngle (a v : V3 K) (sh ch : K) (h1 : sh * sh + ch * ch = 1) (h2 : a.magnitude2 = 1) :
    Quat.fromSv ch (a * sh) * v = rodrigues a (1 - 2 * (sh * sh)) (2 * (sh * ch)) v ∧
    (Quat.fromSv ch (a * sh)).magnitude2 = 1 := by
  have h2 : a.x * a.x + (a.y * a.y + a.z * a.z) = 1 := by simpa using h2
  obtain ⟨x, y, z⟩ := a
  simp only at h2
  constructor
  · ext <;> simp [rodrigues]
    · linear_combination (-2 * sh * sh * v.x) * h2
    · linear_combination (-2 * sh * sh * v.y) * h2
    · linear_combination (-2 * sh * sh * v.z) * h2
  · simp; linear_combination h1 + (sh * sh) * h2

/-! ## over the reals -/
theorem m3_axisAngle_real (a v : V3 ℝ) (θ : ℝ) :
    M3.fromAxisAngle a θ * v = rodrigues a (Real.cos θ) (Real.sin θ) v := by
  show M3.axisAngleSC a (Real.sin θ) (Real.cos θ) * v = _
  exact axisAngle_mulVec a v _ _
theorem m3_axisAngle_rotation_real (a : V3 ℝ) (θ : ℝ) (ha : a.magnitude2 = 1) :
    M3.fromAxisAngle a θ * a = a ∧
    (M3.fromAxisAngle a θ).transpose * M3.fromAxisAngle a θ = M3.one ∧ (M3.fromAxisAngle a θ).det = 1 := by
  have h := axisAngle_rotation a (Real.sin θ) (Real.cos θ) (by nlinarith [Real.sin_sq_add_cos_sq θ]) ha
  exact h
/-- the quaternion built from an axis and an angle performs the same rotation -/
theorem quat_axisAngle_real (a v : V3 ℝ) (θ : ℝ) (ha : a.magnitude2 = 1) :
    Quat.fromAxisAngle a θ * v = rodrigues a (Real.cos θ) (Real.sin θ) v ∧
    (Quat.fromAxisAngle a θ).magnitude2 = 1 := by
  have h := quat_halfAngle a v (Real.sin (θ * (1 / 2))) (Real.cos (θ * (1 / 2)))
    (by nlinarith [Real.sin_sq_add_cos_sq (θ * (1 / 2))]) ha
  have e : θ = 2 * (θ * (1 / 2)) := by ring
  have hc : Real.cos θ = 1 - 2 * (Real.sin (θ * (1 / 2)) * Real.sin (θ * (1 / 2))) := by
    conv_lhs => rw [e]
    rw [Real.cos_two_mul]
    nlinarith [Real.sin_sq_add_cos_sq (θ * (1 / 2))]
  have hs : Real.sin θ = 2 * (Real.sin (θ * (1 / 2)) * Real.cos (θ * (1 / 2))) := by
    conv_lhs => rw [e]
    rw [Real.sin_two_mul]; ring
  rw [hc, hs]
  simpa [Quat.fromAxisAngle] using h
/-- angles add under composition about a common unit axis (Matrix3 only in this theorem; Matrix2 is the third conjunct of
`m2_fromAngle_real` below; Basis3 / Basis2 are `basis3_axisAngle_add_real`, `basis2_fromAngle_add_real` in `Props/C06c.lean`) -/
theorem axisAngle_add_real (a : V3 ℝ) (θ₁ θ₂ : ℝ) (ha : a.magnitude2 = 1) :
    M3.fromAxisAngle a θ₁ * M3.fromAxisAngle a θ₂ = M3.fromAxisAngle a (θ₁ + θ₂) := by
  show M3.axisAngleSC a _ _ * M3.axisAngleSC a _ _ = M3.axisAngleSC a _ _
  rw [axisAngle_compose a _ _ _ _ ha, transc_sin, transc_cos, transc_sin, transc_cos, transc_sin, transc_cos,
    Real.sin_add, Real.cos_add]
theorem m2_fromAngle_real (θ θ₂ : ℝ) :
    M2.fromAngle θ * (⟨1, 0⟩ : V2 ℝ) = ⟨Real.cos θ, Real.sin θ⟩ ∧
    M2.fromAngle θ * (⟨0, 1⟩ : V2 ℝ) = ⟨-Real.sin θ, Real.cos θ⟩ ∧
    M2.fromAngle θ * M2.fromAngle θ₂ = M2.fromAngle (θ + θ₂) ∧
    (M2.fromAngle θ).det = 1 := by
  refine ⟨?_, ?_, ?_, ?_⟩
  · ext <;> simp
  · ext <;> simp
  · ext <;> simp [Real.sin_add, Real.cos_add] <;> ring
  · simp; nlinarith [Real.sin_sq_add_cos_sq θ]

/-! ## `r * invert(r) = one`, `rotate_point(p) = rotate_vector(p - origin)` -/
theorem quat_invert (q : Quat ℝ) (h : q.magnitude2 ≠ 0) : q * q.invert = Quat.one ∧ q.invert * q = Quat.one :=
  Cg.C04.mul_invert q h
theorem basis3_invert (b : Basis3 ℝ) (h : b.mat.det ≠ 0) :
    ∃ i, b.invert? = some i ∧ b.mul i = Basis3.one ∧ i.mul b = Basis3.one := by
  obtain ⟨i, hi⟩ := Cg.C02.M3.invert_some_of_det_ne b.mat h
  obtain ⟨h1, h2⟩ := Cg.C02.M3.invert_spec b.mat i hi
  exact ⟨⟨i⟩, by simp [Basis3.invert?, hi], by simp [Basis3.mul, Basis3.one, h1], by simp [Basis3.mul, Basis3.one, h2]⟩
theorem basis2_invert (b : Basis2 ℝ) (h : b.mat.det ≠ 0) :
    ∃ i, b.invert? = some i ∧ b.mul i = Basis2.one ∧ i.mul b = Basis2.one := by
  obtain ⟨i, hi⟩ := Cg.C02.M2.invert_some_of_det_ne b.mat h
  obtain ⟨h1, h2⟩ := Cg.C02.M2.invert_spec b.mat i hi
  exact ⟨⟨i⟩, by simp [Basis2.invert?, hi], by simp [Basis2.mul, Basis2.one, h1], by simp [Basis2.mul, Basis2.one, h2]⟩
theorem rotate_point_eq (q : Quat ℝ) (b3 : Basis3 ℝ) (b2 : Basis2 ℝ) (p : P3 ℝ) (p2 : P2 ℝ) :
    q.rotatePoint p = P3.fromVec (q.rotateVector (p - (P3.origin : P3 ℝ))) ∧
    b3.rotatePoint p = P3.fromVec (b3.rotateVector (p - (P3.origin : P3 ℝ))) ∧
    b2.rotatePoint p2 = P2.fromVec (b2.rotateVector (p2 - (P2.origin : P2 ℝ))) := by
  have e3 : (p - (P3.origin : P3 ℝ) : V3 ℝ) = p.toVec := by ext <;> simp
  have e2 : (p2 - (P2.origin : P2 ℝ) : V2 ℝ) = p2.toVec := by ext <;> simp
  rw [e3, e2]
  exact ⟨rfl, rfl, rfl⟩

/-- counter-clockwise about `+z`: a quarter turn takes `x̂` to `ŷ` -/
example : M3.axisAngleSC (⟨0, 0, 1⟩ : V3 ℚ) 1 0 * (⟨1, 0, 0⟩ : V3 ℚ) = ⟨0, 1, 0⟩ := by
  ext <;> simp

end Cg.C06
