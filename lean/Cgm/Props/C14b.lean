import Cgm.Props.C14
/-!
# C14 (continued) — one statement for `slerp` covering both branches

`Quaternion::slerp` switches formula at `|a·b| = 0.9995`.  `slerp_spec` states the whole property
clause for all unit `a`, `b` and `t ∈ [0,1]` at once: unit result, in the plane of `a` and
`b' = ±b` with non-negative weights (the shorter arc), `a` at `t = 0`, `b'` at `t = 1`, and constant
angular speed — exactly below the hand-over, within `1e-5` rad above it.
-/
set_option linter.unusedSectionVars false
namespace Cg.C14
open Cg Real

/-- flipping twice is flipping once: `a · flip a b = |a·b| ≥ 0` -/
theorem flip_idem (a b : Quat ℝ) : flip a (flip a b) = flip a b := by
  unfold flip
  by_cases h : Quat.dot a b < 0
  · have h' : ¬ Quat.dot a (-b) < 0 := by
      have e : Quat.dot a (-b) = -Quat.dot a b := by simp; ring
      rw [e, not_lt]; linarith
    rw [if_pos h, if_neg h']
  · rw [if_neg h, if_neg h]

variable [Lits ℝ]

/-- `|a·b| ≤ 1` for unit quaternions (Cauchy–Schwarz) -/
theorem abs_dot_le_one (a b : Quat ℝ) (ha : a.magnitude2 = 1) (hb : b.magnitude2 = 1) :
    |Quat.dot a b| ≤ 1 := by
  obtain ⟨fb, fd, _⟩ := flip_spec a b hb
  obtain ⟨m, _, _⟩ := comb_dots a (flip a b) ha fb 1 (-1)
  have hnn : 0 ≤ (a * (1 : ℝ) + flip a b * (-1 : ℝ)).magnitude2 := mag2_nonneg _
  rw [m, fd] at hnn
  linarith

/-- **`slerp`, both branches.**  For unit quaternions `a`, `b`, `t ∈ [0,1]` and the hand-over
threshold `0.9995`: the result is a unit quaternion, a non-negative combination of `a` and
`b' = flip a b = ±b` (so on the shorter arc, `a·b' = |a·b| ≥ 0`), equal to `a` at `t = 0` and to
`b'` at `t = 1`; the arc from `a` to the result is `t` times the whole arc `arccos |a·b|` exactly
when `|a·b| ≤ 0.9995`, and to within `1e-5` rad otherwise. -/
theorem slerp_spec (a b : Quat ℝ) (ha : a.magnitude2 = 1) (hb : b.magnitude2 = 1) (t : ℝ)
    (h0 : 0 ≤ t) (h1 : t ≤ 1) (hthr : (Lits.thr : ℝ) = 0.9995) :
    (a.slerp b t).magnitude2 = 1 ∧
    (∃ α β : ℝ, 0 ≤ α ∧ 0 ≤ β ∧ a.slerp b t = a * α + flip a b * β) ∧
    a.slerp b 0 = a ∧ a.slerp b 1 = flip a b ∧ (flip a b = b ∨ flip a b = -b) ∧
    Quat.dot a (flip a b) = |Quat.dot a b| ∧
    (|Quat.dot a b| ≤ (Lits.thr : ℝ) →
      Real.arccos (Quat.dot a (a.slerp b t)) = t * Real.arccos |Quat.dot a b|) ∧
    ((Lits.thr : ℝ) < |Quat.dot a b| →
      abs (Real.arccos (Quat.dot a (a.slerp b t)) - t * Real.arccos (abs (Quat.dot a b))) ≤ 1e-5) := by
  obtain ⟨fb, fd, fo⟩ := flip_spec a b hb
  have hthr1 : (Lits.thr : ℝ) < 1 := by rw [hthr]; norm_num
  by_cases hnear : (Lits.thr : ℝ) < |Quat.dot a b|
  · -- near branch: nlerp towards the flipped end point
    obtain ⟨n1, n2, n3, n4⟩ := nlerp_spec a (flip a b) ha fb t h0 h1
    rw [flip_idem] at n2 n4
    refine ⟨?_, ?_, ?_, ?_, fo, fd, fun hfar => absurd hnear (not_lt.mpr hfar),
      fun _ => slerp_near_bound a b t ha hb h0 h1 hthr hnear⟩
    · rw [slerp_near_eq a b t hnear]; exact n1
    · rw [slerp_near_eq a b t hnear]; exact n2
    · rw [slerp_near_eq a b 0 hnear]; exact n3
    · rw [slerp_near_eq a b 1 hnear]; exact n4
  · -- far branch: sine weights
    obtain ⟨s1, s2, _, s4, s5, s6⟩ := slerp_far_spec a b ha hb t h0 h1 hthr1 hnear
    refine ⟨s1, s4, s5, s6, fo, fd, fun _ => ?_, fun h => absurd h hnear⟩
    rw [s2]
    have hθ0 : 0 ≤ Real.arccos |Quat.dot a b| := Real.arccos_nonneg _
    have hθπ : Real.arccos |Quat.dot a b| ≤ π := Real.arccos_le_pi _
    apply Real.arccos_cos (mul_nonneg h0 hθ0)
    nlinarith [Real.pi_pos]

/-- the constant-speed clause in one inequality valid for every unit pair: the arc covered at `t`
differs from `t` times the whole arc by at most `1e-5` rad (by nothing below the hand-over) -/
theorem slerp_arc_bound (a b : Quat ℝ) (ha : a.magnitude2 = 1) (hb : b.magnitude2 = 1) (t : ℝ)
    (h0 : 0 ≤ t) (h1 : t ≤ 1) (hthr : (Lits.thr : ℝ) = 0.9995) :
    abs (Real.arccos (Quat.dot a (a.slerp b t)) - t * Real.arccos (abs (Quat.dot a b))) ≤ 1e-5 := by
  obtain ⟨_, _, _, _, _, _, hfar, hnear⟩ := slerp_spec a b ha hb t h0 h1 hthr
  by_cases h : (Lits.thr : ℝ) < |Quat.dot a b|
  · exact hnear h
  · rw [hfar (not_lt.mp h), sub_self, abs_zero]; norm_num

/-- the "whole arc" `arccos |a·b|` is the angle between `a` and the end point `b' = ±b` actually
reached, it is at most a quarter turn (the shorter of the two arcs), and it is what `slerp` has
covered at `t = 1` -/
theorem slerp_whole_arc (a b : Quat ℝ) (ha : a.magnitude2 = 1) (hb : b.magnitude2 = 1)
    (hthr : (Lits.thr : ℝ) = 0.9995) :
    Real.arccos (Quat.dot a (flip a b)) = Real.arccos |Quat.dot a b| ∧
    Real.arccos |Quat.dot a b| ≤ π / 2 ∧
    Real.arccos (Quat.dot a (a.slerp b 1)) = Real.arccos |Quat.dot a b| ∧
    Real.arccos (Quat.dot a (a.slerp b 0)) = 0 := by
  obtain ⟨_, fd, _⟩ := flip_spec a b hb
  obtain ⟨_, _, e0, e1, _, _, _, _⟩ := slerp_spec a b ha hb 1 zero_le_one le_rfl hthr
  refine ⟨by rw [fd], Real.arccos_le_pi_div_two.mpr (abs_nonneg _), by rw [e1, fd], ?_⟩
  have : Quat.dot a a = 1 := ha
  rw [e0, this, Real.arccos_one]

/-- non-vacuity of both branches: a far pair (`a·b = 0`, a negative one `a·b = -3/5` that gets
flipped) and a near pair (`a·b = 9999/10001`) of unit quaternions -/
example :
    let a : Quat ℝ := ⟨⟨0, 0, 0⟩, 1⟩
    let b : Quat ℝ := ⟨⟨1, 0, 0⟩, 0⟩
    let c : Quat ℝ := ⟨⟨4 / 5, 0, 0⟩, -3 / 5⟩
    let d : Quat ℝ := ⟨⟨200 / 10001, 0, 0⟩, 9999 / 10001⟩
    a.magnitude2 = 1 ∧ b.magnitude2 = 1 ∧ c.magnitude2 = 1 ∧ d.magnitude2 = 1 ∧
    |Quat.dot a b| ≤ (0.9995 : ℝ) ∧ |Quat.dot a c| ≤ (0.9995 : ℝ) ∧ Quat.dot a c < 0 ∧
    (0.9995 : ℝ) < |Quat.dot a d| := by
  refine ⟨by norm_num [Quat.magnitude2, Quat.dot], by norm_num [Quat.magnitude2, Quat.dot],
    by norm_num [Quat.magnitude2, Quat.dot], by norm_num [Quat.magnitude2, Quat.dot], ?_, ?_, ?_, ?_⟩
  · norm_num [Quat.dot]
  · norm_num [Quat.dot, abs_of_neg]
  · norm_num [Quat.dot]
  · norm_num [Quat.dot, abs_of_pos]

/-! ## `lerp` on matrices

`Matrix2/3/4` implement `VectorSpace` (src/matrix.rs:553-563), so the default
`lerp(self, other, amount) = self + ((other - self) * amount)` (src/structure.rs:188) is also
available on matrices.  The model has no `M2.lerp`/`M3.lerp`/`M4.lerp` definition; the end-point
facts are therefore stated about the body of the default method written with the model's matrix
operators. -/
section matlerp
variable {K : Type} [CommRing K]
theorem M2.lerp_body_endpoints (a b : M2 K) :
    a + (b - a) * (0 : K) = a ∧ a + (b - a) * (1 : K) = b := by
  constructor <;> (ext <;> simp)
theorem M3.lerp_body_endpoints (a b : M3 K) :
    a + (b - a) * (0 : K) = a ∧ a + (b - a) * (1 : K) = b := by
  constructor <;> (ext <;> simp)
theorem M4.lerp_body_endpoints (a b : M4 K) :
    a + (b - a) * (0 : K) = a ∧ a + (b - a) * (1 : K) = b := by
  constructor <;> (ext <;> simp)
end matlerp

end Cg.C14
