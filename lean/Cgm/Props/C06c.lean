import Cgm.Props.C06b
import Cgm.Model.Rot2
/-!
# C06 (third part) — the `Basis3` / `Basis2` constructors

`Basis3::from_axis_angle`, `Basis3::from_angle_x/y/z`, `Basis2::from_angle` are modelled in
`Cgm/Model/Rot2.lean` exactly as src/rotation.rs defines them (newtype wrappers around the
`Matrix3` / `Matrix2` constructors; `Basis3` overrides the `Rotation3` defaults).  Every clause of
C06 is restated here for them, through the wrapper's own operations (`rotateVector`, `mul`,
`invert?`, `rotatePoint`, `one`):

* `basis3_axisAngle_real`          : Rodrigues' formula through `rotateVector` (every axis)
* `basis3_axisAngle_rotation_real` : fixes the unit axis, `MᵀM = M Mᵀ = 1`, `det = 1`
* `basis3_fromAngle_eq_axisAngle`  : `from_angle_x/y/z = from_axis_angle(unit_x/y/z)`
* `basis3_axisAngle_add_real`, `basis3_fromAngle_add_real` : angles add under `Basis3.mul`
* `basis3_axisAngle_invert`, `basis3_fromAngle_invert`, `basis3_rotation_invert` :
  `invert` does not panic, `r * invert(r) = invert(r) * r = one`, and the inverse is the
  rotation by the opposite angle (resp. the transpose)
* `basis2_fromAngle_real`, `basis2_fromAngle_add_real`, `basis2_fromAngle_orthonormal'`,
  `basis2_fromAngle_invert`, `basis2_rotation_invert`
* `basis_rotate_point` : `rotate_point(p) = rotate_vector(p - origin)` for the constructors
* small gaps of the second audit for the other representations:
  `m3_axisAngle_orthonormal_real` (`M Mᵀ = 1` as well), `quat_axisAngle_fixes_axis`,
  `m4_fromAngle_eq_axisAngle`.
-/
set_option linter.unusedSectionVars false
namespace Cg.C06
open Cg

attribute [simp] Basis3.fromAxisAngle Basis3.fromAngleX Basis3.fromAngleY Basis3.fromAngleZ
  Basis2.fromAngle

/-! ## Matrix3: the missing half of "orthonormal" -/

section alg
variable {K : Type} [CommRing K]
/-- the transpose of the axis-angle matrix is the axis-angle matrix for `(-s, c)` -/
theorem axisAngle_transpose (a : V3 K) (s c : K) :
    (M3.axisAngleSC a s c).transpose = M3.axisAngleSC a (-s) c := by
  ext <;> simp <;> ring
/-- `M Mᵀ = 1` as well (unit axis, `s² + c² = 1`) -/
theorem axisAngle_mul_transpose (a : V3 K) (s c : K) (h1 : s * s + c * c = 1)
    (h2 : a.magnitude2 = 1) :
    M3.axisAngleSC a s c * (M3.axisAngleSC a s c).transpose = M3.one := by
  have h := (axisAngle_rotation a (-s) c (by linear_combination h1) h2).2.1
  rw [axisAngle_transpose, neg_neg] at h
  rw [axisAngle_transpose]
  exact h
end alg

/-- `Matrix3::from_axis_angle` about a unit axis: both products with the transpose are the
identity, determinant `+1` -/
theorem m3_axisAngle_orthonormal_real (a : V3 ℝ) (θ : ℝ) (ha : a.magnitude2 = 1) :
    (M3.fromAxisAngle a θ).transpose * M3.fromAxisAngle a θ = M3.one ∧
    M3.fromAxisAngle a θ * (M3.fromAxisAngle a θ).transpose = M3.one ∧
    (M3.fromAxisAngle a θ).det = 1 := by
  obtain ⟨-, h2, h3⟩ := m3_axisAngle_rotation_real a θ ha
  refine ⟨h2, ?_, h3⟩
  exact axisAngle_mul_transpose a (Real.sin θ) (Real.cos θ)
    (by nlinarith [Real.sin_sq_add_cos_sq θ]) ha
/-- the transpose is the rotation by the opposite angle -/
theorem m3_axisAngle_transpose_real (a : V3 ℝ) (θ : ℝ) :
    (M3.fromAxisAngle a θ).transpose = M3.fromAxisAngle a (-θ) := by
  show (M3.axisAngleSC a _ _).transpose = M3.axisAngleSC a _ _
  rw [axisAngle_transpose, transc_sin, transc_cos, transc_sin, transc_cos, Real.sin_neg, Real.cos_neg]

/-- Rodrigues' formula fixes a unit axis -/
theorem rodrigues_axis {K : Type} [CommRing K] (a : V3 K) (c s : K) (h2 : a.magnitude2 = 1) :
    rodrigues a c s a = a := by
  have h2 : a.x * a.x + (a.y * a.y + a.z * a.z) = 1 := by simpa using h2
  obtain ⟨x, y, z⟩ := a
  simp only at h2
  ext <;> simp [rodrigues]
  · linear_combination (x * (1 - c)) * h2
  · linear_combination (y * (1 - c)) * h2
  · linear_combination (z * (1 - c)) * h2

/-- `Quaternion::from_axis_angle(a, t)` fixes the unit axis `a` -/
theorem quat_axisAngle_fixes_axis (a : V3 ℝ) (θ : ℝ) (ha : a.magnitude2 = 1) :
    Quat.fromAxisAngle a θ * a = a ∧ (Quat.fromAxisAngle a θ).rotateVector a = a := by
  have h := (quat_axisAngle_real a a θ ha).1
  rw [rodrigues_axis a _ _ ha] at h
  exact ⟨h, h⟩

/-- `Matrix4::from_angle_x/y/z` are `Matrix4::from_axis_angle` about the unit axes -/
theorem m4_fromAngle_eq_axisAngle {F : Type} [Field F] [Transc F] (θ : F) :
    M4.fromAngleX θ = M4.fromAxisAngle V3.unitX θ ∧ M4.fromAngleY θ = M4.fromAxisAngle V3.unitY θ ∧
    M4.fromAngleZ θ = M4.fromAxisAngle V3.unitZ θ := by
  refine ⟨?_, ?_, ?_⟩ <;> (ext <;> simp)

/-! ## `Basis3::from_axis_angle` -/

/-- `Basis3::from_axis_angle(a, t).rotate_vector(v)` is Rodrigues' formula
`v cos t + (a × v) sin t + a (a·v)(1 − cos t)` (every axis, every `v`) -/
theorem basis3_axisAngle_real (a v : V3 ℝ) (θ : ℝ) :
    (Basis3.fromAxisAngle a θ).rotateVector v = rodrigues a (Real.cos θ) (Real.sin θ) v :=
  m3_axisAngle_real a v θ

/-- for a unit axis: `Basis3::from_axis_angle(a, t)` fixes `a`, its matrix is orthonormal (both
products with the transpose) with determinant `+1` -/
theorem basis3_axisAngle_rotation_real (a : V3 ℝ) (θ : ℝ) (ha : a.magnitude2 = 1) :
    (Basis3.fromAxisAngle a θ).rotateVector a = a ∧
    (Basis3.fromAxisAngle a θ).mat.transpose * (Basis3.fromAxisAngle a θ).mat = M3.one ∧
    (Basis3.fromAxisAngle a θ).mat * (Basis3.fromAxisAngle a θ).mat.transpose = M3.one ∧
    (Basis3.fromAxisAngle a θ).mat.det = 1 := by
  obtain ⟨h2, h3, h4⟩ := m3_axisAngle_orthonormal_real a θ ha
  exact ⟨(m3_axisAngle_rotation_real a θ ha).1, h2, h3, h4⟩

/-- the same rotation as the `Matrix3`, `Matrix4` (as a direction) and `Quaternion` built from the
same unit axis and angle -/
theorem basis3_axisAngle_agree (a v : V3 ℝ) (θ : ℝ) (ha : a.magnitude2 = 1) :
    (Basis3.fromAxisAngle a θ).toM3 = M3.fromAxisAngle a θ ∧
    (Basis3.fromAxisAngle a θ).rotateVector v = M3.fromAxisAngle a θ * v ∧
    (Basis3.fromAxisAngle a θ).rotateVector v = (M4.fromAxisAngle a θ).transformVector v ∧
    (Basis3.fromAxisAngle a θ).rotateVector v = (Quat.fromAxisAngle a θ).rotateVector v := by
  refine ⟨rfl, rfl, ?_, ?_⟩
  · rw [basis3_axisAngle_real, m4_axisAngle_real]
  · rw [basis3_axisAngle_real]; exact (quat_axisAngle_real a v θ ha).1.symm

/-- `Basis3::from_angle_x/y/z` (which the code defines through `Matrix3::from_angle_x/y/z`) equal
`Basis3::from_axis_angle` about the unit `x/y/z` axes -/
theorem basis3_fromAngle_eq_axisAngle {F : Type} [Field F] [Transc F] (θ : F) :
    Basis3.fromAngleX θ = Basis3.fromAxisAngle V3.unitX θ ∧
    Basis3.fromAngleY θ = Basis3.fromAxisAngle V3.unitY θ ∧
    Basis3.fromAngleZ θ = Basis3.fromAxisAngle V3.unitZ θ := by
  obtain ⟨hx, hy, hz⟩ := fromAngle_eq_axisAngle θ
  exact ⟨congrArg Basis3.mk hx, congrArg Basis3.mk hy, congrArg Basis3.mk hz⟩

/-- explicit action of `Basis3::from_angle_x/y/z` (counter-clockwise about the axis) -/
theorem basis3_fromAngle_real (θ : ℝ) (v : V3 ℝ) :
    (Basis3.fromAngleX θ).rotateVector v =
      ⟨v.x, v.y * Real.cos θ - v.z * Real.sin θ, v.y * Real.sin θ + v.z * Real.cos θ⟩ ∧
    (Basis3.fromAngleY θ).rotateVector v =
      ⟨v.x * Real.cos θ + v.z * Real.sin θ, v.y, v.z * Real.cos θ - v.x * Real.sin θ⟩ ∧
    (Basis3.fromAngleZ θ).rotateVector v =
      ⟨v.x * Real.cos θ - v.y * Real.sin θ, v.x * Real.sin θ + v.y * Real.cos θ, v.z⟩ := by
  refine ⟨?_, ?_, ?_⟩ <;> (ext <;> simp [Basis3.rotateVector] <;> ring)

/-- `Basis3::from_angle_x/y/z` are rotations: each fixes its axis, is orthonormal (both products with
the transpose) and has determinant `+1` -/
theorem basis3_fromAngle_rotation_real (θ : ℝ) :
    ((Basis3.fromAngleX θ).rotateVector V3.unitX = V3.unitX ∧
      (Basis3.fromAngleX θ).mat.transpose * (Basis3.fromAngleX θ).mat = M3.one ∧
      (Basis3.fromAngleX θ).mat * (Basis3.fromAngleX θ).mat.transpose = M3.one ∧
      (Basis3.fromAngleX θ).mat.det = 1) ∧
    ((Basis3.fromAngleY θ).rotateVector V3.unitY = V3.unitY ∧
      (Basis3.fromAngleY θ).mat.transpose * (Basis3.fromAngleY θ).mat = M3.one ∧
      (Basis3.fromAngleY θ).mat * (Basis3.fromAngleY θ).mat.transpose = M3.one ∧
      (Basis3.fromAngleY θ).mat.det = 1) ∧
    ((Basis3.fromAngleZ θ).rotateVector V3.unitZ = V3.unitZ ∧
      (Basis3.fromAngleZ θ).mat.transpose * (Basis3.fromAngleZ θ).mat = M3.one ∧
      (Basis3.fromAngleZ θ).mat * (Basis3.fromAngleZ θ).mat.transpose = M3.one ∧
      (Basis3.fromAngleZ θ).mat.det = 1) := by
  obtain ⟨ex, ey, ez⟩ := basis3_fromAngle_eq_axisAngle (F := ℝ) θ
  rw [ex, ey, ez]
  exact ⟨basis3_axisAngle_rotation_real _ θ (by simp), basis3_axisAngle_rotation_real _ θ (by simp),
    basis3_axisAngle_rotation_real _ θ (by simp)⟩

/-- **angles add** under `Basis3` multiplication about a common unit axis -/
theorem basis3_axisAngle_add_real (a : V3 ℝ) (θ₁ θ₂ : ℝ) (ha : a.magnitude2 = 1) :
    (Basis3.fromAxisAngle a θ₁).mul (Basis3.fromAxisAngle a θ₂) = Basis3.fromAxisAngle a (θ₁ + θ₂) :=
  congrArg Basis3.mk (axisAngle_add_real a θ₁ θ₂ ha)

/-- … and for `Basis3::from_angle_x/y/z` -/
theorem basis3_fromAngle_add_real (θ₁ θ₂ : ℝ) :
    (Basis3.fromAngleX θ₁).mul (Basis3.fromAngleX θ₂) = Basis3.fromAngleX (θ₁ + θ₂) ∧
    (Basis3.fromAngleY θ₁).mul (Basis3.fromAngleY θ₂) = Basis3.fromAngleY (θ₁ + θ₂) ∧
    (Basis3.fromAngleZ θ₁).mul (Basis3.fromAngleZ θ₂) = Basis3.fromAngleZ (θ₁ + θ₂) := by
  have e := fun t : ℝ => basis3_fromAngle_eq_axisAngle (F := ℝ) t
  refine ⟨?_, ?_, ?_⟩
  · rw [(e θ₁).1, (e θ₂).1, (e (θ₁ + θ₂)).1]; exact basis3_axisAngle_add_real _ _ _ (by simp)
  · rw [(e θ₁).2.1, (e θ₂).2.1, (e (θ₁ + θ₂)).2.1]; exact basis3_axisAngle_add_real _ _ _ (by simp)
  · rw [(e θ₁).2.2, (e θ₂).2.2, (e (θ₁ + θ₂)).2.2]; exact basis3_axisAngle_add_real _ _ _ (by simp)

/-- the zero angle is the identity rotation -/
theorem basis3_axisAngle_zero (a : V3 ℝ) : Basis3.fromAxisAngle a 0 = Basis3.one := by
  apply congrArg Basis3.mk
  ext <;> simp

/-! ## `r * invert(r) = one` -/

/-- **every `Basis3` rotation** (matrix orthonormal, which is what the type promises): `invert`
does not panic, `r * invert(r) = invert(r) * r = one`, and the inverse is the transpose -/
theorem basis3_rotation_invert (b : Basis3 ℝ) (h : b.mat * b.mat.transpose = M3.one) :
    b.invert? = some ⟨b.mat.transpose⟩ ∧ b.mul ⟨b.mat.transpose⟩ = Basis3.one ∧
    (Basis3.mk b.mat.transpose).mul b = Basis3.one := by
  have hi := Cg.C02.M3.invert_unique b.mat b.mat.transpose h
  obtain ⟨h1, h2⟩ := Cg.C02.M3.invert_spec b.mat _ hi
  exact ⟨by simp [Basis3.invert?, hi], congrArg Basis3.mk h1, congrArg Basis3.mk h2⟩

/-- `Basis3::from_axis_angle(a, t).invert()` (unit axis) does not panic, is the rotation by `-t`
about the same axis, and `r * invert(r) = invert(r) * r = one` -/
theorem basis3_axisAngle_invert (a : V3 ℝ) (θ : ℝ) (ha : a.magnitude2 = 1) :
    (Basis3.fromAxisAngle a θ).invert? = some (Basis3.fromAxisAngle a (-θ)) ∧
    (Basis3.fromAxisAngle a θ).mul (Basis3.fromAxisAngle a (-θ)) = Basis3.one ∧
    (Basis3.fromAxisAngle a (-θ)).mul (Basis3.fromAxisAngle a θ) = Basis3.one := by
  have h := basis3_rotation_invert (Basis3.fromAxisAngle a θ)
    (m3_axisAngle_orthonormal_real a θ ha).2.1
  have e : (Basis3.mk (Basis3.fromAxisAngle a θ).mat.transpose) = Basis3.fromAxisAngle a (-θ) :=
    congrArg Basis3.mk (m3_axisAngle_transpose_real a θ)
  rw [e] at h
  exact h

/-- the same for `Basis3::from_angle_x/y/z` -/
theorem basis3_fromAngle_invert (θ : ℝ) :
    ((Basis3.fromAngleX θ).invert? = some (Basis3.fromAngleX (-θ)) ∧
      (Basis3.fromAngleX θ).mul (Basis3.fromAngleX (-θ)) = Basis3.one) ∧
    ((Basis3.fromAngleY θ).invert? = some (Basis3.fromAngleY (-θ)) ∧
      (Basis3.fromAngleY θ).mul (Basis3.fromAngleY (-θ)) = Basis3.one) ∧
    ((Basis3.fromAngleZ θ).invert? = some (Basis3.fromAngleZ (-θ)) ∧
      (Basis3.fromAngleZ θ).mul (Basis3.fromAngleZ (-θ)) = Basis3.one) := by
  have e := fun t : ℝ => basis3_fromAngle_eq_axisAngle (F := ℝ) t
  refine ⟨?_, ?_, ?_⟩
  · rw [(e θ).1, (e (-θ)).1]
    exact ⟨(basis3_axisAngle_invert _ θ (by simp)).1, (basis3_axisAngle_invert _ θ (by simp)).2.1⟩
  · rw [(e θ).2.1, (e (-θ)).2.1]
    exact ⟨(basis3_axisAngle_invert _ θ (by simp)).1, (basis3_axisAngle_invert _ θ (by simp)).2.1⟩
  · rw [(e θ).2.2, (e (-θ)).2.2]
    exact ⟨(basis3_axisAngle_invert _ θ (by simp)).1, (basis3_axisAngle_invert _ θ (by simp)).2.1⟩

/-! ## `Basis2::from_angle` -/

/-- `Basis2::from_angle(t)` rotates `(1,0)` to `(cos t, sin t)` and `(0,1)` to `(-sin t, cos t)`;
in general `(x, y) ↦ (x cos t − y sin t, x sin t + y cos t)` -/
theorem basis2_fromAngle_real (θ : ℝ) (v : V2 ℝ) :
    (Basis2.fromAngle θ).rotateVector ⟨1, 0⟩ = ⟨Real.cos θ, Real.sin θ⟩ ∧
    (Basis2.fromAngle θ).rotateVector ⟨0, 1⟩ = ⟨-Real.sin θ, Real.cos θ⟩ ∧
    (Basis2.fromAngle θ).rotateVector v =
      ⟨v.x * Real.cos θ - v.y * Real.sin θ, v.x * Real.sin θ + v.y * Real.cos θ⟩ ∧
    (Basis2.fromAngle θ).toM2 = M2.fromAngle θ := by
  refine ⟨(m2_fromAngle_real θ 0).1, (m2_fromAngle_real θ 0).2.1, ?_, rfl⟩
  ext <;> simp [Basis2.rotateVector] <;> ring

/-- angles add under `Basis2` multiplication -/
theorem basis2_fromAngle_add_real (θ₁ θ₂ : ℝ) :
    (Basis2.fromAngle θ₁).mul (Basis2.fromAngle θ₂) = Basis2.fromAngle (θ₁ + θ₂) :=
  congrArg Basis2.mk (m2_fromAngle_real θ₁ θ₂).2.2.1

/-- `Basis2::from_angle(t)` is orthonormal with determinant `+1`; zero angle is the identity -/
theorem basis2_fromAngle_orthonormal' (θ : ℝ) :
    (Basis2.fromAngle θ).mat.transpose * (Basis2.fromAngle θ).mat = M2.one ∧
    (Basis2.fromAngle θ).mat * (Basis2.fromAngle θ).mat.transpose = M2.one ∧
    (Basis2.fromAngle θ).mat.det = 1 ∧ Basis2.fromAngle (0 : ℝ) = Basis2.one := by
  obtain ⟨h1, h2, h3⟩ := m2_fromAngle_orthonormal θ
  refine ⟨h1, h2, h3, ?_⟩
  apply congrArg Basis2.mk
  ext <;> simp

/-- **every `Basis2` rotation** (matrix orthonormal): `invert` does not panic,
`r * invert(r) = invert(r) * r = one`, the inverse is the transpose -/
theorem basis2_rotation_invert (b : Basis2 ℝ) (h : b.mat * b.mat.transpose = M2.one) :
    b.invert? = some ⟨b.mat.transpose⟩ ∧ b.mul ⟨b.mat.transpose⟩ = Basis2.one ∧
    (Basis2.mk b.mat.transpose).mul b = Basis2.one := by
  have hi := Cg.C02.M2.invert_unique b.mat b.mat.transpose h
  obtain ⟨h1, h2⟩ := Cg.C02.M2.invert_spec b.mat _ hi
  exact ⟨by simp [Basis2.invert?, hi], congrArg Basis2.mk h1, congrArg Basis2.mk h2⟩

/-- `Basis2::from_angle(t).invert()` does not panic, is `from_angle(-t)`, and
`r * invert(r) = invert(r) * r = one` -/
theorem basis2_fromAngle_invert (θ : ℝ) :
    (Basis2.fromAngle θ).invert? = some (Basis2.fromAngle (-θ)) ∧
    (Basis2.fromAngle θ).mul (Basis2.fromAngle (-θ)) = Basis2.one ∧
    (Basis2.fromAngle (-θ)).mul (Basis2.fromAngle θ) = Basis2.one := by
  have h := basis2_rotation_invert (Basis2.fromAngle θ) (m2_fromAngle_orthonormal θ).2.1
  have e : (Basis2.mk (Basis2.fromAngle θ).mat.transpose) = Basis2.fromAngle (-θ) :=
    congrArg Basis2.mk (m2_fromAngle_isometry θ ⟨0, 0⟩ ⟨0, 0⟩).1
  rw [e] at h
  exact h

/-! ## `rotate_point(p) = rotate_vector(p - origin)` -/

/-- for the constructed rotations (instances of `rotate_point_eq`, stated with the constructors) -/
theorem basis_rotate_point (a : V3 ℝ) (θ : ℝ) (p : P3 ℝ) (p2 : P2 ℝ) :
    (Basis3.fromAxisAngle a θ).rotatePoint p =
      P3.fromVec ((Basis3.fromAxisAngle a θ).rotateVector (p - (P3.origin : P3 ℝ))) ∧
    (Basis3.fromAngleX θ).rotatePoint p =
      P3.fromVec ((Basis3.fromAngleX θ).rotateVector (p - (P3.origin : P3 ℝ))) ∧
    (Basis3.fromAngleY θ).rotatePoint p =
      P3.fromVec ((Basis3.fromAngleY θ).rotateVector (p - (P3.origin : P3 ℝ))) ∧
    (Basis3.fromAngleZ θ).rotatePoint p =
      P3.fromVec ((Basis3.fromAngleZ θ).rotateVector (p - (P3.origin : P3 ℝ))) ∧
    (Basis2.fromAngle θ).rotatePoint p2 =
      P2.fromVec ((Basis2.fromAngle θ).rotateVector (p2 - (P2.origin : P2 ℝ))) :=
  ⟨(rotate_point_eq Quat.one _ (Basis2.fromAngle θ) p p2).2.1,
   (rotate_point_eq Quat.one _ (Basis2.fromAngle θ) p p2).2.1,
   (rotate_point_eq Quat.one _ (Basis2.fromAngle θ) p p2).2.1,
   (rotate_point_eq Quat.one _ (Basis2.fromAngle θ) p p2).2.1,
   (rotate_point_eq Quat.one (Basis3.fromAngleX θ) _ p p2).2.2⟩

/-- the rotated point, explicitly: the Rodrigues image of the position vector -/
theorem basis3_axisAngle_rotate_point (a : V3 ℝ) (θ : ℝ) (p : P3 ℝ) :
    (Basis3.fromAxisAngle a θ).rotatePoint p =
      P3.fromVec (rodrigues a (Real.cos θ) (Real.sin θ) p.toVec) := by
  show P3.fromVec ((Basis3.fromAxisAngle a θ).rotateVector p.toVec) = _
  rw [basis3_axisAngle_real]

/-! ## non-vacuity -/

/-- a unit axis off the coordinate axes; a quarter turn about `+z` through the `Basis3`
constructor takes `x̂` to `ŷ` (counter-clockwise), and `Basis2` takes `(1,0)` to `(0,1)` -/
example : (⟨2 / 7, 3 / 7, 6 / 7⟩ : V3 ℝ).magnitude2 = 1 := by norm_num
example : (Basis3.fromAxisAngle (⟨0, 0, 1⟩ : V3 ℝ) (Real.pi / 2)).rotateVector ⟨1, 0, 0⟩ = ⟨0, 1, 0⟩ := by
  rw [basis3_axisAngle_real]
  ext <;> simp [rodrigues]
example : (Basis2.fromAngle (Real.pi / 2 : ℝ)).rotateVector ⟨1, 0⟩ = ⟨0, 1⟩ := by
  rw [(basis2_fromAngle_real _ ⟨0, 0⟩).1]; simp
/-- an orthonormal `Basis3` / `Basis2` for the `*_rotation_invert` hypotheses -/
example : (Basis3.one : Basis3 ℝ).mat * (Basis3.one : Basis3 ℝ).mat.transpose = M3.one := by
  ext <;> simp [Basis3.one]
example : (Basis2.one : Basis2 ℝ).mat * (Basis2.one : Basis2 ℝ).mat.transpose = M2.one := by
  ext <;> simp [Basis2.one]

end Cg.C06
