import Cgm.Lemmas.MatBridge
import Mathlib.Logic.Equiv.Basic
/-!
# C02 — inverse, determinant, transpose, swaps

`F` is a field with decidable equality (the code's `det == S::zero()` test).
-/
set_option linter.unusedSectionVars false
namespace Cg.C02
open Cg Matrix
variable {K : Type} [CommRing K] {F : Type} [Field F] [DecidableEq F]

/-! ## determinant = Leibniz expansion; multiplicative; transpose-invariant -/
theorem M2.det_leibniz (m : M2 K) : m.det = m.toMatrix.det := M2.det_eq m
theorem M3.det_leibniz (m : M3 K) : m.det = m.toMatrix.det := M3.det_eq m
theorem M4.det_leibniz (m : M4 K) : m.det = m.toMatrix.det := M4.det_eq m
/-- Mathlib's `det` *is* the Leibniz sum over permutations -/
theorem M4.det_leibniz_sum (m : M4 K) :
    m.det = ∑ σ : Equiv.Perm (Fin 4), Equiv.Perm.sign σ • ∏ i, m.toMatrix (σ i) i := by
  rw [M4.det_eq, Matrix.det_apply]
theorem M2.det_mul (a b : M2 K) : (a * b).det = a.det * b.det := by
  simp only [M2.det_eq, M2.toMatrix_mul, Matrix.det_mul]
theorem M3.det_mul (a b : M3 K) : (a * b).det = a.det * b.det := by
  simp only [M3.det_eq, M3.toMatrix_mul, Matrix.det_mul]
theorem M4.det_mul (a b : M4 K) : (a * b).det = a.det * b.det := by
  simp only [M4.det_eq, M4.toMatrix_mul, Matrix.det_mul]
theorem M2.det_transpose (a : M2 K) : a.transpose.det = a.det := by
  simp only [M2.det_eq, M2.toMatrix_transpose, Matrix.det_transpose]
theorem M3.det_transpose (a : M3 K) : a.transpose.det = a.det := by
  simp only [M3.det_eq, M3.toMatrix_transpose, Matrix.det_transpose]
theorem M4.det_transpose (a : M4 K) : a.transpose.det = a.det := by
  simp only [M4.det_eq, M4.toMatrix_transpose, Matrix.det_transpose]
theorem det_one : (M2.one : M2 K).det = 1 ∧ (M3.one : M3 K).det = 1 ∧ (M4.one : M4 K).det = 1 := by
  refine ⟨?_, ?_, ?_⟩
  · simp
  · simp
  · simp [M4.det, M4.detSubProc]

/-! ## invert: `None` exactly when `det = 0`, otherwise a two-sided inverse -/
theorem M2.invert_none_iff (m : M2 F) : m.invert = none ↔ m.det = 0 := by
  unfold M2.invert; simp only; split <;> simp_all
theorem M3.invert_none_iff (m : M3 F) : m.invert = none ↔ m.det = 0 := by
  unfold M3.invert; simp only; split <;> simp_all
theorem M4.invert_none_iff (m : M4 F) : m.invert = none ↔ m.det = 0 := by
  unfold M4.invert; simp only; split <;> simp_all

def adj2 (m : M2 F) (k : F) : M2 F := M2.new (m.y.y * k) (-m.x.y * k) (-m.y.x * k) (m.x.x * k)
theorem adj2_mul (m : M2 F) (k : F) :
    m * adj2 m k = M2.fromValue (k * m.det) ∧ adj2 m k * m = M2.fromValue (k * m.det) := by
  constructor <;> (ext <;> simp [adj2] <;> ring)
theorem M2.invert_spec (m i : M2 F) (h : m.invert = some i) : m * i = M2.one ∧ i * m = M2.one := by
  unfold M2.invert at h; simp only at h
  split at h
  · simp at h
  · rename_i hd
    injection h with h
    have hi : i = adj2 m (1 / m.det) := by
      rw [← h]; ext <;> simp [adj2] <;> ring
    have hk : 1 / m.det * m.det = 1 := one_div_mul_cancel hd
    rw [hi]
    obtain ⟨h1, h2⟩ := adj2_mul m (1 / m.det)
    rw [h1, h2, hk]; exact ⟨rfl, rfl⟩

/-- the adjugate-style matrix `Matrix3::invert` divides by `det` (before division) -/
def adj3 (m : M3 F) (k : F) : M3 F :=
  M3.transpose ⟨V3.cross m.y m.z * k, V3.cross m.z m.x * k, V3.cross m.x m.y * k⟩
theorem adj3_mul (m : M3 F) (k : F) :
    m * adj3 m k = M3.fromValue (k * m.det) ∧ adj3 m k * m = M3.fromValue (k * m.det) := by
  constructor <;> (ext <;> simp [adj3] <;> ring)
theorem M3.invert_spec (m i : M3 F) (h : m.invert = some i) : m * i = M3.one ∧ i * m = M3.one := by
  unfold M3.invert at h; simp only at h
  split at h
  · simp at h
  · rename_i hd
    injection h with h
    have hi : i = adj3 m (1 / m.det) := by
      rw [← h]; ext <;> simp [adj3] <;> ring
    have hk : 1 / m.det * m.det = 1 := one_div_mul_cancel hd
    rw [hi]
    obtain ⟨h1, h2⟩ := adj3_mul m (1 / m.det)
    rw [h1, h2, hk]; exact ⟨rfl, rfl⟩

/-- the cofactor matrix built by `Matrix4::invert`'s closure, for an arbitrary `inv_det = k` -/
def cfMat (m : M4 F) (k : F) : M4 F :=
  let cf := M4.cf m.transpose k
  M4.new (cf 0 0) (cf 0 1) (cf 0 2) (cf 0 3) (cf 1 0) (cf 1 1) (cf 1 2) (cf 1 3)
         (cf 2 0) (cf 2 1) (cf 2 2) (cf 2 3) (cf 3 0) (cf 3 1) (cf 3 2) (cf 3 3)
def d3 (a b c : V3 F) : F := M3.det ⟨a, b, c⟩
theorem cfMat_explicit (m : M4 F) (k : F) :
    cfMat m k =
      let t := m.transpose
      M4.new
        (d3 t.y.truncate0 t.z.truncate0 t.w.truncate0 * 1 * k)
        (d3 t.y.truncate1 t.z.truncate1 t.w.truncate1 * (-1) * k)
        (d3 t.y.truncate2 t.z.truncate2 t.w.truncate2 * 1 * k)
        (d3 t.y.truncate3 t.z.truncate3 t.w.truncate3 * (-1) * k)
        (d3 t.x.truncate0 t.z.truncate0 t.w.truncate0 * (-1) * k)
        (d3 t.x.truncate1 t.z.truncate1 t.w.truncate1 * 1 * k)
        (d3 t.x.truncate2 t.z.truncate2 t.w.truncate2 * (-1) * k)
        (d3 t.x.truncate3 t.z.truncate3 t.w.truncate3 * 1 * k)
        (d3 t.x.truncate0 t.y.truncate0 t.w.truncate0 * 1 * k)
        (d3 t.x.truncate1 t.y.truncate1 t.w.truncate1 * (-1) * k)
        (d3 t.x.truncate2 t.y.truncate2 t.w.truncate2 * 1 * k)
        (d3 t.x.truncate3 t.y.truncate3 t.w.truncate3 * (-1) * k)
        (d3 t.x.truncate0 t.y.truncate0 t.z.truncate0 * (-1) * k)
        (d3 t.x.truncate1 t.y.truncate1 t.z.truncate1 * 1 * k)
        (d3 t.x.truncate2 t.y.truncate2 t.z.truncate2 * (-1) * k)
        (d3 t.x.truncate3 t.y.truncate3 t.z.truncate3 * 1 * k) := rfl
theorem cfMat_mul (m : M4 F) (k : F) :
    m * cfMat m k = M4.fromValue (k * m.det) ∧ cfMat m k * m = M4.fromValue (k * m.det) := by
  rw [cfMat_explicit]
  constructor <;>
    (ext <;> dsimp only [M4.mul_def, M4.mul, V4.mul_def, V4.add_def, V4.sub_def, M4.new, M4.transpose,
      M4.fromValue, d3, M3.det, V4.truncate0, V4.truncate1, V4.truncate2, V4.truncate3, M4.det,
      M4.detSubProc, M4.flat_0, M4.flat_1, M4.flat_2, M4.flat_3, M4.flat_4, M4.flat_5, M4.flat_6, M4.flat_7, M4.flat_8, M4.flat_9, M4.flat_10, M4.flat_11, M4.flat_12, M4.flat_13, M4.flat_14, M4.flat_15, V4.dot, V4.mulEw, V4.sum, Nat.reduceAdd] <;> ring)
theorem M4.invert_spec (m i : M4 F) (h : m.invert = some i) : m * i = M4.one ∧ i * m = M4.one := by
  unfold M4.invert at h; simp only at h
  split at h
  · simp at h
  · rename_i hd
    injection h with h
    have hi : i = cfMat m (1 / m.det) := by rw [← h]; rfl
    have hk : 1 / m.det * m.det = 1 := one_div_mul_cancel hd
    rw [hi]
    obtain ⟨h1, h2⟩ := cfMat_mul m (1 / m.det)
    rw [h1, h2, hk]; exact ⟨rfl, rfl⟩

/-- whenever `det ≠ 0` an inverse is returned (tiny but non-zero determinants included) -/
theorem M4.invert_some_of_det_ne (m : M4 F) (h : m.det ≠ 0) : ∃ i, m.invert = some i := by
  cases hi : m.invert with
  | some i => exact ⟨i, rfl⟩
  | none => exact absurd ((M4.invert_none_iff m).1 hi) h
theorem M3.invert_some_of_det_ne (m : M3 F) (h : m.det ≠ 0) : ∃ i, m.invert = some i := by
  cases hi : m.invert with
  | some i => exact ⟨i, rfl⟩
  | none => exact absurd ((M3.invert_none_iff m).1 hi) h
theorem M2.invert_some_of_det_ne (m : M2 F) (h : m.det ≠ 0) : ∃ i, m.invert = some i := by
  cases hi : m.invert with
  | some i => exact ⟨i, rfl⟩
  | none => exact absurd ((M2.invert_none_iff m).1 hi) h
/-- the inverse is unique: any right inverse is what `invert` returns -/
theorem M4.invert_unique (m n : M4 F) (h : m * n = M4.one) : m.invert = some n := by
  have hd : m.det ≠ 0 := by
    intro h0
    have := congrArg M4.det h
    rw [M4.det_mul, h0, zero_mul] at this
    have h1 : (M4.one : M4 F).det = 1 := (det_one (K := F)).2.2
    rw [h1] at this; exact zero_ne_one this
  obtain ⟨i, hi⟩ := M4.invert_some_of_det_ne m hd
  obtain ⟨_, h2⟩ := M4.invert_spec m i hi
  have hl := (C02_aux_assoc4 i m n)
  rw [hi]; congr 1
  calc i = i * M4.one := by apply M4.toMatrix_inj; simp [M4.toMatrix_mul, M4.toMatrix_one]
    _ = i * (m * n) := by rw [h]
    _ = (i * m) * n := hl.symm
    _ = M4.one * n := by rw [h2]
    _ = n := by apply M4.toMatrix_inj; simp [M4.toMatrix_mul, M4.toMatrix_one]
where
  C02_aux_assoc4 (a b c : M4 F) : (a * b) * c = a * (b * c) := by
    apply M4.toMatrix_inj; simp only [M4.toMatrix_mul, Matrix.mul_assoc]


/-- the inverse is unique (2x2, 3x3) -/
theorem M3.invert_unique (m n : M3 F) (h : m * n = M3.one) : m.invert = some n := by
  have hd : m.det ≠ 0 := by
    intro h0
    have := congrArg M3.det h
    rw [M3.det_mul, h0, zero_mul] at this
    have h1 : (M3.one : M3 F).det = 1 := (det_one (K := F)).2.1
    rw [h1] at this; exact zero_ne_one this
  obtain ⟨i, hi⟩ := M3.invert_some_of_det_ne m hd
  obtain ⟨_, h2⟩ := M3.invert_spec m i hi
  rw [hi]; congr 1
  calc i = i * M3.one := by apply M3.toMatrix_inj; simp [M3.toMatrix_mul, M3.toMatrix_one]
    _ = i * (m * n) := by rw [h]
    _ = (i * m) * n := by apply M3.toMatrix_inj; simp only [M3.toMatrix_mul, Matrix.mul_assoc]
    _ = M3.one * n := by rw [h2]
    _ = n := by apply M3.toMatrix_inj; simp [M3.toMatrix_mul, M3.toMatrix_one]
theorem M2.invert_unique (m n : M2 F) (h : m * n = M2.one) : m.invert = some n := by
  have hd : m.det ≠ 0 := by
    intro h0
    have := congrArg M2.det h
    rw [M2.det_mul, h0, zero_mul] at this
    have h1 : (M2.one : M2 F).det = 1 := (det_one (K := F)).1
    rw [h1] at this; exact zero_ne_one this
  obtain ⟨i, hi⟩ := M2.invert_some_of_det_ne m hd
  obtain ⟨_, h2⟩ := M2.invert_spec m i hi
  rw [hi]; congr 1
  calc i = i * M2.one := by apply M2.toMatrix_inj; simp [M2.toMatrix_mul, M2.toMatrix_one]
    _ = i * (m * n) := by rw [h]
    _ = (i * m) * n := by apply M2.toMatrix_inj; simp only [M2.toMatrix_mul, Matrix.mul_assoc]
    _ = M2.one * n := by rw [h2]
    _ = n := by apply M2.toMatrix_inj; simp [M2.toMatrix_mul, M2.toMatrix_one]

/-! ## swaps exchange exactly the named rows / columns / elements (any element type) -/
section swaps
variable {α : Type}
/-- exchange positions `i` and `j` of a list -/
def swapList (l : List α) (i j : Nat) : List α :=
  match l[i]?, l[j]? with
  | some a, some b => (l.set i b).set j a
  | _, _ => l

theorem M2.swapRows_spec (m : M2 α) (a b c r : Fin 2) :
    (m.swapRows? a b).bind (fun m' => m'.get? c r) = m.get? c (Equiv.swap a b r) := by
  fin_cases a <;> fin_cases b <;> fin_cases c <;> fin_cases r <;> rfl
theorem M3.swapRows_spec (m : M3 α) (a b c r : Fin 3) :
    (m.swapRows? a b).bind (fun m' => m'.get? c r) = m.get? c (Equiv.swap a b r) := by
  fin_cases a <;> fin_cases b <;> fin_cases c <;> fin_cases r <;> rfl
theorem M4.swapRows_spec (m : M4 α) (a b c r : Fin 4) :
    (m.swapRows? a b).bind (fun m' => m'.get? c r) = m.get? c (Equiv.swap a b r) := by
  fin_cases a <;> fin_cases b <;> fin_cases c <;> fin_cases r <;> rfl
theorem M2.swapColumns_spec (m : M2 α) (a b c r : Fin 2) :
    (m.swapColumns? a b).bind (fun m' => m'.get? c r) = m.get? (Equiv.swap a b c) r := by
  fin_cases a <;> fin_cases b <;> fin_cases c <;> fin_cases r <;> rfl
theorem M3.swapColumns_spec (m : M3 α) (a b c r : Fin 3) :
    (m.swapColumns? a b).bind (fun m' => m'.get? c r) = m.get? (Equiv.swap a b c) r := by
  fin_cases a <;> fin_cases b <;> fin_cases c <;> fin_cases r <;> rfl
theorem M4.swapColumns_spec (m : M4 α) (a b c r : Fin 4) :
    (m.swapColumns? a b).bind (fun m' => m'.get? c r) = m.get? (Equiv.swap a b c) r := by
  fin_cases a <;> fin_cases b <;> fin_cases c <;> fin_cases r <;> rfl
/-- `swap_elements((ac,ar),(bc,br))` exchanges flat positions `n*ac+ar` and `n*bc+br` only -/
theorem M2.swapElements_spec (m : M2 α) (ac ar bc br : Fin 2) :
    (m.swapElements? ac ar bc br).map M2.toList
      = some (swapList m.toList (2 * ac.val + ar.val) (2 * bc.val + br.val)) := by
  fin_cases ac <;> fin_cases ar <;> fin_cases bc <;> fin_cases br <;> rfl
theorem M3.swapElements_spec (m : M3 α) (ac ar bc br : Fin 3) :
    (m.swapElements? ac ar bc br).map M3.toList
      = some (swapList m.toList (3 * ac.val + ar.val) (3 * bc.val + br.val)) := by
  fin_cases ac <;> fin_cases ar <;> fin_cases bc <;> fin_cases br <;> rfl
theorem M4.swapElements_spec (m : M4 α) (ac ar bc br : Fin 4) :
    (m.swapElements? ac ar bc br).map M4.toList
      = some (swapList m.toList (4 * ac.val + ar.val) (4 * bc.val + br.val)) := by
  fin_cases ac <;> fin_cases ar <;> fin_cases bc <;> fin_cases br <;> rfl
/-- `replace_col` installs the given column and returns the old one -/
theorem M4.replaceCol_spec (m : M4 α) (c : Fin 4) (v : V4 α) :
    ∃ m', m.replaceCol? c v = some (m', (m.cols[c.val]'(by simp [M4.cols]))) ∧
      m'.cols = m.cols.set c v := by
  fin_cases c <;> exact ⟨_, rfl, rfl⟩
theorem M3.replaceCol_spec (m : M3 α) (c : Fin 3) (v : V3 α) :
    ∃ m', m.replaceCol? c v = some (m', (m.cols[c.val]'(by simp [M3.cols]))) ∧
      m'.cols = m.cols.set c v := by
  fin_cases c <;> exact ⟨_, rfl, rfl⟩
theorem M2.replaceCol_spec (m : M2 α) (c : Fin 2) (v : V2 α) :
    ∃ m', m.replaceCol? c v = some (m', (m.cols[c.val]'(by simp [M2.cols]; omega))) ∧
      m'.cols = m.cols.set c v := by
  fin_cases c <;> exact ⟨_, rfl, rfl⟩
/-- an out-of-range index panics (model: `none`) -/
theorem M4.swap_oob (m : M4 α) (a b : Nat) (h : 4 ≤ a ∨ 4 ≤ b) :
    m.swapRows? a b = none ∧ m.swapColumns? a b = none := by
  have hv : ∀ v : V4 α, v.swapElements? a b = none := by
    intro v
    have : v.get? a = none ∨ v.get? b = none := by
      rcases h with h | h
      · left; simp [V4.get?, V4.toList]; omega
      · right; simp [V4.get?, V4.toList]; omega
    unfold V4.swapElements?
    rcases this with h1 | h1 <;> rw [h1] <;> cases v.get? a <;> rfl
  have hc : m.col? a = none ∨ m.col? b = none := by
    rcases h with h | h
    · left; simp [M4.col?, M4.cols]; omega
    · right; simp [M4.col?, M4.cols]; omega
  constructor
  · simp [M4.swapRows?, hv]
  · unfold M4.swapColumns?
    rcases hc with h1 | h1 <;> rw [h1] <;> cases m.col? a <;> rfl
end swaps

/-- `inverse_transform` of a matrix used as a transform is this same inverse (true by construction of the model:
`inverseTransform` is defined as `invert`, so this is `rfl`; the link to the code is the traced `inverse_transform` kernels) -/
theorem inverseTransform_eq (m3 : M3 F) (m4 : M4 F) :
    m3.inverseTransform = m3.invert ∧ m4.inverseTransform = m4.invert := ⟨rfl, rfl⟩

/-! ## transpose -/
theorem transpose_transpose (a : M2 K) (b : M3 K) (c : M4 K) :
    a.transpose.transpose = a ∧ b.transpose.transpose = b ∧ c.transpose.transpose = c :=
  ⟨rfl, rfl, rfl⟩
theorem M2.transpose_mul (a b : M2 K) : (a * b).transpose = b.transpose * a.transpose := by cg_ring
theorem M3.transpose_mul (a b : M3 K) : (a * b).transpose = b.transpose * a.transpose := by cg_ring
theorem M4.transpose_mul (a b : M4 K) : (a * b).transpose = b.transpose * a.transpose := by cg_ring
theorem transposeSelf_eq (a : M2 K) (b : M3 K) (c : M4 K) :
    a.transposeSelf? = some a.transpose ∧ b.transposeSelf? = some b.transpose ∧
    c.transposeSelf? = some c.transpose := ⟨rfl, rfl, rfl⟩


/-- non-vacuity: an exactly singular matrix is rejected, a regular one inverted -/
example : (M2.new 1 2 2 4 : M2 ℚ).invert = none ∧
    (M2.new 1 2 3 4 : M2 ℚ).invert = some (M2.new (-2) 1 (3/2) (-1/2)) := by
  constructor <;> (unfold M2.invert; simp [M2.det]; norm_num)

end Cg.C02
