import Cgm.Props.C07c
import Cgm.Lemmas.RealInst2
/-!
# C07 (fourth part) — the branch hypothesis written on the matrix element

The property's hypothesis is "the rotation of `q` has `|sin y| ≤ 0.998`".  `Props/C07b`, `C07c`
write it `|2(xz + yw)| ≤ 0.998`.  Here (third audit, C07 row "hypothesis"):

* `toM3_zx` : that expression IS the rotation-matrix element column 2 / row 0 (`q.toM3.z.x`,
  `m[2][0]` in the code's column-major indexing), for the `Matrix3`, `Matrix4` and `Basis3` of `q`;
  `ofEuler_zx` : the same element of `Matrix3::from(Euler{x,y,z})` is `sin y` (so for a matrix that
  is an Euler product the element is the sine of the middle angle).
* `*_elem` : the extraction theorems (ranges + exact rebuild of `Matrix3`, `Basis3`, `Matrix4`,
  quaternion up to sign; the cone statements) restated with the hypothesis on `q.toM3.z.x`.
* a CLOSED negative-cone witness (`q = (20/29; 0, -21/29, 0)`, `q.toM3.z.x = -840/841 < -0.998`)
  with the real literals (`Cgm/Lemmas/RealInst2.lean`): every hypothesis of the negative-cone
  theorem is discharged, and so are those of the positive cone and the main branch.
-/
set_option linter.unusedSectionVars false
namespace Cg.C07
open Cg Real

/-! ## the link: `2(xz + yw)` is the matrix element `m[2][0]` -/
section link
variable {K : Type} [CommRing K]

/-- column 2 (`z`), row 0 (`x`) of the rotation matrix of `q` is `2(xz + yw)`; the same element of
`Matrix4::from(q)` and of `Basis3::from(q)`; and it is entry `(0, 2)` (row, column) of the
Mathlib matrix -/
theorem toM3_zx (q : Quat K) :
    q.toM3.z.x = 2 * (q.v.x * q.v.z + q.v.y * q.s) ∧
    q.toM4.z.x = 2 * (q.v.x * q.v.z + q.v.y * q.s) ∧
    (Basis3.fromQuaternion q).mat.z.x = 2 * (q.v.x * q.v.z + q.v.y * q.s) ∧
    q.toM3.toMatrix 0 2 = 2 * (q.v.x * q.v.z + q.v.y * q.s) := by
  refine ⟨?_, ?_, ?_, ?_⟩
  · simp [Quat.toM3]; ring
  · simp [Quat.toM4]; ring
  · simp [Basis3.fromQuaternion, Quat.toM3]; ring
  · simp [Quat.toM3, M3.toMatrix]; ring
/-- it is the list entry `6 = 3·2 + 0` of the column-major layout -/
theorem toM3_zx_flat (q : Quat K) :
    q.toM3.toList[6]? = some (2 * (q.v.x * q.v.z + q.v.y * q.s)) := by
  simp [Quat.toM3, M3.toList, V3.toList]; ring
end link

/-- the same element of the matrix built from Euler angles is `sin y`: this is why the property
calls it "`sin y`" -/
theorem ofEuler_zx {F : Type} [Field F] [Transc F] (x y z : F) :
    (M3.ofEuler x y z).z.x = Transc.sin y ∧ (M4.ofEuler x y z).z.x = Transc.sin y ∧
    (Basis3.ofEuler x y z).mat.z.x = Transc.sin y := by
  refine ⟨?_, ?_, ?_⟩ <;> simp [M3.ofEuler, M3.eulerSC, M4.ofEuler, M4.eulerSC]
/-- hence for a quaternion built from Euler angles, `q.toM3.z.x = sin y` -/
theorem quat_ofEuler_zx (x y z : ℝ) : (Quat.ofEuler x y z).toM3.z.x = Real.sin y := by
  rw [quat_ofEuler_toM3]; exact (ofEuler_zx x y z).1

/-- rewriting rule used below -/
theorem zx_eq (q : Quat ℝ) : 2 * (q.v.x * q.v.z + q.v.y * q.s) = q.toM3.z.x := (toM3_zx q).1.symm

section generic
variable [Lits ℝ]

/-! ## branch selection on the matrix element -/
/-- the three branches of the code, for a unit quaternion, in terms of `m = q.toM3.z.x`:
main iff `|m| ≤ 0.998`, positive cone iff `m > 0.998`, negative cone iff `m < -0.998` -/
theorem branch_iff_elem (hsig : (Lits.sig : ℝ) = 0.499) (q : Quat ℝ) (hq : q.magnitude2 = 1) :
    (q.toEulerBranch = .main ↔ |q.toM3.z.x| ≤ 0.998) ∧
    (q.toEulerBranch = .pos ↔ 0.998 < q.toM3.z.x) ∧
    (q.toEulerBranch = .neg ↔ q.toM3.z.x < -0.998) := by
  rw [← zx_eq]
  exact ⟨branch_main_iff hsig q hq, gimbal_cone_iff hsig q hq⟩
/-- … and with the code's own threshold `2·sig` -/
theorem branch_iff_elem_sig (q : Quat ℝ) (hq : q.magnitude2 = 1) :
    q.toEulerBranch = .main ↔ |q.toM3.z.x| ≤ 2 * (Lits.sig : ℝ) := by
  rw [← zx_eq]; exact branch_iff q hq

/-! ## main branch: `|q.toM3.z.x| ≤ 0.998` -/
/-- **extraction, main branch, hypothesis on the matrix element**: if the rotation matrix of the
unit quaternion `q` has `|m[2][0]| ≤ 0.998` then the extracted `y` has `sin y = m[2][0]`, the three
angles are in their ranges and they rebuild the rotation matrix of `q` exactly -/
theorem toEuler_main_spec_elem (hsig : (Lits.sig : ℝ) = 0.499) (q : Quat ℝ) (hq : q.magnitude2 = 1)
    (ht : |q.toM3.z.x| ≤ 0.998) :
    Real.sin q.toEuler.2.1 = q.toM3.z.x ∧
    (-π < q.toEuler.1 ∧ q.toEuler.1 ≤ π) ∧
    (-(π / 2) ≤ q.toEuler.2.1 ∧ q.toEuler.2.1 ≤ π / 2) ∧
    (-π < q.toEuler.2.2 ∧ q.toEuler.2.2 ≤ π) ∧
    M3.ofEuler q.toEuler.1 q.toEuler.2.1 q.toEuler.2.2 = q.toM3 := by
  rw [← zx_eq] at ht ⊢
  exact toEuler_main_spec' hsig q hq ht
/-- the same with the threshold as the code writes it (`|m[2][0]| ≤ 2·sig`, `sig = 0.499`) -/
theorem toEuler_main_spec_elem_sig (hsig : (Lits.sig : ℝ) = 0.499) (q : Quat ℝ)
    (hq : q.magnitude2 = 1) (ht : |q.toM3.z.x| ≤ 2 * (Lits.sig : ℝ)) :
    Real.sin q.toEuler.2.1 = q.toM3.z.x ∧
    (-π < q.toEuler.1 ∧ q.toEuler.1 ≤ π) ∧
    (-(π / 2) ≤ q.toEuler.2.1 ∧ q.toEuler.2.1 ≤ π / 2) ∧
    (-π < q.toEuler.2.2 ∧ q.toEuler.2.2 ≤ π) ∧
    M3.ofEuler q.toEuler.1 q.toEuler.2.1 q.toEuler.2.2 = q.toM3 := by
  apply toEuler_main_spec_elem hsig q hq
  rw [hsig] at ht; refine le_trans ht ?_; norm_num
/-- the rebuilt matrix has the same `m[2][0]`, i.e. `sin` of the extracted `y` (consistency of the
two readings of "sin y") -/
theorem toEuler_rebuilt_zx (hsig : (Lits.sig : ℝ) = 0.499) (q : Quat ℝ) (hq : q.magnitude2 = 1)
    (ht : |q.toM3.z.x| ≤ 0.998) :
    (M3.ofEuler q.toEuler.1 q.toEuler.2.1 q.toEuler.2.2).z.x = q.toM3.z.x := by
  rw [(toEuler_main_spec_elem hsig q hq ht).2.2.2.2]
/-- quaternion round trip, hypothesis on the matrix element -/
theorem toEuler_roundtrip_quat_elem (hsig : (Lits.sig : ℝ) = 0.499) (q : Quat ℝ)
    (hq : q.magnitude2 = 1) (ht : |q.toM3.z.x| ≤ 0.998) :
    Quat.ofEuler q.toEuler.1 q.toEuler.2.1 q.toEuler.2.2 = q ∨
    Quat.ofEuler q.toEuler.1 q.toEuler.2.1 q.toEuler.2.2 = -q :=
  toEuler_roundtrip_quat hsig q hq ((branch_iff_elem hsig q hq).1.2 ht)
/-- rebuild of the `Basis3`, hypothesis on the `Basis3`'s own matrix element -/
theorem basis3_ofEuler_toEuler_elem (hsig : (Lits.sig : ℝ) = 0.499) (q : Quat ℝ)
    (hq : q.magnitude2 = 1) (ht : |(Basis3.fromQuaternion q).mat.z.x| ≤ 0.998) :
    Basis3.ofEuler q.toEuler.1 q.toEuler.2.1 q.toEuler.2.2 = Basis3.fromQuaternion q := by
  apply basis3_ofEuler_toEuler hsig q hq
  rw [zx_eq]; exact ht
/-- rebuild of the `Matrix4`, hypothesis on the `Matrix4`'s own element `m[2][0]` -/
theorem m4_ofEuler_toEuler_elem (hsig : (Lits.sig : ℝ) = 0.499) (q : Quat ℝ)
    (hq : q.magnitude2 = 1) (ht : |q.toM4.z.x| ≤ 0.998) :
    M4.ofEuler q.toEuler.1 q.toEuler.2.1 q.toEuler.2.2 = q.toM4 := by
  apply m4_ofEuler_toEuler hsig q hq
  rw [← (toM3_zx q).2.1]; exact ht

/-! ## the cones: `|q.toM3.z.x| > 0.998` -/
/-- gimbal statement, hypothesis on the matrix element -/
theorem toEuler_gimbal_spec_elem (hπ : (Lits.radFull : ℝ) = 2 * π) (hsig : (Lits.sig : ℝ) = 0.499)
    (q : Quat ℝ) (hq : q.magnitude2 = 1) (ht : 0.998 < |q.toM3.z.x|) :
    q.toEuler.1 = 0 ∧ (q.toEuler.2.1 = π / 2 ∨ q.toEuler.2.1 = -(π / 2)) ∧
    ∀ c r : Fin 3, |(M3.ofEuler q.toEuler.1 q.toEuler.2.1 q.toEuler.2.2).toMatrix r c
        - q.toM3.toMatrix r c| ≤ 0.13 := by
  rw [← zx_eq] at ht
  exact toEuler_gimbal_spec' hπ hsig q hq ht
/-- **positive cone** (`m[2][0] > 0.998`): `x = 0`, `y = +π/2`, `z = 2·atan2(q.x, q.w)`, and the
rebuilt matrix is within `0.13` of `q`'s in every element -/
theorem toEuler_pos_cone_elem (hπ : (Lits.radFull : ℝ) = 2 * π) (hsig : (Lits.sig : ℝ) = 0.499)
    (q : Quat ℝ) (hq : q.magnitude2 = 1) (ht : 0.998 < q.toM3.z.x) :
    q.toEulerBranch = .pos ∧ q.toEuler.1 = 0 ∧ q.toEuler.2.1 = π / 2 ∧
    q.toEuler.2.2 = Complex.arg ⟨q.s, q.v.x⟩ * 2 ∧
    ∀ c r : Fin 3, |(M3.ofEuler q.toEuler.1 q.toEuler.2.1 q.toEuler.2.2).toMatrix r c
        - q.toM3.toMatrix r c| ≤ 0.13 := by
  have hb : q.toEulerBranch = .pos := (branch_iff_elem hsig q hq).2.1.2 ht
  obtain ⟨g1, g2⟩ := (toEuler_gimbal q).1 hb
  refine ⟨hb, g1, by rw [g2, hπ]; ring, ?_, gimbal_bound_pos hπ hsig q hq hb⟩
  unfold Quat.toEulerBranch at hb
  simp only at hb
  split_ifs at hb with h1
  simp [Quat.toEuler, h1]
/-- **negative cone** (`m[2][0] < -0.998`): `x = 0`, `y = -π/2`, `z = -2·atan2(q.x, q.w)`, and the
rebuilt matrix is within `0.13` of `q`'s in every element -/
theorem toEuler_neg_cone_elem (hπ : (Lits.radFull : ℝ) = 2 * π) (hsig : (Lits.sig : ℝ) = 0.499)
    (q : Quat ℝ) (hq : q.magnitude2 = 1) (ht : q.toM3.z.x < -0.998) :
    q.toEulerBranch = .neg ∧ q.toEuler.1 = 0 ∧ q.toEuler.2.1 = -(π / 2) ∧
    q.toEuler.2.2 = -Complex.arg ⟨q.s, q.v.x⟩ * 2 ∧
    ∀ c r : Fin 3, |(M3.ofEuler q.toEuler.1 q.toEuler.2.1 q.toEuler.2.2).toMatrix r c
        - q.toM3.toMatrix r c| ≤ 0.13 := by
  have hb : q.toEulerBranch = .neg := (branch_iff_elem hsig q hq).2.2.2 ht
  obtain ⟨g1, g2⟩ := (toEuler_gimbal q).2 hb
  refine ⟨hb, g1, by rw [g2, hπ]; ring, ?_, gimbal_bound_neg hπ hsig q hq hb⟩
  unfold Quat.toEulerBranch at hb
  simp only at hb
  split_ifs at hb with h1 h2
  rw [neg_mul] at h2
  simp [Quat.toEuler, h1, h2]
/-- the `0.13` envelope for the `Basis3`, hypothesis on its own matrix element -/
theorem basis3_gimbal_bound_elem (hπ : (Lits.radFull : ℝ) = 2 * π) (hsig : (Lits.sig : ℝ) = 0.499)
    (q : Quat ℝ) (hq : q.magnitude2 = 1) (ht : 0.998 < |(Basis3.fromQuaternion q).mat.z.x|) :
    ∀ c r : Fin 3,
      |(Basis3.ofEuler q.toEuler.1 q.toEuler.2.1 q.toEuler.2.2).mat.toMatrix r c
        - (Basis3.fromQuaternion q).mat.toMatrix r c| ≤ 0.13 := by
  apply basis3_gimbal_bound hπ hsig q hq
  rw [zx_eq]; exact ht
end generic

/-! ## closed witnesses with the real literals (`sig = 0.499`, `radFull = 2π`) -/

/-- the negative-cone witness: `q = (w; x, y, z) = (20/29; 0, -21/29, 0)`, a unit quaternion whose
rotation matrix has `m[2][0] = -840/841 ≈ -0.99881 < -0.998` -/
noncomputable def negConeWitness : Quat ℝ := ⟨⟨0, -(21 / 29), 0⟩, 20 / 29⟩
theorem negConeWitness_unit : negConeWitness.magnitude2 = 1 := by
  norm_num [negConeWitness, Quat.magnitude2]
theorem negConeWitness_zx : negConeWitness.toM3.z.x = -(840 / 841) := by
  rw [(toM3_zx negConeWitness).1]; norm_num [negConeWitness]
theorem negConeWitness_lt : negConeWitness.toM3.z.x < -0.998 := by
  rw [negConeWitness_zx]; norm_num
/-- **closed negative-cone instance**: every hypothesis of `toEuler_neg_cone_elem` is discharged
(the literals by `lits_radFull`, `lits_sig`), so the negative branch is reachable and there the code
reports `x = 0`, `y = -π/2`, `z = 0` (`atan2(0, 20/29) = 0`), within `0.13` of the exact matrix -/
theorem negConeWitness_spec :
    negConeWitness.toEulerBranch = .neg ∧ negConeWitness.toEuler.1 = 0 ∧
    negConeWitness.toEuler.2.1 = -(π / 2) ∧ negConeWitness.toEuler.2.2 = 0 ∧
    ∀ c r : Fin 3, |(M3.ofEuler negConeWitness.toEuler.1 negConeWitness.toEuler.2.1
        negConeWitness.toEuler.2.2).toMatrix r c - negConeWitness.toM3.toMatrix r c| ≤ 0.13 := by
  obtain ⟨h1, h2, h3, h4, h5⟩ :=
    toEuler_neg_cone_elem lits_radFull lits_sig negConeWitness negConeWitness_unit negConeWitness_lt
  refine ⟨h1, h2, h3, ?_, h5⟩
  rw [h4]
  have : (⟨negConeWitness.s, negConeWitness.v.x⟩ : ℂ) = ((20 / 29 : ℝ) : ℂ) := by
    apply Complex.ext <;> simp [negConeWitness]
  rw [this, Complex.arg_ofReal_of_nonneg (by norm_num)]; ring

/-- closed positive-cone and main-branch instances with the real literals -/
example :
    let q : Quat ℝ := ⟨⟨0, 21 / 29, 0⟩, 20 / 29⟩
    q.magnitude2 = 1 ∧ 0.998 < q.toM3.z.x ∧ q.toEulerBranch = .pos ∧ q.toEuler.2.1 = π / 2 := by
  intro q
  have hq : q.magnitude2 = 1 := by norm_num [q, Quat.magnitude2]
  have ht : 0.998 < q.toM3.z.x := by rw [(toM3_zx q).1]; norm_num [q]
  obtain ⟨h1, -, h3, -⟩ := toEuler_pos_cone_elem lits_radFull lits_sig q hq ht
  exact ⟨hq, ht, h1, h3⟩
example :
    let q : Quat ℝ := ⟨⟨0, 3 / 5, 0⟩, 4 / 5⟩
    q.magnitude2 = 1 ∧ |q.toM3.z.x| ≤ 0.998 ∧
    M3.ofEuler q.toEuler.1 q.toEuler.2.1 q.toEuler.2.2 = q.toM3 ∧
    Real.sin q.toEuler.2.1 = 24 / 25 := by
  intro q
  have hq : q.magnitude2 = 1 := by norm_num [q, Quat.magnitude2]
  have hz : q.toM3.z.x = 24 / 25 := by rw [(toM3_zx q).1]; norm_num [q]
  have ht : |q.toM3.z.x| ≤ 0.998 := by rw [hz]; norm_num [abs_le]
  obtain ⟨h0, -, -, -, h4⟩ := toEuler_main_spec_elem lits_sig q hq ht
  exact ⟨hq, ht, h4, by rw [h0, hz]⟩

end Cg.C07
