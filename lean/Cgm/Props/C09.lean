import Cgm.Props.C11
import Cgm.Props.C08
import Cgm.Props.C03
/-!
# C09 — look_at / look_to build rigid view transforms with the documented handedness
-/
set_option linter.unusedSectionVars false
namespace Cg.C09
open Cg Real

attribute [simp] M4.lookToRh M4.lookToLh M4.lookAtRh M4.lookAtLh M3.lookToLh M3.lookToRh M3.lookAtLh M3.lookAtRh
  M2.lookAt M2.lookAtStable Quat.lookAt Basis3.lookAt Basis2.lookAt Basis2.lookAtStable

/-- the matrix `Matrix4::look_to_rh` assembles from the unit forward vector `f` and the unit side
vector `s` (`u = s × f`) -/
def viewRh {K : Type} [CommRing K] (eye : P3 K) (f s : V3 K) : M4 K :=
  let u := V3.cross s f
  M4.new s.x u.x (-f.x) 0 s.y u.y (-f.y) 0 s.z u.z (-f.z) 0
         (-P3.dot eye s) (-P3.dot eye u) (P3.dot eye f) 1
/-- rotation part of a 4x4 matrix -/
def upper3 {α : Type} (m : M4 α) : M3 α := ⟨m.x.truncate, m.y.truncate, m.z.truncate⟩

section algebraic
variable {K : Type} [Field K]
/-- for unit, mutually orthogonal `f`, `s`: the view matrix is a rigid motion (orthonormal rotation
part, determinant +1, affine), sends the eye to the origin, `f` to `-z`; a vector `v` goes to
`(v·s, v·(s×f), -v·f)` -/
theorem viewRh_spec (eye : P3 K) (f s : V3 K) (hf : V3.dot f f = 1) (hs : V3.dot s s = 1)
    (hsf : V3.dot s f = 0) :
    (upper3 (viewRh eye f s)).transpose * upper3 (viewRh eye f s) = M3.one ∧
    (upper3 (viewRh eye f s)).det = 1 ∧ Cg.C08.M4.Affine (viewRh eye f s) ∧
    (viewRh eye f s).transformPoint eye = P3.origin ∧
    (viewRh eye f s).transformVector f = ⟨0, 0, -1⟩ ∧
    (∀ v : V3 K, (viewRh eye f s).transformVector v = ⟨V3.dot v s, V3.dot v (V3.cross s f), -V3.dot v f⟩) := by
  have hf' : f.x * f.x + (f.y * f.y + f.z * f.z) = 1 := by simpa using hf
  have hs' : s.x * s.x + (s.y * s.y + s.z * s.z) = 1 := by simpa using hs
  have hsf' : s.x * f.x + (s.y * f.y + s.z * f.z) = 0 := by simpa using hsf
  obtain ⟨fx, fy, fz⟩ := f
  obtain ⟨sx, sy, sz⟩ := s
  simp only at hf' hs' hsf'
  refine ⟨?_, ?_, ⟨rfl, rfl, rfl, rfl⟩, ?_, ?_, ?_⟩
  · ext <;> simp [viewRh, upper3]
    · linear_combination (sy^2 + sz^2) * hf' + (1 - fx^2) * hs' + (fx*sx - fy*sy - fz*sz) * hsf'
    · linear_combination (-sx*sy) * hf' + (-fx*fy) * hs' + (fx*sy + fy*sx) * hsf'
    · linear_combination (-sx*sz) * hf' + (-fx*fz) * hs' + (fx*sz + fz*sx) * hsf'
    · linear_combination (-sx*sy) * hf' + (-fx*fy) * hs' + (fx*sy + fy*sx) * hsf'
    · linear_combination (sx^2 + sz^2) * hf' + (1 - fy^2) * hs' + (-fx*sx + fy*sy - fz*sz) * hsf'
    · linear_combination (-sy*sz) * hf' + (-fy*fz) * hs' + (fy*sz + fz*sy) * hsf'
    · linear_combination (-sx*sz) * hf' + (-fx*fz) * hs' + (fx*sz + fz*sx) * hsf'
    · linear_combination (-sy*sz) * hf' + (-fy*fz) * hs' + (fy*sz + fz*sy) * hsf'
    · linear_combination (1 - sz^2) * hf' + (fx^2 + fy^2) * hs' + (-fx*sx - fy*sy + fz*sz) * hsf'
  · simp [viewRh, upper3]
    linear_combination (sx^2 + sy^2 + sz^2) * hf' + (1) * hs' + (-fx*sx - fy*sy - fz*sz) * hsf'
  · ext <;> simp [viewRh] <;> ring
  · ext <;> simp [viewRh]
    · linear_combination hsf'
    · ring
    · linear_combination (-1) * hf'
  · intro v; ext <;> simp [viewRh] <;> ring
end algebraic

/-! ## over the reals -/
theorem normalize_unit (v : V3 ℝ) (h : 0 < v.magnitude2) :
    V3.dot v.normalize v.normalize = 1 ∧ v = v.normalize * v.magnitude ∧ 0 < v.magnitude := by
  have hm : 0 < v.magnitude := by simp only [V3.magnitude, transc_sqrt]; exact Real.sqrt_pos.mpr h
  have hsq : v.magnitude * v.magnitude = v.magnitude2 := by
    have := (Cg.C11.V3.magnitude_sq v).1; rw [← this]; ring
  refine ⟨?_, ?_, hm⟩
  · have e : V3.dot v.normalize v.normalize = (1 / v.magnitude) * (1 / v.magnitude) * v.magnitude2 := by
      simp only [V3.normalize, V3.normalizeTo]; simp; ring
    rw [e, ← hsq]; field_simp
  · have hne : v.magnitude ≠ 0 := hm.ne'
    ext <;> simp only [V3.normalize, V3.normalizeTo, V3.mul_def] <;> field_simp

/-- `look_to_rh`: rigid motion, eye ↦ origin, `d ↦ (0,0,-|d|)`, `up ↦ (0, y ≥ 0, ·)`;
`look_to_lh` is `look_to_rh` of `-d`, so `d ↦ (0,0,+|d|)` -/
theorem lookToRh_spec (eye : P3 ℝ) (d up : V3 ℝ) (hd : 0 < d.magnitude2)
    (hup : 0 < (V3.cross d.normalize up).magnitude2) :
    let m := M4.lookToRh eye d up
    (upper3 m).transpose * upper3 m = M3.one ∧ (upper3 m).det = 1 ∧ Cg.C08.M4.Affine m ∧
    m.transformPoint eye = P3.origin ∧ m.transformVector d = ⟨0, 0, -d.magnitude⟩ ∧
    (m.transformVector up).x = 0 ∧ 0 ≤ (m.transformVector up).y := by
  set f := d.normalize with hf
  set c := V3.cross f up with hc
  set s := c.normalize with hs
  obtain ⟨f1, f2, f3⟩ := normalize_unit d hd
  obtain ⟨s1, s2, s3⟩ := normalize_unit c hup
  have hcf : V3.dot c f = 0 := by rw [hc]; simp; ring
  have hsf : V3.dot s f = 0 := by
    have e : V3.dot s f = (1 / c.magnitude) * V3.dot c f := by
      rw [hs]; simp only [V3.normalize, V3.normalizeTo]; simp; ring
    rw [e, hcf, mul_zero]
  have hm : M4.lookToRh eye d up = viewRh eye f s := rfl
  obtain ⟨a1, a2, a3, a4, a5, a6⟩ := viewRh_spec eye f s f1 s1 hsf
  intro m
  have hm' : m = viewRh eye f s := hm
  rw [hm']
  refine ⟨a1, a2, a3, a4, ?_, ?_, ?_⟩
  · -- d = f * |d|
    have hd' : (viewRh eye f s).transformVector d = (viewRh eye f s).transformVector (f * d.magnitude) :=
      congrArg (fun v => (viewRh eye f s).transformVector v) f2
    have hlin : (viewRh eye f s).transformVector (f * d.magnitude)
        = (viewRh eye f s).transformVector f * d.magnitude := by
      rw [a6, a6]; ext <;> simp <;> ring
    rw [hd', hlin, a5]; ext <;> simp
  · rw [a6]
    show V3.dot up s = 0
    have e : V3.dot up s = (1 / c.magnitude) * V3.dot up c := by
      rw [hs]; simp only [V3.normalize, V3.normalizeTo]; simp; ring
    have : V3.dot up c = 0 := by rw [hc]; simp; ring
    rw [e, this, mul_zero]
  · rw [a6]
    show 0 ≤ V3.dot up (V3.cross s f)
    -- up · (s × f) = s · (f × up) = s · c = |c|
    have e1 : V3.dot up (V3.cross s f) = V3.dot s c := by rw [hc]; simp; ring
    have e2 : V3.dot s c = (1 / c.magnitude) * c.magnitude2 := by
      rw [hs]; simp only [V3.normalize, V3.normalizeTo]; simp; ring
    rw [e1, e2]
    have := (Cg.C11.V3.magnitude_sq c).2
    positivity
/-- relations between the model's look-at constructors, each true by construction of the model (`rfl`): left-handed is
right-handed at `-d`; conjuncts 2 and 3 keep the direction in the unreduced form `(eye + d) - eye` (that it is `d` is not
stated here); see `lookAt_eq_lookTo` for the general `center` -/
theorem lookToLh_eq (eye : P3 ℝ) (d up : V3 ℝ) :
    M4.lookToLh eye d up = M4.lookToRh eye (-d) up ∧
    M4.lookAtRh eye (eye + d) up = M4.lookToRh eye ((eye + d) - eye) up ∧
    M4.lookAtLh eye (eye + d) up = M4.lookToLh eye ((eye + d) - eye) up ∧
    M3.lookToRh d up = M3.lookToLh (-d) up := ⟨rfl, rfl, rfl, rfl⟩
/-- `look_at_*(eye, center, up) = look_to_*(eye, center - eye, up)` for every entry point -/
theorem lookAt_eq_lookTo (eye center : P3 ℝ) (up : V3 ℝ) :
    M4.lookAtRh eye center up = M4.lookToRh eye (center - eye) up ∧
    M4.lookAtLh eye center up = M4.lookToLh eye (center - eye) up ∧
    M3.lookAtRh eye center up = M3.lookToRh (center - eye) up ∧
    M3.lookAtLh eye center up = M3.lookToLh (center - eye) up := ⟨rfl, rfl, rfl, rfl⟩
/-- the rotation types' `look_at` is the left-handed matrix (first two conjuncts: by construction of the model);
`Decomposed::look_at_*` uses it: it maps every `p` to `M * (p - eye)` with `M` that matrix (so the eye goes to `M * 0`; the
conclusion `= origin` is not drawn in this statement) -/
theorem rotation_lookAt (d up : V3 ℝ) (eye p : V3 ℝ) :
    (Basis3.lookAt d up).mat = M3.lookToLh d up ∧ Quat.lookAt d up = (M3.lookToLh d up).toQuat ∧
    (Decomposed.lookAtDir basis3Ops d up V3.zero eye : Decomposed (Basis3 ℝ) (V3 ℝ) ℝ).transformPointV basis3Ops p
      = M3.lookToLh d up * (p - eye) := by
  refine ⟨rfl, rfl, ?_⟩
  simp only [Decomposed.lookAtDir, Decomposed.transformPointV, basis3Ops, Basis3.rotateVector, Basis3.lookAt]
  ext <;> simp <;> ring

/-- normalising an already-unit vector changes nothing -/
theorem normalize_of_unit (v : V3 ℝ) (h : v.magnitude2 = 1) : v.normalize = v := by
  have hm : v.magnitude = 1 := by simp only [V3.magnitude, transc_sqrt, h, Real.sqrt_one]
  ext <;> simp only [V3.normalize, V3.normalizeTo, V3.mul_def, hm] <;> ring
theorem normalize_neg (v : V3 ℝ) : (-v).normalize = -v.normalize := by
  have hm : (-v).magnitude = v.magnitude := by
    have : (-v).magnitude2 = v.magnitude2 := by simp
    simp only [V3.magnitude, this]
  show (-v) * (1 / (-v).magnitude) = -(v * (1 / v.magnitude))
  rw [hm]
  ext <;> simp
/-- the Matrix4 and Matrix3 (hence Basis3, and the matrix handed to the quaternion conversion)
left-handed constructors have the same rotation part -/
theorem m4_m3_agree_lh (eye : P3 ℝ) (d up : V3 ℝ) (hd : 0 < d.magnitude2)
    (hup : 0 < (V3.cross up d.normalize).magnitude2) :
    upper3 (M4.lookToLh eye d up) = M3.lookToLh d up := by
  set dir := d.normalize with hdir
  set side := (V3.cross up dir).normalize with hside
  obtain ⟨d1, _, _⟩ := normalize_unit d hd
  obtain ⟨s1, _, _⟩ := normalize_unit (V3.cross up dir) hup
  have hsd : V3.dot side dir = 0 := by
    have e : V3.dot side dir = (1 / (V3.cross up dir).magnitude) * V3.dot (V3.cross up dir) dir := by
      rw [hside]; simp only [V3.normalize, V3.normalizeTo]; simp; ring
    have : V3.dot (V3.cross up dir) dir = 0 := by simp; ring
    rw [e, this, mul_zero]
  -- dir × side is already unit (Lagrange)
  have hu : (V3.cross dir side).magnitude2 = 1 := by
    have lag := Cg.C03.V3.lagrange dir side
    have e1 : dir.magnitude2 = 1 := d1
    have e2 : side.magnitude2 = 1 := s1
    have e3 : V3.dot dir side = 0 := by rw [Cg.C03.V3.dot_comm]; exact hsd
    rw [lag, e1, e2, e3]; ring
  have hn : (V3.cross dir side).normalize = V3.cross dir side := normalize_of_unit _ hu
  -- unfold both constructors to the same three rows
  have hf : (-d).normalize = -dir := normalize_neg d
  have hs : (V3.cross (-dir) up).normalize = side := by
    have : V3.cross (-dir) up = V3.cross up dir := by ext <;> simp <;> ring
    rw [this]
  have lhs : M4.lookToLh eye d up = viewRh eye (-dir) side := by
    show M4.lookToRh eye (-d) up = _
    show viewRh eye ((-d).normalize) ((V3.cross (-d).normalize up).normalize) = _
    rw [hf, hs]
  have rhs : M3.lookToLh d up = M3.transpose ⟨side, V3.cross dir side, dir⟩ := by
    show M3.transpose ⟨side, (V3.cross dir side).normalize, dir⟩ = _
    rw [hn]
  rw [lhs, rhs]
  ext <;> simp [viewRh, upper3] <;> ring

/-! ## 2-D -/
theorem normalize_unit2 (v : V2 ℝ) (h : 0 < v.magnitude2) :
    V2.dot v.normalize v.normalize = 1 ∧ v.normalize = v * (1 / v.magnitude) ∧ 0 < v.magnitude := by
  have hm : 0 < v.magnitude := by simp only [V2.magnitude, transc_sqrt]; exact Real.sqrt_pos.mpr h
  have hsq : v.magnitude * v.magnitude = v.magnitude2 := by
    have := (Cg.C11.V2.magnitude_sq v).1; rw [← this]; ring
  refine ⟨?_, rfl, hm⟩
  have e : V2.dot v.normalize v.normalize = (1 / v.magnitude) * (1 / v.magnitude) * v.magnitude2 := by
    simp only [V2.normalize, V2.normalizeTo]; simp; ring
  rw [e, ← hsq]; field_simp
/-- `Matrix2/Basis2::look_at(d, up)`: orthonormal columns, the first is `d/|d|`, the second lies
on the same side as `up` -/
theorem lookAt2_spec (d up : V2 ℝ) (hd : 0 < d.magnitude2) :
    (M2.lookAt d up).x = d * (1 / d.magnitude) ∧ V2.dot (M2.lookAt d up).x (M2.lookAt d up).x = 1 ∧
    V2.dot (M2.lookAt d up).y (M2.lookAt d up).y = 1 ∧ V2.dot (M2.lookAt d up).x (M2.lookAt d up).y = 0 ∧
    0 ≤ V2.dot (M2.lookAt d up).y up := by
  obtain ⟨n1, n2, n3⟩ := normalize_unit2 d hd
  have n1' : d.normalize.x * d.normalize.x + d.normalize.y * d.normalize.y = 1 := by simpa using n1
  have nx : d.normalize.x = d.x * (1 / d.magnitude) := by rw [n2]; rfl
  have ny : d.normalize.y = d.y * (1 / d.magnitude) := by rw [n2]; rfl
  have hpos : 0 < 1 / d.magnitude := by positivity
  by_cases hflip : up.y * d.x ≤ up.x * d.y
  · have e : M2.lookAt d up = ⟨d.normalize, ⟨d.normalize.y, -d.normalize.x⟩⟩ := by
      unfold M2.lookAt M2.lookAtStable; simp only [hflip, decide_true, if_true]
    rw [e]
    refine ⟨n2, n1, ?_, ?_, ?_⟩
    · simp only [V2.dot, V2.mulEw, V2.sum]; linarith
    · simp only [V2.dot, V2.mulEw, V2.sum]; ring
    · simp only [V2.dot, V2.mulEw, V2.sum]; rw [nx, ny]
      have : 0 ≤ (up.x * d.y - up.y * d.x) * (1 / d.magnitude) := mul_nonneg (by linarith) hpos.le
      linarith
  · have e : M2.lookAt d up = ⟨d.normalize, ⟨-d.normalize.y, d.normalize.x⟩⟩ := by
      unfold M2.lookAt M2.lookAtStable; simp only [hflip, decide_false]; rfl
    rw [not_le] at hflip
    rw [e]
    refine ⟨n2, n1, ?_, ?_, ?_⟩
    · simp only [V2.dot, V2.mulEw, V2.sum]; linarith
    · simp only [V2.dot, V2.mulEw, V2.sum]; ring
    · simp only [V2.dot, V2.mulEw, V2.sum]; rw [nx, ny]
      have : 0 ≤ (up.y * d.x - up.x * d.y) * (1 / d.magnitude) := mul_nonneg (by linarith) hpos.le
      linarith
theorem basis2_lookAt (d up : V2 ℝ) (f : Bool) :
    (Basis2.lookAt d up).mat = M2.lookAt d up ∧ (Basis2.lookAtStable d f).mat = M2.lookAtStable d f := ⟨rfl, rfl⟩

end Cg.C09
