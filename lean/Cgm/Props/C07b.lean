import Cgm.Props.C07
/-!
# C07 (continued) — end-to-end extraction theorems

* `toEuler_main_spec` : the code's `toEuler` (not the auxiliary `eulerMain`) in the main branch,
  stated with the branch predicate and, equivalently, with `|sin y| ≤ 0.998`.
* `unit_toM3_inj` : two unit quaternions with the same rotation matrix are equal up to sign.
* `toEuler_roundtrip_quat` : `Quat.ofEuler (toEuler q) = ± q` in the main branch.
* `toEuler_gimbal_spec` : in the gimbal cones `x = 0`, `y = ± π/2` and the 0.13 envelope.
-/
set_option linter.unusedSectionVars false
namespace Cg.C07
open Cg Real

/-! ## two unit quaternions with the same matrix agree up to sign -/

theorem quat_neg_neg (q : Quat ℝ) : - -q = q := by
  ext <;> simp

/-- if `p`, `q` are unit quaternions with `p.toM3 = q.toM3` then `p = q ∨ p = -q` -/
theorem unit_toM3_inj (p q : Quat ℝ) (hp : p.magnitude2 = 1) (hq : q.magnitude2 = 1)
    (h : p.toM3 = q.toM3) : p = q ∨ p = -q := by
  have h1 := Cg.C05.toQuat_toM3 p hp
  have h2 := Cg.C05.toQuat_toM3 q hq
  rw [h] at h1
  rcases h1 with h1 | h1 <;> rcases h2 with h2 | h2
  · left; rw [← h1, h2]
  · right; rw [← h1, h2]
  · right
    have : -p = q := by rw [← h1, h2]
    rw [← this, quat_neg_neg]
  · left
    have : -p = -q := by rw [← h1, h2]
    rw [← quat_neg_neg p, this, quat_neg_neg]

/-- the quaternion built from Euler angles is a unit quaternion -/
theorem quat_ofEuler_unit (x y z : ℝ) : (Quat.ofEuler x y z).magnitude2 = 1 := by
  have ux : (Quat.fromAngleX x).magnitude2 = 1 := (Cg.C06.quat_axisAngle_real V3.unitX V3.unitX x (by simp)).2
  have uy : (Quat.fromAngleY y).magnitude2 = 1 := (Cg.C06.quat_axisAngle_real V3.unitY V3.unitY y (by simp)).2
  have uz : (Quat.fromAngleZ z).magnitude2 = 1 := (Cg.C06.quat_axisAngle_real V3.unitZ V3.unitZ z (by simp)).2
  rw [quat_ofEuler_eq_product, Cg.C04.magnitude2_mul, Cg.C04.magnitude2_mul, ux, uy, uz]
  norm_num

variable [Lits ℝ]

/-! ## the main branch, end to end -/

/-- **end-to-end extraction (main branch)**: for a unit quaternion `q` which the code sends to the
main branch, the angles `q.toEuler` returned by the code lie in the documented ranges
(`x, z ∈ (-π, π]`, `y ∈ [-π/2, π/2]`) and rebuild the rotation matrix of `q` exactly.
(`sig = 0.499` is what the literal denotes; the statement is over ℝ.) -/
theorem toEuler_main_spec (hsig : (Lits.sig : ℝ) = 0.499) (q : Quat ℝ) (hq : q.magnitude2 = 1)
    (hb : q.toEulerBranch = .main) :
    (-π < q.toEuler.1 ∧ q.toEuler.1 ≤ π) ∧
    (-(π / 2) ≤ q.toEuler.2.1 ∧ q.toEuler.2.1 ≤ π / 2) ∧
    (-π < q.toEuler.2.2 ∧ q.toEuler.2.2 ≤ π) ∧
    M3.ofEuler q.toEuler.1 q.toEuler.2.1 q.toEuler.2.2 = q.toM3 := by
  have ht : |2 * (q.v.x * q.v.z + q.v.y * q.s)| < 1 := by
    have := (branch_iff q hq).mp hb
    rw [hsig] at this
    refine lt_of_le_of_lt this ?_
    norm_num
  rw [toEuler_main q hb]
  exact euler_main_spec q hq ht

/-- the same in the property's vocabulary: the hypothesis is `|2(xz + yw)| ≤ 0.998`, and
`2(xz + yw)` is the sine of the extracted `y` (so the hypothesis reads `|sin y| ≤ 0.998`) -/
theorem toEuler_main_spec' (hsig : (Lits.sig : ℝ) = 0.499) (q : Quat ℝ) (hq : q.magnitude2 = 1)
    (ht : |2 * (q.v.x * q.v.z + q.v.y * q.s)| ≤ 0.998) :
    Real.sin q.toEuler.2.1 = 2 * (q.v.x * q.v.z + q.v.y * q.s) ∧
    (-π < q.toEuler.1 ∧ q.toEuler.1 ≤ π) ∧
    (-(π / 2) ≤ q.toEuler.2.1 ∧ q.toEuler.2.1 ≤ π / 2) ∧
    (-π < q.toEuler.2.2 ∧ q.toEuler.2.2 ≤ π) ∧
    M3.ofEuler q.toEuler.1 q.toEuler.2.1 q.toEuler.2.2 = q.toM3 := by
  have hb : q.toEulerBranch = .main := by
    apply (branch_iff q hq).mpr
    rw [hsig]
    refine le_trans ht ?_
    norm_num
  refine ⟨?_, toEuler_main_spec hsig q hq hb⟩
  rw [toEuler_main q hb]
  obtain ⟨t1, t2⟩ := abs_le.mp ht
  show Real.sin (Real.arcsin _) = _
  exact Real.sin_arcsin (by linarith) (by linarith)

/-- **quaternion round trip (main branch)**: rebuilding a quaternion from the extracted Euler
angles returns `q` or `-q` (the same rotation) -/
theorem toEuler_roundtrip_quat (hsig : (Lits.sig : ℝ) = 0.499) (q : Quat ℝ) (hq : q.magnitude2 = 1)
    (hb : q.toEulerBranch = .main) :
    Quat.ofEuler q.toEuler.1 q.toEuler.2.1 q.toEuler.2.2 = q ∨
    Quat.ofEuler q.toEuler.1 q.toEuler.2.1 q.toEuler.2.2 = -q := by
  apply unit_toM3_inj _ _ (quat_ofEuler_unit _ _ _) hq
  rw [quat_ofEuler_toM3]
  exact (toEuler_main_spec hsig q hq hb).2.2.2

/-- the main branch is exactly `|2(xz + yw)| ≤ 0.998` for a unit quaternion -/
theorem branch_main_iff (hsig : (Lits.sig : ℝ) = 0.499) (q : Quat ℝ) (hq : q.magnitude2 = 1) :
    q.toEulerBranch = .main ↔ |2 * (q.v.x * q.v.z + q.v.y * q.s)| ≤ 0.998 := by
  rw [branch_iff q hq, hsig]
  norm_num

/-- non-vacuity of the main branch: the identity quaternion, and a boundary-ish rational point
(`2·(3/5)·(4/5) = 0.96 ≤ 0.998`) -/
example (hsig : (Lits.sig : ℝ) = 0.499) :
    let q : Quat ℝ := ⟨⟨0, 3 / 5, 0⟩, 4 / 5⟩
    q.magnitude2 = 1 ∧ q.toEulerBranch = .main := by
  intro q
  have hq : q.magnitude2 = 1 := by norm_num [q, Quat.magnitude2]
  refine ⟨hq, (branch_main_iff hsig q hq).mpr ?_⟩
  norm_num [q, abs_le]

/-! ## the gimbal-lock cones -/

/-- **gimbal statement**: for a unit quaternion outside the main branch (i.e. `|sin y| > 0.998`),
`x` is reported as `0`, `y` as `+π/2` (positive cone) or `-π/2` (negative cone), and every element
of the rebuilt rotation matrix is within `0.13` of `q`'s. -/
theorem toEuler_gimbal_spec (hπ : (Lits.radFull : ℝ) = 2 * π) (hsig : (Lits.sig : ℝ) = 0.499)
    (q : Quat ℝ) (hq : q.magnitude2 = 1) (hb : q.toEulerBranch ≠ .main) :
    q.toEuler.1 = 0 ∧
    ((q.toEulerBranch = .pos ∧ q.toEuler.2.1 = π / 2) ∨
      (q.toEulerBranch = .neg ∧ q.toEuler.2.1 = -(π / 2))) ∧
    ∀ c r : Fin 3, |(M3.ofEuler q.toEuler.1 q.toEuler.2.1 q.toEuler.2.2).toMatrix r c
        - q.toM3.toMatrix r c| ≤ 0.13 := by
  have hq4 : (2 * π / 4) = π / 2 := by ring
  obtain ⟨gp, gn⟩ := toEuler_gimbal q
  refine ⟨?_, ?_, gimbal_bound hπ hsig q hq hb⟩
  · cases hbr : q.toEulerBranch with
    | pos => exact (gp hbr).1
    | neg => exact (gn hbr).1
    | main => exact absurd hbr hb
  · cases hbr : q.toEulerBranch with
    | pos => left; exact ⟨rfl, by rw [(gp hbr).2, hπ, hq4]⟩
    | neg => right; exact ⟨rfl, by rw [(gn hbr).2, hπ, hq4]⟩
    | main => exact absurd hbr hb

/-- the cones in the property's vocabulary: outside the main branch means `|2(xz + yw)| > 0.998`;
the sign of `2(xz + yw)` selects the cone -/
theorem gimbal_cone_iff (hsig : (Lits.sig : ℝ) = 0.499) (q : Quat ℝ) (hq : q.magnitude2 = 1) :
    (q.toEulerBranch = .pos ↔ 0.998 < 2 * (q.v.x * q.v.z + q.v.y * q.s)) ∧
    (q.toEulerBranch = .neg ↔ 2 * (q.v.x * q.v.z + q.v.y * q.s) < -0.998) := by
  have hu : q.v.x * q.v.x + q.v.z * q.v.z + q.v.y * q.v.y + q.s * q.s = 1 := by
    have : q.s * q.s + (q.v.x * q.v.x + (q.v.y * q.v.y + q.v.z * q.v.z)) = 1 := by simpa using hq
    linarith
  unfold Quat.toEulerBranch
  simp only [hu, mul_one, hsig]
  split_ifs with h1 h2
  · simp; constructor <;> linarith
  · simp; constructor <;> linarith
  · simp; rw [not_lt] at h1 h2; constructor <;> linarith

/-- the gimbal statement with the hypothesis written as `|2(xz + yw)| > 0.998` -/
theorem toEuler_gimbal_spec' (hπ : (Lits.radFull : ℝ) = 2 * π) (hsig : (Lits.sig : ℝ) = 0.499)
    (q : Quat ℝ) (hq : q.magnitude2 = 1) (ht : 0.998 < |2 * (q.v.x * q.v.z + q.v.y * q.s)|) :
    q.toEuler.1 = 0 ∧ (q.toEuler.2.1 = π / 2 ∨ q.toEuler.2.1 = -(π / 2)) ∧
    ∀ c r : Fin 3, |(M3.ofEuler q.toEuler.1 q.toEuler.2.1 q.toEuler.2.2).toMatrix r c
        - q.toM3.toMatrix r c| ≤ 0.13 := by
  have hb : q.toEulerBranch ≠ .main := by
    intro hb
    have := (branch_main_iff hsig q hq).mp hb
    linarith
  obtain ⟨h1, h2, h3⟩ := toEuler_gimbal_spec hπ hsig q hq hb
  refine ⟨h1, ?_, h3⟩
  rcases h2 with h2 | h2
  · exact Or.inl h2.2
  · exact Or.inr h2.2

end Cg.C07
