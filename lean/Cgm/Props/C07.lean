import Cgm.Props.C06
import Cgm.Lemmas.Atan2
import Cgm.Lemmas.Gimbal
/-!
# C07 — Euler angles mean intrinsic X-Y-Z everywhere and round-trip via quaternions
-/
set_option linter.unusedSectionVars false
namespace Cg.C07
open Cg Real

attribute [simp] M3.eulerSC M4.eulerSC Quat.eulerSC M3.ofEuler M4.ofEuler Quat.ofEuler

section algebraic
variable {F : Type} [Field F] [Transc F]
/-- Matrix3 / Matrix4 from Euler angles are `from_angle_x(x) * from_angle_y(y) * from_angle_z(z)` (Basis3 is not in this
statement: `basis3_ofEuler_eq_product`, `Props/C07c.lean`) -/
theorem ofEuler_eq_product (x y z : F) :
    M3.ofEuler x y z = M3.fromAngleX x * M3.fromAngleY y * M3.fromAngleZ z ∧
    M4.ofEuler x y z = M4.fromAngleX x * M4.fromAngleY y * M4.fromAngleZ z ∧
    M4.ofEuler x y z = (M3.ofEuler x y z).toM4 := by
  refine ⟨?_, ?_, ?_⟩ <;> (ext <;> simp <;> ring)
/-- the quaternion from Euler angles is the product of the three axis quaternions -/
theorem quat_ofEuler_eq_product [CharZero F] (x y z : F) :
    Quat.ofEuler x y z = Quat.fromAngleX x * Quat.fromAngleY y * Quat.fromAngleZ z := by
  ext <;> simp <;> ring
end algebraic

/-- over the reals the quaternion and the matrices built from the same Euler angles are the same
rotation -/
theorem quat_ofEuler_toM3 (x y z : ℝ) : (Quat.ofEuler x y z).toM3 = M3.ofEuler x y z := by
  have hu : ∀ (a : V3 ℝ) (θ : ℝ), a.magnitude2 = 1 →
      (Quat.fromAxisAngle a θ).toM3 = M3.fromAxisAngle a θ ∧ (Quat.fromAxisAngle a θ).magnitude2 = 1 := by
    intro a θ ha
    refine ⟨?_, (Cg.C06.quat_axisAngle_real a a θ ha).2⟩
    apply Cg.C05.M3.ext_of_mulVec
    intro v
    rw [Cg.C05.toM3_mulVec, (Cg.C06.quat_axisAngle_real a v θ ha).1, Cg.C06.m3_axisAngle_real]
  obtain ⟨ex, ux⟩ := hu V3.unitX x (by simp)
  obtain ⟨ey, uy⟩ := hu V3.unitY y (by simp)
  obtain ⟨ez, uz⟩ := hu V3.unitZ z (by simp)
  have ex' : (Quat.fromAngleX x).toM3 = M3.fromAngleX x := by
    rw [(Cg.C06.fromAngle_eq_axisAngle (F := ℝ) x).1]; exact ex
  have ey' : (Quat.fromAngleY y).toM3 = M3.fromAngleY y := by
    rw [(Cg.C06.fromAngle_eq_axisAngle (F := ℝ) y).2.1]; exact ey
  have ez' : (Quat.fromAngleZ z).toM3 = M3.fromAngleZ z := by
    rw [(Cg.C06.fromAngle_eq_axisAngle (F := ℝ) z).2.2]; exact ez
  have ux' : (Quat.fromAngleX x).magnitude2 = 1 := ux
  have uy' : (Quat.fromAngleY y).magnitude2 = 1 := uy
  have uz' : (Quat.fromAngleZ z).magnitude2 = 1 := uz
  have uxy : (Quat.fromAngleX x * Quat.fromAngleY y).magnitude2 = 1 := by
    rw [Cg.C04.magnitude2_mul, ux', uy', mul_one]
  rw [quat_ofEuler_eq_product, Cg.C05.toM3_mul _ _ uxy uz', Cg.C05.toM3_mul _ _ ux' uy', ex', ey', ez',
    (ofEuler_eq_product x y z).1]

/-! ## extraction: the main (non-gimbal) branch -/

/-- algebraic core of the rebuild: with `r² = 1 - t²`, `i r = 1`, `t = 2(xz + yw)` the Euler matrix
built from `(v i, u i)`, `(t, r)`, `(v' i, u' i)` is the matrix of the unit quaternion -/
theorem eulerSC_rebuild {K : Type} [CommRing K] (w x y z r i : K)
    (hg1 : w * w + (x * x + (y * y + z * z)) = 1)
    (hg2 : r * r = 1 - (2 * (x * z + y * w)) * (2 * (x * z + y * w))) (h3 : i * r = 1) :
    M3.eulerSC ((2 * (x * w - y * z)) * i) ((1 - 2 * (x * x + y * y)) * i) (2 * (x * z + y * w)) r
      ((2 * (z * w - x * y)) * i) ((1 - 2 * (y * y + z * z)) * i) = (Quat.mk ⟨x, y, z⟩ w).toM3 := by
  ext <;> simp
  · linear_combination (1 - 2 * (y * y + z * z)) * h3
  · linear_combination ((8*w*y^2*z + 8*x*y*z^2 + 4*x*y) * i^2) * hg1 + (-(2*w*z + 2*x*y) * i^2) * hg2 + ((2*w*z + 2*x*y) * (r*i+1)) * h3
  · linear_combination ((-8*w*y^3 - 8*x*y^2*z + 4*x*z) * i^2) * hg1 + (-(-2*w*y + 2*x*z) * i^2) * hg2 + ((-2*w*y + 2*x*z) * (r*i+1)) * h3
  · linear_combination (-(2 * (z * w - x * y))) * h3
  · linear_combination ((-8*w*x*y*z - 8*x^2*z^2 + 4*y^2) * i^2) * hg1 + (-(-2*x^2 - 2*z^2 + 1) * i^2) * hg2 + ((-2*x^2 - 2*z^2 + 1) * (r*i+1)) * h3
  · linear_combination ((8*w*x*y^2 + 8*x^2*y*z + 4*y*z) * i^2) * hg1 + (-(2*w*x + 2*y*z) * i^2) * hg2 + ((2*w*x + 2*y*z) * (r*i+1)) * h3
  · ring
  · linear_combination (-(2 * (x * w - y * z))) * h3
  · linear_combination (1 - 2 * (x * x + y * y)) * h3

/-- the Euler triple computed in the main branch -/
noncomputable def eulerMain (q : Quat ℝ) : ℝ × ℝ × ℝ :=
  (Complex.arg ⟨1 - 2 * (q.v.x * q.v.x + q.v.y * q.v.y), 2 * (-q.v.y * q.v.z + q.v.x * q.s)⟩,
   Real.arcsin (2 * (q.v.x * q.v.z + q.v.y * q.s)),
   Complex.arg ⟨1 - 2 * (q.v.y * q.v.y + q.v.z * q.v.z), 2 * (-q.v.x * q.v.y + q.v.z * q.s)⟩)

variable [Lits ℝ]
/-- outside the two gimbal cones the code computes `eulerMain` -/
theorem toEuler_main (q : Quat ℝ) (h : q.toEulerBranch = .main) : q.toEuler = eulerMain q := by
  unfold Quat.toEulerBranch at h
  unfold Quat.toEuler eulerMain
  simp only at h ⊢
  split_ifs at h with h1 h2
  simp only [h1, h2, if_false, two_eq, transc_atan2, transc_asin, Nat.cast_one]
/-- in the main branch the angles lie in the documented ranges and rebuild the rotation exactly -/
theorem euler_main_spec (q : Quat ℝ) (hq : q.magnitude2 = 1)
    (ht : |2 * (q.v.x * q.v.z + q.v.y * q.s)| < 1) :
    let e := eulerMain q
    (-π < e.1 ∧ e.1 ≤ π) ∧ (-(π / 2) ≤ e.2.1 ∧ e.2.1 ≤ π / 2) ∧ (-π < e.2.2 ∧ e.2.2 ≤ π) ∧
    M3.ofEuler e.1 e.2.1 e.2.2 = q.toM3 := by
  obtain ⟨⟨x, y, z⟩, w⟩ := q
  have hg1 : w * w + (x * x + (y * y + z * z)) = 1 := by simpa using hq
  simp only at ht
  set t := 2 * (x * z + y * w) with htdef
  obtain ⟨t1, t2⟩ := abs_lt.mp ht
  have hD : 0 < 1 - t * t := by nlinarith
  set r := Real.sqrt (1 - t * t) with hr
  have hr0 : 0 < r := Real.sqrt_pos.mpr hD
  have hg2 : r * r = 1 - t * t := Real.mul_self_sqrt hD.le
  have h3 : (1 / r) * r = 1 := by field_simp
  -- the two atan2 arguments have modulus r
  have m1 : (1 - 2 * (x * x + y * y)) * (1 - 2 * (x * x + y * y)) + (2 * (-y * z + x * w)) * (2 * (-y * z + x * w)) = 1 - t * t := by
    rw [htdef]; linear_combination (4 * x ^ 2 + 4 * y ^ 2) * hg1
  have m2 : (1 - 2 * (y * y + z * z)) * (1 - 2 * (y * y + z * z)) + (2 * (-x * y + z * w)) * (2 * (-x * y + z * w)) = 1 - t * t := by
    rw [htdef]; linear_combination (4 * y ^ 2 + 4 * z ^ 2) * hg1
  have ne1 : (1 - 2 * (x * x + y * y)) ≠ 0 ∨ (2 * (-y * z + x * w)) ≠ 0 := by
    by_contra hc; rw [not_or, not_not, not_not] at hc
    rw [hc.1, hc.2] at m1; linarith
  have ne2 : (1 - 2 * (y * y + z * z)) ≠ 0 ∨ (2 * (-x * y + z * w)) ≠ 0 := by
    by_contra hc; rw [not_or, not_not, not_not] at hc
    rw [hc.1, hc.2] at m2; linarith
  obtain ⟨c1, s1, lo1, hi1⟩ := atan2_spec _ _ ne1
  obtain ⟨c2, s2, lo2, hi2⟩ := atan2_spec _ _ ne2
  rw [m1, ← hr] at c1 s1
  rw [m2, ← hr] at c2 s2
  have hsin : Real.sin (Real.arcsin t) = t := Real.sin_arcsin t1.le t2.le
  have hcos : Real.cos (Real.arcsin t) = r := by rw [Real.cos_arcsin, hr]; congr 1; ring
  have hrne : r ≠ 0 := hr0.ne'
  have cx : Real.cos (Complex.arg ⟨1 - 2 * (x * x + y * y), 2 * (-y * z + x * w)⟩) = (1 - 2 * (x * x + y * y)) * (1 / r) := by
    rw [mul_one_div, eq_div_iff hrne]; linarith
  have sx : Real.sin (Complex.arg ⟨1 - 2 * (x * x + y * y), 2 * (-y * z + x * w)⟩) = (2 * (x * w - y * z)) * (1 / r) := by
    rw [mul_one_div, eq_div_iff hrne]; linarith
  have cz : Real.cos (Complex.arg ⟨1 - 2 * (y * y + z * z), 2 * (-x * y + z * w)⟩) = (1 - 2 * (y * y + z * z)) * (1 / r) := by
    rw [mul_one_div, eq_div_iff hrne]; linarith
  have sz : Real.sin (Complex.arg ⟨1 - 2 * (y * y + z * z), 2 * (-x * y + z * w)⟩) = (2 * (z * w - x * y)) * (1 / r) := by
    rw [mul_one_div, eq_div_iff hrne]; linarith
  refine ⟨⟨lo1, hi1⟩, ⟨Real.neg_pi_div_two_le_arcsin _, Real.arcsin_le_pi_div_two _⟩, ⟨lo2, hi2⟩, ?_⟩
  show M3.eulerSC _ _ _ _ _ _ = _
  simp only [eulerMain, transc_sin, transc_cos]
  rw [sx, cx, hsin, hcos, sz, cz]
  exact eulerSC_rebuild w x y z r (1 / r) hg1 (by rw [hg2]) h3

/-! ## the gimbal-lock cones -/
/-- inside the cones `x` is reported as `0` and `y` as `± a quarter turn` -/
theorem toEuler_gimbal (q : Quat ℝ) :
    (q.toEulerBranch = .pos → q.toEuler.1 = 0 ∧ q.toEuler.2.1 = (Lits.radFull : ℝ) / 4) ∧
    (q.toEulerBranch = .neg → q.toEuler.1 = 0 ∧ q.toEuler.2.1 = -((Lits.radFull : ℝ) / 4)) := by
  unfold Quat.toEulerBranch Quat.toEuler
  simp only
  constructor
  · intro h
    split_ifs at h with h1 h2
    simp [h1, Angle.turnDiv]
  · intro h
    split_ifs at h with h1 h2
    rw [neg_mul] at h2
    simp [h1, h2, Angle.turnDiv]
/-- the branch is decided by `sin y = 2(xz + yw)` against `±0.998` for a unit quaternion
(`sig = 0.499`) -/
theorem branch_iff (q : Quat ℝ) (hq : q.magnitude2 = 1) :
    (q.toEulerBranch = .main ↔ |2 * (q.v.x * q.v.z + q.v.y * q.s)| ≤ 2 * (Lits.sig : ℝ)) := by
  have hu : q.v.x * q.v.x + q.v.z * q.v.z + q.v.y * q.v.y + q.s * q.s = 1 := by
    have : q.s * q.s + (q.v.x * q.v.x + (q.v.y * q.v.y + q.v.z * q.v.z)) = 1 := by simpa using hq
    linarith
  unfold Quat.toEulerBranch
  simp only [hu, mul_one]
  rw [abs_le]
  split_ifs with h1 h2
  · simp; intro _; linarith
  · simp; intro h; linarith
  · simp; rw [not_lt] at h1 h2; constructor <;> linarith

/-! ## the 0.13 envelope inside the gimbal cones

The real-number core (`Cgm/Lemmas/Gimbal.lean`): with `(a, b) = (w ∓ y, x ∓ z)` the cone condition
`|xz + yw| > 0.499` is `a² + b² < 0.002`, and every element of "rebuilt − original" is
`2 k L + k' δ − r` with `|k|, |k'| ≤ 1`, `|L| ≤ √0.002`, `δ, |r| ≤ 0.002`, i.e. at most `0.094`. -/

/-- close `|g| ≤ 0.13` from a core bound `|d| ≤ 0.13` with `g = ± d` modulo the unit-norm equation `hq'` -/
local macro "gb" k:ident h:ident : tactic =>
  `(tactic| first
    | (refine le_of_eq_of_le (congrArg abs ?_) $k; first | ring1 | linear_combination $h:ident | linear_combination -$h:ident)
    | (rw [← abs_neg]; refine le_of_eq_of_le (congrArg abs ?_) $k;
       first | ring1 | linear_combination $h:ident | linear_combination -$h:ident))

theorem gimbal_pos_formula (q : Quat ℝ) (h : q.toEulerBranch = .pos) :
    q.toEuler = (0, (Lits.radFull : ℝ) / 4, Complex.arg ⟨q.s, q.v.x⟩ * 2) := by
  unfold Quat.toEulerBranch at h
  unfold Quat.toEuler
  simp only at h ⊢
  split_ifs at h with h1 h2
  simp [h1, Angle.turnDiv]

theorem gimbal_bound_pos (hπ : (Lits.radFull : ℝ) = 2 * π) (hsig : (Lits.sig : ℝ) = 0.499)
    (q : Quat ℝ) (hq : q.magnitude2 = 1) (hb : q.toEulerBranch = .pos) :
    ∀ c r : Fin 3, |(M3.ofEuler q.toEuler.1 q.toEuler.2.1 q.toEuler.2.2).toMatrix r c - q.toM3.toMatrix r c| ≤ 0.13 := by
  obtain ⟨⟨x, y, z⟩, w⟩ := q
  have hq' : w * w + (x * x + (y * y + z * z)) = 1 := by simpa using hq
  have ht : 0.499 < x * z + y * w := by
    unfold Quat.toEulerBranch at hb
    simp only at hb
    split_ifs at hb with h1 h2
    have hu : x * x + z * z + y * y + w * w = 1 := by linarith
    rw [hu, hsig] at h1
    linarith
  rw [gimbal_pos_formula _ hb]
  simp only
  have hne : w ≠ 0 ∨ x ≠ 0 := by
    by_contra hcon
    rw [not_or, not_not, not_not] at hcon
    obtain ⟨rfl, rfl⟩ := hcon
    norm_num at ht
  obtain ⟨hcw, hsx, -, -⟩ := atan2_spec x w hne
  have hnn : 0 ≤ w * w + x * x := by nlinarith [mul_self_nonneg w, mul_self_nonneg x]
  have hρ : Real.sqrt (w * w + x * x) * Real.sqrt (w * w + x * x) = w * w + x * x := Real.mul_self_sqrt hnn
  set φ := Complex.arg ⟨w, x⟩ with hφ
  set ρ := Real.sqrt (w * w + x * x) with hρdef
  have hs : Real.sin (φ * 2) * (w * w + x * x) = 2 * x * w := by
    rw [mul_comm φ 2, Real.sin_two_mul]
    linear_combination (-(2 * Real.sin φ * Real.cos φ)) * hρ + (2 * ρ * Real.sin φ) * hcw + (2 * w) * hsx
  have hc : Real.cos (φ * 2) * (w * w + x * x) = w * w - x * x := by
    rw [mul_comm φ 2, Real.cos_two_mul]
    linear_combination (-(2 * Real.cos φ * Real.cos φ)) * hρ + (2 * (ρ * Real.cos φ + w)) * hcw
  have hu : 2 * w * w + 2 * x * x - 2 * (w - y) * w - 2 * (x - z) * x + (w - y) * (w - y) + (x - z) * (x - z) = 1 := by
    linear_combination hq'
  have hd : (w - y) * (w - y) + (x - z) * (x - z) < 0.002 := by nlinarith
  obtain ⟨k00, k01, k02, k10, k11, k12, k20, k21, k22⟩ := Gimbal.core hu hd hs hc
  have hq4 : (2 * π / 4) = π / 2 := by ring
  intro c r
  fin_cases c <;> fin_cases r <;>
    simp [M3.toMatrix, hπ, hq4]
  · gb k00 hq'
  · gb k01 hq'
  · gb k02 hq'
  · gb k10 hq'
  · gb k11 hq'
  · gb k12 hq'
  · gb k20 hq'
  · gb k21 hq'
  · gb k22 hq'
theorem gimbal_neg_formula (q : Quat ℝ) (h : q.toEulerBranch = .neg) :
    q.toEuler = (0, -((Lits.radFull : ℝ) / 4), -Complex.arg ⟨q.s, q.v.x⟩ * 2) := by
  unfold Quat.toEulerBranch at h
  unfold Quat.toEuler
  simp only at h ⊢
  split_ifs at h with h1 h2
  rw [neg_mul] at h2
  simp [h1, h2, Angle.turnDiv]

theorem gimbal_bound_neg (hπ : (Lits.radFull : ℝ) = 2 * π) (hsig : (Lits.sig : ℝ) = 0.499)
    (q : Quat ℝ) (hq : q.magnitude2 = 1) (hb : q.toEulerBranch = .neg) :
    ∀ c r : Fin 3, |(M3.ofEuler q.toEuler.1 q.toEuler.2.1 q.toEuler.2.2).toMatrix r c - q.toM3.toMatrix r c| ≤ 0.13 := by
  obtain ⟨⟨x, y, z⟩, w⟩ := q
  have hq' : w * w + (x * x + (y * y + z * z)) = 1 := by simpa using hq
  have ht : x * z + y * w < -0.499 := by
    unfold Quat.toEulerBranch at hb
    simp only at hb
    split_ifs at hb with h1 h2
    have hu : x * x + z * z + y * y + w * w = 1 := by linarith
    rw [hu, hsig] at h2
    linarith
  rw [gimbal_neg_formula _ hb]
  simp only
  have hne : w ≠ 0 ∨ x ≠ 0 := by
    by_contra hcon
    rw [not_or, not_not, not_not] at hcon
    obtain ⟨rfl, rfl⟩ := hcon
    norm_num at ht
  obtain ⟨hcw, hsx, -, -⟩ := atan2_spec x w hne
  have hnn : 0 ≤ w * w + x * x := by nlinarith [mul_self_nonneg w, mul_self_nonneg x]
  have hρ : Real.sqrt (w * w + x * x) * Real.sqrt (w * w + x * x) = w * w + x * x := Real.mul_self_sqrt hnn
  set φ := Complex.arg ⟨w, x⟩ with hφ
  set ρ := Real.sqrt (w * w + x * x) with hρdef
  have hs : Real.sin (φ * 2) * (w * w + x * x) = 2 * x * w := by
    rw [mul_comm φ 2, Real.sin_two_mul]
    linear_combination (-(2 * Real.sin φ * Real.cos φ)) * hρ + (2 * ρ * Real.sin φ) * hcw + (2 * w) * hsx
  have hc : Real.cos (φ * 2) * (w * w + x * x) = w * w - x * x := by
    rw [mul_comm φ 2, Real.cos_two_mul]
    linear_combination (-(2 * Real.cos φ * Real.cos φ)) * hρ + (2 * (ρ * Real.cos φ + w)) * hcw
  have hu : 2 * w * w + 2 * x * x - 2 * (w + y) * w - 2 * (x + z) * x + (w + y) * (w + y) + (x + z) * (x + z) = 1 := by
    linear_combination hq'
  have hd : (w + y) * (w + y) + (x + z) * (x + z) < 0.002 := by nlinarith
  obtain ⟨k00, k01, k02, k10, k11, k12, k20, k21, k22⟩ := Gimbal.core hu hd hs hc
  have hq4 : (2 * π / 4) = π / 2 := by ring
  intro c r
  fin_cases c <;> fin_cases r <;>
    simp [M3.toMatrix, hπ, hq4]
  · gb k00 hq'
  · gb k01 hq'
  · gb k02 hq'
  · gb k10 hq'
  · gb k11 hq'
  · gb k12 hq'
  · gb k20 hq'
  · gb k21 hq'
  · gb k22 hq'

/-- **the 0.13 envelope of the property**: inside either gimbal cone, every element of the rotation
matrix rebuilt from the reported Euler angles is within 0.13 of the quaternion's matrix.
(`radFull = 2π` and `sig = 0.499` are what the `f64` literals denote; the statement is over ℝ.) -/
theorem gimbal_bound (hπ : (Lits.radFull : ℝ) = 2 * π) (hsig : (Lits.sig : ℝ) = 0.499)
    (q : Quat ℝ) (hq : q.magnitude2 = 1) (hb : q.toEulerBranch ≠ .main) :
    ∀ c r : Fin 3, |(M3.ofEuler q.toEuler.1 q.toEuler.2.1 q.toEuler.2.2).toMatrix r c - q.toM3.toMatrix r c| ≤ 0.13 := by
  cases hbr : q.toEulerBranch with
  | pos => exact gimbal_bound_pos hπ hsig q hq hbr
  | neg => exact gimbal_bound_neg hπ hsig q hq hbr
  | main => exact absurd hbr hb

/-- non-vacuity: a unit quaternion inside the positive cone (`2·(20/29)·(21/29) = 0.99881…`) -/
example (hsig : (Lits.sig : ℝ) = 0.499) :
    let q : Quat ℝ := ⟨⟨0, 21 / 29, 0⟩, 20 / 29⟩
    q.magnitude2 = 1 ∧ q.toEulerBranch = .pos := by
  refine ⟨by norm_num [Quat.magnitude2], ?_⟩
  unfold Quat.toEulerBranch
  simp only [hsig]
  norm_num

end Cg.C07
