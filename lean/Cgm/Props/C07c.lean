import Cgm.Props.C07b
import Cgm.Model.Rot2
/-!
# C07 (third part) — `Basis3::from(Euler)`

`Basis3.ofEuler` (`Cgm/Model/Rot2.lean`) is the code's `From<Euler<A>> for Basis3`
(src/rotation.rs:472-482): `Basis3 { mat: Matrix3::from(src) }`.

* `basis3_ofEuler_eq_product` : `= from_angle_x(x) * from_angle_y(y) * from_angle_z(z)` with the
  `Basis3` constructors and the `Basis3` product (every field with `sin`/`cos`, no trig laws).
* `basis3_ofEuler_agree`      : the same rotation as `Matrix3::from(Euler)`, `Matrix4::from(Euler)`
  and `Quaternion::from(Euler)`.
* `basis3_ofEuler_rotation`   : it is a rotation (orthonormal, determinant `+1`).
* `basis3_ofEuler_toEuler`, `m4_ofEuler_toEuler` : in the main branch the extracted angles rebuild
  `q`'s `Basis3` / `Matrix4` exactly; `basis3_gimbal_bound` : the 0.13 envelope for the `Basis3`.
* `quat_ofBasis3_ofEuler`     : `Quaternion::from(Basis3::from(Euler))` is `± Quaternion::from(Euler)`.
-/
set_option linter.unusedSectionVars false
namespace Cg.C07
open Cg Real

attribute [simp] Basis3.ofEuler

section algebraic
variable {F : Type} [Field F] [Transc F]

/-- `Basis3::from(Euler{x,y,z}) = from_angle_x(x) * from_angle_y(y) * from_angle_z(z)`, all four
in `Basis3` (the code builds each through the corresponding `Matrix3` function) -/
theorem basis3_ofEuler_eq_product (x y z : F) :
    Basis3.ofEuler x y z =
      ((Basis3.fromAngleX x).mul (Basis3.fromAngleY y)).mul (Basis3.fromAngleZ z) :=
  congrArg Basis3.mk (ofEuler_eq_product x y z).1

/-- … and as the product of the three axis-angle rotations about the unit axes -/
theorem basis3_ofEuler_eq_axisAngle_product (x y z : F) :
    Basis3.ofEuler x y z =
      ((Basis3.fromAxisAngle V3.unitX x).mul (Basis3.fromAxisAngle V3.unitY y)).mul
        (Basis3.fromAxisAngle V3.unitZ z) := by
  rw [basis3_ofEuler_eq_product]
  show Basis3.mk (M3.fromAngleX x * M3.fromAngleY y * M3.fromAngleZ z) =
    Basis3.mk (M3.fromAxisAngle V3.unitX x * M3.fromAxisAngle V3.unitY y * M3.fromAxisAngle V3.unitZ z)
  rw [(Cg.C06.fromAngle_eq_axisAngle x).1, (Cg.C06.fromAngle_eq_axisAngle y).2.1,
    (Cg.C06.fromAngle_eq_axisAngle z).2.2]

/-- agreement with the matrix versions (algebraic): the `Matrix3` inside is `Matrix3::from(Euler)`,
and `Matrix4::from(Euler)` is its homogeneous embedding, acting on directions like the `Basis3` -/
theorem basis3_ofEuler_matrix (x y z : F) (v : V3 F) :
    (Basis3.ofEuler x y z).toM3 = M3.ofEuler x y z ∧
    M4.ofEuler x y z = (Basis3.ofEuler x y z).mat.toM4 ∧
    (M4.ofEuler x y z).transformVector v = (Basis3.ofEuler x y z).rotateVector v := by
  refine ⟨rfl, (ofEuler_eq_product x y z).2.2, ?_⟩
  rw [(ofEuler_eq_product x y z).2.2]
  ext <;> simp [Basis3.rotateVector]
end algebraic

/-- over the reals: `Basis3::from(Euler)` is the `Basis3` of `Quaternion::from(Euler)`, and all four
representations rotate every vector the same way -/
theorem basis3_ofEuler_agree (x y z : ℝ) (v : V3 ℝ) :
    Basis3.ofEuler x y z = Basis3.fromQuaternion (Quat.ofEuler x y z) ∧
    (Basis3.ofEuler x y z).rotateVector v = M3.ofEuler x y z * v ∧
    (Basis3.ofEuler x y z).rotateVector v = (M4.ofEuler x y z).transformVector v ∧
    (Basis3.ofEuler x y z).rotateVector v = (Quat.ofEuler x y z).rotateVector v := by
  refine ⟨congrArg Basis3.mk (quat_ofEuler_toM3 x y z).symm, rfl,
    ((basis3_ofEuler_matrix x y z v).2.2).symm, ?_⟩
  show M3.ofEuler x y z * v = Quat.ofEuler x y z * v
  rw [← quat_ofEuler_toM3, Cg.C05.toM3_mulVec]

/-- `Basis3::from(Euler)` is a rotation: orthonormal with determinant `+1` -/
theorem basis3_ofEuler_rotation (x y z : ℝ) :
    (Basis3.ofEuler x y z).mat.transpose * (Basis3.ofEuler x y z).mat = M3.one ∧
    (Basis3.ofEuler x y z).mat * (Basis3.ofEuler x y z).mat.transpose = M3.one ∧
    (Basis3.ofEuler x y z).mat.det = 1 := by
  show (M3.ofEuler x y z).transpose * M3.ofEuler x y z = M3.one ∧
    M3.ofEuler x y z * (M3.ofEuler x y z).transpose = M3.one ∧ (M3.ofEuler x y z).det = 1
  rw [← quat_ofEuler_toM3]
  exact Cg.C05.toM3_orthonormal _ (quat_ofEuler_unit x y z)

/-- `Quaternion::from(Basis3::from(Euler))` returns `Quaternion::from(Euler)` up to sign -/
theorem quat_ofBasis3_ofEuler (x y z : ℝ) :
    Quat.ofBasis3 (Basis3.ofEuler x y z) = Quat.ofEuler x y z ∨
    Quat.ofBasis3 (Basis3.ofEuler x y z) = -Quat.ofEuler x y z := by
  show (M3.ofEuler x y z).toQuat = _ ∨ (M3.ofEuler x y z).toQuat = _
  rw [← quat_ofEuler_toM3]
  exact Cg.C05.toQuat_toM3 _ (quat_ofEuler_unit x y z)

variable [Lits ℝ]

/-- **rebuild, `Basis3`** (main branch, i.e. `|sin y| ≤ 0.998`): the Euler angles extracted from a
unit quaternion rebuild exactly the `Basis3` of `q` -/
theorem basis3_ofEuler_toEuler (hsig : (Lits.sig : ℝ) = 0.499) (q : Quat ℝ) (hq : q.magnitude2 = 1)
    (ht : |2 * (q.v.x * q.v.z + q.v.y * q.s)| ≤ 0.998) :
    Basis3.ofEuler q.toEuler.1 q.toEuler.2.1 q.toEuler.2.2 = Basis3.fromQuaternion q :=
  congrArg Basis3.mk (toEuler_main_spec' hsig q hq ht).2.2.2.2

/-- **rebuild, `Matrix4`** (main branch): the extracted angles rebuild `Matrix4::from(q)` exactly -/
theorem m4_ofEuler_toEuler (hsig : (Lits.sig : ℝ) = 0.499) (q : Quat ℝ) (hq : q.magnitude2 = 1)
    (ht : |2 * (q.v.x * q.v.z + q.v.y * q.s)| ≤ 0.998) :
    M4.ofEuler q.toEuler.1 q.toEuler.2.1 q.toEuler.2.2 = q.toM4 := by
  rw [(ofEuler_eq_product _ _ _).2.2, (toEuler_main_spec' hsig q hq ht).2.2.2.2,
    Cg.C05.toM4_eq_embed]

/-- **gimbal cone, `Basis3`**: every element of the `Basis3` rebuilt from the reported angles is
within 0.13 of the element of `q`'s `Basis3` -/
theorem basis3_gimbal_bound (hπ : (Lits.radFull : ℝ) = 2 * π) (hsig : (Lits.sig : ℝ) = 0.499)
    (q : Quat ℝ) (hq : q.magnitude2 = 1) (ht : 0.998 < |2 * (q.v.x * q.v.z + q.v.y * q.s)|) :
    ∀ c r : Fin 3,
      |(Basis3.ofEuler q.toEuler.1 q.toEuler.2.1 q.toEuler.2.2).mat.toMatrix r c
        - (Basis3.fromQuaternion q).mat.toMatrix r c| ≤ 0.13 :=
  (toEuler_gimbal_spec' hπ hsig q hq ht).2.2

/-- non-vacuity: a unit quaternion satisfying the main-branch hypothesis and one in the cone -/
example : (⟨⟨0, 3 / 5, 0⟩, 4 / 5⟩ : Quat ℝ).magnitude2 = 1 ∧
    |2 * ((0 : ℝ) * 0 + 3 / 5 * (4 / 5))| ≤ 0.998 := by
  refine ⟨by norm_num [Quat.magnitude2], ?_⟩
  norm_num [abs_le]
example : (⟨⟨0, 21 / 29, 0⟩, 20 / 29⟩ : Quat ℝ).magnitude2 = 1 ∧
    0.998 < |2 * ((0 : ℝ) * 0 + 21 / 29 * (20 / 29))| := by
  refine ⟨by norm_num [Quat.magnitude2], ?_⟩
  norm_num [lt_abs]

end Cg.C07
