import Cgm.Props.C16
import Cgm.Model.Book2
/-!
# C16 (second part) — layout and indexing for the remaining dimensions
`Vector1..3`, `Point1..3`, `Matrix2`, `Matrix3` (and the two-sided out-of-bounds statements for
`Vector4` / `Matrix4`): by-index reads see the list view, an index is out of bounds exactly when it
is `≥ n`, a store is visible at that index and only there, `swap_elements` exchanges exactly the two
positions, `map` / `zip` / `from_value` act component-wise in field order.
-/
set_option linter.unusedSectionVars false
set_option linter.unnecessarySeqFocus false
namespace Cg.C16
open Cg
variable {α β γ : Type}

/-! ## `V1` -/
theorem V1.index_spec (v : V1 α) (i : Nat) :
    v.get? i = v.toList[i]? ∧ (1 ≤ i → v.get? i = none) ∧ v.get? 0 = some v.x := by
  refine ⟨rfl, ?_, rfl⟩
  intro h; simp [V1.get?, V1.toList]; omega
/-- an index panics exactly when it is `≥ 1` -/
theorem V1.get?_eq_none_iff (v : V1 α) (i : Nat) : v.get? i = none ↔ 1 ≤ i := by
  simp [V1.get?, V1.toList] <;> omega
theorem V1.get?_isSome_iff (v : V1 α) (i : Nat) : (v.get? i).isSome = true ↔ i < 1 := by
  simp [V1.get?, V1.toList]
theorem V1.set?_eq_none_iff (v : V1 α) (i : Nat) (a : α) : v.set? i a = none ↔ 1 ≤ i := by
  rcases i with _ | i <;> simp [V1.set?]
/-- a write through the index view is visible through the field / list view, and only there -/
theorem V1.set_get (v : V1 α) (i j : Fin 1) (a : α) :
    (v.set? i a).bind (·.get? j) = if i = j then some a else v.get? j := by
  fin_cases i <;> fin_cases j <;> rfl
theorem V1.set_toList (v : V1 α) (i : Fin 1) (a : α) :
    (v.set? i a).map V1.toList = some (v.toList.set i a) := by
  fin_cases i <;> rfl
theorem V1.swapElements_spec (v : V1 α) (i j : Fin 1) :
    (v.swapElements? i j).map V1.toList = some (Cg.C02.swapList v.toList i j) := by
  fin_cases i <;> fin_cases j <;> rfl
/-- `swap_elements(i, j)` exchanges exactly positions `i` and `j`: position `k` afterwards holds what
position `swap i j k` held before -/
theorem V1.swapElements_get (v : V1 α) (i j k : Fin 1) :
    (v.swapElements? i j).bind (·.get? k) = v.get? (Equiv.swap i j k) := by
  fin_cases i <;> fin_cases j <;> fin_cases k <;> rfl
/-- `swap_elements` panics exactly when one of the indices is `≥ 1` -/
theorem V1.swapElements?_eq_none_iff (v : V1 α) (i j : Nat) :
    v.swapElements? i j = none ↔ 1 ≤ i ∨ 1 ≤ j := by
  rcases i with _ | i <;> rcases j with _ | j <;>
    simp [V1.swapElements?, V1.get?, V1.toList, V1.set?]
theorem V1.map_zip (f : α → β) (g : α → β → γ) (u : V1 α) (w : V1 β) (a : α) :
    (V1.map f u).toList = u.toList.map f ∧ (V1.zip g u w).toList = List.zipWith g u.toList w.toList ∧
    (V1.fromValue a).toList = List.replicate 1 a := ⟨rfl, rfl, rfl⟩
/-- component-wise, through the index view -/
theorem V1.map_get (f : α → β) (u : V1 α) (i : Nat) : (V1.map f u).get? i = (u.get? i).map f := by
  simp [V1.get?, V1.toList, V1.map]
  rcases i with _ | i <;> simp
theorem V1.zip_get (g : α → β → γ) (u : V1 α) (w : V1 β) (i : Fin 1) :
    (V1.zip g u w).get? i = (u.get? i).bind fun a => (w.get? i).map fun b => g a b := by
  fin_cases i <;> rfl

/-! ## `V2` -/
theorem V2.index_spec (v : V2 α) (i : Nat) :
    v.get? i = v.toList[i]? ∧ (2 ≤ i → v.get? i = none) ∧ v.get? 0 = some v.x ∧ v.get? 1 = some v.y := by
  refine ⟨rfl, ?_, rfl, rfl⟩
  intro h; simp [V2.get?, V2.toList]; omega
/-- an index panics exactly when it is `≥ 2` -/
theorem V2.get?_eq_none_iff (v : V2 α) (i : Nat) : v.get? i = none ↔ 2 ≤ i := by
  simp [V2.get?, V2.toList] <;> omega
theorem V2.get?_isSome_iff (v : V2 α) (i : Nat) : (v.get? i).isSome = true ↔ i < 2 := by
  simp [V2.get?, V2.toList]
theorem V2.set?_eq_none_iff (v : V2 α) (i : Nat) (a : α) : v.set? i a = none ↔ 2 ≤ i := by
  rcases i with _ | _ | i <;> simp [V2.set?]
/-- a write through the index view is visible through the field / list view, and only there -/
theorem V2.set_get (v : V2 α) (i j : Fin 2) (a : α) :
    (v.set? i a).bind (·.get? j) = if i = j then some a else v.get? j := by
  fin_cases i <;> fin_cases j <;> rfl
theorem V2.set_toList (v : V2 α) (i : Fin 2) (a : α) :
    (v.set? i a).map V2.toList = some (v.toList.set i a) := by
  fin_cases i <;> rfl
theorem V2.swapElements_spec (v : V2 α) (i j : Fin 2) :
    (v.swapElements? i j).map V2.toList = some (Cg.C02.swapList v.toList i j) := by
  fin_cases i <;> fin_cases j <;> rfl
/-- `swap_elements(i, j)` exchanges exactly positions `i` and `j`: position `k` afterwards holds what
position `swap i j k` held before -/
theorem V2.swapElements_get (v : V2 α) (i j k : Fin 2) :
    (v.swapElements? i j).bind (·.get? k) = v.get? (Equiv.swap i j k) := by
  fin_cases i <;> fin_cases j <;> fin_cases k <;> rfl
/-- `swap_elements` panics exactly when one of the indices is `≥ 2` -/
theorem V2.swapElements?_eq_none_iff (v : V2 α) (i j : Nat) :
    v.swapElements? i j = none ↔ 2 ≤ i ∨ 2 ≤ j := by
  rcases i with _ | _ | i <;> rcases j with _ | _ | j <;>
    simp [V2.swapElements?, V2.get?, V2.toList, V2.set?]
theorem V2.map_zip (f : α → β) (g : α → β → γ) (u : V2 α) (w : V2 β) (a : α) :
    (V2.map f u).toList = u.toList.map f ∧ (V2.zip g u w).toList = List.zipWith g u.toList w.toList ∧
    (V2.fromValue a).toList = List.replicate 2 a := ⟨rfl, rfl, rfl⟩
/-- component-wise, through the index view -/
theorem V2.map_get (f : α → β) (u : V2 α) (i : Nat) : (V2.map f u).get? i = (u.get? i).map f := by
  simp [V2.get?, V2.toList, V2.map]
  rcases i with _ | _ | i <;> simp
theorem V2.zip_get (g : α → β → γ) (u : V2 α) (w : V2 β) (i : Fin 2) :
    (V2.zip g u w).get? i = (u.get? i).bind fun a => (w.get? i).map fun b => g a b := by
  fin_cases i <;> rfl

/-! ## `V3` -/
theorem V3.index_spec (v : V3 α) (i : Nat) :
    v.get? i = v.toList[i]? ∧ (3 ≤ i → v.get? i = none) ∧ v.get? 0 = some v.x ∧ v.get? 1 = some v.y ∧ v.get? 2 = some v.z := by
  refine ⟨rfl, ?_, rfl, rfl, rfl⟩
  intro h; simp [V3.get?, V3.toList]; omega
/-- an index panics exactly when it is `≥ 3` -/
theorem V3.get?_eq_none_iff (v : V3 α) (i : Nat) : v.get? i = none ↔ 3 ≤ i := by
  simp [V3.get?, V3.toList]
theorem V3.get?_isSome_iff (v : V3 α) (i : Nat) : (v.get? i).isSome = true ↔ i < 3 := by
  simp [V3.get?, V3.toList]
theorem V3.set?_eq_none_iff (v : V3 α) (i : Nat) (a : α) : v.set? i a = none ↔ 3 ≤ i := by
  rcases i with _ | _ | _ | i <;> simp [V3.set?]
/-- a write through the index view is visible through the field / list view, and only there -/
theorem V3.set_get (v : V3 α) (i j : Fin 3) (a : α) :
    (v.set? i a).bind (·.get? j) = if i = j then some a else v.get? j := by
  fin_cases i <;> fin_cases j <;> rfl
theorem V3.set_toList (v : V3 α) (i : Fin 3) (a : α) :
    (v.set? i a).map V3.toList = some (v.toList.set i a) := by
  fin_cases i <;> rfl
theorem V3.swapElements_spec (v : V3 α) (i j : Fin 3) :
    (v.swapElements? i j).map V3.toList = some (Cg.C02.swapList v.toList i j) := by
  fin_cases i <;> fin_cases j <;> rfl
/-- `swap_elements(i, j)` exchanges exactly positions `i` and `j`: position `k` afterwards holds what
position `swap i j k` held before -/
theorem V3.swapElements_get (v : V3 α) (i j k : Fin 3) :
    (v.swapElements? i j).bind (·.get? k) = v.get? (Equiv.swap i j k) := by
  fin_cases i <;> fin_cases j <;> fin_cases k <;> rfl
/-- `swap_elements` panics exactly when one of the indices is `≥ 3` -/
theorem V3.swapElements?_eq_none_iff (v : V3 α) (i j : Nat) :
    v.swapElements? i j = none ↔ 3 ≤ i ∨ 3 ≤ j := by
  rcases i with _ | _ | _ | i <;> rcases j with _ | _ | _ | j <;>
    simp [V3.swapElements?, V3.get?, V3.toList, V3.set?]
theorem V3.map_zip (f : α → β) (g : α → β → γ) (u : V3 α) (w : V3 β) (a : α) :
    (V3.map f u).toList = u.toList.map f ∧ (V3.zip g u w).toList = List.zipWith g u.toList w.toList ∧
    (V3.fromValue a).toList = List.replicate 3 a := ⟨rfl, rfl, rfl⟩
/-- component-wise, through the index view -/
theorem V3.map_get (f : α → β) (u : V3 α) (i : Nat) : (V3.map f u).get? i = (u.get? i).map f := by
  simp [V3.get?, V3.toList, V3.map]
  rcases i with _ | _ | _ | i <;> simp
theorem V3.zip_get (g : α → β → γ) (u : V3 α) (w : V3 β) (i : Fin 3) :
    (V3.zip g u w).get? i = (u.get? i).bind fun a => (w.get? i).map fun b => g a b := by
  fin_cases i <;> rfl

/-! ## `V4` -/
/-- an index panics exactly when it is `≥ 4` -/
theorem V4.get?_eq_none_iff (v : V4 α) (i : Nat) : v.get? i = none ↔ 4 ≤ i := by
  simp [V4.get?, V4.toList]
theorem V4.get?_isSome_iff (v : V4 α) (i : Nat) : (v.get? i).isSome = true ↔ i < 4 := by
  simp [V4.get?, V4.toList]
theorem V4.set?_eq_none_iff (v : V4 α) (i : Nat) (a : α) : v.set? i a = none ↔ 4 ≤ i := by
  rcases i with _ | _ | _ | _ | i <;> simp [V4.set?]
/-- `swap_elements(i, j)` exchanges exactly positions `i` and `j`: position `k` afterwards holds what
position `swap i j k` held before -/
theorem V4.swapElements_get (v : V4 α) (i j k : Fin 4) :
    (v.swapElements? i j).bind (·.get? k) = v.get? (Equiv.swap i j k) := by
  fin_cases i <;> fin_cases j <;> fin_cases k <;> rfl
/-- `swap_elements` panics exactly when one of the indices is `≥ 4` -/
theorem V4.swapElements?_eq_none_iff (v : V4 α) (i j : Nat) :
    v.swapElements? i j = none ↔ 4 ≤ i ∨ 4 ≤ j := by
  rcases i with _ | _ | _ | _ | i <;> rcases j with _ | _ | _ | _ | j <;>
    simp [V4.swapElements?, V4.get?, V4.toList, V4.set?]

/-! ## `P1` -/
theorem P1.index_spec (v : P1 α) (i : Nat) :
    v.get? i = v.toList[i]? ∧ (1 ≤ i → v.get? i = none) ∧ v.get? 0 = some v.x := by
  refine ⟨rfl, ?_, rfl⟩
  intro h; simp [P1.get?, P1.toList]; omega
/-- an index panics exactly when it is `≥ 1` -/
theorem P1.get?_eq_none_iff (v : P1 α) (i : Nat) : v.get? i = none ↔ 1 ≤ i := by
  simp [P1.get?, P1.toList] <;> omega
theorem P1.get?_isSome_iff (v : P1 α) (i : Nat) : (v.get? i).isSome = true ↔ i < 1 := by
  simp [P1.get?, P1.toList]
theorem P1.set?_eq_none_iff (v : P1 α) (i : Nat) (a : α) : v.set? i a = none ↔ 1 ≤ i := by
  rcases i with _ | i <;> simp [P1.set?]
/-- a write through the index view is visible through the field / list view, and only there -/
theorem P1.set_get (v : P1 α) (i j : Fin 1) (a : α) :
    (v.set? i a).bind (·.get? j) = if i = j then some a else v.get? j := by
  fin_cases i <;> fin_cases j <;> rfl
theorem P1.set_toList (v : P1 α) (i : Fin 1) (a : α) :
    (v.set? i a).map P1.toList = some (v.toList.set i a) := by
  fin_cases i <;> rfl
theorem P1.swapElements_spec (v : P1 α) (i j : Fin 1) :
    (v.swapElements? i j).map P1.toList = some (Cg.C02.swapList v.toList i j) := by
  fin_cases i <;> fin_cases j <;> rfl
/-- `swap_elements(i, j)` exchanges exactly positions `i` and `j`: position `k` afterwards holds what
position `swap i j k` held before -/
theorem P1.swapElements_get (v : P1 α) (i j k : Fin 1) :
    (v.swapElements? i j).bind (·.get? k) = v.get? (Equiv.swap i j k) := by
  fin_cases i <;> fin_cases j <;> fin_cases k <;> rfl
/-- `swap_elements` panics exactly when one of the indices is `≥ 1` -/
theorem P1.swapElements?_eq_none_iff (v : P1 α) (i j : Nat) :
    v.swapElements? i j = none ↔ 1 ≤ i ∨ 1 ≤ j := by
  rcases i with _ | i <;> rcases j with _ | j <;>
    simp [P1.swapElements?, P1.get?, P1.toList, P1.set?]
theorem P1.map_zip (f : α → β) (g : α → β → γ) (u : P1 α) (w : P1 β) (a : α) :
    (P1.map f u).toList = u.toList.map f ∧ (P1.zip g u w).toList = List.zipWith g u.toList w.toList ∧
    (P1.fromValue a).toList = List.replicate 1 a := ⟨rfl, rfl, rfl⟩
/-- component-wise, through the index view -/
theorem P1.map_get (f : α → β) (u : P1 α) (i : Nat) : (P1.map f u).get? i = (u.get? i).map f := by
  simp [P1.get?, P1.toList, P1.map]
  rcases i with _ | i <;> simp
theorem P1.zip_get (g : α → β → γ) (u : P1 α) (w : P1 β) (i : Fin 1) :
    (P1.zip g u w).get? i = (u.get? i).bind fun a => (w.get? i).map fun b => g a b := by
  fin_cases i <;> rfl

/-! ## `P2` -/
theorem P2.index_spec (v : P2 α) (i : Nat) :
    v.get? i = v.toList[i]? ∧ (2 ≤ i → v.get? i = none) ∧ v.get? 0 = some v.x ∧ v.get? 1 = some v.y := by
  refine ⟨rfl, ?_, rfl, rfl⟩
  intro h; simp [P2.get?, P2.toList]; omega
/-- an index panics exactly when it is `≥ 2` -/
theorem P2.get?_eq_none_iff (v : P2 α) (i : Nat) : v.get? i = none ↔ 2 ≤ i := by
  simp [P2.get?, P2.toList] <;> omega
theorem P2.get?_isSome_iff (v : P2 α) (i : Nat) : (v.get? i).isSome = true ↔ i < 2 := by
  simp [P2.get?, P2.toList]
theorem P2.set?_eq_none_iff (v : P2 α) (i : Nat) (a : α) : v.set? i a = none ↔ 2 ≤ i := by
  rcases i with _ | _ | i <;> simp [P2.set?]
/-- a write through the index view is visible through the field / list view, and only there -/
theorem P2.set_get (v : P2 α) (i j : Fin 2) (a : α) :
    (v.set? i a).bind (·.get? j) = if i = j then some a else v.get? j := by
  fin_cases i <;> fin_cases j <;> rfl
theorem P2.set_toList (v : P2 α) (i : Fin 2) (a : α) :
    (v.set? i a).map P2.toList = some (v.toList.set i a) := by
  fin_cases i <;> rfl
theorem P2.swapElements_spec (v : P2 α) (i j : Fin 2) :
    (v.swapElements? i j).map P2.toList = some (Cg.C02.swapList v.toList i j) := by
  fin_cases i <;> fin_cases j <;> rfl
/-- `swap_elements(i, j)` exchanges exactly positions `i` and `j`: position `k` afterwards holds what
position `swap i j k` held before -/
theorem P2.swapElements_get (v : P2 α) (i j k : Fin 2) :
    (v.swapElements? i j).bind (·.get? k) = v.get? (Equiv.swap i j k) := by
  fin_cases i <;> fin_cases j <;> fin_cases k <;> rfl
/-- `swap_elements` panics exactly when one of the indices is `≥ 2` -/
theorem P2.swapElements?_eq_none_iff (v : P2 α) (i j : Nat) :
    v.swapElements? i j = none ↔ 2 ≤ i ∨ 2 ≤ j := by
  rcases i with _ | _ | i <;> rcases j with _ | _ | j <;>
    simp [P2.swapElements?, P2.get?, P2.toList, P2.set?]
theorem P2.map_zip (f : α → β) (g : α → β → γ) (u : P2 α) (w : P2 β) (a : α) :
    (P2.map f u).toList = u.toList.map f ∧ (P2.zip g u w).toList = List.zipWith g u.toList w.toList ∧
    (P2.fromValue a).toList = List.replicate 2 a := ⟨rfl, rfl, rfl⟩
/-- component-wise, through the index view -/
theorem P2.map_get (f : α → β) (u : P2 α) (i : Nat) : (P2.map f u).get? i = (u.get? i).map f := by
  simp [P2.get?, P2.toList, P2.map]
  rcases i with _ | _ | i <;> simp
theorem P2.zip_get (g : α → β → γ) (u : P2 α) (w : P2 β) (i : Fin 2) :
    (P2.zip g u w).get? i = (u.get? i).bind fun a => (w.get? i).map fun b => g a b := by
  fin_cases i <;> rfl

/-! ## `P3` -/
theorem P3.index_spec (v : P3 α) (i : Nat) :
    v.get? i = v.toList[i]? ∧ (3 ≤ i → v.get? i = none) ∧ v.get? 0 = some v.x ∧ v.get? 1 = some v.y ∧ v.get? 2 = some v.z := by
  refine ⟨rfl, ?_, rfl, rfl, rfl⟩
  intro h; simp [P3.get?, P3.toList]; omega
/-- an index panics exactly when it is `≥ 3` -/
theorem P3.get?_eq_none_iff (v : P3 α) (i : Nat) : v.get? i = none ↔ 3 ≤ i := by
  simp [P3.get?, P3.toList]
theorem P3.get?_isSome_iff (v : P3 α) (i : Nat) : (v.get? i).isSome = true ↔ i < 3 := by
  simp [P3.get?, P3.toList]
theorem P3.set?_eq_none_iff (v : P3 α) (i : Nat) (a : α) : v.set? i a = none ↔ 3 ≤ i := by
  rcases i with _ | _ | _ | i <;> simp [P3.set?]
/-- a write through the index view is visible through the field / list view, and only there -/
theorem P3.set_get (v : P3 α) (i j : Fin 3) (a : α) :
    (v.set? i a).bind (·.get? j) = if i = j then some a else v.get? j := by
  fin_cases i <;> fin_cases j <;> rfl
theorem P3.set_toList (v : P3 α) (i : Fin 3) (a : α) :
    (v.set? i a).map P3.toList = some (v.toList.set i a) := by
  fin_cases i <;> rfl
theorem P3.swapElements_spec (v : P3 α) (i j : Fin 3) :
    (v.swapElements? i j).map P3.toList = some (Cg.C02.swapList v.toList i j) := by
  fin_cases i <;> fin_cases j <;> rfl
/-- `swap_elements(i, j)` exchanges exactly positions `i` and `j`: position `k` afterwards holds what
position `swap i j k` held before -/
theorem P3.swapElements_get (v : P3 α) (i j k : Fin 3) :
    (v.swapElements? i j).bind (·.get? k) = v.get? (Equiv.swap i j k) := by
  fin_cases i <;> fin_cases j <;> fin_cases k <;> rfl
/-- `swap_elements` panics exactly when one of the indices is `≥ 3` -/
theorem P3.swapElements?_eq_none_iff (v : P3 α) (i j : Nat) :
    v.swapElements? i j = none ↔ 3 ≤ i ∨ 3 ≤ j := by
  rcases i with _ | _ | _ | i <;> rcases j with _ | _ | _ | j <;>
    simp [P3.swapElements?, P3.get?, P3.toList, P3.set?]
theorem P3.map_zip (f : α → β) (g : α → β → γ) (u : P3 α) (w : P3 β) (a : α) :
    (P3.map f u).toList = u.toList.map f ∧ (P3.zip g u w).toList = List.zipWith g u.toList w.toList ∧
    (P3.fromValue a).toList = List.replicate 3 a := ⟨rfl, rfl, rfl⟩
/-- component-wise, through the index view -/
theorem P3.map_get (f : α → β) (u : P3 α) (i : Nat) : (P3.map f u).get? i = (u.get? i).map f := by
  simp [P3.get?, P3.toList, P3.map]
  rcases i with _ | _ | _ | i <;> simp
theorem P3.zip_get (g : α → β → γ) (u : P3 α) (w : P3 β) (i : Fin 3) :
    (P3.zip g u w).get? i = (u.get? i).bind fun a => (w.get? i).map fun b => g a b := by
  fin_cases i <;> rfl

theorem V4.map_get (f : α → β) (u : V4 α) (i : Nat) : (V4.map f u).get? i = (u.get? i).map f := by
  simp [V4.get?, V4.toList, V4.map]
  rcases i with _ | _ | _ | _ | i <;> simp
theorem V4.zip_get (g : α → β → γ) (u : V4 α) (w : V4 β) (i : Fin 4) :
    (V4.zip g u w).get? i = (u.get? i).bind fun a => (w.get? i).map fun b => g a b := by
  fin_cases i <;> rfl

/-- arrays / tuples for the remaining types: field order `x, y, z` -/
def V1.ofList? : List α → Option (V1 α)
  | [a] => some ⟨a⟩
  | _ => none
def P1.ofList? : List α → Option (P1 α)
  | [a] => some ⟨a⟩
  | _ => none
def P2.ofList? : List α → Option (P2 α)
  | [a, b] => some ⟨a, b⟩
  | _ => none
def P3.ofList? : List α → Option (P3 α)
  | [a, b, c] => some ⟨a, b, c⟩
  | _ => none
theorem array_roundtrip' (v1 : V1 α) (p1 : P1 α) (p2 : P2 α) (p3 : P3 α) :
    V1.ofList? v1.toList = some v1 ∧ P1.ofList? p1.toList = some p1 ∧
    P2.ofList? p2.toList = some p2 ∧ P3.ofList? p3.toList = some p3 := ⟨rfl, rfl, rfl, rfl⟩
theorem toList_order' (v1 : V1 α) (v2 : V2 α) (p1 : P1 α) (p2 : P2 α) :
    v1.toList = [v1.x] ∧ v2.toList = [v2.x, v2.y] ∧ p1.toList = [p1.x] ∧ p2.toList = [p2.x, p2.y] :=
  ⟨rfl, rfl, rfl, rfl⟩
/-- point <-> vector conversions keep every component in order -/
theorem point_vec_views (p1 : P1 α) (p2 : P2 α) (p3 : P3 α) (v1 : V1 α) (v2 : V2 α) (v3 : V3 α) :
    p1.toVec.toList = p1.toList ∧ p2.toVec.toList = p2.toList ∧ p3.toVec.toList = p3.toList ∧
    (P1.fromVec v1).toList = v1.toList ∧ (P2.fromVec v2).toList = v2.toList ∧
    (P3.fromVec v3).toList = v3.toList := ⟨rfl, rfl, rfl, rfl, rfl, rfl⟩

/-! ## `M2`: nested, flat (column-major) and `m[c][r]` views agree -/
theorem M2.matrix_views (m : M2 α) (c r : Fin 2) :
    m.toList = m.x.toList ++ m.y.toList ∧
    m.get? c r = m.toList[2 * c.val + r.val]? ∧ m.col? c = m.cols[c.val]? := by
  refine ⟨rfl, ?_, rfl⟩
  fin_cases c <;> fin_cases r <;> rfl
theorem M2.matrix_set_flat (m : M2 α) (c r : Fin 2) (a : α) :
    (m.set? c r a).map M2.toList = some (m.toList.set (2 * c.val + r.val) a) := by
  fin_cases c <;> fin_cases r <;> rfl
/-- a store to `m[c][r]` is read back at `(c, r)` and nowhere else -/
theorem M2.set_get (m : M2 α) (c r c' r' : Fin 2) (a : α) :
    (m.set? c r a).bind (·.get? c' r') = if c = c' ∧ r = r' then some a else m.get? c' r' := by
  fin_cases c <;> fin_cases r <;> fin_cases c' <;> fin_cases r' <;> rfl
/-- a column store replaces exactly that column -/
theorem M2.setCol_cols (m : M2 α) (c : Fin 2) (v : V2 α) :
    (m.setCol? c v).map M2.cols = some (m.cols.set c v) := by
  fin_cases c <;> rfl
theorem M2.col?_eq_none_iff (m : M2 α) (c : Nat) : m.col? c = none ↔ 2 ≤ c := by
  simp [M2.col?, M2.cols] <;> omega
/-- `m[c][r]` panics exactly when the column or the row index is `≥ 2` -/
theorem M2.get?_eq_none_iff (m : M2 α) (c r : Nat) : m.get? c r = none ↔ 2 ≤ c ∨ 2 ≤ r := by
  rcases c with _ | _ | c <;>
    simp [M2.get?, M2.col?, M2.cols, V2.get?_eq_none_iff]
theorem M2.set?_eq_none_iff (m : M2 α) (c r : Nat) (a : α) :
    m.set? c r a = none ↔ 2 ≤ c ∨ 2 ≤ r := by
  rcases c with _ | _ | c <;> rcases r with _ | _ | r <;>
    simp [M2.set?, M2.col?, M2.cols, V2.set?, M2.setCol?]
/-- `row(r)` reads `m[0][r], m[1][r], ..`; the transpose exchanges the two indices -/
theorem M2.row_get (m : M2 α) (c r : Fin 2) :
    (m.row? r).bind (·.get? c) = m.get? c r ∧ m.transpose.get? c r = m.get? r c := by
  constructor <;> (fin_cases c <;> fin_cases r <;> rfl)

/-! ## `M3`: nested, flat (column-major) and `m[c][r]` views agree -/
theorem M3.matrix_views (m : M3 α) (c r : Fin 3) :
    m.toList = m.x.toList ++ m.y.toList ++ m.z.toList ∧
    m.get? c r = m.toList[3 * c.val + r.val]? ∧ m.col? c = m.cols[c.val]? := by
  refine ⟨rfl, ?_, rfl⟩
  fin_cases c <;> fin_cases r <;> rfl
theorem M3.matrix_set_flat (m : M3 α) (c r : Fin 3) (a : α) :
    (m.set? c r a).map M3.toList = some (m.toList.set (3 * c.val + r.val) a) := by
  fin_cases c <;> fin_cases r <;> rfl
/-- a store to `m[c][r]` is read back at `(c, r)` and nowhere else -/
theorem M3.set_get (m : M3 α) (c r c' r' : Fin 3) (a : α) :
    (m.set? c r a).bind (·.get? c' r') = if c = c' ∧ r = r' then some a else m.get? c' r' := by
  fin_cases c <;> fin_cases r <;> fin_cases c' <;> fin_cases r' <;> rfl
/-- a column store replaces exactly that column -/
theorem M3.setCol_cols (m : M3 α) (c : Fin 3) (v : V3 α) :
    (m.setCol? c v).map M3.cols = some (m.cols.set c v) := by
  fin_cases c <;> rfl
theorem M3.col?_eq_none_iff (m : M3 α) (c : Nat) : m.col? c = none ↔ 3 ≤ c := by
  simp [M3.col?, M3.cols]
/-- `m[c][r]` panics exactly when the column or the row index is `≥ 3` -/
theorem M3.get?_eq_none_iff (m : M3 α) (c r : Nat) : m.get? c r = none ↔ 3 ≤ c ∨ 3 ≤ r := by
  rcases c with _ | _ | _ | c <;>
    simp [M3.get?, M3.col?, M3.cols, V3.get?_eq_none_iff]
theorem M3.set?_eq_none_iff (m : M3 α) (c r : Nat) (a : α) :
    m.set? c r a = none ↔ 3 ≤ c ∨ 3 ≤ r := by
  rcases c with _ | _ | _ | c <;> rcases r with _ | _ | _ | r <;>
    simp [M3.set?, M3.col?, M3.cols, V3.set?, M3.setCol?]
/-- `row(r)` reads `m[0][r], m[1][r], ..`; the transpose exchanges the two indices -/
theorem M3.row_get (m : M3 α) (c r : Fin 3) :
    (m.row? r).bind (·.get? c) = m.get? c r ∧ m.transpose.get? c r = m.get? r c := by
  constructor <;> (fin_cases c <;> fin_cases r <;> rfl)

/-! ## `M4`: nested, flat (column-major) and `m[c][r]` views agree -/
/-- a store to `m[c][r]` is read back at `(c, r)` and nowhere else -/
theorem M4.set_get (m : M4 α) (c r c' r' : Fin 4) (a : α) :
    (m.set? c r a).bind (·.get? c' r') = if c = c' ∧ r = r' then some a else m.get? c' r' := by
  fin_cases c <;> fin_cases r <;> fin_cases c' <;> fin_cases r' <;> rfl
/-- a column store replaces exactly that column -/
theorem M4.setCol_cols (m : M4 α) (c : Fin 4) (v : V4 α) :
    (m.setCol? c v).map M4.cols = some (m.cols.set c v) := by
  fin_cases c <;> rfl
theorem M4.col?_eq_none_iff (m : M4 α) (c : Nat) : m.col? c = none ↔ 4 ≤ c := by
  simp [M4.col?, M4.cols]
/-- `m[c][r]` panics exactly when the column or the row index is `≥ 4` -/
theorem M4.get?_eq_none_iff (m : M4 α) (c r : Nat) : m.get? c r = none ↔ 4 ≤ c ∨ 4 ≤ r := by
  rcases c with _ | _ | _ | _ | c <;>
    simp [M4.get?, M4.col?, M4.cols, V4.get?_eq_none_iff]
theorem M4.set?_eq_none_iff (m : M4 α) (c r : Nat) (a : α) :
    m.set? c r a = none ↔ 4 ≤ c ∨ 4 ≤ r := by
  rcases c with _ | _ | _ | _ | c <;> rcases r with _ | _ | _ | _ | r <;>
    simp [M4.set?, M4.col?, M4.cols, V4.set?, M4.setCol?]
/-- `row(r)` reads `m[0][r], m[1][r], ..`; the transpose exchanges the two indices -/
theorem M4.row_get (m : M4 α) (c r : Fin 4) :
    (m.row? r).bind (·.get? c) = m.get? c r ∧ m.transpose.get? c r = m.get? r c := by
  constructor <;> (fin_cases c <;> fin_cases r <;> rfl)

end Cg.C16
