import Cgm.Lemmas.Tac
import Cgm.Model.Book
import Mathlib.Tactic.Tauto
/-!
# C20 — serialized values round-trip and keep their field structure
The derived `Serialize`/`Deserialize` impls are serde's derive contract (an external parameter,
tied by D on `serde_json::Value` trees).  The theorems concern the hand-written `Decomposed`
visitor, modelled as a fold over the key sequence.
-/
set_option linter.unusedSectionVars false
namespace Cg.C20
open Cg
variable {τ : Type}

/-- deserialising what the serialiser wrote returns the value -/
theorem de_ser (s r d : τ) : deDecomposed (serDecomposed s r d) = .ok (s, r, d) := rfl
/-- the three fields are accepted in any order -/
theorem de_any_order (s r d : τ) :
    deDecomposed [("scale", s), ("rot", r), ("disp", d)] = .ok (s, r, d) ∧
    deDecomposed [("scale", s), ("disp", d), ("rot", r)] = .ok (s, r, d) ∧
    deDecomposed [("rot", r), ("scale", s), ("disp", d)] = .ok (s, r, d) ∧
    deDecomposed [("rot", r), ("disp", d), ("scale", s)] = .ok (s, r, d) ∧
    deDecomposed [("disp", d), ("scale", s), ("rot", r)] = .ok (s, r, d) ∧
    deDecomposed [("disp", d), ("rot", r), ("scale", s)] = .ok (s, r, d) :=
  ⟨rfl, rfl, rfl, rfl, rfl, rfl⟩
/-- a missing field is an error, never a default -/
theorem de_missing (s r d : τ) :
    deDecomposed [("rot", r), ("disp", d)] = .error "missing field scale" ∧
    deDecomposed [("scale", s), ("disp", d)] = .error "missing field rot" ∧
    deDecomposed [("scale", s), ("rot", r)] = .error "missing field disp" ∧
    deDecomposed ([] : List (String × τ)) = .error "missing field scale" := ⟨rfl, rfl, rfl, rfl⟩
/-- more generally: if no entry carries a key, the result is an error -/
theorem go_slots (kvs : List (String × τ)) (s0 : DSlots τ) (s1 : DSlots τ)
    (h : deDecomposedGo kvs s0 = .ok s1) :
    (s1.scale.isSome ↔ s0.scale.isSome ∨ ∃ p ∈ kvs, p.1 = "scale") ∧
    (s1.rot.isSome ↔ s0.rot.isSome ∨ ∃ p ∈ kvs, p.1 = "rot") ∧
    (s1.disp.isSome ↔ s0.disp.isSome ∨ ∃ p ∈ kvs, p.1 = "disp") := by
  induction kvs generalizing s0 with
  | nil => simp [deDecomposedGo] at h; subst h; simp
  | cons p rest ih =>
    obtain ⟨k, v⟩ := p
    unfold deDecomposedGo at h
    split_ifs at h with h1 h2 h3
    · have := ih _ h; subst h1; simp at this ⊢; tauto
    · have := ih _ h; subst h2; simp at this ⊢
      have : ¬ ("rot" = "scale") := by decide
      tauto
    · have := ih _ h; subst h3; simp at this ⊢
      have a : ¬ ("disp" = "scale") := by decide
      have b : ¬ ("disp" = "rot") := by decide
      tauto
theorem de_missing_general (kvs : List (String × τ)) (name : String)
    (hn : name = "scale" ∨ name = "rot" ∨ name = "disp") (h : ∀ p ∈ kvs, p.1 ≠ name) :
    ∃ e, deDecomposed kvs = .error e := by
  unfold deDecomposed
  cases hg : deDecomposedGo kvs ⟨none, none, none⟩ with
  | error e => exact ⟨e, rfl⟩
  | ok s =>
    obtain ⟨a, b, c⟩ := go_slots kvs _ s hg
    simp at a b c
    rcases hn with rfl | rfl | rfl
    · have : s.scale = none := by
        cases hs : s.scale with
        | none => rfl
        | some x => exfalso; obtain ⟨y, hy⟩ := a.1 (by simp [hs]); exact h _ hy rfl
      simp [this]
    · have : s.rot = none := by
        cases hs : s.rot with
        | none => rfl
        | some x => exfalso; obtain ⟨y, hy⟩ := b.1 (by simp [hs]); exact h _ hy rfl
      rcases hsc : s.scale with _ | sc <;> simp [hsc, this]
    · have : s.disp = none := by
        cases hs : s.disp with
        | none => rfl
        | some x => exfalso; obtain ⟨y, hy⟩ := c.1 (by simp [hs]); exact h _ hy rfl
      rcases hsc : s.scale with _ | sc <;> rcases hro : s.rot with _ | ro <;> simp [hsc, hro, this]
/-- an unknown key anywhere in the sequence is an error -/
theorem go_unknown (kvs : List (String × τ)) (s0 : DSlots τ)
    (h : ∃ p ∈ kvs, p.1 ≠ "scale" ∧ p.1 ≠ "rot" ∧ p.1 ≠ "disp") :
    deDecomposedGo kvs s0 = .error "expected scale, rot or disp" := by
  induction kvs generalizing s0 with
  | nil => obtain ⟨p, hp, _⟩ := h; simp at hp
  | cons q rest ih =>
    obtain ⟨k, v⟩ := q
    obtain ⟨p, hp, h1, h2, h3⟩ := h
    unfold deDecomposedGo
    rcases List.mem_cons.mp hp with rfl | hrest
    · simp at h1 h2 h3; simp [h1, h2, h3]
    · split_ifs
      · exact ih _ ⟨p, hrest, h1, h2, h3⟩
      · exact ih _ ⟨p, hrest, h1, h2, h3⟩
      · exact ih _ ⟨p, hrest, h1, h2, h3⟩
      · rfl
theorem de_unknown (kvs : List (String × τ))
    (h : ∃ p ∈ kvs, p.1 ≠ "scale" ∧ p.1 ≠ "rot" ∧ p.1 ≠ "disp") :
    deDecomposed kvs = .error "expected scale, rot or disp" := by
  unfold deDecomposed; rw [go_unknown kvs _ h]
/-- duplicates: the last occurrence wins (the visitor overwrites its slot) -/
theorem de_duplicate (s s' r d : τ) :
    deDecomposed [("scale", s), ("rot", r), ("scale", s'), ("disp", d)] = .ok (s', r, d) := rfl

end Cg.C20
