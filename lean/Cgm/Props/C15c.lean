import Cgm.Props.C15b
import Cgm.Lemmas.RealApprox
import Cgm.Lemmas.RealInst2
/-!
# C15 (third part) — the tolerance / opposite-branch hypotheses of `C15b` discharged at the real
`approx` instance

`C15b` states the opposite-branch and tolerance theorems under hypotheses on the approximate comparison
(`UlpsLaw`, `h00`, `hz`) that were witnessed only by the zero-tolerance instance.  Here they are proved for
`instApproxReal` (`open scoped Cg.RealApprox`: `ulps_eq!(x, y)` is `|x-y| ≤ ε ∨ |x-y| ≤ 4 ε max|x||y|`,
`ε = 2⁻⁵²`), the literals are the real ones (`Lits ℝ` of `RealInst2`, full turn `2π`), and the instantiated
corollaries are stated.  For `from_arc` without fallback the ad-hoc `hz` is replaced by a side condition on
`src`; it is shown to be necessary (tiny `src`: both candidate axes vanish and the result is not unit).
-/
set_option linter.unusedSectionVars false
namespace Cg.C15
open Cg Real
open scoped Cg.RealApprox

/-! ## 1. the three hypotheses, at the real instance -/

theorem eps64_eq : eps64 = eps52R := by unfold eps64 eps52R; norm_num

/-- `UlpsLaw` holds (it is the definition of the real `ulps_eq!`) -/
theorem ulpsLaw_real : UlpsLaw := by
  intro x y h
  rw [real_ulpsEqD] at h
  rw [eps64_eq]
  rcases h with h | h
  · exact Or.inl h
  · right
    rw [show 4 * eps52R * max |x| |y| = max |x| |y| * eps52R * 4 by ring]; exact h

/-- `h00`: `ulps_eq!(0, 0)` -/
theorem ulps00_real : ulpsEqD (0 : ℝ) 0 = true :=
  (real_ulpsEqD_zero 0).2 (by rw [abs_zero]; exact eps52R_pos.le)

/-- reflexivity -/
theorem ulps_refl_real (x : ℝ) : ulpsEqD x x = true := realApproxLaws.ulpsEqD_refl x

/-- `hz` of `between_vectors`: only numbers `≤ ε < 1/2` test as zero -/
theorem ulpsZero_lt_half_real : ∀ x : ℝ, ulpsEqD x 0 = true → x < 1 / 2 := by
  intro x h
  have h1 := (real_ulpsEqD_zero x).1 h
  have h2 := le_abs_self x
  have h3 := eps52R_le
  have : (1e-6 : ℝ) < 1 / 2 := by norm_num
  linarith

/-- the component-wise zero test of a vector, at the real instance -/
theorem ulpsEqZero_real (v : V3 ℝ) :
    V3.ulpsEqZero v = true ↔ |v.x| ≤ eps52R ∧ |v.y| ≤ eps52R ∧ |v.z| ≤ eps52R := by
  simp only [V3.ulpsEqZero, Bool.and_eq_true, real_ulpsEqD_zero, and_assoc]

theorem sq_le_of_abs_le {x e : ℝ} (h : |x| ≤ e) : x * x ≤ e ^ 2 := by
  have := abs_le.mp h
  nlinarith

/-- a vector that tests as zero has squared length `≤ 3 ε²` -/
theorem ulpsEqZero_magnitude2_le (v : V3 ℝ) (h : V3.ulpsEqZero v = true) :
    v.magnitude2 ≤ 3 * eps52R ^ 2 := by
  obtain ⟨h1, h2, h3⟩ := (ulpsEqZero_real v).1 h
  have e : v.magnitude2 = v.x * v.x + (v.y * v.y + v.z * v.z) := by simp
  rw [e]
  linarith [sq_le_of_abs_le h1, sq_le_of_abs_le h2, sq_le_of_abs_le h3]

/-- `hz` of `from_arc` (`C15b.arcAxis_pos`, `fromArc_opposite_none'`) at the real instance is EXACTLY the
condition `6 ε² < |src|²` (`|src| > √6 ε ≈ 5.4e-16`) -/
theorem arc_hz_real_iff (src : V3 ℝ) :
    (∀ v : V3 ℝ, V3.ulpsEqZero v = true → v.magnitude2 < src.magnitude2 / 2) ↔
      6 * eps52R ^ 2 < src.magnitude2 := by
  constructor
  · intro h
    have hv : V3.ulpsEqZero (⟨eps52R, eps52R, eps52R⟩ : V3 ℝ) = true := by
      rw [ulpsEqZero_real]; simp [abs_of_pos eps52R_pos]
    have := h _ hv
    have e : (⟨eps52R, eps52R, eps52R⟩ : V3 ℝ).magnitude2 = 3 * eps52R ^ 2 := by simp; ring
    rw [e] at this
    linarith
  · intro h v hv
    have := ulpsEqZero_magnitude2_le v hv
    linarith

/-! ## 2. `between_vectors`: opposite branch and tolerance clause, instantiated -/

/-- `C15b.betweenVectors_opposite_unit` with no hypothesis on the comparison: on the opposite branch, for a
unit `a`, the result is the half turn about the unit axis `n ⟂ a` (`n` = normalised `a × x̂`, or `a × ŷ`),
a unit quaternion with zero scalar part sending `a` to `-a`; the same for `Basis3` -/
theorem betweenVectors_opposite_unit_real (a b : V3 ℝ) (ha : V3.dot a a = 1)
    (hbr : Quat.betweenVectorsBranch a b = .opposite) :
    let r := Quat.betweenVectors a b
    let n := (bvAxis a).normalize
    r = Quat.fromSv 0 n ∧ V3.dot n n = 1 ∧ V3.dot n a = 0 ∧
    r.magnitude2 = 1 ∧ r.s = 0 ∧ V3.dot r.v a = 0 ∧ r * a = -a ∧
    (Basis3.betweenVectors a b).rotateVector a = -a :=
  betweenVectors_opposite_unit a b ha hbr ulps00_real ulpsZero_lt_half_real

/-- for a unit `a` the two comparisons of `between_vectors(a, -a)` come out as (false, true) -/
theorem bv_neg_path_real (a : V3 ℝ) (ha : V3.dot a a = 1) :
    ulpsEqD (V3.dot a (-a)) 1 = false ∧
    ulpsEqD (V3.dot a (-a) / Transc.sqrt (a.magnitude2 * (-a).magnitude2)) (-1) = true := by
  have ha2 : a.magnitude2 = 1 := ha
  have e : V3.dot a (-a) = -1 := by
    have : V3.dot a (-a) = -V3.dot a a := by simp; ring
    rw [this, ha]
  have e2 : (-a).magnitude2 = 1 := by rw [← ha2]; simp
  have hf : ulpsEqD (-1 : ℝ) 1 = false := by
    rw [← Bool.not_eq_true, real_ulpsEqD]
    norm_num [eps52R]
  simp only [transc_sqrt, e, ha2, e2, one_mul, Real.sqrt_one, div_one, hf, ulps_refl_real, and_self]

/-- exactly opposite unit vectors DO take the opposite branch (at the real instance) -/
theorem betweenVectors_branch_neg_real (a : V3 ℝ) (ha : V3.dot a a = 1) :
    Quat.betweenVectorsBranch a (-a) = .opposite := by
  obtain ⟨h1, h2⟩ := bv_neg_path_real a ha
  unfold Quat.betweenVectorsBranch
  simp only [h1, h2]
  rfl

/-- exactly parallel unit vectors take the `same` branch -/
theorem betweenVectors_branch_self_real (a : V3 ℝ) (ha : V3.dot a a = 1) :
    Quat.betweenVectorsBranch a a = .same := by
  unfold Quat.betweenVectorsBranch
  simp only [ha, ulps_refl_real]
  rfl

/-- **exactly opposite unit vectors**, unconditional: `between_vectors(a, -a)` is a unit quaternion with
zero scalar part, axis `⟂ a`, and `r a = -a = b`; likewise `Basis3` -/
theorem betweenVectors_neg_real (a : V3 ℝ) (ha : V3.dot a a = 1) :
    let r := Quat.betweenVectors a (-a)
    r.magnitude2 = 1 ∧ r.s = 0 ∧ V3.dot r.v a = 0 ∧ V3.dot r.v r.v = 1 ∧ r * a = -a ∧
    (Basis3.betweenVectors a (-a)).rotateVector a = -a := by
  intro r
  obtain ⟨h0, h1, _, h3, h4, h5, h6, h7⟩ :=
    betweenVectors_opposite_unit_real a (-a) ha (betweenVectors_branch_neg_real a ha)
  refine ⟨h3, h4, h5, ?_, h6, h7⟩
  show V3.dot (Quat.betweenVectors a (-a)).v (Quat.betweenVectors a (-a)).v = 1
  rw [h0]; exact h1

/-- tolerance clause, parallel side, instantiated: unit vectors are treated as parallel only if their angle
is `< 1e-7` rad -/
theorem betweenVectors_same_angle_real (a b : V3 ℝ) (ha : V3.dot a a = 1) (hb : V3.dot b b = 1)
    (hbr : Quat.betweenVectorsBranch a b = .same) : V3.angle a b < 1e-7 :=
  betweenVectors_same_angle ulpsLaw_real a b ha hb hbr

/-- tolerance clause, antiparallel side, instantiated -/
theorem betweenVectors_opposite_angle_real (a b : V3 ℝ) (ha : V3.dot a a = 1) (hb : V3.dot b b = 1)
    (hbr : Quat.betweenVectorsBranch a b = .opposite) : π - 1e-7 < V3.angle a b :=
  betweenVectors_opposite_angle ulpsLaw_real a b ha hb hbr

/-- "exact outside the tolerance zone": unit vectors whose angle is at least `1e-7` rad away from `0` and
from `π` are rotated exactly, `r a = b`, by the rotation through their angle -/
theorem betweenVectors_exact_outside_real (a b : V3 ℝ) (ha : V3.dot a a = 1) (hb : V3.dot b b = 1)
    (h0 : 1e-7 ≤ V3.angle a b) (h1 : V3.angle a b ≤ π - 1e-7) :
    let r := Quat.betweenVectors a b
    r.magnitude2 = 1 ∧ r * a = b ∧ (Basis3.betweenVectors a b).rotateVector a = b ∧
    2 * Real.arccos r.s = V3.angle a b ∧ 0 < r.s ∧ V3.dot r.v a = 0 ∧ V3.dot r.v b = 0 := by
  have hbr : Quat.betweenVectorsBranch a b = .general := by
    cases h : Quat.betweenVectorsBranch a b
    · have := betweenVectors_same_angle_real a b ha hb h; linarith
    · have := betweenVectors_opposite_angle_real a b ha hb h; linarith
    · rfl
  exact betweenVectors_general_of_refl a b ha hb ulps_refl_real hbr

/-! ## 3. `from_arc`: tolerance clause and opposite branch, instantiated -/

/-- `C15b.fromArc_tolerance`, instantiated: for lengths `≥ 1e-3`, parallel treatment only below `1e-4` rad,
antiparallel treatment only within `1e-4` rad of a half turn -/
theorem fromArc_tolerance_real (src dst : V3 ℝ)
    (hs : 1e-6 ≤ src.magnitude2) (hd : 1e-6 ≤ dst.magnitude2) :
    (Quat.fromArcBranch src dst = .same → V3.angle src dst < 1e-4) ∧
    (Quat.fromArcBranch src dst = .opposite → π - 1e-4 < V3.angle src dst) :=
  fromArc_tolerance ulpsLaw_real src dst hs hd

/-- "exact outside the tolerance zone" for `from_arc` (lengths `≥ 1e-3`, any fallback) -/
theorem fromArc_exact_outside_real (src dst : V3 ℝ) (fb : Option (V3 ℝ))
    (hs : 1e-6 ≤ src.magnitude2) (hd : 1e-6 ≤ dst.magnitude2)
    (h0 : 1e-4 ≤ V3.angle src dst) (h1 : V3.angle src dst ≤ π - 1e-4) :
    let r := Quat.fromArc src dst fb
    r.magnitude2 = 1 ∧ r * (src * (1 / src.magnitude)) = dst * (1 / dst.magnitude) ∧ 0 < r.s ∧
    2 * Real.arccos r.s = V3.angle src dst := by
  obtain ⟨t1, t2⟩ := fromArc_tolerance_real src dst hs hd
  have hbr : Quat.fromArcBranch src dst = .general := by
    cases h : Quat.fromArcBranch src dst
    · have := t1 h; linarith
    · have := t2 h; linarith
    · rfl
  exact fromArc_general_of_refl src dst fb ulps_refl_real hbr
    (lt_of_lt_of_le (by norm_num) hs) (lt_of_lt_of_le (by norm_num) hd)

/-- `from_arc`, opposite branch, fallback axis given (unit, `⟂ src`): the half turn about it (the literal
hypothesis `radFull = 2π` is discharged by the real literals) -/
theorem fromArc_opposite_fallback_real (src dst f : V3 ℝ)
    (hbr : Quat.fromArcBranch src dst = .opposite)
    (hf : V3.dot f f = 1) (hfs : V3.dot f src = 0) :
    let r := Quat.fromArc src dst (some f)
    r = Quat.fromSv 0 f ∧ r.magnitude2 = 1 ∧ r * src = -src ∧
    r * (src * (1 / src.magnitude)) = -(src * (1 / src.magnitude)) :=
  fromArc_opposite_fallback lits_radFull src dst f hbr hf hfs

/-- the two candidate axes of `from_arc`, componentwise -/
theorem cross_unitX (s : V3 ℝ) : V3.cross V3.unitX s = ⟨0, -s.z, s.y⟩ := by
  ext <;> simp [V3.cross, V3.unitX]
theorem cross_unitY (s : V3 ℝ) : V3.cross V3.unitY s = ⟨s.z, 0, -s.x⟩ := by
  ext <;> simp [V3.cross, V3.unitY]

/-- **exact characterisation**: at the real instance the axis chosen by `from_arc` (no fallback) is the zero
vector precisely for `src = (0, y, 0)` with `|y| ≤ ε` (then `x̂ × src = (0, 0, y)` tests as zero and
`ŷ × src = 0`) -/
theorem arcAxis_pos_real_iff (src : V3 ℝ) :
    0 < (arcAxis src).magnitude2 ↔ ¬ (src.x = 0 ∧ src.z = 0 ∧ |src.y| ≤ eps52R) := by
  unfold arcAxis
  by_cases h : V3.ulpsEqZero (V3.cross V3.unitX src) = true
  · rw [if_pos h]
    rw [ulpsEqZero_real, cross_unitX] at h
    obtain ⟨-, h2, h3⟩ := h
    simp only at h2 h3
    rw [cross_unitY]
    have e : (⟨src.z, 0, -src.x⟩ : V3 ℝ).magnitude2 = src.z * src.z + src.x * src.x := by simp
    rw [e]
    constructor
    · rintro hp ⟨hx, hz, -⟩
      rw [hx, hz] at hp; simp at hp
    · intro hn
      by_contra hcon
      apply hn
      have hz : src.z = 0 := by nlinarith [mul_self_nonneg src.z, mul_self_nonneg src.x]
      have hx : src.x = 0 := by nlinarith [mul_self_nonneg src.z, mul_self_nonneg src.x]
      exact ⟨hx, hz, h3⟩
  · rw [if_neg h]
    rw [ulpsEqZero_real, cross_unitX] at h
    simp only [abs_zero, abs_neg] at h
    rw [cross_unitX]
    have e : (⟨0, -src.z, src.y⟩ : V3 ℝ).magnitude2 = src.z * src.z + src.y * src.y := by simp
    rw [e]
    constructor
    · rintro - ⟨-, hz, hy⟩
      apply h
      exact ⟨eps52R_pos.le, by rw [hz, abs_zero]; exact eps52R_pos.le, hy⟩
    · intro _
      by_contra hcon
      apply h
      have hz : src.z = 0 := by nlinarith [mul_self_nonneg src.z, mul_self_nonneg src.y]
      have hy : src.y = 0 := by nlinarith [mul_self_nonneg src.z, mul_self_nonneg src.y]
      exact ⟨eps52R_pos.le, by rw [hz, abs_zero]; exact eps52R_pos.le,
        by rw [hy, abs_zero]; exact eps52R_pos.le⟩

/-- the honest side condition in terms of the length of `src`: `ε² < |src|²`, i.e. `|src| > ε = 2⁻⁵²`.  The
constant `1` is sharp (`src = (0, ε, 0)` has `|src|² = ε²` and a vanishing axis, see
`arcAxis_zero_real`). (`C15b`'s `hz` amounts to the stronger `6 ε² < |src|²`, `arc_hz_real_iff`.) -/
theorem arcAxis_pos_real (src : V3 ℝ) (hs : eps52R ^ 2 < src.magnitude2) :
    0 < (arcAxis src).magnitude2 := by
  rw [arcAxis_pos_real_iff]
  rintro ⟨hx, hz, hy⟩
  have e : src.magnitude2 = src.x * src.x + (src.y * src.y + src.z * src.z) := by simp
  rw [e, hx, hz] at hs
  have := sq_le_of_abs_le hy
  linarith

/-- `from_arc(src, dst, None)` on the opposite branch, with the honest side condition: whenever `src` is not
of the form `(0, y, 0)` with `|y| ≤ ε` the result is the half turn about a unit axis `⟂ src`: a unit quaternion
with zero scalar part sending `src/|src|` to its negation -/
theorem fromArc_opposite_none_real' (src dst : V3 ℝ)
    (hbr : Quat.fromArcBranch src dst = .opposite)
    (hsrc : ¬ (src.x = 0 ∧ src.z = 0 ∧ |src.y| ≤ eps52R)) :
    let r := Quat.fromArc src dst none
    let n := (arcAxis src).normalize
    r = Quat.fromSv 0 n ∧ V3.dot n n = 1 ∧ V3.dot n src = 0 ∧
    r.magnitude2 = 1 ∧ r.s = 0 ∧ V3.dot r.v src = 0 ∧ r * src = -src ∧
    r * (src * (1 / src.magnitude)) = -(src * (1 / src.magnitude)) := by
  intro r n
  have hpos := (arcAxis_pos_real_iff src).2 hsrc
  obtain ⟨h0, h1, h2, h3⟩ := fromArc_opposite_none lits_radFull src dst hbr hpos
  obtain ⟨hu, hp⟩ := arcAxis_spec src hpos
  refine ⟨h0, hu, hp, h1, ?_, ?_, h2, h3⟩
  · show (Quat.fromArc src dst none).s = 0
    rw [h0]; rfl
  · show V3.dot (Quat.fromArc src dst none).v src = 0
    rw [h0]; exact hp

/-- the same under the length condition `|src| > ε` (this replaces `hz` of `C15b.fromArc_opposite_none'`) -/
theorem fromArc_opposite_none_real (src dst : V3 ℝ)
    (hbr : Quat.fromArcBranch src dst = .opposite) (hs : eps52R ^ 2 < src.magnitude2) :
    let r := Quat.fromArc src dst none
    r.magnitude2 = 1 ∧ r.s = 0 ∧ V3.dot r.v src = 0 ∧ V3.dot r.v r.v = 1 ∧
    r * (src * (1 / src.magnitude)) = -(src * (1 / src.magnitude)) := by
  intro r
  have hsrc : ¬ (src.x = 0 ∧ src.z = 0 ∧ |src.y| ≤ eps52R) :=
    (arcAxis_pos_real_iff src).1 (arcAxis_pos_real src hs)
  obtain ⟨h0, h1, _, h3, h4, h5, _, h7⟩ := fromArc_opposite_none_real' src dst hbr hsrc
  refine ⟨h3, h4, h5, ?_, h7⟩
  show V3.dot (Quat.fromArc src dst none).v (Quat.fromArc src dst none).v = 1
  rw [h0]; exact h1

/-! ## 4. the side condition is NECESSARY; exactly antiparallel inputs -/

/-- for `src = (0, y, 0)`, `|y| ≤ ε`, both candidate axes are rejected / vanish -/
theorem arcAxis_zero_real (src : V3 ℝ) (h : src.x = 0 ∧ src.z = 0 ∧ |src.y| ≤ eps52R) :
    arcAxis src = ⟨0, 0, 0⟩ := by
  obtain ⟨hx, hz, hy⟩ := h
  have ht : V3.ulpsEqZero (V3.cross V3.unitX src) = true := by
    rw [ulpsEqZero_real, cross_unitX]; simp [hz, hy, eps52R_pos.le]
  unfold arcAxis
  rw [if_pos ht, cross_unitY, hx, hz]; simp

/-- ... and then `from_arc(src, dst, None)` on the opposite branch "normalises" the zero vector: in the model
(`x / 0 = 0`) the result is the ZERO quaternion (in `f64`: NaN components) -- not a rotation.  So on the
opposite branch the result is a unit quaternion IF AND ONLY IF `src` is not of that form. -/
theorem fromArc_opposite_none_degenerate (src dst : V3 ℝ)
    (hbr : Quat.fromArcBranch src dst = .opposite)
    (h : src.x = 0 ∧ src.z = 0 ∧ |src.y| ≤ eps52R) :
    Quat.fromArc src dst none = Quat.fromSv 0 ⟨0, 0, 0⟩ ∧ (Quat.fromArc src dst none).magnitude2 = 0 := by
  have hr : Quat.fromArc src dst none = Quat.fromArc src dst (some (arcAxis src).normalize) := by
    unfold Quat.fromArc arcAxis; rfl
  have hang : (Lits.radFull : ℝ) / 2 * half = π / 2 := by rw [lits_radFull, half_eq]; ring
  have e : Quat.fromArc src dst none = Quat.fromSv 0 ⟨0, 0, 0⟩ := by
    rw [hr, (fromArc_branches src dst _).2.2 hbr _ rfl, arcAxis_zero_real src h]
    simp only [Quat.fromAxisAngle, hang, transc_sin, transc_cos, Real.sin_pi_div_two, Real.cos_pi_div_two]
    ext <;> simp [V3.normalize, V3.normalizeTo]
  refine ⟨e, ?_⟩
  rw [e]; simp

theorem fromArc_opposite_none_unit_iff_real (src dst : V3 ℝ)
    (hbr : Quat.fromArcBranch src dst = .opposite) :
    (Quat.fromArc src dst none).magnitude2 = 1 ↔ ¬ (src.x = 0 ∧ src.z = 0 ∧ |src.y| ≤ eps52R) := by
  constructor
  · intro h1 hdeg
    rw [(fromArc_opposite_none_degenerate src dst hbr hdeg).2] at h1
    norm_num at h1
  · intro h
    exact (fromArc_opposite_none_real' src dst hbr h).2.2.2.1

theorem sqrt_1em20 : Real.sqrt (1e-20 : ℝ) = 1e-10 := by
  rw [show (1e-20 : ℝ) = 1e-10 * 1e-10 by norm_num]; exact Real.sqrt_mul_self (by norm_num)

/-- **a concrete input violating the property text ("non-zero src of any length")**: `src = (0, 1e-20, 0)`,
`dst = (0, -1e10, 0)` are non-zero and exactly antiparallel, `from_arc` takes the opposite branch, both
candidate axes test as zero / vanish, and the result is not a unit quaternion (`f64`: NaN). -/
theorem fromArc_tiny_src_counterexample :
    let src : V3 ℝ := ⟨0, 1e-20, 0⟩; let dst : V3 ℝ := ⟨0, -1e10, 0⟩
    0 < src.magnitude2 ∧ 0 < dst.magnitude2 ∧ Quat.fromArcBranch src dst = .opposite ∧
    V3.ulpsEqZero (V3.cross V3.unitX src) = true ∧ V3.cross V3.unitY src = ⟨0, 0, 0⟩ ∧
    (Quat.fromArc src dst none).magnitude2 = 0 := by
  intro src dst
  have hm1 : src.magnitude2 = 1e-40 := by simp [src]; norm_num
  have hm2 : dst.magnitude2 = 1e20 := by simp [dst]; norm_num
  have hd : V3.dot src dst = -1e-10 := by simp [src, dst]; norm_num
  have hmm : Real.sqrt (src.magnitude2 * dst.magnitude2) = 1e-10 := by
    rw [hm1, hm2, show (1e-40 : ℝ) * 1e20 = 1e-20 by norm_num, sqrt_1em20]
  have hbr : Quat.fromArcBranch src dst = .opposite := by
    have hf : ulpsEqD (-1e-10 : ℝ) 1e-10 = false := by
      rw [← Bool.not_eq_true, real_ulpsEqD]
      norm_num [eps52R]
    unfold Quat.fromArcBranch
    simp only [transc_sqrt, hmm, hd, hf, ulps_refl_real]
    rfl
  have hdeg : src.x = 0 ∧ src.z = 0 ∧ |src.y| ≤ eps52R := by
    refine ⟨rfl, rfl, ?_⟩
    show |(1e-20 : ℝ)| ≤ eps52R
    rw [abs_of_pos (by norm_num)]; unfold eps52R; norm_num
  refine ⟨by rw [hm1]; norm_num, by rw [hm2]; norm_num, hbr, ?_, ?_,
    (fromArc_opposite_none_degenerate src dst hbr hdeg).2⟩
  · rw [ulpsEqZero_real, cross_unitX]
    exact ⟨by rw [abs_zero]; exact eps52R_pos.le,
      by show |(-(0 : ℝ))| ≤ eps52R; rw [neg_zero, abs_zero]; exact eps52R_pos.le, hdeg.2.2⟩
  · rw [cross_unitY]; simp [src]

/-- exactly antiparallel inputs `dst = -k src` (`k > 0`) with `2 |src||dst| = 2 k |src|² > ε`: the two comparisons
of `from_arc` come out as (false, true) ... -/
theorem arc_neg_path_real (src : V3 ℝ) (k : ℝ) (hk : 0 < k)
    (hlen : eps52R < 2 * k * src.magnitude2) :
    ulpsEqD (V3.dot src (src * (-k))) (Transc.sqrt (src.magnitude2 * (src * (-k)).magnitude2)) = false ∧
    ulpsEqD (V3.dot src (src * (-k))) (-Transc.sqrt (src.magnitude2 * (src * (-k)).magnitude2)) = true := by
  have hd : V3.dot src (src * (-k)) = -(k * src.magnitude2) := by simp; ring
  have hm : (src * (-k)).magnitude2 = k * k * src.magnitude2 := by simp; ring
  have hs0 : 0 ≤ src.magnitude2 := Cg.C11.V3.magnitude2_nonneg src
  have hmm : Real.sqrt (src.magnitude2 * (src * (-k)).magnitude2) = k * src.magnitude2 := by
    rw [hm, show src.magnitude2 * (k * k * src.magnitude2) = (k * src.magnitude2) * (k * src.magnitude2) by ring]
    exact Real.sqrt_mul_self (by positivity)
  set t := k * src.magnitude2 with ht
  have h2t : 2 * k * src.magnitude2 = 2 * t := by rw [ht]; ring
  rw [h2t] at hlen
  have ht0 : 0 < t := by linarith [eps52R_pos]
  have hf : ulpsEqD (-t) t = false := by
    rw [← Bool.not_eq_true, real_ulpsEqD]
    rw [show -t - t = -(2 * t) by ring, abs_neg, abs_of_pos (by linarith), abs_neg, max_self, abs_of_pos ht0]
    have h4 : eps52R * 4 < 1 := by unfold eps52R; norm_num
    rintro (h | h)
    · linarith
    · nlinarith
  simp only [transc_sqrt, hmm, hd, hf, ulps_refl_real, and_self]

/-- ... hence the opposite branch -/
theorem fromArc_branch_neg_real (src : V3 ℝ) (k : ℝ) (hk : 0 < k)
    (hlen : eps52R < 2 * k * src.magnitude2) :
    Quat.fromArcBranch src (src * (-k)) = .opposite := by
  obtain ⟨h1, h2⟩ := arc_neg_path_real src k hk hlen
  unfold Quat.fromArcBranch
  simp only [h1, h2]
  rfl

/-- ... whereas for SHORT exactly antiparallel inputs (`2 |src||dst| ≤ ε`, e.g. both of length `1e-8`) the
first comparison `ulps_eq!(dot, mag_avg)` succeeds on its absolute-difference clause and `from_arc` returns
the IDENTITY: a second way in which "non-zero vectors of any length" over-claims (the tolerance clause's
lengths `≥ 1e-3` exclude it, `fromArc_tolerance_real`) -/
theorem fromArc_short_neg_same_real (src : V3 ℝ) (k : ℝ) (hk : 0 < k)
    (hlen : 2 * k * src.magnitude2 ≤ eps52R) (fb : Option (V3 ℝ)) :
    Quat.fromArcBranch src (src * (-k)) = .same ∧ Quat.fromArc src (src * (-k)) fb = Quat.one := by
  have hd : V3.dot src (src * (-k)) = -(k * src.magnitude2) := by simp; ring
  have hm : (src * (-k)).magnitude2 = k * k * src.magnitude2 := by simp; ring
  have hs0 : 0 ≤ src.magnitude2 := Cg.C11.V3.magnitude2_nonneg src
  have hmm : Real.sqrt (src.magnitude2 * (src * (-k)).magnitude2) = k * src.magnitude2 := by
    rw [hm, show src.magnitude2 * (k * k * src.magnitude2) = (k * src.magnitude2) * (k * src.magnitude2) by ring]
    exact Real.sqrt_mul_self (by positivity)
  set t := k * src.magnitude2 with ht
  have ht0 : 0 ≤ t := by positivity
  have hf : ulpsEqD (-t) t = true := by
    rw [real_ulpsEqD]
    left
    rw [show -t - t = -(2 * t) by ring, abs_neg, abs_of_nonneg (by linarith)]
    linarith
  have hbr : Quat.fromArcBranch src (src * (-k)) = .same := by
    unfold Quat.fromArcBranch
    simp only [transc_sqrt, hmm, hd, hf]
    rfl
  exact ⟨hbr, (fromArc_branches _ _ fb).1 hbr⟩

example : let src : V3 ℝ := ⟨1e-8, 0, 0⟩
    0 < src.magnitude2 ∧ src * (-1 : ℝ) = ⟨-1e-8, 0, 0⟩ ∧ Quat.fromArc src (src * (-1 : ℝ)) none = Quat.one := by
  intro src
  have hm : src.magnitude2 = 1e-16 := by simp [src]; norm_num
  refine ⟨by rw [hm]; norm_num, by ext <;> simp [src], ?_⟩
  refine (fromArc_short_neg_same_real src 1 one_pos ?_ none).2
  rw [hm]; unfold eps52R; norm_num

/-- the direction of `-k src` (`k > 0`) is the negated direction of `src` -/
theorem neg_scale_direction (src : V3 ℝ) (k : ℝ) (hk : 0 < k) (hs0 : 0 < src.magnitude2) :
    (src * (-k)) * (1 / (src * (-k)).magnitude) = -(src * (1 / src.magnitude)) := by
  have hm0 : 0 < src.magnitude := by
    simp only [V3.magnitude, transc_sqrt]; exact Real.sqrt_pos.mpr hs0
  have hdm : (src * (-k)).magnitude = k * src.magnitude := by
    have hm : (src * (-k)).magnitude2 = (k * src.magnitude) * (k * src.magnitude) := by
      have := (Cg.C11.V3.magnitude_sq src).1
      have e : (src * (-k)).magnitude2 = k * k * src.magnitude2 := by simp; ring
      rw [e, ← this]; ring
    simp only [V3.magnitude, transc_sqrt] at hm ⊢
    rw [hm]; exact Real.sqrt_mul_self (by positivity)
  rw [hdm]
  ext <;> simp <;> field_simp

/-- **exactly antiparallel inputs of `from_arc`, unconditional form**: for `dst = -k src`, `k > 0`, with
`|src| > ε` and `2|src||dst| > ε`, `from_arc(src, dst, None)` is a unit quaternion with zero scalar part,
axis `⟂ src`, and sends `src/|src|` to `dst/|dst|` -/
theorem fromArc_neg_real (src : V3 ℝ) (k : ℝ) (hk : 0 < k)
    (hs : eps52R ^ 2 < src.magnitude2) (hlen : eps52R < 2 * k * src.magnitude2) :
    let dst := src * (-k)
    let r := Quat.fromArc src dst none
    r.magnitude2 = 1 ∧ r.s = 0 ∧ V3.dot r.v src = 0 ∧
    r * (src * (1 / src.magnitude)) = dst * (1 / dst.magnitude) := by
  intro dst r
  obtain ⟨h1, h2, h3, _, h5⟩ := fromArc_opposite_none_real src dst (fromArc_branch_neg_real src k hk hlen) hs
  refine ⟨h1, h2, h3, ?_⟩
  show Quat.fromArc src dst none * (src * (1 / src.magnitude)) = dst * (1 / dst.magnitude)
  have hs0 : 0 < src.magnitude2 := lt_trans (by have := eps52R_pos; positivity) hs
  rw [h5, neg_scale_direction src k hk hs0]

/-- non-vacuity of the opposite-branch hypotheses at the real instance -/
example : Quat.betweenVectorsBranch (⟨1, 0, 0⟩ : V3 ℝ) (-⟨1, 0, 0⟩) = .opposite :=
  betweenVectors_branch_neg_real _ (by simp)
example : let src : V3 ℝ := ⟨2, 0, 0⟩
    Quat.fromArcBranch src (src * (-3 : ℝ)) = .opposite ∧ eps52R ^ 2 < src.magnitude2 := by
  intro src
  have hm : src.magnitude2 = 4 := by simp [src]; norm_num
  have h1 : eps52R < 1 := by unfold eps52R; norm_num
  refine ⟨fromArc_branch_neg_real src 3 (by norm_num) (by rw [hm]; linarith), ?_⟩
  rw [hm]; nlinarith [eps52R_pos]

/-- the tolerance is genuinely non-zero at this instance (unlike `exactApprox` of `C15b`): two DIFFERENT unit
vectors, at angle `≈ 1.9e-9` rad, that `between_vectors` treats as parallel -/
example : let a : V3 ℝ := ⟨1, 0, 0⟩; let b : V3 ℝ := ⟨(2 ^ 60 - 1) / (2 ^ 60 + 1), 2 ^ 31 / (2 ^ 60 + 1), 0⟩
    V3.dot a a = 1 ∧ V3.dot b b = 1 ∧ a ≠ b ∧ Quat.betweenVectorsBranch a b = .same := by
  intro a b
  have hd : V3.dot a b = (2 ^ 60 - 1) / (2 ^ 60 + 1) := by simp [a, b]
  refine ⟨by simp [a], by simp [b]; norm_num, ?_, ?_⟩
  · intro h
    have := congrArg V3.y h
    simp only [a, b] at this
    norm_num at this
  · have ht : ulpsEqD (V3.dot a b) 1 = true := by
      rw [hd, real_ulpsEqD]; left
      rw [abs_le]; constructor <;> norm_num [eps52R]
    unfold Quat.betweenVectorsBranch
    simp only [ht]
    rfl

end Cg.C15
