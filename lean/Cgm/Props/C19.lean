import Cgm.Lemmas.Tac
import Cgm.Model.Book
/-!
# C19 — numeric cast of compound values is all-or-nothing and component-faithful
`f` is the scalar numeric cast (`NumCast::from`), an arbitrary partial function.
-/
set_option linter.unusedSectionVars false
namespace Cg.C19
open Cg
variable {α β : Type} (f : α → Option β)

theorem V1.cast_spec (v : V1 α) :
    (V1.cast f v = none ↔ f v.x = none) ∧ (∀ w, V1.cast f v = some w ↔ f v.x = some w.x) := by
  unfold V1.cast
  constructor
  · cases hx : f v.x <;> simp_all
  · intro w; cases hx : f v.x <;> simp_all
    constructor
    · intro h; rw [← h]
    · intro h; ext; exact h
theorem V2.cast_spec (v : V2 α) :
    (V2.cast f v = none ↔ f v.x = none ∨ f v.y = none) ∧
    (∀ w, V2.cast f v = some w ↔ f v.x = some w.x ∧ f v.y = some w.y) := by
  unfold V2.cast
  constructor
  · cases hx : f v.x <;> cases hy : f v.y <;> simp_all
  · intro w; cases hx : f v.x <;> cases hy : f v.y <;> simp_all
    constructor
    · intro h; rw [← h]; exact ⟨rfl, rfl⟩
    · intro ⟨h1, h2⟩; ext <;> assumption
theorem V3.cast_spec (v : V3 α) :
    (V3.cast f v = none ↔ f v.x = none ∨ f v.y = none ∨ f v.z = none) ∧
    (∀ w, V3.cast f v = some w ↔ f v.x = some w.x ∧ f v.y = some w.y ∧ f v.z = some w.z) := by
  unfold V3.cast
  constructor
  · cases hx : f v.x <;> cases hy : f v.y <;> cases hz : f v.z <;> simp_all
  · intro w; cases hx : f v.x <;> cases hy : f v.y <;> cases hz : f v.z <;> simp_all
    constructor
    · intro h; rw [← h]; exact ⟨rfl, rfl, rfl⟩
    · intro ⟨h1, h2, h3⟩; ext <;> assumption
theorem V4.cast_spec (v : V4 α) :
    (V4.cast f v = none ↔ f v.x = none ∨ f v.y = none ∨ f v.z = none ∨ f v.w = none) ∧
    (∀ w, V4.cast f v = some w ↔
      f v.x = some w.x ∧ f v.y = some w.y ∧ f v.z = some w.z ∧ f v.w = some w.w) := by
  unfold V4.cast
  constructor
  · cases hx : f v.x <;> cases hy : f v.y <;> cases hz : f v.z <;> cases hw : f v.w <;> simp_all
  · intro w; cases hx : f v.x <;> cases hy : f v.y <;> cases hz : f v.z <;> cases hw : f v.w <;> simp_all
    constructor
    · intro h; rw [← h]; exact ⟨rfl, rfl, rfl, rfl⟩
    · intro ⟨h1, h2, h3, h4⟩; ext <;> assumption

/-- points cast like their position vectors -/
theorem P3.cast_spec (p : P3 α) :
    (P3.cast f p = none ↔ f p.x = none ∨ f p.y = none ∨ f p.z = none) ∧
    (∀ w, P3.cast f p = some w ↔ f p.x = some w.x ∧ f p.y = some w.y ∧ f p.z = some w.z) := by
  obtain ⟨h1, h2⟩ := V3.cast_spec f ⟨p.x, p.y, p.z⟩
  unfold P3.cast
  constructor
  · rw [Option.map_eq_none_iff]; exact h1
  · intro w
    rw [Option.map_eq_some_iff]
    constructor
    · rintro ⟨v, hv, rfl⟩; exact (h2 v).1 hv
    · intro h; exact ⟨⟨w.x, w.y, w.z⟩, (h2 ⟨w.x, w.y, w.z⟩).2 h, rfl⟩
theorem P2.cast_spec (p : P2 α) :
    (P2.cast f p = none ↔ f p.x = none ∨ f p.y = none) ∧
    (∀ w, P2.cast f p = some w ↔ f p.x = some w.x ∧ f p.y = some w.y) := by
  obtain ⟨h1, h2⟩ := V2.cast_spec f ⟨p.x, p.y⟩
  unfold P2.cast
  constructor
  · rw [Option.map_eq_none_iff]; exact h1
  · intro w
    rw [Option.map_eq_some_iff]
    constructor
    · rintro ⟨v, hv, rfl⟩; exact (h2 v).1 hv
    · intro h; exact ⟨⟨w.x, w.y⟩, (h2 ⟨w.x, w.y⟩).2 h, rfl⟩
theorem P1.cast_spec (p : P1 α) :
    (P1.cast f p = none ↔ f p.x = none) ∧ (∀ w, P1.cast f p = some w ↔ f p.x = some w.x) := by
  obtain ⟨h1, h2⟩ := V1.cast_spec f ⟨p.x⟩
  unfold P1.cast
  constructor
  · rw [Option.map_eq_none_iff]; exact h1
  · intro w
    rw [Option.map_eq_some_iff]
    constructor
    · rintro ⟨v, hv, rfl⟩; exact (h2 v).1 hv
    · intro h; exact ⟨⟨w.x⟩, (h2 ⟨w.x⟩).2 h, rfl⟩

/-- matrices: `None` iff some column's cast is `None`, otherwise column-wise -/
theorem M2.cast_spec (m : M2 α) :
    (M2.cast f m = none ↔ V2.cast f m.x = none ∨ V2.cast f m.y = none) ∧
    (∀ w, M2.cast f m = some w ↔ V2.cast f m.x = some w.x ∧ V2.cast f m.y = some w.y) := by
  unfold M2.cast
  constructor
  · cases hx : V2.cast f m.x <;> cases hy : V2.cast f m.y <;> simp_all
  · intro w; cases hx : V2.cast f m.x <;> cases hy : V2.cast f m.y <;> simp_all
    constructor
    · intro h; rw [← h]; exact ⟨rfl, rfl⟩
    · intro ⟨h1, h2⟩; cases w; simp_all
theorem M3.cast_spec (m : M3 α) :
    (M3.cast f m = none ↔ V3.cast f m.x = none ∨ V3.cast f m.y = none ∨ V3.cast f m.z = none) ∧
    (∀ w, M3.cast f m = some w ↔
      V3.cast f m.x = some w.x ∧ V3.cast f m.y = some w.y ∧ V3.cast f m.z = some w.z) := by
  unfold M3.cast
  constructor
  · cases hx : V3.cast f m.x <;> cases hy : V3.cast f m.y <;> cases hz : V3.cast f m.z <;> simp_all
  · intro w; cases hx : V3.cast f m.x <;> cases hy : V3.cast f m.y <;> cases hz : V3.cast f m.z <;> simp_all
    constructor
    · intro h; rw [← h]; exact ⟨rfl, rfl, rfl⟩
    · intro ⟨h1, h2, h3⟩; cases w; simp_all
theorem M4.cast_spec (m : M4 α) :
    (M4.cast f m = none ↔
      V4.cast f m.x = none ∨ V4.cast f m.y = none ∨ V4.cast f m.z = none ∨ V4.cast f m.w = none) ∧
    (∀ w, M4.cast f m = some w ↔
      V4.cast f m.x = some w.x ∧ V4.cast f m.y = some w.y ∧ V4.cast f m.z = some w.z ∧
      V4.cast f m.w = some w.w) := by
  unfold M4.cast
  constructor
  · cases hx : V4.cast f m.x <;> cases hy : V4.cast f m.y <;> cases hz : V4.cast f m.z <;>
      cases hw : V4.cast f m.w <;> simp_all
  · intro w; cases hx : V4.cast f m.x <;> cases hy : V4.cast f m.y <;> cases hz : V4.cast f m.z <;>
      cases hw : V4.cast f m.w <;> simp_all
    constructor
    · intro h; rw [← h]; exact ⟨rfl, rfl, rfl, rfl⟩
    · intro ⟨h1, h2, h3, h4⟩; cases w; simp_all
/-- element-level reading for the 4x4 case: `None` iff one of the sixteen element casts fails -/
theorem M4.cast_none_iff_elem (m : M4 α) :
    M4.cast f m = none ↔ ∃ e ∈ m.toList, f e = none := by
  rw [(M4.cast_spec f m).1, (V4.cast_spec f m.x).1, (V4.cast_spec f m.y).1, (V4.cast_spec f m.z).1,
    (V4.cast_spec f m.w).1]
  simp only [M4.toList, V4.toList, List.cons_append, List.nil_append, List.mem_cons, List.not_mem_nil,
    or_false, exists_eq_or_imp, exists_eq_left]
  tauto
/-- quaternion -/
theorem Quat.cast_spec (q : Quat α) :
    (Quat.cast f q = none ↔ f q.s = none ∨ V3.cast f q.v = none) ∧
    (∀ w, Quat.cast f q = some w ↔ f q.s = some w.s ∧ V3.cast f q.v = some w.v) := by
  unfold Quat.cast
  constructor
  · cases hs : f q.s <;> cases hv : V3.cast f q.v <;> simp_all
  · intro w; cases hs : f q.s <;> cases hv : V3.cast f q.v <;> simp_all
    constructor
    · intro h; rw [← h]; exact ⟨rfl, rfl⟩
    · intro ⟨h1, h2⟩; cases w; simp_all

/-- non-vacuity: casting `(1, 300, 2)` with a cast that rejects values above 255 -/
example : V3.cast (fun n : Nat => if n ≤ 255 then some n else none) ⟨1, 300, 2⟩ = none ∧
    V3.cast (fun n : Nat => if n ≤ 255 then some n else none) ⟨1, 30, 2⟩ = some ⟨1, 30, 2⟩ := by
  decide

end Cg.C19
