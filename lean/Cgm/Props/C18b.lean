import Cgm.Props.C18
import Cgm.Model.Book2
/-!
# C18 (second part) — the predicates `is_zero`, `is_identity`, `is_invertible`,
`is_perpendicular`, `is_diagonal`, `is_symmetric` test exactly what they name, in every dimension;
reflexivity / symmetry of the compound relations for the remaining types.
`r` is the scalar relation with the tolerances already applied: any relation at all.
-/
set_option linter.unusedSectionVars false
namespace Cg.C18
open Cg
variable {α : Type} (r : α → α → Bool)

/-! ## `is_zero` of vectors: exact, every component -/
section exact
variable [OfNat α 0] [DecidableEq α]
theorem V1.isZero_iff (v : V1 α) : V1.isZero v = true ↔ v.x = 0 := by simp [V1.isZero]
theorem V2.isZero_iff (v : V2 α) : V2.isZero v = true ↔ v.x = 0 ∧ v.y = 0 := by simp [V2.isZero]
theorem V3.isZero_iff (v : V3 α) : V3.isZero v = true ↔ v.x = 0 ∧ v.y = 0 ∧ v.z = 0 := by
  simp [V3.isZero, and_assoc]
theorem V4.isZero_iff (v : V4 α) :
    V4.isZero v = true ↔ v.x = 0 ∧ v.y = 0 ∧ v.z = 0 ∧ v.w = 0 := by
  simp [V4.isZero, and_assoc]
/-- the same, against the constant `zero()` (the form of the source: `*self == zero()`) -/
theorem V1.isZero_iff_eq (v : V1 α) : V1.isZero v = true ↔ v = V1.zero := by
  rw [V1.isZero_iff, V1.ext_iff]; rfl
theorem V2.isZero_iff_eq (v : V2 α) : V2.isZero v = true ↔ v = V2.zero := by
  rw [V2.isZero_iff, V2.ext_iff]; rfl
theorem V3.isZero_iff_eq (v : V3 α) : V3.isZero v = true ↔ v = V3.zero := by
  rw [V3.isZero_iff, V3.ext_iff]; rfl
theorem V4.isZero_iff_eq (v : V4 α) : V4.isZero v = true ↔ v = V4.zero := by
  rw [V4.isZero_iff, V4.ext_iff]; rfl
/-- a single non-zero component makes the vector non-zero (no tolerance) -/
theorem V4.isZero_false_of_component (v : V4 α) (h : v.x ≠ 0 ∨ v.y ≠ 0 ∨ v.z ≠ 0 ∨ v.w ≠ 0) :
    V4.isZero v = false := by
  rcases h with h | h | h | h <;> simp [V4.isZero, h]
theorem V3.isZero_false_of_component (v : V3 α) (h : v.x ≠ 0 ∨ v.y ≠ 0 ∨ v.z ≠ 0) :
    V3.isZero v = false := by
  rcases h with h | h | h <;> simp [V3.isZero, h]
theorem V2.isZero_false_of_component (v : V2 α) (h : v.x ≠ 0 ∨ v.y ≠ 0) :
    V2.isZero v = false := by
  rcases h with h | h <;> simp [V2.isZero, h]
end exact

/-! ## `is_zero` of matrices / quaternions / angles: the scalar relation against `0`, every element -/
section zero
variable [OfNat α 0]
theorem M2.isZero_iff (m : M2 α) :
    M2.isZero r m = true ↔ ∀ c r' : Fin 2, (m.get? c r').map (fun e => r e 0) = some true := by
  constructor
  · intro h c r'
    simp only [M2.isZero, M2.relAll, V2.relAll, Bool.and_eq_true] at h
    fin_cases c <;> fin_cases r' <;>
      (simp [M2.get?, M2.col?, M2.cols, V2.get?, V2.toList]; tauto)
  · intro h
    have e00 := h 0 0; have e01 := h 0 1; have e10 := h 1 0; have e11 := h 1 1
    simp [M2.get?, M2.col?, M2.cols, V2.get?, V2.toList] at e00 e01 e10 e11
    simp only [M2.isZero, M2.relAll, V2.relAll, Bool.and_eq_true]
    exact ⟨⟨e00, e01⟩, e10, e11⟩
theorem M3.isZero_iff (m : M3 α) :
    M3.isZero r m = true ↔ ∀ c r' : Fin 3, (m.get? c r').map (fun e => r e 0) = some true := by
  constructor
  · intro h c r'
    simp only [M3.isZero, M3.relAll, V3.relAll, Bool.and_eq_true] at h
    fin_cases c <;> fin_cases r' <;>
      (simp [M3.get?, M3.col?, M3.cols, V3.get?, V3.toList]; tauto)
  · intro h
    have e00 := h 0 0; have e01 := h 0 1; have e02 := h 0 2
    have e10 := h 1 0; have e11 := h 1 1; have e12 := h 1 2
    have e20 := h 2 0; have e21 := h 2 1; have e22 := h 2 2
    simp [M3.get?, M3.col?, M3.cols, V3.get?, V3.toList] at e00 e01 e02 e10 e11 e12 e20 e21 e22
    simp only [M3.isZero, M3.relAll, V3.relAll, Bool.and_eq_true]
    exact ⟨⟨⟨⟨e00, e01⟩, e02⟩, ⟨e10, e11⟩, e12⟩, ⟨e20, e21⟩, e22⟩
theorem M4.isZero_iff (m : M4 α) :
    M4.isZero r m = true ↔ ∀ c r' : Fin 4, (m.get? c r').map (fun e => r e 0) = some true := by
  constructor
  · intro h c r'
    simp only [M4.isZero, M4.relAll, V4.relAll, Bool.and_eq_true] at h
    fin_cases c <;> fin_cases r' <;>
      (simp [M4.get?, M4.col?, M4.cols, V4.get?, V4.toList]; tauto)
  · intro h
    have e00 := h 0 0; have e01 := h 0 1; have e02 := h 0 2; have e03 := h 0 3
    have e10 := h 1 0; have e11 := h 1 1; have e12 := h 1 2; have e13 := h 1 3
    have e20 := h 2 0; have e21 := h 2 1; have e22 := h 2 2; have e23 := h 2 3
    have e30 := h 3 0; have e31 := h 3 1; have e32 := h 3 2; have e33 := h 3 3
    simp [M4.get?, M4.col?, M4.cols, V4.get?, V4.toList] at e00 e01 e02 e03 e10 e11 e12 e13 e20 e21 e22 e23 e30 e31 e32 e33
    simp only [M4.isZero, M4.relAll, V4.relAll, Bool.and_eq_true]
    tauto
/-- the same through the flat view: every one of the `n²` elements -/
theorem isZero_iff_flat (m2 : M2 α) (m3 : M3 α) (m4 : M4 α) :
    (M2.isZero r m2 = true ↔ ∀ e ∈ m2.toList, r e 0 = true) ∧
    (M3.isZero r m3 = true ↔ ∀ e ∈ m3.toList, r e 0 = true) ∧
    (M4.isZero r m4 = true ↔ ∀ e ∈ m4.toList, r e 0 = true) := by
  refine ⟨?_, ?_, ?_⟩
  · simp [M2.isZero, M2.relAll, V2.relAll, M2.toList, V2.toList, and_assoc]
  · simp [M3.isZero, M3.relAll, V3.relAll, M3.toList, V3.toList, and_assoc]
  · simp [M4.isZero, M4.relAll, V4.relAll, M4.toList, V4.toList, and_assoc]
theorem Quat.isZero_iff (q : Quat α) :
    Quat.isZero r q = true ↔
      r q.s 0 = true ∧ r q.v.x 0 = true ∧ r q.v.y 0 = true ∧ r q.v.z 0 = true := by
  simp [Quat.isZero, Quat.relAll, V3.relAll, Quat.zero, Quat.fromSv, V3.zero, V3.fromValue, and_assoc]
theorem angleIsZero_iff (a : α) : angleIsZero r a = true ↔ r a 0 = true := Iff.rfl
/-- one element beyond tolerance makes the matrix / quaternion non-zero -/
theorem M4.isZero_false_of_element (m : M4 α) (c r' : Fin 4)
    (h : (m.get? c r').map (fun e => r e 0) = some false) : M4.isZero r m = false := by
  by_contra hc
  have ht : M4.isZero r m = true := by simpa using hc
  have := (M4.isZero_iff r m).1 ht c r'
  rw [h] at this; simp at this
theorem Quat.isZero_false_of_component (q : Quat α)
    (h : r q.s 0 = false ∨ r q.v.x 0 = false ∨ r q.v.y 0 = false ∨ r q.v.z 0 = false) :
    Quat.isZero r q = false := by
  rcases h with h | h | h | h <;>
    simp [Quat.isZero, Quat.relAll, V3.relAll, Quat.zero, Quat.fromSv, V3.zero, V3.fromValue, h]
end zero

/-! ## `is_identity`: every element against the identity's element (`1` on, `0` off the diagonal) -/
section identity
variable [OfNat α 0] [OfNat α 1]
theorem M2.isIdentity_iff (m : M2 α) :
    M2.isIdentity r m = true ↔
      ∀ c r' : Fin 2, (m.get? c r').map (fun e => r e (if c = r' then 1 else 0)) = some true := by
  constructor
  · intro h c r'
    simp only [M2.isIdentity, M2.relAll, V2.relAll, Bool.and_eq_true] at h
    fin_cases c <;> fin_cases r' <;>
      (simp [M2.get?, M2.col?, M2.cols, V2.get?, V2.toList]; tauto)
  · intro h
    have e00 := h 0 0; have e01 := h 0 1; have e10 := h 1 0; have e11 := h 1 1
    simp [M2.get?, M2.col?, M2.cols, V2.get?, V2.toList] at e00 e01 e10 e11
    simp only [M2.isIdentity, M2.relAll, V2.relAll, Bool.and_eq_true]
    exact ⟨⟨e00, e01⟩, e10, e11⟩
theorem M3.isIdentity_iff (m : M3 α) :
    M3.isIdentity r m = true ↔
      ∀ c r' : Fin 3, (m.get? c r').map (fun e => r e (if c = r' then 1 else 0)) = some true := by
  constructor
  · intro h c r'
    simp only [M3.isIdentity, M3.relAll, V3.relAll, Bool.and_eq_true] at h
    fin_cases c <;> fin_cases r' <;>
      (simp [M3.get?, M3.col?, M3.cols, V3.get?, V3.toList]; tauto)
  · intro h
    have e00 := h 0 0; have e01 := h 0 1; have e02 := h 0 2
    have e10 := h 1 0; have e11 := h 1 1; have e12 := h 1 2
    have e20 := h 2 0; have e21 := h 2 1; have e22 := h 2 2
    simp [M3.get?, M3.col?, M3.cols, V3.get?, V3.toList] at e00 e01 e02 e10 e11 e12 e20 e21 e22
    simp only [M3.isIdentity, M3.relAll, V3.relAll, Bool.and_eq_true]
    exact ⟨⟨⟨⟨e00, e01⟩, e02⟩, ⟨e10, e11⟩, e12⟩, ⟨e20, e21⟩, e22⟩
theorem M4.isIdentity_iff (m : M4 α) :
    M4.isIdentity r m = true ↔
      ∀ c r' : Fin 4, (m.get? c r').map (fun e => r e (if c = r' then 1 else 0)) = some true := by
  constructor
  · intro h c r'
    simp only [M4.isIdentity, M4.relAll, V4.relAll, Bool.and_eq_true] at h
    fin_cases c <;> fin_cases r' <;>
      (simp [M4.get?, M4.col?, M4.cols, V4.get?, V4.toList]; tauto)
  · intro h
    have e00 := h 0 0; have e01 := h 0 1; have e02 := h 0 2; have e03 := h 0 3
    have e10 := h 1 0; have e11 := h 1 1; have e12 := h 1 2; have e13 := h 1 3
    have e20 := h 2 0; have e21 := h 2 1; have e22 := h 2 2; have e23 := h 2 3
    have e30 := h 3 0; have e31 := h 3 1; have e32 := h 3 2; have e33 := h 3 3
    simp [M4.get?, M4.col?, M4.cols, V4.get?, V4.toList] at e00 e01 e02 e03 e10 e11 e12 e13 e20 e21 e22 e23 e30 e31 e32 e33
    simp only [M4.isIdentity, M4.relAll, V4.relAll, Bool.and_eq_true]
    tauto
/-- `is_identity` is the compound relation against `one()`: all `n²` element pairs -/
theorem isIdentity_iff_flat (m2 : M2 α) (m3 : M3 α) (m4 : M4 α) :
    (M2.isIdentity r m2 = true ↔ ∀ p ∈ m2.toList.zip (M2.one : M2 α).toList, r p.1 p.2 = true) ∧
    (M3.isIdentity r m3 = true ↔ ∀ p ∈ m3.toList.zip (M3.one : M3 α).toList, r p.1 p.2 = true) ∧
    (M4.isIdentity r m4 = true ↔ ∀ p ∈ m4.toList.zip (M4.one : M4 α).toList, r p.1 p.2 = true) :=
  ⟨M2.relAll_iff r m2 M2.one, M3.relAll_iff r m3 M3.one, M4.relAll_iff r m4 M4.one⟩
/-- a reflexive scalar relation accepts the identity and the zero matrix / quaternion -/
theorem isIdentity_one (hr : ∀ x, r x x = true) :
    M2.isIdentity r (M2.one : M2 α) = true ∧ M3.isIdentity r (M3.one : M3 α) = true ∧
    M4.isIdentity r (M4.one : M4 α) = true := by
  simp [M2.isIdentity, M3.isIdentity, M4.isIdentity, M2.relAll, M3.relAll, M4.relAll,
    V2.relAll, V3.relAll, V4.relAll, hr]
theorem isZero_zero (hr : ∀ x, r x x = true) :
    M2.isZero r (M2.zero : M2 α) = true ∧ M3.isZero r (M3.zero : M3 α) = true ∧
    M4.isZero r (M4.zero : M4 α) = true ∧ Quat.isZero r (Quat.zero : Quat α) = true := by
  simp [M2.isZero, M3.isZero, M4.isZero, Quat.isZero, M2.relAll, M3.relAll, M4.relAll, Quat.relAll,
    V2.relAll, V3.relAll, V4.relAll, hr]
end identity

/-! ## `is_invertible`: the determinant is *not* related to `0`; `is_perpendicular`: the dot product is -/
theorem M2.isInvertible_iff [Sub α] [Mul α] [OfNat α 0] (m : M2 α) :
    M2.isInvertible r m = true ↔ r (m.x.x * m.y.y - m.y.x * m.x.y) 0 = false := by
  simp [M2.isInvertible, M2.det]
theorem M3.isInvertible_iff [Add α] [Sub α] [Mul α] [OfNat α 0] (m : M3 α) :
    M3.isInvertible r m = true ↔ r m.det 0 = false := by
  simp [M3.isInvertible]
theorem M4.isInvertible_iff [Add α] [Sub α] [Mul α] [OfNat α 0] (m : M4 α) :
    M4.isInvertible r m = true ↔ r m.det 0 = false := by
  simp [M4.isInvertible]
theorem M2.isInvertible_iff_det [Sub α] [Mul α] [OfNat α 0] (m : M2 α) :
    M2.isInvertible r m = true ↔ r m.det 0 = false := by
  simp [M2.isInvertible]
/-- with the exact test `r a b = decide (a = b)` (a tolerance-free relation), `is_invertible` agrees
with `invert` returning `Some` -/
theorem isInvertible_exact_iff_invert {F : Type} [Add F] [Sub F] [Mul F] [Div F] [Neg F]
    [OfNat F 0] [OfNat F 1] [DecidableEq F] (m2 : M2 F) (m3 : M3 F) (m4 : M4 F) :
    (M2.isInvertible (fun a b => decide (a = b)) m2 = true ↔ m2.invert ≠ none) ∧
    (M3.isInvertible (fun a b => decide (a = b)) m3 = true ↔ m3.invert ≠ none) ∧
    (M4.isInvertible (fun a b => decide (a = b)) m4 = true ↔ m4.invert ≠ none) := by
  refine ⟨?_, ?_, ?_⟩
  · unfold M2.isInvertible M2.invert; generalize m2.det = d; by_cases h : d = 0 <;> simp [h]
  · unfold M3.isInvertible M3.invert; generalize m3.det = d; by_cases h : d = 0 <;> simp [h]
  · unfold M4.isInvertible M4.invert; generalize m4.det = d; by_cases h : d = 0 <;> simp [h]

theorem V1.isPerpendicular_iff [Mul α] [OfNat α 0] (u v : V1 α) :
    V1.isPerpendicular r u v = true ↔ r (u.x * v.x) 0 = true := Iff.rfl
theorem V2.isPerpendicular_iff [Add α] [Mul α] [OfNat α 0] (u v : V2 α) :
    V2.isPerpendicular r u v = true ↔ r (u.x * v.x + u.y * v.y) 0 = true := Iff.rfl
theorem V3.isPerpendicular_iff [Add α] [Mul α] [OfNat α 0] (u v : V3 α) :
    V3.isPerpendicular r u v = true ↔ r (u.x * v.x + (u.y * v.y + u.z * v.z)) 0 = true := Iff.rfl
theorem V4.isPerpendicular_iff [Add α] [Mul α] [OfNat α 0] (u v : V4 α) :
    V4.isPerpendicular r u v = true ↔
      r (u.x * v.x + (u.y * v.y + (u.z * v.z + u.w * v.w))) 0 = true := Iff.rfl
theorem Quat.isPerpendicular_iff [Add α] [Mul α] [OfNat α 0] (p q : Quat α) :
    Quat.isPerpendicular r p q = true ↔
      r (p.s * q.s + (p.v.x * q.v.x + (p.v.y * q.v.y + p.v.z * q.v.z))) 0 = true := Iff.rfl
/-- in terms of the model's `dot` -/
theorem isPerpendicular_iff_dot [Add α] [Mul α] [OfNat α 0] (a1 b1 : V1 α) (a2 b2 : V2 α)
    (a3 b3 : V3 α) (a4 b4 : V4 α) (p q : Quat α) :
    (V1.isPerpendicular r a1 b1 = true ↔ r (V1.dot a1 b1) 0 = true) ∧
    (V2.isPerpendicular r a2 b2 = true ↔ r (V2.dot a2 b2) 0 = true) ∧
    (V3.isPerpendicular r a3 b3 = true ↔ r (V3.dot a3 b3) 0 = true) ∧
    (V4.isPerpendicular r a4 b4 = true ↔ r (V4.dot a4 b4) 0 = true) ∧
    (Quat.isPerpendicular r p q = true ↔ r (Quat.dot p q) 0 = true) :=
  ⟨Iff.rfl, Iff.rfl, Iff.rfl, Iff.rfl, Iff.rfl⟩

/-! ## `is_diagonal` / `is_symmetric`, dimensions 2 and 3 -/
theorem M2.isDiagonal_iff (z : α → Bool) (m : M2 α) :
    M2.isDiagonal z m = true ↔
      ∀ c r : Fin 2, c ≠ r → (m.get? c r).map z = some true := by
  constructor
  · intro h c r hcr
    simp only [M2.isDiagonal, Bool.and_eq_true] at h
    fin_cases c <;> fin_cases r <;> first | (exact absurd rfl hcr) | (simp [M2.get?, M2.col?, M2.cols, V2.get?, V2.toList]; tauto)
  · intro h
    have g := fun c r hcr => h c r hcr
    simp only [M2.isDiagonal, Bool.and_eq_true]
    have e01 := g 0 1 (by decide); have e10 := g 1 0 (by decide)
    simp [M2.get?, M2.col?, M2.cols, V2.get?, V2.toList] at e01 e10
    tauto
theorem M3.isDiagonal_iff (z : α → Bool) (m : M3 α) :
    M3.isDiagonal z m = true ↔
      ∀ c r : Fin 3, c ≠ r → (m.get? c r).map z = some true := by
  constructor
  · intro h c r hcr
    simp only [M3.isDiagonal, Bool.and_eq_true] at h
    fin_cases c <;> fin_cases r <;> first | (exact absurd rfl hcr) | (simp [M3.get?, M3.col?, M3.cols, V3.get?, V3.toList]; tauto)
  · intro h
    have g := fun c r hcr => h c r hcr
    simp only [M3.isDiagonal, Bool.and_eq_true]
    have e01 := g 0 1 (by decide); have e02 := g 0 2 (by decide)
    have e10 := g 1 0 (by decide); have e12 := g 1 2 (by decide)
    have e20 := g 2 0 (by decide); have e21 := g 2 1 (by decide)
    simp [M3.get?, M3.col?, M3.cols, V3.get?, V3.toList] at e01 e02 e10 e12 e20 e21
    tauto
theorem M2.isSymmetric_iff (m : M2 α) :
    M2.isSymmetric r m = true ↔
      ∀ c rr : Fin 2, c ≠ rr → ((m.get? c rr).bind fun a => (m.get? rr c).map fun b => r a b) = some true := by
  constructor
  · intro h c rr hcr
    simp only [M2.isSymmetric, Bool.and_eq_true] at h
    fin_cases c <;> fin_cases rr <;> first | (exact absurd rfl hcr) | (simp [M2.get?, M2.col?, M2.cols, V2.get?, V2.toList]; tauto)
  · intro h
    have g := fun c r hcr => h c r hcr
    simp only [M2.isSymmetric, Bool.and_eq_true]
    have e01 := g 0 1 (by decide); have e10 := g 1 0 (by decide)
    simp [M2.get?, M2.col?, M2.cols, V2.get?, V2.toList] at e01 e10
    tauto
theorem M3.isSymmetric_iff (m : M3 α) :
    M3.isSymmetric r m = true ↔
      ∀ c rr : Fin 3, c ≠ rr → ((m.get? c rr).bind fun a => (m.get? rr c).map fun b => r a b) = some true := by
  constructor
  · intro h c rr hcr
    simp only [M3.isSymmetric, Bool.and_eq_true] at h
    fin_cases c <;> fin_cases rr <;> first | (exact absurd rfl hcr) | (simp [M3.get?, M3.col?, M3.cols, V3.get?, V3.toList]; tauto)
  · intro h
    have g := fun c r hcr => h c r hcr
    simp only [M3.isSymmetric, Bool.and_eq_true]
    have e01 := g 0 1 (by decide); have e02 := g 0 2 (by decide)
    have e10 := g 1 0 (by decide); have e12 := g 1 2 (by decide)
    have e20 := g 2 0 (by decide); have e21 := g 2 1 (by decide)
    simp [M3.get?, M3.col?, M3.cols, V3.get?, V3.toList] at e01 e02 e10 e12 e20 e21
    tauto
/-- with a reflexive scalar relation (the diagonal pairs `r m[i][i] m[i][i]` are then true),
`is_symmetric` is `relAll` against the transpose -/
theorem isSymmetric_iff_transpose (hr : ∀ x, r x x = true) (m2 : M2 α) (m3 : M3 α) (m4 : M4 α) :
    M2.isSymmetric r m2 = M2.relAll r m2 m2.transpose ∧
    M3.isSymmetric r m3 = M3.relAll r m3 m3.transpose ∧
    M4.isSymmetric r m4 = M4.relAll r m4 m4.transpose := by
  refine ⟨?_, ?_, ?_⟩
  · simp [M2.isSymmetric, M2.relAll, V2.relAll, M2.transpose, M2.new, hr]
  · simp [M3.isSymmetric, M3.relAll, V3.relAll, M3.transpose, M3.new, hr, Bool.and_assoc]
  · simp [M4.isSymmetric, M4.relAll, V4.relAll, M4.transpose, M4.new, hr, Bool.and_assoc]

/-! ## reflexive / symmetric scalar relations give reflexive / symmetric compound relations:
the remaining types -/
theorem relAll_refl' (hr : ∀ x, r x x = true) (v1 : V1 α) (v2 : V2 α) (v3 : V3 α)
    (p1 : P1 α) (p2 : P2 α) (p3 : P3 α) (m2 : M2 α) (m3 : M3 α) (e : α × α × α)
    (b2 : Basis2 α) (b3 : Basis3 α) :
    V1.relAll r v1 v1 = true ∧ V2.relAll r v2 v2 = true ∧ V3.relAll r v3 v3 = true ∧
    P1.relAll r p1 p1 = true ∧ P2.relAll r p2 p2 = true ∧ P3.relAll r p3 p3 = true ∧
    M2.relAll r m2 m2 = true ∧ M3.relAll r m3 m3 = true ∧ eulerRelAll r e e = true ∧
    Basis2.relAll r b2 b2 = true ∧ Basis3.relAll r b3 b3 = true := by
  simp [V1.relAll, V2.relAll, V3.relAll, P1.relAll, P2.relAll, P3.relAll, M2.relAll, M3.relAll,
    eulerRelAll, Basis2.relAll, Basis3.relAll, hr]
theorem Decomposed.relAll_refl {R V : Type} (rr : R → R → Bool) (rv : V → V → Bool)
    (hr : ∀ x, r x x = true) (hrr : ∀ x, rr x x = true) (hrv : ∀ x, rv x x = true)
    (d : Decomposed R V α) : Decomposed.relAll r rr rv d d = true := by
  simp [Decomposed.relAll, hr, hrr, hrv]
theorem relAll_symm' (hs : ∀ x y, r x y = r y x) (u1 v1 : V1 α) (u2 v2 : V2 α) (u3 v3 : V3 α)
    (p1 q1 : P1 α) (p2 q2 : P2 α) (p3 q3 : P3 α) (m2 n2 : M2 α) (m3 n3 : M3 α) (e f : α × α × α)
    (b2 c2 : Basis2 α) (b3 c3 : Basis3 α) :
    V1.relAll r u1 v1 = V1.relAll r v1 u1 ∧ V2.relAll r u2 v2 = V2.relAll r v2 u2 ∧
    V3.relAll r u3 v3 = V3.relAll r v3 u3 ∧
    P1.relAll r p1 q1 = P1.relAll r q1 p1 ∧ P2.relAll r p2 q2 = P2.relAll r q2 p2 ∧
    P3.relAll r p3 q3 = P3.relAll r q3 p3 ∧
    M2.relAll r m2 n2 = M2.relAll r n2 m2 ∧ M3.relAll r m3 n3 = M3.relAll r n3 m3 ∧
    eulerRelAll r e f = eulerRelAll r f e ∧
    Basis2.relAll r b2 c2 = Basis2.relAll r c2 b2 ∧ Basis3.relAll r b3 c3 = Basis3.relAll r c3 b3 := by
  have h2 : ∀ a b : V2 α, V2.relAll r a b = V2.relAll r b a := by
    intro a b; simp only [V2.relAll]; rw [hs a.x, hs a.y]
  have h3 : ∀ a b : V3 α, V3.relAll r a b = V3.relAll r b a := by
    intro a b; simp only [V3.relAll]; rw [hs a.x, hs a.y, hs a.z]
  have hm2 : ∀ a b : M2 α, M2.relAll r a b = M2.relAll r b a := by
    intro a b; simp only [M2.relAll]; rw [h2 a.x, h2 a.y]
  have hm3 : ∀ a b : M3 α, M3.relAll r a b = M3.relAll r b a := by
    intro a b; simp only [M3.relAll]; rw [h3 a.x, h3 a.y, h3 a.z]
  refine ⟨?_, h2 _ _, h3 _ _, ?_, ?_, ?_, hm2 _ _, hm3 _ _, ?_, hm2 _ _, hm3 _ _⟩
  · simp only [V1.relAll]; rw [hs u1.x]
  · simp only [P1.relAll]; rw [hs p1.x]
  · simp only [P2.relAll]; rw [hs p2.x, hs p2.y]
  · simp only [P3.relAll]; rw [hs p3.x, hs p3.y, hs p3.z]
  · simp only [eulerRelAll]; rw [hs e.1, hs e.2.1, hs e.2.2]
theorem Decomposed.relAll_symm {R V : Type} (rr : R → R → Bool) (rv : V → V → Bool)
    (hs : ∀ x y, r x y = r y x) (hsr : ∀ x y, rr x y = rr y x) (hsv : ∀ x y, rv x y = rv y x)
    (a b : Decomposed R V α) : Decomposed.relAll r rr rv a b = Decomposed.relAll r rr rv b a := by
  simp only [Decomposed.relAll]; rw [hs a.scale, hsr a.rot, hsv a.disp]
/-- a single component beyond tolerance makes the compound values unequal: `Vector3`, `Vector2`, `Quaternion`, in bundled form (one
hypothesis per type, all three are needed to obtain the conjunction; the per-type statements, for every compound type, are
`V3.relAll_false_of_component` etc. in `Props/C18c.lean`) -/
theorem relAll_false_of_component (a3 b3 : V3 α) (a2 b2 : V2 α) (p q : Quat α)
    (h3 : r a3.x b3.x = false ∨ r a3.y b3.y = false ∨ r a3.z b3.z = false)
    (h2 : r a2.x b2.x = false ∨ r a2.y b2.y = false)
    (hq : r p.s q.s = false ∨ r p.v.x q.v.x = false ∨ r p.v.y q.v.y = false ∨ r p.v.z q.v.z = false) :
    V3.relAll r a3 b3 = false ∧ V2.relAll r a2 b2 = false ∧ Quat.relAll r p q = false := by
  refine ⟨?_, ?_, ?_⟩
  · rcases h3 with h | h | h <;> simp [V3.relAll, h]
  · rcases h2 with h | h <;> simp [V2.relAll, h]
  · rcases hq with h | h | h | h <;> simp [Quat.relAll, V3.relAll, h]

/-! ## non-vacuity: concrete values, exact relation on `Int` -/
example : V3.isZero (⟨0, 0, 0⟩ : V3 Int) = true ∧ V3.isZero (⟨0, 0, 1⟩ : V3 Int) = false := by decide
example : M2.isIdentity (fun a b : Int => decide (a = b)) (M2.new 1 0 0 1) = true ∧
    M2.isIdentity (fun a b : Int => decide (a = b)) (M2.new 1 0 1 1) = false := by decide
example : M2.isInvertible (fun a b : Int => decide (a = b)) (M2.new 1 2 3 4) = true ∧
    M2.isInvertible (fun a b : Int => decide (a = b)) (M2.new 1 2 2 4) = false := by decide
example : V2.isPerpendicular (fun a b : Int => decide (a = b)) ⟨1, 2⟩ ⟨-2, 1⟩ = true ∧
    V2.isPerpendicular (fun a b : Int => decide (a = b)) ⟨1, 2⟩ ⟨2, 1⟩ = false := by decide
example : M3.isZero (fun a b : Int => decide (a = b)) M3.zero = true ∧
    Quat.isZero (fun a b : Int => decide (a = b)) (Quat.new 0 0 1 0) = false := by decide

end Cg.C18
