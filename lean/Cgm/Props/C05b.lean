import Cgm.Props.C05
import Cgm.Props.C09
/-!
# C05 (continued) — rotation matrix → quaternion → rotation matrix, look-at corollary,
branch witnesses, `Quat.toM4`
-/
set_option linter.unusedSectionVars false
set_option linter.unusedVariables false
namespace Cg

/-- the component of a quaternion that `From<Matrix3> for Quaternion` computes first (as
`half * sqrt(..)`) in each of its four cases -/
def QBranch.pivot {α : Type} (b : QBranch) (q : Quat α) : α :=
  match b with
  | .trace => q.s
  | .xx => q.v.x
  | .yy => q.v.y
  | .zz => q.v.z

end Cg

namespace Cg.C05
open Cg

/-! ## entries of a rotation matrix -/

/-- `Rᵀ R = 1` and `det R = 1`, entry by entry: the six orthonormality equations of the columns
and the nine cofactor identities (`R` equals its cofactor matrix: each column is the cross product
of the other two) -/
theorem rot_entries {K : Type} [CommRing K] (R : M3 K)
    (hR : R.transpose * R = M3.one) (hdet : R.det = 1) :
    (R.x.x*R.x.x+R.x.y*R.x.y+R.x.z*R.x.z = 1 ∧ R.y.x*R.y.x+R.y.y*R.y.y+R.y.z*R.y.z = 1 ∧
     R.z.x*R.z.x+R.z.y*R.z.y+R.z.z*R.z.z = 1 ∧ R.x.x*R.y.x+R.x.y*R.y.y+R.x.z*R.y.z = 0 ∧
     R.x.x*R.z.x+R.x.y*R.z.y+R.x.z*R.z.z = 0 ∧ R.y.x*R.z.x+R.y.y*R.z.y+R.y.z*R.z.z = 0) ∧
    (R.y.y*R.z.z-R.y.z*R.z.y = R.x.x ∧ R.y.z*R.z.x-R.y.x*R.z.z = R.x.y ∧
     R.y.x*R.z.y-R.y.y*R.z.x = R.x.z ∧ R.z.y*R.x.z-R.z.z*R.x.y = R.y.x ∧
     R.z.z*R.x.x-R.z.x*R.x.z = R.y.y ∧ R.z.x*R.x.y-R.z.y*R.x.x = R.y.z ∧
     R.x.y*R.y.z-R.x.z*R.y.y = R.z.x ∧ R.x.z*R.y.x-R.x.x*R.y.z = R.z.y ∧
     R.x.x*R.y.y-R.x.y*R.y.x = R.z.z) := by
  obtain ⟨⟨a, b, c⟩, ⟨d, e, f⟩, ⟨g, h, i⟩⟩ := R
  simp [M3.ext_iff, V3.ext_iff] at hR
  simp at hdet
  obtain ⟨⟨o1, -, -⟩, ⟨o4, o2, -⟩, o5, o6, o3⟩ := hR
  have hd : a * (e * i - h * f) - d * (b * i - h * c) + g * (b * f - e * c) - 1 = 0 := by
    rw [hdet]; ring
  have o1' : a * a + (b * b + c * c) - 1 = 0 := by rw [o1]; ring
  have o2' : d * d + (e * e + f * f) - 1 = 0 := by rw [o2]; ring
  have o3' : g * g + (h * h + i * i) - 1 = 0 := by rw [o3]; ring
  refine ⟨⟨?_, ?_, ?_, ?_, ?_, ?_⟩, ?_, ?_, ?_, ?_, ?_, ?_, ?_, ?_, ?_⟩ <;> dsimp only
  · linear_combination o1
  · linear_combination o2
  · linear_combination o3
  · linear_combination o4
  · linear_combination o5
  · linear_combination o6
  · linear_combination a*hd - b*f*o5 + b*i*o4 + c*e*o5 - c*h*o4 - e*i*o1' + f*h*o1'
  · linear_combination a*f*o5 - a*i*o4 + b*hd - c*d*o5 + c*g*o4 + d*i*o1' - f*g*o1'
  · linear_combination -a*e*o5 + a*h*o4 + b*d*o5 - b*g*o4 + c*hd - d*h*o1' + e*g*o1'
  · linear_combination -b*f*o6 + b*i*o2' + c*e*o6 - c*h*o2' + d*hd - e*i*o4 + f*h*o4
  · linear_combination a*f*o6 - a*i*o2' - c*d*o6 + c*g*o2' + d*i*o4 + e*hd - f*g*o4
  · linear_combination -a*e*o6 + a*h*o2' + b*d*o6 - b*g*o2' - d*h*o4 + e*g*o4 + f*hd
  · linear_combination -b*f*o3' + b*i*o6 + c*e*o3' - c*h*o6 - e*i*o5 + f*h*o5 + g*hd
  · linear_combination a*f*o3' - a*i*o6 - c*d*o3' + c*g*o6 + d*i*o5 - f*g*o5 + h*hd
  · linear_combination -a*e*o3' + a*h*o6 + b*d*o3' - b*g*o6 - d*h*o5 + e*g*o5 + hd*i

/-! ## the common last step: `q = P·k` with `4 t k² = 1` -/

/-- if `P = (W, X, Y, Z)` satisfies the ten quadratic identities `|P|² = 4t`,
`2(Y²+Z²) = 4t(1 - m00)`, `2(XY+ZW) = 4t·m01`, … and `4 t k² = 1`, then `P·k` is a unit
quaternion whose matrix is `m` -/
theorem toM3_of_scaled (a b c d e f g h i W X Y Z t k : ℝ) (hk : 4 * t * (k * k) = 1)
    (hn : W*W+X*X+Y*Y+Z*Z = 4*t)
    (ha : 2*(Y*Y+Z*Z) = 4*t*(1-a)) (hb : 2*(X*Y+Z*W) = 4*t*b) (hc : 2*(X*Z-Y*W) = 4*t*c)
    (hd : 2*(X*Y-Z*W) = 4*t*d) (he : 2*(X*X+Z*Z) = 4*t*(1-e)) (hf : 2*(Y*Z+X*W) = 4*t*f)
    (hg : 2*(X*Z+Y*W) = 4*t*g) (hh : 2*(Y*Z-X*W) = 4*t*h) (hi : 2*(X*X+Y*Y) = 4*t*(1-i)) :
    (Quat.new (W * k) (X * k) (Y * k) (Z * k)).magnitude2 = 1 ∧
    (Quat.new (W * k) (X * k) (Y * k) (Z * k)).toM3 = ⟨⟨a, b, c⟩, ⟨d, e, f⟩, ⟨g, h, i⟩⟩ := by
  refine ⟨?_, ?_⟩
  · simp [Quat.new, Quat.fromSv, Quat.magnitude2, Quat.dot]
    linear_combination (k * k) * hn + hk
  · ext <;> simp [Quat.new, Quat.fromSv, Quat.toM3, M3.new]
    · linear_combination (-(k * k)) * ha + (-(1 - a)) * hk
    · linear_combination (k * k) * hb + (b) * hk
    · linear_combination (k * k) * hc + (c) * hk
    · linear_combination (k * k) * hd + (d) * hk
    · linear_combination (-(k * k)) * he + (-(1 - e)) * hk
    · linear_combination (k * k) * hf + (f) * hk
    · linear_combination (k * k) * hg + (g) * hk
    · linear_combination (k * k) * hh + (h) * hk
    · linear_combination (-(k * k)) * hi + (-(1 - i)) * hk

/-- `k = (1/2)/√t` has `4 t k² = 1`, and the pivot component `(1/2)·√t` is `t·k` -/
theorem pivot_scale (t : ℝ) (ht : 0 < t) :
    4 * t * ((1 / 2 / Real.sqrt t) * (1 / 2 / Real.sqrt t)) = 1 ∧
    1 / 2 * Real.sqrt t = t * (1 / 2 / Real.sqrt t) := by
  have hs : 0 < Real.sqrt t := Real.sqrt_pos.mpr ht
  have hss : Real.sqrt t * Real.sqrt t = t := Real.mul_self_sqrt ht.le
  refine ⟨?_, ?_⟩
  · field_simp; nlinarith
  · field_simp; nlinarith

/-! ## the forty identities (coefficients found with a computer algebra system) -/

/-- the ten polynomial identities of pivot case 0 (`P = 4·pivot·q`) -/
theorem rot_ids0 (a b c d e f g h i : ℝ)
    (o1 : a*a+b*b+c*c = 1) (o2 : d*d+e*e+f*f = 1) (o3 : g*g+h*h+i*i = 1)
    (o4 : a*d+b*e+c*f = 0) (o5 : a*g+b*h+c*i = 0) (o6 : d*g+e*h+f*i = 0)
    (ca : e*i-f*h = a) (cb : f*g-d*i = b) (cc : d*h-e*g = c)
    (cd : h*c-i*b = d) (ce : i*a-g*c = e) (cf : g*b-h*a = f)
    (cg : b*f-c*e = g) (ch : c*d-a*f = h) (ci : a*e-b*d = i) :
    ((1 + (a + (e + i)))*(1 + (a + (e + i)))+(f - h)*(f - h)+(g - c)*(g - c)+(b - d)*(b - d) = 4*(1 + (a + (e + i)))) ∧
    (2*((g - c)*(g - c)+(b - d)*(b - d)) = 4*(1 + (a + (e + i)))*(1-a)) ∧
    (2*((f - h)*(g - c)+(b - d)*(1 + (a + (e + i)))) = 4*(1 + (a + (e + i)))*b) ∧
    (2*((f - h)*(b - d)-(g - c)*(1 + (a + (e + i)))) = 4*(1 + (a + (e + i)))*c) ∧
    (2*((f - h)*(g - c)-(b - d)*(1 + (a + (e + i)))) = 4*(1 + (a + (e + i)))*d) ∧
    (2*((f - h)*(f - h)+(b - d)*(b - d)) = 4*(1 + (a + (e + i)))*(1-e)) ∧
    (2*((g - c)*(b - d)+(f - h)*(1 + (a + (e + i)))) = 4*(1 + (a + (e + i)))*f) ∧
    (2*((f - h)*(b - d)+(g - c)*(1 + (a + (e + i)))) = 4*(1 + (a + (e + i)))*g) ∧
    (2*((g - c)*(b - d)-(f - h)*(1 + (a + (e + i)))) = 4*(1 + (a + (e + i)))*h) ∧
    (2*((f - h)*(f - h)+(g - c)*(g - c)) = 4*(1 + (a + (e + i)))*(1-i)) := by
  refine ⟨?_, ?_, ?_, ?_, ?_, ?_, ?_, ?_, ?_, ?_⟩
  · linear_combination (1) * o1 + (1) * o2 + (1) * o3 + (2) * ca + (2) * ce + (2) * ci
  · linear_combination (4) * o1 + (4*i) * o2 + (4*e) * o3 + (-4*f - 4*h) * o6 + (-4*e - 4*i) * ca + (2*b + 4*d) * cb + (2*c + 4*g) * cc + (-2*d) * cd + (-2*g) * cg
  · linear_combination (2*d) * o3 + (-2) * o4 + (-2*g) * o6 + (2*b) * ca + (2*i + 2) * cb + (-2*h) * cc + (2*e) * cd + (2*h) * cg
  · linear_combination (2*g) * o2 + (-2) * o5 + (-2*d) * o6 + (2*c) * ca + (-2*f) * cb + (2*e + 2) * cc + (2*f) * cd + (2*i) * cg
  · linear_combination (2*d) * o3 + (-2) * o4 + (-2*g) * o6 + (2*b) * ca + (2*i + 2) * cb + (-2*h) * cc + (2*e) * cd + (2*h) * cg
  · linear_combination (2) * o1 + (4*i + 2) * o2 + (-4*f) * o6 + (2*a - 4*e + 4) * ca + (4*d) * cb + (2*c) * cc + (-2*e) * ce + (-2*h) * ch
  · linear_combination (2*h) * o2 + (2*f) * o3 + (-2*e - 2*i - 2) * o6 + (2*f + 2*h) * ca + (2*c - 2*g) * cb + (-2*d) * cc + (2*f) * ce + (2*i) * ch
  · linear_combination (2*g) * o2 + (-2) * o5 + (-2*d) * o6 + (2*c) * ca + (-2*f) * cb + (2*e + 2) * cc + (2*f) * cd + (2*i) * cg
  · linear_combination (2*h) * o2 + (2*f) * o3 + (-2*e - 2*i - 2) * o6 + (2*f + 2*h) * ca + (2*c - 2*g) * cb + (-2*d) * cc + (2*f) * ce + (2*i) * ch
  · linear_combination (-2) * o1 + (2) * o2 + (4*e + 4) * o3 + (-4*h) * o6 + (-2*a - 4*i + 4) * ca + (-2*b) * cb + (-4*c + 4*g) * cc + (2*d) * cd + (2*e) * ce + (2*g) * cg + (2*h) * ch

/-- the ten polynomial identities of pivot case 1 (`P = 4·pivot·q`) -/
theorem rot_ids1 (a b c d e f g h i : ℝ)
    (o1 : a*a+b*b+c*c = 1) (o2 : d*d+e*e+f*f = 1) (o3 : g*g+h*h+i*i = 1)
    (o4 : a*d+b*e+c*f = 0) (o5 : a*g+b*h+c*i = 0) (o6 : d*g+e*h+f*i = 0)
    (ca : e*i-f*h = a) (cb : f*g-d*i = b) (cc : d*h-e*g = c)
    (cd : h*c-i*b = d) (ce : i*a-g*c = e) (cf : g*b-h*a = f)
    (cg : b*f-c*e = g) (ch : c*d-a*f = h) (ci : a*e-b*d = i) :
    ((f - h)*(f - h)+(a - e - i + 1)*(a - e - i + 1)+(d + b)*(d + b)+(c + g)*(c + g) = 4*(a - e - i + 1)) ∧
    (2*((d + b)*(d + b)+(c + g)*(c + g)) = 4*(a - e - i + 1)*(1-a)) ∧
    (2*((a - e - i + 1)*(d + b)+(c + g)*(f - h)) = 4*(a - e - i + 1)*b) ∧
    (2*((a - e - i + 1)*(c + g)-(d + b)*(f - h)) = 4*(a - e - i + 1)*c) ∧
    (2*((a - e - i + 1)*(d + b)-(c + g)*(f - h)) = 4*(a - e - i + 1)*d) ∧
    (2*((a - e - i + 1)*(a - e - i + 1)+(c + g)*(c + g)) = 4*(a - e - i + 1)*(1-e)) ∧
    (2*((d + b)*(c + g)+(a - e - i + 1)*(f - h)) = 4*(a - e - i + 1)*f) ∧
    (2*((a - e - i + 1)*(c + g)+(d + b)*(f - h)) = 4*(a - e - i + 1)*g) ∧
    (2*((d + b)*(c + g)-(a - e - i + 1)*(f - h)) = 4*(a - e - i + 1)*h) ∧
    (2*((a - e - i + 1)*(a - e - i + 1)+(d + b)*(d + b)) = 4*(a - e - i + 1)*(1-i)) := by
  refine ⟨?_, ?_, ?_, ?_, ?_, ?_, ?_, ?_, ?_, ?_⟩
  · linear_combination (1) * o1 + (1) * o2 + (1) * o3 + (2) * ca + (-2) * ce + (-2) * ci
  · linear_combination (4) * o1 + (-4*i) * o2 + (-4*e) * o3 + (4*f + 4*h) * o6 + (4*e + 4*i) * ca + (2*b - 4*d) * cb + (2*c - 4*g) * cc + (-2*d) * cd + (-2*g) * cg
  · linear_combination (-2*d) * o3 + (2) * o4 + (2*g) * o6 + (2*b) * ca + (2 - 2*i) * cb + (2*h) * cc + (2*e) * cd + (2*h) * cg
  · linear_combination (-2*g) * o2 + (2) * o5 + (2*d) * o6 + (2*c) * ca + (2*f) * cb + (2 - 2*e) * cc + (2*f) * cd + (2*i) * cg
  · linear_combination (2*d) * o3 + (-2) * o4 + (-2*g) * o6 + (-2*b) * ca + (2*i - 2) * cb + (-2*h) * cc + (-2*e) * cd + (-2*h) * cg
  · linear_combination (2 - 4*e) * o3 + (4*h) * o6 + (-2*a + 4*i) * ca + (-2*c - 4*g) * cc + (2*e) * ce + (2*h) * ch
  · linear_combination (2*h) * o2 + (2*f) * o3 + (-2*e - 2*i + 2) * o6 + (2*f + 2*h) * ca + (-2*c - 2*g) * cb + (-2*d) * cc + (-2*f) * ce + (-2*i) * ch
  · linear_combination (2*g) * o2 + (-2) * o5 + (-2*d) * o6 + (-2*c) * ca + (-2*f) * cb + (2*e - 2) * cc + (-2*f) * cd + (-2*i) * cg
  · linear_combination (2*h) * o2 + (2*f) * o3 + (-2*e - 2*i + 2) * o6 + (2*f + 2*h) * ca + (-2*c - 2*g) * cb + (-2*d) * cc + (-2*f) * ce + (-2*i) * ch
  · linear_combination (4) * o1 + (-4*i) * o2 + (-2) * o3 + (4*f) * o6 + (2*a + 4*e) * ca + (2*b - 4*d) * cb + (4*c) * cc + (-2*d) * cd + (-2*e) * ce + (-2*g) * cg + (-2*h) * ch

/-- the ten polynomial identities of pivot case 2 (`P = 4·pivot·q`) -/
theorem rot_ids2 (a b c d e f g h i : ℝ)
    (o1 : a*a+b*b+c*c = 1) (o2 : d*d+e*e+f*f = 1) (o3 : g*g+h*h+i*i = 1)
    (o4 : a*d+b*e+c*f = 0) (o5 : a*g+b*h+c*i = 0) (o6 : d*g+e*h+f*i = 0)
    (ca : e*i-f*h = a) (cb : f*g-d*i = b) (cc : d*h-e*g = c)
    (cd : h*c-i*b = d) (ce : i*a-g*c = e) (cf : g*b-h*a = f)
    (cg : b*f-c*e = g) (ch : c*d-a*f = h) (ci : a*e-b*d = i) :
    ((g - c)*(g - c)+(d + b)*(d + b)+(e - a - i + 1)*(e - a - i + 1)+(h + f)*(h + f) = 4*(e - a - i + 1)) ∧
    (2*((e - a - i + 1)*(e - a - i + 1)+(h + f)*(h + f)) = 4*(e - a - i + 1)*(1-a)) ∧
    (2*((d + b)*(e - a - i + 1)+(h + f)*(g - c)) = 4*(e - a - i + 1)*b) ∧
    (2*((d + b)*(h + f)-(e - a - i + 1)*(g - c)) = 4*(e - a - i + 1)*c) ∧
    (2*((d + b)*(e - a - i + 1)-(h + f)*(g - c)) = 4*(e - a - i + 1)*d) ∧
    (2*((d + b)*(d + b)+(h + f)*(h + f)) = 4*(e - a - i + 1)*(1-e)) ∧
    (2*((e - a - i + 1)*(h + f)+(d + b)*(g - c)) = 4*(e - a - i + 1)*f) ∧
    (2*((d + b)*(h + f)+(e - a - i + 1)*(g - c)) = 4*(e - a - i + 1)*g) ∧
    (2*((e - a - i + 1)*(h + f)-(d + b)*(g - c)) = 4*(e - a - i + 1)*h) ∧
    (2*((d + b)*(d + b)+(e - a - i + 1)*(e - a - i + 1)) = 4*(e - a - i + 1)*(1-i)) := by
  refine ⟨?_, ?_, ?_, ?_, ?_, ?_, ?_, ?_, ?_, ?_⟩
  · linear_combination (1) * o1 + (1) * o2 + (1) * o3 + (-2) * ca + (2) * ce + (-2) * ci
  · linear_combination (-2) * o1 + (2) * o2 + (2) * o3 + (-4) * ca + (-2*b) * cb + (-2*c) * cc + (2*d) * cd + (2*g) * cg
  · linear_combination (-2*d) * o3 + (-2) * o4 + (2*g) * o6 + (-2*b) * ca + (2 - 2*i) * cb + (2*h) * cc + (-2*e) * cd + (-2*h) * cg
  · linear_combination (2*g) * o2 + (2) * o5 + (-2*d) * o6 + (-2*c) * ca + (-2*f) * cb + (2*e + 2) * cc + (-2*f) * cd + (-2*i) * cg
  · linear_combination (2*d) * o3 + (2) * o4 + (-2*g) * o6 + (2*b) * ca + (2*i - 2) * cb + (-2*h) * cc + (2*e) * cd + (2*h) * cg
  · linear_combination (2) * o1 + (2 - 4*i) * o2 + (4*f) * o6 + (2*a + 4*e - 4) * ca + (-4*d) * cb + (2*c) * cc + (-2*e) * ce + (-2*h) * ch
  · linear_combination (-2*h) * o2 + (2*f) * o3 + (2*e - 2*i + 2) * o6 + (-2*f + 2*h) * ca + (2*c - 2*g) * cb + (2*d) * cc + (2*f) * ce + (2*i) * ch
  · linear_combination (2*g) * o2 + (2) * o5 + (-2*d) * o6 + (-2*c) * ca + (-2*f) * cb + (2*e + 2) * cc + (-2*f) * cd + (-2*i) * cg
  · linear_combination (2*h) * o2 + (-2*f) * o3 + (-2*e + 2*i - 2) * o6 + (2*f - 2*h) * ca + (-2*c + 2*g) * cb + (-2*d) * cc + (-2*f) * ce + (-2*i) * ch
  · linear_combination (4) * o1 + (-4*i) * o2 + (-2) * o3 + (4*f) * o6 + (2*a + 4*e) * ca + (2*b - 4*d) * cb + (4*c) * cc + (-2*d) * cd + (-2*e) * ce + (-2*g) * cg + (-2*h) * ch

/-- the ten polynomial identities of pivot case 3 (`P = 4·pivot·q`) -/
theorem rot_ids3 (a b c d e f g h i : ℝ)
    (o1 : a*a+b*b+c*c = 1) (o2 : d*d+e*e+f*f = 1) (o3 : g*g+h*h+i*i = 1)
    (o4 : a*d+b*e+c*f = 0) (o5 : a*g+b*h+c*i = 0) (o6 : d*g+e*h+f*i = 0)
    (ca : e*i-f*h = a) (cb : f*g-d*i = b) (cc : d*h-e*g = c)
    (cd : h*c-i*b = d) (ce : i*a-g*c = e) (cf : g*b-h*a = f)
    (cg : b*f-c*e = g) (ch : c*d-a*f = h) (ci : a*e-b*d = i) :
    ((b - d)*(b - d)+(c + g)*(c + g)+(h + f)*(h + f)+(i - a - e + 1)*(i - a - e + 1) = 4*(i - a - e + 1)) ∧
    (2*((h + f)*(h + f)+(i - a - e + 1)*(i - a - e + 1)) = 4*(i - a - e + 1)*(1-a)) ∧
    (2*((c + g)*(h + f)+(i - a - e + 1)*(b - d)) = 4*(i - a - e + 1)*b) ∧
    (2*((c + g)*(i - a - e + 1)-(h + f)*(b - d)) = 4*(i - a - e + 1)*c) ∧
    (2*((c + g)*(h + f)-(i - a - e + 1)*(b - d)) = 4*(i - a - e + 1)*d) ∧
    (2*((c + g)*(c + g)+(i - a - e + 1)*(i - a - e + 1)) = 4*(i - a - e + 1)*(1-e)) ∧
    (2*((h + f)*(i - a - e + 1)+(c + g)*(b - d)) = 4*(i - a - e + 1)*f) ∧
    (2*((c + g)*(i - a - e + 1)+(h + f)*(b - d)) = 4*(i - a - e + 1)*g) ∧
    (2*((h + f)*(i - a - e + 1)-(c + g)*(b - d)) = 4*(i - a - e + 1)*h) ∧
    (2*((c + g)*(c + g)+(h + f)*(h + f)) = 4*(i - a - e + 1)*(1-i)) := by
  refine ⟨?_, ?_, ?_, ?_, ?_, ?_, ?_, ?_, ?_, ?_⟩
  · linear_combination (1) * o1 + (1) * o2 + (1) * o3 + (-2) * ca + (-2) * ce + (2) * ci
  · linear_combination (-2) * o1 + (2) * o2 + (2) * o3 + (-4) * ca + (-2*b) * cb + (-2*c) * cc + (2*d) * cd + (2*g) * cg
  · linear_combination (2*d) * o3 + (2) * o4 + (-2*g) * o6 + (-2*b) * ca + (2*i + 2) * cb + (-2*h) * cc + (-2*e) * cd + (-2*h) * cg
  · linear_combination (-2*g) * o2 + (-2) * o5 + (2*d) * o6 + (-2*c) * ca + (2*f) * cb + (2 - 2*e) * cc + (-2*f) * cd + (-2*i) * cg
  · linear_combination (2*d) * o3 + (2) * o4 + (-2*g) * o6 + (-2*b) * ca + (2*i + 2) * cb + (-2*h) * cc + (-2*e) * cd + (-2*h) * cg
  · linear_combination (2 - 4*e) * o3 + (4*h) * o6 + (-2*a + 4*i) * ca + (-2*c - 4*g) * cc + (2*e) * ce + (2*h) * ch
  · linear_combination (-2*h) * o2 + (2*f) * o3 + (2*e - 2*i - 2) * o6 + (-2*f + 2*h) * ca + (-2*c - 2*g) * cb + (2*d) * cc + (-2*f) * ce + (-2*i) * ch
  · linear_combination (2*g) * o2 + (2) * o5 + (-2*d) * o6 + (2*c) * ca + (-2*f) * cb + (2*e - 2) * cc + (2*f) * cd + (2*i) * cg
  · linear_combination (2*h) * o2 + (-2*f) * o3 + (-2*e + 2*i + 2) * o6 + (2*f - 2*h) * ca + (2*c + 2*g) * cb + (-2*d) * cc + (2*f) * ce + (2*i) * ch
  · linear_combination (-2) * o1 + (2) * o2 + (4 - 4*e) * o3 + (4*h) * o6 + (-2*a + 4*i - 4) * ca + (-2*b) * cb + (-4*c - 4*g) * cc + (2*d) * cd + (2*e) * ce + (2*g) * cg + (2*h) * ch

/-! ## matrix → quaternion → matrix -/

theorem nonneg_of_sq (W X Y Z t : ℝ) (h : W*W+X*X+Y*Y+Z*Z = 4*t) : 0 ≤ t := by
  linarith [mul_self_nonneg W, mul_self_nonneg X, mul_self_nonneg Y, mul_self_nonneg Z]

/-- **reverse round trip**, with the pivot: for every rotation matrix `R` (orthonormal,
determinant `+1`) `Quaternion::from(R)` is a unit quaternion, converting it back gives `R`, and
the component computed first in the case taken (`w`, `x`, `y` or `z`) is strictly positive -/
theorem toM3_toQuat_pivot (R : M3 ℝ) (hR : R.transpose * R = M3.one) (hdet : R.det = 1) :
    R.toQuat.magnitude2 = 1 ∧ R.toQuat.toM3 = R ∧ 0 < R.toQuatBranch.pivot R.toQuat := by
  obtain ⟨⟨o1, o2, o3, o4, o5, o6⟩, ca, cb, cc, cd, ce, cf, cg, ch, ci⟩ := rot_entries R hR hdet
  obtain ⟨⟨a, b, c⟩, ⟨d, e, f⟩, ⟨g, h, i⟩⟩ := R
  simp only at o1 o2 o3 o4 o5 o6 ca cb cc cd ce cf cg ch ci
  obtain ⟨n0, a0, b0, c0, d0, e0, f0, g0, h0, i0⟩ :=
    rot_ids0 a b c d e f g h i o1 o2 o3 o4 o5 o6 ca cb cc cd ce cf cg ch ci
  obtain ⟨n1, a1, b1, c1, d1, e1, f1, g1, h1, i1⟩ :=
    rot_ids1 a b c d e f g h i o1 o2 o3 o4 o5 o6 ca cb cc cd ce cf cg ch ci
  obtain ⟨n2, a2, b2, c2, d2, e2, f2, g2, h2, i2⟩ :=
    rot_ids2 a b c d e f g h i o1 o2 o3 o4 o5 o6 ca cb cc cd ce cf cg ch ci
  obtain ⟨n3, a3, b3, c3, d3, e3, f3, g3, h3, i3⟩ :=
    rot_ids3 a b c d e f g h i o1 o2 o3 o4 o5 o6 ca cb cc cd ce cf cg ch ci
  -- the four pivots `t_j = 4·(w², x², y², z²)` are non-negative
  have p0 : 0 ≤ 1 + (a + (e + i)) := nonneg_of_sq _ _ _ _ _ n0
  have p1 : 0 ≤ a - e - i + 1 := nonneg_of_sq _ _ _ _ _ n1
  have p2 : 0 ≤ e - a - i + 1 := nonneg_of_sq _ _ _ _ _ n2
  have p3 : 0 ≤ i - a - e + 1 := nonneg_of_sq _ _ _ _ _ n3
  unfold M3.toQuat M3.toQuatBranch
  simp only [M3.trace, M3.diagonal, V3.sum, half_eq, transc_sqrt]
  split_ifs with ht hxx hyy
  · have tp : 0 < 1 + (a + (e + i)) := by linarith
    obtain ⟨hk, hw⟩ := pivot_scale _ tp
    refine ⟨?_, ?_, ?_⟩
    · rw [hw]
      exact (toM3_of_scaled a b c d e f g h i _ _ _ _ _ _ hk n0 a0 b0 c0 d0 e0 f0 g0 h0 i0).1
    · rw [hw]
      exact (toM3_of_scaled a b c d e f g h i _ _ _ _ _ _ hk n0 a0 b0 c0 d0 e0 f0 g0 h0 i0).2
    · show 0 < 1 / 2 * Real.sqrt (1 + (a + (e + i)))
      have := Real.sqrt_pos.mpr tp
      positivity
  · have tp : 0 < a - e - i + 1 := by linarith [hxx.1]
    obtain ⟨hk, hw⟩ := pivot_scale _ tp
    refine ⟨?_, ?_, ?_⟩
    · rw [hw]
      exact (toM3_of_scaled a b c d e f g h i _ _ _ _ _ _ hk n1 a1 b1 c1 d1 e1 f1 g1 h1 i1).1
    · rw [hw]
      exact (toM3_of_scaled a b c d e f g h i _ _ _ _ _ _ hk n1 a1 b1 c1 d1 e1 f1 g1 h1 i1).2
    · show 0 < 1 / 2 * Real.sqrt (a - e - i + 1)
      have := Real.sqrt_pos.mpr tp
      positivity
  · have tp : 0 < e - a - i + 1 := by linarith
    obtain ⟨hk, hw⟩ := pivot_scale _ tp
    refine ⟨?_, ?_, ?_⟩
    · rw [hw]
      exact (toM3_of_scaled a b c d e f g h i _ _ _ _ _ _ hk n2 a2 b2 c2 d2 e2 f2 g2 h2 i2).1
    · rw [hw]
      exact (toM3_of_scaled a b c d e f g h i _ _ _ _ _ _ hk n2 a2 b2 c2 d2 e2 f2 g2 h2 i2).2
    · show 0 < 1 / 2 * Real.sqrt (e - a - i + 1)
      have := Real.sqrt_pos.mpr tp
      positivity
  · have tp : 0 < i - a - e + 1 := by
      have hie : e ≤ i := not_lt.mp hyy
      have hai : a ≤ i := by
        by_contra hc'
        exact hxx ⟨by linarith [not_le.mp hc'], not_le.mp hc'⟩
      linarith [not_le.mp ht]
    obtain ⟨hk, hw⟩ := pivot_scale _ tp
    refine ⟨?_, ?_, ?_⟩
    · rw [hw]
      exact (toM3_of_scaled a b c d e f g h i _ _ _ _ _ _ hk n3 a3 b3 c3 d3 e3 f3 g3 h3 i3).1
    · rw [hw]
      exact (toM3_of_scaled a b c d e f g h i _ _ _ _ _ _ hk n3 a3 b3 c3 d3 e3 f3 g3 h3 i3).2
    · show 0 < 1 / 2 * Real.sqrt (i - a - e + 1)
      have := Real.sqrt_pos.mpr tp
      positivity

/-- **reverse round trip**: rotation matrix → quaternion → matrix is the identity, and the
quaternion is a unit quaternion -/
theorem toM3_toQuat (R : M3 ℝ) (hR : R.transpose * R = M3.one) (hdet : R.det = 1) :
    R.toQuat.magnitude2 = 1 ∧ R.toQuat.toM3 = R :=
  ⟨(toM3_toQuat_pivot R hR hdet).1, (toM3_toQuat_pivot R hR hdet).2.1⟩

/-- the hypotheses are satisfiable: the identity, a quarter turn, and every `q.toM3` (unit `q`) -/
example : (M3.one : M3 ℝ).transpose * M3.one = M3.one ∧ (M3.one : M3 ℝ).det = 1 := by
  refine ⟨?_, ?_⟩
  · ext <;> simp [M3.one, M3.fromValue, M3.new, M3.transpose]
  · simp [M3.one, M3.fromValue, M3.new]
example : (M3.new 0 1 0 (-1) 0 0 0 0 1 : M3 ℝ).transpose * M3.new 0 1 0 (-1) 0 0 0 0 1 = M3.one ∧
    (M3.new 0 1 0 (-1) 0 0 0 0 1 : M3 ℝ).det = 1 := by
  refine ⟨?_, ?_⟩
  · ext <;> simp [M3.one, M3.fromValue, M3.new, M3.transpose]
  · simp [M3.new]
/-- both round trips together: the matrix of a unit quaternion survives matrix → quaternion → matrix -/
theorem toM3_toQuat_toM3 (q : Quat ℝ) (hq : q.magnitude2 = 1) : q.toM3.toQuat.toM3 = q.toM3 :=
  (toM3_toQuat q.toM3 (toM3_orthonormal q hq).1 (toM3_orthonormal q hq).2.2).2

/-! ## look-at -/

/-- `Matrix3::look_to_lh(d, up)` is a rotation matrix for a non-zero direction `d` and an `up`
that is not parallel to it -/
theorem lookToLh_rotation (d up : V3 ℝ) (hd : 0 < d.magnitude2)
    (hup : 0 < (V3.cross up d.normalize).magnitude2) :
    (M3.lookToLh d up).transpose * M3.lookToLh d up = M3.one ∧ (M3.lookToLh d up).det = 1 := by
  have hag := Cg.C09.m4_m3_agree_lh P3.origin d up hd hup
  have hd' : 0 < (-d).magnitude2 := by
    have : (-d).magnitude2 = d.magnitude2 := by simp
    rw [this]; exact hd
  have hup' : 0 < (V3.cross (-d).normalize up).magnitude2 := by
    rw [Cg.C09.normalize_neg]
    have : V3.cross (-d.normalize) up = V3.cross up d.normalize := by ext <;> simp <;> ring
    rw [this]; exact hup
  have hspec := Cg.C09.lookToRh_spec P3.origin (-d) up hd' hup'
  have e : M4.lookToRh P3.origin (-d) up = M4.lookToLh P3.origin d up := rfl
  obtain ⟨h1, h2, -⟩ := hspec
  rw [e, hag] at h1 h2
  exact ⟨h1, h2⟩

/-- `Quaternion::look_at(d, up)` converts back to `Matrix3::look_to_lh(d, up)` whenever that
matrix is a rotation matrix -/
theorem lookAt_toM3_of_rotation (d up : V3 ℝ)
    (hR : (M3.lookToLh d up).transpose * M3.lookToLh d up = M3.one)
    (hdet : (M3.lookToLh d up).det = 1) :
    (Quat.lookAt d up).magnitude2 = 1 ∧ (Quat.lookAt d up).toM3 = M3.lookToLh d up :=
  toM3_toQuat (M3.lookToLh d up) hR hdet

/-- … which is the case for every non-zero `d` and every `up` not parallel to `d`: the quaternion
and the matrix `look_at` describe the same rotation -/
theorem lookAt_toM3 (d up : V3 ℝ) (hd : 0 < d.magnitude2)
    (hup : 0 < (V3.cross up d.normalize).magnitude2) :
    (Quat.lookAt d up).magnitude2 = 1 ∧ (Quat.lookAt d up).toM3 = M3.lookToLh d up ∧
    ∀ v : V3 ℝ, Quat.lookAt d up * v = M3.lookToLh d up * v := by
  obtain ⟨hR, hdet⟩ := lookToLh_rotation d up hd hup
  obtain ⟨h1, h2⟩ := lookAt_toM3_of_rotation d up hR hdet
  refine ⟨h1, h2, fun v => ?_⟩
  rw [← toM3_mulVec, h2]

/-- the hypotheses of `lookAt_toM3` are satisfiable: looking along `z` with `up = y` -/
example : 0 < (⟨0, 0, 1⟩ : V3 ℝ).magnitude2 ∧
    0 < (V3.cross (⟨0, 1, 0⟩ : V3 ℝ) (⟨0, 0, 1⟩ : V3 ℝ).normalize).magnitude2 := by
  have hn : (⟨0, 0, 1⟩ : V3 ℝ).normalize = ⟨0, 0, 1⟩ :=
    Cg.C09.normalize_of_unit _ (by simp [V3.magnitude2])
  rw [hn]
  constructor <;> simp [V3.magnitude2]

/-! ## which case is taken, and the sign of the result -/

/-- all four cases of `From<Matrix3> for Quaternion` are reachable from unit quaternions
(the quaternions are `(w, x, y, z)/9`; the same holds verbatim over `ℚ`) -/
example : (Quat.new (8/9) (4/9) (1/9) 0 : Quat ℝ).magnitude2 = 1 ∧
    M3.toQuatBranch (Quat.new (8/9) (4/9) (1/9) 0 : Quat ℝ).toM3 = .trace := by
  norm_num [Quat.new, Quat.fromSv, Quat.magnitude2, Quat.dot, Quat.toM3, M3.new, M3.toQuatBranch,
    M3.trace, M3.diagonal, V3.sum]
example : (Quat.new (1/9) (8/9) (4/9) 0 : Quat ℝ).magnitude2 = 1 ∧
    M3.toQuatBranch (Quat.new (1/9) (8/9) (4/9) 0 : Quat ℝ).toM3 = .xx := by
  norm_num [Quat.new, Quat.fromSv, Quat.magnitude2, Quat.dot, Quat.toM3, M3.new, M3.toQuatBranch,
    M3.trace, M3.diagonal, V3.sum]
example : (Quat.new (1/9) (4/9) (8/9) 0 : Quat ℝ).magnitude2 = 1 ∧
    M3.toQuatBranch (Quat.new (1/9) (4/9) (8/9) 0 : Quat ℝ).toM3 = .yy := by
  norm_num [Quat.new, Quat.fromSv, Quat.magnitude2, Quat.dot, Quat.toM3, M3.new, M3.toQuatBranch,
    M3.trace, M3.diagonal, V3.sum]
example : (Quat.new (1/9) 0 (4/9) (8/9) : Quat ℝ).magnitude2 = 1 ∧
    M3.toQuatBranch (Quat.new (1/9) 0 (4/9) (8/9) : Quat ℝ).toM3 = .zz := by
  norm_num [Quat.new, Quat.fromSv, Quat.magnitude2, Quat.dot, Quat.toM3, M3.new, M3.toQuatBranch,
    M3.trace, M3.diagonal, V3.sum]
/-- the axis half turns and the 120° turn about `(1,1,1)` -/
example : M3.toQuatBranch (Quat.new (1/2) (1/2) (1/2) (1/2) : Quat ℚ).toM3 = .trace ∧
    M3.toQuatBranch (Quat.new 0 1 0 0 : Quat ℚ).toM3 = .xx ∧
    M3.toQuatBranch (Quat.new 0 0 1 0 : Quat ℚ).toM3 = .yy ∧
    M3.toQuatBranch (Quat.new 0 0 0 1 : Quat ℚ).toM3 = .zz := by
  norm_num [Quat.new, Quat.fromSv, Quat.magnitude2, Quat.dot, Quat.toM3, M3.new, M3.toQuatBranch,
    M3.trace, M3.diagonal, V3.sum]

theorem pivot_neg (b : QBranch) (q : Quat ℝ) : b.pivot (-q) = -b.pivot q := by
  cases b <;> simp [QBranch.pivot, Quat.fromSv]

/-- **sign rule** refining `toQuat_toM3`: quaternion → matrix → quaternion returns `q` when the
pivot component of `q` (its `w` in the non-negative-trace case, else its `x`, `y` or `z` according
to the case taken) is positive and `-q` when it is negative; that component is never zero -/
theorem toQuat_toM3_sign (q : Quat ℝ) (hq : q.magnitude2 = 1) :
    (M3.toQuatBranch q.toM3).pivot q ≠ 0 ∧
    q.toM3.toQuat = if 0 < (M3.toQuatBranch q.toM3).pivot q then q else -q := by
  obtain ⟨ho, -, hdet⟩ := toM3_orthonormal q hq
  obtain ⟨-, -, hpos⟩ := toM3_toQuat_pivot q.toM3 ho hdet
  rcases toQuat_toM3 q hq with h | h
  · rw [h] at hpos
    exact ⟨hpos.ne', by rw [if_pos hpos]; exact h⟩
  · rw [h, pivot_neg] at hpos
    have hneg : (M3.toQuatBranch q.toM3).pivot q < 0 := by linarith
    exact ⟨hneg.ne, by rw [if_neg (not_lt.mpr hneg.le)]; exact h⟩

/-- the sign rule, case by case -/
theorem toQuat_toM3_cases (q : Quat ℝ) (hq : q.magnitude2 = 1) :
    (M3.toQuatBranch q.toM3 = .trace → q.s ≠ 0 ∧ q.toM3.toQuat = if 0 ≤ q.s then q else -q) ∧
    (M3.toQuatBranch q.toM3 = .xx → q.v.x ≠ 0 ∧ q.toM3.toQuat = if 0 ≤ q.v.x then q else -q) ∧
    (M3.toQuatBranch q.toM3 = .yy → q.v.y ≠ 0 ∧ q.toM3.toQuat = if 0 ≤ q.v.y then q else -q) ∧
    (M3.toQuatBranch q.toM3 = .zz → q.v.z ≠ 0 ∧ q.toM3.toQuat = if 0 ≤ q.v.z then q else -q) := by
  obtain ⟨hne, hs⟩ := toQuat_toM3_sign q hq
  have key : ∀ p : ℝ, p ≠ 0 → (if 0 < p then q else -q) = if 0 ≤ p then q else -q := by
    intro p hp
    by_cases h0 : 0 < p
    · rw [if_pos h0, if_pos h0.le]
    · rw [if_neg h0, if_neg (fun h => h0 (lt_of_le_of_ne h (Ne.symm hp)))]
  refine ⟨?_, ?_, ?_, ?_⟩ <;> intro hb <;> rw [hb] at hne hs <;>
    exact ⟨hne, by rw [hs]; exact key _ hne⟩

/-- in the non-negative-trace case (`4w² ≥ 1`) the result is `q` if `0 ≤ w`, else `-q` -/
theorem toQuat_toM3_trace (q : Quat ℝ) (hq : q.magnitude2 = 1) (ht : 0 ≤ q.toM3.trace) :
    q.toM3.toQuat = if 0 ≤ q.s then q else -q := by
  have hb : M3.toQuatBranch q.toM3 = .trace := by
    unfold M3.toQuatBranch; rw [if_pos ht]
  exact ((toQuat_toM3_cases q hq).1 hb).2

/-! ## the 4x4 conversion -/

/-- the rotation part of `Matrix4::from(q)` is `Matrix3::from(q)`; the rest is the identity -/
theorem toM4_upper3 {K : Type} [CommRing K] (q : Quat K) :
    Cg.C09.upper3 q.toM4 = q.toM3 ∧ q.toM4.w = ⟨0, 0, 0, 1⟩ ∧
    q.toM4.x.w = 0 ∧ q.toM4.y.w = 0 ∧ q.toM4.z.w = 0 := by
  refine ⟨?_, rfl, rfl, rfl, rfl⟩
  ext <;> simp [Cg.C09.upper3, Quat.toM4, Quat.toM3, M4.new, M3.new, V4.truncate]

/-- for a unit quaternion the upper-left 3x3 block of `Matrix4::from(q)` is orthonormal with
determinant `+1`, and the last column is `(0,0,0,1)` (despite the name this is about the 3x3 block only; the 4x4 statement
`q.toM4ᵀ * q.toM4 = 1`, `det = 1` is `toM4_orthonormal_full`, `Props/C05c.lean`) -/
theorem toM4_orthonormal {K : Type} [CommRing K] (q : Quat K) (hq : q.magnitude2 = 1) :
    (Cg.C09.upper3 q.toM4).transpose * Cg.C09.upper3 q.toM4 = M3.one ∧
    Cg.C09.upper3 q.toM4 * (Cg.C09.upper3 q.toM4).transpose = M3.one ∧
    (Cg.C09.upper3 q.toM4).det = 1 ∧ q.toM4.w = ⟨0, 0, 0, 1⟩ := by
  rw [(toM4_upper3 q).1]
  obtain ⟨h1, h2, h3⟩ := toM3_orthonormal q hq
  exact ⟨h1, h2, h3, rfl⟩

end Cg.C05
