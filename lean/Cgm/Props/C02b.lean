import Cgm.Props.C16b
/-!
# C02 (second part) — Leibniz sums for `Matrix2` / `Matrix3`, and the out-of-bounds behaviour of
matrix indexing and of the three swaps in every dimension: they panic (model: `none`) exactly when
an index is out of range.
-/
set_option linter.unusedSectionVars false
set_option linter.unnecessarySeqFocus false
namespace Cg.C02
open Cg Matrix
variable {K : Type} [CommRing K]

/-! ## determinant = Leibniz sum over permutations -/
theorem M2.det_leibniz_sum (m : M2 K) :
    m.det = ∑ σ : Equiv.Perm (Fin 2), Equiv.Perm.sign σ • ∏ i, m.toMatrix (σ i) i := by
  rw [M2.det_eq, Matrix.det_apply]
theorem M3.det_leibniz_sum (m : M3 K) :
    m.det = ∑ σ : Equiv.Perm (Fin 3), Equiv.Perm.sign σ • ∏ i, m.toMatrix (σ i) i := by
  rw [M3.det_eq, Matrix.det_apply]
/-- the entries the sums range over are the elements `m[c][r]` -/
theorem toMatrix_entry (m2 : M2 K) (m3 : M3 K) (m4 : M4 K) :
    (∀ r c : Fin 2, m2.get? c r = some (m2.toMatrix r c)) ∧
    (∀ r c : Fin 3, m3.get? c r = some (m3.toMatrix r c)) ∧
    (∀ r c : Fin 4, m4.get? c r = some (m4.toMatrix r c)) := by
  refine ⟨?_, ?_, ?_⟩ <;> (intro r c; fin_cases r <;> fin_cases c <;> rfl)

/-! ## out-of-range indices -/
section oob
variable {α : Type}

/-- `m[c][r]` with an index `≥ 2` panics -/
theorem M2.get_oob (m : M2 α) (c r : Nat) (h : 2 ≤ c ∨ 2 ≤ r) : m.get? c r = none :=
  (Cg.C16.M2.get?_eq_none_iff m c r).2 h
theorem M2.get?_eq_none_iff (m : M2 α) (c r : Nat) : m.get? c r = none ↔ 2 ≤ c ∨ 2 ≤ r :=
  Cg.C16.M2.get?_eq_none_iff m c r
/-- and in range it never does -/
theorem M2.get_inb (m : M2 α) (c r : Fin 2) : ∃ e, m.get? c r = some e := by
  fin_cases c <;> fin_cases r <;> exact ⟨_, rfl⟩
theorem M2.swapRows?_eq_none_iff (m : M2 α) (a b : Nat) :
    m.swapRows? a b = none ↔ 2 ≤ a ∨ 2 ≤ b := by
  rcases a with _ | _ | a <;> rcases b with _ | _ | b <;>
    simp [M2.swapRows?, V2.swapElements?, V2.get?, V2.toList, V2.set?]
theorem M2.swapColumns?_eq_none_iff (m : M2 α) (a b : Nat) :
    m.swapColumns? a b = none ↔ 2 ≤ a ∨ 2 ≤ b := by
  rcases a with _ | _ | a <;> rcases b with _ | _ | b <;>
    simp [M2.swapColumns?, M2.col?, M2.cols, M2.setCol?]
theorem M2.swapElements?_eq_none_iff (m : M2 α) (ac ar bc br : Nat) :
    m.swapElements? ac ar bc br = none ↔ (2 ≤ ac ∨ 2 ≤ ar) ∨ (2 ≤ bc ∨ 2 ≤ br) := by
  rw [← Cg.C16.M2.get?_eq_none_iff m ac ar, ← Cg.C16.M2.get?_eq_none_iff m bc br]
  unfold M2.swapElements?
  cases h1 : m.get? ac ar with
  | none => simp
  | some ea =>
    cases h2 : m.get? bc br with
    | none => simp
    | some eb =>
      have ha : ¬ (2 ≤ ac ∨ 2 ≤ ar) := by rw [← Cg.C16.M2.get?_eq_none_iff m]; simp [h1]
      have hb : ¬ (2 ≤ bc ∨ 2 ≤ br) := by rw [← Cg.C16.M2.get?_eq_none_iff m]; simp [h2]
      cases h3 : m.set? ac ar eb with
      | none => exact absurd ((Cg.C16.M2.set?_eq_none_iff m ac ar eb).1 h3) ha
      | some m' =>
        simp
        exact ⟨m', h3, fun h4 => hb ((Cg.C16.M2.set?_eq_none_iff m' bc br ea).1 h4)⟩
/-- an out-of-range index panics (model: `none`) -/
theorem M2.swap_oob (m : M2 α) (a b : Nat) (h : 2 ≤ a ∨ 2 ≤ b) :
    m.swapRows? a b = none ∧ m.swapColumns? a b = none :=
  ⟨(M2.swapRows?_eq_none_iff m a b).2 h, (M2.swapColumns?_eq_none_iff m a b).2 h⟩
theorem M2.swapElements_oob (m : M2 α) (ac ar bc br : Nat)
    (h : 2 ≤ ac ∨ 2 ≤ ar ∨ 2 ≤ bc ∨ 2 ≤ br) : m.swapElements? ac ar bc br = none := by
  rw [M2.swapElements?_eq_none_iff]; tauto
/-- `replace_col` / a column store panic exactly for a column index `≥ 2` -/
theorem M2.replaceCol?_eq_none_iff (m : M2 α) (c : Nat) (v : V2 α) :
    m.replaceCol? c v = none ↔ 2 ≤ c := by
  rcases c with _ | _ | c <;> simp [M2.replaceCol?, M2.col?, M2.cols, M2.setCol?]

/-- `m[c][r]` with an index `≥ 3` panics -/
theorem M3.get_oob (m : M3 α) (c r : Nat) (h : 3 ≤ c ∨ 3 ≤ r) : m.get? c r = none :=
  (Cg.C16.M3.get?_eq_none_iff m c r).2 h
theorem M3.get?_eq_none_iff (m : M3 α) (c r : Nat) : m.get? c r = none ↔ 3 ≤ c ∨ 3 ≤ r :=
  Cg.C16.M3.get?_eq_none_iff m c r
/-- and in range it never does -/
theorem M3.get_inb (m : M3 α) (c r : Fin 3) : ∃ e, m.get? c r = some e := by
  fin_cases c <;> fin_cases r <;> exact ⟨_, rfl⟩
theorem M3.swapRows?_eq_none_iff (m : M3 α) (a b : Nat) :
    m.swapRows? a b = none ↔ 3 ≤ a ∨ 3 ≤ b := by
  rcases a with _ | _ | _ | a <;> rcases b with _ | _ | _ | b <;>
    simp [M3.swapRows?, V3.swapElements?, V3.get?, V3.toList, V3.set?]
theorem M3.swapColumns?_eq_none_iff (m : M3 α) (a b : Nat) :
    m.swapColumns? a b = none ↔ 3 ≤ a ∨ 3 ≤ b := by
  rcases a with _ | _ | _ | a <;> rcases b with _ | _ | _ | b <;>
    simp [M3.swapColumns?, M3.col?, M3.cols, M3.setCol?]
theorem M3.swapElements?_eq_none_iff (m : M3 α) (ac ar bc br : Nat) :
    m.swapElements? ac ar bc br = none ↔ (3 ≤ ac ∨ 3 ≤ ar) ∨ (3 ≤ bc ∨ 3 ≤ br) := by
  rw [← Cg.C16.M3.get?_eq_none_iff m ac ar, ← Cg.C16.M3.get?_eq_none_iff m bc br]
  unfold M3.swapElements?
  cases h1 : m.get? ac ar with
  | none => simp
  | some ea =>
    cases h2 : m.get? bc br with
    | none => simp
    | some eb =>
      have ha : ¬ (3 ≤ ac ∨ 3 ≤ ar) := by rw [← Cg.C16.M3.get?_eq_none_iff m]; simp [h1]
      have hb : ¬ (3 ≤ bc ∨ 3 ≤ br) := by rw [← Cg.C16.M3.get?_eq_none_iff m]; simp [h2]
      cases h3 : m.set? ac ar eb with
      | none => exact absurd ((Cg.C16.M3.set?_eq_none_iff m ac ar eb).1 h3) ha
      | some m' =>
        simp
        exact ⟨m', h3, fun h4 => hb ((Cg.C16.M3.set?_eq_none_iff m' bc br ea).1 h4)⟩
/-- an out-of-range index panics (model: `none`) -/
theorem M3.swap_oob (m : M3 α) (a b : Nat) (h : 3 ≤ a ∨ 3 ≤ b) :
    m.swapRows? a b = none ∧ m.swapColumns? a b = none :=
  ⟨(M3.swapRows?_eq_none_iff m a b).2 h, (M3.swapColumns?_eq_none_iff m a b).2 h⟩
theorem M3.swapElements_oob (m : M3 α) (ac ar bc br : Nat)
    (h : 3 ≤ ac ∨ 3 ≤ ar ∨ 3 ≤ bc ∨ 3 ≤ br) : m.swapElements? ac ar bc br = none := by
  rw [M3.swapElements?_eq_none_iff]; tauto
/-- `replace_col` / a column store panic exactly for a column index `≥ 3` -/
theorem M3.replaceCol?_eq_none_iff (m : M3 α) (c : Nat) (v : V3 α) :
    m.replaceCol? c v = none ↔ 3 ≤ c := by
  rcases c with _ | _ | _ | c <;> simp [M3.replaceCol?, M3.col?, M3.cols, M3.setCol?]

/-- `m[c][r]` with an index `≥ 4` panics -/
theorem M4.get_oob (m : M4 α) (c r : Nat) (h : 4 ≤ c ∨ 4 ≤ r) : m.get? c r = none :=
  (Cg.C16.M4.get?_eq_none_iff m c r).2 h
theorem M4.get?_eq_none_iff (m : M4 α) (c r : Nat) : m.get? c r = none ↔ 4 ≤ c ∨ 4 ≤ r :=
  Cg.C16.M4.get?_eq_none_iff m c r
/-- and in range it never does -/
theorem M4.get_inb (m : M4 α) (c r : Fin 4) : ∃ e, m.get? c r = some e := by
  fin_cases c <;> fin_cases r <;> exact ⟨_, rfl⟩
theorem M4.swapRows?_eq_none_iff (m : M4 α) (a b : Nat) :
    m.swapRows? a b = none ↔ 4 ≤ a ∨ 4 ≤ b := by
  rcases a with _ | _ | _ | _ | a <;> rcases b with _ | _ | _ | _ | b <;>
    simp [M4.swapRows?, V4.swapElements?, V4.get?, V4.toList, V4.set?]
theorem M4.swapColumns?_eq_none_iff (m : M4 α) (a b : Nat) :
    m.swapColumns? a b = none ↔ 4 ≤ a ∨ 4 ≤ b := by
  rcases a with _ | _ | _ | _ | a <;> rcases b with _ | _ | _ | _ | b <;>
    simp [M4.swapColumns?, M4.col?, M4.cols, M4.setCol?]
theorem M4.swapElements?_eq_none_iff (m : M4 α) (ac ar bc br : Nat) :
    m.swapElements? ac ar bc br = none ↔ (4 ≤ ac ∨ 4 ≤ ar) ∨ (4 ≤ bc ∨ 4 ≤ br) := by
  rw [← Cg.C16.M4.get?_eq_none_iff m ac ar, ← Cg.C16.M4.get?_eq_none_iff m bc br]
  unfold M4.swapElements?
  cases h1 : m.get? ac ar with
  | none => simp
  | some ea =>
    cases h2 : m.get? bc br with
    | none => simp
    | some eb =>
      have ha : ¬ (4 ≤ ac ∨ 4 ≤ ar) := by rw [← Cg.C16.M4.get?_eq_none_iff m]; simp [h1]
      have hb : ¬ (4 ≤ bc ∨ 4 ≤ br) := by rw [← Cg.C16.M4.get?_eq_none_iff m]; simp [h2]
      cases h3 : m.set? ac ar eb with
      | none => exact absurd ((Cg.C16.M4.set?_eq_none_iff m ac ar eb).1 h3) ha
      | some m' =>
        simp
        exact ⟨m', h3, fun h4 => hb ((Cg.C16.M4.set?_eq_none_iff m' bc br ea).1 h4)⟩
theorem M4.swapElements_oob (m : M4 α) (ac ar bc br : Nat)
    (h : 4 ≤ ac ∨ 4 ≤ ar ∨ 4 ≤ bc ∨ 4 ≤ br) : m.swapElements? ac ar bc br = none := by
  rw [M4.swapElements?_eq_none_iff]; tauto
/-- `replace_col` / a column store panic exactly for a column index `≥ 4` -/
theorem M4.replaceCol?_eq_none_iff (m : M4 α) (c : Nat) (v : V4 α) :
    m.replaceCol? c v = none ↔ 4 ≤ c := by
  rcases c with _ | _ | _ | _ | c <;> simp [M4.replaceCol?, M4.col?, M4.cols, M4.setCol?]

end oob

/-- non-vacuity: in-range swaps succeed, out-of-range ones do not -/
example : (M2.new 1 2 3 4 : M2 Int).swapRows? 0 1 = some (M2.new 2 1 4 3) ∧
    (M2.new 1 2 3 4 : M2 Int).swapRows? 0 2 = none ∧
    (M2.new 1 2 3 4 : M2 Int).swapElements? 0 1 1 0 = some (M2.new 1 3 2 4) ∧
    (M2.new 1 2 3 4 : M2 Int).swapElements? 0 1 2 0 = none := by decide

end Cg.C02
