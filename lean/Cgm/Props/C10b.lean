import Cgm.Props.C10
import Cgm.Lemmas.ApproxSpec
import Cgm.Lemmas.RealApprox
/-!
# C10, rejection and the `perspective = frustum` clause in the property's own vocabulary

`Cg.C10.*_none_iff` characterise rejection by the raw guards of the model (`¬ (l ≤ r ∧ ..)`,
`absDiffEqD (sabs aspect) 0 = false`, `smin`, `smax`).  Over a linear ordered field, and with
`ApproxLaws` (Cgm/Lemmas/ApproxSpec.lean) for the two `abs_diff_ne!` assertions, they become the
clauses of the property text:

* frustum: left > right, bottom > top or near > far;
* perspective: fovy outside `(0, half turn)`, zero aspect, non-positive near or far, near = far;
* planar: `|fovy| ≥ half turn`, negative height, zero aspect, near = far, or focal point between
  the planes.

Then, over `ℝ` with `Lits.radFull = 2π`: *every* tuple accepted by `perspective` yields the
matrix of `frustum` for the symmetric window of half-height `n tan(fovy/2)`.
-/
set_option linter.unusedSectionVars false
namespace Cg.C10
open Cg

section reject
variable {F : Type} [Field F] [LinearOrder F] [IsStrictOrderedRing F]
  [Transc F] [Lits F] [Approx F]

/-- the half turn `Rad::turn_div_2()` is `full_turn / 2` -/
theorem turnDiv_two (T : F) : Angle.turnDiv T 2 = T / 2 := by
  simp [Angle.turnDiv]

/-! ### frustum -/
/-- `frustum` panics exactly when left > right, bottom > top or near > far -/
theorem frustum_none_iff' (l r b t n f : F) :
    frustum l r b t n f = none ↔ r < l ∨ t < b ∨ f < n := by
  rw [frustum_none_iff]
  simp only [not_and_or, not_le]
/-- otherwise it is the matrix `frustumMat` -/
theorem frustum_some_iff (l r b t n f : F) :
    frustum l r b t n f = some (frustumMat l r b t n f) ↔ l ≤ r ∧ b ≤ t ∧ n ≤ f := by
  constructor
  · intro h
    by_contra hc
    rw [(frustum_none_iff l r b t n f).mpr hc] at h
    cases h
  · exact frustum_some l r b t n f

/-! ### perspective -/
/-- complete characterisation of the panics of `perspective` -/
theorem perspective_none_iff' (S : ApproxLaws F) (fovy aspect n f : F) :
    perspective fovy aspect n f = none ↔
      fovy ≤ 0 ∨ Lits.radFull / 2 ≤ fovy ∨ |aspect| ≤ Approx.eps ∨ n ≤ 0 ∨ f ≤ 0 ∨
        |f - n| ≤ Approx.eps := by
  rw [perspective_none_iff]
  simp only [not_and_or, not_lt, Bool.not_eq_false, turnDiv_two, S.absDiffEqD_iff, sabs_eq_abs,
    sub_zero, abs_abs]
/-- fovy outside `(0, half turn)` -/
theorem perspective_none_of_fovy (fovy aspect n f : F)
    (h : fovy ≤ 0 ∨ Lits.radFull / 2 ≤ fovy) : perspective fovy aspect n f = none := by
  rw [perspective_none_iff, turnDiv_two]
  rintro ⟨h1, h2, -⟩
  rcases h with h | h
  · exact absurd h1 (not_lt.mpr h)
  · exact absurd h2 (not_lt.mpr h)
/-- non-positive near -/
theorem perspective_none_of_near (fovy aspect n f : F) (h : n ≤ 0) :
    perspective fovy aspect n f = none := by
  rw [perspective_none_iff]
  rintro ⟨-, -, -, h1, -⟩
  exact absurd h1 (not_lt.mpr h)
/-- non-positive far -/
theorem perspective_none_of_far (fovy aspect n f : F) (h : f ≤ 0) :
    perspective fovy aspect n f = none := by
  rw [perspective_none_iff]
  rintro ⟨-, -, -, -, h1, -⟩
  exact absurd h1 (not_lt.mpr h)
/-- zero aspect (reflexivity of `abs_diff_eq`) -/
theorem perspective_none_of_aspect (S : ApproxLaws F) (fovy aspect n f : F) (h : aspect = 0) :
    perspective fovy aspect n f = none := by
  rw [perspective_none_iff]
  rintro ⟨-, -, h1, -⟩
  rw [h, sabs_eq_abs, abs_zero, S.absDiffEqD_refl] at h1
  exact Bool.noConfusion h1
/-- near = far (reflexivity of `abs_diff_eq`) -/
theorem perspective_none_of_near_eq_far (S : ApproxLaws F) (fovy aspect n f : F) (h : n = f) :
    perspective fovy aspect n f = none := by
  rw [perspective_none_iff]
  rintro ⟨-, -, -, -, -, h1⟩
  rw [h, S.absDiffEqD_refl] at h1
  exact Bool.noConfusion h1
/-- what an accepted tuple satisfies, in ordered-field terms -/
theorem perspective_some_guards (S : ApproxLaws F) (fovy aspect n f : F) (m : M4 F)
    (h : perspective fovy aspect n f = some m) :
    m = perspectiveMat fovy aspect n f ∧ 0 < fovy ∧ fovy < Lits.radFull / 2 ∧
      Approx.eps < |aspect| ∧ aspect ≠ 0 ∧ 0 < n ∧ 0 < f ∧ Approx.eps < |f - n| ∧ n ≠ f := by
  have hg : 0 < fovy ∧ fovy < Angle.turnDiv (Lits.radFull : F) 2 ∧
      absDiffEqD (sabs aspect) (0 : F) = false ∧ 0 < n ∧ 0 < f ∧ absDiffEqD f n = false := by
    by_contra hc
    rw [(perspective_none_iff fovy aspect n f).mpr hc] at h
    cases h
  have hm := perspective_some fovy aspect n f hg
  rw [h] at hm
  obtain ⟨h1, h2, h3, h4, h5, h6⟩ := hg
  rw [turnDiv_two] at h2
  have h3' := (S.absDiffEqD_false_iff _ _).mp h3
  rw [sabs_eq_abs, sub_zero, abs_abs] at h3'
  have h6' := (S.absDiffEqD_false_iff _ _).mp h6
  refine ⟨Option.some.inj hm, h1, h2, h3', ?_, h4, h5, h6', ?_⟩
  · rintro rfl
    rw [abs_zero] at h3'
    exact absurd h3' (not_lt.mpr S.eps_nonneg)
  · exact fun e => S.ne_of_absDiffEqD_false h6 e.symm

/-! ### planar -/
/-- the focal point of `planar`: `-(1 / inv_f)`, `inv_f = tan(fovy/2) * 2 / height` -/
def planarFocal (fovy h : F) : F := -((1 : F) / planarInvF fovy h)

/-- "zero" as the model writes it (order relation only) -/
theorem zero_iff (x : F) : (¬ x < 0 ∧ ¬ 0 < x) ↔ x = 0 :=
  ⟨fun ⟨a, b⟩ => le_antisymm (not_lt.mp b) (not_lt.mp a), fun e => by subst e; exact ⟨lt_irrefl 0, lt_irrefl 0⟩⟩

theorem planar_prop (B1 H L B3 B4 Tz Hz Hp C : Prop) (hH : H) (hL : ¬ L) :
    ¬(¬B1 ∧ H ∧ ¬B3 ∧ ¬B4 ∧ ¬(Tz ∧ Hz) ∧ (Tz ∧ Hp ∨ ¬C)) ↔ B1 ∨ L ∨ B3 ∨ B4 ∨ Tz ∧ Hz ∨ ¬(Tz ∧ Hp) ∧ C := by
  tauto

/-- complete characterisation of the panics of `planar`.  `T = tan(fovy/2)`: with `T = 0` and a positive height the focal point
is at infinity (never between the planes: the orthographic case is always accepted); with `T = 0` and height 0 the code's
`inv_f` is `0/0 = NaN` and the assertion fails -/
theorem planar_none_iff' (S : ApproxLaws F) (fovy aspect h n f : F) :
    planar fovy aspect h n f = none ↔
      Lits.radFull / 2 ≤ |fovy| ∨ h < 0 ∨ |aspect| ≤ Approx.eps ∨ |f - n| ≤ Approx.eps ∨
        (Rad.tan (fovy / two) = 0 ∧ h = 0) ∨
        (¬ (Rad.tan (fovy / two) = 0 ∧ 0 < h) ∧ min n f ≤ planarFocal fovy h ∧ planarFocal fovy h ≤ max n f) := by
  rw [planar_none_iff]
  have g1 : (-(Angle.turnDiv (Lits.radFull : F) 2) < fovy ∧ fovy < Angle.turnDiv (Lits.radFull : F) 2) ↔
      ¬ (Lits.radFull / 2 ≤ |fovy|) := by
    rw [turnDiv_two, le_abs, not_or, not_le, not_le]
    constructor
    · rintro ⟨a, b⟩; exact ⟨b, by linarith⟩
    · rintro ⟨a, b⟩; exact ⟨by linarith, a⟩
  have g3 : (0 ≤ h) ↔ ¬ h < 0 := not_lt.symm
  have g4 : absDiffEqD (sabs aspect) (0 : F) = false ↔ ¬ |aspect| ≤ Approx.eps := by
    rw [S.absDiffEqD_false_iff, sabs_eq_abs, sub_zero, abs_abs, not_le]
  have g5 : absDiffEqD f n = false ↔ ¬ |f - n| ≤ Approx.eps := by
    rw [S.absDiffEqD_false_iff, not_le]
  have g6 : (-((1 : F) / planarInvF fovy h) < smin f n ∨ smax f n < -((1 : F) / planarInvF fovy h)) ↔
      ¬ (min n f ≤ planarFocal fovy h ∧ planarFocal fovy h ≤ max n f) := by
    rw [smin_eq_min, smax_eq_max, min_comm, max_comm, not_and_or, not_le, not_le]; rfl
  have g7 : ∀ (hh : 0 ≤ h), (¬ 0 < h) ↔ h = 0 := fun hh => ⟨fun x => le_antisymm (not_lt.mp x) hh, fun e => by rw [e]; exact lt_irrefl 0⟩
  simp only [zero_iff]
  by_cases hh : 0 ≤ h
  · have hn : ¬ h < 0 := not_lt.mpr hh
    rw [g7 hh, ← and_assoc, g1, g4, g5, g6]
    exact planar_prop _ _ _ _ _ _ _ _ _ hh hn
  · have hl : h < 0 := not_le.mp hh
    constructor
    · intro _; exact Or.inr (Or.inl hl)
    · intro _ hc; exact hh hc.2.2.1
/-- `|fovy| ≥ half turn` -/
theorem planar_none_of_fovy (fovy aspect h n f : F) (hf : Lits.radFull / 2 ≤ |fovy|) :
    planar fovy aspect h n f = none := by
  rw [planar_none_iff, turnDiv_two]
  rintro ⟨h1, h2, -⟩
  rcases le_abs.mp hf with h' | h'
  · exact absurd h2 (not_lt.mpr h')
  · exact absurd h1 (not_lt.mpr (le_neg_of_le_neg h'))
/-- negative height -/
theorem planar_none_of_height (fovy aspect h n f : F) (hh : h < 0) :
    planar fovy aspect h n f = none := by
  rw [planar_none_iff]
  rintro ⟨-, -, h1, -⟩
  exact absurd h1 (not_le.mpr hh)
/-- zero aspect -/
theorem planar_none_of_aspect (S : ApproxLaws F) (fovy aspect h n f : F) (ha : aspect = 0) :
    planar fovy aspect h n f = none := by
  rw [planar_none_iff]
  rintro ⟨-, -, -, h1, -⟩
  rw [ha, sabs_eq_abs, abs_zero, S.absDiffEqD_refl] at h1
  exact Bool.noConfusion h1
/-- near = far -/
theorem planar_none_of_near_eq_far (S : ApproxLaws F) (fovy aspect h n f : F) (hnf : n = f) :
    planar fovy aspect h n f = none := by
  rw [planar_none_iff]
  rintro ⟨-, -, -, -, h1, -⟩
  rw [hnf, S.absDiffEqD_refl] at h1
  exact Bool.noConfusion h1
/-- focal point between the planes (inclusive) -- for a finite focal point (`tan(fovy/2) ≠ 0`); with `tan(fovy/2) = 0` and a
positive height (fovy = 0, the orthographic case) the code's focal point is an infinity and never lies between the planes -/
theorem planar_none_of_focal (fovy aspect h n f : F) (hT : Rad.tan (fovy / two) ≠ 0)
    (hb : min n f ≤ planarFocal fovy h ∧ planarFocal fovy h ≤ max n f) :
    planar fovy aspect h n f = none := by
  rw [planar_none_iff]
  rintro ⟨-, -, -, -, -, -, h1⟩
  rw [smin_eq_min, smax_eq_max, min_comm, max_comm] at h1
  rcases h1 with h1 | h1 | h1
  · exact hT ((zero_iff _).mp h1.1)
  · exact absurd hb.1 (not_le.mpr h1)
  · exact absurd hb.2 (not_le.mpr h1)
/-- the orthographic case: with `tan(fovy/2) = 0` and a positive height the focal-point assertion never fires, wherever the
planes are (the code's focal point is an infinity) -/
theorem planar_some_of_tan_zero (S : ApproxLaws F) (fovy aspect h n f : F) (hT : Rad.tan (fovy / two) = 0)
    (h1 : -(Lits.radFull / 2) < fovy) (h2 : fovy < Lits.radFull / 2) (h3 : 0 < h)
    (h4 : Approx.eps < |aspect|) (h5 : Approx.eps < |f - n|) :
    planar fovy aspect h n f = some (planarMat fovy aspect h n f) := by
  apply planar_some
  refine ⟨by rw [turnDiv_two]; exact h1, by rw [turnDiv_two]; exact h2, h3.le, ?_, ?_, fun hc => hc.2 h3,
    Or.inl ⟨(zero_iff _).mpr hT, h3⟩⟩
  · rw [S.absDiffEqD_false_iff, sabs_eq_abs, sub_zero, abs_abs]; exact h4
  · rw [S.absDiffEqD_false_iff]; exact h5
/-- `tan(fovy/2) = 0` with height 0: `inv_f = 0/0`, the assertion fails -/
theorem planar_none_of_nan (fovy aspect h n f : F) (hT : Rad.tan (fovy / two) = 0) (h0 : h = 0) :
    planar fovy aspect h n f = none := by
  rw [planar_none_iff]
  rintro ⟨-, -, -, -, -, h1, -⟩
  exact h1 ⟨(zero_iff _).mpr hT, by rw [h0]; exact lt_irrefl 0⟩
end reject

/-! ## acceptance ⇒ mapping, over `ℝ` with the half turn `π` -/
section real
variable [Lits ℝ] [Approx ℝ]

/-- every tuple accepted by `perspective` gives the `frustum` matrix of the symmetric window of
half-height `n tan(fovy/2)` and half-width `aspect` times that, and `to_perspective` returns
exactly that window -/
theorem perspective_accept_eq_frustum (S : ApproxLaws ℝ) (hT : (Lits.radFull : ℝ) = 2 * Real.pi)
    (fovy aspect n f : ℝ) (m : M4 ℝ) (h : perspective fovy aspect n f = some m) :
    m = frustumMat (-(n * Real.tan (fovy / 2) * aspect)) (n * Real.tan (fovy / 2) * aspect)
          (-(n * Real.tan (fovy / 2))) (n * Real.tan (fovy / 2)) n f ∧
    toPerspective fovy aspect n f =
      [-(n * Real.tan (fovy / 2) * aspect), n * Real.tan (fovy / 2) * aspect,
       -(n * Real.tan (fovy / 2)), n * Real.tan (fovy / 2), n, f] ∧
    0 < Real.tan (fovy / 2) := by
  obtain ⟨hm, h1, h2, -, ha, hn, -, -, hnf⟩ := perspective_some_guards S fovy aspect n f m h
  have htan : 0 < Real.tan (fovy / 2) :=
    tan_half_pos fovy (Lits.radFull : ℝ) (by rw [hT]; linarith [Real.pi_pos]) h1 h2
  have hT' : Transc.tan (fovy / 2) ≠ 0 := by rw [transc_tan]; exact htan.ne'
  obtain ⟨e1, e2⟩ := perspective_eq_frustum fovy aspect n f hT' ha hn.ne' (sub_ne_zero.mpr hnf)
  simp only [transc_tan] at e1 e2
  exact ⟨hm.trans e1, e2, htan⟩

/-- if moreover the aspect is positive and near < far (the intended use), `frustum` accepts that
window and returns the same matrix: `perspective(fovy, aspect, n, f) = frustum(-x, x, -y, y, n, f)` -/
theorem perspective_accept_eq_frustum_call (S : ApproxLaws ℝ)
    (hT : (Lits.radFull : ℝ) = 2 * Real.pi)
    (fovy aspect n f : ℝ) (m : M4 ℝ) (h : perspective fovy aspect n f = some m)
    (ha : 0 ≤ aspect) (hnf : n ≤ f) :
    frustum (-(n * Real.tan (fovy / 2) * aspect)) (n * Real.tan (fovy / 2) * aspect)
          (-(n * Real.tan (fovy / 2))) (n * Real.tan (fovy / 2)) n f = some m := by
  obtain ⟨e, -, htan⟩ := perspective_accept_eq_frustum S hT fovy aspect n f m h
  obtain ⟨-, -, -, -, -, hn, -⟩ := perspective_some_guards S fovy aspect n f m h
  rw [e]
  apply frustum_some
  have hy : 0 ≤ n * Real.tan (fovy / 2) := (mul_pos hn htan).le
  have hx : 0 ≤ n * Real.tan (fovy / 2) * aspect := mul_nonneg hy ha
  exact ⟨by linarith, by linarith, hnf⟩
/-- with a negative aspect `perspective` still accepts (it tests `|aspect|`) but the window is
reversed (`left > right`), so `frustum` itself would panic on it -/
theorem perspective_neg_aspect_frustum_rejects (S : ApproxLaws ℝ)
    (hT : (Lits.radFull : ℝ) = 2 * Real.pi)
    (fovy aspect n f : ℝ) (m : M4 ℝ) (h : perspective fovy aspect n f = some m)
    (ha : aspect < 0) :
    frustum (-(n * Real.tan (fovy / 2) * aspect)) (n * Real.tan (fovy / 2) * aspect)
          (-(n * Real.tan (fovy / 2))) (n * Real.tan (fovy / 2)) n f = none := by
  obtain ⟨-, -, htan⟩ := perspective_accept_eq_frustum S hT fovy aspect n f m h
  obtain ⟨-, -, -, -, -, hn, -⟩ := perspective_some_guards S fovy aspect n f m h
  rw [frustum_none_iff']
  left
  have hy : 0 < n * Real.tan (fovy / 2) := mul_pos hn htan
  nlinarith
end real

/-! ## fully concrete: the `Approx ℝ` instance of RealApprox.lean and `Lits.radFull = 2π` -/
section concrete
open scoped Cg.RealApprox
variable [Lits ℝ]

/-- the accepted tuples of `perspective` over `ℝ` are exactly those with `0 < fovy < π`,
`|aspect| > 2^-52`, positive near and far, `|far - near| > 2^-52`; each of them gives the
`frustum` matrix of the symmetric window -/
theorem real_perspective (hT : (Lits.radFull : ℝ) = 2 * Real.pi) (fovy aspect n f : ℝ) :
    (perspective fovy aspect n f = none ↔
      fovy ≤ 0 ∨ Real.pi ≤ fovy ∨ |aspect| ≤ eps52R ∨ n ≤ 0 ∨ f ≤ 0 ∨ |f - n| ≤ eps52R) ∧
    (∀ m, perspective fovy aspect n f = some m →
      m = frustumMat (-(n * Real.tan (fovy / 2) * aspect)) (n * Real.tan (fovy / 2) * aspect)
          (-(n * Real.tan (fovy / 2))) (n * Real.tan (fovy / 2)) n f) := by
  refine ⟨?_, fun m h => (perspective_accept_eq_frustum realApproxLaws hT fovy aspect n f m h).1⟩
  rw [perspective_none_iff' realApproxLaws, hT]
  simp only [real_eps, mul_div_cancel_left₀ Real.pi (two_ne_zero' ℝ)]

/-- the acceptance hypothesis is satisfiable (fovy = 1 rad, aspect 4/3, near 1, far 100) -/
example (hT : (Lits.radFull : ℝ) = 2 * Real.pi) :
    ∃ m, perspective (1 : ℝ) (4 / 3) 1 100 = some m := by
  refine ⟨perspectiveMat 1 (4 / 3) 1 100, ?_⟩
  have hne : perspective (1 : ℝ) (4 / 3) 1 100 ≠ none := by
    rw [Ne, (real_perspective hT _ _ _ _).1]
    have hpi := Real.two_le_pi
    have he : eps52R < 1 := by unfold eps52R; norm_num
    have h1 : |(4 / 3 : ℝ)| = 4 / 3 := abs_of_pos (by norm_num)
    have h2 : |(100 - 1 : ℝ)| = 99 := by norm_num
    rw [h1, h2]
    intro hc
    rcases hc with hc | hc | hc | hc | hc | hc <;> linarith
  obtain ⟨m, hm⟩ := Option.ne_none_iff_exists'.mp hne
  rw [hm, (perspective_some_guards realApproxLaws _ _ _ _ m hm).1]
end concrete

end Cg.C10
