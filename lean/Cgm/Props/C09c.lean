import Cgm.Props.C09b
import Cgm.Props.C05
/-!
# C09 (continued) — the quaternion `look_at`

`Quaternion::look_at(d, up) = Matrix3::look_to_lh(d, up).into()`.  The conversion
`From<Matrix3> for Quaternion` (`M3.toQuat`) is a right inverse of `Quat.toM3` on rotation matrices
(`toM3_toQuat`), so the quaternion rotates exactly like the left-handed `Matrix3`/`Basis3`.
-/
set_option linter.unusedSectionVars false
set_option linter.unusedVariables false
namespace Cg.C09
open Cg Real

/-! ## polynomial identities of `SO(3)` (entries `a b c | d e f | g h i`, column-major) -/
theorem so3_cof (a b c d e f g h i : ℝ) (c00 : a^2 + b^2 + c^2 = 1) (c01 : a*d + b*e + c*f = 0) (c02 : a*g + b*h + c*i = 0) (c11 : d^2 + e^2 + f^2 = 1) (c12 : d*g + e*h + f*i = 0) (c22 : g^2 + h^2 + i^2 = 1)
    (hdet : a*(e*i - f*h) - d*(b*i - c*h) + g*(b*f - c*e) = 1) :
    a = e*i - f*h ∧ d = -b*i + c*h ∧ g = b*f - c*e ∧ b = -d*i + f*g ∧ e = a*i - c*g ∧ h = -a*f + c*d ∧ c = d*h - e*g ∧ f = -a*h + b*g ∧ i = a*e - b*d := by
  refine ⟨?_, ?_, ?_, ?_, ?_, ?_, ?_, ?_, ?_⟩
  · linear_combination (e*i - f*h) * c00 + (-b*i + c*h) * c01 + (b*f - c*e) * c02 + (-a) * hdet
  · linear_combination (e*i - f*h) * c01 + (-b*i + c*h) * c11 + (b*f - c*e) * c12 + (-d) * hdet
  · linear_combination (e*i - f*h) * c02 + (-b*i + c*h) * c12 + (b*f - c*e) * c22 + (-g) * hdet
  · linear_combination (-d*i + f*g) * c00 + (a*i - c*g) * c01 + (-a*f + c*d) * c02 + (-b) * hdet
  · linear_combination (-d*i + f*g) * c01 + (a*i - c*g) * c11 + (-a*f + c*d) * c12 + (-e) * hdet
  · linear_combination (-d*i + f*g) * c02 + (a*i - c*g) * c12 + (-a*f + c*d) * c22 + (-h) * hdet
  · linear_combination (d*h - e*g) * c00 + (-a*h + b*g) * c01 + (a*e - b*d) * c02 + (-c) * hdet
  · linear_combination (d*h - e*g) * c01 + (-a*h + b*g) * c11 + (a*e - b*d) * c12 + (-f) * hdet
  · linear_combination (d*h - e*g) * c02 + (-a*h + b*g) * c12 + (a*e - b*d) * c22 + (-i) * hdet
theorem so3_row (a b c d e f g h i : ℝ) (ka : a = e*i - f*h) (kd : d = -b*i + c*h) (kg : g = b*f - c*e) (kb : b = -d*i + f*g) (ke : e = a*i - c*g) (kh : h = -a*f + c*d) (kc : c = d*h - e*g) (kf : f = -a*h + b*g) (ki : i = a*e - b*d)
    (hdet : a*(e*i - f*h) - d*(b*i - c*h) + g*(b*f - c*e) = 1) :
    a^2 + d^2 + g^2 = 1 ∧ a*b + d*e + g*h = 0 ∧ a*c + d*f + g*i = 0 ∧ b^2 + e^2 + h^2 = 1 ∧ b*c + e*f + h*i = 0 ∧ c^2 + f^2 + i^2 = 1 := by
  refine ⟨?_, ?_, ?_, ?_, ?_, ?_⟩
  · linear_combination (a) * ka + (d) * kd + (g) * kg + hdet
  · linear_combination (a) * kb + (d) * ke + (g) * kh
  · linear_combination (a) * kc + (d) * kf + (g) * ki
  · linear_combination (b) * kb + (e) * ke + (h) * kh + hdet
  · linear_combination (b) * kc + (e) * kf + (h) * ki
  · linear_combination (c) * kc + (f) * kf + (i) * ki + hdet
theorem so3_minor0 (a b c d e f g h i : ℝ) (c00 : a^2 + b^2 + c^2 = 1) (c01 : a*d + b*e + c*f = 0) (c02 : a*g + b*h + c*i = 0) (c11 : d^2 + e^2 + f^2 = 1) (c12 : d*g + e*h + f*i = 0) (c22 : g^2 + h^2 + i^2 = 1) (ka : a = e*i - f*h) (kd : d = -b*i + c*h) (kg : g = b*f - c*e) (kb : b = -d*i + f*g) (ke : e = a*i - c*g) (kh : h = -a*f + c*d) (kc : c = d*h - e*g) (kf : f = -a*h + b*g) (ki : i = a*e - b*d) (r00 : a^2 + d^2 + g^2 = 1) (r01 : a*b + d*e + g*h = 0) (r02 : a*c + d*f + g*i = 0) (r11 : b^2 + e^2 + h^2 = 1) (r12 : b*c + e*f + h*i = 0) (r22 : c^2 + f^2 + i^2 = 1) :
    (f - h) * (f - h) = (a + e + i + 1) * (a - e - i + 1) ∧
    (f - h) * (-c + g) = (a + e + i + 1) * (b + d) ∧
    (f - h) * (b - d) = (a + e + i + 1) * (c + g) ∧
    (-c + g) * (-c + g) = (a + e + i + 1) * (-a + e - i + 1) ∧
    (-c + g) * (b - d) = (a + e + i + 1) * (f + h) ∧
    (b - d) * (b - d) = (a + e + i + 1) * (-a - e + i + 1) := by
  refine ⟨?_, ?_, ?_, ?_, ?_, ?_⟩
  · linear_combination (1) * c11 + (1) * c22 + (-2) * ka + (-1) * r00
  · linear_combination (-1) * c01 + (-1) * kd + (-1) * kb + (-1) * r01
  · linear_combination (-1) * c02 + (-1) * kg + (-1) * kc + (-1) * r02
  · linear_combination (1) * c00 + (1) * c22 + (-2) * ke + (-1) * r11
  · linear_combination (-1) * c12 + (-1) * kh + (-1) * kf + (-1) * r12
  · linear_combination (-1) * c22 + (-2) * ki + (1) * r00 + (1) * r11
theorem so3_minor1 (a b c d e f g h i : ℝ) (c00 : a^2 + b^2 + c^2 = 1) (c01 : a*d + b*e + c*f = 0) (c02 : a*g + b*h + c*i = 0) (c11 : d^2 + e^2 + f^2 = 1) (c12 : d*g + e*h + f*i = 0) (c22 : g^2 + h^2 + i^2 = 1) (ka : a = e*i - f*h) (kd : d = -b*i + c*h) (kg : g = b*f - c*e) (kb : b = -d*i + f*g) (ke : e = a*i - c*g) (kh : h = -a*f + c*d) (kc : c = d*h - e*g) (kf : f = -a*h + b*g) (ki : i = a*e - b*d) (r00 : a^2 + d^2 + g^2 = 1) (r01 : a*b + d*e + g*h = 0) (r02 : a*c + d*f + g*i = 0) (r11 : b^2 + e^2 + h^2 = 1) (r12 : b*c + e*f + h*i = 0) (r22 : c^2 + f^2 + i^2 = 1) :
    (f - h) * (f - h) = (a - e - i + 1) * (a + e + i + 1) ∧
    (f - h) * (b + d) = (a - e - i + 1) * (-c + g) ∧
    (f - h) * (c + g) = (a - e - i + 1) * (b - d) ∧
    (b + d) * (b + d) = (a - e - i + 1) * (-a + e - i + 1) ∧
    (b + d) * (c + g) = (a - e - i + 1) * (f + h) ∧
    (c + g) * (c + g) = (a - e - i + 1) * (-a - e + i + 1) := by
  refine ⟨?_, ?_, ?_, ?_, ?_, ?_⟩
  · linear_combination (1) * c11 + (1) * c22 + (-2) * ka + (-1) * r00
  · linear_combination (-1) * c02 + (-1) * kg + (1) * kc + (1) * r02
  · linear_combination (1) * c01 + (1) * kd + (-1) * kb + (-1) * r01
  · linear_combination (-1) * c22 + (2) * ki + (1) * r00 + (1) * r11
  · linear_combination (1) * c12 + (-1) * kh + (-1) * kf + (1) * r12
  · linear_combination (1) * c00 + (1) * c22 + (2) * ke + (-1) * r11
theorem so3_minor2 (a b c d e f g h i : ℝ) (c00 : a^2 + b^2 + c^2 = 1) (c01 : a*d + b*e + c*f = 0) (c02 : a*g + b*h + c*i = 0) (c11 : d^2 + e^2 + f^2 = 1) (c12 : d*g + e*h + f*i = 0) (c22 : g^2 + h^2 + i^2 = 1) (ka : a = e*i - f*h) (kd : d = -b*i + c*h) (kg : g = b*f - c*e) (kb : b = -d*i + f*g) (ke : e = a*i - c*g) (kh : h = -a*f + c*d) (kc : c = d*h - e*g) (kf : f = -a*h + b*g) (ki : i = a*e - b*d) (r00 : a^2 + d^2 + g^2 = 1) (r01 : a*b + d*e + g*h = 0) (r02 : a*c + d*f + g*i = 0) (r11 : b^2 + e^2 + h^2 = 1) (r12 : b*c + e*f + h*i = 0) (r22 : c^2 + f^2 + i^2 = 1) :
    (-c + g) * (-c + g) = (-a + e - i + 1) * (a + e + i + 1) ∧
    (-c + g) * (b + d) = (-a + e - i + 1) * (f - h) ∧
    (-c + g) * (f + h) = (-a + e - i + 1) * (b - d) ∧
    (b + d) * (b + d) = (-a + e - i + 1) * (a - e - i + 1) ∧
    (b + d) * (f + h) = (-a + e - i + 1) * (c + g) ∧
    (f + h) * (f + h) = (-a + e - i + 1) * (-a - e + i + 1) := by
  refine ⟨?_, ?_, ?_, ?_, ?_, ?_⟩
  · linear_combination (1) * c00 + (1) * c22 + (-2) * ke + (-1) * r11
  · linear_combination (1) * c12 + (1) * kh + (-1) * kf + (-1) * r12
  · linear_combination (-1) * c01 + (1) * kd + (-1) * kb + (1) * r01
  · linear_combination (-1) * c22 + (2) * ki + (1) * r00 + (1) * r11
  · linear_combination (1) * c02 + (-1) * kg + (-1) * kc + (1) * r02
  · linear_combination (1) * c11 + (1) * c22 + (2) * ka + (-1) * r00
theorem so3_minor3 (a b c d e f g h i : ℝ) (c00 : a^2 + b^2 + c^2 = 1) (c01 : a*d + b*e + c*f = 0) (c02 : a*g + b*h + c*i = 0) (c11 : d^2 + e^2 + f^2 = 1) (c12 : d*g + e*h + f*i = 0) (c22 : g^2 + h^2 + i^2 = 1) (ka : a = e*i - f*h) (kd : d = -b*i + c*h) (kg : g = b*f - c*e) (kb : b = -d*i + f*g) (ke : e = a*i - c*g) (kh : h = -a*f + c*d) (kc : c = d*h - e*g) (kf : f = -a*h + b*g) (ki : i = a*e - b*d) (r00 : a^2 + d^2 + g^2 = 1) (r01 : a*b + d*e + g*h = 0) (r02 : a*c + d*f + g*i = 0) (r11 : b^2 + e^2 + h^2 = 1) (r12 : b*c + e*f + h*i = 0) (r22 : c^2 + f^2 + i^2 = 1) :
    (b - d) * (b - d) = (-a - e + i + 1) * (a + e + i + 1) ∧
    (b - d) * (c + g) = (-a - e + i + 1) * (f - h) ∧
    (b - d) * (f + h) = (-a - e + i + 1) * (-c + g) ∧
    (c + g) * (c + g) = (-a - e + i + 1) * (a - e - i + 1) ∧
    (c + g) * (f + h) = (-a - e + i + 1) * (b + d) ∧
    (f + h) * (f + h) = (-a - e + i + 1) * (-a + e - i + 1) := by
  refine ⟨?_, ?_, ?_, ?_, ?_, ?_⟩
  · linear_combination (-1) * c22 + (-2) * ki + (1) * r00 + (1) * r11
  · linear_combination (-1) * c12 + (1) * kh + (-1) * kf + (1) * r12
  · linear_combination (1) * c02 + (-1) * kg + (1) * kc + (-1) * r02
  · linear_combination (1) * c00 + (1) * c22 + (2) * ke + (-1) * r11
  · linear_combination (1) * c01 + (-1) * kd + (-1) * kb + (1) * r01
  · linear_combination (1) * c11 + (1) * c22 + (2) * ka + (-1) * r00

/-- a quaternion whose outer product `4 q qᵀ` is the symmetric 4×4 matrix `K(m)` converts to `m` and is unit -/
theorem toM3_of_outer (a b c d e f g h i : ℝ) {w x y z : ℝ}
    (hww : 4 * (w * w) = 1 + a + e + i) (hxx : 4 * (x * x) = 1 + a - e - i)
    (hyy : 4 * (y * y) = 1 - a + e - i) (hzz : 4 * (z * z) = 1 - a - e + i)
    (hwx : 4 * (w * x) = f - h) (hwy : 4 * (w * y) = g - c) (hwz : 4 * (w * z) = b - d)
    (hxy : 4 * (x * y) = b + d) (hxz : 4 * (x * z) = c + g) (hyz : 4 * (y * z) = f + h) :
    (Quat.new w x y z).toM3 = ⟨⟨a, b, c⟩, ⟨d, e, f⟩, ⟨g, h, i⟩⟩ ∧ (Quat.new w x y z).magnitude2 = 1 := by
  constructor
  · ext <;> simp [Quat.toM3, Quat.new, Quat.fromSv]
    · linear_combination (-1/2) * hyy + (-1/2) * hzz
    · linear_combination (1/2) * hxy + (1/2) * hwz
    · linear_combination (1/2) * hxz - (1/2) * hwy
    · linear_combination (1/2) * hxy - (1/2) * hwz
    · linear_combination (-1/2) * hxx + (-1/2) * hzz
    · linear_combination (1/2) * hyz + (1/2) * hwx
    · linear_combination (1/2) * hxz + (1/2) * hwy
    · linear_combination (1/2) * hyz - (1/2) * hwx
    · linear_combination (-1/2) * hxx + (-1/2) * hyy
  · simp [Quat.new, Quat.fromSv]
    linear_combination (1/4) * hww + (1/4) * hxx + (1/4) * hyy + (1/4) * hzz

theorem branch0 (a b c d e f g h i S r : ℝ) (c00 : a^2 + b^2 + c^2 = 1) (c01 : a*d + b*e + c*f = 0) (c02 : a*g + b*h + c*i = 0) (c11 : d^2 + e^2 + f^2 = 1) (c12 : d*g + e*h + f*i = 0) (c22 : g^2 + h^2 + i^2 = 1) (ka : a = e*i - f*h) (kd : d = -b*i + c*h) (kg : g = b*f - c*e) (kb : b = -d*i + f*g) (ke : e = a*i - c*g) (kh : h = -a*f + c*d) (kc : c = d*h - e*g) (kf : f = -a*h + b*g) (ki : i = a*e - b*d) (r00 : a^2 + d^2 + g^2 = 1) (r01 : a*b + d*e + g*h = 0) (r02 : a*c + d*f + g*i = 0) (r11 : b^2 + e^2 + h^2 = 1) (r12 : b*c + e*f + h*i = 0) (r22 : c^2 + f^2 + i^2 = 1)
    (hS : S * S = a + e + i + 1) (hr : r * S = 1 / 2) :
    (Quat.new (1 / 2 * S) ((f - h) * r) ((g - c) * r) ((b - d) * r)).toM3 = ⟨⟨a, b, c⟩, ⟨d, e, f⟩, ⟨g, h, i⟩⟩ ∧
    (Quat.new (1 / 2 * S) ((f - h) * r) ((g - c) * r) ((b - d) * r)).magnitude2 = 1 := by
  obtain ⟨m0, m1, m2, m3, m4, m5⟩ := so3_minor0 a b c d e f g h i c00 c01 c02 c11 c12 c22 ka kd kg kb ke kh kc kf ki r00 r01 r02 r11 r12 r22
  apply toM3_of_outer a b c d e f g h i
  · linear_combination hS
  · linear_combination (4 * r^2) * m0 + (-4 * r^2 * (a - e - i + 1)) * hS + (4 * (a - e - i + 1) * (r * S + 1 / 2)) * hr
  · linear_combination (4 * r^2) * m3 + (-4 * r^2 * (-a + e - i + 1)) * hS + (4 * (-a + e - i + 1) * (r * S + 1 / 2)) * hr
  · linear_combination (4 * r^2) * m5 + (-4 * r^2 * (-a - e + i + 1)) * hS + (4 * (-a - e + i + 1) * (r * S + 1 / 2)) * hr
  · linear_combination (2 * (f - h)) * hr
  · linear_combination (2 * (-c + g)) * hr
  · linear_combination (2 * (b - d)) * hr
  · linear_combination (4 * r^2) * m1 + (-4 * r^2 * (b + d)) * hS + (4 * (b + d) * (r * S + 1 / 2)) * hr
  · linear_combination (4 * r^2) * m2 + (-4 * r^2 * (c + g)) * hS + (4 * (c + g) * (r * S + 1 / 2)) * hr
  · linear_combination (4 * r^2) * m4 + (-4 * r^2 * (f + h)) * hS + (4 * (f + h) * (r * S + 1 / 2)) * hr
theorem branch1 (a b c d e f g h i S r : ℝ) (c00 : a^2 + b^2 + c^2 = 1) (c01 : a*d + b*e + c*f = 0) (c02 : a*g + b*h + c*i = 0) (c11 : d^2 + e^2 + f^2 = 1) (c12 : d*g + e*h + f*i = 0) (c22 : g^2 + h^2 + i^2 = 1) (ka : a = e*i - f*h) (kd : d = -b*i + c*h) (kg : g = b*f - c*e) (kb : b = -d*i + f*g) (ke : e = a*i - c*g) (kh : h = -a*f + c*d) (kc : c = d*h - e*g) (kf : f = -a*h + b*g) (ki : i = a*e - b*d) (r00 : a^2 + d^2 + g^2 = 1) (r01 : a*b + d*e + g*h = 0) (r02 : a*c + d*f + g*i = 0) (r11 : b^2 + e^2 + h^2 = 1) (r12 : b*c + e*f + h*i = 0) (r22 : c^2 + f^2 + i^2 = 1)
    (hS : S * S = a - e - i + 1) (hr : r * S = 1 / 2) :
    (Quat.new ((f - h) * r) (1 / 2 * S) ((d + b) * r) ((c + g) * r)).toM3 = ⟨⟨a, b, c⟩, ⟨d, e, f⟩, ⟨g, h, i⟩⟩ ∧
    (Quat.new ((f - h) * r) (1 / 2 * S) ((d + b) * r) ((c + g) * r)).magnitude2 = 1 := by
  obtain ⟨m0, m1, m2, m3, m4, m5⟩ := so3_minor1 a b c d e f g h i c00 c01 c02 c11 c12 c22 ka kd kg kb ke kh kc kf ki r00 r01 r02 r11 r12 r22
  apply toM3_of_outer a b c d e f g h i
  · linear_combination (4 * r^2) * m0 + (-4 * r^2 * (a + e + i + 1)) * hS + (4 * (a + e + i + 1) * (r * S + 1 / 2)) * hr
  · linear_combination hS
  · linear_combination (4 * r^2) * m3 + (-4 * r^2 * (-a + e - i + 1)) * hS + (4 * (-a + e - i + 1) * (r * S + 1 / 2)) * hr
  · linear_combination (4 * r^2) * m5 + (-4 * r^2 * (-a - e + i + 1)) * hS + (4 * (-a - e + i + 1) * (r * S + 1 / 2)) * hr
  · linear_combination (2 * (f - h)) * hr
  · linear_combination (4 * r^2) * m1 + (-4 * r^2 * (-c + g)) * hS + (4 * (-c + g) * (r * S + 1 / 2)) * hr
  · linear_combination (4 * r^2) * m2 + (-4 * r^2 * (b - d)) * hS + (4 * (b - d) * (r * S + 1 / 2)) * hr
  · linear_combination (2 * (b + d)) * hr
  · linear_combination (2 * (c + g)) * hr
  · linear_combination (4 * r^2) * m4 + (-4 * r^2 * (f + h)) * hS + (4 * (f + h) * (r * S + 1 / 2)) * hr
theorem branch2 (a b c d e f g h i S r : ℝ) (c00 : a^2 + b^2 + c^2 = 1) (c01 : a*d + b*e + c*f = 0) (c02 : a*g + b*h + c*i = 0) (c11 : d^2 + e^2 + f^2 = 1) (c12 : d*g + e*h + f*i = 0) (c22 : g^2 + h^2 + i^2 = 1) (ka : a = e*i - f*h) (kd : d = -b*i + c*h) (kg : g = b*f - c*e) (kb : b = -d*i + f*g) (ke : e = a*i - c*g) (kh : h = -a*f + c*d) (kc : c = d*h - e*g) (kf : f = -a*h + b*g) (ki : i = a*e - b*d) (r00 : a^2 + d^2 + g^2 = 1) (r01 : a*b + d*e + g*h = 0) (r02 : a*c + d*f + g*i = 0) (r11 : b^2 + e^2 + h^2 = 1) (r12 : b*c + e*f + h*i = 0) (r22 : c^2 + f^2 + i^2 = 1)
    (hS : S * S = -a + e - i + 1) (hr : r * S = 1 / 2) :
    (Quat.new ((g - c) * r) ((d + b) * r) (1 / 2 * S) ((h + f) * r)).toM3 = ⟨⟨a, b, c⟩, ⟨d, e, f⟩, ⟨g, h, i⟩⟩ ∧
    (Quat.new ((g - c) * r) ((d + b) * r) (1 / 2 * S) ((h + f) * r)).magnitude2 = 1 := by
  obtain ⟨m0, m1, m2, m3, m4, m5⟩ := so3_minor2 a b c d e f g h i c00 c01 c02 c11 c12 c22 ka kd kg kb ke kh kc kf ki r00 r01 r02 r11 r12 r22
  apply toM3_of_outer a b c d e f g h i
  · linear_combination (4 * r^2) * m0 + (-4 * r^2 * (a + e + i + 1)) * hS + (4 * (a + e + i + 1) * (r * S + 1 / 2)) * hr
  · linear_combination (4 * r^2) * m3 + (-4 * r^2 * (a - e - i + 1)) * hS + (4 * (a - e - i + 1) * (r * S + 1 / 2)) * hr
  · linear_combination hS
  · linear_combination (4 * r^2) * m5 + (-4 * r^2 * (-a - e + i + 1)) * hS + (4 * (-a - e + i + 1) * (r * S + 1 / 2)) * hr
  · linear_combination (4 * r^2) * m1 + (-4 * r^2 * (f - h)) * hS + (4 * (f - h) * (r * S + 1 / 2)) * hr
  · linear_combination (2 * (-c + g)) * hr
  · linear_combination (4 * r^2) * m2 + (-4 * r^2 * (b - d)) * hS + (4 * (b - d) * (r * S + 1 / 2)) * hr
  · linear_combination (2 * (b + d)) * hr
  · linear_combination (4 * r^2) * m4 + (-4 * r^2 * (c + g)) * hS + (4 * (c + g) * (r * S + 1 / 2)) * hr
  · linear_combination (2 * (f + h)) * hr
theorem branch3 (a b c d e f g h i S r : ℝ) (c00 : a^2 + b^2 + c^2 = 1) (c01 : a*d + b*e + c*f = 0) (c02 : a*g + b*h + c*i = 0) (c11 : d^2 + e^2 + f^2 = 1) (c12 : d*g + e*h + f*i = 0) (c22 : g^2 + h^2 + i^2 = 1) (ka : a = e*i - f*h) (kd : d = -b*i + c*h) (kg : g = b*f - c*e) (kb : b = -d*i + f*g) (ke : e = a*i - c*g) (kh : h = -a*f + c*d) (kc : c = d*h - e*g) (kf : f = -a*h + b*g) (ki : i = a*e - b*d) (r00 : a^2 + d^2 + g^2 = 1) (r01 : a*b + d*e + g*h = 0) (r02 : a*c + d*f + g*i = 0) (r11 : b^2 + e^2 + h^2 = 1) (r12 : b*c + e*f + h*i = 0) (r22 : c^2 + f^2 + i^2 = 1)
    (hS : S * S = -a - e + i + 1) (hr : r * S = 1 / 2) :
    (Quat.new ((b - d) * r) ((c + g) * r) ((h + f) * r) (1 / 2 * S)).toM3 = ⟨⟨a, b, c⟩, ⟨d, e, f⟩, ⟨g, h, i⟩⟩ ∧
    (Quat.new ((b - d) * r) ((c + g) * r) ((h + f) * r) (1 / 2 * S)).magnitude2 = 1 := by
  obtain ⟨m0, m1, m2, m3, m4, m5⟩ := so3_minor3 a b c d e f g h i c00 c01 c02 c11 c12 c22 ka kd kg kb ke kh kc kf ki r00 r01 r02 r11 r12 r22
  apply toM3_of_outer a b c d e f g h i
  · linear_combination (4 * r^2) * m0 + (-4 * r^2 * (a + e + i + 1)) * hS + (4 * (a + e + i + 1) * (r * S + 1 / 2)) * hr
  · linear_combination (4 * r^2) * m3 + (-4 * r^2 * (a - e - i + 1)) * hS + (4 * (a - e - i + 1) * (r * S + 1 / 2)) * hr
  · linear_combination (4 * r^2) * m5 + (-4 * r^2 * (-a + e - i + 1)) * hS + (4 * (-a + e - i + 1) * (r * S + 1 / 2)) * hr
  · linear_combination hS
  · linear_combination (4 * r^2) * m1 + (-4 * r^2 * (f - h)) * hS + (4 * (f - h) * (r * S + 1 / 2)) * hr
  · linear_combination (4 * r^2) * m2 + (-4 * r^2 * (-c + g)) * hS + (4 * (-c + g) * (r * S + 1 / 2)) * hr
  · linear_combination (2 * (b - d)) * hr
  · linear_combination (4 * r^2) * m4 + (-4 * r^2 * (b + d)) * hS + (4 * (b + d) * (r * S + 1 / 2)) * hr
  · linear_combination (2 * (c + g)) * hr
  · linear_combination (2 * (f + h)) * hr

/-! ## `From<Matrix3> for Quaternion` inverts `From<Quaternion> for Matrix3` on rotation matrices -/
/-- for a rotation matrix `m` (orthonormal, det `+1`), `Quaternion::from(m)` is a unit quaternion
whose matrix is `m` again — in each of the four pivot branches of the conversion -/
theorem toM3_toQuat (m : M3 ℝ) (horth : m.transpose * m = M3.one) (hdet : m.det = 1) :
    m.toQuat.toM3 = m ∧ m.toQuat.magnitude2 = 1 := by
  have e1 := congrArg (fun m : M3 ℝ => m.x.x) horth
  have e2 := congrArg (fun m : M3 ℝ => m.x.y) horth
  have e3 := congrArg (fun m : M3 ℝ => m.x.z) horth
  have e5 := congrArg (fun m : M3 ℝ => m.y.y) horth
  have e6 := congrArg (fun m : M3 ℝ => m.y.z) horth
  have e9 := congrArg (fun m : M3 ℝ => m.z.z) horth
  have hdet' := hdet
  obtain ⟨⟨a, b, c⟩, ⟨d, e, f⟩, ⟨g, h, i⟩⟩ := m
  simp at e1 e2 e3 e5 e6 e9 hdet'
  have c00 : a^2 + b^2 + c^2 = 1 := by linear_combination e1
  have c01 : a*d + b*e + c*f = 0 := by linear_combination e2
  have c02 : a*g + b*h + c*i = 0 := by linear_combination e3
  have c11 : d^2 + e^2 + f^2 = 1 := by linear_combination e5
  have c12 : d*g + e*h + f*i = 0 := by linear_combination e6
  have c22 : g^2 + h^2 + i^2 = 1 := by linear_combination e9
  have hd : a*(e*i - f*h) - d*(b*i - c*h) + g*(b*f - c*e) = 1 := by linear_combination hdet'
  obtain ⟨ka, kd, kg, kb, ke, kh, kc, kf, ki⟩ := so3_cof a b c d e f g h i c00 c01 c02 c11 c12 c22 hd
  obtain ⟨r00, r01, r02, r11, r12, r22⟩ := so3_row a b c d e f g h i ka kd kg kb ke kh kc kf ki hd
  unfold M3.toQuat
  simp only [M3.trace, M3.diagonal, V3.sum, half_eq, transc_sqrt]
  split_ifs with ht hxx hyy
  · have hp : 0 < 1 + (a + (e + i)) := by linarith
    exact branch0 a b c d e f g h i (√(1 + (a + (e + i)))) (1 / 2 / √(1 + (a + (e + i))))
      c00 c01 c02 c11 c12 c22 ka kd kg kb ke kh kc kf ki r00 r01 r02 r11 r12 r22
      ((Real.mul_self_sqrt hp.le).trans (by ring))
      (by have := (Real.sqrt_pos.mpr hp).ne'; field_simp)
  · have hp : 0 < a - e - i + 1 := by linarith [hxx.1, hxx.2]
    exact branch1 a b c d e f g h i (√(a - e - i + 1)) (1 / 2 / √(a - e - i + 1))
      c00 c01 c02 c11 c12 c22 ka kd kg kb ke kh kc kf ki r00 r01 r02 r11 r12 r22
      ((Real.mul_self_sqrt hp.le).trans (by ring))
      (by have := (Real.sqrt_pos.mpr hp).ne'; field_simp)
  · have hp : 0 < e - a - i + 1 := by
      rw [not_and_or, not_lt, not_lt] at hxx
      rcases hxx with h1 | h1 <;> linarith
    exact branch2 a b c d e f g h i (√(e - a - i + 1)) (1 / 2 / √(e - a - i + 1))
      c00 c01 c02 c11 c12 c22 ka kd kg kb ke kh kc kf ki r00 r01 r02 r11 r12 r22
      ((Real.mul_self_sqrt hp.le).trans (by ring))
      (by have := (Real.sqrt_pos.mpr hp).ne'; field_simp)
  · have hp : 0 < i - a - e + 1 := by
      rw [not_and_or, not_lt, not_lt] at hxx
      rcases hxx with h1 | h1 <;> linarith
    exact branch3 a b c d e f g h i (√(i - a - e + 1)) (1 / 2 / √(i - a - e + 1))
      c00 c01 c02 c11 c12 c22 ka kd kg kb ke kh kc kf ki r00 r01 r02 r11 r12 r22
      ((Real.mul_self_sqrt hp.le).trans (by ring))
      (by have := (Real.sqrt_pos.mpr hp).ne'; field_simp)

/-! ## `Quaternion::look_at` and `Decomposed<Vector3, Quaternion>::look_at*` -/
/-- `Quaternion::look_at(d, up)` (`Rotation::look_at`, left-handed): a unit quaternion whose matrix
is `Matrix3::look_to_lh(d, up)`; it rotates every vector like that matrix / like `Basis3::look_at`,
so `d ↦ (0, 0, +|d|)` and `up ↦ (0, y ≥ 0, ·)` -/
theorem quat_lookAt_spec (d up : V3 ℝ) (hd : 0 < d.magnitude2) (hup : 0 < (V3.cross d up).magnitude2) :
    let q := Quat.lookAt d up
    q.magnitude2 = 1 ∧ q.toM3 = M3.lookToLh d up ∧
    (∀ v, q.rotateVector v = M3.lookToLh d up * v) ∧
    (∀ v, q.rotateVector v = (Basis3.lookAt d up).rotateVector v) ∧
    q.rotateVector d = ⟨0, 0, d.magnitude⟩ ∧
    (q.rotateVector up).x = 0 ∧ 0 ≤ (q.rotateVector up).y := by
  obtain ⟨a1, a2, a3, a4, a5⟩ := lookToLh3_spec d up hd hup
  obtain ⟨b1, b2⟩ := toM3_toQuat (M3.lookToLh d up) a1 a2
  intro q
  have hq : q = (M3.lookToLh d up).toQuat := rfl
  have hrot : ∀ v, q.rotateVector v = M3.lookToLh d up * v := by
    intro v
    show q * v = _
    rw [← Cg.C05.toM3_mulVec, hq, b1]
  refine ⟨by rw [hq]; exact b2, by rw [hq]; exact b1, hrot, hrot, ?_, ?_, ?_⟩
  · rw [hrot]; exact a3
  · rw [hrot]; exact a4
  · rw [hrot]; exact a5

/-- `Decomposed::<_, Quaternion>::look_at_lh / look_at` and `look_at_rh`: converting to `Matrix4`
gives `Matrix4::look_at_lh`, resp. `Matrix4::look_at_rh`, and the eye goes to the origin -/
theorem decomposed_quat_lookAt (eye center : P3 ℝ) (up : V3 ℝ)
    (hd : 0 < (center - eye : V3 ℝ).magnitude2)
    (hup : 0 < (V3.cross (center - eye) up).magnitude2) :
    (let t : Decomposed (Quat ℝ) (V3 ℝ) ℝ :=
      Decomposed.lookAtDir quatOps (center - eye) up V3.zero eye.toVec
     Decomposed.toM4 quatOps t = M4.lookAtLh eye center up ∧
     t.transformPointV quatOps eye.toVec = V3.zero) ∧
    (let t : Decomposed (Quat ℝ) (V3 ℝ) ℝ :=
      Decomposed.lookAtDir quatOps (eye - center) up V3.zero eye.toVec
     Decomposed.toM4 quatOps t = M4.lookAtRh eye center up ∧
     t.transformPointV quatOps eye.toVec = V3.zero) := by
  have key : ∀ dir : V3 ℝ, 0 < dir.magnitude2 → 0 < (V3.cross dir up).magnitude2 →
      Decomposed.toM4 quatOps
        (Decomposed.lookAtDir quatOps dir up V3.zero eye.toVec : Decomposed (Quat ℝ) (V3 ℝ) ℝ)
        = assemble (M3.lookToLh dir up) eye ∧
      (Decomposed.lookAtDir quatOps dir up V3.zero eye.toVec :
        Decomposed (Quat ℝ) (V3 ℝ) ℝ).transformPointV quatOps eye.toVec = V3.zero := by
    intro dir h1 h2
    obtain ⟨_, q2, q3, _⟩ := quat_lookAt_spec dir up h1 h2
    constructor
    · show ({ ((Quat.lookAt dir up).toM3 * (1 : ℝ)).toM4 with
          w := ((Quat.lookAt dir up).rotateVector (V3.zero - eye.toVec)).extend 1 } : M4 ℝ) = _
      rw [q2, q3]; rfl
    · show (Quat.lookAt dir up).rotateVector (eye.toVec * (1 : ℝ))
          + (Quat.lookAt dir up).rotateVector (V3.zero - eye.toVec) = _
      rw [q3, q3]
      show M3.mulVec _ _ + M3.mulVec _ _ = _
      ext <;> simp <;> ring
  have hdir : (eye - center : V3 ℝ) = -(center - eye : V3 ℝ) := (neg_psub center eye).symm
  have hd' : 0 < (eye - center : V3 ℝ).magnitude2 := by
    rw [hdir]; exact (nondeg _ up hd hup).2.2.1
  have hup' : 0 < (V3.cross (eye - center) up).magnitude2 := by
    rw [hdir, cross_neg_mag]; exact hup
  obtain ⟨k1, k2⟩ := key (center - eye) hd hup
  obtain ⟨k3, k4⟩ := key (eye - center) hd' hup'
  refine ⟨⟨?_, k2⟩, ⟨?_, k4⟩⟩
  · rw [k1]
    exact ((decomposed_lookAtLh eye center up hd hup).2.2.2.1)
  · rw [k3]
    exact ((decomposed_lookAtRh eye center up hd hup).2.2.2.1)

example : 0 < (⟨1, 2, 2⟩ : V3 ℝ).magnitude2 ∧ 0 < (V3.cross ⟨1, 2, 2⟩ ⟨0, 1, 0⟩ : V3 ℝ).magnitude2 := by
  constructor <;> (simp; norm_num)
/-- the hypotheses of `toM3_toQuat` are satisfiable, also outside the trace branch
(half turn about `x`: trace `-1`) -/
example : (M3.new 1 0 0 0 (-1) 0 0 0 (-1) : M3 ℝ).transpose * M3.new 1 0 0 0 (-1) 0 0 0 (-1) = M3.one ∧
    (M3.new 1 0 0 0 (-1) 0 0 0 (-1) : M3 ℝ).det = 1 := by
  constructor
  · show M3.mul _ _ = _
    ext <;> simp
  · simp

end Cg.C09
