import Cgm.Model.Scalar
/-!
# Driver runtime: the model's scalar parameters instantiated at core `Rat`

Everything here is mirrored, operation for operation, by
`/verif/harness/src/scalar.rs` (the scalar `X` the real cgmath code is run at).
-/
namespace Cg.Rt

/-! ## oracle interpretation of transcendental calls (DESIGN §3) -/

def P : Nat := 4294967291

def fin (z : UInt64) : UInt64 :=
  let z := z ^^^ (z >>> 30)
  let z := z * 0xBF58476D1CE4E5B9
  let z := z ^^^ (z >>> 27)
  let z := z * 0x94D049BB133111EB
  z ^^^ (z >>> 31)

def oracleHash (tag : UInt64) (x : Rat) (seed : UInt64) : UInt64 :=
  let a : Nat := x.num.natAbs % P + (if x.num < 0 then P else 0)
  let b : Nat := x.den % P
  let z := fin (seed + tag * 0x9E3779B97F4A7C15)
  let z := fin (z ^^^ UInt64.ofNat a)
  fin (z ^^^ UInt64.ofNat b)

def genericVal (h : UInt64) : Rat :=
  let v : Int := (h.toNat % 2000 : Nat) - 1000
  let v := if v ≥ 0 then v + 1 else v
  mkRat v 64

def trigT (x : Rat) (seed : UInt64) : Rat :=
  let h := oracleHash 2 x seed
  mkRat (2 * (h.toNat % 400 : Nat) - 399) 32

def exactSqrt? (x : Rat) : Option Rat :=
  if x < 0 then none else
  let n := x.num.natAbs
  let sn := Nat.sqrt n
  let sd := Nat.sqrt x.den
  if sn * sn = n ∧ sd * sd = x.den then some (mkRat sn sd) else none

def oSqrt (seed : UInt64) (x : Rat) : Rat :=
  match exactSqrt? x with
  | some r => r
  | none => genericVal (oracleHash 1 x seed)
def oCos (seed : UInt64) (x : Rat) : Rat := let t := trigT x seed; (1 - t * t) / (1 + t * t)
def oSin (seed : UInt64) (x : Rat) : Rat := let t := trigT x seed; (t + t) / (1 + t * t)
def oTan (seed : UInt64) (x : Rat) : Rat := let t := trigT x seed; (t + t) / (1 - t * t)
def oFn1 (tag : UInt64) (seed : UInt64) (x : Rat) : Rat := genericVal (oracleHash tag x seed)
def oAtan2 (seed : UInt64) (y x : Rat) : Rat :=
  let h1 := oracleHash 6 y seed
  genericVal (oracleHash 6 x h1)

def transcRat (seed : UInt64) : Transc Rat where
  sqrt := oSqrt seed
  sin := oSin seed
  cos := oCos seed
  tan := oTan seed
  asin := oFn1 3 seed
  acos := oFn1 4 seed
  atan := oFn1 5 seed
  atan2 := oAtan2 seed

/-! ## `%`, `approx`, literals -/

def ratTrunc (x : Rat) : Rat := if x < 0 then -((-x).floor : Rat) else (x.floor : Rat)
/-- C `fmod`: `a - b * trunc(a / b)` (with `a / 0 = 0`, so `a % 0 = a`) -/
def ratFmod (a b : Rat) : Rat := a - b * ratTrunc (a / b)
instance : FRem Rat := ⟨ratFmod⟩

def rabs (x : Rat) : Rat := if x < 0 then -x else x
def rmax (a b : Rat) : Rat := if a < b then b else a
def eps52 : Rat := mkRat 1 4503599627370496

instance : Approx Rat where
  absDiffEq a b e := decide (rabs (a - b) ≤ e)
  relEq a b e mr :=
    let d := rabs (a - b)
    decide (d ≤ e) || decide (d ≤ rmax (rabs a) (rabs b) * mr)
  ulpsEq a b e u :=
    let d := rabs (a - b)
    decide (d ≤ e) || decide (d ≤ rmax (rabs a) (rabs b) * eps52 * (u : Rat))
  eps := eps52
  maxRel := eps52
  maxUlps := 4

instance : Lits Rat where
  thr := mkRat 4501347827556811 4503599627370496
  sig := mkRat 4494592428115755 9007199254740992
  radFull := mkRat 884279719003555 140737488355328
  deg2rad := mkRat 5030569068109113 288230376151711744
  rad2deg := mkRat 1007958012753983 17592186044416
  matEps := mkRat 4722366482869645 4722366482869645213696

/-! ## line protocol -/

inductive Val where
  | s : Rat → Val
  | b : Bool → Val

abbrev Out := Res (List Val)

def showRat (r : Rat) : String := s!"{r.num}/{r.den}"
def showVal : Val → String
  | .s r => showRat r
  | .b true => "T"
  | .b false => "F"
def showOut : Out → String
  | .ok vs => " ".intercalate ("ok" :: vs.map showVal)
  | .none => "none"
  | .panic => "panic"

def parseRat (s : String) : Option Rat :=
  match s.splitOn "/" with
  | [n] => n.toInt?.map (fun i => (i : Rat))
  | [n, d] => do
      let n ← n.toInt?
      let d ← d.toNat?
      if d = 0 then none else some (mkRat n d)
  | _ => none

/-- tokens `#k` are indices, everything else a rational -/
def parseArgs (toks : List String) : Option (List Nat × List Rat) :=
  toks.foldlM (init := ([], [])) fun (is, rs) t =>
    if t.startsWith "#" then (t.drop 1).toNat?.map (fun k => (is ++ [k], rs))
    else (parseRat t).map (fun r => (is, rs ++ [r]))

/-! reading arguments -/
abbrev Rd (α : Type) := StateT (List Rat) Option α
def rx : Rd Rat := fun l => match l with | a :: t => some (a, t) | [] => none
def rend : Rd Unit := fun l => match l with | [] => some ((), []) | _ => none
def rrest : Rd (List Rat) := fun l => some (l, [])

def ofS (l : List Rat) : List Val := l.map Val.s
def okS (l : List Rat) : Out := .ok (ofS l)
def okB (b : Bool) : Out := .ok [Val.b b]
def ofOpt (o : Option (List Rat)) : Out := match o with | some l => okS l | none => .none
/-- an `Option` whose `none` models a panic -/
def ofPanic (o : Option (List Rat)) : Out := match o with | some l => okS l | none => .panic

end Cg.Rt
