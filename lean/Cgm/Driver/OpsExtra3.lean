import Cgm.Driver.OpsExtra2
/-!
# Driver op tables: C18, further types (`harness/src/ops/extra3.rs`)

The three `approx` relations, explicit tolerances and default-tolerance macro forms (`Book4.lean`), of `Euler` (the triple of
its angles: `eulerAbsDiffEq`, …), `Decomposed<Vector3, Quaternion>` (`Decomposed.absDiffEq Quat.absDiffEq V3.absDiffEq`, …: scale,
rotation, displacement with the SAME tolerance arguments), `Basis2` (read as an angle, `⟨M2.fromAngle t⟩`) and `Basis3` (read as
a quaternion, `Basis3.fromQuaternion q`): both forward to the matrix relation.
-/
namespace Cg.Rt
open Cg

/-- the six approx ops of one type, from its reader and its six model relations -/
def approxOpsOf {T : Type} (rd : Rd T) (ad : T → T → Rat → Bool) (re : T → T → Rat → Rat → Bool)
    (ul : T → T → Rat → Nat → Bool) (adD reD ulD : T → T → Bool) (op : String) : Option Op :=
  match op with
  | "abs_diff_eq" => some fun _ => do let u ← rd; let v ← rd; let e ← rx; return okB (ad u v e)
  | "relative_eq" => some fun _ => do let u ← rd; let v ← rd; let e ← rx; let m ← rx; return okB (re u v e m)
  | "ulps_eq" => some fun is => do
      let u ← rd; let v ← rd; let e ← rx
      match idx0 is with
      | some n => return okB (ul u v e n)
      | none => failure
  | "abs_diff_eq_d" => some fun _ => do let u ← rd; let v ← rd; return okB (adD u v)
  | "relative_eq_d" => some fun _ => do let u ← rd; let v ← rd; return okB (reD u v)
  | "ulps_eq_d" => some fun _ => do let u ← rd; let v ← rd; return okB (ulD u v)
  | _ => none

def rEuler : Rd (Rat × Rat × Rat) := do let x ← rx; let y ← rx; let z ← rx; return (x, y, z)

def opsExtra3 [Transc Rat] (name : String) : Option Op :=
  match name.splitOn "." with
  | [ty, op] =>
    match ty with
    | "euler" => approxOpsOf rEuler eulerAbsDiffEq eulerRelEq eulerUlpsEq eulerAbsDiffEqD eulerRelEqD eulerUlpsEqD op
    | "dq" => approxOpsOf rdq (Decomposed.absDiffEq Quat.absDiffEq V3.absDiffEq) (Decomposed.relEq Quat.relEq V3.relEq)
        (Decomposed.ulpsEq Quat.ulpsEq V3.ulpsEq) (Decomposed.absDiffEqD Quat.absDiffEq V3.absDiffEq)
        (Decomposed.relEqD Quat.relEq V3.relEq) (Decomposed.ulpsEqD Quat.ulpsEq V3.ulpsEq) op
    | "b2" => approxOpsOf rb2 Basis2.absDiffEq Basis2.relEq Basis2.ulpsEq Basis2.absDiffEqD Basis2.relEqD Basis2.ulpsEqD op
    | "b3" => approxOpsOf rb3 Basis3.absDiffEq Basis3.relEq Basis3.ulpsEq Basis3.absDiffEqD Basis3.relEqD Basis3.ulpsEqD op
    | _ => none
  | _ => none

end Cg.Rt
