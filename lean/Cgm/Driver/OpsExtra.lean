import Cgm.Driver.OpsRaw
import Cgm.Model.Book3
import Cgm.Model.Book4
/-!
# Driver op tables: the operations added for C18 / C16 (`harness/src/ops/extra.rs`)

* C18: the three `approx` relations of the compound types with the tolerance arguments explicit (`Book4.lean`:
  `V3.absDiffEq a b e`, …) and the default-tolerance macro forms (`V3.absDiffEqD`, …; the matrices' default epsilon is
  `Lits.matEps`);
* C16: `IndexMut<usize>` stores (`V3.set?`, `Quat.set?`, `M3.set?`), `Index<usize>` of a quaternion (`Quat.get?`),
  `Array::swap_elements` of vectors and points (`V3.swapElements?`).
-/
namespace Cg.Rt
open Cg

def idx2 (is : List Nat) : Option (Nat × Nat) := match is with | [i, j] => some (i, j) | _ => none

open Lean in
/-- the six approx ops of one type: `T` is the model namespace (`V3`, `Quat`, …), `rd` the reader -/
macro "approxOps!" T:ident rd:ident : term => do
  let f (s : String) := mkIdent (T.getId ++ Name.mkSimple s)
  `(fun (op : String) => (match op with
    | "abs_diff_eq" => some fun _ => do let u ← ($rd); let v ← ($rd); let e ← rx; return okB ($(f "absDiffEq") u v e)
    | "relative_eq" => some fun _ => do
        let u ← ($rd); let v ← ($rd); let e ← rx; let m ← rx; return okB ($(f "relEq") u v e m)
    | "ulps_eq" => some fun is => do
        let u ← ($rd); let v ← ($rd); let e ← rx
        match idx0 is with
        | some n => return okB ($(f "ulpsEq") u v e n)
        | none => failure
    | "abs_diff_eq_d" => some fun _ => do let u ← ($rd); let v ← ($rd); return okB ($(f "absDiffEqD") u v)
    | "relative_eq_d" => some fun _ => do let u ← ($rd); let v ← ($rd); return okB ($(f "relEqD") u v)
    | "ulps_eq_d" => some fun _ => do let u ← ($rd); let v ← ($rd); return okB ($(f "ulpsEqD") u v)
    | _ => none : Option Op))

open Lean in
/-- `set` / `swap_elements` of one vector or point type -/
macro "arrayOps!" T:ident rd:ident : term => do
  let f (s : String) := mkIdent (T.getId ++ Name.mkSimple s)
  `(fun (op : String) => (match op with
    | "set" => some fun is => do
        let u ← ($rd); let a ← rx
        match idx0 is with
        | some i => return ofPanic ((u.set? i a).map $(f "toList"))
        | none => failure
    | "swap_elements" => some fun is => do
        let u ← ($rd)
        match idx2 is with
        | some (i, j) => return ofPanic ((u.swapElements? i j).map $(f "toList"))
        | none => failure
    | _ => none : Option Op))

/-- `Rad` / `Deg`: an angle is the wrapped scalar -/
def opsAngleApprox (op : String) : Option Op :=
  match op with
  | "abs_diff_eq" => some fun _ => do let u ← rx; let v ← rx; let e ← rx; return okB (angleAbsDiffEq u v e)
  | "relative_eq" => some fun _ => do let u ← rx; let v ← rx; let e ← rx; let m ← rx; return okB (angleRelEq u v e m)
  | "ulps_eq" => some fun is => do
      let u ← rx; let v ← rx; let e ← rx
      match idx0 is with
      | some n => return okB (angleUlpsEq u v e n)
      | none => failure
  | "abs_diff_eq_d" => some fun _ => do let u ← rx; let v ← rx; return okB (angleAbsDiffEqD u v)
  | "relative_eq_d" => some fun _ => do let u ← rx; let v ← rx; return okB (angleRelEqD u v)
  | "ulps_eq_d" => some fun _ => do let u ← rx; let v ← rx; return okB (angleUlpsEqD u v)
  | _ => none

def opsExtraSpecial (name : String) : Option Op :=
  match name with
  | "q.index" => some fun is => do
      let q ← rq
      match idx0 is with
      | some i => return ofPanic ((q.get? i).map fun a => [a])
      | none => failure
  | "q.set" => some fun is => do
      let q ← rq; let a ← rx
      match idx0 is with
      | some i => return ofPanic ((q.set? i a).map Quat.toList)
      | none => failure
  | "m2.set" => some fun is => do
      let m ← rm2; let a ← rx
      match idx2 is with
      | some (c, r) => return ofPanic ((m.set? c r a).map M2.toList)
      | none => failure
  | "m3.set" => some fun is => do
      let m ← rm3; let a ← rx
      match idx2 is with
      | some (c, r) => return ofPanic ((m.set? c r a).map M3.toList)
      | none => failure
  | "m4.set" => some fun is => do
      let m ← rm4; let a ← rx
      match idx2 is with
      | some (c, r) => return ofPanic ((m.set? c r a).map M4.toList)
      | none => failure
  | _ => none

def opsExtra (name : String) : Option Op :=
  (opsExtraSpecial name).orElse fun _ =>
  match name.splitOn "." with
  | [ty, op] =>
    let ap : Option Op :=
      match ty with
      | "v1" => (approxOps! V1 rv1) op | "v2" => (approxOps! V2 rv2) op | "v3" => (approxOps! V3 rv3) op
      | "v4" => (approxOps! V4 rv4) op
      | "p1" => (approxOps! P1 rp1) op | "p2" => (approxOps! P2 rp2) op | "p3" => (approxOps! P3 rp3) op
      | "m2" => (approxOps! M2 rm2) op | "m3" => (approxOps! M3 rm3) op | "m4" => (approxOps! M4 rm4) op
      | "q" => (approxOps! Quat rq) op
      | "rad" => opsAngleApprox op | "deg" => opsAngleApprox op
      | _ => none
    ap.orElse fun _ =>
      match ty with
      | "v1" => (arrayOps! V1 rv1) op | "v2" => (arrayOps! V2 rv2) op | "v3" => (arrayOps! V3 rv3) op
      | "v4" => (arrayOps! V4 rv4) op
      | "p1" => (arrayOps! P1 rp1) op | "p2" => (arrayOps! P2 rp2) op | "p3" => (arrayOps! P3 rp3) op
      | _ => none
  | _ => none

end Cg.Rt
