import Cgm.Driver.OpsMat
import Cgm.Model.Transform
namespace Cg.Rt
open Cg

def rq : Rd (Quat Rat) := do let s ← rx; let v ← rv3; return ⟨v, s⟩
/-- Basis3 values travel as quaternions (`Basis3::from_quaternion`) -/
def rb3 : Rd (Basis3 Rat) := do let q ← rq; return Basis3.fromQuaternion q

section
variable [Transc Rat]
/-- Basis2 values travel as an angle (`Rotation2::from_angle`) -/
def rb2 : Rd (Basis2 Rat) := do let t ← rx; return ⟨M2.fromAngle t⟩

def okQ (q : Quat Rat) : Out := okS q.toList
def flip? (is : List Nat) : Option Bool := match is with | [f] => some (f != 0) | _ => none
def eulerList (e : Rat × Rat × Rat) : List Rat := [e.1, e.2.1, e.2.2]
def d2r (d : Rat) : Rat := degToRad d

def opsQuat (name : String) : Option Op :=
  match name with
  | "q.new" => some fun _ => do let w ← rx; let x ← rx; let y ← rx; let z ← rx; return okQ (Quat.new w x y z)
  | "q.from_sv" => some fun _ => do let s ← rx; let v ← rv3; return okQ (Quat.fromSv s v)
  | "q.conjugate" => some fun _ => do let q ← rq; return okQ q.conjugate
  | "q.neg" => some fun _ => do let q ← rq; return okQ (-q)
  | "q.add" => some fun _ => do let p ← rq; let q ← rq; return okQ (p + q)
  | "q.sub" => some fun _ => do let p ← rq; let q ← rq; return okQ (p - q)
  | "q.mul_s" => some fun _ => do let p ← rq; let s ← rx; return okQ (p * s)
  | "q.div_s" => some fun _ => do let p ← rq; let s ← rx; return okQ (p / s)
  | "q.rem_s" => some fun _ => do let p ← rq; let s ← rx; return okQ (p.rem s)
  | "q.mul" => some fun _ => do let p ← rq; let q ← rq; return okQ (p * q)
  | "q.mul_v" => some fun _ => do let p ← rq; let v ← rv3; return okS (p * v).toList
  | "q.dot" => some fun _ => do let p ← rq; let q ← rq; return okS [p.dot q]
  | "q.magnitude2" => some fun _ => do let p ← rq; return okS [p.magnitude2]
  | "q.magnitude" => some fun _ => do let p ← rq; return okS [p.magnitude]
  | "q.normalize" => some fun _ => do let p ← rq; return okQ p.normalize
  | "q.normalize_to" => some fun _ => do let p ← rq; let m ← rx; return okQ (p.normalizeTo m)
  | "q.distance2" => some fun _ => do let p ← rq; let q ← rq; return okS [p.distance2 q]
  | "q.distance" => some fun _ => do let p ← rq; let q ← rq; return okS [p.distance q]
  | "q.angle" => some fun _ => do let p ← rq; let q ← rq; return okS [p.angle q]
  | "q.project_on" => some fun _ => do let p ← rq; let q ← rq; return okQ (p.projectOn q)
  | "q.lerp" => some fun _ => do let p ← rq; let q ← rq; let t ← rx; return okQ (p.lerp q t)
  | "q.nlerp" => some fun _ => do let p ← rq; let q ← rq; let t ← rx; return okQ (p.nlerp q t)
  | "q.slerp" => some fun _ => do let p ← rq; let q ← rq; let t ← rx; return okQ (p.slerp q t)
  | "q.one" => some fun _ => return okQ Quat.one
  | "q.zero" => some fun _ => return okQ Quat.zero
  | "q.invert" => some fun _ => do let p ← rq; return okQ p.invert
  | "q.rotate_vector" => some fun _ => do let p ← rq; let v ← rv3; return okS (p.rotateVector v).toList
  | "q.rotate_point" => some fun _ => do let p ← rq; let v ← rp3; return okS (p.rotatePoint v).toList
  | "q.sum_list" => some fun _ => do let l ← rmany rq; return okQ (Quat.sumList l)
  | "q.sum_list_ref" => some fun _ => do let l ← rmany rq; return okQ (Quat.sumList l)
  | "q.product_list" => some fun _ => do let l ← rmany rq; return okQ (Quat.productList l)
  | "q.product_list_ref" => some fun _ => do let l ← rmany rq; return okQ (Quat.productList l)
  | "q.to_m3" => some fun _ => do let p ← rq; return okS p.toM3.toList
  | "q.to_m4" => some fun _ => do let p ← rq; return okS p.toM4.toList
  | "q.to_basis3" => some fun _ => do let p ← rq; return okS (Basis3.fromQuaternion p).mat.toList
  | "m3.to_quat" => some fun _ => do let m ← rm3; return okQ m.toQuat
  | "b3.to_quat" => some fun _ => do let b ← rb3; return okQ b.mat.toQuat
  | "b3.to_m3" => some fun _ => do let b ← rb3; return okS b.mat.toList
  | "b3.one" => some fun _ => return okS (Basis3.one : Basis3 Rat).mat.toList
  | "b3.mul" => some fun _ => do let p ← rb3; let q ← rb3; return okS (p.mul q).mat.toList
  | "b3.rotate_vector" => some fun _ => do let p ← rb3; let v ← rv3; return okS (p.rotateVector v).toList
  | "b3.rotate_point" => some fun _ => do let p ← rb3; let v ← rp3; return okS (p.rotatePoint v).toList
  | "b3.invert" => some fun _ => do let p ← rb3; return ofPanic (p.invert?.map (·.mat.toList))
  | "b3.product_list" => some fun _ => do let l ← rmany rb3; return okS (Basis3.productList l).mat.toList
  | "b3.product_list_ref" => some fun _ => do let l ← rmany rb3; return okS (Basis3.productList l).mat.toList
  | "b2.one" => some fun _ => return okS (Basis2.one : Basis2 Rat).mat.toList
  | "b2.from_angle" => some fun _ => do let p ← rb2; return okS p.mat.toList
  | "b2.from_angle_deg" => some fun _ => do let t ← rx; return okS (M2.fromAngle (d2r t)).toList
  | "b2.mul" => some fun _ => do let p ← rb2; let q ← rb2; return okS (p.mul q).mat.toList
  | "b2.rotate_vector" => some fun _ => do let p ← rb2; let v ← rv2; return okS (p.rotateVector v).toList
  | "b2.rotate_point" => some fun _ => do let p ← rb2; let v ← rp2; return okS (p.rotatePoint v).toList
  | "b2.invert" => some fun _ => do let p ← rb2; return ofPanic (p.invert?.map (·.mat.toList))
  | "b2.product_list" => some fun _ => do let l ← rmany rb2; return okS (Basis2.productList l).mat.toList
  | "m2.from_angle" => some fun _ => do let t ← rx; return okS (M2.fromAngle t).toList
  | "m2.from_angle_deg" => some fun _ => do let t ← rx; return okS (M2.fromAngle (d2r t)).toList
  | "m3.from_angle_x" => some fun _ => do let t ← rx; return okS (M3.fromAngleX t).toList
  | "m3.from_angle_y" => some fun _ => do let t ← rx; return okS (M3.fromAngleY t).toList
  | "m3.from_angle_z" => some fun _ => do let t ← rx; return okS (M3.fromAngleZ t).toList
  | "m3.from_axis_angle" => some fun _ => do let v ← rv3; let t ← rx; return okS (M3.fromAxisAngle v t).toList
  | "m3.from_axis_angle_deg" => some fun _ => do
      let v ← rv3; let t ← rx; return okS (M3.fromAxisAngle v (d2r t)).toList
  | "m4.from_angle_x" => some fun _ => do let t ← rx; return okS (M4.fromAngleX t).toList
  | "m4.from_angle_x_deg" => some fun _ => do let t ← rx; return okS (M4.fromAngleX (d2r t)).toList
  | "m4.from_angle_y" => some fun _ => do let t ← rx; return okS (M4.fromAngleY t).toList
  | "m4.from_angle_z" => some fun _ => do let t ← rx; return okS (M4.fromAngleZ t).toList
  | "m4.from_axis_angle" => some fun _ => do let v ← rv3; let t ← rx; return okS (M4.fromAxisAngle v t).toList
  | "b3.from_angle_x" => some fun _ => do let t ← rx; return okS (M3.fromAngleX t).toList
  | "b3.from_angle_y" => some fun _ => do let t ← rx; return okS (M3.fromAngleY t).toList
  | "b3.from_angle_z" => some fun _ => do let t ← rx; return okS (M3.fromAngleZ t).toList
  | "b3.from_axis_angle" => some fun _ => do let v ← rv3; let t ← rx; return okS (M3.fromAxisAngle v t).toList
  | "q.from_angle_x" => some fun _ => do let t ← rx; return okQ (Quat.fromAngleX t)
  | "q.from_angle_y" => some fun _ => do let t ← rx; return okQ (Quat.fromAngleY t)
  | "q.from_angle_z" => some fun _ => do let t ← rx; return okQ (Quat.fromAngleZ t)
  | "q.from_axis_angle" => some fun _ => do let v ← rv3; let t ← rx; return okQ (Quat.fromAxisAngle v t)
  | "q.from_axis_angle_deg" => some fun _ => do
      let v ← rv3; let t ← rx; return okQ (Quat.fromAxisAngle v (d2r t))
  | "m3.from_euler" => some fun _ => do let x ← rx; let y ← rx; let z ← rx; return okS (M3.ofEuler x y z).toList
  | "m3.from_euler_deg" => some fun _ => do
      let x ← rx; let y ← rx; let z ← rx; return okS (M3.ofEuler (d2r x) (d2r y) (d2r z)).toList
  | "m4.from_euler" => some fun _ => do let x ← rx; let y ← rx; let z ← rx; return okS (M4.ofEuler x y z).toList
  | "b3.from_euler" => some fun _ => do let x ← rx; let y ← rx; let z ← rx; return okS (M3.ofEuler x y z).toList
  | "q.from_euler" => some fun _ => do let x ← rx; let y ← rx; let z ← rx; return okQ (Quat.ofEuler x y z)
  | "q.from_euler_deg" => some fun _ => do
      let x ← rx; let y ← rx; let z ← rx; return okQ (Quat.ofEuler (d2r x) (d2r y) (d2r z))
  | "q.to_euler" => some fun _ => do let q ← rq; return okS (eulerList q.toEuler)
  | "m2.look_at" => some fun _ => do let d ← rv2; let u ← rv2; return okS (M2.lookAt d u).toList
  | "m2.look_at_stable" => some fun is => do
      let d ← rv2
      match flip? is with | some f => return okS (M2.lookAtStable d f).toList | none => failure
  | "b2.look_at" => some fun _ => do let d ← rv2; let u ← rv2; return okS (Basis2.lookAt d u).mat.toList
  | "b2.look_at_stable" => some fun is => do
      let d ← rv2
      match flip? is with | some f => return okS (Basis2.lookAtStable d f).mat.toList | none => failure
  | "m3.look_to_lh" => some fun _ => do let d ← rv3; let u ← rv3; return okS (M3.lookToLh d u).toList
  | "m3.look_to_rh" => some fun _ => do let d ← rv3; let u ← rv3; return okS (M3.lookToRh d u).toList
  | "m3.look_at_dep" => some fun _ => do let d ← rv3; let u ← rv3; return okS (M3.lookToLh d u).toList
  | "m4.look_to_rh" => some fun _ => do
      let e ← rp3; let d ← rv3; let u ← rv3; return okS (M4.lookToRh e d u).toList
  | "m4.look_to_lh" => some fun _ => do
      let e ← rp3; let d ← rv3; let u ← rv3; return okS (M4.lookToLh e d u).toList
  | "m4.look_at_rh" => some fun _ => do
      let e ← rp3; let c ← rp3; let u ← rv3; return okS (M4.lookAtRh e c u).toList
  | "m4.look_at_lh" => some fun _ => do
      let e ← rp3; let c ← rp3; let u ← rv3; return okS (M4.lookAtLh e c u).toList
  | "m4.look_at_dep" => some fun _ => do
      let e ← rp3; let c ← rp3; let u ← rv3; return okS (M4.lookAtRh e c u).toList
  | "m4.look_at_dir_dep" => some fun _ => do
      let e ← rp3; let d ← rv3; let u ← rv3; return okS (M4.lookToRh e d u).toList
  | "m3.tlook_at2" => some fun _ => do
      let e ← rp2; let c ← rp2; let u ← rv2; return okS (M3.lookAt2Lh e c u).toList
  | "m3.tlook_at2_lh" => some fun _ => do
      let e ← rp2; let c ← rp2; let u ← rv2; return okS (M3.lookAt2Lh e c u).toList
  | "m3.tlook_at2_rh" => some fun _ => do
      let e ← rp2; let c ← rp2; let u ← rv2; return okS (M3.lookAt2Rh e c u).toList
  | "m3.tlook_at" => some fun _ => do
      let e ← rp3; let c ← rp3; let u ← rv3; return okS (M3.lookAtLh e c u).toList
  | "m3.tlook_at_lh" => some fun _ => do
      let e ← rp3; let c ← rp3; let u ← rv3; return okS (M3.lookAtLh e c u).toList
  | "m3.tlook_at_rh" => some fun _ => do
      let e ← rp3; let c ← rp3; let u ← rv3; return okS (M3.lookAtRh e c u).toList
  | "m4.tlook_at" => some fun _ => do
      let e ← rp3; let c ← rp3; let u ← rv3; return okS (M4.lookAtRh e c u).toList
  | "m4.tlook_at_lh" => some fun _ => do
      let e ← rp3; let c ← rp3; let u ← rv3; return okS (M4.lookAtLh e c u).toList
  | "m4.tlook_at_rh" => some fun _ => do
      let e ← rp3; let c ← rp3; let u ← rv3; return okS (M4.lookAtRh e c u).toList
  | "q.look_at" => some fun _ => do let d ← rv3; let u ← rv3; return okQ (Quat.lookAt d u)
  | "b3.look_at" => some fun _ => do let d ← rv3; let u ← rv3; return okS (Basis3.lookAt d u).mat.toList
  | "q.between_vectors" => some fun _ => do let u ← rv3; let v ← rv3; return okQ (Quat.betweenVectors u v)
  | "b3.between_vectors" => some fun _ => do
      let u ← rv3; let v ← rv3; return okS (Basis3.betweenVectors u v).mat.toList
  | "b2.between_vectors" => some fun _ => do
      let u ← rv2; let v ← rv2; return okS (Basis2.betweenVectors u v).mat.toList
  | "q.from_arc" => some fun _ => do let u ← rv3; let v ← rv3; return okQ (Quat.fromArc u v none)
  | "q.from_arc_fb" => some fun _ => do
      let u ← rv3; let v ← rv3; let f ← rv3; return okQ (Quat.fromArc u v (some f))
  | _ => none

/-- model-only side channel: which branch the model takes (feeds the evidence histogram) -/
def opsBranch (name : String) : Option Op :=
  match name with
  | "br.m3.to_quat" => some fun _ => do
      let m ← rm3
      return okS [match m.toQuatBranch with | .trace => 0 | .xx => 1 | .yy => 2 | .zz => 3]
  | "br.q.to_quat" => some fun _ => do
      let q ← rq
      return okS [match q.toM3.toQuatBranch with | .trace => 0 | .xx => 1 | .yy => 2 | .zz => 3]
  | "br.q.to_euler" => some fun _ => do
      let q ← rq
      return okS [match q.toEulerBranch with | .pos => 0 | .neg => 1 | .main => 2]
  | "br.q.between_vectors" => some fun _ => do
      let u ← rv3; let v ← rv3
      return okS [match Quat.betweenVectorsBranch u v with | .same => 0 | .opposite => 1 | .general => 2]
  | "br.q.from_arc" => some fun _ => do
      let u ← rv3; let v ← rv3
      return okS [match Quat.fromArcBranch u v with | .same => 0 | .opposite => 1 | .general => 2]
  | "br.q.slerp" => some fun _ => do
      let p ← rq; let q ← rq; let _t ← rx
      let d := Quat.dot p q
      let d := if d < 0 then -d else d
      return okS [if (Lits.thr : Rat) < d then 0 else 1]
  | _ => none
end
end Cg.Rt
