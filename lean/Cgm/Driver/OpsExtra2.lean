import Cgm.Driver.OpsExtra
import Cgm.Model.Assign
/-!
# Driver op tables: the operand forms of the operators, added for C17 (`harness/src/ops/extra2.rs`)

GENERATED once by `tools/gen_c17_forms.py` from `lib/cgv/sigs.py` (`FORM_FAMILIES`); kept as an ordinary source file.

`<t>.<op>.<form>`: for the reference forms (`rv` = `&a op b`, `vr` = `a op &b`, `rr` = `&a op &b`, `r` = `-&a`) the model value
is the SAME function the by-value op `<t>.<op>` runs (in the model an operator is one function); for `asg` (`a op= b`) it is
the field-by-field definition of `Cgm/Model/Assign.lean` (`V3.addAssign`, ... : different model code, proved equal to the
by-value operator in `Cgm/Props/C17c.lean`).
-/
namespace Cg.Rt
open Cg

def opsFormsV1 (k : String) : Option Op :=
  match k with
  | "add.rv" => some fun _ => do let u ← rv1; let v ← rv1; return okS (u + v).toList
  | "add.vr" => some fun _ => do let u ← rv1; let v ← rv1; return okS (u + v).toList
  | "add.rr" => some fun _ => do let u ← rv1; let v ← rv1; return okS (u + v).toList
  | "add.asg" => some fun _ => do let u ← rv1; let v ← rv1; return okS (u.addAssign v).toList
  | "sub.rv" => some fun _ => do let u ← rv1; let v ← rv1; return okS (u - v).toList
  | "sub.vr" => some fun _ => do let u ← rv1; let v ← rv1; return okS (u - v).toList
  | "sub.rr" => some fun _ => do let u ← rv1; let v ← rv1; return okS (u - v).toList
  | "sub.asg" => some fun _ => do let u ← rv1; let v ← rv1; return okS (u.subAssign v).toList
  | "mul.rv" => some fun _ => do let u ← rv1; let v ← rx; return okS (u * v).toList
  | "mul.asg" => some fun _ => do let u ← rv1; let v ← rx; return okS (u.mulAssignS v).toList
  | "div.rv" => some fun _ => do let u ← rv1; let v ← rx; return okS (u / v).toList
  | "div.asg" => some fun _ => do let u ← rv1; let v ← rx; return okS (u.divAssignS v).toList
  | "rem.rv" => some fun _ => do let u ← rv1; let v ← rx; return okS (u.rem v).toList
  | "rem.asg" => some fun _ => do let u ← rv1; let v ← rx; return okS (u.remAssignS v).toList
  | _ => none

def opsFormsV2 (k : String) : Option Op :=
  match k with
  | "add.rv" => some fun _ => do let u ← rv2; let v ← rv2; return okS (u + v).toList
  | "add.vr" => some fun _ => do let u ← rv2; let v ← rv2; return okS (u + v).toList
  | "add.rr" => some fun _ => do let u ← rv2; let v ← rv2; return okS (u + v).toList
  | "add.asg" => some fun _ => do let u ← rv2; let v ← rv2; return okS (u.addAssign v).toList
  | "sub.rv" => some fun _ => do let u ← rv2; let v ← rv2; return okS (u - v).toList
  | "sub.vr" => some fun _ => do let u ← rv2; let v ← rv2; return okS (u - v).toList
  | "sub.rr" => some fun _ => do let u ← rv2; let v ← rv2; return okS (u - v).toList
  | "sub.asg" => some fun _ => do let u ← rv2; let v ← rv2; return okS (u.subAssign v).toList
  | "mul.rv" => some fun _ => do let u ← rv2; let v ← rx; return okS (u * v).toList
  | "mul.asg" => some fun _ => do let u ← rv2; let v ← rx; return okS (u.mulAssignS v).toList
  | "div.rv" => some fun _ => do let u ← rv2; let v ← rx; return okS (u / v).toList
  | "div.asg" => some fun _ => do let u ← rv2; let v ← rx; return okS (u.divAssignS v).toList
  | "rem.rv" => some fun _ => do let u ← rv2; let v ← rx; return okS (u.rem v).toList
  | "rem.asg" => some fun _ => do let u ← rv2; let v ← rx; return okS (u.remAssignS v).toList
  | _ => none

def opsFormsV3 (k : String) : Option Op :=
  match k with
  | "add.rv" => some fun _ => do let u ← rv3; let v ← rv3; return okS (u + v).toList
  | "add.vr" => some fun _ => do let u ← rv3; let v ← rv3; return okS (u + v).toList
  | "add.rr" => some fun _ => do let u ← rv3; let v ← rv3; return okS (u + v).toList
  | "add.asg" => some fun _ => do let u ← rv3; let v ← rv3; return okS (u.addAssign v).toList
  | "sub.rv" => some fun _ => do let u ← rv3; let v ← rv3; return okS (u - v).toList
  | "sub.vr" => some fun _ => do let u ← rv3; let v ← rv3; return okS (u - v).toList
  | "sub.rr" => some fun _ => do let u ← rv3; let v ← rv3; return okS (u - v).toList
  | "sub.asg" => some fun _ => do let u ← rv3; let v ← rv3; return okS (u.subAssign v).toList
  | "mul.rv" => some fun _ => do let u ← rv3; let v ← rx; return okS (u * v).toList
  | "mul.asg" => some fun _ => do let u ← rv3; let v ← rx; return okS (u.mulAssignS v).toList
  | "div.rv" => some fun _ => do let u ← rv3; let v ← rx; return okS (u / v).toList
  | "div.asg" => some fun _ => do let u ← rv3; let v ← rx; return okS (u.divAssignS v).toList
  | "rem.rv" => some fun _ => do let u ← rv3; let v ← rx; return okS (u.rem v).toList
  | "rem.asg" => some fun _ => do let u ← rv3; let v ← rx; return okS (u.remAssignS v).toList
  | _ => none

def opsFormsV4 (k : String) : Option Op :=
  match k with
  | "add.rv" => some fun _ => do let u ← rv4; let v ← rv4; return okS (u + v).toList
  | "add.vr" => some fun _ => do let u ← rv4; let v ← rv4; return okS (u + v).toList
  | "add.rr" => some fun _ => do let u ← rv4; let v ← rv4; return okS (u + v).toList
  | "add.asg" => some fun _ => do let u ← rv4; let v ← rv4; return okS (u.addAssign v).toList
  | "sub.rv" => some fun _ => do let u ← rv4; let v ← rv4; return okS (u - v).toList
  | "sub.vr" => some fun _ => do let u ← rv4; let v ← rv4; return okS (u - v).toList
  | "sub.rr" => some fun _ => do let u ← rv4; let v ← rv4; return okS (u - v).toList
  | "sub.asg" => some fun _ => do let u ← rv4; let v ← rv4; return okS (u.subAssign v).toList
  | "mul.rv" => some fun _ => do let u ← rv4; let v ← rx; return okS (u * v).toList
  | "mul.asg" => some fun _ => do let u ← rv4; let v ← rx; return okS (u.mulAssignS v).toList
  | "div.rv" => some fun _ => do let u ← rv4; let v ← rx; return okS (u / v).toList
  | "div.asg" => some fun _ => do let u ← rv4; let v ← rx; return okS (u.divAssignS v).toList
  | "rem.rv" => some fun _ => do let u ← rv4; let v ← rx; return okS (u.rem v).toList
  | "rem.asg" => some fun _ => do let u ← rv4; let v ← rx; return okS (u.remAssignS v).toList
  | _ => none

def opsFormsM2 (k : String) : Option Op :=
  match k with
  | "add.rv" => some fun _ => do let u ← rm2; let v ← rm2; return okS (u + v).toList
  | "add.vr" => some fun _ => do let u ← rm2; let v ← rm2; return okS (u + v).toList
  | "add.rr" => some fun _ => do let u ← rm2; let v ← rm2; return okS (u + v).toList
  | "add.asg" => some fun _ => do let u ← rm2; let v ← rm2; return okS (u.addAssign v).toList
  | "sub.rv" => some fun _ => do let u ← rm2; let v ← rm2; return okS (u - v).toList
  | "sub.vr" => some fun _ => do let u ← rm2; let v ← rm2; return okS (u - v).toList
  | "sub.rr" => some fun _ => do let u ← rm2; let v ← rm2; return okS (u - v).toList
  | "sub.asg" => some fun _ => do let u ← rm2; let v ← rm2; return okS (u.subAssign v).toList
  | "mul_s.rv" => some fun _ => do let u ← rm2; let v ← rx; return okS (u * v).toList
  | "mul_s.asg" => some fun _ => do let u ← rm2; let v ← rx; return okS (u.mulAssignS v).toList
  | "div_s.rv" => some fun _ => do let u ← rm2; let v ← rx; return okS (u / v).toList
  | "div_s.asg" => some fun _ => do let u ← rm2; let v ← rx; return okS (u.divAssignS v).toList
  | "rem_s.rv" => some fun _ => do let u ← rm2; let v ← rx; return okS (u.rem v).toList
  | "rem_s.asg" => some fun _ => do let u ← rm2; let v ← rx; return okS (u.remAssignS v).toList
  | "mul.rv" => some fun _ => do let u ← rm2; let v ← rm2; return okS (u * v).toList
  | "mul.vr" => some fun _ => do let u ← rm2; let v ← rm2; return okS (u * v).toList
  | "mul.rr" => some fun _ => do let u ← rm2; let v ← rm2; return okS (u * v).toList
  | "mul_v.rv" => some fun _ => do let u ← rm2; let v ← rv2; return okS (V2.toList (u.mulVec v))
  | "mul_v.vr" => some fun _ => do let u ← rm2; let v ← rv2; return okS (V2.toList (u.mulVec v))
  | "mul_v.rr" => some fun _ => do let u ← rm2; let v ← rv2; return okS (V2.toList (u.mulVec v))
  | "neg.r" => some fun _ => do let u ← rm2; return okS (-u).toList
  | _ => none

def opsFormsM3 (k : String) : Option Op :=
  match k with
  | "add.rv" => some fun _ => do let u ← rm3; let v ← rm3; return okS (u + v).toList
  | "add.vr" => some fun _ => do let u ← rm3; let v ← rm3; return okS (u + v).toList
  | "add.rr" => some fun _ => do let u ← rm3; let v ← rm3; return okS (u + v).toList
  | "add.asg" => some fun _ => do let u ← rm3; let v ← rm3; return okS (u.addAssign v).toList
  | "sub.rv" => some fun _ => do let u ← rm3; let v ← rm3; return okS (u - v).toList
  | "sub.vr" => some fun _ => do let u ← rm3; let v ← rm3; return okS (u - v).toList
  | "sub.rr" => some fun _ => do let u ← rm3; let v ← rm3; return okS (u - v).toList
  | "sub.asg" => some fun _ => do let u ← rm3; let v ← rm3; return okS (u.subAssign v).toList
  | "mul_s.rv" => some fun _ => do let u ← rm3; let v ← rx; return okS (u * v).toList
  | "mul_s.asg" => some fun _ => do let u ← rm3; let v ← rx; return okS (u.mulAssignS v).toList
  | "div_s.rv" => some fun _ => do let u ← rm3; let v ← rx; return okS (u / v).toList
  | "div_s.asg" => some fun _ => do let u ← rm3; let v ← rx; return okS (u.divAssignS v).toList
  | "rem_s.rv" => some fun _ => do let u ← rm3; let v ← rx; return okS (u.rem v).toList
  | "rem_s.asg" => some fun _ => do let u ← rm3; let v ← rx; return okS (u.remAssignS v).toList
  | "mul.rv" => some fun _ => do let u ← rm3; let v ← rm3; return okS (u * v).toList
  | "mul.vr" => some fun _ => do let u ← rm3; let v ← rm3; return okS (u * v).toList
  | "mul.rr" => some fun _ => do let u ← rm3; let v ← rm3; return okS (u * v).toList
  | "mul_v.rv" => some fun _ => do let u ← rm3; let v ← rv3; return okS (V3.toList (u.mulVec v))
  | "mul_v.vr" => some fun _ => do let u ← rm3; let v ← rv3; return okS (V3.toList (u.mulVec v))
  | "mul_v.rr" => some fun _ => do let u ← rm3; let v ← rv3; return okS (V3.toList (u.mulVec v))
  | "neg.r" => some fun _ => do let u ← rm3; return okS (-u).toList
  | _ => none

def opsFormsM4 (k : String) : Option Op :=
  match k with
  | "add.rv" => some fun _ => do let u ← rm4; let v ← rm4; return okS (u + v).toList
  | "add.vr" => some fun _ => do let u ← rm4; let v ← rm4; return okS (u + v).toList
  | "add.rr" => some fun _ => do let u ← rm4; let v ← rm4; return okS (u + v).toList
  | "add.asg" => some fun _ => do let u ← rm4; let v ← rm4; return okS (u.addAssign v).toList
  | "sub.rv" => some fun _ => do let u ← rm4; let v ← rm4; return okS (u - v).toList
  | "sub.vr" => some fun _ => do let u ← rm4; let v ← rm4; return okS (u - v).toList
  | "sub.rr" => some fun _ => do let u ← rm4; let v ← rm4; return okS (u - v).toList
  | "sub.asg" => some fun _ => do let u ← rm4; let v ← rm4; return okS (u.subAssign v).toList
  | "mul_s.rv" => some fun _ => do let u ← rm4; let v ← rx; return okS (u * v).toList
  | "mul_s.asg" => some fun _ => do let u ← rm4; let v ← rx; return okS (u.mulAssignS v).toList
  | "div_s.rv" => some fun _ => do let u ← rm4; let v ← rx; return okS (u / v).toList
  | "div_s.asg" => some fun _ => do let u ← rm4; let v ← rx; return okS (u.divAssignS v).toList
  | "rem_s.rv" => some fun _ => do let u ← rm4; let v ← rx; return okS (u.rem v).toList
  | "rem_s.asg" => some fun _ => do let u ← rm4; let v ← rx; return okS (u.remAssignS v).toList
  | "mul.rv" => some fun _ => do let u ← rm4; let v ← rm4; return okS (u * v).toList
  | "mul.vr" => some fun _ => do let u ← rm4; let v ← rm4; return okS (u * v).toList
  | "mul.rr" => some fun _ => do let u ← rm4; let v ← rm4; return okS (u * v).toList
  | "mul_v.rv" => some fun _ => do let u ← rm4; let v ← rv4; return okS (V4.toList (u.mulVec v))
  | "mul_v.vr" => some fun _ => do let u ← rm4; let v ← rv4; return okS (V4.toList (u.mulVec v))
  | "mul_v.rr" => some fun _ => do let u ← rm4; let v ← rv4; return okS (V4.toList (u.mulVec v))
  | "neg.r" => some fun _ => do let u ← rm4; return okS (-u).toList
  | _ => none

def opsFormsQuat (k : String) : Option Op :=
  match k with
  | "add.rv" => some fun _ => do let u ← rq; let v ← rq; return okS (u + v).toList
  | "add.vr" => some fun _ => do let u ← rq; let v ← rq; return okS (u + v).toList
  | "add.rr" => some fun _ => do let u ← rq; let v ← rq; return okS (u + v).toList
  | "add.asg" => some fun _ => do let u ← rq; let v ← rq; return okS (u.addAssign v).toList
  | "sub.rv" => some fun _ => do let u ← rq; let v ← rq; return okS (u - v).toList
  | "sub.vr" => some fun _ => do let u ← rq; let v ← rq; return okS (u - v).toList
  | "sub.rr" => some fun _ => do let u ← rq; let v ← rq; return okS (u - v).toList
  | "sub.asg" => some fun _ => do let u ← rq; let v ← rq; return okS (u.subAssign v).toList
  | "mul_s.rv" => some fun _ => do let u ← rq; let v ← rx; return okS (u * v).toList
  | "mul_s.asg" => some fun _ => do let u ← rq; let v ← rx; return okS (u.mulAssignS v).toList
  | "div_s.rv" => some fun _ => do let u ← rq; let v ← rx; return okS (u / v).toList
  | "div_s.asg" => some fun _ => do let u ← rq; let v ← rx; return okS (u.divAssignS v).toList
  | "rem_s.rv" => some fun _ => do let u ← rq; let v ← rx; return okS (u.rem v).toList
  | "rem_s.asg" => some fun _ => do let u ← rq; let v ← rx; return okS (u.remAssignS v).toList
  | "mul.rv" => some fun _ => do let u ← rq; let v ← rq; return okS (u * v).toList
  | "mul.vr" => some fun _ => do let u ← rq; let v ← rq; return okS (u * v).toList
  | "mul.rr" => some fun _ => do let u ← rq; let v ← rq; return okS (u * v).toList
  | "mul_v.rv" => some fun _ => do let u ← rq; let v ← rv3; return okS (V3.toList (u.mulVec v))
  | "mul_v.vr" => some fun _ => do let u ← rq; let v ← rv3; return okS (V3.toList (u.mulVec v))
  | "mul_v.rr" => some fun _ => do let u ← rq; let v ← rv3; return okS (V3.toList (u.mulVec v))
  | "neg.r" => some fun _ => do let u ← rq; return okS (-u).toList
  | _ => none

def opsFormsP1 (k : String) : Option Op :=
  match k with
  | "add_v.rv" => some fun _ => do let u ← rp1; let v ← rv1; return okS (u + v).toList
  | "add_v.vr" => some fun _ => do let u ← rp1; let v ← rv1; return okS (u + v).toList
  | "add_v.rr" => some fun _ => do let u ← rp1; let v ← rv1; return okS (u + v).toList
  | "add_v.asg" => some fun _ => do let u ← rp1; let v ← rv1; return okS (u.addAssignV v).toList
  | "sub_v.rv" => some fun _ => do let u ← rp1; let v ← rv1; return okS (u - v).toList
  | "sub_v.vr" => some fun _ => do let u ← rp1; let v ← rv1; return okS (u - v).toList
  | "sub_v.rr" => some fun _ => do let u ← rp1; let v ← rv1; return okS (u - v).toList
  | "sub_v.asg" => some fun _ => do let u ← rp1; let v ← rv1; return okS (u.subAssignV v).toList
  | "sub_p.rv" => some fun _ => do let u ← rp1; let v ← rp1; return okS (V1.toList (u - v))
  | "sub_p.vr" => some fun _ => do let u ← rp1; let v ← rp1; return okS (V1.toList (u - v))
  | "sub_p.rr" => some fun _ => do let u ← rp1; let v ← rp1; return okS (V1.toList (u - v))
  | "mul.rv" => some fun _ => do let u ← rp1; let v ← rx; return okS (u * v).toList
  | "mul.asg" => some fun _ => do let u ← rp1; let v ← rx; return okS (u.mulAssignS v).toList
  | "div.rv" => some fun _ => do let u ← rp1; let v ← rx; return okS (u / v).toList
  | "div.asg" => some fun _ => do let u ← rp1; let v ← rx; return okS (u.divAssignS v).toList
  | "rem.rv" => some fun _ => do let u ← rp1; let v ← rx; return okS (u.rem v).toList
  | "rem.asg" => some fun _ => do let u ← rp1; let v ← rx; return okS (u.remAssignS v).toList
  | _ => none

def opsFormsP2 (k : String) : Option Op :=
  match k with
  | "add_v.rv" => some fun _ => do let u ← rp2; let v ← rv2; return okS (u + v).toList
  | "add_v.vr" => some fun _ => do let u ← rp2; let v ← rv2; return okS (u + v).toList
  | "add_v.rr" => some fun _ => do let u ← rp2; let v ← rv2; return okS (u + v).toList
  | "add_v.asg" => some fun _ => do let u ← rp2; let v ← rv2; return okS (u.addAssignV v).toList
  | "sub_v.rv" => some fun _ => do let u ← rp2; let v ← rv2; return okS (u - v).toList
  | "sub_v.vr" => some fun _ => do let u ← rp2; let v ← rv2; return okS (u - v).toList
  | "sub_v.rr" => some fun _ => do let u ← rp2; let v ← rv2; return okS (u - v).toList
  | "sub_v.asg" => some fun _ => do let u ← rp2; let v ← rv2; return okS (u.subAssignV v).toList
  | "sub_p.rv" => some fun _ => do let u ← rp2; let v ← rp2; return okS (V2.toList (u - v))
  | "sub_p.vr" => some fun _ => do let u ← rp2; let v ← rp2; return okS (V2.toList (u - v))
  | "sub_p.rr" => some fun _ => do let u ← rp2; let v ← rp2; return okS (V2.toList (u - v))
  | "mul.rv" => some fun _ => do let u ← rp2; let v ← rx; return okS (u * v).toList
  | "mul.asg" => some fun _ => do let u ← rp2; let v ← rx; return okS (u.mulAssignS v).toList
  | "div.rv" => some fun _ => do let u ← rp2; let v ← rx; return okS (u / v).toList
  | "div.asg" => some fun _ => do let u ← rp2; let v ← rx; return okS (u.divAssignS v).toList
  | "rem.rv" => some fun _ => do let u ← rp2; let v ← rx; return okS (u.rem v).toList
  | "rem.asg" => some fun _ => do let u ← rp2; let v ← rx; return okS (u.remAssignS v).toList
  | _ => none

def opsFormsP3 (k : String) : Option Op :=
  match k with
  | "add_v.rv" => some fun _ => do let u ← rp3; let v ← rv3; return okS (u + v).toList
  | "add_v.vr" => some fun _ => do let u ← rp3; let v ← rv3; return okS (u + v).toList
  | "add_v.rr" => some fun _ => do let u ← rp3; let v ← rv3; return okS (u + v).toList
  | "add_v.asg" => some fun _ => do let u ← rp3; let v ← rv3; return okS (u.addAssignV v).toList
  | "sub_v.rv" => some fun _ => do let u ← rp3; let v ← rv3; return okS (u - v).toList
  | "sub_v.vr" => some fun _ => do let u ← rp3; let v ← rv3; return okS (u - v).toList
  | "sub_v.rr" => some fun _ => do let u ← rp3; let v ← rv3; return okS (u - v).toList
  | "sub_v.asg" => some fun _ => do let u ← rp3; let v ← rv3; return okS (u.subAssignV v).toList
  | "sub_p.rv" => some fun _ => do let u ← rp3; let v ← rp3; return okS (V3.toList (u - v))
  | "sub_p.vr" => some fun _ => do let u ← rp3; let v ← rp3; return okS (V3.toList (u - v))
  | "sub_p.rr" => some fun _ => do let u ← rp3; let v ← rp3; return okS (V3.toList (u - v))
  | "mul.rv" => some fun _ => do let u ← rp3; let v ← rx; return okS (u * v).toList
  | "mul.asg" => some fun _ => do let u ← rp3; let v ← rx; return okS (u.mulAssignS v).toList
  | "div.rv" => some fun _ => do let u ← rp3; let v ← rx; return okS (u / v).toList
  | "div.asg" => some fun _ => do let u ← rp3; let v ← rx; return okS (u.divAssignS v).toList
  | "rem.rv" => some fun _ => do let u ← rp3; let v ← rx; return okS (u.rem v).toList
  | "rem.asg" => some fun _ => do let u ← rp3; let v ← rx; return okS (u.remAssignS v).toList
  | _ => none

def opsFormsAngle (k : String) : Option Op :=
  match k with
  | "add.rv" => some fun _ => do let u ← rx; let v ← rx; return okS [u + v]
  | "add.vr" => some fun _ => do let u ← rx; let v ← rx; return okS [u + v]
  | "add.rr" => some fun _ => do let u ← rx; let v ← rx; return okS [u + v]
  | "add.asg" => some fun _ => do let u ← rx; let v ← rx; return okS [Angle.addAssign u v]
  | "sub.rv" => some fun _ => do let u ← rx; let v ← rx; return okS [u - v]
  | "sub.vr" => some fun _ => do let u ← rx; let v ← rx; return okS [u - v]
  | "sub.rr" => some fun _ => do let u ← rx; let v ← rx; return okS [u - v]
  | "sub.asg" => some fun _ => do let u ← rx; let v ← rx; return okS [Angle.subAssign u v]
  | "rem.rv" => some fun _ => do let u ← rx; let v ← rx; return okS [FRem.frem u v]
  | "rem.vr" => some fun _ => do let u ← rx; let v ← rx; return okS [FRem.frem u v]
  | "rem.rr" => some fun _ => do let u ← rx; let v ← rx; return okS [FRem.frem u v]
  | "rem.asg" => some fun _ => do let u ← rx; let v ← rx; return okS [Angle.remAssign u v]
  | "mul_s.rv" => some fun _ => do let u ← rx; let v ← rx; return okS [u * v]
  | "mul_s.asg" => some fun _ => do let u ← rx; let v ← rx; return okS [Angle.mulAssignS u v]
  | "div_s.rv" => some fun _ => do let u ← rx; let v ← rx; return okS [u / v]
  | "div_s.asg" => some fun _ => do let u ← rx; let v ← rx; return okS [Angle.divAssignS u v]
  | "div_a.rv" => some fun _ => do let u ← rx; let v ← rx; return okS [u / v]
  | "div_a.vr" => some fun _ => do let u ← rx; let v ← rx; return okS [u / v]
  | "div_a.rr" => some fun _ => do let u ← rx; let v ← rx; return okS [u / v]
  | "neg.r" => some fun _ => do let u ← rx; return okS [-u]
  | _ => none

/-- `Sum<&'a MatrixN>`, `Product<&'a Basis2>`: in the model the by-reference fold is the by-value one -/
def opsExtra2Special [Transc Rat] (name : String) : Option Op :=
  match name with
  | "m2.sum_list_ref" => some fun _ => do let l ← rmany rm2; return okS (M2.sumList l).toList
  | "m3.sum_list_ref" => some fun _ => do let l ← rmany rm3; return okS (M3.sumList l).toList
  | "m4.sum_list_ref" => some fun _ => do let l ← rmany rm4; return okS (M4.sumList l).toList
  | "b2.product_list_ref" => some fun _ => do let l ← rmany rb2; return okS (Basis2.productList l).mat.toList
  | _ => none

def opsExtra2 [Transc Rat] (name : String) : Option Op :=
  (opsExtra2Special name).orElse fun _ =>
  match name.splitOn "." with
  | [ty, op, form] =>
    let k := op ++ "." ++ form
    match ty with
    | "v1" => opsFormsV1 k | "v2" => opsFormsV2 k | "v3" => opsFormsV3 k | "v4" => opsFormsV4 k
    | "p1" => opsFormsP1 k | "p2" => opsFormsP2 k | "p3" => opsFormsP3 k
    | "m2" => opsFormsM2 k | "m3" => opsFormsM3 k | "m4" => opsFormsM4 k
    | "q" => opsFormsQuat k
    | "rad" => opsFormsAngle k | "deg" => opsFormsAngle k
    | _ => none
  | _ => none

end Cg.Rt
