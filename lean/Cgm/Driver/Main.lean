import Cgm.Driver.OpsExtra3
/-!
# Driver: reads op lines on stdin, prints the model's answer per line.
-/
namespace Cg.Rt

section
variable [Transc Rat]

def lookupTyped (name : String) : Option Op :=
  match name.splitOn "." with
  | [ty, op] =>
    match ty with
    | "v1" => opsV1 op | "v2" => opsV2 op | "v3" => opsV3 op | "v4" => opsV4 op
    | "p1" => opsP1 op | "p2" => opsP2 op | "p3" => opsP3 op
    | "m2" => opsM2 op | "m3" => opsM3 op | "m4" => opsM4 op
    | "dq" => opsDq op | "db3" => opsDb3 op | "db2" => opsDb2 op
    | "rad" => opsRad op | "deg" => opsDeg op
    | _ => none
  | _ => none

def lookup (name : String) : Option Op :=
  (opsVecSpecial name).orElse fun _ =>
  (opsPointSpecial name).orElse fun _ =>
  (opsMatSpecial name).orElse fun _ =>
  (opsQuat name).orElse fun _ =>
  (opsBranch name).orElse fun _ =>
  (opsXformSpecial name).orElse fun _ =>
  (lookupTyped name).orElse fun _ =>
  (opsExtra name).orElse fun _ =>
  (opsExtra2 name).orElse fun _ =>
  opsExtra3 name

def runLine (line : String) : String :=
  match (line.splitOn " ").filter (· ≠ "") with
  | [] => "bad-line"
  | name :: toks =>
    if name.startsWith "n." then runRaw (name :: toks) else
    match parseArgs toks with
    | none => "bad-line"
    | some (is, rs) =>
      match lookup name with
      | none => "unknown-op"
      | some op =>
        match (do let o ← op is; rend; pure o : Rd Out) rs with
        | some (o, _) => showOut o
        | none => "bad-args"
end

partial def loop (h : IO.FS.Stream) (out : IO.FS.Stream) (seed : UInt64) : IO Unit := do
  let line ← h.getLine
  if line.isEmpty then return ()
  let t := line.trimAscii.toString
  if t.isEmpty || t.startsWith "//" then
    loop h out seed
  else if t.startsWith "seed " then
    match (t.drop 5).trimAscii.toString.toNat? with
    | some s => loop h out (UInt64.ofNat s)
    | none => out.putStrLn "bad-seed"; loop h out seed
  else
    let inst : Transc Rat := transcRat seed
    out.putStrLn (@runLine inst t)
    loop h out seed

end Cg.Rt

def main : IO Unit := do
  let out ← IO.getStdout
  Cg.Rt.loop (← IO.getStdin) out 1
