import Cgm.Driver.OpsXform
import Cgm.Model.Book
import Cgm.Model.Book4
/-!
# Raw-token ops (`n.*`): the bookkeeping model driven with opaque component tokens
(C16 swizzle table, C18 combination of per-component booleans, C19 combination of
per-component cast results, C20 key sequences of the Decomposed visitor)
-/
namespace Cg.Rt
open Cg

def castF (t : String) : Option String := if t = "N" then none else some t
def showOpt (o : Option (List String)) : String :=
  match o with | none => "none" | some l => " ".intercalate ("ok" :: l)
def v1s : List String → Option (V1 String) | [a] => some ⟨a⟩ | _ => none
def v2s : List String → Option (V2 String) | [a, b] => some ⟨a, b⟩ | _ => none
def v3s : List String → Option (V3 String) | [a, b, c] => some ⟨a, b, c⟩ | _ => none
def v4s : List String → Option (V4 String) | [a, b, c, d] => some ⟨a, b, c, d⟩ | _ => none
def m2s (l : List String) : Option (M2 String) := do
  if l.length ≠ 4 then none else
  let x ← v2s (l.take 2); let y ← v2s (l.drop 2); return ⟨x, y⟩
def m3s (l : List String) : Option (M3 String) := do
  if l.length ≠ 9 then none else
  let x ← v3s (l.take 3); let y ← v3s ((l.drop 3).take 3); let z ← v3s (l.drop 6); return ⟨x, y, z⟩
def m4s (l : List String) : Option (M4 String) := do
  if l.length ≠ 16 then none else
  let x ← v4s (l.take 4); let y ← v4s ((l.drop 4).take 4); let z ← v4s ((l.drop 8).take 4)
  let w ← v4s (l.drop 12); return ⟨x, y, z, w⟩

def rawCast (kind : String) (l : List String) : String :=
  match kind with
  | "v1" => match v1s l with | some v => showOpt ((V1.cast castF v).map V1.toList) | none => "bad-args"
  | "v2" => match v2s l with | some v => showOpt ((V2.cast castF v).map V2.toList) | none => "bad-args"
  | "v3" => match v3s l with | some v => showOpt ((V3.cast castF v).map V3.toList) | none => "bad-args"
  | "v4" => match v4s l with | some v => showOpt ((V4.cast castF v).map V4.toList) | none => "bad-args"
  | "p1" => match v1s l with | some v => showOpt ((P1.cast castF ⟨v.x⟩).map P1.toList) | none => "bad-args"
  | "p2" => match v2s l with | some v => showOpt ((P2.cast castF ⟨v.x, v.y⟩).map P2.toList) | none => "bad-args"
  | "p3" => match v3s l with
    | some v => showOpt ((P3.cast castF ⟨v.x, v.y, v.z⟩).map P3.toList) | none => "bad-args"
  | "m2" => match m2s l with | some m => showOpt ((M2.cast castF m).map M2.toList) | none => "bad-args"
  | "m3" => match m3s l with | some m => showOpt ((M3.cast castF m).map M3.toList) | none => "bad-args"
  | "m4" => match m4s l with | some m => showOpt ((M4.cast castF m).map M4.toList) | none => "bad-args"
  | "q" => match l with   -- s x y z
    | [s, x, y, z] => showOpt ((Quat.cast castF ⟨⟨x, y, z⟩, s⟩).map Quat.toList)
    | _ => "bad-args"
  | _ => "unknown-op"

def tb (t : String) : Bool := t = "T"
def showB (b : Bool) : String := if b then "T" else "F"
/-- the relation supplied per component: the `a`-side token carries the verdict, `b` is ignored -/
def relTok (a _b : String) : Bool := tb a

def rawRel (kind : String) (l : List String) : String :=
  let dummy := fun (n : Nat) => List.replicate n ""
  match kind with
  | "s" | "rad" | "deg" => match l with | [a] => showB (tb a) | _ => "bad-args"
  | "v1" | "p1" => match v1s l, v1s (dummy 1) with
    | some a, some b => showB (V1.relAll relTok a b) | _, _ => "bad-args"
  | "v2" | "p2" => match v2s l, v2s (dummy 2) with
    | some a, some b => showB (V2.relAll relTok a b) | _, _ => "bad-args"
  | "v3" | "p3" | "euler" => match v3s l, v3s (dummy 3) with
    | some a, some b => showB (V3.relAll relTok a b) | _, _ => "bad-args"
  | "v4" => match v4s l, v4s (dummy 4) with
    | some a, some b => showB (V4.relAll relTok a b) | _, _ => "bad-args"
  | "m2" | "b2" => match m2s l, m2s (dummy 4) with
    | some a, some b => showB (M2.relAll relTok a b) | _, _ => "bad-args"
  | "m3" | "b3" => match m3s l, m3s (dummy 9) with
    | some a, some b => showB (M3.relAll relTok a b) | _, _ => "bad-args"
  | "m4" => match m4s l, m4s (dummy 16) with
    | some a, some b => showB (M4.relAll relTok a b) | _, _ => "bad-args"
  | "q" => match l with
    | [s, x, y, z] => showB (Quat.relAll relTok ⟨⟨x, y, z⟩, s⟩ ⟨⟨"", "", ""⟩, ""⟩)
    | _ => "bad-args"
  | "dq" => match l with   -- scale, quat s x y z, disp x y z
    | [sc, s, x, y, z, dx, dy, dz] =>
      showB (Decomposed.relAll relTok (Quat.relAll relTok) (V3.relAll relTok)
        (⟨sc, ⟨⟨x, y, z⟩, s⟩, ⟨dx, dy, dz⟩⟩ : Decomposed (Quat String) (V3 String) String)
        ⟨"", ⟨⟨"", "", ""⟩, ""⟩, ⟨"", "", ""⟩⟩)
    | _ => "bad-args"
  | "db3" => match l with
    | sc :: rest => match m3s (rest.take 9), v3s (rest.drop 9), m3s (dummy 9), v3s (dummy 3) with
      | some m, some d, some m0, some d0 =>
        showB (Decomposed.relAll relTok (Basis3.relAll relTok) (V3.relAll relTok)
          (⟨sc, ⟨m⟩, d⟩ : Decomposed (Basis3 String) (V3 String) String) ⟨"", ⟨m0⟩, d0⟩)
      | _, _, _, _ => "bad-args"
    | _ => "bad-args"
  | "db2" => match l with
    | sc :: rest => match m2s (rest.take 4), v2s (rest.drop 4), m2s (dummy 4), v2s (dummy 2) with
      | some m, some d, some m0, some d0 =>
        showB (Decomposed.relAll relTok (Basis2.relAll relTok) (V2.relAll relTok)
          (⟨sc, ⟨m⟩, d⟩ : Decomposed (Basis2 String) (V2 String) String) ⟨"", ⟨m0⟩, d0⟩)
      | _, _, _, _ => "bad-args"
    | _ => "bad-args"
  | _ => "unknown-op"

/-- predicates over per-element booleans (flat column-major) -/
def rawPred (which kind : String) (l : List String) : String :=
  match which, kind with
  | "finite", "v1" => match l with | [a] => showB (V1.isFinite tb ⟨a⟩) | _ => "bad-args"
  | "finite", "p1" => match l with | [a] => showB (P1.isFinite tb ⟨a⟩) | _ => "bad-args"
  | "finite", "p2" => match l with | [a, b] => showB (P2.isFinite tb ⟨a, b⟩) | _ => "bad-args"
  | "finite", "p3" => match l with | [a, b, c] => showB (P3.isFinite tb ⟨a, b, c⟩) | _ => "bad-args"
  | "finite", "v2" => match v2s l with | some v => showB (V2.allP tb v) | none => "bad-args"
  | "finite", "v3" => match v3s l with | some v => showB (V3.allP tb v) | none => "bad-args"
  | "finite", "v4" => match v4s l with | some v => showB (V4.allP tb v) | none => "bad-args"
  | "finite", "m2" => match m2s l with | some m => showB (M2.isFinite tb m) | none => "bad-args"
  | "finite", "m3" => match m3s l with | some m => showB (M3.isFinite tb m) | none => "bad-args"
  | "finite", "m4" => match m4s l with | some m => showB (M4.isFinite tb m) | none => "bad-args"
  | "finite", "q" => match l with
    | [s, x, y, z] => showB (Quat.isFinite tb ⟨⟨x, y, z⟩, s⟩) | _ => "bad-args"
  | "diag", "m2" => match m2s l with | some m => showB (M2.isDiagonal tb m) | none => "bad-args"
  | "diag", "m3" => match m3s l with | some m => showB (M3.isDiagonal tb m) | none => "bad-args"
  | "diag", "m4" => match m4s l with | some m => showB (M4.isDiagonal tb m) | none => "bad-args"
  -- symmetric: element (c,r) carries the verdict of ulps_eq(m[c][r], m[r][c])
  | "sym", "m2" => match m2s l with | some m => showB (M2.isSymmetric relTok m) | none => "bad-args"
  | "sym", "m3" => match m3s l with | some m => showB (M3.isSymmetric relTok m) | none => "bad-args"
  | "sym", "m4" => match m4s l with | some m => showB (M4.isSymmetric relTok m) | none => "bad-args"
  | _, _ => "unknown-op"

def rawDec (keys : List String) : String :=
  let kvs := keys.zipIdx.map fun (k, i) => (k, i)
  match deDecomposed kvs with
  | .ok (s, r, d) => s!"ok {s} {r} {d}"
  | .error _ => "err"

def rawSwz (letters : String) (upto : String) : String :=
  match upto.toNat? with
  | some u =>
    let all := genSwizzleAll letters.toList u
    " ".intercalate ("ok" :: all.map fun p => String.ofList p.1 ++ ":" ++ String.ofList p.2)
  | none => "bad-args"

def runRaw (toks : List String) : String :=
  match toks with
  | "n.cast" :: kind :: rest => rawCast kind rest
  | "n.rel" :: kind :: rest => rawRel kind rest
  | "n.pred" :: which :: kind :: rest => rawPred which kind rest
  | "n.dec" :: keys => rawDec keys
  | ["n.swz", letters, upto] => rawSwz letters upto
  | _ => "unknown-op"

end Cg.Rt
