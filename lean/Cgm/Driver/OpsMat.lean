import Cgm.Driver.OpsVec
namespace Cg.Rt
open Cg

section
variable [Transc Rat]

open Lean in
macro "matOps!" M:ident rd:ident rdv:ident : term => do
  let f (s : String) := mkIdent (M.getId ++ Name.mkSimple s)
  `(fun (op : String) => (match op with
    | "id" => some fun _ => do let m ← ($rd); return okS m.toList
    | "row" => some fun is => do
        let m ← ($rd)
        match is with
        | [r] => return ofPanic ((m.row? r).map (·.toList))
        | _ => failure
    | "col" => some fun is => do
        let m ← ($rd)
        match is with
        | [c] => return ofPanic ((m.col? c).map (·.toList))
        | _ => failure
    | "transpose" => some fun _ => do let m ← ($rd); return okS m.transpose.toList
    | "transpose_self" => some fun _ => do
        let m ← ($rd); return ofPanic (m.transposeSelf?.map (·.toList))
    | "diagonal" => some fun _ => do let m ← ($rd); return okS m.diagonal.toList
    | "trace" => some fun _ => do let m ← ($rd); return okS [m.trace]
    | "from_value" => some fun _ => do let s ← rx; return okS ($(f "fromValue") s).toList
    | "from_diagonal" => some fun _ => do let d ← ($rdv); return okS ($(f "fromDiagonal") d).toList
    | "identity" => some fun _ => do return okS ($(f "one") : $M Rat).toList
    | "one" => some fun _ => do return okS ($(f "one") : $M Rat).toList
    | "zero" => some fun _ => do return okS ($(f "zero") : $M Rat).toList
    | "add" => some fun _ => do let m ← ($rd); let n ← ($rd); return okS (m + n).toList
    | "sub" => some fun _ => do let m ← ($rd); let n ← ($rd); return okS (m - n).toList
    | "neg" => some fun _ => do let m ← ($rd); return okS (-m).toList
    | "mul_s" => some fun _ => do let m ← ($rd); let s ← rx; return okS (m * s).toList
    | "div_s" => some fun _ => do let m ← ($rd); let s ← rx; return okS (m / s).toList
    | "rem_s" => some fun _ => do let m ← ($rd); let s ← rx; return okS (m.rem s).toList
    | "mul_v" => some fun _ => do let m ← ($rd); let v ← ($rdv); return okS (m.mulVec v).toList
    | "mul" => some fun _ => do let m ← ($rd); let n ← ($rd); return okS (m * n).toList
    | "det" => some fun _ => do let m ← ($rd); return okS [m.det]
    | "invert" => some fun _ => do let m ← ($rd); return ofOpt (m.invert.map (·.toList))
    | "swap_rows" => some fun is => do
        let m ← ($rd)
        match is with
        | [a, b] => return ofPanic ((m.swapRows? a b).map (·.toList))
        | _ => failure
    | "swap_columns" => some fun is => do
        let m ← ($rd)
        match is with
        | [a, b] => return ofPanic ((m.swapColumns? a b).map (·.toList))
        | _ => failure
    | "swap_elements" => some fun is => do
        let m ← ($rd)
        match is with
        | [ac, ar, bc, br] => return ofPanic ((m.swapElements? ac ar bc br).map (·.toList))
        | _ => failure
    | "replace_col" => some fun is => do
        let m ← ($rd); let v ← ($rdv)
        match is with
        | [c] => return ofPanic ((m.replaceCol? c v).map (fun (m', o) => m'.toList ++ o.toList))
        | _ => failure
    | "sum_list" => some fun _ => do let l ← rmany $rd; return okS ($(f "sumList") l).toList
    | "product_list" => some fun _ => do let l ← rmany $rd; return okS ($(f "productList") l).toList
    | "product_list_ref" => some fun _ => do
        let l ← rmany $rd; return okS ($(f "productList") l).toList
    | _ => none : Option Op))

def opsM2 : String → Option Op := matOps! M2 rm2 rv2
def opsM3 : String → Option Op := matOps! M3 rm3 rv3
def opsM4 : String → Option Op := matOps! M4 rm4 rv4

def rxs (n : Nat) : Rd (List Rat) := fun l => if n ≤ l.length then some (l.take n, l.drop n) else none

def opsMatSpecial (name : String) : Option Op :=
  match name with
  | "m2.new" => some fun _ => do
      let a ← rx; let b ← rx; let c ← rx; let d ← rx; return okS (M2.new a b c d).toList
  | "m3.new" => some fun _ => do
      match ← rxs 9 with
      | [a, b, c, d, e, f, g, h, i] => return okS (M3.new a b c d e f g h i).toList
      | _ => failure
  | "m4.new" => some fun _ => do
      match ← rxs 16 with
      | [a, b, c, d, e, f, g, h, i, j, k, l, m, n, o, p] =>
        return okS (M4.new a b c d e f g h i j k l m n o p).toList
      | _ => failure
  | "m3.from_translation" => some fun _ => do let v ← rv2; return okS (M3.fromTranslation v).toList
  | "m4.from_translation" => some fun _ => do let v ← rv3; return okS (M4.fromTranslation v).toList
  | "m3.from_scale" => some fun _ => do let s ← rx; return okS (M3.fromScale s).toList
  | "m4.from_scale" => some fun _ => do let s ← rx; return okS (M4.fromScale s).toList
  | "m3.from_nonuniform_scale" => some fun _ => do
      let x ← rx; let y ← rx; return okS (M3.fromNonuniformScale x y).toList
  | "m4.from_nonuniform_scale" => some fun _ => do
      let x ← rx; let y ← rx; let z ← rx; return okS (M4.fromNonuniformScale x y z).toList
  | "m2.to_m3" => some fun _ => do let m ← rm2; return okS m.toM3.toList
  | "m2.to_m4" => some fun _ => do let m ← rm2; return okS m.toM4.toList
  | "m3.to_m4" => some fun _ => do let m ← rm3; return okS m.toM4.toList
  | "m3.transform_vector2" => some fun _ => do
      let m ← rm3; let v ← rv2; return okS (m.transformVector2 v).toList
  | "m3.transform_point2" => some fun _ => do
      let m ← rm3; let p ← rp2; return okS (m.transformPoint2 p).toList
  | "m3.transform_vector" => some fun _ => do
      let m ← rm3; let v ← rv3; return okS (m.transformVector v).toList
  | "m3.transform_point" => some fun _ => do
      let m ← rm3; let p ← rp3; return okS (m.transformPoint p).toList
  | "m4.transform_vector" => some fun _ => do
      let m ← rm4; let v ← rv3; return okS (m.transformVector v).toList
  | "m4.transform_point" => some fun _ => do
      let m ← rm4; let p ← rp3; return okS (m.transformPoint p).toList
  | "m3.concat2" => some fun _ => do let m ← rm3; let n ← rm3; return okS (m * n).toList
  | "m3.concat" => some fun _ => do let m ← rm3; let n ← rm3; return okS (m * n).toList
  | "m4.concat" => some fun _ => do let m ← rm4; let n ← rm4; return okS (m * n).toList
  | "m3.concat_self2" => some fun _ => do let m ← rm3; let n ← rm3; return okS (m * n).toList
  | "m4.concat_self" => some fun _ => do let m ← rm4; let n ← rm4; return okS (m * n).toList
  | "m3.concat_self" => some fun _ => do let m ← rm3; let n ← rm3; return okS (m * n).toList
  | "m3.inverse_transform2" => some fun _ => do
      let m ← rm3; return ofOpt (m.inverseTransform.map (·.toList))
  | "m3.inverse_transform" => some fun _ => do
      let m ← rm3; return ofOpt (m.inverseTransform.map (·.toList))
  | "m4.inverse_transform" => some fun _ => do
      let m ← rm4; return ofOpt (m.inverseTransform.map (·.toList))
  | "m3.inverse_transform_vector2" => some fun _ => do
      let m ← rm3; let v ← rv2; return ofOpt ((m.inverseTransformVector2 v).map (·.toList))
  | "m3.inverse_transform_vector" => some fun _ => do
      let m ← rm3; let v ← rv3; return ofOpt ((m.inverseTransformVector v).map (·.toList))
  | "m4.inverse_transform_vector" => some fun _ => do
      let m ← rm4; let v ← rv3; return ofOpt ((m.inverseTransformVector v).map (·.toList))
  | _ => none

end
end Cg.Rt
