import Cgm.Driver.OpsQuat
namespace Cg.Rt
open Cg

section
variable [Transc Rat]

abbrev DQ := Decomposed (Quat Rat) (V3 Rat) Rat
abbrev DB3 := Decomposed (Basis3 Rat) (V3 Rat) Rat
abbrev DB2 := Decomposed (Basis2 Rat) (V2 Rat) Rat

def rdq : Rd DQ := do let s ← rx; let r ← rq; let d ← rv3; return ⟨s, r, d⟩
def rdb3 : Rd DB3 := do let s ← rx; let r ← rb3; let d ← rv3; return ⟨s, r, d⟩
def rdb2 : Rd DB2 := do let s ← rx; let r ← rb2; let d ← rv2; return ⟨s, r, d⟩
def flq (d : DQ) : List Rat := d.scale :: d.rot.toList ++ d.disp.toList
def flb3 (d : DB3) : List Rat := d.scale :: d.rot.mat.toList ++ d.disp.toList
def flb2 (d : DB2) : List Rat := d.scale :: d.rot.mat.toList ++ d.disp.toList

def ofRes {β : Type} (f : β → List Rat) (r : Res β) : Out :=
  match r with | .ok b => okS (f b) | .none => .none | .panic => .panic

open Lean in
macro "decOps!" rd:ident fl:ident ρ:term:max "," zeroV:term:max "," rdv:ident "," rdp:ident "," P:ident : term => do
  let fromVec := mkIdent (P.getId ++ `fromVec)
  `(fun (op : String) => (match op with
    | "one" => some fun _ => return okS ($fl (Decomposed.one $ρ $zeroV))
    | "id" => some fun _ => do let d ← ($rd); return okS ($fl d)
    | "transform_vector" => some fun _ => do
        let d ← ($rd); let v ← ($rdv); return okS (Decomposed.transformVector $ρ d v).toList
    | "transform_point" => some fun _ => do
        let d ← ($rd); let p ← ($rdp)
        return okS ($fromVec (Decomposed.transformPointV $ρ d p.toVec)).toList
    | "concat" => some fun _ => do let d ← ($rd); let e ← ($rd); return okS ($fl (Decomposed.concat $ρ d e))
    | "mul" => some fun _ => do let d ← ($rd); let e ← ($rd); return okS ($fl (Decomposed.concat $ρ d e))
    | "concat_self" => some fun _ => do
        let d ← ($rd); let e ← ($rd); return okS ($fl (Decomposed.concat $ρ d e))
    | "inverse_transform" => some fun _ => do
        let d ← ($rd); return ofRes $fl (Decomposed.inverseTransform $ρ d)
    | "inverse_transform_vector" => some fun _ => do
        let d ← ($rd); let v ← ($rdv)
        return ofRes (·.toList) (Decomposed.inverseTransformVector $ρ d v)
    | "look_at" => some fun _ => do
        let e ← ($rdp); let c ← ($rdp); let u ← ($rdv)
        return okS ($fl (Decomposed.lookAtDir $ρ (c - e) u $zeroV e.toVec))
    | "look_at_lh" => some fun _ => do
        let e ← ($rdp); let c ← ($rdp); let u ← ($rdv)
        return okS ($fl (Decomposed.lookAtDir $ρ (c - e) u $zeroV e.toVec))
    | "look_at_rh" => some fun _ => do
        let e ← ($rdp); let c ← ($rdp); let u ← ($rdv)
        return okS ($fl (Decomposed.lookAtDir $ρ (e - c) u $zeroV e.toVec))
    | _ => none : Option Op))

def opsDq : String → Option Op := decOps! rdq flq (quatOps (α := Rat)), (V3.zero : V3 Rat), rv3, rp3, P3
def opsDb3 : String → Option Op := decOps! rdb3 flb3 (basis3Ops (α := Rat)), (V3.zero : V3 Rat), rv3, rp3, P3
def opsDb2 : String → Option Op := decOps! rdb2 flb2 (basis2Ops (α := Rat)), (V2.zero : V2 Rat), rv2, rp2, P2

/-- angle ops for a unit whose full turn is `T`; `toR`/`ofR` convert to / from radians -/
def angleOps (T : Rat) (toR ofR toD : Rat → Rat) (op : String) : Option Op :=
  match op with
  | "to_rad" => some fun _ => do let x ← rx; return okS [toR x]
  | "to_deg" => some fun _ => do let x ← rx; return okS [toD x]
  | "full_turn" => some fun _ => return okS [T]
  | "turn_div_2" => some fun _ => return okS [Angle.turnDiv T 2]
  | "turn_div_3" => some fun _ => return okS [Angle.turnDiv T 3]
  | "turn_div_4" => some fun _ => return okS [Angle.turnDiv T 4]
  | "turn_div_6" => some fun _ => return okS [Angle.turnDiv T 6]
  | "normalize" => some fun _ => do let x ← rx; return okS [Angle.normalize T x]
  | "normalize_signed" => some fun _ => do let x ← rx; return okS [Angle.normalizeSigned T x]
  | "opposite" => some fun _ => do let x ← rx; return okS [Angle.opposite T x]
  | "bisect" => some fun _ => do let x ← rx; let y ← rx; return okS [Angle.bisect T x y]
  | "sin" => some fun _ => do let x ← rx; return okS [Rad.sin (toR x)]
  | "cos" => some fun _ => do let x ← rx; return okS [Rad.cos (toR x)]
  | "tan" => some fun _ => do let x ← rx; return okS [Rad.tan (toR x)]
  | "sin_cos" => some fun _ => do let x ← rx; return okS [Rad.sin (toR x), Rad.cos (toR x)]
  | "csc" => some fun _ => do let x ← rx; return okS [Rad.csc (toR x)]
  | "sec" => some fun _ => do let x ← rx; return okS [Rad.sec (toR x)]
  | "cot" => some fun _ => do let x ← rx; return okS [Rad.cot (toR x)]
  | "asin" => some fun _ => do let x ← rx; return okS [ofR (Rad.asin x)]
  | "acos" => some fun _ => do let x ← rx; return okS [ofR (Rad.acos x)]
  | "atan" => some fun _ => do let x ← rx; return okS [ofR (Rad.atan x)]
  | "atan2" => some fun _ => do let y ← rx; let x ← rx; return okS [ofR (Rad.atan2 y x)]
  | "add" => some fun _ => do let x ← rx; let y ← rx; return okS [x + y]
  | "sub" => some fun _ => do let x ← rx; let y ← rx; return okS [x - y]
  | "neg" => some fun _ => do let x ← rx; return okS [-x]
  | "mul_s" => some fun _ => do let x ← rx; let s ← rx; return okS [x * s]
  | "div_s" => some fun _ => do let x ← rx; let s ← rx; return okS [x / s]
  | "div_a" => some fun _ => do let x ← rx; let y ← rx; return okS [x / y]
  | "rem" => some fun _ => do let x ← rx; let y ← rx; return okS [FRem.frem x y]
  | "zero" => some fun _ => return okS [0]
  | "is_zero" => some fun _ => do let x ← rx; return okB (ulpsEqD x (0 : Rat))
  | "sum_list" => some fun _ => do let l ← rrest; return okS [l.foldl (· + ·) 0]
  | "sum_list_ref" => some fun _ => do let l ← rrest; return okS [l.foldl (· + ·) 0]
  | _ => none

def opsRad : String → Option Op := angleOps (Lits.radFull : Rat) id id radToDeg
def opsDeg : String → Option Op := angleOps (degFull : Rat) degToRad radToDeg id

def ofOptM4 (o : Option (M4 Rat)) : Out := match o with | some m => okS m.toList | none => .panic

def opsXformSpecial (name : String) : Option Op :=
  match name with
  | "dq.to_matrix" => some fun _ => do let d ← rdq; return okS (Decomposed.toM4 quatOps d).toList
  | "db3.to_matrix" => some fun _ => do let d ← rdb3; return okS (Decomposed.toM4 basis3Ops d).toList
  | "db2.to_matrix" => some fun _ => do let d ← rdb2; return okS (Decomposed.toM3 basis2Ops d).toList
  | "proj.ortho" | "proj.ortho_s" => some fun _ => do
      match ← rxs 6 with
      | [l, r, b, t, n, f] => return okS (ortho l r b t n f).toList
      | _ => failure
  | "proj.frustum" | "proj.frustum_s" => some fun _ => do
      match ← rxs 6 with
      | [l, r, b, t, n, f] => return ofOptM4 (frustum l r b t n f)
      | _ => failure
  | "proj.perspective" | "proj.perspective_s" => some fun _ => do
      let fv ← rx; let a ← rx; let n ← rx; let f ← rx; return ofOptM4 (perspective fv a n f)
  | "proj.perspective_deg" => some fun _ => do
      let fv ← rx; let a ← rx; let n ← rx; let f ← rx; return ofOptM4 (perspective (degToRad fv) a n f)
  | "proj.planar" | "proj.planar_s" => some fun _ => do
      let fv ← rx; let a ← rx; let h ← rx; let n ← rx; let f ← rx; return ofOptM4 (planar fv a h n f)
  | "proj.to_perspective" => some fun _ => do
      let fv ← rx; let a ← rx; let n ← rx; let f ← rx; return okS (toPerspective fv a n f)
  | _ => none
end
end Cg.Rt
