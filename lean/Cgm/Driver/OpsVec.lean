import Cgm.Driver.Rt
import Cgm.Model.Mat
/-!
# Driver op tables: vectors, points, matrices
The argument order and result flattening of every entry mirror
`/verif/harness/src/ops/{vec,point,mat}.rs`.
-/
namespace Cg.Rt
open Cg

def rv1 : Rd (V1 Rat) := do return ⟨← rx⟩
def rv2 : Rd (V2 Rat) := do return ⟨← rx, ← rx⟩
def rv3 : Rd (V3 Rat) := do return ⟨← rx, ← rx, ← rx⟩
def rv4 : Rd (V4 Rat) := do return ⟨← rx, ← rx, ← rx, ← rx⟩
def rp1 : Rd (P1 Rat) := do return ⟨← rx⟩
def rp2 : Rd (P2 Rat) := do return ⟨← rx, ← rx⟩
def rp3 : Rd (P3 Rat) := do return ⟨← rx, ← rx, ← rx⟩
def rm2 : Rd (M2 Rat) := do return ⟨← rv2, ← rv2⟩
def rm3 : Rd (M3 Rat) := do return ⟨← rv3, ← rv3, ← rv3⟩
def rm4 : Rd (M4 Rat) := do return ⟨← rv4, ← rv4, ← rv4, ← rv4⟩

/-- read as many `β` as the remaining arguments allow (fuel = #args) -/
def rmany {β : Type} (r : Rd β) : Rd (List β) := fun l =>
  let rec go (fuel : Nat) (l : List Rat) (acc : List β) : Option (List β × List Rat) :=
    match fuel with
    | 0 => some (acc.reverse, l)
    | fuel + 1 =>
      if l.isEmpty then some (acc.reverse, l) else
      match r l with
      | some (b, l') => go fuel l' (b :: acc)
      | none => none
  go l.length l []

/-- an op: given the index arguments, a reader producing the output -/
abbrev Op := List Nat → Rd Out

def idx0 (is : List Nat) : Option Nat := match is with | [i] => some i | _ => none

section
variable [Transc Rat]

open Lean in
macro "vecOps!" V:ident rd:ident : term => do
  let f (s : String) := mkIdent (V.getId ++ Name.mkSimple s)
  `(fun (op : String) => (match op with
    | "add" => some fun _ => do let u ← ($rd); let v ← ($rd); return okS (u + v).toList
    | "sub" => some fun _ => do let u ← ($rd); let v ← ($rd); return okS (u - v).toList
    | "neg" => some fun _ => do let u ← ($rd); return okS (-u).toList
    | "mul" => some fun _ => do let u ← ($rd); let s ← rx; return okS (u * s).toList
    | "div" => some fun _ => do let u ← ($rd); let s ← rx; return okS (u / s).toList
    | "rem" => some fun _ => do let u ← ($rd); let s ← rx; return okS (u.rem s).toList
    | "add_ew" => some fun _ => do let u ← ($rd); let v ← ($rd); return okS (u + v).toList
    | "sub_ew" => some fun _ => do let u ← ($rd); let v ← ($rd); return okS (u - v).toList
    | "mul_ew" => some fun _ => do let u ← ($rd); let v ← ($rd); return okS (u.mulEw v).toList
    | "div_ew" => some fun _ => do let u ← ($rd); let v ← ($rd); return okS (u.divEw v).toList
    | "rem_ew" => some fun _ => do let u ← ($rd); let v ← ($rd); return okS (u.remEw v).toList
    | "add_ews" => some fun _ => do let u ← ($rd); let s ← rx; return okS (u.addS s).toList
    | "sub_ews" => some fun _ => do let u ← ($rd); let s ← rx; return okS (u.subS s).toList
    | "mul_ews" => some fun _ => do let u ← ($rd); let s ← rx; return okS (u * s).toList
    | "div_ews" => some fun _ => do let u ← ($rd); let s ← rx; return okS (u / s).toList
    | "rem_ews" => some fun _ => do let u ← ($rd); let s ← rx; return okS (u.rem s).toList
    | "zero" => some fun _ => do return okS ($(f "zero") : $V Rat).toList
    | "from_value" => some fun _ => do let s ← rx; return okS ($(f "fromValue") s).toList
    | "sum" => some fun _ => do let u ← ($rd); return okS [u.sum]
    | "product" => some fun _ => do let u ← ($rd); return okS [u.product]
    | "dot" => some fun _ => do let u ← ($rd); let v ← ($rd); return okS [u.dot v]
    | "magnitude2" => some fun _ => do let u ← ($rd); return okS [u.magnitude2]
    | "distance2" => some fun _ => do let u ← ($rd); let v ← ($rd); return okS [u.distance2 v]
    | "lerp" => some fun _ => do let u ← ($rd); let v ← ($rd); let t ← rx; return okS (u.lerp v t).toList
    | "project_on" => some fun _ => do let u ← ($rd); let v ← ($rd); return okS (u.projectOn v).toList
    | "magnitude" => some fun _ => do let u ← ($rd); return okS [u.magnitude]
    | "distance" => some fun _ => do let u ← ($rd); let v ← ($rd); return okS [u.distance v]
    | "normalize" => some fun _ => do let u ← ($rd); return okS u.normalize.toList
    | "normalize_to" => some fun _ => do let u ← ($rd); let m ← rx; return okS (u.normalizeTo m).toList
    | "angle" => some fun _ => do let u ← ($rd); let v ← ($rd); return okS [u.angle v]
    | "is_zero" => some fun _ => do let u ← ($rd); return okB (decide (u = $(f "zero")))
    | "is_perpendicular" => some fun _ => do
        let u ← ($rd); let v ← ($rd); return okB (ulpsEqD (u.dot v) (0 : Rat))
    | "index" => some fun is => do
        let u ← ($rd)
        match idx0 is with
        | some i => return (match u.get? i with | some a => okS [a] | none => .panic)
        | none => failure
    | "sum_list" => some fun _ => do let l ← rmany $rd; return okS ($(f "sumList") l).toList
    | "sum_list_ref" => some fun _ => do let l ← rmany $rd; return okS ($(f "sumList") l).toList
    | _ => none : Option Op))

def opsV1 : String → Option Op := vecOps! V1 rv1
def opsV2 : String → Option Op := vecOps! V2 rv2
def opsV3 : String → Option Op := vecOps! V3 rv3
def opsV4 : String → Option Op := vecOps! V4 rv4

def opsVecSpecial (name : String) : Option Op :=
  match name with
  | "v2.perp_dot" => some fun _ => do let u ← rv2; let v ← rv2; return okS [u.perpDot v]
  | "v3.cross" => some fun _ => do let u ← rv3; let v ← rv3; return okS (u.cross v).toList
  | "v2.extend" => some fun _ => do let u ← rv2; let s ← rx; return okS (u.extend s).toList
  | "v3.extend" => some fun _ => do let u ← rv3; let s ← rx; return okS (u.extend s).toList
  | "v3.truncate" => some fun _ => do let u ← rv3; return okS u.truncate.toList
  | "v4.truncate" => some fun _ => do let u ← rv4; return okS u.truncate.toList
  | "v4.truncate_n" => some fun is => do
      let u ← rv4
      match idx0 is with
      | some n => return ofPanic ((u.truncateN? n).map V3.toList)
      | none => failure
  | "v1.unit_x" => some fun _ => return okS (V1.unitX : V1 Rat).toList
  | "v2.unit_x" => some fun _ => return okS (V2.unitX : V2 Rat).toList
  | "v2.unit_y" => some fun _ => return okS (V2.unitY : V2 Rat).toList
  | "v3.unit_x" => some fun _ => return okS (V3.unitX : V3 Rat).toList
  | "v3.unit_y" => some fun _ => return okS (V3.unitY : V3 Rat).toList
  | "v3.unit_z" => some fun _ => return okS (V3.unitZ : V3 Rat).toList
  | "v4.unit_x" => some fun _ => return okS (V4.unitX : V4 Rat).toList
  | "v4.unit_y" => some fun _ => return okS (V4.unitY : V4 Rat).toList
  | "v4.unit_z" => some fun _ => return okS (V4.unitZ : V4 Rat).toList
  | "v4.unit_w" => some fun _ => return okS (V4.unitW : V4 Rat).toList
  | "dot.v3" => some fun _ => do let u ← rv3; let v ← rv3; return okS [u.dot v]
  | _ => none

open Lean in
macro "pointOps!" P:ident V:ident rd:ident rdv:ident : term => do
  let f (s : String) := mkIdent (P.getId ++ Name.mkSimple s)
  let fv (s : String) := mkIdent (V.getId ++ Name.mkSimple s)
  `(fun (op : String) => (match op with
    | "add_v" => some fun _ => do let p ← ($rd); let v ← ($rdv); return okS (p + v).toList
    | "sub_v" => some fun _ => do let p ← ($rd); let v ← ($rdv); return okS (p - v).toList
    | "sub_p" => some fun _ => do let p ← ($rd); let q ← ($rd); return okS ($(fv "toList") (p - q))
    | "mul" => some fun _ => do let p ← ($rd); let s ← rx; return okS (p * s).toList
    | "div" => some fun _ => do let p ← ($rd); let s ← rx; return okS (p / s).toList
    | "rem" => some fun _ => do let p ← ($rd); let s ← rx; return okS (p.rem s).toList
    | "add_ew" => some fun _ => do let u ← ($rd); let v ← ($rd); return okS (u.addEw v).toList
    | "sub_ew" => some fun _ => do let u ← ($rd); let v ← ($rd); return okS (u.subEw v).toList
    | "mul_ew" => some fun _ => do let u ← ($rd); let v ← ($rd); return okS (u.mulEw v).toList
    | "div_ew" => some fun _ => do let u ← ($rd); let v ← ($rd); return okS (u.divEw v).toList
    | "rem_ew" => some fun _ => do let u ← ($rd); let v ← ($rd); return okS (u.remEw v).toList
    | "add_ews" => some fun _ => do let u ← ($rd); let s ← rx; return okS (u.addS s).toList
    | "sub_ews" => some fun _ => do let u ← ($rd); let s ← rx; return okS (u.subS s).toList
    | "mul_ews" => some fun _ => do let u ← ($rd); let s ← rx; return okS (u * s).toList
    | "div_ews" => some fun _ => do let u ← ($rd); let s ← rx; return okS (u / s).toList
    | "rem_ews" => some fun _ => do let u ← ($rd); let s ← rx; return okS (u.rem s).toList
    | "origin" => some fun _ => do return okS ($(f "origin") : $P Rat).toList
    | "from_vec" => some fun _ => do let v ← ($rdv); return okS ($(f "fromVec") v).toList
    | "to_vec" => some fun _ => do let p ← ($rd); return okS p.toVec.toList
    | "from_value" => some fun _ => do let s ← rx; return okS ($(f "fromValue") s).toList
    | "sum" => some fun _ => do let p ← ($rd); return okS [p.toVec.sum]
    | "product" => some fun _ => do let p ← ($rd); return okS [p.toVec.product]
    | "dot" => some fun _ => do let p ← ($rd); let v ← ($rdv); return okS [p.dot v]
    | "distance2" => some fun _ => do let p ← ($rd); let q ← ($rd); return okS [p.distance2 q]
    | "distance" => some fun _ => do let p ← ($rd); let q ← ($rd); return okS [p.distance q]
    | "midpoint" => some fun _ => do let p ← ($rd); let q ← ($rd); return okS (p.midpoint q).toList
    | "centroid" => some fun _ => do let l ← rmany $rd; return okS ($(f "centroid") l).toList
    | "index" => some fun is => do
        let u ← ($rd)
        match idx0 is with
        | some i => return (match u.get? i with | some a => okS [a] | none => .panic)
        | none => failure
    | _ => none : Option Op))

def opsP1 : String → Option Op := pointOps! P1 V1 rp1 rv1
def opsP2 : String → Option Op := pointOps! P2 V2 rp2 rv2
def opsP3 : String → Option Op := pointOps! P3 V3 rp3 rv3

def opsPointSpecial (name : String) : Option Op :=
  match name with
  | "p3.to_homogeneous" => some fun _ => do let p ← rp3; return okS p.toHomogeneous.toList
  | "p3.from_homogeneous" => some fun _ => do let v ← rv4; return okS (P3.fromHomogeneous v).toList
  | _ => none

end
end Cg.Rt
