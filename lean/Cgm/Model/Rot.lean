import Cgm.Model.Quat
/-!
# Angles, rotation constructors, Basis2/Basis3, look-at, Euler, interpolation,
between_vectors / from_arc
(src/angle.rs, src/structure.rs `Angle`, src/matrix.rs, src/rotation.rs,
 src/quaternion.rs, src/euler.rs)

Angles are modelled by their underlying number; every function that takes
`A: Into<Rad<S>>` takes the radian measure here, and the `Deg` entry points of
the driver convert with `degToRad` first (that conversion is the code's
`From<Deg> for Rad`).
-/
namespace Cg
variable {α : Type}

/-! ## Rad / Deg -/
section angle
variable [Add α] [Sub α] [Mul α] [Div α] [Neg α] [OfNat α 0] [OfNat α 1] [NatCast α]
  [LT α] [DecidableLT α]

/-- `From<Rad> for Deg`: `rad.0 * cast(180.0 / PI)` -/
def radToDeg [Lits α] (r : α) : α := r * Lits.rad2deg
/-- `From<Deg> for Rad`: `deg.0 * cast(PI / 180.0)` -/
def degToRad [Lits α] (d : α) : α := d * Lits.deg2rad
/-- `Deg::full_turn() = cast(360)` -/
def degFull : α := ((360 : Nat) : α)

/-- `Angle::normalize` for a unit whose full turn is `T` (`frem` is the scalar `%`) -/
def Angle.normalize [FRem α] (T a : α) : α :=
  let rem := FRem.frem a T
  if rem < 0 then rem + T else rem
/-- `Angle::turn_div_k`: `full_turn() / cast(k)` -/
def Angle.turnDiv (T : α) (k : Nat) : α := T / (k : α)
/-- `Angle::normalize_signed` -/
def Angle.normalizeSigned [FRem α] (T a : α) : α :=
  let rem := Angle.normalize T a
  if Angle.turnDiv T 2 < rem then rem - T else rem
/-- `Angle::opposite` -/
def Angle.opposite [FRem α] (T a : α) : α := Angle.normalize T (a + Angle.turnDiv T 2)
/-- `Angle::bisect` as repaired (`fix:` commit, see DESIGN §7):
`normalize(self + (other - self).normalize_signed() * half)` -/
def Angle.bisect [FRem α] (T a b : α) : α :=
  Angle.normalize T (a + Angle.normalizeSigned T (b - a) * half)
end angle

/-! ## trigonometry wrappers: everything goes through the radian measure -/
section trig
variable [Mul α] [Div α] [OfNat α 1] [Transc α] [Lits α]
def Rad.sin (a : α) : α := Transc.sin a
def Rad.cos (a : α) : α := Transc.cos a
def Rad.tan (a : α) : α := Transc.tan a
def Deg.sin (a : α) : α := Transc.sin (degToRad a)
def Deg.cos (a : α) : α := Transc.cos (degToRad a)
def Deg.tan (a : α) : α := Transc.tan (degToRad a)
/-- `csc`, `sec`, `cot`: `.recip()` of the above -/
def Rad.csc (a : α) : α := 1 / Rad.sin a
def Rad.sec (a : α) : α := 1 / Rad.cos a
def Rad.cot (a : α) : α := 1 / Rad.tan a
def Deg.csc (a : α) : α := 1 / Deg.sin a
def Deg.sec (a : α) : α := 1 / Deg.cos a
def Deg.cot (a : α) : α := 1 / Deg.tan a
def Rad.asin (x : α) : α := Transc.asin x
def Rad.acos (x : α) : α := Transc.acos x
def Rad.atan (x : α) : α := Transc.atan x
def Rad.atan2 (y x : α) : α := Transc.atan2 y x
def Deg.asin (x : α) : α := radToDeg (Transc.asin x)
def Deg.acos (x : α) : α := radToDeg (Transc.acos x)
def Deg.atan (x : α) : α := radToDeg (Transc.atan x)
def Deg.atan2 (y x : α) : α := radToDeg (Transc.atan2 y x)
end trig

/-! ## rotation matrices from angles (radian measure `θ`) -/
section rotmat
variable [Add α] [Sub α] [Mul α] [Neg α] [OfNat α 0] [OfNat α 1] [Transc α]

/-- `Matrix2::from_angle` -/
def M2.fromAngle (θ : α) : M2 α :=
  let s := Transc.sin θ; let c := Transc.cos θ
  M2.new c s (-s) c
def M3.fromAngleX (θ : α) : M3 α :=
  let s := Transc.sin θ; let c := Transc.cos θ
  M3.new 1 0 0 0 c s 0 (-s) c
def M3.fromAngleY (θ : α) : M3 α :=
  let s := Transc.sin θ; let c := Transc.cos θ
  M3.new c 0 (-s) 0 1 0 s 0 c
def M3.fromAngleZ (θ : α) : M3 α :=
  let s := Transc.sin θ; let c := Transc.cos θ
  M3.new c s 0 (-s) c 0 0 0 1
/-- `Matrix3::from_axis_angle` with `s = sin θ`, `c = cos θ` made explicit -/
def M3.axisAngleSC (axis : V3 α) (s c : α) : M3 α :=
  let _1subc := (1 : α) - c
  M3.new
    (_1subc * axis.x * axis.x + c)
    (_1subc * axis.x * axis.y + s * axis.z)
    (_1subc * axis.x * axis.z - s * axis.y)
    (_1subc * axis.x * axis.y - s * axis.z)
    (_1subc * axis.y * axis.y + c)
    (_1subc * axis.y * axis.z + s * axis.x)
    (_1subc * axis.x * axis.z + s * axis.y)
    (_1subc * axis.y * axis.z - s * axis.x)
    (_1subc * axis.z * axis.z + c)
def M3.fromAxisAngle (axis : V3 α) (θ : α) : M3 α :=
  M3.axisAngleSC axis (Transc.sin θ) (Transc.cos θ)
def M4.fromAngleX (θ : α) : M4 α :=
  let s := Transc.sin θ; let c := Transc.cos θ
  M4.new 1 0 0 0 0 c s 0 0 (-s) c 0 0 0 0 1
def M4.fromAngleY (θ : α) : M4 α :=
  let s := Transc.sin θ; let c := Transc.cos θ
  M4.new c 0 (-s) 0 0 1 0 0 s 0 c 0 0 0 0 1
def M4.fromAngleZ (θ : α) : M4 α :=
  let s := Transc.sin θ; let c := Transc.cos θ
  M4.new c s 0 0 (-s) c 0 0 0 0 1 0 0 0 0 1
def M4.axisAngleSC (axis : V3 α) (s c : α) : M4 α :=
  let _1subc := (1 : α) - c
  M4.new
    (_1subc * axis.x * axis.x + c)
    (_1subc * axis.x * axis.y + s * axis.z)
    (_1subc * axis.x * axis.z - s * axis.y)
    0
    (_1subc * axis.x * axis.y - s * axis.z)
    (_1subc * axis.y * axis.y + c)
    (_1subc * axis.y * axis.z + s * axis.x)
    0
    (_1subc * axis.x * axis.z + s * axis.y)
    (_1subc * axis.y * axis.z - s * axis.x)
    (_1subc * axis.z * axis.z + c)
    0
    0 0 0 1
def M4.fromAxisAngle (axis : V3 α) (θ : α) : M4 α :=
  M4.axisAngleSC axis (Transc.sin θ) (Transc.cos θ)

/-- `From<Euler<A>> for Matrix3` with the six sines/cosines explicit -/
def M3.eulerSC (sx cx sy cy sz cz : α) : M3 α :=
  M3.new (cy * cz) (cx * sz + sx * sy * cz) (sx * sz - cx * sy * cz)
         (-cy * sz) (cx * cz - sx * sy * sz) (sx * cz + cx * sy * sz)
         sy (-sx * cy) (cx * cy)
def M3.ofEuler (x y z : α) : M3 α :=
  M3.eulerSC (Transc.sin x) (Transc.cos x) (Transc.sin y) (Transc.cos y) (Transc.sin z) (Transc.cos z)
def M4.eulerSC (sx cx sy cy sz cz : α) : M4 α :=
  M4.new (cy * cz) (cx * sz + sx * sy * cz) (sx * sz - cx * sy * cz) 0
         (-cy * sz) (cx * cz - sx * sy * sz) (sx * cz + cx * sy * sz) 0
         sy (-sx * cy) (cx * cy) 0
         0 0 0 1
def M4.ofEuler (x y z : α) : M4 α :=
  M4.eulerSC (Transc.sin x) (Transc.cos x) (Transc.sin y) (Transc.cos y) (Transc.sin z) (Transc.cos z)
end rotmat

/-! ## quaternion constructors -/
section quatrot
variable [Add α] [Sub α] [Mul α] [Div α] [Neg α] [OfNat α 0] [OfNat α 1] [NatCast α] [Transc α]

/-- `Quaternion::from_axis_angle`: `(s, c) = sin_cos(angle * 0.5); from_sv(c, axis * s)` -/
def Quat.fromAxisAngle (axis : V3 α) (θ : α) : Quat α :=
  let s := Transc.sin (θ * half); let c := Transc.cos (θ * half)
  Quat.fromSv c (axis * s)
/-- `Rotation3` defaults: `from_axis_angle(unit_x, theta)` … -/
def Quat.fromAngleX (θ : α) : Quat α := Quat.fromAxisAngle V3.unitX θ
def Quat.fromAngleY (θ : α) : Quat α := Quat.fromAxisAngle V3.unitY θ
def Quat.fromAngleZ (θ : α) : Quat α := Quat.fromAxisAngle V3.unitZ θ
/-- `From<Euler<A>> for Quaternion` with half-angle sines/cosines explicit -/
def Quat.eulerSC (s_x c_x s_y c_y s_z c_z : α) : Quat α :=
  Quat.new
    (-s_x * s_y * s_z + c_x * c_y * c_z)
    (s_x * c_y * c_z + s_y * s_z * c_x)
    (-s_x * s_z * c_y + s_y * c_x * c_z)
    (s_x * s_y * c_z + s_z * c_x * c_y)
def Quat.ofEuler (x y z : α) : Quat α :=
  Quat.eulerSC (Transc.sin (x * half)) (Transc.cos (x * half)) (Transc.sin (y * half))
    (Transc.cos (y * half)) (Transc.sin (z * half)) (Transc.cos (z * half))
end quatrot

/-! ## Basis2 / Basis3: rotation matrices behind a newtype -/
structure Basis2 (α : Type) where
  mat : M2 α
  deriving DecidableEq, Repr
structure Basis3 (α : Type) where
  mat : M3 α
  deriving DecidableEq, Repr

section basis
variable [Add α] [Sub α] [Mul α] [Div α] [Neg α] [OfNat α 0] [OfNat α 1] [DecidableEq α]
def Basis2.one : Basis2 α := ⟨M2.one⟩
def Basis3.one : Basis3 α := ⟨M3.one⟩
def Basis2.mul (a b : Basis2 α) : Basis2 α := ⟨a.mat * b.mat⟩
def Basis3.mul (a b : Basis3 α) : Basis3 α := ⟨a.mat * b.mat⟩
def Basis2.rotateVector (b : Basis2 α) (v : V2 α) : V2 α := b.mat * v
def Basis3.rotateVector (b : Basis3 α) (v : V3 α) : V3 α := b.mat * v
def Basis2.rotatePoint (b : Basis2 α) (p : P2 α) : P2 α := P2.fromVec (b.rotateVector p.toVec)
def Basis3.rotatePoint (b : Basis3 α) (p : P3 α) : P3 α := P3.fromVec (b.rotateVector p.toVec)
/-- `invert`: `self.mat.invert().unwrap()` — `none` is the panic of `unwrap` -/
def Basis2.invert? (b : Basis2 α) : Option (Basis2 α) := b.mat.invert.map Basis2.mk
def Basis3.invert? (b : Basis3 α) : Option (Basis3 α) := b.mat.invert.map Basis3.mk
def Basis3.fromQuaternion (q : Quat α) : Basis3 α := ⟨q.toM3⟩
def Basis2.productList (l : List (Basis2 α)) : Basis2 α := l.foldl Basis2.mul Basis2.one
def Basis3.productList (l : List (Basis3 α)) : Basis3 α := l.foldl Basis3.mul Basis3.one
end basis

/-! ## look-at family (C09) -/
section lookat
variable [Add α] [Sub α] [Mul α] [Div α] [Neg α] [OfNat α 0] [OfNat α 1] [NatCast α]
  [LT α] [DecidableLT α] [LE α] [DecidableLE α] [Transc α]

/-- `Matrix2::look_at_stable` -/
def M2.lookAtStable (dir : V2 α) (flip : Bool) : M2 α :=
  let basis1 := dir.normalize
  let basis2 : V2 α := if flip then ⟨basis1.y, -basis1.x⟩ else ⟨-basis1.y, basis1.x⟩
  ⟨basis1, basis2⟩
/-- `Matrix2::look_at`: `flip = up.x * dir.y >= up.y * dir.x` -/
def M2.lookAt (dir up : V2 α) : M2 α :=
  M2.lookAtStable dir (decide (up.y * dir.x ≤ up.x * dir.y))
/-- `Matrix3::look_to_lh` -/
def M3.lookToLh (dir up : V3 α) : M3 α :=
  let dir := dir.normalize
  let side := (V3.cross up dir).normalize
  let up := (V3.cross dir side).normalize
  M3.transpose ⟨side, up, dir⟩
def M3.lookToRh (dir up : V3 α) : M3 α := M3.lookToLh (-dir) up
/-- `Matrix4::look_to_rh` -/
def M4.lookToRh (eye : P3 α) (dir up : V3 α) : M4 α :=
  let f := dir.normalize
  let s := (V3.cross f up).normalize
  let u := V3.cross s f
  M4.new s.x u.x (-f.x) 0
         s.y u.y (-f.y) 0
         s.z u.z (-f.z) 0
         (-P3.dot eye s) (-P3.dot eye u) (P3.dot eye f) 1
def M4.lookToLh (eye : P3 α) (dir up : V3 α) : M4 α := M4.lookToRh eye (-dir) up
def M4.lookAtRh (eye center : P3 α) (up : V3 α) : M4 α := M4.lookToRh eye (center - eye) up
def M4.lookAtLh (eye center : P3 α) (up : V3 α) : M4 α := M4.lookToLh eye (center - eye) up
/-- `Transform<Point2> for Matrix3`: `look_at`, `look_at_lh` use `center - eye`, `look_at_rh` `eye - center` -/
def M3.lookAt2Lh (eye center : P2 α) (up : V2 α) : M3 α := (M2.lookAt (center - eye) up).toM3
def M3.lookAt2Rh (eye center : P2 α) (up : V2 α) : M3 α := (M2.lookAt (eye - center) up).toM3
/-- `Transform<Point3> for Matrix3` -/
def M3.lookAtLh (eye center : P3 α) (up : V3 α) : M3 α := M3.lookToLh (center - eye) up
def M3.lookAtRh (eye center : P3 α) (up : V3 α) : M3 α := M3.lookToRh (center - eye) up
/-- `Rotation::look_at` for the three rotation types (left-handed) -/
def Quat.lookAt (dir up : V3 α) : Quat α := (M3.lookToLh dir up).toQuat
def Basis3.lookAt (dir up : V3 α) : Basis3 α := ⟨M3.lookToLh dir up⟩
def Basis2.lookAt (dir up : V2 α) : Basis2 α := ⟨M2.lookAt dir up⟩
def Basis2.lookAtStable (dir : V2 α) (flip : Bool) : Basis2 α := ⟨M2.lookAtStable dir flip⟩
end lookat

/-! ## Euler angles from a quaternion (C07) -/
section euler
variable [Add α] [Sub α] [Mul α] [Div α] [Neg α] [OfNat α 0] [OfNat α 1] [NatCast α]
  [LT α] [DecidableLT α] [Transc α] [Lits α]

inductive EBranch where
  | pos | neg | main
  deriving DecidableEq, Repr

def Quat.toEulerBranch (q : Quat α) : EBranch :=
  let (qw, qx, qy, qz) := (q.s, q.v.x, q.v.y, q.v.z)
  let (sqw, sqx, sqy, sqz) := (qw * qw, qx * qx, qy * qy, qz * qz)
  let unit := sqx + sqz + sqy + sqw
  let test := qx * qz + qy * qw
  if Lits.sig * unit < test then .pos else if test < -Lits.sig * unit then .neg else .main

/-- `From<Quaternion> for Euler<Rad>`; result `(x, y, z)` in radians -/
def Quat.toEuler (q : Quat α) : α × α × α :=
  let sig : α := Lits.sig
  let two' : α := two
  let one' : α := ((1 : Nat) : α)
  let (qw, qx, qy, qz) := (q.s, q.v.x, q.v.y, q.v.z)
  let (sqw, sqx, sqy, sqz) := (qw * qw, qx * qx, qy * qy, qz * qz)
  let unit := sqx + sqz + sqy + sqw
  let test := qx * qz + qy * qw
  if sig * unit < test then
    (0, Angle.turnDiv (Lits.radFull : α) 4, Transc.atan2 qx qw * two')
  else if test < -sig * unit then
    (0, -Angle.turnDiv (Lits.radFull : α) 4, -Transc.atan2 qx qw * two')
  else
    (Transc.atan2 (two' * (-qy * qz + qx * qw)) (one' - two' * (sqx + sqy)),
     Transc.asin (two' * (qx * qz + qy * qw)),
     Transc.atan2 (two' * (-qx * qy + qz * qw)) (one' - two' * (sqy + sqz)))
end euler

/-! ## interpolation (C14) -/
section interp
variable [Add α] [Sub α] [Mul α] [Div α] [Neg α] [OfNat α 0] [OfNat α 1] [NatCast α]
  [LT α] [DecidableLT α] [LE α] [DecidableLE α] [Transc α] [Lits α]

/-- `Quaternion::nlerp` -/
def Quat.nlerp (a other : Quat α) (amount : α) : Quat α :=
  let other := if Quat.dot a other < 0 then -other else other
  (a * ((1 : α) - amount) + other * amount).normalize

/-- `Quaternion::slerp` -/
def Quat.slerp (a other : Quat α) (amount : α) : Quat α :=
  let dot := Quat.dot a other
  let thr : α := Lits.thr
  let neg := decide (dot < 0)
  let other := if neg then -other else other
  let dot := if neg then -dot else dot
  if thr < dot then a.nlerp other amount
  else
    let robust := smax (smin dot 1) (-1)
    let theta := Transc.acos robust
    let scale1 := Transc.sin (theta * ((1 : α) - amount))
    let scale2 := Transc.sin (theta * amount)
    (a * scale1 + other * scale2).normalize
end interp

/-! ## between_vectors / from_arc (C15) -/
section arc
variable [Add α] [Sub α] [Mul α] [Div α] [Neg α] [OfNat α 0] [OfNat α 1] [NatCast α]
  [LT α] [DecidableLT α] [LE α] [DecidableLE α] [Transc α] [Lits α] [Approx α]

/-- `ulps_eq!(v, &Zero::zero())` on a `Vector3` -/
def V3.ulpsEqZero (v : V3 α) : Bool := ulpsEqD v.x 0 && ulpsEqD v.y 0 && ulpsEqD v.z 0

inductive ArcBranch where
  | same | opposite | general
  deriving DecidableEq, Repr

/-- `Rotation::between_vectors` for `Quaternion` -/
def Quat.betweenVectors (a b : V3 α) : Quat α :=
  let kCosTheta := V3.dot a b
  if ulpsEqD kCosTheta 1 then Quat.one
  else
    let k := Transc.sqrt (a.magnitude2 * b.magnitude2)
    if ulpsEqD (kCosTheta / k) (-1) then
      let orthogonal := V3.cross a V3.unitX
      let orthogonal := if ulpsEqD orthogonal.magnitude2 0 then V3.cross a V3.unitY else orthogonal
      Quat.fromSv 0 orthogonal.normalize
    else
      (Quat.fromSv (k + kCosTheta) (V3.cross a b)).normalize
def Quat.betweenVectorsBranch (a b : V3 α) : ArcBranch :=
  let kCosTheta := V3.dot a b
  if ulpsEqD kCosTheta 1 then .same
  else if ulpsEqD (kCosTheta / Transc.sqrt (a.magnitude2 * b.magnitude2)) (-1) then .opposite
  else .general
def Basis3.betweenVectors (a b : V3 α) : Basis3 α := ⟨(Quat.betweenVectors a b).toM3⟩
/-- `Basis2::between_vectors` as repaired (`fix:` commit, DESIGN §7):
`from_angle(atan2(a.perp_dot(b), a.dot(b)))` -/
def Basis2.betweenVectors (a b : V2 α) : Basis2 α :=
  ⟨M2.fromAngle (Transc.atan2 (V2.perpDot a b) (V2.dot a b))⟩

/-- `Quaternion::from_arc` -/
def Quat.fromArc (src dst : V3 α) (fallback : Option (V3 α)) : Quat α :=
  let magAvg := Transc.sqrt (src.magnitude2 * dst.magnitude2)
  let dot := V3.dot src dst
  if ulpsEqD dot magAvg then Quat.one
  else if ulpsEqD dot (-magAvg) then
    let axis := match fallback with
      | some f => f
      | none =>
        let v := V3.cross V3.unitX src
        let v := if V3.ulpsEqZero v then V3.cross V3.unitY src else v
        v.normalize
    Quat.fromAxisAngle axis (Angle.turnDiv (Lits.radFull : α) 2)
  else
    (Quat.fromSv (magAvg + dot) (V3.cross src dst)).normalize
def Quat.fromArcBranch (src dst : V3 α) : ArcBranch :=
  let magAvg := Transc.sqrt (src.magnitude2 * dst.magnitude2)
  let dot := V3.dot src dst
  if ulpsEqD dot magAvg then .same else if ulpsEqD dot (-magAvg) then .opposite else .general
end arc

end Cg
