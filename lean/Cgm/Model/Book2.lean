import Cgm.Model.Book
/-!
# Bookkeeping parts of the model, second part: the remaining predicates of C18 and the
`IndexMut` / `swap_elements` views of C16 for the types that did not have them

* `Zero::is_zero` for vectors is the derived `PartialEq` against `zero()`
  (src/vector.rs:186: `*self == $VectorN::zero()`): exact equality of every component with `0`
  (the model's `==` is `DecidableEq`, as in `M*.invert`'s `det == S::zero()`).
* `Zero::is_zero` for matrices and quaternions is `ulps_eq!(self, &Self::zero())`
  (src/matrix.rs:492/509/527, src/quaternion.rs:172): the compound relation `relAll` against `zero`.
* `SquareMatrix::is_identity` is `ulps_eq!(self, &Self::identity())`, `identity() = one()`
  (src/structure.rs:545, 580).
* `SquareMatrix::is_invertible` is `ulps_ne!(self.determinant(), &zero())` (src/structure.rs:570).
* `InnerSpace::is_perpendicular` is `ulps_eq!(Self::dot(self, other), &zero())` (src/structure.rs:233).

As in `Book.lean` the scalar relation (`ulps_eq` with the default tolerances) is a parameter
`r : α → α → Bool`.
-/
namespace Cg
variable {α : Type}

/-! ## C18: `is_zero` of vectors: exact comparison, field by field (derived `PartialEq`) -/
section exact
variable [OfNat α 0] [DecidableEq α]
def V1.isZero (v : V1 α) : Bool := decide (v.x = 0)
def V2.isZero (v : V2 α) : Bool := decide (v.x = 0) && decide (v.y = 0)
def V3.isZero (v : V3 α) : Bool := decide (v.x = 0) && decide (v.y = 0) && decide (v.z = 0)
def V4.isZero (v : V4 α) : Bool :=
  decide (v.x = 0) && decide (v.y = 0) && decide (v.z = 0) && decide (v.w = 0)
end exact

/-! ## C18: approximate predicates -/
section approx
variable (r : α → α → Bool)

/-- `ulps_eq!(self, &Self::zero())` -/
def M2.isZero [OfNat α 0] (m : M2 α) : Bool := M2.relAll r m M2.zero
def M3.isZero [OfNat α 0] (m : M3 α) : Bool := M3.relAll r m M3.zero
def M4.isZero [OfNat α 0] (m : M4 α) : Bool := M4.relAll r m M4.zero
def Quat.isZero [OfNat α 0] (q : Quat α) : Bool := Quat.relAll r q Quat.zero
/-- `Rad` / `Deg` `is_zero` (src/angle.rs:80): `ulps_eq!(self, &Self::zero())` on the wrapped scalar -/
def angleIsZero [OfNat α 0] (a : α) : Bool := r a 0

/-- `ulps_eq!(self, &Self::identity())` -/
def M2.isIdentity [OfNat α 0] [OfNat α 1] (m : M2 α) : Bool := M2.relAll r m M2.one
def M3.isIdentity [OfNat α 0] [OfNat α 1] (m : M3 α) : Bool := M3.relAll r m M3.one
def M4.isIdentity [OfNat α 0] [OfNat α 1] (m : M4 α) : Bool := M4.relAll r m M4.one

/-- `ulps_ne!(self.determinant(), &zero())` -/
def M2.isInvertible [Sub α] [Mul α] [OfNat α 0] (m : M2 α) : Bool := !(r m.det 0)
def M3.isInvertible [Add α] [Sub α] [Mul α] [OfNat α 0] (m : M3 α) : Bool := !(r m.det 0)
def M4.isInvertible [Add α] [Sub α] [Mul α] [OfNat α 0] (m : M4 α) : Bool := !(r m.det 0)

/-- `ulps_eq!(Self::dot(self, other), &zero())` -/
def V1.isPerpendicular [Mul α] [OfNat α 0] (u v : V1 α) : Bool := r (V1.dot u v) 0
def V2.isPerpendicular [Add α] [Mul α] [OfNat α 0] (u v : V2 α) : Bool := r (V2.dot u v) 0
def V3.isPerpendicular [Add α] [Mul α] [OfNat α 0] (u v : V3 α) : Bool := r (V3.dot u v) 0
def V4.isPerpendicular [Add α] [Mul α] [OfNat α 0] (u v : V4 α) : Bool := r (V4.dot u v) 0
def Quat.isPerpendicular [Add α] [Mul α] [OfNat α 0] (p q : Quat α) : Bool := r (Quat.dot p q) 0
end approx

/-! ## C16: `IndexMut<usize>` + store and `Array::swap_elements` for `Vector1` and the points
(`impl_index_operators!` is instantiated for every `VectorN` and `PointN`, `Array` likewise) -/
def V1.set? (v : V1 α) (i : Nat) (a : α) : Option (V1 α) :=
  match i with | 0 => some {v with x := a} | _ => none
def P1.set? (v : P1 α) (i : Nat) (a : α) : Option (P1 α) :=
  match i with | 0 => some {v with x := a} | _ => none
def P2.set? (v : P2 α) (i : Nat) (a : α) : Option (P2 α) :=
  match i with | 0 => some {v with x := a} | 1 => some {v with y := a} | _ => none
def P3.set? (v : P3 α) (i : Nat) (a : α) : Option (P3 α) :=
  match i with
  | 0 => some {v with x := a} | 1 => some {v with y := a} | 2 => some {v with z := a} | _ => none
def V1.swapElements? (v : V1 α) (i j : Nat) : Option (V1 α) :=
  match v.get? i, v.get? j with
  | some a, some b => (v.set? i b).bind (fun v' => v'.set? j a)
  | _, _ => none
def P1.swapElements? (v : P1 α) (i j : Nat) : Option (P1 α) :=
  match v.get? i, v.get? j with
  | some a, some b => (v.set? i b).bind (fun v' => v'.set? j a)
  | _, _ => none
def P2.swapElements? (v : P2 α) (i j : Nat) : Option (P2 α) :=
  match v.get? i, v.get? j with
  | some a, some b => (v.set? i b).bind (fun v' => v'.set? j a)
  | _, _ => none
def P3.swapElements? (v : P3 α) (i j : Nat) : Option (P3 α) :=
  match v.get? i, v.get? j with
  | some a, some b => (v.set? i b).bind (fun v' => v'.set? j a)
  | _, _ => none

end Cg
