import Cgm.Model.Scalar
/-!
# Vectors `Vector1 .. Vector4` (src/vector.rs, src/structure.rs)

Mirrors `impl_vector!` field by field; `sum`/`product` use `fold_array!`'s
right-nested association; `dot` is `mul_element_wise(..).sum()`.
-/
namespace Cg

@[ext] structure V1 (α : Type) where
  x : α
  deriving DecidableEq, Repr
@[ext] structure V2 (α : Type) where
  x : α
  y : α
  deriving DecidableEq, Repr
@[ext] structure V3 (α : Type) where
  x : α
  y : α
  z : α
  deriving DecidableEq, Repr
@[ext] structure V4 (α : Type) where
  x : α
  y : α
  z : α
  w : α
  deriving DecidableEq, Repr

variable {α β γ : Type}

/-! ## map / zip / from_value / arrays -/
def V1.map (f : α → β) (v : V1 α) : V1 β := ⟨f v.x⟩
def V2.map (f : α → β) (v : V2 α) : V2 β := ⟨f v.x, f v.y⟩
def V3.map (f : α → β) (v : V3 α) : V3 β := ⟨f v.x, f v.y, f v.z⟩
def V4.map (f : α → β) (v : V4 α) : V4 β := ⟨f v.x, f v.y, f v.z, f v.w⟩
def V1.zip (f : α → β → γ) (a : V1 α) (b : V1 β) : V1 γ := ⟨f a.x b.x⟩
def V2.zip (f : α → β → γ) (a : V2 α) (b : V2 β) : V2 γ := ⟨f a.x b.x, f a.y b.y⟩
def V3.zip (f : α → β → γ) (a : V3 α) (b : V3 β) : V3 γ := ⟨f a.x b.x, f a.y b.y, f a.z b.z⟩
def V4.zip (f : α → β → γ) (a : V4 α) (b : V4 β) : V4 γ :=
  ⟨f a.x b.x, f a.y b.y, f a.z b.z, f a.w b.w⟩
def V1.fromValue (s : α) : V1 α := ⟨s⟩
def V2.fromValue (s : α) : V2 α := ⟨s, s⟩
def V3.fromValue (s : α) : V3 α := ⟨s, s, s⟩
def V4.fromValue (s : α) : V4 α := ⟨s, s, s, s⟩
def V1.toList (v : V1 α) : List α := [v.x]
def V2.toList (v : V2 α) : List α := [v.x, v.y]
def V3.toList (v : V3 α) : List α := [v.x, v.y, v.z]
def V4.toList (v : V4 α) : List α := [v.x, v.y, v.z, v.w]
/-- `Index<usize>`: `none` models the out-of-bounds panic. -/
def V1.get? (v : V1 α) (i : Nat) : Option α := v.toList[i]?
def V2.get? (v : V2 α) (i : Nat) : Option α := v.toList[i]?
def V3.get? (v : V3 α) (i : Nat) : Option α := v.toList[i]?
def V4.get? (v : V4 α) (i : Nat) : Option α := v.toList[i]?
/-- `IndexMut<usize>` followed by a store. -/
def V2.set? (v : V2 α) (i : Nat) (a : α) : Option (V2 α) :=
  match i with | 0 => some {v with x := a} | 1 => some {v with y := a} | _ => none
def V3.set? (v : V3 α) (i : Nat) (a : α) : Option (V3 α) :=
  match i with
  | 0 => some {v with x := a} | 1 => some {v with y := a} | 2 => some {v with z := a} | _ => none
def V4.set? (v : V4 α) (i : Nat) (a : α) : Option (V4 α) :=
  match i with
  | 0 => some {v with x := a} | 1 => some {v with y := a} | 2 => some {v with z := a}
  | 3 => some {v with w := a} | _ => none
/-- `Array::swap_elements` -/
def V2.swapElements? (v : V2 α) (i j : Nat) : Option (V2 α) :=
  match v.get? i, v.get? j with
  | some a, some b => (v.set? i b).bind (fun v' => v'.set? j a)
  | _, _ => none
def V3.swapElements? (v : V3 α) (i j : Nat) : Option (V3 α) :=
  match v.get? i, v.get? j with
  | some a, some b => (v.set? i b).bind (fun v' => v'.set? j a)
  | _, _ => none
def V4.swapElements? (v : V4 α) (i j : Nat) : Option (V4 α) :=
  match v.get? i, v.get? j with
  | some a, some b => (v.set? i b).bind (fun v' => v'.set? j a)
  | _, _ => none

/-! ## extend / truncate -/
def V2.extend (v : V2 α) (z : α) : V3 α := ⟨v.x, v.y, z⟩
def V3.extend (v : V3 α) (w : α) : V4 α := ⟨v.x, v.y, v.z, w⟩
def V3.truncate (v : V3 α) : V2 α := ⟨v.x, v.y⟩
def V4.truncate (v : V4 α) : V3 α := ⟨v.x, v.y, v.z⟩
/-- `Vector4::truncate_n`; other `n` panic. -/
def V4.truncateN? (v : V4 α) (n : Nat) : Option (V3 α) :=
  match n with
  | 0 => some ⟨v.y, v.z, v.w⟩
  | 1 => some ⟨v.x, v.z, v.w⟩
  | 2 => some ⟨v.x, v.y, v.w⟩
  | 3 => some ⟨v.x, v.y, v.z⟩
  | _ => none
def V4.truncate0 (v : V4 α) : V3 α := ⟨v.y, v.z, v.w⟩
def V4.truncate1 (v : V4 α) : V3 α := ⟨v.x, v.z, v.w⟩
def V4.truncate2 (v : V4 α) : V3 α := ⟨v.x, v.y, v.w⟩
def V4.truncate3 (v : V4 α) : V3 α := ⟨v.x, v.y, v.z⟩

/-! ## operators -/
section ops
variable [Add α] [Sub α] [Mul α] [Div α] [Neg α]

instance : Add (V1 α) := ⟨fun a b => ⟨a.x + b.x⟩⟩
instance : Add (V2 α) := ⟨fun a b => ⟨a.x + b.x, a.y + b.y⟩⟩
instance : Add (V3 α) := ⟨fun a b => ⟨a.x + b.x, a.y + b.y, a.z + b.z⟩⟩
instance : Add (V4 α) := ⟨fun a b => ⟨a.x + b.x, a.y + b.y, a.z + b.z, a.w + b.w⟩⟩
instance : Sub (V1 α) := ⟨fun a b => ⟨a.x - b.x⟩⟩
instance : Sub (V2 α) := ⟨fun a b => ⟨a.x - b.x, a.y - b.y⟩⟩
instance : Sub (V3 α) := ⟨fun a b => ⟨a.x - b.x, a.y - b.y, a.z - b.z⟩⟩
instance : Sub (V4 α) := ⟨fun a b => ⟨a.x - b.x, a.y - b.y, a.z - b.z, a.w - b.w⟩⟩
instance : Neg (V1 α) := ⟨fun a => ⟨-a.x⟩⟩
instance : Neg (V2 α) := ⟨fun a => ⟨-a.x, -a.y⟩⟩
instance : Neg (V3 α) := ⟨fun a => ⟨-a.x, -a.y, -a.z⟩⟩
instance : Neg (V4 α) := ⟨fun a => ⟨-a.x, -a.y, -a.z, -a.w⟩⟩
/-- `vector * scalar` -/
instance : HMul (V1 α) α (V1 α) := ⟨fun a s => ⟨a.x * s⟩⟩
instance : HMul (V2 α) α (V2 α) := ⟨fun a s => ⟨a.x * s, a.y * s⟩⟩
instance : HMul (V3 α) α (V3 α) := ⟨fun a s => ⟨a.x * s, a.y * s, a.z * s⟩⟩
instance : HMul (V4 α) α (V4 α) := ⟨fun a s => ⟨a.x * s, a.y * s, a.z * s, a.w * s⟩⟩
/-- `vector / scalar` -/
instance : HDiv (V1 α) α (V1 α) := ⟨fun a s => ⟨a.x / s⟩⟩
instance : HDiv (V2 α) α (V2 α) := ⟨fun a s => ⟨a.x / s, a.y / s⟩⟩
instance : HDiv (V3 α) α (V3 α) := ⟨fun a s => ⟨a.x / s, a.y / s, a.z / s⟩⟩
instance : HDiv (V4 α) α (V4 α) := ⟨fun a s => ⟨a.x / s, a.y / s, a.z / s, a.w / s⟩⟩
/-- `scalar * vector` (`impl_scalar_ops!`) -/
instance : HMul α (V1 α) (V1 α) := ⟨fun s a => ⟨s * a.x⟩⟩
instance : HMul α (V2 α) (V2 α) := ⟨fun s a => ⟨s * a.x, s * a.y⟩⟩
instance : HMul α (V3 α) (V3 α) := ⟨fun s a => ⟨s * a.x, s * a.y, s * a.z⟩⟩
instance : HMul α (V4 α) (V4 α) := ⟨fun s a => ⟨s * a.x, s * a.y, s * a.z, s * a.w⟩⟩
/-- `scalar / vector` -/
instance : HDiv α (V1 α) (V1 α) := ⟨fun s a => ⟨s / a.x⟩⟩
instance : HDiv α (V2 α) (V2 α) := ⟨fun s a => ⟨s / a.x, s / a.y⟩⟩
instance : HDiv α (V3 α) (V3 α) := ⟨fun s a => ⟨s / a.x, s / a.y, s / a.z⟩⟩
instance : HDiv α (V4 α) (V4 α) := ⟨fun s a => ⟨s / a.x, s / a.y, s / a.z, s / a.w⟩⟩

end ops

@[simp] theorem V1.add_def [Add α] (a b : V1 α) : a + b = ⟨a.x + b.x⟩ := rfl
@[simp] theorem V2.add_def [Add α] (a b : V2 α) : a + b = ⟨a.x + b.x, a.y + b.y⟩ := rfl
@[simp] theorem V3.add_def [Add α] (a b : V3 α) : a + b = ⟨a.x + b.x, a.y + b.y, a.z + b.z⟩ := rfl
@[simp] theorem V4.add_def [Add α] (a b : V4 α) :
    a + b = ⟨a.x + b.x, a.y + b.y, a.z + b.z, a.w + b.w⟩ := rfl
@[simp] theorem V1.sub_def [Sub α] (a b : V1 α) : a - b = ⟨a.x - b.x⟩ := rfl
@[simp] theorem V2.sub_def [Sub α] (a b : V2 α) : a - b = ⟨a.x - b.x, a.y - b.y⟩ := rfl
@[simp] theorem V3.sub_def [Sub α] (a b : V3 α) : a - b = ⟨a.x - b.x, a.y - b.y, a.z - b.z⟩ := rfl
@[simp] theorem V4.sub_def [Sub α] (a b : V4 α) :
    a - b = ⟨a.x - b.x, a.y - b.y, a.z - b.z, a.w - b.w⟩ := rfl
@[simp] theorem V1.neg_def [Neg α] (a : V1 α) : -a = ⟨-a.x⟩ := rfl
@[simp] theorem V2.neg_def [Neg α] (a : V2 α) : -a = ⟨-a.x, -a.y⟩ := rfl
@[simp] theorem V3.neg_def [Neg α] (a : V3 α) : -a = ⟨-a.x, -a.y, -a.z⟩ := rfl
@[simp] theorem V4.neg_def [Neg α] (a : V4 α) : -a = ⟨-a.x, -a.y, -a.z, -a.w⟩ := rfl
@[simp] theorem V1.mul_def [Mul α] (a : V1 α) (s : α) : a * s = ⟨a.x * s⟩ := rfl
@[simp] theorem V2.mul_def [Mul α] (a : V2 α) (s : α) : a * s = ⟨a.x * s, a.y * s⟩ := rfl
@[simp] theorem V3.mul_def [Mul α] (a : V3 α) (s : α) : a * s = ⟨a.x * s, a.y * s, a.z * s⟩ := rfl
@[simp] theorem V4.mul_def [Mul α] (a : V4 α) (s : α) :
    a * s = ⟨a.x * s, a.y * s, a.z * s, a.w * s⟩ := rfl
@[simp] theorem V1.div_def [Div α] (a : V1 α) (s : α) : a / s = ⟨a.x / s⟩ := rfl
@[simp] theorem V2.div_def [Div α] (a : V2 α) (s : α) : a / s = ⟨a.x / s, a.y / s⟩ := rfl
@[simp] theorem V3.div_def [Div α] (a : V3 α) (s : α) : a / s = ⟨a.x / s, a.y / s, a.z / s⟩ := rfl
@[simp] theorem V4.div_def [Div α] (a : V4 α) (s : α) :
    a / s = ⟨a.x / s, a.y / s, a.z / s, a.w / s⟩ := rfl
@[simp] theorem V1.smul_def [Mul α] (s : α) (a : V1 α) : s * a = ⟨s * a.x⟩ := rfl
@[simp] theorem V2.smul_def [Mul α] (s : α) (a : V2 α) : s * a = ⟨s * a.x, s * a.y⟩ := rfl
@[simp] theorem V3.smul_def [Mul α] (s : α) (a : V3 α) : s * a = ⟨s * a.x, s * a.y, s * a.z⟩ := rfl
@[simp] theorem V4.smul_def [Mul α] (s : α) (a : V4 α) :
    s * a = ⟨s * a.x, s * a.y, s * a.z, s * a.w⟩ := rfl
@[simp] theorem V1.sdiv_def [Div α] (s : α) (a : V1 α) : s / a = ⟨s / a.x⟩ := rfl
@[simp] theorem V2.sdiv_def [Div α] (s : α) (a : V2 α) : s / a = ⟨s / a.x, s / a.y⟩ := rfl
@[simp] theorem V3.sdiv_def [Div α] (s : α) (a : V3 α) : s / a = ⟨s / a.x, s / a.y, s / a.z⟩ := rfl
@[simp] theorem V4.sdiv_def [Div α] (s : α) (a : V4 α) :
    s / a = ⟨s / a.x, s / a.y, s / a.z, s / a.w⟩ := rfl

section ops2
variable [Add α] [Sub α] [Mul α] [Div α] [Neg α]

/-! `ElementWise` -/
def V1.mulEw (a b : V1 α) : V1 α := ⟨a.x * b.x⟩
def V2.mulEw (a b : V2 α) : V2 α := ⟨a.x * b.x, a.y * b.y⟩
def V3.mulEw (a b : V3 α) : V3 α := ⟨a.x * b.x, a.y * b.y, a.z * b.z⟩
def V4.mulEw (a b : V4 α) : V4 α := ⟨a.x * b.x, a.y * b.y, a.z * b.z, a.w * b.w⟩
def V1.divEw (a b : V1 α) : V1 α := ⟨a.x / b.x⟩
def V2.divEw (a b : V2 α) : V2 α := ⟨a.x / b.x, a.y / b.y⟩
def V3.divEw (a b : V3 α) : V3 α := ⟨a.x / b.x, a.y / b.y, a.z / b.z⟩
def V4.divEw (a b : V4 α) : V4 α := ⟨a.x / b.x, a.y / b.y, a.z / b.z, a.w / b.w⟩
def V1.addS (a : V1 α) (s : α) : V1 α := ⟨a.x + s⟩
def V2.addS (a : V2 α) (s : α) : V2 α := ⟨a.x + s, a.y + s⟩
def V3.addS (a : V3 α) (s : α) : V3 α := ⟨a.x + s, a.y + s, a.z + s⟩
def V4.addS (a : V4 α) (s : α) : V4 α := ⟨a.x + s, a.y + s, a.z + s, a.w + s⟩
def V1.subS (a : V1 α) (s : α) : V1 α := ⟨a.x - s⟩
def V2.subS (a : V2 α) (s : α) : V2 α := ⟨a.x - s, a.y - s⟩
def V3.subS (a : V3 α) (s : α) : V3 α := ⟨a.x - s, a.y - s, a.z - s⟩
def V4.subS (a : V4 α) (s : α) : V4 α := ⟨a.x - s, a.y - s, a.z - s, a.w - s⟩

/-! `Array::sum` / `product` (`fold_array!`: `x.add(y.add(z.add(w)))`) -/
def V1.sum (v : V1 α) : α := v.x
def V2.sum (v : V2 α) : α := v.x + v.y
def V3.sum (v : V3 α) : α := v.x + (v.y + v.z)
def V4.sum (v : V4 α) : α := v.x + (v.y + (v.z + v.w))
def V1.product (v : V1 α) : α := v.x
def V2.product (v : V2 α) : α := v.x * v.y
def V3.product (v : V3 α) : α := v.x * (v.y * v.z)
def V4.product (v : V4 α) : α := v.x * (v.y * (v.z * v.w))

/-! `InnerSpace::dot = mul_element_wise(self, other).sum()` -/
def V1.dot (a b : V1 α) : α := (V1.mulEw a b).sum
def V2.dot (a b : V2 α) : α := (V2.mulEw a b).sum
def V3.dot (a b : V3 α) : α := (V3.mulEw a b).sum
def V4.dot (a b : V4 α) : α := (V4.mulEw a b).sum
def V1.magnitude2 (a : V1 α) : α := V1.dot a a
def V2.magnitude2 (a : V2 α) : α := V2.dot a a
def V3.magnitude2 (a : V3 α) : α := V3.dot a a
def V4.magnitude2 (a : V4 α) : α := V4.dot a a
/-- `MetricSpace::distance2(self, other) = (other - self).magnitude2()` -/
def V1.distance2 (a b : V1 α) : α := (b - a).magnitude2
def V2.distance2 (a b : V2 α) : α := (b - a).magnitude2
def V3.distance2 (a b : V3 α) : α := (b - a).magnitude2
def V4.distance2 (a b : V4 α) : α := (b - a).magnitude2

def V2.perpDot (a b : V2 α) : α := (a.x * b.y) - (a.y * b.x)
def V3.cross (a b : V3 α) : V3 α :=
  ⟨(a.y * b.z) - (a.z * b.y), (a.z * b.x) - (a.x * b.z), (a.x * b.y) - (a.y * b.x)⟩

/-- `VectorSpace::lerp`: `self + ((other - self) * amount)` -/
def V1.lerp (a b : V1 α) (t : α) : V1 α := a + ((b - a) * t)
def V2.lerp (a b : V2 α) (t : α) : V2 α := a + ((b - a) * t)
def V3.lerp (a b : V3 α) (t : α) : V3 α := a + ((b - a) * t)
def V4.lerp (a b : V4 α) (t : α) : V4 α := a + ((b - a) * t)

/-- `InnerSpace::project_on`: `other * (self.dot(other) / other.magnitude2())` -/
def V1.projectOn (a b : V1 α) : V1 α := b * (V1.dot a b / b.magnitude2)
def V2.projectOn (a b : V2 α) : V2 α := b * (V2.dot a b / b.magnitude2)
def V3.projectOn (a b : V3 α) : V3 α := b * (V3.dot a b / b.magnitude2)
def V4.projectOn (a b : V4 α) : V4 α := b * (V4.dot a b / b.magnitude2)
end ops2

section rem
variable [FRem α]
def V1.rem (a : V1 α) (s : α) : V1 α := ⟨FRem.frem a.x s⟩
def V2.rem (a : V2 α) (s : α) : V2 α := ⟨FRem.frem a.x s, FRem.frem a.y s⟩
def V3.rem (a : V3 α) (s : α) : V3 α := ⟨FRem.frem a.x s, FRem.frem a.y s, FRem.frem a.z s⟩
def V4.rem (a : V4 α) (s : α) : V4 α :=
  ⟨FRem.frem a.x s, FRem.frem a.y s, FRem.frem a.z s, FRem.frem a.w s⟩
def V1.srem (s : α) (a : V1 α) : V1 α := ⟨FRem.frem s a.x⟩
def V2.srem (s : α) (a : V2 α) : V2 α := ⟨FRem.frem s a.x, FRem.frem s a.y⟩
def V3.srem (s : α) (a : V3 α) : V3 α := ⟨FRem.frem s a.x, FRem.frem s a.y, FRem.frem s a.z⟩
def V4.srem (s : α) (a : V4 α) : V4 α :=
  ⟨FRem.frem s a.x, FRem.frem s a.y, FRem.frem s a.z, FRem.frem s a.w⟩
def V1.remEw (a b : V1 α) : V1 α := ⟨FRem.frem a.x b.x⟩
def V2.remEw (a b : V2 α) : V2 α := ⟨FRem.frem a.x b.x, FRem.frem a.y b.y⟩
def V3.remEw (a b : V3 α) : V3 α := ⟨FRem.frem a.x b.x, FRem.frem a.y b.y, FRem.frem a.z b.z⟩
def V4.remEw (a b : V4 α) : V4 α :=
  ⟨FRem.frem a.x b.x, FRem.frem a.y b.y, FRem.frem a.z b.z, FRem.frem a.w b.w⟩
end rem

section consts
variable [OfNat α 0] [OfNat α 1]
def V1.zero : V1 α := V1.fromValue 0
def V2.zero : V2 α := V2.fromValue 0
def V3.zero : V3 α := V3.fromValue 0
def V4.zero : V4 α := V4.fromValue 0
def V1.unitX : V1 α := ⟨1⟩
def V2.unitX : V2 α := ⟨1, 0⟩
def V2.unitY : V2 α := ⟨0, 1⟩
def V3.unitX : V3 α := ⟨1, 0, 0⟩
def V3.unitY : V3 α := ⟨0, 1, 0⟩
def V3.unitZ : V3 α := ⟨0, 0, 1⟩
def V4.unitX : V4 α := ⟨1, 0, 0, 0⟩
def V4.unitY : V4 α := ⟨0, 1, 0, 0⟩
def V4.unitZ : V4 α := ⟨0, 0, 1, 0⟩
def V4.unitW : V4 α := ⟨0, 0, 0, 1⟩
/-- `iter::Sum`: `iter.fold(zero(), Add::add)` -/
def V1.sumList [Add α] (l : List (V1 α)) : V1 α := l.foldl (· + ·) V1.zero
def V2.sumList [Add α] (l : List (V2 α)) : V2 α := l.foldl (· + ·) V2.zero
def V3.sumList [Add α] (l : List (V3 α)) : V3 α := l.foldl (· + ·) V3.zero
def V4.sumList [Add α] (l : List (V4 α)) : V4 α := l.foldl (· + ·) V4.zero
end consts

/-! ## metric functions needing `sqrt`, `acos`, `atan2` -/
section float
variable [Add α] [Sub α] [Mul α] [Div α] [Neg α] [OfNat α 1] [Transc α] [LT α] [DecidableLT α]

def V1.magnitude (a : V1 α) : α := Transc.sqrt a.magnitude2
def V2.magnitude (a : V2 α) : α := Transc.sqrt a.magnitude2
def V3.magnitude (a : V3 α) : α := Transc.sqrt a.magnitude2
def V4.magnitude (a : V4 α) : α := Transc.sqrt a.magnitude2
def V1.distance (a b : V1 α) : α := Transc.sqrt (V1.distance2 a b)
def V2.distance (a b : V2 α) : α := Transc.sqrt (V2.distance2 a b)
def V3.distance (a b : V3 α) : α := Transc.sqrt (V3.distance2 a b)
def V4.distance (a b : V4 α) : α := Transc.sqrt (V4.distance2 a b)
/-- `normalize_to`: `self * (magnitude / self.magnitude())` -/
def V1.normalizeTo (a : V1 α) (m : α) : V1 α := a * (m / a.magnitude)
def V2.normalizeTo (a : V2 α) (m : α) : V2 α := a * (m / a.magnitude)
def V3.normalizeTo (a : V3 α) (m : α) : V3 α := a * (m / a.magnitude)
def V4.normalizeTo (a : V4 α) (m : α) : V4 α := a * (m / a.magnitude)
def V1.normalize (a : V1 α) : V1 α := a.normalizeTo 1
def V2.normalize (a : V2 α) : V2 α := a.normalizeTo 1
def V3.normalize (a : V3 α) : V3 α := a.normalizeTo 1
def V4.normalize (a : V4 α) : V4 α := a.normalizeTo 1
/-- default `InnerSpace::angle` (radians), with the clamp of the repaired code -/
def V1.angle (a b : V1 α) : α := Transc.acos (clampUnit (V1.dot a b / (a.magnitude * b.magnitude)))
def V4.angle (a b : V4 α) : α := Transc.acos (clampUnit (V4.dot a b / (a.magnitude * b.magnitude)))
/-- `Vector2::angle`: `atan2(perp_dot, dot)` -/
def V2.angle (a b : V2 α) : α := Transc.atan2 (V2.perpDot a b) (V2.dot a b)
/-- `Vector3::angle`: `atan2(|cross|, dot)` -/
def V3.angle (a b : V3 α) : α := Transc.atan2 (V3.cross a b).magnitude (V3.dot a b)
end float

end Cg
