import Cgm.Model.Mat
/-!
# Quaternions (src/quaternion.rs), conversions to and from matrices
(src/quaternion.rs:412-467, src/matrix.rs:1623-1664)
-/
namespace Cg

/-- `Quaternion { v, s }`: vector part first, scalar part last (field order of the code). -/
@[ext] structure Quat (α : Type) where
  v : V3 α
  s : α
  deriving DecidableEq, Repr

variable {α : Type}

/-- `Quaternion::from_sv(s, v)` -/
def Quat.fromSv (s : α) (v : V3 α) : Quat α := ⟨v, s⟩
/-- `Quaternion::new(w, xi, yj, zk)` — scalar first -/
def Quat.new (w xi yj zk : α) : Quat α := Quat.fromSv w ⟨xi, yj, zk⟩
/-- flattening used by the line protocol: `s x y z` -/
def Quat.toList (q : Quat α) : List α := [q.s, q.v.x, q.v.y, q.v.z]

section ops
variable [Add α] [Sub α] [Mul α] [Div α] [Neg α]

def Quat.conjugate (q : Quat α) : Quat α := Quat.fromSv q.s (-q.v)
instance : Neg (Quat α) := ⟨fun q => Quat.fromSv (-q.s) (-q.v)⟩
instance : Add (Quat α) := ⟨fun a b => Quat.fromSv (a.s + b.s) (a.v + b.v)⟩
instance : Sub (Quat α) := ⟨fun a b => Quat.fromSv (a.s - b.s) (a.v - b.v)⟩
instance : HMul (Quat α) α (Quat α) := ⟨fun a k => Quat.fromSv (a.s * k) (a.v * k)⟩
instance : HDiv (Quat α) α (Quat α) := ⟨fun a k => Quat.fromSv (a.s / k) (a.v / k)⟩
/-- `scalar * quaternion`, `scalar / quaternion` (`impl_scalar_mul!`, `impl_scalar_div!`) -/
instance : HMul α (Quat α) (Quat α) := ⟨fun k a => Quat.fromSv (k * a.s) (k * a.v)⟩
instance : HDiv α (Quat α) (Quat α) := ⟨fun k a => Quat.fromSv (k / a.s) (k / a.v)⟩

/-- Hamilton product, exactly as written -/
def Quat.mul (l r : Quat α) : Quat α :=
  Quat.new
    (l.s * r.s - l.v.x * r.v.x - l.v.y * r.v.y - l.v.z * r.v.z)
    (l.s * r.v.x + l.v.x * r.s + l.v.y * r.v.z - l.v.z * r.v.y)
    (l.s * r.v.y + l.v.y * r.s + l.v.z * r.v.x - l.v.x * r.v.z)
    (l.s * r.v.z + l.v.z * r.s + l.v.x * r.v.y - l.v.y * r.v.x)
instance : Mul (Quat α) := ⟨Quat.mul⟩

/-- `InnerSpace::dot`: `self.s * other.s + self.v.dot(other.v)` -/
def Quat.dot (a b : Quat α) : α := a.s * b.s + V3.dot a.v b.v
def Quat.magnitude2 (a : Quat α) : α := Quat.dot a a
def Quat.distance2 (a b : Quat α) : α := (b - a).magnitude2
/-- `VectorSpace::lerp` -/
def Quat.lerp (a b : Quat α) (t : α) : Quat α := a + ((b - a) * t)

/-- `Rotation::invert`: `self.conjugate() / self.magnitude2()` -/
def Quat.invert (q : Quat α) : Quat α := q.conjugate / q.magnitude2
end ops

@[simp] theorem Quat.neg_def [Neg α] (q : Quat α) : -q = Quat.fromSv (-q.s) (-q.v) := rfl
@[simp] theorem Quat.add_def [Add α] (a b : Quat α) :
    a + b = Quat.fromSv (a.s + b.s) (a.v + b.v) := rfl
@[simp] theorem Quat.sub_def [Sub α] (a b : Quat α) :
    a - b = Quat.fromSv (a.s - b.s) (a.v - b.v) := rfl
@[simp] theorem Quat.muls_def [Mul α] (a : Quat α) (k : α) :
    a * k = Quat.fromSv (a.s * k) (a.v * k) := rfl
@[simp] theorem Quat.divs_def [Div α] (a : Quat α) (k : α) :
    a / k = Quat.fromSv (a.s / k) (a.v / k) := rfl
@[simp] theorem Quat.smul_def [Mul α] (k : α) (a : Quat α) :
    k * a = Quat.fromSv (k * a.s) (k * a.v) := rfl
@[simp] theorem Quat.sdiv_def [Div α] (k : α) (a : Quat α) :
    k / a = Quat.fromSv (k / a.s) (k / a.v) := rfl
@[simp] theorem Quat.mul_def [Add α] [Sub α] [Mul α] (a b : Quat α) : a * b = Quat.mul a b := rfl

section rem
variable [FRem α]
def Quat.rem (a : Quat α) (k : α) : Quat α := Quat.fromSv (FRem.frem a.s k) (a.v.rem k)
end rem

section consts
variable [OfNat α 0] [OfNat α 1]
def Quat.zero : Quat α := Quat.fromSv 0 V3.zero
def Quat.one : Quat α := Quat.fromSv 1 V3.zero
def Quat.sumList [Add α] (l : List (Quat α)) : Quat α := l.foldl (· + ·) Quat.zero
def Quat.productList [Add α] [Sub α] [Mul α] (l : List (Quat α)) : Quat α :=
  l.foldl (· * ·) Quat.one
end consts

section rotate
variable [Add α] [Sub α] [Mul α] [NatCast α]
/-- `Quaternion * Vector3`: `tmp = v×rhs + rhs*s; (v×tmp)*2 + rhs` -/
def Quat.mulVec (q : Quat α) (rhs : V3 α) : V3 α :=
  let tmp := V3.cross q.v rhs + (rhs * q.s)
  (V3.cross q.v tmp * (two : α)) + rhs
instance : HMul (Quat α) (V3 α) (V3 α) := ⟨Quat.mulVec⟩
@[simp] theorem Quat.mulVec_def (q : Quat α) (v : V3 α) : q * v = Quat.mulVec q v := rfl
/-- `Rotation::rotate_vector`, `rotate_point` -/
def Quat.rotateVector (q : Quat α) (v : V3 α) : V3 α := q * v
def Quat.rotatePoint (q : Quat α) (p : P3 α) : P3 α := P3.fromVec (q.rotateVector p.toVec)
end rotate

section toMat
variable [Add α] [Sub α] [Mul α] [OfNat α 0] [OfNat α 1]
/-- `From<Quaternion> for Matrix3` -/
def Quat.toM3 (q : Quat α) : M3 α :=
  let x2 := q.v.x + q.v.x
  let y2 := q.v.y + q.v.y
  let z2 := q.v.z + q.v.z
  let xx2 := x2 * q.v.x
  let xy2 := x2 * q.v.y
  let xz2 := x2 * q.v.z
  let yy2 := y2 * q.v.y
  let yz2 := y2 * q.v.z
  let zz2 := z2 * q.v.z
  let sy2 := y2 * q.s
  let sz2 := z2 * q.s
  let sx2 := x2 * q.s
  M3.new (1 - yy2 - zz2) (xy2 + sz2) (xz2 - sy2)
         (xy2 - sz2) (1 - xx2 - zz2) (yz2 + sx2)
         (xz2 + sy2) (yz2 - sx2) (1 - xx2 - yy2)
/-- `From<Quaternion> for Matrix4` -/
def Quat.toM4 (q : Quat α) : M4 α :=
  let x2 := q.v.x + q.v.x
  let y2 := q.v.y + q.v.y
  let z2 := q.v.z + q.v.z
  let xx2 := x2 * q.v.x
  let xy2 := x2 * q.v.y
  let xz2 := x2 * q.v.z
  let yy2 := y2 * q.v.y
  let yz2 := y2 * q.v.z
  let zz2 := z2 * q.v.z
  let sy2 := y2 * q.s
  let sz2 := z2 * q.s
  let sx2 := x2 * q.s
  M4.new (1 - yy2 - zz2) (xy2 + sz2) (xz2 - sy2) 0
         (xy2 - sz2) (1 - xx2 - zz2) (yz2 + sx2) 0
         (xz2 + sy2) (yz2 - sx2) (1 - xx2 - yy2) 0
         0 0 0 1
end toMat

section float
variable [Add α] [Sub α] [Mul α] [Div α] [Neg α] [OfNat α 0] [OfNat α 1] [NatCast α]
  [LT α] [DecidableLT α] [LE α] [DecidableLE α] [Transc α]

def Quat.magnitude (q : Quat α) : α := Transc.sqrt q.magnitude2
def Quat.distance (a b : Quat α) : α := Transc.sqrt (Quat.distance2 a b)
def Quat.normalizeTo (q : Quat α) (m : α) : Quat α := q * (m / q.magnitude)
def Quat.normalize (q : Quat α) : Quat α := q.normalizeTo 1
/-- default `InnerSpace::angle` -/
def Quat.angle (a b : Quat α) : α := Transc.acos (clampUnit (Quat.dot a b / (a.magnitude * b.magnitude)))
def Quat.projectOn (a b : Quat α) : Quat α := b * (Quat.dot a b / b.magnitude2)

/-- which of the four cases `From<Matrix3> for Quaternion` takes -/
inductive QBranch where
  | trace | xx | yy | zz
  deriving DecidableEq, Repr

def M3.toQuatBranch (m : M3 α) : QBranch :=
  if (0 : α) ≤ m.trace then .trace
  else if m.y.y < m.x.x ∧ m.z.z < m.x.x then .xx
  else if m.z.z < m.y.y then .yy
  else .zz

/-- `From<Matrix3> for Quaternion` -/
def M3.toQuat (mat : M3 α) : Quat α :=
  let trace := mat.trace
  if (0 : α) ≤ trace then
    let s := Transc.sqrt ((1 : α) + trace)
    let w := half * s
    let s := half / s
    let x := (mat.y.z - mat.z.y) * s
    let y := (mat.z.x - mat.x.z) * s
    let z := (mat.x.y - mat.y.x) * s
    Quat.new w x y z
  else if mat.y.y < mat.x.x ∧ mat.z.z < mat.x.x then
    let s := Transc.sqrt ((mat.x.x - mat.y.y - mat.z.z) + 1)
    let x := half * s
    let s := half / s
    let y := (mat.y.x + mat.x.y) * s
    let z := (mat.x.z + mat.z.x) * s
    let w := (mat.y.z - mat.z.y) * s
    Quat.new w x y z
  else if mat.z.z < mat.y.y then
    let s := Transc.sqrt ((mat.y.y - mat.x.x - mat.z.z) + 1)
    let y := half * s
    let s := half / s
    let z := (mat.z.y + mat.y.z) * s
    let x := (mat.y.x + mat.x.y) * s
    let w := (mat.z.x - mat.x.z) * s
    Quat.new w x y z
  else
    let s := Transc.sqrt ((mat.z.z - mat.x.x - mat.y.y) + 1)
    let z := half * s
    let s := half / s
    let x := (mat.x.z + mat.z.x) * s
    let y := (mat.z.y + mat.y.z) * s
    let w := (mat.x.y - mat.y.x) * s
    Quat.new w x y z
end float

end Cg
