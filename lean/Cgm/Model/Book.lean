import Cgm.Model.Transform
/-!
# Bookkeeping parts of the model: cast (C19), approximate equality and predicates (C18),
operator forms and folds (C17), layout / swizzles (C16), serde structure (C20)

These functions are generic in the element type and take the scalar-level behaviour
(`NumCast::from`, the `approx` relations, serde's handling of a leaf) as a parameter.
-/
namespace Cg
variable {α β γ : Type}

/-! ## C19: `cast` — sequential per-field scalar cast with early `None` -/
section cast
variable (f : α → Option β)
def V1.cast (v : V1 α) : Option (V1 β) :=
  match f v.x with | none => none | some x => some ⟨x⟩
def V2.cast (v : V2 α) : Option (V2 β) :=
  match f v.x with
  | none => none
  | some x => match f v.y with | none => none | some y => some ⟨x, y⟩
def V3.cast (v : V3 α) : Option (V3 β) :=
  match f v.x with
  | none => none
  | some x => match f v.y with
    | none => none
    | some y => match f v.z with | none => none | some z => some ⟨x, y, z⟩
def V4.cast (v : V4 α) : Option (V4 β) :=
  match f v.x with
  | none => none
  | some x => match f v.y with
    | none => none
    | some y => match f v.z with
      | none => none
      | some z => match f v.w with | none => none | some w => some ⟨x, y, z, w⟩
def P1.cast (p : P1 α) : Option (P1 β) := (V1.cast f ⟨p.x⟩).map fun v => ⟨v.x⟩
def P2.cast (p : P2 α) : Option (P2 β) := (V2.cast f ⟨p.x, p.y⟩).map fun v => ⟨v.x, v.y⟩
def P3.cast (p : P3 α) : Option (P3 β) := (V3.cast f ⟨p.x, p.y, p.z⟩).map fun v => ⟨v.x, v.y, v.z⟩
/-- matrices: column by column (`self.x.cast()` ...) -/
def M2.cast (m : M2 α) : Option (M2 β) :=
  match V2.cast f m.x with
  | none => none
  | some x => match V2.cast f m.y with | none => none | some y => some ⟨x, y⟩
def M3.cast (m : M3 α) : Option (M3 β) :=
  match V3.cast f m.x with
  | none => none
  | some x => match V3.cast f m.y with
    | none => none
    | some y => match V3.cast f m.z with | none => none | some z => some ⟨x, y, z⟩
def M4.cast (m : M4 α) : Option (M4 β) :=
  match V4.cast f m.x with
  | none => none
  | some x => match V4.cast f m.y with
    | none => none
    | some y => match V4.cast f m.z with
      | none => none
      | some z => match V4.cast f m.w with | none => none | some w => some ⟨x, y, z, w⟩
/-- quaternion: `s` first, then `v` -/
def Quat.cast (q : Quat α) : Option (Quat β) :=
  match f q.s with
  | none => none
  | some s => match V3.cast f q.v with | none => none | some v => some ⟨v, s⟩
end cast

/-! ## C18: compound approximate equality = the scalar relation on every component -/
section approx
variable (r : α → α → Bool)
def V1.relAll (a b : V1 α) : Bool := r a.x b.x
def V2.relAll (a b : V2 α) : Bool := r a.x b.x && r a.y b.y
def V3.relAll (a b : V3 α) : Bool := r a.x b.x && r a.y b.y && r a.z b.z
def V4.relAll (a b : V4 α) : Bool := r a.x b.x && r a.y b.y && r a.z b.z && r a.w b.w
def P1.relAll (a b : P1 α) : Bool := r a.x b.x
def P2.relAll (a b : P2 α) : Bool := r a.x b.x && r a.y b.y
def P3.relAll (a b : P3 α) : Bool := r a.x b.x && r a.y b.y && r a.z b.z
/-- matrices compare column vectors `self[0]`, `self[1]`, ... -/
def M2.relAll (a b : M2 α) : Bool := V2.relAll r a.x b.x && V2.relAll r a.y b.y
def M3.relAll (a b : M3 α) : Bool := V3.relAll r a.x b.x && V3.relAll r a.y b.y && V3.relAll r a.z b.z
def M4.relAll (a b : M4 α) : Bool :=
  V4.relAll r a.x b.x && V4.relAll r a.y b.y && V4.relAll r a.z b.z && V4.relAll r a.w b.w
/-- quaternion: scalar part, then vector part -/
def Quat.relAll (a b : Quat α) : Bool := r a.s b.s && V3.relAll r a.v b.v
/-- `Euler { x, y, z }` -/
def eulerRelAll (a b : α × α × α) : Bool := r a.1 b.1 && r a.2.1 b.2.1 && r a.2.2 b.2.2
def Basis2.relAll (a b : Basis2 α) : Bool := M2.relAll r a.mat b.mat
def Basis3.relAll (a b : Basis3 α) : Bool := M3.relAll r a.mat b.mat
/-- `Decomposed`: scale, rot, disp -/
def Decomposed.relAll {R V : Type} (rr : R → R → Bool) (rv : V → V → Bool)
    (a b : Decomposed R V α) : Bool := r a.scale b.scale && rr a.rot b.rot && rv a.disp b.disp

/-- `Array::is_finite` / `MatrixN::is_finite` / `Quaternion::is_finite` with `fin` the scalar test -/
def V2.allP (p : α → Bool) (v : V2 α) : Bool := p v.x && p v.y
def V3.allP (p : α → Bool) (v : V3 α) : Bool := p v.x && p v.y && p v.z
def V4.allP (p : α → Bool) (v : V4 α) : Bool := p v.x && p v.y && p v.z && p v.w
def M2.isFinite (p : α → Bool) (m : M2 α) : Bool := V2.allP p m.x && V2.allP p m.y
def M3.isFinite (p : α → Bool) (m : M3 α) : Bool := V3.allP p m.x && V3.allP p m.y && V3.allP p m.z
/-- `Matrix4::is_finite` tests `w` first -/
def M4.isFinite (p : α → Bool) (m : M4 α) : Bool :=
  V4.allP p m.w && V4.allP p m.x && V4.allP p m.y && V4.allP p m.z
def Quat.isFinite (p : α → Bool) (q : Quat α) : Bool := p q.s && V3.allP p q.v

/-- `is_diagonal`: every off-diagonal element `ulps_eq` zero (`z : α → Bool` is that test) -/
def M2.isDiagonal (z : α → Bool) (m : M2 α) : Bool := z m.x.y && z m.y.x
def M3.isDiagonal (z : α → Bool) (m : M3 α) : Bool :=
  z m.x.y && z m.x.z && z m.y.x && z m.y.z && z m.z.x && z m.z.y
def M4.isDiagonal (z : α → Bool) (m : M4 α) : Bool :=
  z m.x.y && z m.x.z && z m.x.w && z m.y.x && z m.y.z && z m.y.w &&
  z m.z.x && z m.z.y && z m.z.w && z m.w.x && z m.w.y && z m.w.z
/-- `is_symmetric`: every element `ulps_eq` its mirror image (both orders are tested) -/
def M2.isSymmetric (m : M2 α) : Bool := r m.x.y m.y.x && r m.y.x m.x.y
def M3.isSymmetric (m : M3 α) : Bool :=
  r m.x.y m.y.x && r m.x.z m.z.x && r m.y.x m.x.y && r m.y.z m.z.y && r m.z.x m.x.z && r m.z.y m.y.z
def M4.isSymmetric (m : M4 α) : Bool :=
  r m.x.y m.y.x && r m.x.z m.z.x && r m.x.w m.w.x && r m.y.x m.x.y && r m.y.z m.z.y && r m.y.w m.w.y &&
  r m.z.x m.x.z && r m.z.y m.y.z && r m.z.w m.w.z && r m.w.x m.x.w && r m.w.y m.y.w && r m.w.z m.z.w
end approx

/-! ## C17: operator forms and folds -/
/-- how a call site spells an operand -/
inductive Form where
  | val | ref
  deriving DecidableEq, Repr
/-- straight-line programs over registers holding values of one carrier type `τ`;
every binary node carries the two operand forms, `assign` marks the compound-assignment form -/
inductive Instr (τ : Type) where
  | bin (op : τ → τ → τ) (dst a b : Nat) (fa fb : Form) (assign : Bool)
  | un (op : τ → τ) (dst a : Nat) (fa : Form)
/-- the semantics ignores the forms: a reference is read through, an assignment stores the value -/
def Instr.step {τ : Type} (regs : Nat → τ) : Instr τ → (Nat → τ)
  | .bin op dst a b _ _ _ => fun k => if k = dst then op (regs a) (regs b) else regs k
  | .un op dst a _ => fun k => if k = dst then op (regs a) else regs k
def Instr.erase {τ : Type} : Instr τ → Instr τ
  | .bin op dst a b _ _ _ => .bin op dst a b .val .val false
  | .un op dst a _ => .un op dst a .val
def runProg {τ : Type} (p : List (Instr τ)) (regs : Nat → τ) : Nat → τ :=
  p.foldl Instr.step regs

/-! ## C16: the swizzle generator of build.rs -/
/-- `gen_swizzle_nth(variables, i, upto)`: `(name, fields read by the body)` -/
def genSwizzleNth (vars : List Char) (i upto : Nat) : Option (List Char × List Char) :=
  let n := vars.length + 1
  let rec go (fuel : Nat) (i : Nat) (name impl : List Char) : Option (List Char × List Char) :=
    match fuel with
    | 0 => some (name, impl)
    | fuel + 1 =>
      if i = 0 then some (name, impl)
      else if i % n = 0 then none
      else
        match vars[i % n - 1]? with
        | none => none
        | some c => go fuel (i / n) (name ++ [c]) (impl ++ [c])
  go upto i [] []
/-- `gen_swizzle_functions`: all generated `(name, body fields)` for `i` in `1 .. (len+1)^upto` -/
def genSwizzleAll (vars : List Char) (upto : Nat) : List (List Char × List Char) :=
  (List.range ((vars.length + 1) ^ upto)).filterMap fun i =>
    if i = 0 then none else genSwizzleNth vars i upto
/-- all words of length `1..upto` over `vars` -/
def wordsUpTo (vars : List Char) : Nat → List (List Char)
  | 0 => []
  | k + 1 =>
    let shorter := wordsUpTo vars k
    let exact : List (List Char) := (List.range (k + 1)).foldl
      (fun acc _ => acc.flatMap fun w => vars.map fun c => w ++ [c]) [[]]
    shorter ++ exact

/-! ## C20: serde data model of the values (structure only) -/
inductive STree where
  | num (bits : Nat) : STree
  | struct (name : String) (fields : List (String × STree)) : STree
  | newtype (name : String) (inner : STree) : STree
  deriving Repr
/-- the hand-written `Decomposed` visitor: a fold over the key sequence with three slots
(the last duplicate wins), an unknown key is an error at that key, a missing slot an error at
the end -/
structure DSlots (τ : Type) where
  scale : Option τ
  rot : Option τ
  disp : Option τ
def deDecomposedGo {τ : Type} : List (String × τ) → DSlots τ → Except String (DSlots τ)
  | [], s => .ok s
  | (k, v) :: rest, s =>
    if k = "scale" then deDecomposedGo rest { s with scale := some v }
    else if k = "rot" then deDecomposedGo rest { s with rot := some v }
    else if k = "disp" then deDecomposedGo rest { s with disp := some v }
    else .error "expected scale, rot or disp"
def deDecomposed {τ : Type} (kvs : List (String × τ)) : Except String (τ × τ × τ) :=
  match deDecomposedGo kvs ⟨none, none, none⟩ with
  | .error e => .error e
  | .ok s =>
    match s.scale with
    | none => .error "missing field scale"
    | some sc => match s.rot with
      | none => .error "missing field rot"
      | some r => match s.disp with
        | none => .error "missing field disp"
        | some d => .ok (sc, r, d)
/-- the serialiser's field order -/
def serDecomposed {τ : Type} (sc r d : τ) : List (String × τ) := [("scale", sc), ("rot", r), ("disp", d)]

end Cg
