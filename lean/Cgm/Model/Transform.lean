import Cgm.Model.Rot
/-!
# `Decomposed` transforms (src/transform.rs) and projections (src/projection.rs)

The rotation type `R` is a parameter: `RotOps R V M` is the part of the
`Rotation`/`Rotation2`/`Rotation3` interface that `Decomposed` uses
(`rotate_vector`, `*`, `invert`, `one`, `look_at`, `Into<MatrixN>`).
-/
namespace Cg
variable {α : Type}

structure RotOps (R V M : Type) where
  rotate : R → V → V
  mul : R → R → R
  /-- `none` = the `unwrap()` panic of `Basis{2,3}::invert` on a singular matrix -/
  invert? : R → Option R
  one : R
  lookAt : V → V → R
  toMat : R → M

/-- `Decomposed { scale, rot, disp }` -/
structure Decomposed (R V α : Type) where
  scale : α
  rot : R
  disp : V
  deriving DecidableEq, Repr

namespace Decomposed
variable {R V M : Type} [Add V] [Sub V] [HMul V α V] [HDiv V α V] [Mul α] [Div α] [Neg α]
  [OfNat α 0] [OfNat α 1]

def one (ρ : RotOps R V M) (zeroV : V) : Decomposed R V α := ⟨1, ρ.one, zeroV⟩
/-- `transform_vector`: `self.rot.rotate_vector(vec * self.scale)` -/
def transformVector (ρ : RotOps R V M) (t : Decomposed R V α) (v : V) : V :=
  ρ.rotate t.rot (v * t.scale)
/-- `transform_point` on the position vector:
`self.rot.rotate_point(point * self.scale) + self.disp` -/
def transformPointV (ρ : RotOps R V M) (t : Decomposed R V α) (p : V) : V :=
  ρ.rotate t.rot (p * t.scale) + t.disp
/-- `concat` (also `Mul`, `concat_self`) -/
def concat (ρ : RotOps R V M) (s t : Decomposed R V α) : Decomposed R V α :=
  ⟨s.scale * t.scale, ρ.mul s.rot t.rot, ρ.rotate s.rot (t.disp * s.scale) + s.disp⟩
/-- `inverse_transform`; `.none` for a (nearly) zero scale, `.panic` if the rotation's
`invert` unwraps `None` -/
def inverseTransform [Approx α] (ρ : RotOps R V M) (t : Decomposed R V α) :
    Res (Decomposed R V α) :=
  if ulpsEqD t.scale 0 then .none
  else
    let s := (1 : α) / t.scale
    match ρ.invert? t.rot with
    | none => .panic
    | some r => .ok ⟨s, r, ρ.rotate r t.disp * (-s)⟩
/-- `inverse_transform_vector` (overridden for `Decomposed`) -/
def inverseTransformVector [Approx α] (ρ : RotOps R V M) (t : Decomposed R V α) (v : V) : Res V :=
  if ulpsEqD t.scale 0 then .none
  else
    match ρ.invert? t.rot with
    | none => .panic
    | some r => .ok (ρ.rotate r (v / t.scale))
/-- `look_at` / `look_at_lh` (`dir = center - eye`) and `look_at_rh` (`dir = eye - center`);
`eyeV` is the eye's position vector, `zeroV` the origin's -/
def lookAtDir (ρ : RotOps R V M) (dir up zeroV eyeV : V) : Decomposed R V α :=
  let rot := ρ.lookAt dir up
  ⟨1, rot, ρ.rotate rot (zeroV - eyeV)⟩
end Decomposed

/-! ### the three rotation instantiations -/
section inst
variable [Add α] [Sub α] [Mul α] [Div α] [Neg α] [OfNat α 0] [OfNat α 1] [NatCast α]
  [LT α] [DecidableLT α] [LE α] [DecidableLE α] [DecidableEq α] [Transc α]

def quatOps : RotOps (Quat α) (V3 α) (M3 α) where
  rotate := Quat.rotateVector
  mul := (· * ·)
  invert? := fun q => some q.invert
  one := Quat.one
  lookAt := Quat.lookAt
  toMat := Quat.toM3
def basis3Ops : RotOps (Basis3 α) (V3 α) (M3 α) where
  rotate := Basis3.rotateVector
  mul := Basis3.mul
  invert? := Basis3.invert?
  one := Basis3.one
  lookAt := Basis3.lookAt
  toMat := Basis3.mat
def basis2Ops : RotOps (Basis2 α) (V2 α) (M2 α) where
  rotate := Basis2.rotateVector
  mul := Basis2.mul
  invert? := Basis2.invert?
  one := Basis2.one
  lookAt := Basis2.lookAt
  toMat := Basis2.mat

/-- `From<Decomposed<Vector3, R>> for Matrix4` -/
def Decomposed.toM4 {R : Type} (ρ : RotOps R (V3 α) (M3 α)) (d : Decomposed R (V3 α) α) : M4 α :=
  let m : M3 α := ρ.toMat d.rot
  let m : M4 α := (m * d.scale).toM4
  { m with w := d.disp.extend 1 }
/-- `From<Decomposed<Vector2, R>> for Matrix3` -/
def Decomposed.toM3 {R : Type} (ρ : RotOps R (V2 α) (M2 α)) (d : Decomposed R (V2 α) α) : M3 α :=
  let m : M2 α := ρ.toMat d.rot
  let m : M3 α := (m * d.scale).toM3
  { m with z := d.disp.extend 1 }
end inst

/-! ## projections -/
section proj
variable [Add α] [Sub α] [Mul α] [Div α] [Neg α] [OfNat α 0] [OfNat α 1] [NatCast α]
  [LT α] [DecidableLT α] [LE α] [DecidableLE α] [Transc α] [Lits α] [Approx α]

/-- `From<Ortho> for Matrix4` -/
def ortho (left right bottom top near far : α) : M4 α :=
  let two' : α := two
  M4.new (two' / (right - left)) 0 0 0
         0 (two' / (top - bottom)) 0 0
         0 0 (-two' / (far - near)) 0
         (-(right + left) / (right - left)) (-(top + bottom) / (top - bottom))
         (-(far + near) / (far - near)) 1

/-- the matrix built by `From<Perspective> for Matrix4` (after its assertions) -/
def frustumMat (left right bottom top near far : α) : M4 α :=
  let two' : α := two
  M4.new ((two' * near) / (right - left)) 0 0 0
         0 ((two' * near) / (top - bottom)) 0 0
         ((right + left) / (right - left)) ((top + bottom) / (top - bottom))
         (-(far + near) / (far - near)) (-1)
         0 0 (-(two' * far * near) / (far - near)) 0
/-- `From<Perspective> for Matrix4`; `none` = a failed `assert!` -/
def frustum (left right bottom top near far : α) : Option (M4 α) :=
  if ¬ (left ≤ right) then none
  else if ¬ (bottom ≤ top) then none
  else if ¬ (near ≤ far) then none
  else some (frustumMat left right bottom top near far)

/-- the matrix built by `From<PerspectiveFov> for Matrix4` (after its assertions) -/
def perspectiveMat (fovy aspect near far : α) : M4 α :=
  let two' : α := two
  let f := Rad.cot (fovy / two')
  M4.new (f / aspect) 0 0 0
         0 f 0 0
         0 0 ((far + near) / (near - far)) (-1)
         0 0 ((two' * far * near) / (near - far)) 0
/-- `From<PerspectiveFov> for Matrix4` (`fovy` in radians); `none` = a failed `assert!` -/
def perspective (fovy aspect near far : α) : Option (M4 α) :=
  if ¬ ((0 : α) < fovy) then none
  else if ¬ (fovy < Angle.turnDiv (Lits.radFull : α) 2) then none
  else if absDiffEqD (sabs aspect) (0 : α) then none
  else if ¬ ((0 : α) < near) then none
  else if ¬ ((0 : α) < far) then none
  else if absDiffEqD far near then none
  else some (perspectiveMat fovy aspect near far)

/-- `PerspectiveFov::to_perspective`: `(left, right, bottom, top, near, far)` -/
def toPerspective (fovy aspect near far : α) : List α :=
  let two' : α := two
  let angle := fovy / two'
  let ymax := near * Rad.tan angle
  let xmax := ymax * aspect
  [-xmax, xmax, -ymax, ymax, near, far]

/-- `inv_f` of `From<PlanarFov>`: `tan(fovy / 2) * 2 / height` -/
def planarInvF (fovy height : α) : α := Rad.tan (fovy / (two : α)) * (two : α) / height
/-- the matrix built by `From<PlanarFov> for Matrix4` (after its assertions) -/
def planarMat (fovy aspect height near far : α) : M4 α :=
  let two' : α := two
  let invF := planarInvF fovy height
  M4.new (two' / (aspect * height)) 0 0 0
         0 (two' / height) 0 0
         0 0 (((far + near) * invF + two') / (near - far)) (-invF)
         0 0 ((two' * far * near * invF + (far + near)) / (near - far)) 1
/-- `From<PlanarFov> for Matrix4`; `none` = a failed `assert!` -/
def planar (fovy aspect height near far : α) : Option (M4 α) :=
  if ¬ (-(Angle.turnDiv (Lits.radFull : α) 2) < fovy) then none
  else if ¬ (fovy < Angle.turnDiv (Lits.radFull : α) 2) then none
  else if ¬ ((0 : α) ≤ height) then none
  else
    let invF := planarInvF fovy height
    let focalPoint := -((1 : α) / invF)
    if absDiffEqD (sabs aspect) (0 : α) then none
    else if absDiffEqD far near then none
    -- IEEE semantics of `inv_f = tan(fovy/2) * 2 / height` and `focal_point = -inv_f.recip()` where a field has no
    -- infinities (`x / 0 = 0`): with `tan(fovy/2) = 0` (fovy = 0, the documented orthographic case) and a positive height,
    -- `inv_f = 0`, the focal point is an infinity and never between the planes; with `tan = 0` and `height = 0`,
    -- `inv_f = 0/0 = NaN` and the assertion fails; with `tan ≠ 0` and `height = 0`, `inv_f` is an infinity, the focal
    -- point `∓0` -- which is what `-(1 / (t * 2 / 0)) = 0` gives here.  "Zero" is written with the order relation only.
    else if ((¬ Rad.tan (fovy / (two : α)) < 0 ∧ ¬ 0 < Rad.tan (fovy / (two : α))) ∧ ¬ 0 < height) then none
    else if ¬ (((¬ Rad.tan (fovy / (two : α)) < 0 ∧ ¬ 0 < Rad.tan (fovy / (two : α))) ∧ 0 < height) ∨
               focalPoint < smin far near ∨ smax far near < focalPoint) then none
    else some (planarMat fovy aspect height near far)
end proj

end Cg
