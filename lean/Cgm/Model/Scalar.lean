/-!
# Scalar interface of the model

The model is polymorphic over the scalar type `α` through the *core* notation
classes only (`Add Sub Mul Div Neg OfNat α 0 OfNat α 1 NatCast LT LE`), so that
the very same definitions are used
* by the proofs at a Mathlib `Field K` / `ℝ`, and
* by the compiled driver at core `Rat`.

What cgmath obtains from outside the scalar's ring structure is a parameter
of the model (DESIGN §2 M): the `num_traits::Float` calls (`Transc`), `%`
(`FRem`), the `approx` crate's comparisons (`Approx`) and the `f64` literals
obtained through `cast(..)` (`Lits`).
-/
namespace Cg

/-- The `num_traits::Float` methods cgmath calls. -/
class Transc (α : Type) where
  sqrt : α → α
  sin : α → α
  cos : α → α
  tan : α → α
  asin : α → α
  acos : α → α
  atan : α → α
  atan2 : α → α → α

/-- `%` on the scalar type (C `fmod` for floats, truncated remainder for ints). -/
class FRem (α : Type) where
  frem : α → α → α

/-- The `approx` crate's scalar relations and default tolerances. -/
class Approx (α : Type) where
  absDiffEq : α → α → α → Bool
  relEq : α → α → α → α → Bool
  ulpsEq : α → α → α → Nat → Bool
  eps : α
  maxRel : α
  maxUlps : Nat

/-- Literals the code obtains through `cast(<f64 literal>)`. -/
class Lits (α : Type) where
  /-- `0.9995` (slerp hand-over) -/
  thr : α
  /-- `0.499` (Euler gimbal threshold) -/
  sig : α
  /-- `f64::consts::PI * 2.0` -/
  radFull : α
  /-- `f64::consts::PI / 180.0` -/
  deg2rad : α
  /-- `180.0 / f64::consts::PI` -/
  rad2deg : α
  /-- `1.0e-6` (matrix default epsilon) -/
  matEps : α

section
variable {α : Type}

/-- `cast(2)`, `S::one() + S::one()` are written through `NatCast`. -/
@[reducible] def two [NatCast α] : α := ((2 : Nat) : α)
/-- `cast(0.5f64)`; `0.5` is exactly `1/2`. -/
@[reducible] def half [NatCast α] [Div α] [OfNat α 1] : α := 1 / two

/-- `Float::abs` as instantiated for the exact scalar: `if x < 0 then -x else x`. -/
def sabs [LT α] [DecidableLT α] [Neg α] [OfNat α 0] (x : α) : α :=
  if x < 0 then -x else x
/-- `Float::max a b = if a < b then b else a`. -/
def smax [LT α] [DecidableLT α] (a b : α) : α := if a < b then b else a
/-- `Float::min a b = if b < a then b else a`. -/
def smin [LT α] [DecidableLT α] (a b : α) : α := if b < a then b else a

/-- the clamp `InnerSpace::angle` applies before `acos` (as repaired, DESIGN §0.3): rounding can leave the
cosine of (anti)parallel arguments just outside `[-1, 1]` -/
def clampUnit [LT α] [DecidableLT α] [Neg α] [OfNat α 1] (c : α) : α :=
  if 1 < c then 1 else if c < -1 then -1 else c

/-- `ulps_eq!(a, b)` with default tolerances. -/
def ulpsEqD [Approx α] (a b : α) : Bool :=
  Approx.ulpsEq a b (Approx.eps : α) (Approx.maxUlps α)
/-- `abs_diff_eq!(a, b)` with default tolerance. -/
def absDiffEqD [Approx α] (a b : α) : Bool :=
  Approx.absDiffEq a b (Approx.eps : α)

end

/-- Results of operations that may return `None` or panic. -/
inductive Res (β : Type) where
  | ok : β → Res β
  | none : Res β
  | panic : Res β
  deriving Repr, DecidableEq

end Cg
