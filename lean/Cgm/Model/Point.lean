import Cgm.Model.Vec
/-!
# Points `Point1 .. Point3` (src/point.rs, `EuclideanSpace` in src/structure.rs)
-/
namespace Cg

@[ext] structure P1 (α : Type) where
  x : α
  deriving DecidableEq, Repr
@[ext] structure P2 (α : Type) where
  x : α
  y : α
  deriving DecidableEq, Repr
@[ext] structure P3 (α : Type) where
  x : α
  y : α
  z : α
  deriving DecidableEq, Repr

variable {α β γ : Type}

def P1.map (f : α → β) (v : P1 α) : P1 β := ⟨f v.x⟩
def P2.map (f : α → β) (v : P2 α) : P2 β := ⟨f v.x, f v.y⟩
def P3.map (f : α → β) (v : P3 α) : P3 β := ⟨f v.x, f v.y, f v.z⟩
def P1.zip (f : α → β → γ) (a : P1 α) (b : P1 β) : P1 γ := ⟨f a.x b.x⟩
def P2.zip (f : α → β → γ) (a : P2 α) (b : P2 β) : P2 γ := ⟨f a.x b.x, f a.y b.y⟩
def P3.zip (f : α → β → γ) (a : P3 α) (b : P3 β) : P3 γ := ⟨f a.x b.x, f a.y b.y, f a.z b.z⟩
def P1.fromValue (s : α) : P1 α := ⟨s⟩
def P2.fromValue (s : α) : P2 α := ⟨s, s⟩
def P3.fromValue (s : α) : P3 α := ⟨s, s, s⟩
def P1.toList (v : P1 α) : List α := [v.x]
def P2.toList (v : P2 α) : List α := [v.x, v.y]
def P3.toList (v : P3 α) : List α := [v.x, v.y, v.z]
def P1.get? (v : P1 α) (i : Nat) : Option α := v.toList[i]?
def P2.get? (v : P2 α) (i : Nat) : Option α := v.toList[i]?
def P3.get? (v : P3 α) (i : Nat) : Option α := v.toList[i]?

/-- `EuclideanSpace::from_vec` / `to_vec` -/
def P1.fromVec (v : V1 α) : P1 α := ⟨v.x⟩
def P2.fromVec (v : V2 α) : P2 α := ⟨v.x, v.y⟩
def P3.fromVec (v : V3 α) : P3 α := ⟨v.x, v.y, v.z⟩
def P1.toVec (p : P1 α) : V1 α := ⟨p.x⟩
def P2.toVec (p : P2 α) : V2 α := ⟨p.x, p.y⟩
def P3.toVec (p : P3 α) : V3 α := ⟨p.x, p.y, p.z⟩

section ops
variable [Add α] [Sub α] [Mul α] [Div α]

/-- `Point + Vector` -/
instance : HAdd (P1 α) (V1 α) (P1 α) := ⟨fun p v => ⟨p.x + v.x⟩⟩
instance : HAdd (P2 α) (V2 α) (P2 α) := ⟨fun p v => ⟨p.x + v.x, p.y + v.y⟩⟩
instance : HAdd (P3 α) (V3 α) (P3 α) := ⟨fun p v => ⟨p.x + v.x, p.y + v.y, p.z + v.z⟩⟩
/-- `Point - Vector` -/
instance : HSub (P1 α) (V1 α) (P1 α) := ⟨fun p v => ⟨p.x - v.x⟩⟩
instance : HSub (P2 α) (V2 α) (P2 α) := ⟨fun p v => ⟨p.x - v.x, p.y - v.y⟩⟩
instance : HSub (P3 α) (V3 α) (P3 α) := ⟨fun p v => ⟨p.x - v.x, p.y - v.y, p.z - v.z⟩⟩
/-- `Point - Point` -/
instance : HSub (P1 α) (P1 α) (V1 α) := ⟨fun p q => ⟨p.x - q.x⟩⟩
instance : HSub (P2 α) (P2 α) (V2 α) := ⟨fun p q => ⟨p.x - q.x, p.y - q.y⟩⟩
instance : HSub (P3 α) (P3 α) (V3 α) := ⟨fun p q => ⟨p.x - q.x, p.y - q.y, p.z - q.z⟩⟩
instance : HMul (P1 α) α (P1 α) := ⟨fun p s => ⟨p.x * s⟩⟩
instance : HMul (P2 α) α (P2 α) := ⟨fun p s => ⟨p.x * s, p.y * s⟩⟩
instance : HMul (P3 α) α (P3 α) := ⟨fun p s => ⟨p.x * s, p.y * s, p.z * s⟩⟩
instance : HDiv (P1 α) α (P1 α) := ⟨fun p s => ⟨p.x / s⟩⟩
instance : HDiv (P2 α) α (P2 α) := ⟨fun p s => ⟨p.x / s, p.y / s⟩⟩
instance : HDiv (P3 α) α (P3 α) := ⟨fun p s => ⟨p.x / s, p.y / s, p.z / s⟩⟩
instance : HMul α (P1 α) (P1 α) := ⟨fun s p => ⟨s * p.x⟩⟩
instance : HMul α (P2 α) (P2 α) := ⟨fun s p => ⟨s * p.x, s * p.y⟩⟩
instance : HMul α (P3 α) (P3 α) := ⟨fun s p => ⟨s * p.x, s * p.y, s * p.z⟩⟩
instance : HDiv α (P1 α) (P1 α) := ⟨fun s p => ⟨s / p.x⟩⟩
instance : HDiv α (P2 α) (P2 α) := ⟨fun s p => ⟨s / p.x, s / p.y⟩⟩
instance : HDiv α (P3 α) (P3 α) := ⟨fun s p => ⟨s / p.x, s / p.y, s / p.z⟩⟩
end ops

@[simp] theorem P1.addv_def [Add α] (p : P1 α) (v : V1 α) : p + v = ⟨p.x + v.x⟩ := rfl
@[simp] theorem P2.addv_def [Add α] (p : P2 α) (v : V2 α) : p + v = ⟨p.x + v.x, p.y + v.y⟩ := rfl
@[simp] theorem P3.addv_def [Add α] (p : P3 α) (v : V3 α) :
    p + v = ⟨p.x + v.x, p.y + v.y, p.z + v.z⟩ := rfl
@[simp] theorem P1.subv_def [Sub α] (p : P1 α) (v : V1 α) : p - v = ⟨p.x - v.x⟩ := rfl
@[simp] theorem P2.subv_def [Sub α] (p : P2 α) (v : V2 α) : p - v = ⟨p.x - v.x, p.y - v.y⟩ := rfl
@[simp] theorem P3.subv_def [Sub α] (p : P3 α) (v : V3 α) :
    p - v = ⟨p.x - v.x, p.y - v.y, p.z - v.z⟩ := rfl
@[simp] theorem P1.subp_def [Sub α] (p q : P1 α) : p - q = (⟨p.x - q.x⟩ : V1 α) := rfl
@[simp] theorem P2.subp_def [Sub α] (p q : P2 α) : p - q = (⟨p.x - q.x, p.y - q.y⟩ : V2 α) := rfl
@[simp] theorem P3.subp_def [Sub α] (p q : P3 α) :
    p - q = (⟨p.x - q.x, p.y - q.y, p.z - q.z⟩ : V3 α) := rfl
@[simp] theorem P1.mul_def [Mul α] (p : P1 α) (s : α) : p * s = ⟨p.x * s⟩ := rfl
@[simp] theorem P2.mul_def [Mul α] (p : P2 α) (s : α) : p * s = ⟨p.x * s, p.y * s⟩ := rfl
@[simp] theorem P3.mul_def [Mul α] (p : P3 α) (s : α) : p * s = ⟨p.x * s, p.y * s, p.z * s⟩ := rfl
@[simp] theorem P1.div_def [Div α] (p : P1 α) (s : α) : p / s = ⟨p.x / s⟩ := rfl
@[simp] theorem P2.div_def [Div α] (p : P2 α) (s : α) : p / s = ⟨p.x / s, p.y / s⟩ := rfl
@[simp] theorem P3.div_def [Div α] (p : P3 α) (s : α) : p / s = ⟨p.x / s, p.y / s, p.z / s⟩ := rfl
@[simp] theorem P1.smul_def [Mul α] (s : α) (p : P1 α) : s * p = ⟨s * p.x⟩ := rfl
@[simp] theorem P2.smul_def [Mul α] (s : α) (p : P2 α) : s * p = ⟨s * p.x, s * p.y⟩ := rfl
@[simp] theorem P3.smul_def [Mul α] (s : α) (p : P3 α) : s * p = ⟨s * p.x, s * p.y, s * p.z⟩ := rfl
@[simp] theorem P1.sdiv_def [Div α] (s : α) (p : P1 α) : s / p = ⟨s / p.x⟩ := rfl
@[simp] theorem P2.sdiv_def [Div α] (s : α) (p : P2 α) : s / p = ⟨s / p.x, s / p.y⟩ := rfl
@[simp] theorem P3.sdiv_def [Div α] (s : α) (p : P3 α) : s / p = ⟨s / p.x, s / p.y, s / p.z⟩ := rfl

section ops2
variable [Add α] [Sub α] [Mul α] [Div α]
/-- `ElementWise for Point` -/
def P1.addEw (a b : P1 α) : P1 α := ⟨a.x + b.x⟩
def P2.addEw (a b : P2 α) : P2 α := ⟨a.x + b.x, a.y + b.y⟩
def P3.addEw (a b : P3 α) : P3 α := ⟨a.x + b.x, a.y + b.y, a.z + b.z⟩
def P1.subEw (a b : P1 α) : P1 α := ⟨a.x - b.x⟩
def P2.subEw (a b : P2 α) : P2 α := ⟨a.x - b.x, a.y - b.y⟩
def P3.subEw (a b : P3 α) : P3 α := ⟨a.x - b.x, a.y - b.y, a.z - b.z⟩
def P1.mulEw (a b : P1 α) : P1 α := ⟨a.x * b.x⟩
def P2.mulEw (a b : P2 α) : P2 α := ⟨a.x * b.x, a.y * b.y⟩
def P3.mulEw (a b : P3 α) : P3 α := ⟨a.x * b.x, a.y * b.y, a.z * b.z⟩
def P1.divEw (a b : P1 α) : P1 α := ⟨a.x / b.x⟩
def P2.divEw (a b : P2 α) : P2 α := ⟨a.x / b.x, a.y / b.y⟩
def P3.divEw (a b : P3 α) : P3 α := ⟨a.x / b.x, a.y / b.y, a.z / b.z⟩
def P1.addS (a : P1 α) (s : α) : P1 α := ⟨a.x + s⟩
def P2.addS (a : P2 α) (s : α) : P2 α := ⟨a.x + s, a.y + s⟩
def P3.addS (a : P3 α) (s : α) : P3 α := ⟨a.x + s, a.y + s, a.z + s⟩
def P1.subS (a : P1 α) (s : α) : P1 α := ⟨a.x - s⟩
def P2.subS (a : P2 α) (s : α) : P2 α := ⟨a.x - s, a.y - s⟩
def P3.subS (a : P3 α) (s : α) : P3 α := ⟨a.x - s, a.y - s, a.z - s⟩

/-- `EuclideanSpace::dot`: `VectorN::new(self.f * v.f ..).sum()` -/
def P1.dot (p : P1 α) (v : V1 α) : α := (⟨p.x * v.x⟩ : V1 α).sum
def P2.dot (p : P2 α) (v : V2 α) : α := (⟨p.x * v.x, p.y * v.y⟩ : V2 α).sum
def P3.dot (p : P3 α) (v : V3 α) : α := (⟨p.x * v.x, p.y * v.y, p.z * v.z⟩ : V3 α).sum
/-- `MetricSpace::distance2(self, other) = (other - self).magnitude2()` -/
def P1.distance2 (a b : P1 α) : α := (b - a : V1 α).magnitude2
def P2.distance2 (a b : P2 α) : α := (b - a : V2 α).magnitude2
def P3.distance2 (a b : P3 α) : α := (b - a : V3 α).magnitude2

/-- `midpoint`: `self + (other - self) / (one + one)` -/
def P1.midpoint [OfNat α 1] (a b : P1 α) : P1 α := a + (b - a : V1 α) / ((1 : α) + 1)
def P2.midpoint [OfNat α 1] (a b : P2 α) : P2 α := a + (b - a : V2 α) / ((1 : α) + 1)
def P3.midpoint [OfNat α 1] (a b : P3 α) : P3 α := a + (b - a : V3 α) / ((1 : α) + 1)

/-- `centroid`: fold from `zero` with `acc + p.to_vec()`, then `/ cast(len)` -/
def P1.centroid [OfNat α 0] [NatCast α] (ps : List (P1 α)) : P1 α :=
  P1.fromVec ((ps.foldl (fun acc p => acc + p.toVec) V1.zero) / ((ps.length : Nat) : α))
def P2.centroid [OfNat α 0] [NatCast α] (ps : List (P2 α)) : P2 α :=
  P2.fromVec ((ps.foldl (fun acc p => acc + p.toVec) V2.zero) / ((ps.length : Nat) : α))
def P3.centroid [OfNat α 0] [NatCast α] (ps : List (P3 α)) : P3 α :=
  P3.fromVec ((ps.foldl (fun acc p => acc + p.toVec) V3.zero) / ((ps.length : Nat) : α))

/-- `Point3::from_homogeneous`: `e = v.truncate() * (one / v.w)` -/
def P3.fromHomogeneous [OfNat α 1] (v : V4 α) : P3 α :=
  let e := v.truncate * ((1 : α) / v.w)
  ⟨e.x, e.y, e.z⟩
def P3.toHomogeneous [OfNat α 1] (p : P3 α) : V4 α := ⟨p.x, p.y, p.z, 1⟩
end ops2

section rem
variable [FRem α]
def P1.rem (a : P1 α) (s : α) : P1 α := ⟨FRem.frem a.x s⟩
def P2.rem (a : P2 α) (s : α) : P2 α := ⟨FRem.frem a.x s, FRem.frem a.y s⟩
def P3.rem (a : P3 α) (s : α) : P3 α := ⟨FRem.frem a.x s, FRem.frem a.y s, FRem.frem a.z s⟩
def P1.srem (s : α) (a : P1 α) : P1 α := ⟨FRem.frem s a.x⟩
def P2.srem (s : α) (a : P2 α) : P2 α := ⟨FRem.frem s a.x, FRem.frem s a.y⟩
def P3.srem (s : α) (a : P3 α) : P3 α := ⟨FRem.frem s a.x, FRem.frem s a.y, FRem.frem s a.z⟩
def P1.remEw (a b : P1 α) : P1 α := ⟨FRem.frem a.x b.x⟩
def P2.remEw (a b : P2 α) : P2 α := ⟨FRem.frem a.x b.x, FRem.frem a.y b.y⟩
def P3.remEw (a b : P3 α) : P3 α := ⟨FRem.frem a.x b.x, FRem.frem a.y b.y, FRem.frem a.z b.z⟩
end rem

section consts
variable [OfNat α 0]
def P1.origin : P1 α := ⟨0⟩
def P2.origin : P2 α := ⟨0, 0⟩
def P3.origin : P3 α := ⟨0, 0, 0⟩
end consts

section float
variable [Add α] [Sub α] [Mul α] [Transc α]
def P1.distance (a b : P1 α) : α := Transc.sqrt (P1.distance2 a b)
def P2.distance (a b : P2 α) : α := Transc.sqrt (P2.distance2 a b)
def P3.distance (a b : P3 α) : α := Transc.sqrt (P3.distance2 a b)
end float

end Cg
