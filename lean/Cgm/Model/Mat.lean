import Cgm.Model.Point
/-!
# Matrices `Matrix2 .. Matrix4` (src/matrix.rs), column major.

Written as the code is written: `M * v` is `row(r).dot(v)`; `Matrix2/3 * Matrix2/3`
is `row(r).dot(col c)`; `Matrix4 * Matrix4` is the column combination;
`Matrix4::determinant` is `det_sub_proc_unsafe(m,1,2,3)` on the flat array;
`Matrix4::invert` is the cofactor closure over `truncate_n`.
-/
namespace Cg

@[ext] structure M2 (α : Type) where
  x : V2 α
  y : V2 α
  deriving DecidableEq, Repr
@[ext] structure M3 (α : Type) where
  x : V3 α
  y : V3 α
  z : V3 α
  deriving DecidableEq, Repr
@[ext] structure M4 (α : Type) where
  x : V4 α
  y : V4 α
  z : V4 α
  w : V4 α
  deriving DecidableEq, Repr

variable {α : Type}

/-! ## constructors, indexing -/
/-- `Matrix2::new(c0r0, c0r1, c1r0, c1r1)` -/
def M2.new (c0r0 c0r1 c1r0 c1r1 : α) : M2 α := ⟨⟨c0r0, c0r1⟩, ⟨c1r0, c1r1⟩⟩
def M3.new (c0r0 c0r1 c0r2 c1r0 c1r1 c1r2 c2r0 c2r1 c2r2 : α) : M3 α :=
  ⟨⟨c0r0, c0r1, c0r2⟩, ⟨c1r0, c1r1, c1r2⟩, ⟨c2r0, c2r1, c2r2⟩⟩
def M4.new (c0r0 c0r1 c0r2 c0r3 c1r0 c1r1 c1r2 c1r3 c2r0 c2r1 c2r2 c2r3
    c3r0 c3r1 c3r2 c3r3 : α) : M4 α :=
  ⟨⟨c0r0, c0r1, c0r2, c0r3⟩, ⟨c1r0, c1r1, c1r2, c1r3⟩, ⟨c2r0, c2r1, c2r2, c2r3⟩,
   ⟨c3r0, c3r1, c3r2, c3r3⟩⟩

def M2.cols (m : M2 α) : List (V2 α) := [m.x, m.y]
def M3.cols (m : M3 α) : List (V3 α) := [m.x, m.y, m.z]
def M4.cols (m : M4 α) : List (V4 α) := [m.x, m.y, m.z, m.w]
/-- flat column-major contents (`AsRef<[S; n*n]>`) -/
def M2.toList (m : M2 α) : List α := m.x.toList ++ m.y.toList
def M3.toList (m : M3 α) : List α := m.x.toList ++ m.y.toList ++ m.z.toList
def M4.toList (m : M4 α) : List α := m.x.toList ++ m.y.toList ++ m.z.toList ++ m.w.toList
/-- `Index<usize>` (a column); `none` = panic -/
def M2.col? (m : M2 α) (c : Nat) : Option (V2 α) := m.cols[c]?
def M3.col? (m : M3 α) (c : Nat) : Option (V3 α) := m.cols[c]?
def M4.col? (m : M4 α) (c : Nat) : Option (V4 α) := m.cols[c]?
/-- `m[c][r]` -/
def M2.get? (m : M2 α) (c r : Nat) : Option α := (m.col? c).bind (·.get? r)
def M3.get? (m : M3 α) (c r : Nat) : Option α := (m.col? c).bind (·.get? r)
def M4.get? (m : M4 α) (c r : Nat) : Option α := (m.col? c).bind (·.get? r)
def M2.setCol? (m : M2 α) (c : Nat) (v : V2 α) : Option (M2 α) :=
  match c with | 0 => some {m with x := v} | 1 => some {m with y := v} | _ => none
def M3.setCol? (m : M3 α) (c : Nat) (v : V3 α) : Option (M3 α) :=
  match c with
  | 0 => some {m with x := v} | 1 => some {m with y := v} | 2 => some {m with z := v} | _ => none
def M4.setCol? (m : M4 α) (c : Nat) (v : V4 α) : Option (M4 α) :=
  match c with
  | 0 => some {m with x := v} | 1 => some {m with y := v} | 2 => some {m with z := v}
  | 3 => some {m with w := v} | _ => none
def M2.set? (m : M2 α) (c r : Nat) (a : α) : Option (M2 α) :=
  (m.col? c).bind fun v => (v.set? r a).bind fun v' => m.setCol? c v'
def M3.set? (m : M3 α) (c r : Nat) (a : α) : Option (M3 α) :=
  (m.col? c).bind fun v => (v.set? r a).bind fun v' => m.setCol? c v'
def M4.set? (m : M4 α) (c r : Nat) (a : α) : Option (M4 α) :=
  (m.col? c).bind fun v => (v.set? r a).bind fun v' => m.setCol? c v'

/-- `Matrix::row(r)`: `Vector::new(self[0][r], self[1][r], ..)`; `none` = panic -/
def M2.row? (m : M2 α) (r : Nat) : Option (V2 α) :=
  match m.x.get? r, m.y.get? r with
  | some a, some b => some ⟨a, b⟩ | _, _ => none
def M3.row? (m : M3 α) (r : Nat) : Option (V3 α) :=
  match m.x.get? r, m.y.get? r, m.z.get? r with
  | some a, some b, some c => some ⟨a, b, c⟩ | _, _, _ => none
def M4.row? (m : M4 α) (r : Nat) : Option (V4 α) :=
  match m.x.get? r, m.y.get? r, m.z.get? r, m.w.get? r with
  | some a, some b, some c, some d => some ⟨a, b, c, d⟩ | _, _, _, _ => none
def M2.row0 (m : M2 α) : V2 α := ⟨m.x.x, m.y.x⟩
def M2.row1 (m : M2 α) : V2 α := ⟨m.x.y, m.y.y⟩
def M3.row0 (m : M3 α) : V3 α := ⟨m.x.x, m.y.x, m.z.x⟩
def M3.row1 (m : M3 α) : V3 α := ⟨m.x.y, m.y.y, m.z.y⟩
def M3.row2 (m : M3 α) : V3 α := ⟨m.x.z, m.y.z, m.z.z⟩
def M4.row0 (m : M4 α) : V4 α := ⟨m.x.x, m.y.x, m.z.x, m.w.x⟩
def M4.row1 (m : M4 α) : V4 α := ⟨m.x.y, m.y.y, m.z.y, m.w.y⟩
def M4.row2 (m : M4 α) : V4 α := ⟨m.x.z, m.y.z, m.z.z, m.w.z⟩
def M4.row3 (m : M4 α) : V4 α := ⟨m.x.w, m.y.w, m.z.w, m.w.w⟩

def M2.transpose (m : M2 α) : M2 α := M2.new m.x.x m.y.x m.x.y m.y.y
def M3.transpose (m : M3 α) : M3 α :=
  M3.new m.x.x m.y.x m.z.x m.x.y m.y.y m.z.y m.x.z m.y.z m.z.z
def M4.transpose (m : M4 α) : M4 α :=
  M4.new m.x.x m.y.x m.z.x m.w.x m.x.y m.y.y m.z.y m.w.y
         m.x.z m.y.z m.z.z m.w.z m.x.w m.y.w m.z.w m.w.w
def M2.diagonal (m : M2 α) : V2 α := ⟨m.x.x, m.y.y⟩
def M3.diagonal (m : M3 α) : V3 α := ⟨m.x.x, m.y.y, m.z.z⟩
def M4.diagonal (m : M4 α) : V4 α := ⟨m.x.x, m.y.y, m.z.z, m.w.w⟩

/-! ## swaps (`ptr::swap` through `IndexMut`; an out-of-range index panics) -/
def M2.swapRows? (m : M2 α) (a b : Nat) : Option (M2 α) :=
  (m.x.swapElements? a b).bind fun x => (m.y.swapElements? a b).bind fun y => some ⟨x, y⟩
def M3.swapRows? (m : M3 α) (a b : Nat) : Option (M3 α) :=
  (m.x.swapElements? a b).bind fun x => (m.y.swapElements? a b).bind fun y =>
  (m.z.swapElements? a b).bind fun z => some ⟨x, y, z⟩
def M4.swapRows? (m : M4 α) (a b : Nat) : Option (M4 α) :=
  (m.x.swapElements? a b).bind fun x => (m.y.swapElements? a b).bind fun y =>
  (m.z.swapElements? a b).bind fun z => (m.w.swapElements? a b).bind fun w => some ⟨x, y, z, w⟩
def M2.swapColumns? (m : M2 α) (a b : Nat) : Option (M2 α) :=
  match m.col? a, m.col? b with
  | some ca, some cb => (m.setCol? a cb).bind fun m' => m'.setCol? b ca
  | _, _ => none
def M3.swapColumns? (m : M3 α) (a b : Nat) : Option (M3 α) :=
  match m.col? a, m.col? b with
  | some ca, some cb => (m.setCol? a cb).bind fun m' => m'.setCol? b ca
  | _, _ => none
def M4.swapColumns? (m : M4 α) (a b : Nat) : Option (M4 α) :=
  match m.col? a, m.col? b with
  | some ca, some cb => (m.setCol? a cb).bind fun m' => m'.setCol? b ca
  | _, _ => none
def M2.swapElements? (m : M2 α) (ac ar bc br : Nat) : Option (M2 α) :=
  match m.get? ac ar, m.get? bc br with
  | some ea, some eb => (m.set? ac ar eb).bind fun m' => m'.set? bc br ea
  | _, _ => none
def M3.swapElements? (m : M3 α) (ac ar bc br : Nat) : Option (M3 α) :=
  match m.get? ac ar, m.get? bc br with
  | some ea, some eb => (m.set? ac ar eb).bind fun m' => m'.set? bc br ea
  | _, _ => none
def M4.swapElements? (m : M4 α) (ac ar bc br : Nat) : Option (M4 α) :=
  match m.get? ac ar, m.get? bc br with
  | some ea, some eb => (m.set? ac ar eb).bind fun m' => m'.set? bc br ea
  | _, _ => none
/-- `Matrix::replace_col`: installs `src`, returns the old column -/
def M2.replaceCol? (m : M2 α) (c : Nat) (src : V2 α) : Option (M2 α × V2 α) :=
  match m.col? c, m.setCol? c src with | some o, some m' => some (m', o) | _, _ => none
def M3.replaceCol? (m : M3 α) (c : Nat) (src : V3 α) : Option (M3 α × V3 α) :=
  match m.col? c, m.setCol? c src with | some o, some m' => some (m', o) | _, _ => none
def M4.replaceCol? (m : M4 α) (c : Nat) (src : V4 α) : Option (M4 α × V4 α) :=
  match m.col? c, m.setCol? c src with | some o, some m' => some (m', o) | _, _ => none

/-- `transpose_self` as its sequence of `swap_elements` -/
def M2.transposeSelf? (m : M2 α) : Option (M2 α) := m.swapElements? 0 1 1 0
def M3.transposeSelf? (m : M3 α) : Option (M3 α) :=
  (m.swapElements? 0 1 1 0).bind fun m => (m.swapElements? 0 2 2 0).bind fun m =>
  m.swapElements? 1 2 2 1
def M4.transposeSelf? (m : M4 α) : Option (M4 α) :=
  (m.swapElements? 0 1 1 0).bind fun m => (m.swapElements? 0 2 2 0).bind fun m =>
  (m.swapElements? 0 3 3 0).bind fun m => (m.swapElements? 1 2 2 1).bind fun m =>
  (m.swapElements? 1 3 3 1).bind fun m => m.swapElements? 2 3 3 2

/-! ## constant constructors -/
section consts
variable [OfNat α 0] [OfNat α 1]
def M2.fromValue (v : α) : M2 α := M2.new v 0 0 v
def M3.fromValue (v : α) : M3 α := M3.new v 0 0 0 v 0 0 0 v
def M4.fromValue (v : α) : M4 α := M4.new v 0 0 0 0 v 0 0 0 0 v 0 0 0 0 v
def M2.fromDiagonal (d : V2 α) : M2 α := M2.new d.x 0 0 d.y
def M3.fromDiagonal (d : V3 α) : M3 α := M3.new d.x 0 0 0 d.y 0 0 0 d.z
def M4.fromDiagonal (d : V4 α) : M4 α := M4.new d.x 0 0 0 0 d.y 0 0 0 0 d.z 0 0 0 0 d.w
def M2.one : M2 α := M2.fromValue 1
def M3.one : M3 α := M3.fromValue 1
def M4.one : M4 α := M4.fromValue 1
def M2.zero : M2 α := M2.new 0 0 0 0
def M3.zero : M3 α := M3.new 0 0 0 0 0 0 0 0 0
def M4.zero : M4 α := M4.new 0 0 0 0 0 0 0 0 0 0 0 0 0 0 0 0
/-- `Matrix3::from_translation(v : Vector2)` -/
def M3.fromTranslation (v : V2 α) : M3 α := M3.new 1 0 0 0 1 0 v.x v.y 1
def M4.fromTranslation (v : V3 α) : M4 α := M4.new 1 0 0 0 0 1 0 0 0 0 1 0 v.x v.y v.z 1
def M3.fromNonuniformScale (x y : α) : M3 α := M3.new x 0 0 0 y 0 0 0 1
def M4.fromNonuniformScale (x y z : α) : M4 α := M4.new x 0 0 0 0 y 0 0 0 0 z 0 0 0 0 1
def M3.fromScale (v : α) : M3 α := M3.fromNonuniformScale v v
def M4.fromScale (v : α) : M4 α := M4.fromNonuniformScale v v v
/-- `From<Matrix2> for Matrix3` etc. -/
def M2.toM3 (m : M2 α) : M3 α := M3.new m.x.x m.x.y 0 m.y.x m.y.y 0 0 0 1
def M2.toM4 (m : M2 α) : M4 α := M4.new m.x.x m.x.y 0 0 m.y.x m.y.y 0 0 0 0 1 0 0 0 0 1
def M3.toM4 (m : M3 α) : M4 α :=
  M4.new m.x.x m.x.y m.x.z 0 m.y.x m.y.y m.y.z 0 m.z.x m.z.y m.z.z 0 0 0 0 1
end consts

/-! ## arithmetic -/
section ops
variable [Add α] [Sub α] [Mul α] [Div α] [Neg α]

instance : Add (M2 α) := ⟨fun a b => ⟨a.x + b.x, a.y + b.y⟩⟩
instance : Add (M3 α) := ⟨fun a b => ⟨a.x + b.x, a.y + b.y, a.z + b.z⟩⟩
instance : Add (M4 α) := ⟨fun a b => ⟨a.x + b.x, a.y + b.y, a.z + b.z, a.w + b.w⟩⟩
instance : Sub (M2 α) := ⟨fun a b => ⟨a.x - b.x, a.y - b.y⟩⟩
instance : Sub (M3 α) := ⟨fun a b => ⟨a.x - b.x, a.y - b.y, a.z - b.z⟩⟩
instance : Sub (M4 α) := ⟨fun a b => ⟨a.x - b.x, a.y - b.y, a.z - b.z, a.w - b.w⟩⟩
instance : Neg (M2 α) := ⟨fun a => ⟨-a.x, -a.y⟩⟩
instance : Neg (M3 α) := ⟨fun a => ⟨-a.x, -a.y, -a.z⟩⟩
instance : Neg (M4 α) := ⟨fun a => ⟨-a.x, -a.y, -a.z, -a.w⟩⟩
instance : HMul (M2 α) α (M2 α) := ⟨fun a s => ⟨a.x * s, a.y * s⟩⟩
instance : HMul (M3 α) α (M3 α) := ⟨fun a s => ⟨a.x * s, a.y * s, a.z * s⟩⟩
instance : HMul (M4 α) α (M4 α) := ⟨fun a s => ⟨a.x * s, a.y * s, a.z * s, a.w * s⟩⟩
instance : HDiv (M2 α) α (M2 α) := ⟨fun a s => ⟨a.x / s, a.y / s⟩⟩
instance : HDiv (M3 α) α (M3 α) := ⟨fun a s => ⟨a.x / s, a.y / s, a.z / s⟩⟩
instance : HDiv (M4 α) α (M4 α) := ⟨fun a s => ⟨a.x / s, a.y / s, a.z / s, a.w / s⟩⟩
instance : HMul α (M2 α) (M2 α) := ⟨fun s a => ⟨s * a.x, s * a.y⟩⟩
instance : HMul α (M3 α) (M3 α) := ⟨fun s a => ⟨s * a.x, s * a.y, s * a.z⟩⟩
instance : HMul α (M4 α) (M4 α) := ⟨fun s a => ⟨s * a.x, s * a.y, s * a.z, s * a.w⟩⟩
instance : HDiv α (M2 α) (M2 α) := ⟨fun s a => ⟨s / a.x, s / a.y⟩⟩
instance : HDiv α (M3 α) (M3 α) := ⟨fun s a => ⟨s / a.x, s / a.y, s / a.z⟩⟩
instance : HDiv α (M4 α) (M4 α) := ⟨fun s a => ⟨s / a.x, s / a.y, s / a.z, s / a.w⟩⟩

/-- `Matrix * Vector`: `VectorN::new(matrix.row(i).dot(vector) ..)` -/
def M2.mulVec (m : M2 α) (v : V2 α) : V2 α := ⟨V2.dot m.row0 v, V2.dot m.row1 v⟩
def M3.mulVec (m : M3 α) (v : V3 α) : V3 α := ⟨V3.dot m.row0 v, V3.dot m.row1 v, V3.dot m.row2 v⟩
def M4.mulVec (m : M4 α) (v : V4 α) : V4 α :=
  ⟨V4.dot m.row0 v, V4.dot m.row1 v, V4.dot m.row2 v, V4.dot m.row3 v⟩
instance : HMul (M2 α) (V2 α) (V2 α) := ⟨M2.mulVec⟩
instance : HMul (M3 α) (V3 α) (V3 α) := ⟨M3.mulVec⟩
instance : HMul (M4 α) (V4 α) (V4 α) := ⟨M4.mulVec⟩

/-- `Matrix2 * Matrix2` -/
def M2.mul (l r : M2 α) : M2 α :=
  M2.new (V2.dot l.row0 r.x) (V2.dot l.row1 r.x) (V2.dot l.row0 r.y) (V2.dot l.row1 r.y)
def M3.mul (l r : M3 α) : M3 α :=
  M3.new (V3.dot l.row0 r.x) (V3.dot l.row1 r.x) (V3.dot l.row2 r.x)
         (V3.dot l.row0 r.y) (V3.dot l.row1 r.y) (V3.dot l.row2 r.y)
         (V3.dot l.row0 r.z) (V3.dot l.row1 r.z) (V3.dot l.row2 r.z)
/-- `Matrix4 * Matrix4`: `a*rhs[c][0] + b*rhs[c][1] + c*rhs[c][2] + d*rhs[c][3]` -/
def M4.mul (l r : M4 α) : M4 α :=
  let a := l.x; let b := l.y; let c := l.z; let d := l.w
  ⟨a * r.x.x + b * r.x.y + c * r.x.z + d * r.x.w,
   a * r.y.x + b * r.y.y + c * r.y.z + d * r.y.w,
   a * r.z.x + b * r.z.y + c * r.z.z + d * r.z.w,
   a * r.w.x + b * r.w.y + c * r.w.z + d * r.w.w⟩
instance : Mul (M2 α) := ⟨M2.mul⟩
instance : Mul (M3 α) := ⟨M3.mul⟩
instance : Mul (M4 α) := ⟨M4.mul⟩

def M2.trace (m : M2 α) : α := m.diagonal.sum
def M3.trace (m : M3 α) : α := m.diagonal.sum
def M4.trace (m : M4 α) : α := m.diagonal.sum

/-! ### determinant -/
def M2.det (m : M2 α) : α := m.x.x * m.y.y - m.y.x * m.x.y
def M3.det (m : M3 α) : α :=
  m.x.x * (m.y.y * m.z.z - m.z.y * m.y.z)
    - m.y.x * (m.x.y * m.z.z - m.z.y * m.x.z)
    + m.z.x * (m.x.y * m.y.z - m.y.y * m.x.z)

/-- the flat view `&[S; 16]` used by `det_sub_proc_unsafe` (total: junk index ↦ `m.x.x`;
only literal indices `0..15` are ever used) -/
def M4.flat (m : M4 α) (k : Nat) : α :=
  match k with
  | 0 => m.x.x | 1 => m.x.y | 2 => m.x.z | 3 => m.x.w
  | 4 => m.y.x | 5 => m.y.y | 6 => m.y.z | 7 => m.y.w
  | 8 => m.z.x | 9 => m.z.y | 10 => m.z.z | 11 => m.z.w
  | 12 => m.w.x | 13 => m.w.y | 14 => m.w.z | 15 => m.w.w
  | _ => m.x.x

/-- `det_sub_proc_unsafe(m, x, y, z)` lane by lane -/
def M4.detSubProc (m : M4 α) (x y z : Nat) : V4 α :=
  let s := m.flat
  let a : V4 α := ⟨s (4 + x), s (12 + x), s x, s (8 + x)⟩
  let b : V4 α := ⟨s (8 + y), s (8 + y), s (4 + y), s (4 + y)⟩
  let c : V4 α := ⟨s (12 + z), s z, s (12 + z), s z⟩
  let d : V4 α := ⟨s (8 + x), s (8 + x), s (4 + x), s (4 + x)⟩
  let e : V4 α := ⟨s (12 + y), s y, s (12 + y), s y⟩
  let f : V4 α := ⟨s (4 + z), s (12 + z), s z, s (8 + z)⟩
  let g : V4 α := ⟨s (12 + x), s x, s (12 + x), s x⟩
  let h : V4 α := ⟨s (4 + y), s (12 + y), s y, s (8 + y)⟩
  let i : V4 α := ⟨s (8 + z), s (8 + z), s (4 + z), s (4 + z)⟩
  let tmp := V4.mulEw a (V4.mulEw b c)
  let tmp := tmp + V4.mulEw d (V4.mulEw e f)
  let tmp := tmp + V4.mulEw g (V4.mulEw h i)
  let tmp := tmp - V4.mulEw a (V4.mulEw e i)
  let tmp := tmp - V4.mulEw d (V4.mulEw h c)
  let tmp := tmp - V4.mulEw g (V4.mulEw b f)
  tmp

def M4.det (m : M4 α) : α :=
  V4.dot (m.detSubProc 1 2 3) ⟨m.x.x, m.y.x, m.z.x, m.w.x⟩
end ops

@[simp] theorem M2.add_def [Add α] (a b : M2 α) : a + b = ⟨a.x + b.x, a.y + b.y⟩ := rfl
@[simp] theorem M3.add_def [Add α] (a b : M3 α) : a + b = ⟨a.x + b.x, a.y + b.y, a.z + b.z⟩ := rfl
@[simp] theorem M4.add_def [Add α] (a b : M4 α) :
    a + b = ⟨a.x + b.x, a.y + b.y, a.z + b.z, a.w + b.w⟩ := rfl
@[simp] theorem M2.sub_def [Sub α] (a b : M2 α) : a - b = ⟨a.x - b.x, a.y - b.y⟩ := rfl
@[simp] theorem M3.sub_def [Sub α] (a b : M3 α) : a - b = ⟨a.x - b.x, a.y - b.y, a.z - b.z⟩ := rfl
@[simp] theorem M4.sub_def [Sub α] (a b : M4 α) :
    a - b = ⟨a.x - b.x, a.y - b.y, a.z - b.z, a.w - b.w⟩ := rfl
@[simp] theorem M2.neg_def [Neg α] (a : M2 α) : -a = ⟨-a.x, -a.y⟩ := rfl
@[simp] theorem M3.neg_def [Neg α] (a : M3 α) : -a = ⟨-a.x, -a.y, -a.z⟩ := rfl
@[simp] theorem M4.neg_def [Neg α] (a : M4 α) : -a = ⟨-a.x, -a.y, -a.z, -a.w⟩ := rfl
@[simp] theorem M2.muls_def [Mul α] (a : M2 α) (s : α) : a * s = ⟨a.x * s, a.y * s⟩ := rfl
@[simp] theorem M3.muls_def [Mul α] (a : M3 α) (s : α) : a * s = ⟨a.x * s, a.y * s, a.z * s⟩ := rfl
@[simp] theorem M4.muls_def [Mul α] (a : M4 α) (s : α) :
    a * s = ⟨a.x * s, a.y * s, a.z * s, a.w * s⟩ := rfl
@[simp] theorem M2.divs_def [Div α] (a : M2 α) (s : α) : a / s = ⟨a.x / s, a.y / s⟩ := rfl
@[simp] theorem M3.divs_def [Div α] (a : M3 α) (s : α) : a / s = ⟨a.x / s, a.y / s, a.z / s⟩ := rfl
@[simp] theorem M4.divs_def [Div α] (a : M4 α) (s : α) :
    a / s = ⟨a.x / s, a.y / s, a.z / s, a.w / s⟩ := rfl
@[simp] theorem M2.smul_def [Mul α] (s : α) (a : M2 α) : s * a = ⟨s * a.x, s * a.y⟩ := rfl
@[simp] theorem M3.smul_def [Mul α] (s : α) (a : M3 α) : s * a = ⟨s * a.x, s * a.y, s * a.z⟩ := rfl
@[simp] theorem M4.smul_def [Mul α] (s : α) (a : M4 α) :
    s * a = ⟨s * a.x, s * a.y, s * a.z, s * a.w⟩ := rfl
@[simp] theorem M2.sdiv_def [Div α] (s : α) (a : M2 α) : s / a = ⟨s / a.x, s / a.y⟩ := rfl
@[simp] theorem M3.sdiv_def [Div α] (s : α) (a : M3 α) : s / a = ⟨s / a.x, s / a.y, s / a.z⟩ := rfl
@[simp] theorem M4.sdiv_def [Div α] (s : α) (a : M4 α) :
    s / a = ⟨s / a.x, s / a.y, s / a.z, s / a.w⟩ := rfl
@[simp] theorem M2.mulVec_def [Add α] [Mul α] (m : M2 α) (v : V2 α) : m * v = M2.mulVec m v := rfl
@[simp] theorem M3.mulVec_def [Add α] [Mul α] (m : M3 α) (v : V3 α) : m * v = M3.mulVec m v := rfl
@[simp] theorem M4.mulVec_def [Add α] [Mul α] (m : M4 α) (v : V4 α) : m * v = M4.mulVec m v := rfl
@[simp] theorem M2.mul_def [Add α] [Mul α] (a b : M2 α) : a * b = M2.mul a b := rfl
@[simp] theorem M3.mul_def [Add α] [Mul α] (a b : M3 α) : a * b = M3.mul a b := rfl
@[simp] theorem M4.mul_def [Add α] [Mul α] (a b : M4 α) : a * b = M4.mul a b := rfl

section rem
variable [FRem α]
def M2.rem (a : M2 α) (s : α) : M2 α := ⟨a.x.rem s, a.y.rem s⟩
def M3.rem (a : M3 α) (s : α) : M3 α := ⟨a.x.rem s, a.y.rem s, a.z.rem s⟩
def M4.rem (a : M4 α) (s : α) : M4 α := ⟨a.x.rem s, a.y.rem s, a.z.rem s, a.w.rem s⟩
def M2.srem (s : α) (a : M2 α) : M2 α := ⟨V2.srem s a.x, V2.srem s a.y⟩
def M3.srem (s : α) (a : M3 α) : M3 α := ⟨V3.srem s a.x, V3.srem s a.y, V3.srem s a.z⟩
def M4.srem (s : α) (a : M4 α) : M4 α :=
  ⟨V4.srem s a.x, V4.srem s a.y, V4.srem s a.z, V4.srem s a.w⟩
end rem

/-! ## inverse -/
section inv
variable [Add α] [Sub α] [Mul α] [Div α] [Neg α] [OfNat α 0] [OfNat α 1] [DecidableEq α]

def M2.invert (m : M2 α) : Option (M2 α) :=
  let det := m.det
  if det = 0 then none
  else some (M2.new (m.y.y / det) (-m.x.y / det) (-m.y.x / det) (m.x.x / det))

def M3.invert (m : M3 α) : Option (M3 α) :=
  let det := m.det
  if det = 0 then none
  else some (M3.transpose
    ⟨V3.cross m.y m.z / det, V3.cross m.z m.x / det, V3.cross m.x m.y / det⟩)

/-- the closure `cf(i, j)` of `Matrix4::invert` (`t` is the transpose) -/
def M4.cf (t : M4 α) (invDet : α) (i j : Nat) : α :=
  let tr (v : V4 α) : V3 α :=
    match j with
    | 0 => v.truncate0 | 1 => v.truncate1 | 2 => v.truncate2 | _ => v.truncate3
  let mat : M3 α :=
    match i with
    | 0 => ⟨tr t.y, tr t.z, tr t.w⟩
    | 1 => ⟨tr t.x, tr t.z, tr t.w⟩
    | 2 => ⟨tr t.x, tr t.y, tr t.w⟩
    | _ => ⟨tr t.x, tr t.y, tr t.z⟩
  let sign : α := if (i + j) &&& 1 = 1 then -1 else 1
  mat.det * sign * invDet

def M4.invert (m : M4 α) : Option (M4 α) :=
  let det := m.det
  if det = 0 then none
  else
    let invDet := 1 / det
    let t := m.transpose
    let cf := M4.cf t invDet
    some (M4.new (cf 0 0) (cf 0 1) (cf 0 2) (cf 0 3)
                 (cf 1 0) (cf 1 1) (cf 1 2) (cf 1 3)
                 (cf 2 0) (cf 2 1) (cf 2 2) (cf 2 3)
                 (cf 3 0) (cf 3 1) (cf 3 2) (cf 3 3))
end inv

/-! ## matrices as transforms (`impl Transform<..> for Matrix3/Matrix4`) -/
section transform
variable [Add α] [Sub α] [Mul α] [Div α] [OfNat α 0] [OfNat α 1]
/-- `Transform<Point2> for Matrix3` -/
def M3.transformVector2 (m : M3 α) (v : V2 α) : V2 α := (m * v.extend 0).truncate
def M3.transformPoint2 (m : M3 α) (p : P2 α) : P2 α :=
  P2.fromVec (m * (P3.toVec ⟨p.x, p.y, 1⟩)).truncate
/-- `Transform<Point3> for Matrix3` -/
def M3.transformVector (m : M3 α) (v : V3 α) : V3 α := m * v
def M3.transformPoint (m : M3 α) (p : P3 α) : P3 α := P3.fromVec (m * p.toVec)
/-- `Transform<Point3> for Matrix4` -/
def M4.transformVector (m : M4 α) (v : V3 α) : V3 α := (m * v.extend 0).truncate
def M4.transformPoint (m : M4 α) (p : P3 α) : P3 α := P3.fromHomogeneous (m * p.toHomogeneous)
end transform

/-! `iter::Sum` / `iter::Product` -/
section folds
variable [Add α] [Mul α] [OfNat α 0] [OfNat α 1]
def M2.sumList (l : List (M2 α)) : M2 α := l.foldl (· + ·) M2.zero
def M3.sumList (l : List (M3 α)) : M3 α := l.foldl (· + ·) M3.zero
def M4.sumList (l : List (M4 α)) : M4 α := l.foldl (· + ·) M4.zero
def M2.productList (l : List (M2 α)) : M2 α := l.foldl (· * ·) M2.one
def M3.productList (l : List (M3 α)) : M3 α := l.foldl (· * ·) M3.one
def M4.productList (l : List (M4 α)) : M4 α := l.foldl (· * ·) M4.one
end folds

end Cg

namespace Cg
/-! `Transform::inverse_transform` / `inverse_transform_vector` for matrices -/
section invtr
variable {α : Type} [Add α] [Sub α] [Mul α] [Div α] [Neg α] [OfNat α 0] [OfNat α 1] [DecidableEq α]
def M3.inverseTransform (m : M3 α) : Option (M3 α) := m.invert
def M4.inverseTransform (m : M4 α) : Option (M4 α) := m.invert
/-- default method: `self.inverse_transform().map(|inverse| inverse.transform_vector(vec))` -/
def M3.inverseTransformVector2 (m : M3 α) (v : V2 α) : Option (V2 α) :=
  m.inverseTransform.map fun i => i.transformVector2 v
def M3.inverseTransformVector (m : M3 α) (v : V3 α) : Option (V3 α) :=
  m.inverseTransform.map fun i => i.transformVector v
def M4.inverseTransformVector (m : M4 α) (v : V3 α) : Option (V3 α) :=
  m.inverseTransform.map fun i => i.transformVector v
end invtr
end Cg
