import Cgm.Model.Book
/-!
# serde data model of the cgmath value types (C20)

`Tree L` is the part of serde's data model that the cgmath types use: a primitive leaf
(kept abstract: `L` is "the scalar as the format stores it", so "bit for bit" is "the same `L`"),
a struct with named fields, a newtype struct and a sequence.

What `#[derive(Serialize, Deserialize)]` generates (serde_derive 1.0.x, `de/struct_.rs`,
`de/tuple.rs`; none of the cgmath types carries a `#[serde(..)]` attribute, so everything is the
default):

* `Serialize` of a struct with named fields: `serialize_struct(NAME, n)` followed by one
  `serialize_field(name, &self.name)` per field **in declaration order**;
  of a newtype struct (`Rad<S>(pub S)`, `Deg<S>(pub S)`): `serialize_newtype_struct(NAME, &self.0)`,
  which self-describing formats (serde_json, `serde_json::Value`) write as the bare inner value.
* `Deserialize` of a struct with named fields: `deserialize_struct(NAME, FIELDS, visitor)` where the
  visitor has
  - `visit_map`: a loop over the keys; a key naming a field whose slot is already filled is the
    error `duplicate_field` (checked before the value is read); a key naming a field fills the slot
    with `next_value::<FieldTy>()`; **an unknown key is skipped** (`next_value::<IgnoredAny>()` --
    `deny_unknown_fields` is *not* the default); after the loop an empty slot is the error
    `missing_field` (for a field type whose `Deserialize` does not accept "nothing", which is the
    case for the primitive scalars and for every cgmath type);
  - `visit_seq`: the fields positionally, a short sequence is `invalid_length`
    (a sequence that is too long is rejected by the format's `end_seq`: modelled as exact length).
  The struct name is a hint that self-describing formats ignore: `de` ignores it.
* `Deserialize` of a newtype struct: `deserialize_newtype_struct(NAME, visitor)`; the visitor accepts
  the newtype node and (what serde_json hands it) the bare inner value.

The hand-written `Decomposed` impl (src/transform.rs:286-428) is different: its visitor only
implements `visit_map` (a sequence is `invalid_type`), its key deserialiser rejects an unknown
key, and a repeated key overwrites the slot (last wins).  Its loop is `deDecomposed` of
`Cgm/Model/Book.lean`; here it is connected to the tree vocabulary.

Every (de)serialiser is parametrised by the codec of its element type (`S: Serialize` in the
code), so `Matrix3<S>` is built from `Vector3<S>`, `Euler<Rad<S>>` from `Rad<S>`, and so on.
No Mathlib.
-/
namespace Cg.Serde
open Cg

/-- serde data model, restricted to what cgmath's types produce -/
inductive Tree (L : Type) where
  | leaf (a : L) : Tree L
  | struct (name : String) (fields : List (String × Tree L)) : Tree L
  | newtype (name : String) (inner : Tree L) : Tree L
  | seq (items : List (Tree L)) : Tree L

variable {L α R V : Type}

/-- the names a serialised struct gives its components, in the order they were written -/
def fieldNames : Tree L → List String
  | .struct _ kvs => kvs.map (·.1)
  | _ => []
/-- the struct / newtype name handed to the serializer -/
def typeName : Tree L → Option String
  | .struct n _ => some n
  | .newtype n _ => some n
  | _ => none

/-- what a self-describing format (serde_json) keeps of a tree: a newtype struct is written as its
inner value -/
def Tree.json : Tree L → Tree L
  | .leaf a => .leaf a
  | .struct n kvs => .struct n (jsonFields kvs)
  | .newtype _ t => t.json
  | .seq l => .seq (jsonList l)
where
  jsonFields : List (String × Tree L) → List (String × Tree L)
    | [] => []
    | (k, t) :: r => (k, t.json) :: jsonFields r
  jsonList : List (Tree L) → List (Tree L)
    | [] => []
    | t :: r => t.json :: jsonList r

/-- a serialiser / deserialiser pair for one type -/
structure Codec (L α : Type) where
  ser : α → Tree L
  de : Tree L → Option α
/-- deserialising what was serialised gives the value back, also after the format has erased the
newtype wrappers -/
structure Codec.Lawful (c : Codec L α) : Prop where
  de_ser : ∀ a, c.de (c.ser a) = some a
  de_json : ∀ a, c.de (c.ser a).json = some a

/-- a primitive scalar: one leaf -/
def leaf : Codec L L := ⟨.leaf, fun | .leaf a => some a | _ => none⟩

/-! ## the derived struct visitor -/
/-- the visitor's local `Option` slots, one per field name -/
abbrev Slots (L : Type) := String → Option (Tree L)
def Slots.empty : Slots L := fun _ => none
def Slots.set (s : Slots L) (k : String) (t : Tree L) : Slots L :=
  fun k' => if k' = k then some t else s k'

/-- the key loop of the derived `visit_map` over the field names `names`:
duplicate known key = error, unknown key = skipped -/
def visitMap (names : List String) : List (String × Tree L) → Slots L → Option (Slots L)
  | [], s => some s
  | (k, t) :: rest, s =>
    if k ∈ names then
      match s k with
      | some _ => none
      | none => visitMap names rest (s.set k t)
    else visitMap names rest s
/-- after the loop: every slot must be filled (`missing_field` otherwise); declaration order -/
def collect (s : Slots L) : List String → Option (List (Tree L))
  | [] => some []
  | k :: ks =>
    match s k with
    | none => none
    | some t => match collect s ks with | none => none | some ts => some (t :: ts)
/-- the field subtrees of a derived struct in declaration order, from the map form
(`visit_map`) or the positional form (`visit_seq`); the struct name is not looked at -/
def structFields (names : List String) : Tree L → Option (List (Tree L))
  | .struct _ kvs =>
    match visitMap names kvs Slots.empty with
    | none => none
    | some s => collect s names
  | .seq items => if items.length = names.length then some items else none
  | _ => none
/-- a derived `Deserialize` for a struct with the named fields `names`:
`build` deserialises the field subtrees and assembles the value -/
def deriveDe {T : Type} (names : List String) (build : List (Tree L) → Option T) (t : Tree L) : Option T :=
  match structFields names t with
  | none => none
  | some ts => build ts
/-- a derived `Deserialize` for a newtype struct -/
def newtypeDe {T : Type} (c : Codec L α) (mk : α → T) : Tree L → Option T
  | .newtype _ t => (c.de t).map mk
  | .seq [t] => (c.de t).map mk
  | t => (c.de t).map mk

/-! ## builders for 1..6 homogeneous fields -/
def build1 {T : Type} (c : Codec L α) (mk : α → T) : List (Tree L) → Option T
  | [a] => match c.de a with | some x => some (mk x) | none => none
  | _ => none
def build2 {T : Type} (c : Codec L α) (mk : α → α → T) : List (Tree L) → Option T
  | [a, b] => match c.de a, c.de b with | some x, some y => some (mk x y) | _, _ => none
  | _ => none
def build3 {T : Type} (c : Codec L α) (mk : α → α → α → T) : List (Tree L) → Option T
  | [a, b, d] =>
    match c.de a, c.de b, c.de d with | some x, some y, some z => some (mk x y z) | _, _, _ => none
  | _ => none
def build4 {T : Type} (c : Codec L α) (mk : α → α → α → α → T) : List (Tree L) → Option T
  | [a, b, d, e] =>
    match c.de a, c.de b, c.de d, c.de e with
    | some x, some y, some z, some w => some (mk x y z w)
    | _, _, _, _ => none
  | _ => none
def build6 {T : Type} (c : Codec L α) (mk : α → α → α → α → α → α → T) : List (Tree L) → Option T
  | [a, b, d, e, f, g] =>
    match c.de a, c.de b, c.de d, c.de e, c.de f, c.de g with
    | some x, some y, some z, some w, some u, some v => some (mk x y z w u v)
    | _, _, _, _, _, _ => none
  | _ => none

/-! ## vectors, points (src/vector.rs:41-85, src/point.rs:39-64): `{ x, y, z, w }` -/
def V1.codec (c : Codec L α) : Codec L (V1 α) where
  ser v := .struct "Vector1" [("x", c.ser v.x)]
  de := deriveDe ["x"] (build1 c V1.mk)
def V2.codec (c : Codec L α) : Codec L (V2 α) where
  ser v := .struct "Vector2" [("x", c.ser v.x), ("y", c.ser v.y)]
  de := deriveDe ["x", "y"] (build2 c V2.mk)
def V3.codec (c : Codec L α) : Codec L (V3 α) where
  ser v := .struct "Vector3" [("x", c.ser v.x), ("y", c.ser v.y), ("z", c.ser v.z)]
  de := deriveDe ["x", "y", "z"] (build3 c V3.mk)
def V4.codec (c : Codec L α) : Codec L (V4 α) where
  ser v := .struct "Vector4" [("x", c.ser v.x), ("y", c.ser v.y), ("z", c.ser v.z), ("w", c.ser v.w)]
  de := deriveDe ["x", "y", "z", "w"] (build4 c V4.mk)
def P1.codec (c : Codec L α) : Codec L (P1 α) where
  ser v := .struct "Point1" [("x", c.ser v.x)]
  de := deriveDe ["x"] (build1 c P1.mk)
def P2.codec (c : Codec L α) : Codec L (P2 α) where
  ser v := .struct "Point2" [("x", c.ser v.x), ("y", c.ser v.y)]
  de := deriveDe ["x", "y"] (build2 c P2.mk)
def P3.codec (c : Codec L α) : Codec L (P3 α) where
  ser v := .struct "Point3" [("x", c.ser v.x), ("y", c.ser v.y), ("z", c.ser v.z)]
  de := deriveDe ["x", "y", "z"] (build3 c P3.mk)

/-! ## matrices (src/matrix.rs:47-90): the fields `x, y, z, w` are the column vectors -/
def M2.codec (c : Codec L α) : Codec L (M2 α) where
  ser m := .struct "Matrix2" [("x", (V2.codec c).ser m.x), ("y", (V2.codec c).ser m.y)]
  de := deriveDe ["x", "y"] (build2 (V2.codec c) M2.mk)
def M3.codec (c : Codec L α) : Codec L (M3 α) where
  ser m := .struct "Matrix3"
    [("x", (V3.codec c).ser m.x), ("y", (V3.codec c).ser m.y), ("z", (V3.codec c).ser m.z)]
  de := deriveDe ["x", "y", "z"] (build3 (V3.codec c) M3.mk)
def M4.codec (c : Codec L α) : Codec L (M4 α) where
  ser m := .struct "Matrix4"
    [("x", (V4.codec c).ser m.x), ("y", (V4.codec c).ser m.y), ("z", (V4.codec c).ser m.z),
     ("w", (V4.codec c).ser m.w)]
  de := deriveDe ["x", "y", "z", "w"] (build4 (V4.codec c) M4.mk)

/-! ## quaternion (src/quaternion.rs:47-53): `{ v, s }`, vector part first -/
def Quat.build (c : Codec L α) : List (Tree L) → Option (Quat α)
  | [a, b] => match (V3.codec c).de a, c.de b with | some v, some s => some ⟨v, s⟩ | _, _ => none
  | _ => none
def Quat.codec (c : Codec L α) : Codec L (Quat α) where
  ser q := .struct "Quaternion" [("v", (V3.codec c).ser q.v), ("s", c.ser q.s)]
  de := deriveDe ["v", "s"] (Quat.build c)

/-! ## angles (src/angle.rs:40-49): newtype structs `Rad<S>(pub S)`, `Deg<S>(pub S)` -/
structure Rad (α : Type) where
  val : α
structure Deg (α : Type) where
  val : α
def Rad.codec (c : Codec L α) : Codec L (Rad α) where
  ser a := .newtype "Rad" (c.ser a.val)
  de := newtypeDe c Rad.mk
def Deg.codec (c : Codec L α) : Codec L (Deg α) where
  ser a := .newtype "Deg" (c.ser a.val)
  de := newtypeDe c Deg.mk

/-! ## Euler (src/euler.rs:83-92): `Euler<A> { x, y, z }`, `A` the angle type -/
structure Euler (A : Type) where
  x : A
  y : A
  z : A
def Euler.codec {A : Type} (c : Codec L A) : Codec L (Euler A) where
  ser e := .struct "Euler" [("x", c.ser e.x), ("y", c.ser e.y), ("z", c.ser e.z)]
  de := deriveDe ["x", "y", "z"] (build3 c Euler.mk)

/-! ## Basis2 / Basis3 (src/rotation.rs:166-169, 312-315): `{ mat }` (a private field, but a
named one: the derive writes a struct with the single field `mat`, not a newtype) -/
def Basis2.codec (c : Codec L α) : Codec L (Basis2 α) where
  ser b := .struct "Basis2" [("mat", (M2.codec c).ser b.mat)]
  de := deriveDe ["mat"] (build1 (M2.codec c) Basis2.mk)
def Basis3.codec (c : Codec L α) : Codec L (Basis3 α) where
  ser b := .struct "Basis3" [("mat", (M3.codec c).ser b.mat)]
  de := deriveDe ["mat"] (build1 (M3.codec c) Basis3.mk)

/-! ## projection descriptions (src/projection.rs:104-110, 200-208, 265-273, 311-318) -/
structure Ortho (α : Type) where
  left : α
  right : α
  bottom : α
  top : α
  near : α
  far : α
structure Perspective (α : Type) where
  left : α
  right : α
  bottom : α
  top : α
  near : α
  far : α
/-- `fovy: Rad<S>` -/
structure PerspectiveFov (α : Type) where
  fovy : Rad α
  aspect : α
  near : α
  far : α
/-- `fovy: Rad<S>` -/
structure PlanarFov (α : Type) where
  fovy : Rad α
  aspect : α
  height : α
  near : α
  far : α
def Ortho.codec (c : Codec L α) : Codec L (Ortho α) where
  ser p := .struct "Ortho" [("left", c.ser p.left), ("right", c.ser p.right),
    ("bottom", c.ser p.bottom), ("top", c.ser p.top), ("near", c.ser p.near), ("far", c.ser p.far)]
  de := deriveDe ["left", "right", "bottom", "top", "near", "far"] (build6 c Ortho.mk)
def Perspective.codec (c : Codec L α) : Codec L (Perspective α) where
  ser p := .struct "Perspective" [("left", c.ser p.left), ("right", c.ser p.right),
    ("bottom", c.ser p.bottom), ("top", c.ser p.top), ("near", c.ser p.near), ("far", c.ser p.far)]
  de := deriveDe ["left", "right", "bottom", "top", "near", "far"] (build6 c Perspective.mk)
def PerspectiveFov.build (c : Codec L α) : List (Tree L) → Option (PerspectiveFov α)
  | [a, b, d, e] =>
    match (Rad.codec c).de a, c.de b, c.de d, c.de e with
    | some x, some y, some z, some w => some ⟨x, y, z, w⟩
    | _, _, _, _ => none
  | _ => none
def PerspectiveFov.codec (c : Codec L α) : Codec L (PerspectiveFov α) where
  ser p := .struct "PerspectiveFov" [("fovy", (Rad.codec c).ser p.fovy), ("aspect", c.ser p.aspect),
    ("near", c.ser p.near), ("far", c.ser p.far)]
  de := deriveDe ["fovy", "aspect", "near", "far"] (PerspectiveFov.build c)
def PlanarFov.build (c : Codec L α) : List (Tree L) → Option (PlanarFov α)
  | [a, b, d, e, f] =>
    match (Rad.codec c).de a, c.de b, c.de d, c.de e, c.de f with
    | some x, some y, some z, some w, some u => some ⟨x, y, z, w, u⟩
    | _, _, _, _, _ => none
  | _ => none
def PlanarFov.codec (c : Codec L α) : Codec L (PlanarFov α) where
  ser p := .struct "PlanarFov" [("fovy", (Rad.codec c).ser p.fovy), ("aspect", c.ser p.aspect),
    ("height", c.ser p.height), ("near", c.ser p.near), ("far", c.ser p.far)]
  de := deriveDe ["fovy", "aspect", "height", "near", "far"] (PlanarFov.build c)

/-! ## Decomposed (src/transform.rs:286-428, hand written) -/
/-- `serialize_struct("Decomposed", 3)` then `scale`, `rot`, `disp`: the key/value list is
`serDecomposed` of the visitor model -/
def Decomposed.ser (cs : Codec L α) (cr : Codec L R) (cv : Codec L V) (t : Decomposed R V α) : Tree L :=
  .struct "Decomposed" (serDecomposed (cs.ser t.scale) (cr.ser t.rot) (cv.ser t.disp))
/-- `deserialize_struct("Decomposed", FIELDS, DecomposedVisitor)`: only `visit_map` exists, and it is
the loop `deDecomposed` (unknown key = error, missing slot = error, last duplicate wins); the three
values are then those of `S::Scalar`, `R`, `S` -/
def Decomposed.de (cs : Codec L α) (cr : Codec L R) (cv : Codec L V) : Tree L → Option (Decomposed R V α)
  | .struct _ kvs =>
    match deDecomposed kvs with
    | .error _ => none
    | .ok (a, b, d) =>
      match cs.de a, cr.de b, cv.de d with
      | some s, some r, some v => some ⟨s, r, v⟩
      | _, _, _ => none
  | _ => none
def Decomposed.codec (cs : Codec L α) (cr : Codec L R) (cv : Codec L V) : Codec L (Decomposed R V α) :=
  ⟨Decomposed.ser cs cr cv, Decomposed.de cs cr cv⟩

end Cg.Serde
