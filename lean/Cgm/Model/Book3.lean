import Cgm.Model.Book2
/-!
# Bookkeeping parts of the model, third part (C16): the views that were missing

* the quaternion's `[S; 4]` / `(S, S, S, S)` / index views (src/quaternion.rs:536-652).
  `#[repr(C)] struct Quaternion { v: Vector3, s }`: memory (hence `AsRef<[S; 4]>`, `Index`) order is
  `v.x, v.y, v.z, s`; `From<[S; 4]>` is `Quaternion::new(v[3], v[0], v[1], v[2])`,
  `From<(S, S, S, S)>` is `let (xi, yj, zk, w) = v; Quaternion::new(w, xi, yj, zk)`.
* range indices (`Index<Range<usize>>`, `RangeTo`, `RangeFrom`, `RangeFull`) of vectors, points
  (src/vector.rs:352-355, src/point.rs:321-324) and quaternions (src/quaternion.rs:649-652): slices of
  the array view; a bad range panics (`none`).
* tuples (`impl_tuple_conversions!`, src/macros.rs:186-226; vectors and points only: matrices have no
  tuple conversions).  Rust's flat `(S, S, S)` is modelled by Lean's right-nested `α × α × α`; the
  1-tuple `(S,)` by `α` itself.
* matrices from nested `[[S; n]; n]` and flat `[S; n*n]` arrays (src/matrix.rs:1448-1529), column-major.
* `mint` types (src/macros.rs:351-373, src/matrix.rs:1545-1573, src/quaternion.rs:667-690): structures
  with mint's field names (mint-0.5.9 src/vector.rs, src/matrix.rs, src/rotation.rs).
* `truncate_n` with its real argument type `isize`.
* the swizzle generator of build.rs with the *emitted text* (`"self.x, "` per letter) as implementation,
  a parser for that text and the evaluation of a field list on a value.

Everything is value-level, generic in the element type, and has no type-class assumptions.
-/
namespace Cg
variable {α : Type}

/-! ## quaternion: array, tuple and index views -/
/-- `Into<[S; 4]>` / `AsRef<[S; 4]>`: `[xi, yj, zk, w]`, i.e. fields `v.x, v.y, v.z`, then `s` -/
def Quat.toArray (q : Quat α) : List α := [q.v.x, q.v.y, q.v.z, q.s]
/-- `From<[S; 4]>`: `Quaternion::new(v[3], v[0], v[1], v[2])`; a list of another length is not a `[S; 4]` -/
def Quat.ofArray? : List α → Option (Quat α)
  | [v0, v1, v2, v3] => some (Quat.new v3 v0 v1 v2)
  | _ => none
/-- `Into<(S, S, S, S)>`: `(x, y, z, s)` -/
def Quat.toTuple (q : Quat α) : α × α × α × α := (q.v.x, q.v.y, q.v.z, q.s)
/-- `From<(S, S, S, S)>`: `let (xi, yj, zk, w) = v; Quaternion::new(w, xi, yj, zk)` -/
def Quat.ofTuple : α × α × α × α → Quat α
  | (xi, yj, zk, w) => Quat.new w xi yj zk
/-- `Index<usize>`: `let v: &[S; 4] = self.as_ref(); &v[i]`; `none` models the out-of-bounds panic -/
def Quat.get? (q : Quat α) (i : Nat) : Option α := q.toArray[i]?
/-- `IndexMut<usize>` followed by a store: slots 0..2 are the vector part, slot 3 is the scalar part -/
def Quat.set? (q : Quat α) (i : Nat) (a : α) : Option (Quat α) :=
  match i with
  | 0 => some {q with v := {q.v with x := a}}
  | 1 => some {q with v := {q.v with y := a}}
  | 2 => some {q with v := {q.v with z := a}}
  | 3 => some {q with s := a}
  | _ => none

/-! ## range indices: `v[a..b]`, `v[..b]`, `v[a..]`, `v[..]` on the array view -/
/-- `&arr[a..b]`: panics (`none`) when `a > b` or `b > len` -/
def sliceRange? (l : List α) (a b : Nat) : Option (List α) :=
  if a ≤ b ∧ b ≤ l.length then some ((l.drop a).take (b - a)) else none
/-- `&arr[..b]` -/
def sliceTo? (l : List α) (b : Nat) : Option (List α) := sliceRange? l 0 b
/-- `&arr[a..]` -/
def sliceFrom? (l : List α) (a : Nat) : Option (List α) := sliceRange? l a l.length
/-- `&arr[..]` -/
def sliceFull (l : List α) : List α := l
/-- `arr[a..b][k] = x` (a store through `IndexMut<Range<usize>>`): the array afterwards -/
def sliceSet? (l : List α) (a b k : Nat) (x : α) : Option (List α) :=
  if a ≤ b ∧ b ≤ l.length ∧ k < b - a then some (l.set (a + k) x) else none
def V1.range? (v : V1 α) (a b : Nat) : Option (List α) := sliceRange? v.toList a b
def V2.range? (v : V2 α) (a b : Nat) : Option (List α) := sliceRange? v.toList a b
def V3.range? (v : V3 α) (a b : Nat) : Option (List α) := sliceRange? v.toList a b
def V4.range? (v : V4 α) (a b : Nat) : Option (List α) := sliceRange? v.toList a b
def P1.range? (v : P1 α) (a b : Nat) : Option (List α) := sliceRange? v.toList a b
def P2.range? (v : P2 α) (a b : Nat) : Option (List α) := sliceRange? v.toList a b
def P3.range? (v : P3 α) (a b : Nat) : Option (List α) := sliceRange? v.toList a b
def Quat.range? (q : Quat α) (a b : Nat) : Option (List α) := sliceRange? q.toArray a b

/-! ## arrays -> values (`From<[S; n]>`: `$ArrayN { x: v[0], y: v[1], .. }`) -/
def V1.ofArray? : List α → Option (V1 α)
  | [a] => some ⟨a⟩
  | _ => none
def V2.ofArray? : List α → Option (V2 α)
  | [a, b] => some ⟨a, b⟩
  | _ => none
def V3.ofArray? : List α → Option (V3 α)
  | [a, b, c] => some ⟨a, b, c⟩
  | _ => none
def V4.ofArray? : List α → Option (V4 α)
  | [a, b, c, d] => some ⟨a, b, c, d⟩
  | _ => none
def P1.ofArray? : List α → Option (P1 α)
  | [a] => some ⟨a⟩
  | _ => none
def P2.ofArray? : List α → Option (P2 α)
  | [a, b] => some ⟨a, b⟩
  | _ => none
def P3.ofArray? : List α → Option (P3 α)
  | [a, b, c] => some ⟨a, b, c⟩
  | _ => none

/-! ## tuples (`impl_tuple_conversions!`): `match v { $ArrayN { x, y, .. } => (x, y, ..,) }` and back -/
def V1.toTuple (v : V1 α) : α := v.x
def V2.toTuple (v : V2 α) : α × α := (v.x, v.y)
def V3.toTuple (v : V3 α) : α × α × α := (v.x, v.y, v.z)
def V4.toTuple (v : V4 α) : α × α × α × α := (v.x, v.y, v.z, v.w)
def P1.toTuple (v : P1 α) : α := v.x
def P2.toTuple (v : P2 α) : α × α := (v.x, v.y)
def P3.toTuple (v : P3 α) : α × α × α := (v.x, v.y, v.z)
def V1.ofTuple : α → V1 α
  | x => ⟨x⟩
def V2.ofTuple : α × α → V2 α
  | (x, y) => ⟨x, y⟩
def V3.ofTuple : α × α × α → V3 α
  | (x, y, z) => ⟨x, y, z⟩
def V4.ofTuple : α × α × α × α → V4 α
  | (x, y, z, w) => ⟨x, y, z, w⟩
def P1.ofTuple : α → P1 α
  | x => ⟨x⟩
def P2.ofTuple : α × α → P2 α
  | (x, y) => ⟨x, y⟩
def P3.ofTuple : α × α × α → P3 α
  | (x, y, z) => ⟨x, y, z⟩
/-- the components of a homogeneous tuple, in position order (`.0, .1, ..`) -/
def tuple2List : α × α → List α
  | (a, b) => [a, b]
def tuple3List : α × α × α → List α
  | (a, b, c) => [a, b, c]
def tuple4List : α × α × α × α → List α
  | (a, b, c, d) => [a, b, c, d]

/-! ## matrices: nested `[[S; n]; n]` and flat `[S; n*n]` arrays, column-major -/
/-- `Into<[[S; n]; n]>`: `[x.into(), y.into(), ..]` -/
def M2.toNested (m : M2 α) : List (List α) := [m.x.toList, m.y.toList]
def M3.toNested (m : M3 α) : List (List α) := [m.x.toList, m.y.toList, m.z.toList]
def M4.toNested (m : M4 α) : List (List α) := [m.x.toList, m.y.toList, m.z.toList, m.w.toList]
/-- `From<[[S; n]; n]>`: `$MatrixN { x: From::from(m[0]), y: From::from(m[1]), .. }` -/
def M2.ofNested? : List (List α) → Option (M2 α)
  | [c0, c1] =>
    match V2.ofArray? c0, V2.ofArray? c1 with
    | some x, some y => some ⟨x, y⟩
    | _, _ => none
  | _ => none
def M3.ofNested? : List (List α) → Option (M3 α)
  | [c0, c1, c2] =>
    match V3.ofArray? c0, V3.ofArray? c1, V3.ofArray? c2 with
    | some x, some y, some z => some ⟨x, y, z⟩
    | _, _, _ => none
  | _ => none
def M4.ofNested? : List (List α) → Option (M4 α)
  | [c0, c1, c2, c3] =>
    match V4.ofArray? c0, V4.ofArray? c1, V4.ofArray? c2, V4.ofArray? c3 with
    | some x, some y, some z, some w => some ⟨x, y, z, w⟩
    | _, _, _, _ => none
  | _ => none
/-- `From<&[S; n*n]> for &MatrixN` (the reference cast), value-level: column-major -/
def M2.ofFlat? : List α → Option (M2 α)
  | [a0, a1, a2, a3] => some ⟨⟨a0, a1⟩, ⟨a2, a3⟩⟩
  | _ => none
def M3.ofFlat? : List α → Option (M3 α)
  | [a0, a1, a2, a3, a4, a5, a6, a7, a8] => some ⟨⟨a0, a1, a2⟩, ⟨a3, a4, a5⟩, ⟨a6, a7, a8⟩⟩
  | _ => none
def M4.ofFlat? : List α → Option (M4 α)
  | [a0, a1, a2, a3, a4, a5, a6, a7, a8, a9, a10, a11, a12, a13, a14, a15] =>
    some ⟨⟨a0, a1, a2, a3⟩, ⟨a4, a5, a6, a7⟩, ⟨a8, a9, a10, a11⟩, ⟨a12, a13, a14, a15⟩⟩
  | _ => none

/-! ## `Vector4::truncate_n(n: isize)` -/
/-- the argument is an `isize`: negative values panic like the values `≥ 4` -/
def V4.truncateNI? (v : V4 α) (n : Int) : Option (V3 α) :=
  match n with
  | 0 => some ⟨v.y, v.z, v.w⟩
  | 1 => some ⟨v.x, v.z, v.w⟩
  | 2 => some ⟨v.x, v.y, v.w⟩
  | 3 => some ⟨v.x, v.y, v.z⟩
  | _ => none

/-! ## mint (the types of the `mint` crate, same field names, `#[repr(C)]`) -/
namespace Mint
structure Vector2 (α : Type) where
  x : α
  y : α
  deriving DecidableEq, Repr
structure Vector3 (α : Type) where
  x : α
  y : α
  z : α
  deriving DecidableEq, Repr
structure Vector4 (α : Type) where
  x : α
  y : α
  z : α
  w : α
  deriving DecidableEq, Repr
structure Point2 (α : Type) where
  x : α
  y : α
  deriving DecidableEq, Repr
structure Point3 (α : Type) where
  x : α
  y : α
  z : α
  deriving DecidableEq, Repr
/-- `mint::Quaternion { v: Vector3, s }` -/
structure Quaternion (α : Type) where
  v : Vector3 α
  s : α
  deriving DecidableEq, Repr
/-- `mint::ColumnMatrixN { x, y, .. }`: the fields are the columns -/
structure ColumnMatrix2 (α : Type) where
  x : Vector2 α
  y : Vector2 α
  deriving DecidableEq, Repr
structure ColumnMatrix3 (α : Type) where
  x : Vector3 α
  y : Vector3 α
  z : Vector3 α
  deriving DecidableEq, Repr
structure ColumnMatrix4 (α : Type) where
  x : Vector4 α
  y : Vector4 α
  z : Vector4 α
  w : Vector4 α
  deriving DecidableEq, Repr
/-- mint's `From<[T; n]>`: `fn from([x, y, ..]: [T; n]) -> Self { Name { x, y, .. } }`
(the fixed array is given as a tuple) -/
def Vector2.fromArray : α × α → Vector2 α
  | (x, y) => ⟨x, y⟩
def Vector3.fromArray : α × α × α → Vector3 α
  | (x, y, z) => ⟨x, y, z⟩
def Vector4.fromArray : α × α × α × α → Vector4 α
  | (x, y, z, w) => ⟨x, y, z, w⟩
def Point2.fromArray : α × α → Point2 α
  | (x, y) => ⟨x, y⟩
def Point3.fromArray : α × α × α → Point3 α
  | (x, y, z) => ⟨x, y, z⟩
/-- mint's `Into<[T; n]>`: `[name.x, name.y, ..]` -/
def Vector2.toArray (m : Vector2 α) : List α := [m.x, m.y]
def Vector3.toArray (m : Vector3 α) : List α := [m.x, m.y, m.z]
def Vector4.toArray (m : Vector4 α) : List α := [m.x, m.y, m.z, m.w]
def Point2.toArray (m : Point2 α) : List α := [m.x, m.y]
def Point3.toArray (m : Point3 α) : List α := [m.x, m.y, m.z]
/-- mint's `From<Quaternion<T>> for [T; 4]`: `[q.v.x, q.v.y, q.v.z, q.s]` -/
def Quaternion.toArray (m : Quaternion α) : List α := [m.v.x, m.v.y, m.v.z, m.s]
/-- mint's flat view of a column-major matrix: the columns one after the other -/
def ColumnMatrix2.toArray (m : ColumnMatrix2 α) : List α := m.x.toArray ++ m.y.toArray
def ColumnMatrix3.toArray (m : ColumnMatrix3 α) : List α := m.x.toArray ++ m.y.toArray ++ m.z.toArray
def ColumnMatrix4.toArray (m : ColumnMatrix4 α) : List α :=
  m.x.toArray ++ m.y.toArray ++ m.z.toArray ++ m.w.toArray
end Mint

/-- `impl_mint_conversions!`: `mint::$Mint::from([v.x, v.y, ..])` -/
def V2.toMint (v : V2 α) : Mint.Vector2 α := Mint.Vector2.fromArray (v.x, v.y)
def V3.toMint (v : V3 α) : Mint.Vector3 α := Mint.Vector3.fromArray (v.x, v.y, v.z)
def V4.toMint (v : V4 α) : Mint.Vector4 α := Mint.Vector4.fromArray (v.x, v.y, v.z, v.w)
def P2.toMint (v : P2 α) : Mint.Point2 α := Mint.Point2.fromArray (v.x, v.y)
def P3.toMint (v : P3 α) : Mint.Point3 α := Mint.Point3.fromArray (v.x, v.y, v.z)
/-- `impl_mint_conversions!`: `$ArrayN { x: v.x, y: v.y, .. }` -/
def V2.ofMint (m : Mint.Vector2 α) : V2 α := { x := m.x, y := m.y }
def V3.ofMint (m : Mint.Vector3 α) : V3 α := { x := m.x, y := m.y, z := m.z }
def V4.ofMint (m : Mint.Vector4 α) : V4 α := { x := m.x, y := m.y, z := m.z, w := m.w }
def P2.ofMint (m : Mint.Point2 α) : P2 α := { x := m.x, y := m.y }
def P3.ofMint (m : Mint.Point3 α) : P3 α := { x := m.x, y := m.y, z := m.z }
/-- matrix `mint_conversions!`: `mint::$MintN { x: v.x.into(), .. }` and `$MatrixN { x: m.x.into(), .. }` -/
def M2.toMint (m : M2 α) : Mint.ColumnMatrix2 α := { x := m.x.toMint, y := m.y.toMint }
def M3.toMint (m : M3 α) : Mint.ColumnMatrix3 α := { x := m.x.toMint, y := m.y.toMint, z := m.z.toMint }
def M4.toMint (m : M4 α) : Mint.ColumnMatrix4 α :=
  { x := m.x.toMint, y := m.y.toMint, z := m.z.toMint, w := m.w.toMint }
def M2.ofMint (m : Mint.ColumnMatrix2 α) : M2 α := { x := V2.ofMint m.x, y := V2.ofMint m.y }
def M3.ofMint (m : Mint.ColumnMatrix3 α) : M3 α :=
  { x := V3.ofMint m.x, y := V3.ofMint m.y, z := V3.ofMint m.z }
def M4.ofMint (m : Mint.ColumnMatrix4 α) : M4 α :=
  { x := V4.ofMint m.x, y := V4.ofMint m.y, z := V4.ofMint m.z, w := V4.ofMint m.w }
/-- `mint::Quaternion { s: v.s, v: v.v.into() }` and `Quaternion { s: q.s, v: q.v.into() }` -/
def Quat.toMint (q : Quat α) : Mint.Quaternion α := { s := q.s, v := q.v.toMint }
def Quat.ofMint (m : Mint.Quaternion α) : Quat α := { s := m.s, v := V3.ofMint m.v }

/-! ## swizzles: the generator of build.rs with the emitted text, a parser for it, and evaluation -/
/-- `"self."` -/
def swzSelfDot : List Char := ['s', 'e', 'l', 'f', '.']
/-- `", "` -/
def swzSep : List Char := [',', ' ']
/-- `gen_swizzle_nth(variables, i, upto)` as written in build.rs:10-27: returns
`(swizzle, swizzle_impl)` where `swizzle.push(c)` and
`swizzle_impl.push_str(&format!("self.{}, ", c))` -/
def genSwizzleTextGo (vars : List Char) (n : Nat) :
    Nat → Nat → List Char → List Char → Option (List Char × List Char)
  | 0, _, name, impl => some (name, impl)
  | fuel + 1, i, name, impl =>
    if i = 0 then some (name, impl)
    else if i % n = 0 then none
    else
      match vars[i % n - 1]? with
      | none => none
      | some c => genSwizzleTextGo vars n fuel (i / n) (name ++ [c]) (impl ++ swzSelfDot ++ [c] ++ swzSep)
def genSwizzleNthText (vars : List Char) (i upto : Nat) : Option (List Char × List Char) :=
  genSwizzleTextGo vars (vars.length + 1) upto i [] []
/-- `gen_swizzle_functions` (build.rs:35-52): for `i` in `1 .. (len+1)^upto`, every `Some` result
becomes `pub fn {name}(&self) -> $vector_type{dim}<$S> { $vector_type{dim}::new({impl}) }` with
`dim = name.len()`; the triple is `(name, impl, dim)` -/
def genSwizzleFns (vars : List Char) (upto : Nat) : List (List Char × List Char × Nat) :=
  (List.range ((vars.length + 1) ^ upto)).filterMap fun i =>
    if i = 0 then none
    else (genSwizzleNthText vars i upto).map fun p => (p.1, p.2, p.1.length)

/-- parser of the argument list emitted into `$vector_type{dim}::new(..)`: a sequence of
`self.<letter>, ` items; anything else is rejected -/
def parseSwzFields : List Char → Option (List Char)
  | [] => some []
  | 's' :: 'e' :: 'l' :: 'f' :: '.' :: c :: ',' :: ' ' :: rest =>
    match parseSwzFields rest with
    | some cs => some (c :: cs)
    | none => none
  | _ => none

/-- the field of a `Vector4` named by a letter -/
def V4.comp? (v : V4 α) (c : Char) : Option α :=
  if c = 'x' then some v.x else if c = 'y' then some v.y else if c = 'z' then some v.z
  else if c = 'w' then some v.w else none
/-- `Vector3` / `Point3` have the letters `x, y, z`, `Vector2` / `Point2` have `x, y`, `Vector1` /
`Point1` have `x`: an expression `self.w` does not compile on them (`none`) -/
def V3.comp? (v : V3 α) (c : Char) : Option α :=
  if c = 'x' then some v.x else if c = 'y' then some v.y else if c = 'z' then some v.z else none
def V2.comp? (v : V2 α) (c : Char) : Option α :=
  if c = 'x' then some v.x else if c = 'y' then some v.y else none
def V1.comp? (v : V1 α) (c : Char) : Option α :=
  if c = 'x' then some v.x else none
def P3.comp? (v : P3 α) (c : Char) : Option α :=
  if c = 'x' then some v.x else if c = 'y' then some v.y else if c = 'z' then some v.z else none
def P2.comp? (v : P2 α) (c : Char) : Option α :=
  if c = 'x' then some v.x else if c = 'y' then some v.y else none
def P1.comp? (v : P1 α) (c : Char) : Option α :=
  if c = 'x' then some v.x else none

/-- evaluation of a list of field letters with a given field reader: the values read, in order;
`none` if a letter is not a field -/
def swzEvalWith (comp : Char → Option α) : List Char → Option (List α)
  | [] => some []
  | c :: cs =>
    match comp c, swzEvalWith comp cs with
    | some a, some as => some (a :: as)
    | _, _ => none
/-- `x, y, z, w ↦` component, anything else `none` -/
def swzEval (w : List Char) (v : V4 α) : Option (List α) := swzEvalWith v.comp? w
def swzEval3 (w : List Char) (v : V3 α) : Option (List α) := swzEvalWith v.comp? w
def swzEval2 (w : List Char) (v : V2 α) : Option (List α) := swzEvalWith v.comp? w
def swzEval1 (w : List Char) (v : V1 α) : Option (List α) := swzEvalWith v.comp? w
def swzEvalP3 (w : List Char) (v : P3 α) : Option (List α) := swzEvalWith v.comp? w
def swzEvalP2 (w : List Char) (v : P2 α) : Option (List α) := swzEvalWith v.comp? w
def swzEvalP1 (w : List Char) (v : P1 α) : Option (List α) := swzEvalWith v.comp? w
/-- evaluation of an emitted implementation TEXT: parse the field list, then read the fields -/
def swzEvalText (comp : Char → Option α) (text : List Char) : Option (List α) :=
  match parseSwzFields text with
  | some fields => swzEvalWith comp fields
  | none => none

/-- `$vector_type{dim}::new(args)` for the vector family: the arity must be `dim` -/
inductive AnyVec (α : Type) where
  | v1 (v : V1 α) | v2 (v : V2 α) | v3 (v : V3 α) | v4 (v : V4 α)
/-- `$vector_type{dim}::new(args)` for the point family (`Point1..3`) -/
inductive AnyPoint (α : Type) where
  | p1 (v : P1 α) | p2 (v : P2 α) | p3 (v : P3 α)
def AnyVec.dim : AnyVec α → Nat
  | .v1 _ => 1 | .v2 _ => 2 | .v3 _ => 3 | .v4 _ => 4
def AnyVec.toList : AnyVec α → List α
  | .v1 v => v.toList | .v2 v => v.toList | .v3 v => v.toList | .v4 v => v.toList
def AnyPoint.dim : AnyPoint α → Nat
  | .p1 _ => 1 | .p2 _ => 2 | .p3 _ => 3
def AnyPoint.toList : AnyPoint α → List α
  | .p1 v => v.toList | .p2 v => v.toList | .p3 v => v.toList
/-- the constructor call `VectorDIM::new(args)`: compiles only if `dim` names an existing type and
the number of arguments is `dim` -/
def AnyVec.new? (dim : Nat) (args : List α) : Option (AnyVec α) :=
  match dim, args with
  | 1, [a] => some (.v1 ⟨a⟩)
  | 2, [a, b] => some (.v2 ⟨a, b⟩)
  | 3, [a, b, c] => some (.v3 ⟨a, b, c⟩)
  | 4, [a, b, c, d] => some (.v4 ⟨a, b, c, d⟩)
  | _, _ => none
def AnyPoint.new? (dim : Nat) (args : List α) : Option (AnyPoint α) :=
  match dim, args with
  | 1, [a] => some (.p1 ⟨a⟩)
  | 2, [a, b] => some (.p2 ⟨a, b⟩)
  | 3, [a, b, c] => some (.p3 ⟨a, b, c⟩)
  | _, _ => none
/-- a generated accessor `(name, impl, dim)` run on a value with field reader `comp`:
`VectorDIM::new(<impl>)` -/
def runSwizzleVec (comp : Char → Option α) (f : List Char × List Char × Nat) : Option (AnyVec α) :=
  match swzEvalText comp f.2.1 with
  | some args => AnyVec.new? f.2.2 args
  | none => none
def runSwizzlePoint (comp : Char → Option α) (f : List Char × List Char × Nat) : Option (AnyPoint α) :=
  match swzEvalText comp f.2.1 with
  | some args => AnyPoint.new? f.2.2 args
  | none => none

end Cg
