import Cgm.Model.Rot
/-!
# The remaining `Basis2` / `Basis3` constructors and `Quaternion::from(Basis3)`
(src/rotation.rs)

Every one of them is a newtype wrapper that delegates to the matrix type (none goes through the
quaternion):

* `impl Rotation3 for Basis3` (rotation.rs:444-470) OVERRIDES all four trait functions:
  `from_axis_angle(axis, angle) = Basis3 { mat: Matrix3::from_axis_angle(axis, angle) }`,
  `from_angle_x(theta) = Basis3 { mat: Matrix3::from_angle_x(theta) }`, likewise `y`, `z`
  (so the trait defaults `from_axis_angle(unit_x, theta)` of rotation.rs:100-118 are NOT used
  for `Basis3`; they are used by `Quaternion`, see `Quat.fromAngleX` in `Rot.lean`).
* `impl From<Euler<A>> for Basis3` (rotation.rs:472-482): `Basis3 { mat: Matrix3::from(src) }`.
* `impl Rotation2 for Basis2` (rotation.rs:286-294):
  `from_angle(theta) = Basis2 { mat: Matrix2::from_angle(theta) }`.
* `impl From<Basis3<S>> for Quaternion<S>` (rotation.rs:338-343): `b.mat.into()`, i.e.
  `From<Matrix3> for Quaternion` (`M3.toQuat`).
* `impl From<Basis3<S>> for Matrix3<S>` / `From<Basis2<S>> for Matrix2<S>`: the field `mat`.

As everywhere in the model, angles are given by their radian measure.
-/
namespace Cg
variable {α : Type}

section ctor
variable [Add α] [Sub α] [Mul α] [Neg α] [OfNat α 0] [OfNat α 1] [Transc α]

/-- `<Basis3 as Rotation3>::from_axis_angle`: `Basis3 { mat: Matrix3::from_axis_angle(axis, angle) }` -/
def Basis3.fromAxisAngle (axis : V3 α) (θ : α) : Basis3 α := ⟨M3.fromAxisAngle axis θ⟩
/-- `<Basis3 as Rotation3>::from_angle_x`: `Basis3 { mat: Matrix3::from_angle_x(theta) }` -/
def Basis3.fromAngleX (θ : α) : Basis3 α := ⟨M3.fromAngleX θ⟩
/-- `<Basis3 as Rotation3>::from_angle_y`: `Basis3 { mat: Matrix3::from_angle_y(theta) }` -/
def Basis3.fromAngleY (θ : α) : Basis3 α := ⟨M3.fromAngleY θ⟩
/-- `<Basis3 as Rotation3>::from_angle_z`: `Basis3 { mat: Matrix3::from_angle_z(theta) }` -/
def Basis3.fromAngleZ (θ : α) : Basis3 α := ⟨M3.fromAngleZ θ⟩
/-- `From<Euler<A>> for Basis3`: `Basis3 { mat: Matrix3::from(src) }` -/
def Basis3.ofEuler (x y z : α) : Basis3 α := ⟨M3.ofEuler x y z⟩
/-- `<Basis2 as Rotation2>::from_angle`: `Basis2 { mat: Matrix2::from_angle(theta) }` -/
def Basis2.fromAngle (θ : α) : Basis2 α := ⟨M2.fromAngle θ⟩
end ctor

section conv
variable [Add α] [Sub α] [Mul α] [Div α] [Neg α] [OfNat α 0] [OfNat α 1] [NatCast α]
  [LT α] [DecidableLT α] [LE α] [DecidableLE α] [Transc α]

/-- `From<Basis3<S>> for Quaternion<S>`: `b.mat.into()` -/
def Quat.ofBasis3 (b : Basis3 α) : Quat α := b.mat.toQuat
end conv

/-- `From<Basis3<S>> for Matrix3<S>`: `b.mat` -/
def Basis3.toM3 (b : Basis3 α) : M3 α := b.mat
/-- `From<Basis2<S>> for Matrix2<S>`: `b.mat` -/
def Basis2.toM2 (b : Basis2 α) : M2 α := b.mat

end Cg
