import Cgm.Model.Book2
/-!
# Bookkeeping parts of the model, fourth part: the three `approx` relations of every compound type
with the tolerance ARGUMENTS explicit, their default-tolerance forms, the predicates at their
default tolerances, and `is_finite` of vectors and points (C18)

`Book.lean` models the three hand-written `&&` chains of a type by ONE definition `X.relAll r`
whose scalar relation `r` has the tolerances already applied.  Here every Rust impl has its own
definition, with the arguments forwarded the way the source forwards them:

* `impl_vector!` / `impl_point!` (src/vector.rs:215-251, src/point.rs:191-229):
  `$(S::abs_diff_eq(&self.$field, &other.$field, epsilon))&&+`, the same for
  `relative_eq(.., epsilon, max_relative)` and `ulps_eq(.., epsilon, max_ulps)`;
* `Matrix2/3/4` (src/matrix.rs:957-1087): `VectorN::rel(&self[i], &other[i], ..)` for the columns
  `i = 0 .. n-1` in order; `default_epsilon()` is `cast(1.0e-6f64)` (`Lits.matEps`), NOT the
  scalar's; `default_max_relative` / `default_max_ulps` are the scalar's;
* `Quaternion` (src/quaternion.rs:371-410): `s` first, then `v`;
* `Rad` / `Deg` (src/angle.rs:171-207): the wrapped scalar (an angle is a bare scalar in the model);
* `Euler` (src/euler.rs:145-193): `x`, `y`, `z` through the angle's relation;
* `Basis2` / `Basis3` (src/rotation.rs:250-286, 406-442): forward to the matrix WITH the arguments
  they were given; their `default_epsilon()` is the SCALAR's (so `ulps_eq!(b1, b2)` on bases is
  not `ulps_eq!(b1.mat, b2.mat)`);
* `Decomposed` (src/transform.rs:227-284): `scale`, `rot`, `disp`, the SAME `epsilon` /
  `max_relative` / `max_ulps` forwarded to all three parts; the relations of the rotation and
  vector types are parameters taking the tolerances as arguments.

Default-tolerance forms (`abs_diff_eq!(a, b)`, `relative_eq!(a, b)`, `ulps_eq!(a, b)`): `X.absDiffEqD`,
`X.relEqD`, `X.ulpsEqD`.
-/
namespace Cg
variable {α : Type}

/-! ## the three relations, tolerance arguments explicit -/
section rel
variable [Approx α]

def V1.absDiffEq (a b : V1 α) (e : α) : Bool :=
  Approx.absDiffEq a.x b.x e
def V1.relEq (a b : V1 α) (e m : α) : Bool :=
  Approx.relEq a.x b.x e m
def V1.ulpsEq (a b : V1 α) (e : α) (u : Nat) : Bool :=
  Approx.ulpsEq a.x b.x e u
def V2.absDiffEq (a b : V2 α) (e : α) : Bool :=
  Approx.absDiffEq a.x b.x e && Approx.absDiffEq a.y b.y e
def V2.relEq (a b : V2 α) (e m : α) : Bool :=
  Approx.relEq a.x b.x e m && Approx.relEq a.y b.y e m
def V2.ulpsEq (a b : V2 α) (e : α) (u : Nat) : Bool :=
  Approx.ulpsEq a.x b.x e u && Approx.ulpsEq a.y b.y e u
def V3.absDiffEq (a b : V3 α) (e : α) : Bool :=
  Approx.absDiffEq a.x b.x e && Approx.absDiffEq a.y b.y e && Approx.absDiffEq a.z b.z e
def V3.relEq (a b : V3 α) (e m : α) : Bool :=
  Approx.relEq a.x b.x e m && Approx.relEq a.y b.y e m && Approx.relEq a.z b.z e m
def V3.ulpsEq (a b : V3 α) (e : α) (u : Nat) : Bool :=
  Approx.ulpsEq a.x b.x e u && Approx.ulpsEq a.y b.y e u && Approx.ulpsEq a.z b.z e u
def V4.absDiffEq (a b : V4 α) (e : α) : Bool :=
  Approx.absDiffEq a.x b.x e && Approx.absDiffEq a.y b.y e && Approx.absDiffEq a.z b.z e && Approx.absDiffEq a.w b.w e
def V4.relEq (a b : V4 α) (e m : α) : Bool :=
  Approx.relEq a.x b.x e m && Approx.relEq a.y b.y e m && Approx.relEq a.z b.z e m && Approx.relEq a.w b.w e m
def V4.ulpsEq (a b : V4 α) (e : α) (u : Nat) : Bool :=
  Approx.ulpsEq a.x b.x e u && Approx.ulpsEq a.y b.y e u && Approx.ulpsEq a.z b.z e u && Approx.ulpsEq a.w b.w e u
def P1.absDiffEq (a b : P1 α) (e : α) : Bool :=
  Approx.absDiffEq a.x b.x e
def P1.relEq (a b : P1 α) (e m : α) : Bool :=
  Approx.relEq a.x b.x e m
def P1.ulpsEq (a b : P1 α) (e : α) (u : Nat) : Bool :=
  Approx.ulpsEq a.x b.x e u
def P2.absDiffEq (a b : P2 α) (e : α) : Bool :=
  Approx.absDiffEq a.x b.x e && Approx.absDiffEq a.y b.y e
def P2.relEq (a b : P2 α) (e m : α) : Bool :=
  Approx.relEq a.x b.x e m && Approx.relEq a.y b.y e m
def P2.ulpsEq (a b : P2 α) (e : α) (u : Nat) : Bool :=
  Approx.ulpsEq a.x b.x e u && Approx.ulpsEq a.y b.y e u
def P3.absDiffEq (a b : P3 α) (e : α) : Bool :=
  Approx.absDiffEq a.x b.x e && Approx.absDiffEq a.y b.y e && Approx.absDiffEq a.z b.z e
def P3.relEq (a b : P3 α) (e m : α) : Bool :=
  Approx.relEq a.x b.x e m && Approx.relEq a.y b.y e m && Approx.relEq a.z b.z e m
def P3.ulpsEq (a b : P3 α) (e : α) (u : Nat) : Bool :=
  Approx.ulpsEq a.x b.x e u && Approx.ulpsEq a.y b.y e u && Approx.ulpsEq a.z b.z e u
/-- matrices compare the column vectors `self[0]`, `self[1]`, ... with the arguments unchanged -/
def M2.absDiffEq (a b : M2 α) (e : α) : Bool :=
  V2.absDiffEq a.x b.x e && V2.absDiffEq a.y b.y e
def M2.relEq (a b : M2 α) (e m : α) : Bool :=
  V2.relEq a.x b.x e m && V2.relEq a.y b.y e m
def M2.ulpsEq (a b : M2 α) (e : α) (u : Nat) : Bool :=
  V2.ulpsEq a.x b.x e u && V2.ulpsEq a.y b.y e u
def M3.absDiffEq (a b : M3 α) (e : α) : Bool :=
  V3.absDiffEq a.x b.x e && V3.absDiffEq a.y b.y e && V3.absDiffEq a.z b.z e
def M3.relEq (a b : M3 α) (e m : α) : Bool :=
  V3.relEq a.x b.x e m && V3.relEq a.y b.y e m && V3.relEq a.z b.z e m
def M3.ulpsEq (a b : M3 α) (e : α) (u : Nat) : Bool :=
  V3.ulpsEq a.x b.x e u && V3.ulpsEq a.y b.y e u && V3.ulpsEq a.z b.z e u
def M4.absDiffEq (a b : M4 α) (e : α) : Bool :=
  V4.absDiffEq a.x b.x e && V4.absDiffEq a.y b.y e && V4.absDiffEq a.z b.z e && V4.absDiffEq a.w b.w e
def M4.relEq (a b : M4 α) (e m : α) : Bool :=
  V4.relEq a.x b.x e m && V4.relEq a.y b.y e m && V4.relEq a.z b.z e m && V4.relEq a.w b.w e m
def M4.ulpsEq (a b : M4 α) (e : α) (u : Nat) : Bool :=
  V4.ulpsEq a.x b.x e u && V4.ulpsEq a.y b.y e u && V4.ulpsEq a.z b.z e u && V4.ulpsEq a.w b.w e u
/-- quaternion: scalar part, then vector part -/
def Quat.absDiffEq (a b : Quat α) (e : α) : Bool :=
  Approx.absDiffEq a.s b.s e && V3.absDiffEq a.v b.v e
def Quat.relEq (a b : Quat α) (e m : α) : Bool :=
  Approx.relEq a.s b.s e m && V3.relEq a.v b.v e m
def Quat.ulpsEq (a b : Quat α) (e : α) (u : Nat) : Bool :=
  Approx.ulpsEq a.s b.s e u && V3.ulpsEq a.v b.v e u
/-- `Rad` / `Deg` (one macro, `impl_angle!`): the wrapped scalar -/
def angleAbsDiffEq (a b : α) (e : α) : Bool := Approx.absDiffEq a b e
def angleRelEq (a b : α) (e m : α) : Bool := Approx.relEq a b e m
def angleUlpsEq (a b : α) (e : α) (u : Nat) : Bool := Approx.ulpsEq a b e u
/-- `Euler { x, y, z }` through the angle type's relation -/
def eulerAbsDiffEq (a b : α × α × α) (e : α) : Bool :=
  angleAbsDiffEq a.1 b.1 e && angleAbsDiffEq a.2.1 b.2.1 e && angleAbsDiffEq a.2.2 b.2.2 e
def eulerRelEq (a b : α × α × α) (e m : α) : Bool :=
  angleRelEq a.1 b.1 e m && angleRelEq a.2.1 b.2.1 e m && angleRelEq a.2.2 b.2.2 e m
def eulerUlpsEq (a b : α × α × α) (e : α) (u : Nat) : Bool :=
  angleUlpsEq a.1 b.1 e u && angleUlpsEq a.2.1 b.2.1 e u && angleUlpsEq a.2.2 b.2.2 e u
/-- `Basis2` / `Basis3` forward to the matrix -/
def Basis2.absDiffEq (a b : Basis2 α) (e : α) : Bool := M2.absDiffEq a.mat b.mat e
def Basis2.relEq (a b : Basis2 α) (e m : α) : Bool := M2.relEq a.mat b.mat e m
def Basis2.ulpsEq (a b : Basis2 α) (e : α) (u : Nat) : Bool := M2.ulpsEq a.mat b.mat e u
def Basis3.absDiffEq (a b : Basis3 α) (e : α) : Bool := M3.absDiffEq a.mat b.mat e
def Basis3.relEq (a b : Basis3 α) (e m : α) : Bool := M3.relEq a.mat b.mat e m
def Basis3.ulpsEq (a b : Basis3 α) (e : α) (u : Nat) : Bool := M3.ulpsEq a.mat b.mat e u
/-- `Decomposed`: scale, rot, disp; `rr` / `rv` are the relations of the rotation / vector type
(they take the tolerances as arguments; the chain passes its own arguments on to all three) -/
def Decomposed.absDiffEq {R V : Type} (rr : R → R → α → Bool) (rv : V → V → α → Bool)
    (a b : Decomposed R V α) (e : α) : Bool :=
  Approx.absDiffEq a.scale b.scale e && rr a.rot b.rot e && rv a.disp b.disp e
def Decomposed.relEq {R V : Type} (rr : R → R → α → α → Bool) (rv : V → V → α → α → Bool)
    (a b : Decomposed R V α) (e m : α) : Bool :=
  Approx.relEq a.scale b.scale e m && rr a.rot b.rot e m && rv a.disp b.disp e m
def Decomposed.ulpsEq {R V : Type} (rr : R → R → α → Nat → Bool) (rv : V → V → α → Nat → Bool)
    (a b : Decomposed R V α) (e : α) (u : Nat) : Bool :=
  Approx.ulpsEq a.scale b.scale e u && rr a.rot b.rot e u && rv a.disp b.disp e u

/-! ## default-tolerance forms: the type's own `default_epsilon()` -/
/-- everything except the matrices: the scalar's `default_epsilon()` -/
def V1.absDiffEqD (a b : V1 α) : Bool := V1.absDiffEq a b Approx.eps
def V1.relEqD (a b : V1 α) : Bool := V1.relEq a b Approx.eps Approx.maxRel
def V1.ulpsEqD (a b : V1 α) : Bool := V1.ulpsEq a b Approx.eps (Approx.maxUlps α)
def V2.absDiffEqD (a b : V2 α) : Bool := V2.absDiffEq a b Approx.eps
def V2.relEqD (a b : V2 α) : Bool := V2.relEq a b Approx.eps Approx.maxRel
def V2.ulpsEqD (a b : V2 α) : Bool := V2.ulpsEq a b Approx.eps (Approx.maxUlps α)
def V3.absDiffEqD (a b : V3 α) : Bool := V3.absDiffEq a b Approx.eps
def V3.relEqD (a b : V3 α) : Bool := V3.relEq a b Approx.eps Approx.maxRel
def V3.ulpsEqD (a b : V3 α) : Bool := V3.ulpsEq a b Approx.eps (Approx.maxUlps α)
def V4.absDiffEqD (a b : V4 α) : Bool := V4.absDiffEq a b Approx.eps
def V4.relEqD (a b : V4 α) : Bool := V4.relEq a b Approx.eps Approx.maxRel
def V4.ulpsEqD (a b : V4 α) : Bool := V4.ulpsEq a b Approx.eps (Approx.maxUlps α)
def P1.absDiffEqD (a b : P1 α) : Bool := P1.absDiffEq a b Approx.eps
def P1.relEqD (a b : P1 α) : Bool := P1.relEq a b Approx.eps Approx.maxRel
def P1.ulpsEqD (a b : P1 α) : Bool := P1.ulpsEq a b Approx.eps (Approx.maxUlps α)
def P2.absDiffEqD (a b : P2 α) : Bool := P2.absDiffEq a b Approx.eps
def P2.relEqD (a b : P2 α) : Bool := P2.relEq a b Approx.eps Approx.maxRel
def P2.ulpsEqD (a b : P2 α) : Bool := P2.ulpsEq a b Approx.eps (Approx.maxUlps α)
def P3.absDiffEqD (a b : P3 α) : Bool := P3.absDiffEq a b Approx.eps
def P3.relEqD (a b : P3 α) : Bool := P3.relEq a b Approx.eps Approx.maxRel
def P3.ulpsEqD (a b : P3 α) : Bool := P3.ulpsEq a b Approx.eps (Approx.maxUlps α)
def Quat.absDiffEqD (a b : Quat α) : Bool := Quat.absDiffEq a b Approx.eps
def Quat.relEqD (a b : Quat α) : Bool := Quat.relEq a b Approx.eps Approx.maxRel
def Quat.ulpsEqD (a b : Quat α) : Bool := Quat.ulpsEq a b Approx.eps (Approx.maxUlps α)
def Basis2.absDiffEqD (a b : Basis2 α) : Bool := Basis2.absDiffEq a b Approx.eps
def Basis2.relEqD (a b : Basis2 α) : Bool := Basis2.relEq a b Approx.eps Approx.maxRel
def Basis2.ulpsEqD (a b : Basis2 α) : Bool := Basis2.ulpsEq a b Approx.eps (Approx.maxUlps α)
def Basis3.absDiffEqD (a b : Basis3 α) : Bool := Basis3.absDiffEq a b Approx.eps
def Basis3.relEqD (a b : Basis3 α) : Bool := Basis3.relEq a b Approx.eps Approx.maxRel
def Basis3.ulpsEqD (a b : Basis3 α) : Bool := Basis3.ulpsEq a b Approx.eps (Approx.maxUlps α)
def angleAbsDiffEqD (a b : α) : Bool := angleAbsDiffEq a b Approx.eps
def angleRelEqD (a b : α) : Bool := angleRelEq a b Approx.eps Approx.maxRel
def angleUlpsEqD (a b : α) : Bool := angleUlpsEq a b Approx.eps (Approx.maxUlps α)
def eulerAbsDiffEqD (a b : α × α × α) : Bool := eulerAbsDiffEq a b Approx.eps
def eulerRelEqD (a b : α × α × α) : Bool := eulerRelEq a b Approx.eps Approx.maxRel
def eulerUlpsEqD (a b : α × α × α) : Bool := eulerUlpsEq a b Approx.eps (Approx.maxUlps α)
def Decomposed.absDiffEqD {R V : Type} (rr : R → R → α → Bool) (rv : V → V → α → Bool)
    (a b : Decomposed R V α) : Bool := Decomposed.absDiffEq rr rv a b Approx.eps
def Decomposed.relEqD {R V : Type} (rr : R → R → α → α → Bool) (rv : V → V → α → α → Bool)
    (a b : Decomposed R V α) : Bool := Decomposed.relEq rr rv a b Approx.eps Approx.maxRel
def Decomposed.ulpsEqD {R V : Type} (rr : R → R → α → Nat → Bool) (rv : V → V → α → Nat → Bool)
    (a b : Decomposed R V α) : Bool := Decomposed.ulpsEq rr rv a b Approx.eps (Approx.maxUlps α)
/-- the matrices: `default_epsilon()` is `cast(1.0e-6f64)` (src/matrix.rs:961, 1003, 1047) -/
def M2.absDiffEqD [Lits α] (a b : M2 α) : Bool := M2.absDiffEq a b Lits.matEps
def M2.relEqD [Lits α] (a b : M2 α) : Bool := M2.relEq a b Lits.matEps Approx.maxRel
def M2.ulpsEqD [Lits α] (a b : M2 α) : Bool := M2.ulpsEq a b Lits.matEps (Approx.maxUlps α)
def M3.absDiffEqD [Lits α] (a b : M3 α) : Bool := M3.absDiffEq a b Lits.matEps
def M3.relEqD [Lits α] (a b : M3 α) : Bool := M3.relEq a b Lits.matEps Approx.maxRel
def M3.ulpsEqD [Lits α] (a b : M3 α) : Bool := M3.ulpsEq a b Lits.matEps (Approx.maxUlps α)
def M4.absDiffEqD [Lits α] (a b : M4 α) : Bool := M4.absDiffEq a b Lits.matEps
def M4.relEqD [Lits α] (a b : M4 α) : Bool := M4.relEq a b Lits.matEps Approx.maxRel
def M4.ulpsEqD [Lits α] (a b : M4 α) : Bool := M4.ulpsEq a b Lits.matEps (Approx.maxUlps α)

/-! ## the predicates at their default tolerances
`is_zero` / `is_identity` of a matrix are `ulps_eq!(self, &Self::zero())` / `ulps_eq!(self, &Self::identity())`
on the MATRIX type (epsilon `1e-6`); `is_diagonal`, `is_symmetric`, `is_invertible`, `is_perpendicular`
and the `is_zero` of quaternions and angles are `ulps_eq!` on SCALARS / scalar-epsilon types. -/
def M2.isZeroD [Lits α] [OfNat α 0] (m : M2 α) : Bool := M2.ulpsEqD m M2.zero
def M3.isZeroD [Lits α] [OfNat α 0] (m : M3 α) : Bool := M3.ulpsEqD m M3.zero
def M4.isZeroD [Lits α] [OfNat α 0] (m : M4 α) : Bool := M4.ulpsEqD m M4.zero
def M2.isIdentityD [Lits α] [OfNat α 0] [OfNat α 1] (m : M2 α) : Bool := M2.ulpsEqD m M2.one
def M3.isIdentityD [Lits α] [OfNat α 0] [OfNat α 1] (m : M3 α) : Bool := M3.ulpsEqD m M3.one
def M4.isIdentityD [Lits α] [OfNat α 0] [OfNat α 1] (m : M4 α) : Bool := M4.ulpsEqD m M4.one
def M2.isDiagonalD [OfNat α 0] (m : M2 α) : Bool := M2.isDiagonal (fun x => _root_.Cg.ulpsEqD x 0) m
def M3.isDiagonalD [OfNat α 0] (m : M3 α) : Bool := M3.isDiagonal (fun x => _root_.Cg.ulpsEqD x 0) m
def M4.isDiagonalD [OfNat α 0] (m : M4 α) : Bool := M4.isDiagonal (fun x => _root_.Cg.ulpsEqD x 0) m
def M2.isSymmetricD (m : M2 α) : Bool := M2.isSymmetric _root_.Cg.ulpsEqD m
def M3.isSymmetricD (m : M3 α) : Bool := M3.isSymmetric _root_.Cg.ulpsEqD m
def M4.isSymmetricD (m : M4 α) : Bool := M4.isSymmetric _root_.Cg.ulpsEqD m
def M2.isInvertibleD [Sub α] [Mul α] [OfNat α 0] (m : M2 α) : Bool := M2.isInvertible _root_.Cg.ulpsEqD m
def M3.isInvertibleD [Add α] [Sub α] [Mul α] [OfNat α 0] (m : M3 α) : Bool := M3.isInvertible _root_.Cg.ulpsEqD m
def M4.isInvertibleD [Add α] [Sub α] [Mul α] [OfNat α 0] (m : M4 α) : Bool := M4.isInvertible _root_.Cg.ulpsEqD m
def Quat.isZeroD [OfNat α 0] (q : Quat α) : Bool := Quat.ulpsEqD q Quat.zero
def angleIsZeroD [OfNat α 0] (a : α) : Bool := angleUlpsEqD a 0
def V1.isPerpendicularD [Mul α] [OfNat α 0] (u v : V1 α) : Bool := V1.isPerpendicular _root_.Cg.ulpsEqD u v
def V2.isPerpendicularD [Add α] [Mul α] [OfNat α 0] (u v : V2 α) : Bool := V2.isPerpendicular _root_.Cg.ulpsEqD u v
def V3.isPerpendicularD [Add α] [Mul α] [OfNat α 0] (u v : V3 α) : Bool := V3.isPerpendicular _root_.Cg.ulpsEqD u v
def V4.isPerpendicularD [Add α] [Mul α] [OfNat α 0] (u v : V4 α) : Bool := V4.isPerpendicular _root_.Cg.ulpsEqD u v
def Quat.isPerpendicularD [Add α] [Mul α] [OfNat α 0] (u v : Quat α) : Bool := Quat.isPerpendicular _root_.Cg.ulpsEqD u v
end rel

/-! ## `Array::is_finite` of vectors and points (src/vector.rs:174, src/point.rs:138):
`$(self.$field.is_finite())&&+`; `fin` is the scalar test -/
def V1.isFinite (fin : α → Bool) (v : V1 α) : Bool := fin v.x
def V2.isFinite (fin : α → Bool) (v : V2 α) : Bool := fin v.x && fin v.y
def V3.isFinite (fin : α → Bool) (v : V3 α) : Bool := fin v.x && fin v.y && fin v.z
def V4.isFinite (fin : α → Bool) (v : V4 α) : Bool := fin v.x && fin v.y && fin v.z && fin v.w
def P1.isFinite (fin : α → Bool) (v : P1 α) : Bool := fin v.x
def P2.isFinite (fin : α → Bool) (v : P2 α) : Bool := fin v.x && fin v.y
def P3.isFinite (fin : α → Bool) (v : P3 α) : Bool := fin v.x && fin v.y && fin v.z

end Cg
