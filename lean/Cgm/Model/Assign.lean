import Cgm.Model.Book
/-!
# Compound-assignment forms, as the code writes them; angle operators; by-reference folds;
the operator table over a sum type (C17, C13)

The by-value operators of the model (`Vec.lean`, `Point.lean`, `Mat.lean`, `Quat.lean`) mirror the
`impl_operator!` bodies, which build a NEW value with a constructor
(`$VectorN::new($(lhs.$field + rhs.$field),+)`).  The compound-assignment impls are different code:
`impl_assignment_operator!` bodies update `self` in place, one statement per field, in source order

* vectors  (src/vector.rs:277-306)  `$(self.$field += other.$field);+`, `$(self.$field *= scalar);+` ...
* points   (src/point.rs:249-275)   `$(self.$field += vector.$field);+` ...
* matrices (src/matrix.rs:1212-1233) `$(self.$field *= scalar);+` per COLUMN: each statement is the
  column vector's own `MulAssign` (so it runs the vector code above); `AddAssign`/`SubAssign` are
  written by hand outside the macro, `$(self.$field += other.$field);+`
* quaternion (src/quaternion.rs:282-332) `self.s += other.s; self.v += other.v;` (scalar part first, then the
  `Vector3` compound assignment)
* angles (src/angle.rs:153-173) `self.0 += other.0;`
* `ElementWise::*_assign_element_wise` (src/vector.rs:308-334, src/point.rs:277-303), both right-hand-side kinds.

They are modelled here as they are written: a sequence of single-field updates of `self`
(`{ self with f := self.f op rhs.f }`), the matrix ones through the vector ones.
On the primitive scalar, `x op= y` is `x = x op y` (the trusted meaning of the primitive
compound assignment; for the foreign exact scalar of the harness this is how `*Assign` is implemented).

No proofs here: that each of these agrees with the by-value operator is `Cgm/Props/C17c.lean`.
-/
namespace Cg
variable {α : Type}

/-! ## vectors and points: `$(self.$field op= rhs.$field);+` and `$(self.$field op= scalar);+` -/
def V1.addAssign [Add α] (self : V1 α) (other : V1 α) : V1 α :=
  let self := { self with x := self.x + other.x }
  self
def V1.subAssign [Sub α] (self : V1 α) (other : V1 α) : V1 α :=
  let self := { self with x := self.x - other.x }
  self
def V1.mulAssignS [Mul α] (self : V1 α) (scalar : α) : V1 α :=
  let self := { self with x := self.x * scalar }
  self
def V1.divAssignS [Div α] (self : V1 α) (scalar : α) : V1 α :=
  let self := { self with x := self.x / scalar }
  self
def V1.remAssignS [FRem α] (self : V1 α) (scalar : α) : V1 α :=
  let self := { self with x := FRem.frem self.x scalar }
  self
def V1.addAssignElementWise [Add α] (self rhs : V1 α) : V1 α :=
  let self := { self with x := self.x + rhs.x }
  self
def V1.subAssignElementWise [Sub α] (self rhs : V1 α) : V1 α :=
  let self := { self with x := self.x - rhs.x }
  self
def V1.mulAssignElementWise [Mul α] (self rhs : V1 α) : V1 α :=
  let self := { self with x := self.x * rhs.x }
  self
def V1.divAssignElementWise [Div α] (self rhs : V1 α) : V1 α :=
  let self := { self with x := self.x / rhs.x }
  self
def V1.remAssignElementWise [FRem α] (self rhs : V1 α) : V1 α :=
  let self := { self with x := FRem.frem self.x rhs.x }
  self
def V1.addAssignElementWiseS [Add α] (self : V1 α) (rhs : α) : V1 α :=
  let self := { self with x := self.x + rhs }
  self
def V1.subAssignElementWiseS [Sub α] (self : V1 α) (rhs : α) : V1 α :=
  let self := { self with x := self.x - rhs }
  self
def V1.mulAssignElementWiseS [Mul α] (self : V1 α) (rhs : α) : V1 α :=
  let self := { self with x := self.x * rhs }
  self
def V1.divAssignElementWiseS [Div α] (self : V1 α) (rhs : α) : V1 α :=
  let self := { self with x := self.x / rhs }
  self
def V1.remAssignElementWiseS [FRem α] (self : V1 α) (rhs : α) : V1 α :=
  let self := { self with x := FRem.frem self.x rhs }
  self
def V2.addAssign [Add α] (self : V2 α) (other : V2 α) : V2 α :=
  let self := { self with x := self.x + other.x }
  let self := { self with y := self.y + other.y }
  self
def V2.subAssign [Sub α] (self : V2 α) (other : V2 α) : V2 α :=
  let self := { self with x := self.x - other.x }
  let self := { self with y := self.y - other.y }
  self
def V2.mulAssignS [Mul α] (self : V2 α) (scalar : α) : V2 α :=
  let self := { self with x := self.x * scalar }
  let self := { self with y := self.y * scalar }
  self
def V2.divAssignS [Div α] (self : V2 α) (scalar : α) : V2 α :=
  let self := { self with x := self.x / scalar }
  let self := { self with y := self.y / scalar }
  self
def V2.remAssignS [FRem α] (self : V2 α) (scalar : α) : V2 α :=
  let self := { self with x := FRem.frem self.x scalar }
  let self := { self with y := FRem.frem self.y scalar }
  self
def V2.addAssignElementWise [Add α] (self rhs : V2 α) : V2 α :=
  let self := { self with x := self.x + rhs.x }
  let self := { self with y := self.y + rhs.y }
  self
def V2.subAssignElementWise [Sub α] (self rhs : V2 α) : V2 α :=
  let self := { self with x := self.x - rhs.x }
  let self := { self with y := self.y - rhs.y }
  self
def V2.mulAssignElementWise [Mul α] (self rhs : V2 α) : V2 α :=
  let self := { self with x := self.x * rhs.x }
  let self := { self with y := self.y * rhs.y }
  self
def V2.divAssignElementWise [Div α] (self rhs : V2 α) : V2 α :=
  let self := { self with x := self.x / rhs.x }
  let self := { self with y := self.y / rhs.y }
  self
def V2.remAssignElementWise [FRem α] (self rhs : V2 α) : V2 α :=
  let self := { self with x := FRem.frem self.x rhs.x }
  let self := { self with y := FRem.frem self.y rhs.y }
  self
def V2.addAssignElementWiseS [Add α] (self : V2 α) (rhs : α) : V2 α :=
  let self := { self with x := self.x + rhs }
  let self := { self with y := self.y + rhs }
  self
def V2.subAssignElementWiseS [Sub α] (self : V2 α) (rhs : α) : V2 α :=
  let self := { self with x := self.x - rhs }
  let self := { self with y := self.y - rhs }
  self
def V2.mulAssignElementWiseS [Mul α] (self : V2 α) (rhs : α) : V2 α :=
  let self := { self with x := self.x * rhs }
  let self := { self with y := self.y * rhs }
  self
def V2.divAssignElementWiseS [Div α] (self : V2 α) (rhs : α) : V2 α :=
  let self := { self with x := self.x / rhs }
  let self := { self with y := self.y / rhs }
  self
def V2.remAssignElementWiseS [FRem α] (self : V2 α) (rhs : α) : V2 α :=
  let self := { self with x := FRem.frem self.x rhs }
  let self := { self with y := FRem.frem self.y rhs }
  self
def V3.addAssign [Add α] (self : V3 α) (other : V3 α) : V3 α :=
  let self := { self with x := self.x + other.x }
  let self := { self with y := self.y + other.y }
  let self := { self with z := self.z + other.z }
  self
def V3.subAssign [Sub α] (self : V3 α) (other : V3 α) : V3 α :=
  let self := { self with x := self.x - other.x }
  let self := { self with y := self.y - other.y }
  let self := { self with z := self.z - other.z }
  self
def V3.mulAssignS [Mul α] (self : V3 α) (scalar : α) : V3 α :=
  let self := { self with x := self.x * scalar }
  let self := { self with y := self.y * scalar }
  let self := { self with z := self.z * scalar }
  self
def V3.divAssignS [Div α] (self : V3 α) (scalar : α) : V3 α :=
  let self := { self with x := self.x / scalar }
  let self := { self with y := self.y / scalar }
  let self := { self with z := self.z / scalar }
  self
def V3.remAssignS [FRem α] (self : V3 α) (scalar : α) : V3 α :=
  let self := { self with x := FRem.frem self.x scalar }
  let self := { self with y := FRem.frem self.y scalar }
  let self := { self with z := FRem.frem self.z scalar }
  self
def V3.addAssignElementWise [Add α] (self rhs : V3 α) : V3 α :=
  let self := { self with x := self.x + rhs.x }
  let self := { self with y := self.y + rhs.y }
  let self := { self with z := self.z + rhs.z }
  self
def V3.subAssignElementWise [Sub α] (self rhs : V3 α) : V3 α :=
  let self := { self with x := self.x - rhs.x }
  let self := { self with y := self.y - rhs.y }
  let self := { self with z := self.z - rhs.z }
  self
def V3.mulAssignElementWise [Mul α] (self rhs : V3 α) : V3 α :=
  let self := { self with x := self.x * rhs.x }
  let self := { self with y := self.y * rhs.y }
  let self := { self with z := self.z * rhs.z }
  self
def V3.divAssignElementWise [Div α] (self rhs : V3 α) : V3 α :=
  let self := { self with x := self.x / rhs.x }
  let self := { self with y := self.y / rhs.y }
  let self := { self with z := self.z / rhs.z }
  self
def V3.remAssignElementWise [FRem α] (self rhs : V3 α) : V3 α :=
  let self := { self with x := FRem.frem self.x rhs.x }
  let self := { self with y := FRem.frem self.y rhs.y }
  let self := { self with z := FRem.frem self.z rhs.z }
  self
def V3.addAssignElementWiseS [Add α] (self : V3 α) (rhs : α) : V3 α :=
  let self := { self with x := self.x + rhs }
  let self := { self with y := self.y + rhs }
  let self := { self with z := self.z + rhs }
  self
def V3.subAssignElementWiseS [Sub α] (self : V3 α) (rhs : α) : V3 α :=
  let self := { self with x := self.x - rhs }
  let self := { self with y := self.y - rhs }
  let self := { self with z := self.z - rhs }
  self
def V3.mulAssignElementWiseS [Mul α] (self : V3 α) (rhs : α) : V3 α :=
  let self := { self with x := self.x * rhs }
  let self := { self with y := self.y * rhs }
  let self := { self with z := self.z * rhs }
  self
def V3.divAssignElementWiseS [Div α] (self : V3 α) (rhs : α) : V3 α :=
  let self := { self with x := self.x / rhs }
  let self := { self with y := self.y / rhs }
  let self := { self with z := self.z / rhs }
  self
def V3.remAssignElementWiseS [FRem α] (self : V3 α) (rhs : α) : V3 α :=
  let self := { self with x := FRem.frem self.x rhs }
  let self := { self with y := FRem.frem self.y rhs }
  let self := { self with z := FRem.frem self.z rhs }
  self
def V4.addAssign [Add α] (self : V4 α) (other : V4 α) : V4 α :=
  let self := { self with x := self.x + other.x }
  let self := { self with y := self.y + other.y }
  let self := { self with z := self.z + other.z }
  let self := { self with w := self.w + other.w }
  self
def V4.subAssign [Sub α] (self : V4 α) (other : V4 α) : V4 α :=
  let self := { self with x := self.x - other.x }
  let self := { self with y := self.y - other.y }
  let self := { self with z := self.z - other.z }
  let self := { self with w := self.w - other.w }
  self
def V4.mulAssignS [Mul α] (self : V4 α) (scalar : α) : V4 α :=
  let self := { self with x := self.x * scalar }
  let self := { self with y := self.y * scalar }
  let self := { self with z := self.z * scalar }
  let self := { self with w := self.w * scalar }
  self
def V4.divAssignS [Div α] (self : V4 α) (scalar : α) : V4 α :=
  let self := { self with x := self.x / scalar }
  let self := { self with y := self.y / scalar }
  let self := { self with z := self.z / scalar }
  let self := { self with w := self.w / scalar }
  self
def V4.remAssignS [FRem α] (self : V4 α) (scalar : α) : V4 α :=
  let self := { self with x := FRem.frem self.x scalar }
  let self := { self with y := FRem.frem self.y scalar }
  let self := { self with z := FRem.frem self.z scalar }
  let self := { self with w := FRem.frem self.w scalar }
  self
def V4.addAssignElementWise [Add α] (self rhs : V4 α) : V4 α :=
  let self := { self with x := self.x + rhs.x }
  let self := { self with y := self.y + rhs.y }
  let self := { self with z := self.z + rhs.z }
  let self := { self with w := self.w + rhs.w }
  self
def V4.subAssignElementWise [Sub α] (self rhs : V4 α) : V4 α :=
  let self := { self with x := self.x - rhs.x }
  let self := { self with y := self.y - rhs.y }
  let self := { self with z := self.z - rhs.z }
  let self := { self with w := self.w - rhs.w }
  self
def V4.mulAssignElementWise [Mul α] (self rhs : V4 α) : V4 α :=
  let self := { self with x := self.x * rhs.x }
  let self := { self with y := self.y * rhs.y }
  let self := { self with z := self.z * rhs.z }
  let self := { self with w := self.w * rhs.w }
  self
def V4.divAssignElementWise [Div α] (self rhs : V4 α) : V4 α :=
  let self := { self with x := self.x / rhs.x }
  let self := { self with y := self.y / rhs.y }
  let self := { self with z := self.z / rhs.z }
  let self := { self with w := self.w / rhs.w }
  self
def V4.remAssignElementWise [FRem α] (self rhs : V4 α) : V4 α :=
  let self := { self with x := FRem.frem self.x rhs.x }
  let self := { self with y := FRem.frem self.y rhs.y }
  let self := { self with z := FRem.frem self.z rhs.z }
  let self := { self with w := FRem.frem self.w rhs.w }
  self
def V4.addAssignElementWiseS [Add α] (self : V4 α) (rhs : α) : V4 α :=
  let self := { self with x := self.x + rhs }
  let self := { self with y := self.y + rhs }
  let self := { self with z := self.z + rhs }
  let self := { self with w := self.w + rhs }
  self
def V4.subAssignElementWiseS [Sub α] (self : V4 α) (rhs : α) : V4 α :=
  let self := { self with x := self.x - rhs }
  let self := { self with y := self.y - rhs }
  let self := { self with z := self.z - rhs }
  let self := { self with w := self.w - rhs }
  self
def V4.mulAssignElementWiseS [Mul α] (self : V4 α) (rhs : α) : V4 α :=
  let self := { self with x := self.x * rhs }
  let self := { self with y := self.y * rhs }
  let self := { self with z := self.z * rhs }
  let self := { self with w := self.w * rhs }
  self
def V4.divAssignElementWiseS [Div α] (self : V4 α) (rhs : α) : V4 α :=
  let self := { self with x := self.x / rhs }
  let self := { self with y := self.y / rhs }
  let self := { self with z := self.z / rhs }
  let self := { self with w := self.w / rhs }
  self
def V4.remAssignElementWiseS [FRem α] (self : V4 α) (rhs : α) : V4 α :=
  let self := { self with x := FRem.frem self.x rhs }
  let self := { self with y := FRem.frem self.y rhs }
  let self := { self with z := FRem.frem self.z rhs }
  let self := { self with w := FRem.frem self.w rhs }
  self
def P1.addAssignV [Add α] (self : P1 α) (other : V1 α) : P1 α :=
  let self := { self with x := self.x + other.x }
  self
def P1.subAssignV [Sub α] (self : P1 α) (other : V1 α) : P1 α :=
  let self := { self with x := self.x - other.x }
  self
def P1.mulAssignS [Mul α] (self : P1 α) (scalar : α) : P1 α :=
  let self := { self with x := self.x * scalar }
  self
def P1.divAssignS [Div α] (self : P1 α) (scalar : α) : P1 α :=
  let self := { self with x := self.x / scalar }
  self
def P1.remAssignS [FRem α] (self : P1 α) (scalar : α) : P1 α :=
  let self := { self with x := FRem.frem self.x scalar }
  self
def P1.addAssignElementWise [Add α] (self rhs : P1 α) : P1 α :=
  let self := { self with x := self.x + rhs.x }
  self
def P1.subAssignElementWise [Sub α] (self rhs : P1 α) : P1 α :=
  let self := { self with x := self.x - rhs.x }
  self
def P1.mulAssignElementWise [Mul α] (self rhs : P1 α) : P1 α :=
  let self := { self with x := self.x * rhs.x }
  self
def P1.divAssignElementWise [Div α] (self rhs : P1 α) : P1 α :=
  let self := { self with x := self.x / rhs.x }
  self
def P1.remAssignElementWise [FRem α] (self rhs : P1 α) : P1 α :=
  let self := { self with x := FRem.frem self.x rhs.x }
  self
def P1.addAssignElementWiseS [Add α] (self : P1 α) (rhs : α) : P1 α :=
  let self := { self with x := self.x + rhs }
  self
def P1.subAssignElementWiseS [Sub α] (self : P1 α) (rhs : α) : P1 α :=
  let self := { self with x := self.x - rhs }
  self
def P1.mulAssignElementWiseS [Mul α] (self : P1 α) (rhs : α) : P1 α :=
  let self := { self with x := self.x * rhs }
  self
def P1.divAssignElementWiseS [Div α] (self : P1 α) (rhs : α) : P1 α :=
  let self := { self with x := self.x / rhs }
  self
def P1.remAssignElementWiseS [FRem α] (self : P1 α) (rhs : α) : P1 α :=
  let self := { self with x := FRem.frem self.x rhs }
  self
def P2.addAssignV [Add α] (self : P2 α) (other : V2 α) : P2 α :=
  let self := { self with x := self.x + other.x }
  let self := { self with y := self.y + other.y }
  self
def P2.subAssignV [Sub α] (self : P2 α) (other : V2 α) : P2 α :=
  let self := { self with x := self.x - other.x }
  let self := { self with y := self.y - other.y }
  self
def P2.mulAssignS [Mul α] (self : P2 α) (scalar : α) : P2 α :=
  let self := { self with x := self.x * scalar }
  let self := { self with y := self.y * scalar }
  self
def P2.divAssignS [Div α] (self : P2 α) (scalar : α) : P2 α :=
  let self := { self with x := self.x / scalar }
  let self := { self with y := self.y / scalar }
  self
def P2.remAssignS [FRem α] (self : P2 α) (scalar : α) : P2 α :=
  let self := { self with x := FRem.frem self.x scalar }
  let self := { self with y := FRem.frem self.y scalar }
  self
def P2.addAssignElementWise [Add α] (self rhs : P2 α) : P2 α :=
  let self := { self with x := self.x + rhs.x }
  let self := { self with y := self.y + rhs.y }
  self
def P2.subAssignElementWise [Sub α] (self rhs : P2 α) : P2 α :=
  let self := { self with x := self.x - rhs.x }
  let self := { self with y := self.y - rhs.y }
  self
def P2.mulAssignElementWise [Mul α] (self rhs : P2 α) : P2 α :=
  let self := { self with x := self.x * rhs.x }
  let self := { self with y := self.y * rhs.y }
  self
def P2.divAssignElementWise [Div α] (self rhs : P2 α) : P2 α :=
  let self := { self with x := self.x / rhs.x }
  let self := { self with y := self.y / rhs.y }
  self
def P2.remAssignElementWise [FRem α] (self rhs : P2 α) : P2 α :=
  let self := { self with x := FRem.frem self.x rhs.x }
  let self := { self with y := FRem.frem self.y rhs.y }
  self
def P2.addAssignElementWiseS [Add α] (self : P2 α) (rhs : α) : P2 α :=
  let self := { self with x := self.x + rhs }
  let self := { self with y := self.y + rhs }
  self
def P2.subAssignElementWiseS [Sub α] (self : P2 α) (rhs : α) : P2 α :=
  let self := { self with x := self.x - rhs }
  let self := { self with y := self.y - rhs }
  self
def P2.mulAssignElementWiseS [Mul α] (self : P2 α) (rhs : α) : P2 α :=
  let self := { self with x := self.x * rhs }
  let self := { self with y := self.y * rhs }
  self
def P2.divAssignElementWiseS [Div α] (self : P2 α) (rhs : α) : P2 α :=
  let self := { self with x := self.x / rhs }
  let self := { self with y := self.y / rhs }
  self
def P2.remAssignElementWiseS [FRem α] (self : P2 α) (rhs : α) : P2 α :=
  let self := { self with x := FRem.frem self.x rhs }
  let self := { self with y := FRem.frem self.y rhs }
  self
def P3.addAssignV [Add α] (self : P3 α) (other : V3 α) : P3 α :=
  let self := { self with x := self.x + other.x }
  let self := { self with y := self.y + other.y }
  let self := { self with z := self.z + other.z }
  self
def P3.subAssignV [Sub α] (self : P3 α) (other : V3 α) : P3 α :=
  let self := { self with x := self.x - other.x }
  let self := { self with y := self.y - other.y }
  let self := { self with z := self.z - other.z }
  self
def P3.mulAssignS [Mul α] (self : P3 α) (scalar : α) : P3 α :=
  let self := { self with x := self.x * scalar }
  let self := { self with y := self.y * scalar }
  let self := { self with z := self.z * scalar }
  self
def P3.divAssignS [Div α] (self : P3 α) (scalar : α) : P3 α :=
  let self := { self with x := self.x / scalar }
  let self := { self with y := self.y / scalar }
  let self := { self with z := self.z / scalar }
  self
def P3.remAssignS [FRem α] (self : P3 α) (scalar : α) : P3 α :=
  let self := { self with x := FRem.frem self.x scalar }
  let self := { self with y := FRem.frem self.y scalar }
  let self := { self with z := FRem.frem self.z scalar }
  self
def P3.addAssignElementWise [Add α] (self rhs : P3 α) : P3 α :=
  let self := { self with x := self.x + rhs.x }
  let self := { self with y := self.y + rhs.y }
  let self := { self with z := self.z + rhs.z }
  self
def P3.subAssignElementWise [Sub α] (self rhs : P3 α) : P3 α :=
  let self := { self with x := self.x - rhs.x }
  let self := { self with y := self.y - rhs.y }
  let self := { self with z := self.z - rhs.z }
  self
def P3.mulAssignElementWise [Mul α] (self rhs : P3 α) : P3 α :=
  let self := { self with x := self.x * rhs.x }
  let self := { self with y := self.y * rhs.y }
  let self := { self with z := self.z * rhs.z }
  self
def P3.divAssignElementWise [Div α] (self rhs : P3 α) : P3 α :=
  let self := { self with x := self.x / rhs.x }
  let self := { self with y := self.y / rhs.y }
  let self := { self with z := self.z / rhs.z }
  self
def P3.remAssignElementWise [FRem α] (self rhs : P3 α) : P3 α :=
  let self := { self with x := FRem.frem self.x rhs.x }
  let self := { self with y := FRem.frem self.y rhs.y }
  let self := { self with z := FRem.frem self.z rhs.z }
  self
def P3.addAssignElementWiseS [Add α] (self : P3 α) (rhs : α) : P3 α :=
  let self := { self with x := self.x + rhs }
  let self := { self with y := self.y + rhs }
  let self := { self with z := self.z + rhs }
  self
def P3.subAssignElementWiseS [Sub α] (self : P3 α) (rhs : α) : P3 α :=
  let self := { self with x := self.x - rhs }
  let self := { self with y := self.y - rhs }
  let self := { self with z := self.z - rhs }
  self
def P3.mulAssignElementWiseS [Mul α] (self : P3 α) (rhs : α) : P3 α :=
  let self := { self with x := self.x * rhs }
  let self := { self with y := self.y * rhs }
  let self := { self with z := self.z * rhs }
  self
def P3.divAssignElementWiseS [Div α] (self : P3 α) (rhs : α) : P3 α :=
  let self := { self with x := self.x / rhs }
  let self := { self with y := self.y / rhs }
  let self := { self with z := self.z / rhs }
  self
def P3.remAssignElementWiseS [FRem α] (self : P3 α) (rhs : α) : P3 α :=
  let self := { self with x := FRem.frem self.x rhs }
  let self := { self with y := FRem.frem self.y rhs }
  let self := { self with z := FRem.frem self.z rhs }
  self

/-! ## matrices: one statement per column, each the column vector's compound assignment -/
def M2.addAssign [Add α] (self other : M2 α) : M2 α :=
  let self := { self with x := V2.addAssign self.x other.x }
  let self := { self with y := V2.addAssign self.y other.y }
  self
def M2.subAssign [Sub α] (self other : M2 α) : M2 α :=
  let self := { self with x := V2.subAssign self.x other.x }
  let self := { self with y := V2.subAssign self.y other.y }
  self
def M2.mulAssignS [Mul α] (self : M2 α) (scalar : α) : M2 α :=
  let self := { self with x := V2.mulAssignS self.x scalar }
  let self := { self with y := V2.mulAssignS self.y scalar }
  self
def M2.divAssignS [Div α] (self : M2 α) (scalar : α) : M2 α :=
  let self := { self with x := V2.divAssignS self.x scalar }
  let self := { self with y := V2.divAssignS self.y scalar }
  self
def M2.remAssignS [FRem α] (self : M2 α) (scalar : α) : M2 α :=
  let self := { self with x := V2.remAssignS self.x scalar }
  let self := { self with y := V2.remAssignS self.y scalar }
  self
def M3.addAssign [Add α] (self other : M3 α) : M3 α :=
  let self := { self with x := V3.addAssign self.x other.x }
  let self := { self with y := V3.addAssign self.y other.y }
  let self := { self with z := V3.addAssign self.z other.z }
  self
def M3.subAssign [Sub α] (self other : M3 α) : M3 α :=
  let self := { self with x := V3.subAssign self.x other.x }
  let self := { self with y := V3.subAssign self.y other.y }
  let self := { self with z := V3.subAssign self.z other.z }
  self
def M3.mulAssignS [Mul α] (self : M3 α) (scalar : α) : M3 α :=
  let self := { self with x := V3.mulAssignS self.x scalar }
  let self := { self with y := V3.mulAssignS self.y scalar }
  let self := { self with z := V3.mulAssignS self.z scalar }
  self
def M3.divAssignS [Div α] (self : M3 α) (scalar : α) : M3 α :=
  let self := { self with x := V3.divAssignS self.x scalar }
  let self := { self with y := V3.divAssignS self.y scalar }
  let self := { self with z := V3.divAssignS self.z scalar }
  self
def M3.remAssignS [FRem α] (self : M3 α) (scalar : α) : M3 α :=
  let self := { self with x := V3.remAssignS self.x scalar }
  let self := { self with y := V3.remAssignS self.y scalar }
  let self := { self with z := V3.remAssignS self.z scalar }
  self
def M4.addAssign [Add α] (self other : M4 α) : M4 α :=
  let self := { self with x := V4.addAssign self.x other.x }
  let self := { self with y := V4.addAssign self.y other.y }
  let self := { self with z := V4.addAssign self.z other.z }
  let self := { self with w := V4.addAssign self.w other.w }
  self
def M4.subAssign [Sub α] (self other : M4 α) : M4 α :=
  let self := { self with x := V4.subAssign self.x other.x }
  let self := { self with y := V4.subAssign self.y other.y }
  let self := { self with z := V4.subAssign self.z other.z }
  let self := { self with w := V4.subAssign self.w other.w }
  self
def M4.mulAssignS [Mul α] (self : M4 α) (scalar : α) : M4 α :=
  let self := { self with x := V4.mulAssignS self.x scalar }
  let self := { self with y := V4.mulAssignS self.y scalar }
  let self := { self with z := V4.mulAssignS self.z scalar }
  let self := { self with w := V4.mulAssignS self.w scalar }
  self
def M4.divAssignS [Div α] (self : M4 α) (scalar : α) : M4 α :=
  let self := { self with x := V4.divAssignS self.x scalar }
  let self := { self with y := V4.divAssignS self.y scalar }
  let self := { self with z := V4.divAssignS self.z scalar }
  let self := { self with w := V4.divAssignS self.w scalar }
  self
def M4.remAssignS [FRem α] (self : M4 α) (scalar : α) : M4 α :=
  let self := { self with x := V4.remAssignS self.x scalar }
  let self := { self with y := V4.remAssignS self.y scalar }
  let self := { self with z := V4.remAssignS self.z scalar }
  let self := { self with w := V4.remAssignS self.w scalar }
  self

/-! ## quaternion: `self.s op= ..; self.v op= ..;` -/
def Quat.addAssign [Add α] (self other : Quat α) : Quat α :=
  let self := { self with s := self.s + other.s }
  let self := { self with v := V3.addAssign self.v other.v }
  self
def Quat.subAssign [Sub α] (self other : Quat α) : Quat α :=
  let self := { self with s := self.s - other.s }
  let self := { self with v := V3.subAssign self.v other.v }
  self
def Quat.mulAssignS [Mul α] (self : Quat α) (scalar : α) : Quat α :=
  let self := { self with s := self.s * scalar }
  let self := { self with v := V3.mulAssignS self.v scalar }
  self
def Quat.divAssignS [Div α] (self : Quat α) (scalar : α) : Quat α :=
  let self := { self with s := self.s / scalar }
  let self := { self with v := V3.divAssignS self.v scalar }
  self
def Quat.remAssignS [FRem α] (self : Quat α) (scalar : α) : Quat α :=
  let self := { self with s := FRem.frem self.s scalar }
  let self := { self with v := V3.remAssignS self.v scalar }
  self

/-! ## angles: `Rad<S>(pub S)`, `Deg<S>(pub S)` are their underlying number in the model

The operator impls of `impl_angle!` (src/angle.rs:84-173), written out on the underlying number
(`$Angle(lhs.0 + rhs.0)` ...).  Both units share the macro, hence one set of definitions. -/
section angle_ops
/-- `Add<$Angle> for $Angle`: `$Angle(lhs.0 + rhs.0)` -/
def Angle.add [Add α] (lhs rhs : α) : α := lhs + rhs
/-- `Sub`: `$Angle(lhs.0 - rhs.0)` -/
def Angle.sub [Sub α] (lhs rhs : α) : α := lhs - rhs
/-- `Neg` (by value and for `&'a $Angle`): `$Angle(-self.0)` -/
def Angle.neg [Neg α] (self : α) : α := -self
/-- `Mul<S>`: `$Angle(lhs.0 * scalar)` -/
def Angle.mulS [Mul α] (lhs scalar : α) : α := lhs * scalar
/-- `Div<S>`: `$Angle(lhs.0 / scalar)` -/
def Angle.divS [Div α] (lhs scalar : α) : α := lhs / scalar
/-- `Div<$Angle> for $Angle` (the result is the unitless scalar): `lhs.0 / rhs.0` -/
def Angle.divA [Div α] (lhs rhs : α) : α := lhs / rhs
/-- `Rem<$Angle>`: `$Angle(lhs.0 % rhs.0)` -/
def Angle.rem [FRem α] (lhs rhs : α) : α := FRem.frem lhs rhs
/-- `Zero::zero()`: `$Angle(S::zero())` -/
def Angle.zero [OfNat α 0] : α := 0
/-- `iter::Sum<$Angle>`: `iter.fold($Angle::zero(), Add::add)` -/
def Angle.sum [Add α] [OfNat α 0] (l : List α) : α := l.foldl Angle.add Angle.zero
/-- the two units -/
abbrev Rad.sumList [Add α] [OfNat α 0] (l : List α) : α := Angle.sum l
abbrev Deg.sumList [Add α] [OfNat α 0] (l : List α) : α := Angle.sum l

/-- compound assignments: `self.0 += other.0;` ... (src/angle.rs:153-173) -/
def Angle.addAssign [Add α] (self other : α) : α := let self := self + other; self
def Angle.subAssign [Sub α] (self other : α) : α := let self := self - other; self
def Angle.remAssign [FRem α] (self other : α) : α := let self := FRem.frem self other; self
def Angle.mulAssignS [Mul α] (self scalar : α) : α := let self := self * scalar; self
def Angle.divAssignS [Div α] (self scalar : α) : α := let self := self / scalar; self

/-- `Angle::sin_cos` for `Rad`: `Rad::from(self).0.sin_cos()` (the scalar's `sin_cos` is the pair
of its `sin` and `cos`) -/
def Rad.sinCos [Transc α] (a : α) : α × α := (Transc.sin a, Transc.cos a)
/-- `Angle::sin_cos` for `Deg`: converts to radians first -/
def Deg.sinCos [Mul α] [Transc α] [Lits α] (a : α) : α × α := Rad.sinCos (degToRad a)

/-- `turn_div_k()` of the two units (`full_turn() / cast(k)`, src/structure.rs:665-690) -/
def Rad.turnDiv [Div α] [NatCast α] [Lits α] (k : Nat) : α := Angle.turnDiv (Lits.radFull : α) k
def Deg.turnDiv [Div α] [NatCast α] (k : Nat) : α := Angle.turnDiv (degFull : α) k
end angle_ops

/-! ## `Sum` / `Product` over an iterator of REFERENCES

`impl<'a> iter::Sum<&'a T> for T` is a separate impl (`iter.fold(T::zero(), Add::add)` with
`Add<&'a T> for T`).  A reference is modelled as a handle `ρ` that is read through `deref`
at each step of the fold. -/
def foldRefs {ρ τ : Type} (deref : ρ → τ) (op : τ → τ → τ) (init : τ) (it : List ρ) : τ :=
  it.foldl (fun acc r => op acc (deref r)) init

section ref_folds
variable {ρ : Type}
def V1.sumRefs [Add α] [OfNat α 0] (deref : ρ → V1 α) (it : List ρ) : V1 α := foldRefs deref (· + ·) V1.zero it
def V2.sumRefs [Add α] [OfNat α 0] (deref : ρ → V2 α) (it : List ρ) : V2 α := foldRefs deref (· + ·) V2.zero it
def V3.sumRefs [Add α] [OfNat α 0] (deref : ρ → V3 α) (it : List ρ) : V3 α := foldRefs deref (· + ·) V3.zero it
def V4.sumRefs [Add α] [OfNat α 0] (deref : ρ → V4 α) (it : List ρ) : V4 α := foldRefs deref (· + ·) V4.zero it
def M2.sumRefs [Add α] [OfNat α 0] (deref : ρ → M2 α) (it : List ρ) : M2 α := foldRefs deref (· + ·) M2.zero it
def M3.sumRefs [Add α] [OfNat α 0] (deref : ρ → M3 α) (it : List ρ) : M3 α := foldRefs deref (· + ·) M3.zero it
def M4.sumRefs [Add α] [OfNat α 0] (deref : ρ → M4 α) (it : List ρ) : M4 α := foldRefs deref (· + ·) M4.zero it
def Quat.sumRefs [Add α] [OfNat α 0] (deref : ρ → Quat α) (it : List ρ) : Quat α :=
  foldRefs deref (· + ·) Quat.zero it
def Angle.sumRefs [Add α] [OfNat α 0] (deref : ρ → α) (it : List ρ) : α := foldRefs deref Angle.add Angle.zero it
def M2.productRefs [Add α] [Mul α] [OfNat α 0] [OfNat α 1] (deref : ρ → M2 α) (it : List ρ) : M2 α :=
  foldRefs deref (· * ·) M2.one it
def M3.productRefs [Add α] [Mul α] [OfNat α 0] [OfNat α 1] (deref : ρ → M3 α) (it : List ρ) : M3 α :=
  foldRefs deref (· * ·) M3.one it
def M4.productRefs [Add α] [Mul α] [OfNat α 0] [OfNat α 1] (deref : ρ → M4 α) (it : List ρ) : M4 α :=
  foldRefs deref (· * ·) M4.one it
def Quat.productRefs [Add α] [Sub α] [Mul α] [OfNat α 0] [OfNat α 1] (deref : ρ → Quat α) (it : List ρ) :
    Quat α := foldRefs deref (· * ·) Quat.one it
def Basis2.productRefs [Add α] [Mul α] [OfNat α 0] [OfNat α 1] (deref : ρ → Basis2 α) (it : List ρ) :
    Basis2 α := foldRefs deref Basis2.mul Basis2.one it
def Basis3.productRefs [Add α] [Mul α] [OfNat α 0] [OfNat α 1] (deref : ρ → Basis3 α) (it : List ρ) :
    Basis3 α := foldRefs deref Basis3.mul Basis3.one it
end ref_folds

/-! ## the operator table

All values of the library's operator-bearing types in one sum type, the five binary operator
symbols, and the table of the `impl`s: which pairs of operand types have the operator, and what it
computes (inventory: /verif/inventory/ops_impls.txt, 112 operand-type pairs + 65 assignment impls). -/

/-- the operator-bearing types -/
inductive OTy where
  | v1 | v2 | v3 | v4 | p1 | p2 | p3 | m2 | m3 | m4 | q | rad | deg | basis2 | basis3 | scalar
  deriving DecidableEq, Repr

/-- a value of one of those types -/
inductive OVal (α : Type) where
  | v1 (v : V1 α) | v2 (v : V2 α) | v3 (v : V3 α) | v4 (v : V4 α)
  | p1 (p : P1 α) | p2 (p : P2 α) | p3 (p : P3 α)
  | m2 (m : M2 α) | m3 (m : M3 α) | m4 (m : M4 α)
  | q (q : Quat α)
  | rad (a : α) | deg (a : α)
  | basis2 (b : Basis2 α) | basis3 (b : Basis3 α)
  | scalar (s : α)
  deriving DecidableEq, Repr

def OVal.ty : OVal α → OTy
  | .v1 _ => .v1 | .v2 _ => .v2 | .v3 _ => .v3 | .v4 _ => .v4
  | .p1 _ => .p1 | .p2 _ => .p2 | .p3 _ => .p3
  | .m2 _ => .m2 | .m3 _ => .m3 | .m4 _ => .m4
  | .q _ => .q | .rad _ => .rad | .deg _ => .deg
  | .basis2 _ => .basis2 | .basis3 _ => .basis3 | .scalar _ => .scalar

/-- the binary operator symbols `+ - * / %` -/
inductive BinOp where
  | add | sub | mul | div | rem
  deriving DecidableEq, Repr

/-- typing of the operators: `opTy op l r = some t` iff `impl Op<r> for l` exists, with `Output = t` -/
def opTy : BinOp → OTy → OTy → Option OTy
  -- Add: Vector+Vector, Point+Vector, Matrix+Matrix, Quaternion+Quaternion, Angle+Angle
  | .add, .v1, .v1 => some .v1 | .add, .v2, .v2 => some .v2 | .add, .v3, .v3 => some .v3
  | .add, .v4, .v4 => some .v4
  | .add, .p1, .v1 => some .p1 | .add, .p2, .v2 => some .p2 | .add, .p3, .v3 => some .p3
  | .add, .m2, .m2 => some .m2 | .add, .m3, .m3 => some .m3 | .add, .m4, .m4 => some .m4
  | .add, .q, .q => some .q | .add, .rad, .rad => some .rad | .add, .deg, .deg => some .deg
  -- Sub: the same pairs, and Point-Point = Vector
  | .sub, .v1, .v1 => some .v1 | .sub, .v2, .v2 => some .v2 | .sub, .v3, .v3 => some .v3
  | .sub, .v4, .v4 => some .v4
  | .sub, .p1, .v1 => some .p1 | .sub, .p2, .v2 => some .p2 | .sub, .p3, .v3 => some .p3
  | .sub, .p1, .p1 => some .v1 | .sub, .p2, .p2 => some .v2 | .sub, .p3, .p3 => some .v3
  | .sub, .m2, .m2 => some .m2 | .sub, .m3, .m3 => some .m3 | .sub, .m4, .m4 => some .m4
  | .sub, .q, .q => some .q | .sub, .rad, .rad => some .rad | .sub, .deg, .deg => some .deg
  -- Mul: X*S
  | .mul, .v1, .scalar => some .v1 | .mul, .v2, .scalar => some .v2 | .mul, .v3, .scalar => some .v3
  | .mul, .v4, .scalar => some .v4
  | .mul, .p1, .scalar => some .p1 | .mul, .p2, .scalar => some .p2 | .mul, .p3, .scalar => some .p3
  | .mul, .m2, .scalar => some .m2 | .mul, .m3, .scalar => some .m3 | .mul, .m4, .scalar => some .m4
  | .mul, .q, .scalar => some .q | .mul, .rad, .scalar => some .rad | .mul, .deg, .scalar => some .deg
  -- Mul: Matrix*Matrix, Matrix*Vector, Quaternion*Quaternion, Quaternion*Vector3, Basis*Basis
  | .mul, .m2, .m2 => some .m2 | .mul, .m3, .m3 => some .m3 | .mul, .m4, .m4 => some .m4
  | .mul, .m2, .v2 => some .v2 | .mul, .m3, .v3 => some .v3 | .mul, .m4, .v4 => some .v4
  | .mul, .q, .q => some .q | .mul, .q, .v3 => some .v3
  | .mul, .basis2, .basis2 => some .basis2 | .mul, .basis3, .basis3 => some .basis3
  -- Mul: S*X (`impl_scalar_ops!`, `impl_scalar_mul!`)
  | .mul, .scalar, .v1 => some .v1 | .mul, .scalar, .v2 => some .v2 | .mul, .scalar, .v3 => some .v3
  | .mul, .scalar, .v4 => some .v4
  | .mul, .scalar, .p1 => some .p1 | .mul, .scalar, .p2 => some .p2 | .mul, .scalar, .p3 => some .p3
  | .mul, .scalar, .m2 => some .m2 | .mul, .scalar, .m3 => some .m3 | .mul, .scalar, .m4 => some .m4
  | .mul, .scalar, .q => some .q
  -- Div: X/S, Angle/Angle = S, S/X
  | .div, .v1, .scalar => some .v1 | .div, .v2, .scalar => some .v2 | .div, .v3, .scalar => some .v3
  | .div, .v4, .scalar => some .v4
  | .div, .p1, .scalar => some .p1 | .div, .p2, .scalar => some .p2 | .div, .p3, .scalar => some .p3
  | .div, .m2, .scalar => some .m2 | .div, .m3, .scalar => some .m3 | .div, .m4, .scalar => some .m4
  | .div, .q, .scalar => some .q | .div, .rad, .scalar => some .rad | .div, .deg, .scalar => some .deg
  | .div, .rad, .rad => some .scalar | .div, .deg, .deg => some .scalar
  | .div, .scalar, .v1 => some .v1 | .div, .scalar, .v2 => some .v2 | .div, .scalar, .v3 => some .v3
  | .div, .scalar, .v4 => some .v4
  | .div, .scalar, .p1 => some .p1 | .div, .scalar, .p2 => some .p2 | .div, .scalar, .p3 => some .p3
  | .div, .scalar, .m2 => some .m2 | .div, .scalar, .m3 => some .m3 | .div, .scalar, .m4 => some .m4
  | .div, .scalar, .q => some .q
  -- Rem: X%S (no angle%S), Angle%Angle, S%X (no S%Quaternion)
  | .rem, .v1, .scalar => some .v1 | .rem, .v2, .scalar => some .v2 | .rem, .v3, .scalar => some .v3
  | .rem, .v4, .scalar => some .v4
  | .rem, .p1, .scalar => some .p1 | .rem, .p2, .scalar => some .p2 | .rem, .p3, .scalar => some .p3
  | .rem, .m2, .scalar => some .m2 | .rem, .m3, .scalar => some .m3 | .rem, .m4, .scalar => some .m4
  | .rem, .q, .scalar => some .q
  | .rem, .rad, .rad => some .rad | .rem, .deg, .deg => some .deg
  | .rem, .scalar, .v1 => some .v1 | .rem, .scalar, .v2 => some .v2 | .rem, .scalar, .v3 => some .v3
  | .rem, .scalar, .v4 => some .v4
  | .rem, .scalar, .p1 => some .p1 | .rem, .scalar, .p2 => some .p2 | .rem, .scalar, .p3 => some .p3
  | .rem, .scalar, .m2 => some .m2 | .rem, .scalar, .m3 => some .m3 | .rem, .scalar, .m4 => some .m4
  | _, _, _ => none

/-- which `impl OpAssign<r> for l` exist (13 for each of the five symbols) -/
def assignTy : BinOp → OTy → OTy → Bool
  | .add, .v1, .v1 | .add, .v2, .v2 | .add, .v3, .v3 | .add, .v4, .v4
  | .add, .p1, .v1 | .add, .p2, .v2 | .add, .p3, .v3
  | .add, .m2, .m2 | .add, .m3, .m3 | .add, .m4, .m4 | .add, .q, .q
  | .add, .rad, .rad | .add, .deg, .deg => true
  | .sub, .v1, .v1 | .sub, .v2, .v2 | .sub, .v3, .v3 | .sub, .v4, .v4
  | .sub, .p1, .v1 | .sub, .p2, .v2 | .sub, .p3, .v3
  | .sub, .m2, .m2 | .sub, .m3, .m3 | .sub, .m4, .m4 | .sub, .q, .q
  | .sub, .rad, .rad | .sub, .deg, .deg => true
  | .mul, .v1, .scalar | .mul, .v2, .scalar | .mul, .v3, .scalar | .mul, .v4, .scalar
  | .mul, .p1, .scalar | .mul, .p2, .scalar | .mul, .p3, .scalar
  | .mul, .m2, .scalar | .mul, .m3, .scalar | .mul, .m4, .scalar | .mul, .q, .scalar
  | .mul, .rad, .scalar | .mul, .deg, .scalar => true
  | .div, .v1, .scalar | .div, .v2, .scalar | .div, .v3, .scalar | .div, .v4, .scalar
  | .div, .p1, .scalar | .div, .p2, .scalar | .div, .p3, .scalar
  | .div, .m2, .scalar | .div, .m3, .scalar | .div, .m4, .scalar | .div, .q, .scalar
  | .div, .rad, .scalar | .div, .deg, .scalar => true
  | .rem, .v1, .scalar | .rem, .v2, .scalar | .rem, .v3, .scalar | .rem, .v4, .scalar
  | .rem, .p1, .scalar | .rem, .p2, .scalar | .rem, .p3, .scalar
  | .rem, .m2, .scalar | .rem, .m3, .scalar | .rem, .m4, .scalar | .rem, .q, .scalar
  | .rem, .rad, .rad | .rem, .deg, .deg => true
  | _, _, _ => false

section table
variable [Add α] [Sub α] [Mul α] [Div α] [Neg α] [FRem α] [NatCast α]

/-- `+` -/
def evalAdd : OVal α → OVal α → Option (OVal α)
  | .v1 a, .v1 b => some (.v1 (a + b)) | .v2 a, .v2 b => some (.v2 (a + b))
  | .v3 a, .v3 b => some (.v3 (a + b)) | .v4 a, .v4 b => some (.v4 (a + b))
  | .p1 a, .v1 b => some (.p1 (a + b)) | .p2 a, .v2 b => some (.p2 (a + b))
  | .p3 a, .v3 b => some (.p3 (a + b))
  | .m2 a, .m2 b => some (.m2 (a + b)) | .m3 a, .m3 b => some (.m3 (a + b))
  | .m4 a, .m4 b => some (.m4 (a + b))
  | .q a, .q b => some (.q (a + b))
  | .rad a, .rad b => some (.rad (Angle.add a b)) | .deg a, .deg b => some (.deg (Angle.add a b))
  | _, _ => none
/-- `-` -/
def evalSub : OVal α → OVal α → Option (OVal α)
  | .v1 a, .v1 b => some (.v1 (a - b)) | .v2 a, .v2 b => some (.v2 (a - b))
  | .v3 a, .v3 b => some (.v3 (a - b)) | .v4 a, .v4 b => some (.v4 (a - b))
  | .p1 a, .v1 b => some (.p1 (a - b)) | .p2 a, .v2 b => some (.p2 (a - b))
  | .p3 a, .v3 b => some (.p3 (a - b))
  | .p1 a, .p1 b => some (.v1 (a - b)) | .p2 a, .p2 b => some (.v2 (a - b))
  | .p3 a, .p3 b => some (.v3 (a - b))
  | .m2 a, .m2 b => some (.m2 (a - b)) | .m3 a, .m3 b => some (.m3 (a - b))
  | .m4 a, .m4 b => some (.m4 (a - b))
  | .q a, .q b => some (.q (a - b))
  | .rad a, .rad b => some (.rad (Angle.sub a b)) | .deg a, .deg b => some (.deg (Angle.sub a b))
  | _, _ => none
/-- `*` -/
def evalMul : OVal α → OVal α → Option (OVal α)
  | .v1 a, .scalar s => some (.v1 (a * s)) | .v2 a, .scalar s => some (.v2 (a * s))
  | .v3 a, .scalar s => some (.v3 (a * s)) | .v4 a, .scalar s => some (.v4 (a * s))
  | .p1 a, .scalar s => some (.p1 (a * s)) | .p2 a, .scalar s => some (.p2 (a * s))
  | .p3 a, .scalar s => some (.p3 (a * s))
  | .m2 a, .scalar s => some (.m2 (a * s)) | .m3 a, .scalar s => some (.m3 (a * s))
  | .m4 a, .scalar s => some (.m4 (a * s))
  | .q a, .scalar s => some (.q (a * s))
  | .rad a, .scalar s => some (.rad (Angle.mulS a s)) | .deg a, .scalar s => some (.deg (Angle.mulS a s))
  | .m2 a, .m2 b => some (.m2 (a * b)) | .m3 a, .m3 b => some (.m3 (a * b))
  | .m4 a, .m4 b => some (.m4 (a * b))
  | .m2 a, .v2 b => some (.v2 (a * b)) | .m3 a, .v3 b => some (.v3 (a * b))
  | .m4 a, .v4 b => some (.v4 (a * b))
  | .q a, .q b => some (.q (a * b)) | .q a, .v3 b => some (.v3 (a * b))
  | .basis2 a, .basis2 b => some (.basis2 (Basis2.mul a b))
  | .basis3 a, .basis3 b => some (.basis3 (Basis3.mul a b))
  | .scalar s, .v1 a => some (.v1 (s * a)) | .scalar s, .v2 a => some (.v2 (s * a))
  | .scalar s, .v3 a => some (.v3 (s * a)) | .scalar s, .v4 a => some (.v4 (s * a))
  | .scalar s, .p1 a => some (.p1 (s * a)) | .scalar s, .p2 a => some (.p2 (s * a))
  | .scalar s, .p3 a => some (.p3 (s * a))
  | .scalar s, .m2 a => some (.m2 (s * a)) | .scalar s, .m3 a => some (.m3 (s * a))
  | .scalar s, .m4 a => some (.m4 (s * a))
  | .scalar s, .q a => some (.q (s * a))
  | _, _ => none
/-- `/` -/
def evalDiv : OVal α → OVal α → Option (OVal α)
  | .v1 a, .scalar s => some (.v1 (a / s)) | .v2 a, .scalar s => some (.v2 (a / s))
  | .v3 a, .scalar s => some (.v3 (a / s)) | .v4 a, .scalar s => some (.v4 (a / s))
  | .p1 a, .scalar s => some (.p1 (a / s)) | .p2 a, .scalar s => some (.p2 (a / s))
  | .p3 a, .scalar s => some (.p3 (a / s))
  | .m2 a, .scalar s => some (.m2 (a / s)) | .m3 a, .scalar s => some (.m3 (a / s))
  | .m4 a, .scalar s => some (.m4 (a / s))
  | .q a, .scalar s => some (.q (a / s))
  | .rad a, .scalar s => some (.rad (Angle.divS a s)) | .deg a, .scalar s => some (.deg (Angle.divS a s))
  | .rad a, .rad b => some (.scalar (Angle.divA a b)) | .deg a, .deg b => some (.scalar (Angle.divA a b))
  | .scalar s, .v1 a => some (.v1 (s / a)) | .scalar s, .v2 a => some (.v2 (s / a))
  | .scalar s, .v3 a => some (.v3 (s / a)) | .scalar s, .v4 a => some (.v4 (s / a))
  | .scalar s, .p1 a => some (.p1 (s / a)) | .scalar s, .p2 a => some (.p2 (s / a))
  | .scalar s, .p3 a => some (.p3 (s / a))
  | .scalar s, .m2 a => some (.m2 (s / a)) | .scalar s, .m3 a => some (.m3 (s / a))
  | .scalar s, .m4 a => some (.m4 (s / a))
  | .scalar s, .q a => some (.q (s / a))
  | _, _ => none
/-- `%` -/
def evalRem : OVal α → OVal α → Option (OVal α)
  | .v1 a, .scalar s => some (.v1 (a.rem s)) | .v2 a, .scalar s => some (.v2 (a.rem s))
  | .v3 a, .scalar s => some (.v3 (a.rem s)) | .v4 a, .scalar s => some (.v4 (a.rem s))
  | .p1 a, .scalar s => some (.p1 (a.rem s)) | .p2 a, .scalar s => some (.p2 (a.rem s))
  | .p3 a, .scalar s => some (.p3 (a.rem s))
  | .m2 a, .scalar s => some (.m2 (a.rem s)) | .m3 a, .scalar s => some (.m3 (a.rem s))
  | .m4 a, .scalar s => some (.m4 (a.rem s))
  | .q a, .scalar s => some (.q (a.rem s))
  | .rad a, .rad b => some (.rad (Angle.rem a b)) | .deg a, .deg b => some (.deg (Angle.rem a b))
  | .scalar s, .v1 a => some (.v1 (V1.srem s a)) | .scalar s, .v2 a => some (.v2 (V2.srem s a))
  | .scalar s, .v3 a => some (.v3 (V3.srem s a)) | .scalar s, .v4 a => some (.v4 (V4.srem s a))
  | .scalar s, .p1 a => some (.p1 (P1.srem s a)) | .scalar s, .p2 a => some (.p2 (P2.srem s a))
  | .scalar s, .p3 a => some (.p3 (P3.srem s a))
  | .scalar s, .m2 a => some (.m2 (M2.srem s a)) | .scalar s, .m3 a => some (.m3 (M3.srem s a))
  | .scalar s, .m4 a => some (.m4 (M4.srem s a))
  | _, _ => none

/-- the by-value operator `l op r` (`none`: no such impl) -/
def evalOp : BinOp → OVal α → OVal α → Option (OVal α)
  | .add => evalAdd | .sub => evalSub | .mul => evalMul | .div => evalDiv | .rem => evalRem

/-- the compound assignment `l op= r`, through the assignment code of this file; the value is
the new content of `l` -/
def evalAssign : BinOp → OVal α → OVal α → Option (OVal α)
  | .add, .v1 a, .v1 b => some (.v1 (a.addAssign b)) | .add, .v2 a, .v2 b => some (.v2 (a.addAssign b))
  | .add, .v3 a, .v3 b => some (.v3 (a.addAssign b)) | .add, .v4 a, .v4 b => some (.v4 (a.addAssign b))
  | .add, .p1 a, .v1 b => some (.p1 (a.addAssignV b)) | .add, .p2 a, .v2 b => some (.p2 (a.addAssignV b))
  | .add, .p3 a, .v3 b => some (.p3 (a.addAssignV b))
  | .add, .m2 a, .m2 b => some (.m2 (a.addAssign b)) | .add, .m3 a, .m3 b => some (.m3 (a.addAssign b))
  | .add, .m4 a, .m4 b => some (.m4 (a.addAssign b))
  | .add, .q a, .q b => some (.q (a.addAssign b))
  | .add, .rad a, .rad b => some (.rad (Angle.addAssign a b))
  | .add, .deg a, .deg b => some (.deg (Angle.addAssign a b))
  | .sub, .v1 a, .v1 b => some (.v1 (a.subAssign b)) | .sub, .v2 a, .v2 b => some (.v2 (a.subAssign b))
  | .sub, .v3 a, .v3 b => some (.v3 (a.subAssign b)) | .sub, .v4 a, .v4 b => some (.v4 (a.subAssign b))
  | .sub, .p1 a, .v1 b => some (.p1 (a.subAssignV b)) | .sub, .p2 a, .v2 b => some (.p2 (a.subAssignV b))
  | .sub, .p3 a, .v3 b => some (.p3 (a.subAssignV b))
  | .sub, .m2 a, .m2 b => some (.m2 (a.subAssign b)) | .sub, .m3 a, .m3 b => some (.m3 (a.subAssign b))
  | .sub, .m4 a, .m4 b => some (.m4 (a.subAssign b))
  | .sub, .q a, .q b => some (.q (a.subAssign b))
  | .sub, .rad a, .rad b => some (.rad (Angle.subAssign a b))
  | .sub, .deg a, .deg b => some (.deg (Angle.subAssign a b))
  | .mul, .v1 a, .scalar s => some (.v1 (a.mulAssignS s)) | .mul, .v2 a, .scalar s => some (.v2 (a.mulAssignS s))
  | .mul, .v3 a, .scalar s => some (.v3 (a.mulAssignS s)) | .mul, .v4 a, .scalar s => some (.v4 (a.mulAssignS s))
  | .mul, .p1 a, .scalar s => some (.p1 (a.mulAssignS s)) | .mul, .p2 a, .scalar s => some (.p2 (a.mulAssignS s))
  | .mul, .p3 a, .scalar s => some (.p3 (a.mulAssignS s))
  | .mul, .m2 a, .scalar s => some (.m2 (a.mulAssignS s)) | .mul, .m3 a, .scalar s => some (.m3 (a.mulAssignS s))
  | .mul, .m4 a, .scalar s => some (.m4 (a.mulAssignS s))
  | .mul, .q a, .scalar s => some (.q (a.mulAssignS s))
  | .mul, .rad a, .scalar s => some (.rad (Angle.mulAssignS a s))
  | .mul, .deg a, .scalar s => some (.deg (Angle.mulAssignS a s))
  | .div, .v1 a, .scalar s => some (.v1 (a.divAssignS s)) | .div, .v2 a, .scalar s => some (.v2 (a.divAssignS s))
  | .div, .v3 a, .scalar s => some (.v3 (a.divAssignS s)) | .div, .v4 a, .scalar s => some (.v4 (a.divAssignS s))
  | .div, .p1 a, .scalar s => some (.p1 (a.divAssignS s)) | .div, .p2 a, .scalar s => some (.p2 (a.divAssignS s))
  | .div, .p3 a, .scalar s => some (.p3 (a.divAssignS s))
  | .div, .m2 a, .scalar s => some (.m2 (a.divAssignS s)) | .div, .m3 a, .scalar s => some (.m3 (a.divAssignS s))
  | .div, .m4 a, .scalar s => some (.m4 (a.divAssignS s))
  | .div, .q a, .scalar s => some (.q (a.divAssignS s))
  | .div, .rad a, .scalar s => some (.rad (Angle.divAssignS a s))
  | .div, .deg a, .scalar s => some (.deg (Angle.divAssignS a s))
  | .rem, .v1 a, .scalar s => some (.v1 (a.remAssignS s)) | .rem, .v2 a, .scalar s => some (.v2 (a.remAssignS s))
  | .rem, .v3 a, .scalar s => some (.v3 (a.remAssignS s)) | .rem, .v4 a, .scalar s => some (.v4 (a.remAssignS s))
  | .rem, .p1 a, .scalar s => some (.p1 (a.remAssignS s)) | .rem, .p2 a, .scalar s => some (.p2 (a.remAssignS s))
  | .rem, .p3 a, .scalar s => some (.p3 (a.remAssignS s))
  | .rem, .m2 a, .scalar s => some (.m2 (a.remAssignS s)) | .rem, .m3 a, .scalar s => some (.m3 (a.remAssignS s))
  | .rem, .m4 a, .scalar s => some (.m4 (a.remAssignS s))
  | .rem, .q a, .scalar s => some (.q (a.remAssignS s))
  | .rem, .rad a, .rad b => some (.rad (Angle.remAssign a b))
  | .rem, .deg a, .deg b => some (.deg (Angle.remAssign a b))
  | _, _, _ => none

/-- unary `-` (vectors, matrices, quaternions, angles) -/
def evalNeg : OVal α → Option (OVal α)
  | .v1 a => some (.v1 (-a)) | .v2 a => some (.v2 (-a)) | .v3 a => some (.v3 (-a)) | .v4 a => some (.v4 (-a))
  | .m2 a => some (.m2 (-a)) | .m3 a => some (.m3 (-a)) | .m4 a => some (.m4 (-a))
  | .q a => some (.q (-a))
  | .rad a => some (.rad (Angle.neg a)) | .deg a => some (.deg (Angle.neg a))
  | _ => none

/-- a reference form exists only for a compound operand: `impl_operator!` generates
`&'a $Lhs` / `&'a $Rhs` impls for the compound types, never `&S` -/
def Form.okFor : Form → OTy → Bool
  | .val, _ => true
  | .ref, .scalar => false
  | .ref, _ => true
/-- `Neg for &'a T` exists for matrices, quaternions and angles, not for vectors -/
def Form.okForNeg : Form → OTy → Bool
  | .val, _ => true
  | .ref, .v1 | .ref, .v2 | .ref, .v3 | .ref, .v4 => false
  | .ref, _ => true

/-- how a binary operation is spelled at the call site -/
inductive OForm where
  /-- `[&]a op [&]b` -/
  | operands (fa fb : Form)
  /-- `a op= b` -/
  | assign
  deriving DecidableEq, Repr

/-- does the impl for this spelling exist, for operands of these types (given that the by-value
one does) -/
def OForm.okFor (f : OForm) (op : BinOp) (s t : OTy) : Bool :=
  match f with
  | .operands fa fb => fa.okFor s && fb.okFor t
  | .assign => assignTy op s t

/-- evaluation of `a op b` spelled in a given form.  The four operand forms expand the SAME
`$body` (macros.rs:33-120), the assignment form runs the assignment code. -/
def evalForm (f : OForm) (op : BinOp) (a b : OVal α) : Option (OVal α) :=
  match f with
  | .operands fa fb => if fa.okFor a.ty && fb.okFor b.ty then evalOp op a b else none
  | .assign => evalAssign op a b

/-- instructions of straight-line programs over registers holding values of any of the types -/
inductive OInstr where
  /-- `let dst = [&]a op [&]b;` -/
  | bin (op : BinOp) (dst a b : Nat) (fa fb : Form)
  /-- `a op= b;` -/
  | asg (op : BinOp) (a b : Nat)
  /-- `let dst = -[&]a;` -/
  | neg (dst a : Nat) (fa : Form)
  deriving DecidableEq, Repr

def setReg (regs : Nat → OVal α) (dst : Nat) (v : OVal α) : Nat → OVal α :=
  fun k => if k = dst then v else regs k

/-- one instruction; `none`: the program does not type-check (no such impl) -/
def OInstr.step (regs : Nat → OVal α) : OInstr → Option (Nat → OVal α)
  | .bin op dst a b fa fb => (evalForm (.operands fa fb) op (regs a) (regs b)).map (setReg regs dst)
  | .asg op a b => (evalForm .assign op (regs a) (regs b)).map (setReg regs a)
  | .neg dst a fa =>
    if fa.okForNeg (regs a).ty then (evalNeg (regs a)).map (setReg regs dst) else none
/-- the same instruction written with by-value operands and an explicit destination -/
def OInstr.erase : OInstr → OInstr
  | .bin op dst a b _ _ => .bin op dst a b .val .val
  | .asg op a b => .bin op a a b .val .val
  | .neg dst a _ => .neg dst a .val
def runProg' : List OInstr → (Nat → OVal α) → Option (Nat → OVal α)
  | [], regs => some regs
  | i :: p, regs => match i.step regs with
    | none => none
    | some regs' => runProg' p regs'
end table

end Cg
